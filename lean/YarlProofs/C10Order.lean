/-
  C10Order.lean — C10 "Equality, hashing and ordering are coherent": closes C10Headline GAPS 4 / 5 (and the order part
  of 3) as far as the model goes.

  (a) the total-preorder facts for the six comparison operators of `URL`, stated for ALL URLs without hypotheses, in
      one place (`C10_order_laws`): what was not yet in C10.lean (`==` implies `<=` and `>=`; `>` / `>=` as converses in
      iff form; `<=` reflexive; `!=`) is proved here, the rest is quoted.
  (b) an INDEPENDENT specification of Python's rich comparison of sequences (`PySpec.seqCmp`, written from the Python
      language reference, §6.10.1 "Value comparisons": "Sequences compare lexicographically using comparison of
      corresponding elements … collections that support order comparison are ordered the same as their first unequal
      elements (for example, `[1,2,x] <= [1,2,y]` has the same value as `x <= y`).  If a corresponding element does not
      exist, the shorter collection is ordered first"; strings "compare lexicographically using the numerical Unicode
      code points of their characters") instantiated twice: `str` = sequence of code points, `_sort_key` = tuple of
      `str`.  All FOUR ordering operators are transcribed separately (`pyTupleLt`, `pyTupleLe`, `pyTupleGt`,
      `pyTupleGe`), and the model's `Url.lt` / `Url.le` / `Url.gt` / `Url.ge` (where `le`, `gt`, `ge` are DEFINED from
      `lt` and key equality) are proved equal to them on the five-element key lists.  The identities
      `t1 <= t2 ↔ t1 < t2 ∨ t1 = t2`, `t1 > t2 ↔ t2 < t1`, `t1 >= t2 ↔ t2 <= t1` are theorems about the specification,
      for tuples of any length.
-/
import YarlModel
import YarlProofs.Lemmas.CmpLemmas
import YarlProofs.C10
set_option linter.unusedVariables false
namespace Yarl

/-! ## (b) the independent specification -/
namespace PySpec

/-- the four ordering operators -/
inductive Ord where
  | lt | le | gt | ge
  deriving DecidableEq, Repr

/-- `a <op> b` on ints (code points; lengths) -/
def natCmp : Ord → Nat → Nat → Bool
  | .lt, a, b => decide (a < b)
  | .le, a, b => decide (a ≤ b)
  | .gt, a, b => decide (a > b)
  | .ge, a, b => decide (a ≥ b)

/-- Python's rich comparison `xs <op> ys` of two sequences with element comparison `elem`: the first pair of
    UNEQUAL corresponding elements decides (with the same operator); if there is none, the lengths are compared
    (the shorter sequence, a prefix of the other, is ordered first; equal lengths: `<` / `>` false, `<=` / `>=` true).
    Structural recursion on the two lists. -/
def seqCmp {α : Type} [DecidableEq α] (elem : Ord → α → α → Bool) (op : Ord) : List α → List α → Bool
  | [], ys => natCmp op 0 ys.length
  | x :: xs, [] => natCmp op (xs.length + 1) 0
  | x :: xs, y :: ys => if x = y then seqCmp elem op xs ys else elem op x y

/-- `s <op> t` for two `str` (sequences of code points) -/
def pyStrCmp (op : Ord) (s t : Str) : Bool := seqCmp natCmp op s t

/-- `t1 <op> t2` for two tuples of `str` -/
def pyTupleCmp (op : Ord) (x y : List Str) : Bool := seqCmp pyStrCmp op x y

end PySpec

open PySpec in
/-- Python's `<` on tuples of str -/
def pyTupleLt (x y : List Str) : Bool := pyTupleCmp .lt x y
open PySpec in
/-- Python's `<=` on tuples of str -/
def pyTupleLe (x y : List Str) : Bool := pyTupleCmp .le x y
open PySpec in
/-- Python's `>` on tuples of str -/
def pyTupleGt (x y : List Str) : Bool := pyTupleCmp .gt x y
open PySpec in
/-- Python's `>=` on tuples of str -/
def pyTupleGe (x y : List Str) : Bool := pyTupleCmp .ge x y

/-- the tuple `(scheme, netloc, path, query, fragment)` as a list -/
def keyList (p : Parts) : List Str := [p.scheme, p.netloc, p.path, p.query, p.fragment]

/-- `URL._sort_key` as a Python tuple of five str (an empty path under an authority counting as "/") -/
def sortKey (u : Url) : List Str := keyList (eqKey u)

namespace R3
open PySpec CmpLemmas

/-! ### generic facts about `seqCmp` -/

variable {α : Type} [DecidableEq α]

theorem seqCmp_lt_refl (elem : Ord → α → α → Bool) (xs : List α) : seqCmp elem .lt xs xs = false := by
  induction xs with
  | nil => rfl
  | cons x xs ih => simp only [seqCmp, if_true, ih]

theorem seqCmp_le_refl (elem : Ord → α → α → Bool) (xs : List α) : seqCmp elem .le xs xs = true := by
  induction xs with
  | nil => rfl
  | cons x xs ih => simp only [seqCmp, if_true, ih]

/-- on UNEQUAL sequences `<=` and `<` agree, provided they agree on unequal elements -/
theorem seqCmp_le_of_ne (elem : Ord → α → α → Bool) (he : ∀ x y, x ≠ y → elem .le x y = elem .lt x y) :
    ∀ xs ys : List α, xs ≠ ys → seqCmp elem .le xs ys = seqCmp elem .lt xs ys
  | [], [], h => absurd rfl h
  | [], _ :: _, _ => by simp [seqCmp, natCmp]
  | _ :: _, [], _ => by simp [seqCmp, natCmp]
  | x :: xs, y :: ys, h => by
    simp only [seqCmp]
    by_cases hxy : x = y
    · subst hxy
      simp only [if_true]
      exact seqCmp_le_of_ne elem he xs ys (fun e => h (by rw [e]))
    · simp only [hxy, if_false]
      exact he x y hxy

/-- `t1 <= t2 ↔ t1 < t2 ∨ t1 = t2`, generic -/
theorem seqCmp_le_iff (elem : Ord → α → α → Bool) (he : ∀ x y, x ≠ y → elem .le x y = elem .lt x y)
    (xs ys : List α) : seqCmp elem .le xs ys = (seqCmp elem .lt xs ys || decide (xs = ys)) := by
  by_cases h : xs = ys
  · subst h; simp [seqCmp_le_refl]
  · simp [h, seqCmp_le_of_ne elem he xs ys h]

/-- `t1 > t2 ↔ t2 < t1`, generic -/
theorem seqCmp_gt (elem : Ord → α → α → Bool) (he : ∀ x y, elem .gt x y = elem .lt y x) :
    ∀ xs ys : List α, seqCmp elem .gt xs ys = seqCmp elem .lt ys xs
  | [], [] => rfl
  | [], _ :: _ => by simp [seqCmp, natCmp]
  | _ :: _, [] => by simp [seqCmp, natCmp]
  | x :: xs, y :: ys => by
    simp only [seqCmp]
    by_cases hxy : x = y
    · subst hxy
      simp only [if_true]
      exact seqCmp_gt elem he xs ys
    · have hyx : ¬ y = x := fun e => hxy e.symm
      simp only [hxy, hyx, if_false]
      exact he x y

/-- `t1 >= t2 ↔ t2 <= t1`, generic -/
theorem seqCmp_ge (elem : Ord → α → α → Bool) (he : ∀ x y, elem .ge x y = elem .le y x) :
    ∀ xs ys : List α, seqCmp elem .ge xs ys = seqCmp elem .le ys xs
  | [], [] => rfl
  | [], _ :: _ => by simp [seqCmp, natCmp]
  | _ :: _, [] => by simp [seqCmp, natCmp]
  | x :: xs, y :: ys => by
    simp only [seqCmp]
    by_cases hxy : x = y
    · subst hxy
      simp only [if_true]
      exact seqCmp_ge elem he xs ys
    · have hyx : ¬ y = x := fun e => hxy e.symm
      simp only [hxy, hyx, if_false]
      exact he x y

/-! ### ints, then str -/

theorem natCmp_le_of_ne (x y : Nat) (h : x ≠ y) : natCmp .le x y = natCmp .lt x y := by
  simp only [natCmp]
  by_cases h1 : x < y
  · have : x ≤ y := by omega
    simp [h1, this]
  · have : ¬ x ≤ y := by omega
    simp [h1, this]

theorem natCmp_gt (x y : Nat) : natCmp .gt x y = natCmp .lt y x := rfl
theorem natCmp_ge (x y : Nat) : natCmp .ge x y = natCmp .le y x := rfl

theorem pyStr_le_of_ne (s t : Str) (h : s ≠ t) : pyStrCmp .le s t = pyStrCmp .lt s t :=
  seqCmp_le_of_ne natCmp natCmp_le_of_ne s t h
theorem pyStr_gt (s t : Str) : pyStrCmp .gt s t = pyStrCmp .lt t s := seqCmp_gt natCmp natCmp_gt s t
theorem pyStr_ge (s t : Str) : pyStrCmp .ge s t = pyStrCmp .le t s := seqCmp_ge natCmp natCmp_ge s t

/-- the model's string order IS the specification's `<` on code-point sequences -/
theorem pyStrLt_eq_ltStr : ∀ s t : Str, pyStrCmp .lt s t = ltStr s t
  | [], [] => rfl
  | [], _ :: _ => by simp [pyStrCmp, seqCmp, natCmp, ltStr]
  | _ :: _, [] => by simp [pyStrCmp, seqCmp, natCmp, ltStr]
  | a :: as, b :: bs => by
    have ih := pyStrLt_eq_ltStr as bs
    simp only [pyStrCmp] at ih
    simp only [pyStrCmp, seqCmp, ltStr, natCmp]
    by_cases hab : a = b
    · subst hab
      simp only [if_true, Nat.lt_irrefl, if_false, ih]
    · simp only [hab, if_false]
      by_cases h1 : a < b
      · simp [h1]
      · have h2 : b < a := by omega
        simp [h1, h2]

/-! ### the five-element key -/

theorem keyList_inj {p q : Parts} (h : keyList p = keyList q) : p = q := by
  simp only [keyList, List.cons.injEq, and_true] at h
  exact parts_ext h.1 h.2.1 h.2.2.1 h.2.2.2.1 h.2.2.2.2

theorem keyList_eq_iff (p q : Parts) : keyList p = keyList q ↔ p = q :=
  ⟨keyList_inj, fun h => by rw [h]⟩

/-- one level of `ltParts` against one level of `seqCmp` -/
theorem lex_step {x y : Str} {r r' : Bool} (hr : x = y → r = r') :
    (if x ≠ y then ltStr x y else r) = (if x = y then r' else pyStrCmp .lt x y) := by
  by_cases h : x = y
  · simp only [h, ne_eq, not_true_eq_false, if_false, if_true]; exact hr h
  · simp only [h, ne_eq, not_false_eq_true, if_true, if_false]; exact (pyStrLt_eq_ltStr x y).symm

theorem ltParts_eq_pyTupleLt (p q : Parts) : ltParts p q = pyTupleLt (keyList p) (keyList q) := by
  unfold ltParts pyTupleLt pyTupleCmp keyList
  simp only [seqCmp]
  refine lex_step (fun _ => ?_)
  refine lex_step (fun _ => ?_)
  refine lex_step (fun _ => ?_)
  refine lex_step (fun _ => ?_)
  by_cases h : p.fragment = q.fragment
  · rw [h, ltStr_irrefl]; simp [natCmp]
  · simp only [h, if_false]; exact (pyStrLt_eq_ltStr _ _).symm

end R3

open PySpec R3 CmpLemmas

/-! ## (b) theorems about the specification, and the model against it -/

/-- `t1 <= t2 ↔ t1 < t2 ∨ t1 = t2` for Python tuples of str of ANY lengths — a theorem about the independent
    specification (C10Headline GAPS 4: "the identities … are assumed, not proved") -/
theorem C10_pyTupleLe_iff (x y : List Str) : pyTupleLe x y = true ↔ (pyTupleLt x y = true ∨ x = y) := by
  unfold pyTupleLe pyTupleLt pyTupleCmp
  rw [seqCmp_le_iff pyStrCmp pyStr_le_of_ne]
  simp

/-- `t1 > t2 ↔ t2 < t1` and `t1 >= t2 ↔ t2 <= t1` for Python tuples of str of any lengths -/
theorem C10_pyTupleGt_Ge (x y : List Str) : pyTupleGt x y = pyTupleLt y x ∧ pyTupleGe x y = pyTupleLe y x :=
  ⟨seqCmp_gt pyStrCmp pyStr_gt x y, seqCmp_ge pyStrCmp pyStr_ge x y⟩

/-- the same three identities one level down, for `str` (sequences of code points), and the model's `ltStr` is the
    specification's `<` (C10Headline GAPS 5: code-point order incl. lone surrogates / non-BMP: a code point is a `Nat`) -/
theorem C10_pyStr_order (s t : Str) :
    PySpec.pyStrCmp .lt s t = ltStr s t ∧
    (PySpec.pyStrCmp .le s t = true ↔ (PySpec.pyStrCmp .lt s t = true ∨ s = t)) ∧
    PySpec.pyStrCmp .gt s t = PySpec.pyStrCmp .lt t s ∧ PySpec.pyStrCmp .ge s t = PySpec.pyStrCmp .le t s := by
  refine ⟨pyStrLt_eq_ltStr s t, ?_, pyStr_gt s t, pyStr_ge s t⟩
  unfold pyStrCmp
  rw [seqCmp_le_iff natCmp natCmp_le_of_ne]
  simp

/-- the model's tuple `<` (`ltParts`) is Python's `<` on the two five-element tuples -/
theorem C10_ltParts_eq_pyTupleLt (p q : Parts) : ltParts p q = pyTupleLt (keyList p) (keyList q) :=
  ltParts_eq_pyTupleLt p q

/-- ALL SIX comparison operators of `URL` against the independent specification applied to the `_sort_key`
    tuples: `<`, `<=`, `>`, `>=` are Python's tuple comparisons (each transcribed on its own), `==` / `!=` are
    (in)equality of the tuples.  So the model's DEFINITIONS `le := lt || key-equality`, `gt a b := lt b a`,
    `ge a b := le b a` are theorems about `_sort_key <= …`, `>`, `>=`. -/
theorem C10_order_eq_pyTuple (a b : Url) :
    a.lt b = pyTupleLt (sortKey a) (sortKey b) ∧
    a.le b = pyTupleLe (sortKey a) (sortKey b) ∧
    a.gt b = pyTupleGt (sortKey a) (sortKey b) ∧
    a.ge b = pyTupleGe (sortKey a) (sortKey b) ∧
    a.beq b = decide (sortKey a = sortKey b) ∧
    (!a.beq b) = decide (sortKey a ≠ sortKey b) := by
  have hlt : ∀ a b : Url, a.lt b = pyTupleLt (sortKey a) (sortKey b) :=
    fun a b => ltParts_eq_pyTupleLt (eqKey a) (eqKey b)
  have hle : ∀ a b : Url, a.le b = pyTupleLe (sortKey a) (sortKey b) := by
    intro a b
    have h := seqCmp_le_iff pyStrCmp pyStr_le_of_ne (sortKey a) (sortKey b)
    unfold pyTupleLe pyTupleCmp
    rw [h]
    show (a.lt b || decide (eqKey a = eqKey b)) = _
    rw [hlt a b]
    unfold pyTupleLt pyTupleCmp sortKey
    congr 1
    exact decide_eq_decide.mpr (keyList_eq_iff _ _).symm
  refine ⟨hlt a b, hle a b, ?_, ?_, ?_, ?_⟩
  · rw [(C10_pyTupleGt_Ge _ _).1]; exact hlt b a
  · rw [(C10_pyTupleGt_Ge _ _).2]; exact hle b a
  · show decide (eqKey a = eqKey b) = _
    exact decide_eq_decide.mpr (keyList_eq_iff _ _).symm
  · show (!decide (eqKey a = eqKey b)) = _
    simp only [sortKey, ne_eq, keyList_eq_iff, decide_not]

/-! ## (a) the order laws, for all URLs, no hypotheses -/

/-- `a == b` implies `a <= b` and `a >= b` (and excludes `<`, `>`, `!=`) -/
theorem C10_eq_le_ge (a b : Url) (h : a.beq b = true) :
    a.le b = true ∧ a.ge b = true ∧ a.lt b = false ∧ a.gt b = false ∧ (!a.beq b) = false := by
  have hk : eqKey a = eqKey b := (beq_iff a b).mp h
  refine ⟨(C10_le_iff a b).mpr (Or.inr h), (C10_le_iff b a).mpr (Or.inr ((beq_iff b a).mpr hk.symm)), ?_, ?_, by simp [h]⟩
  · show ltParts (eqKey a) (eqKey b) = false
    rw [hk]; exact ltParts_irrefl _
  · show ltParts (eqKey b) (eqKey a) = false
    rw [hk]; exact ltParts_irrefl _

/-- `<=` is reflexive -/
theorem C10_le_refl (a : Url) : a.le a = true := (C10_eq_le_ge a a (C10_equivalence.1 a)).1

/-- The ordering operators form a total preorder consistent with equality — every law, for ALL URLs:
    totality of `<=`; `<` is `<=` without `==`; `>` / `>=` are the converses of `<` / `<=`; `<` and `<=` are transitive;
    `==` implies `<=` and `>=`; `<=` is antisymmetric up to `==`; `<=` both ways is exactly `==`; `<=` is reflexive. -/
theorem C10_order_laws :
    (∀ a b : Url, a.le b = true ∨ b.le a = true) ∧
    (∀ a b : Url, a.lt b = true ↔ (a.le b = true ∧ ¬ a.beq b = true)) ∧
    (∀ a b : Url, a.gt b = true ↔ b.lt a = true) ∧
    (∀ a b : Url, a.ge b = true ↔ b.le a = true) ∧
    (∀ a b c : Url, a.lt b = true → b.lt c = true → a.lt c = true) ∧
    (∀ a b c : Url, a.le b = true → b.le c = true → a.le c = true) ∧
    (∀ a b : Url, a.beq b = true → (a.le b = true ∧ a.ge b = true)) ∧
    (∀ a b : Url, a.le b = true → b.le a = true → a.beq b = true) ∧
    (∀ a b : Url, a.beq b = true ↔ (a.le b = true ∧ a.ge b = true)) ∧
    (∀ a : Url, a.le a = true) := by
  refine ⟨C10_le_total, ?_, fun _ _ => Iff.rfl, fun _ _ => Iff.rfl, C10_lt_trans, C10_le_trans,
    fun a b h => ⟨(C10_eq_le_ge a b h).1, (C10_eq_le_ge a b h).2.1⟩, C10_le_antisymm,
    fun a b => ⟨fun h => ⟨(C10_eq_le_ge a b h).1, (C10_eq_le_ge a b h).2.1⟩, fun h => C10_le_antisymm a b h.1 h.2⟩,
    C10_le_refl⟩
  intro a b
  rw [C10_lt_iff_le_not_eq]
  simp

/-- mixed transitivity (`<` with `<=`), as Python programs sorting URLs rely on -/
theorem C10_lt_le_trans (a b c : Url) :
    (a.lt b = true → b.le c = true → a.lt c = true) ∧ (a.le b = true → b.lt c = true → a.lt c = true) := by
  refine ⟨fun h1 h2 => ?_, fun h1 h2 => ?_⟩
  · rcases (C10_le_iff b c).mp h2 with h | h
    · exact C10_lt_trans a b c h1 h
    · rw [← (C10_lt_respects_eq b c a h).2]; exact h1
  · rcases (C10_le_iff a b).mp h1 with h | h
    · exact C10_lt_trans a b c h h2
    · rw [(C10_lt_respects_eq a b c h).1]; exact h2

/-! ## concrete checks (non-vacuity; the specification computes what Python computes) -/

-- ("a",) < ("a", "") ; ("a", "b") < ("b",) ; ("ab",) < ("b",) ; () <= () ; not () < ()
example : pyTupleLt ["a".toStr] ["a".toStr, []] = true ∧ pyTupleLt ["a".toStr, "b".toStr] ["b".toStr] = true ∧
    pyTupleLt ["ab".toStr] ["b".toStr] = true ∧ pyTupleLe [] [] = true ∧ pyTupleLt [] [] = false ∧
    pyTupleGe ["a".toStr] ["a".toStr] = true ∧ pyTupleGt ["a".toStr, []] ["a".toStr] = true ∧
    pyTupleLe ["b".toStr] ["a".toStr, "z".toStr] = false := by decide
-- str: prefix first, code points (upper case before lower case; a non-BMP code point after a BMP one)
example : PySpec.pyStrCmp .lt "ab".toStr "abc".toStr = true ∧ PySpec.pyStrCmp .lt "Z".toStr "a".toStr = true ∧
    PySpec.pyStrCmp .lt [0xFFFF] [0x10000] = true ∧ PySpec.pyStrCmp .le [0xD800] [0xD800] = true ∧
    PySpec.pyStrCmp .gt [0xD800] [0x61] = true := by decide
-- URL('http://h') vs URL('http://h/'): equal keys, so <= and >= both ways, neither < nor >
example : let a := fromParts "http".toStr "h".toStr [] [] []
    let b := fromParts "http".toStr "h".toStr [47] [] []
    sortKey a = sortKey b ∧ pyTupleLe (sortKey a) (sortKey b) = true ∧ pyTupleGe (sortKey a) (sortKey b) = true ∧
    pyTupleLt (sortKey a) (sortKey b) = false ∧ pyTupleGt (sortKey a) (sortKey b) = false := by decide
-- hypotheses of the mixed transitivity laws are satisfiable with `<=` holding by equality
example : let a := fromParts "http".toStr "a".toStr [] [] []
    let b := fromParts "http".toStr "b".toStr [] [] []
    let c := fromParts "http".toStr "b".toStr [47] [] []
    a.lt b = true ∧ b.le c = true ∧ b.lt c = false ∧ a.lt c = true := by decide

end Yarl
