import YarlProofs.C12
import YarlProofs.C12Readback
import YarlProofs.C12Url
/-!
# C12 — Query operations implement multi-dict algebra exactly   (audit layer)

Property statement (verbatim):

> with_query(q) yields exactly the pairs of q in order (a list/tuple value in a mapping expands to
> repeated keys; ints and floats are rendered by str()); extend_query appends q's pairs after the
> existing ones; update_query replaces all pairs whose key occurs in q and keeps every other pair in
> order; without_query_params removes exactly the named keys. None clears the query (with_query,
> update_query) or is a no-op (extend_query); bool, None values, NaN/inf and bytes are rejected with
> TypeError/ValueError; the argument is never mutated.

Reading guide.  `queryPairs v` is `url.query` as a list of (key, value) pairs (stdlib `parse_qsl` of the
stored text).  An argument is a `QArg`: `.mapping items` (dict / MultiDict / kwargs), `.pairs items`
(sequence of 2-tuples), `.str`, `.none`, `.bytes`, `.other`.  `expandItems items = some ps` says "the
argument denotes the pairs `ps`": a `.many` slot expands to repeated keys, `.int n` is `str(n)`
(`intToStr`), `.float txt 0` is the text Python prints, and it is `none` iff `query_var` rejects a value.
`SingleValued items`: no slot is a list/tuple.  `GoodPairs ps` / `GoodText t`: Python strings without
lone surrogates (a lone surrogate cannot be UTF-8 encoded; the quoter drops it: C06).
-/
namespace Yarl
open QsLemmas MdLemmas QueryUrl

/-! ## with_query -/

/-- "with_query(q) yields exactly the pairs of q in order (a list/tuple value in a mapping expands to
    repeated keys; ints and floats are rendered by str())" — mapping argument -/
theorem C12_headline_with_query_mapping (e : Env) (u : Url) (items : List (Str × QItem)) (ps : List (Str × Str))
    (hden : expandItems items = some ps)
    -- excludes lone surrogates in keys/values, which the quoter drops (known finding, C06 "lone surrogates excepted")
    (hg : GoodPairs ps) :
    ∃ v, withQuery e u (.mapping items) = .ok v ∧ queryPairs v = ps ∧
      v.scheme = u.scheme ∧ v.netloc = u.netloc ∧ v.path = u.path ∧ v.fragment = u.fragment :=
  C12_url_with_query_mapping' e u items ps hden hg

/-- the same for a sequence of (key, value) tuples -/
theorem C12_headline_with_query_pairs (e : Env) (u : Url) (items : List (Str × QItem)) (ps : List (Str × Str))
    -- in a SEQUENCE a list/tuple value is rejected with TypeError (`C12_pairs_list_value_rejected`)
    (hs : SingleValued items)
    (hden : expandItems items = some ps) (hg : GoodPairs ps) :
    ∃ v, withQuery e u (.pairs items) = .ok v ∧ queryPairs v = ps ∧
      v.scheme = u.scheme ∧ v.netloc = u.netloc ∧ v.path = u.path ∧ v.fragment = u.fragment :=
  C12_url_with_query_pairs' e u items ps hs hden hg

/-! ## extend_query -/

/-- "extend_query appends q's pairs after the existing ones" — no hypothesis on the old query -/
theorem C12_headline_extend_query (e : Env) (u : Url) (items : List (Str × QItem)) (ps : List (Str × Str))
    (hden : expandItems items = some ps) (hg : GoodPairs ps) :
    (∃ v, extendQuery e u (.mapping items) = .ok v ∧ queryPairs v = queryPairs u ++ ps) ∧
    (SingleValued items →
      ∃ v, extendQuery e u (.pairs items) = .ok v ∧ queryPairs v = queryPairs u ++ ps) := by
  -- -- Appendix E: C12_extend ↦ this theorem (C12_url_extend_query, C12_url_extend_query_pairs)
  by_cases hne : ps = []
  · subst hne
    refine ⟨⟨u, C12_url_extend_query_no_pairs e u items hden, by simp⟩, fun hs => ?_⟩
    -- a pair sequence that denotes no pair is the empty sequence
    cases items with
    | nil =>
      obtain ⟨v, hv, hq⟩ := (C12_url_none_and_empty e u).2.2.2.2.2.2.2.1
      exact ⟨v, hv, by simpa using hq⟩
    | cons p rest =>
      obtain ⟨k, it⟩ := p
      cases it with
      | one v => simp only [expandItems] at hden; split at hden <;> simp_all
      | many vs => exact absurd (hs _ (List.mem_cons_self ..)) (by simp [QItem.isOne])
  · exact ⟨C12_url_extend_query e u items ps hden hg hne,
      fun hs => C12_url_extend_query_pairs e u items ps hs hden hg hne⟩

/-! ## update_query -/

/-- `update_query(q)` is `MultiDict(url.query).update(q)` (multidict 6.2, modelled by `mdUpdate`), for a
    pair sequence, a mapping with single values and a string argument -/
theorem C12_headline_update_is_multidict_update (e : Env) (u : Url) (items : List (Str × QItem))
    (ps : List (Str × Str)) (s : Str)
    -- the OLD pairs are re-rendered too: a lone surrogate in the old query (possible with encoded=True
    -- only) is lost — `C12_url_update_query_needs_good_old`
    (hold : GoodPairs (queryPairs u)) :
    (SingleValued items → expandItems items = some ps → GoodPairs ps → ps ≠ [] →
      (∃ v, updateQuery e u (.pairs items) = .ok v ∧ queryPairs v = mdUpdate (queryPairs u) ps) ∧
      (∃ v, updateQuery e u (.mapping items) = .ok v ∧ queryPairs v = mdUpdate (queryPairs u) ps)) ∧
    (GoodText s → s ≠ [] →
      ∃ v, updateQuery e u (.str s) = .ok v ∧ queryPairs v = mdUpdate (queryPairs u) (parseQsl s)) :=
  ⟨fun hs hden hg hne => ⟨C12_url_update_query e u items ps hs hden hg hold hne,
      C12_url_update_query_mapping e u items ps hs hden hg hold hne⟩,
   fun hs hne => C12_url_update_query_str e u s hs hold hne⟩

/-- "update_query … keeps every other pair in order" — true without further guard
    -- Appendix E: C12_update_keeps ↦ this theorem (C12_url_update_keeps_others; list level C12_update_keeps_others) -/
theorem C12_headline_update_keeps_others (e : Env) (u : Url) (items : List (Str × QItem)) (ps : List (Str × Str))
    (hs : SingleValued items) (hden : expandItems items = some ps) (hg : GoodPairs ps)
    (hold : GoodPairs (queryPairs u)) (hne : ps ≠ []) :
    ∃ v, updateQuery e u (.pairs items) = .ok v ∧
      (queryPairs v).filter (fun p => !(keysOf ps).contains p.1) =
        (queryPairs u).filter (fun p => !(keysOf ps).contains p.1) :=
  C12_url_update_keeps_others e u items ps hs hden hg hold hne

/-- "update_query replaces all pairs whose key occurs in q" — GUARDED: for an updated key `k` the values
    in the result are exactly the new values of `k`, in order, PROVIDED every other updated key has at
    most as many old entries as new ones.
    -- Appendix E: C12_update_sets ↦ false as stated (`C12_update_sets_keys_false`); this is its `_partial` -/
theorem C12_headline_update_replaces (e : Env) (u : Url) (items : List (Str × QItem)) (ps : List (Str × Str))
    (k : Str) (hs : SingleValued items) (hden : expandItems items = some ps) (hg : GoodPairs ps)
    (hold : GoodPairs (queryPairs u)) (hk : k ∈ keysOf ps)
    -- excludes the stale-duplicate case of multidict's update(): `C12_headline_update_replaces_fails_for`
    (htail : ∀ k' ∈ keysOf ps, k' ≠ k →
      ((queryPairs u).filter (fun p => p.1 = k')).length ≤ (ps.filter (fun p => p.1 = k')).length) :
    ∃ v, updateQuery e u (.pairs items) = .ok v ∧
      ((queryPairs v).filter (fun p => p.1 = k)).map (·.2) = (ps.filter (fun p => p.1 = k)).map (·.2) :=
  C12_url_update_sets_keys e u items ps k hs hden hg hold hk htail

/-- … and WITHOUT the guard: the new values come first, followed by a sublist of the old values that were
    not overwritten (this is all that is true in general) -/
theorem C12_headline_update_replaces_unguarded (e : Env) (u : Url) (items : List (Str × QItem))
    (ps : List (Str × Str)) (k : Str) (hs : SingleValued items) (hden : expandItems items = some ps)
    (hg : GoodPairs ps) (hold : GoodPairs (queryPairs u)) (hk : k ∈ keysOf ps) :
    ∃ v, updateQuery e u (.pairs items) = .ok v ∧
      ∃ S, ((queryPairs v).filter (fun p => p.1 = k)).map (·.2) = (ps.filter (fun p => p.1 = k)).map (·.2) ++ S ∧
        S.Sublist ((((queryPairs u).filter (fun p => p.1 = k)).map (·.2)).drop (ps.filter (fun p => p.1 = k)).length) :=
  C12_url_update_sets_keys_split e u items ps k hs hden hg hold hk

/-- KNOWN FINDING (multidict 6.2 `update()`, C and Python implementation): `?a=1&a=2&b=3&b=4` updated with
    `a=9&b=8` gives `a=9&b=8&b=4` — the stale `b=4` survives; so "replaces all pairs" is false as stated -/
theorem C12_headline_update_replaces_fails_for :
    mdUpdate [([97], 1), ([97], 2), ([98], 3), ([98], 4)] [([97], 9), ([98], 8)] = [([97], 9), ([98], 8), ([98], 4)] ∧
    ¬ ∀ (old new : List (Str × Nat)) (k : Str), k ∈ keysOf new →
      ((mdUpdate old new).filter (fun p => p.1 = k)).map (·.2) = (new.filter (fun p => p.1 = k)).map (·.2) :=
  ⟨C12_update_sets_keys_counterexample, C12_update_sets_keys_false⟩

/-! ## without_query_params -/

/-- "without_query_params removes exactly the named keys" (and keeps the others in order) -/
theorem C12_headline_without_query_params (e : Env) (u : Url) (names : List Str)
    -- the kept pairs are re-rendered: see `C12_headline_without_query_params_fails_for`
    (hold : GoodPairs (queryPairs u)) :
    ∃ v, withoutQueryParams e u names = .ok v ∧
      queryPairs v = (queryPairs u).filter (fun p => !names.contains p.1) :=
  C12_url_without_query_params e u names hold

/-- the guard is needed: `?\ud800=1&b=2` (encoded=True only) without "b" reads back `("", "1")` -/
theorem C12_headline_without_query_params_fails_for (e : Env) :
    ∃ v, withoutQueryParams e surrUrl [[98]] = .ok v ∧ queryPairs v = [([], [49])] ∧
      (queryPairs surrUrl).filter (fun p => ![[98]].contains p.1) = [([0xD800], [49])] :=
  C12_url_without_query_params_needs_good_old e

/-! ## None, rejected values -/

/-- "None clears the query (with_query, update_query) or is a no-op (extend_query)" -/
theorem C12_headline_none (e : Env) (u : Url) :
    withQuery e u .none = .ok (fromParts u.scheme u.netloc u.path [] u.fragment) ∧
    updateQuery e u .none = .ok (fromParts u.scheme u.netloc u.path [] u.fragment) ∧
    extendQuery e u .none = .ok u :=
  ⟨C12_with_query_none e u, C12_update_query_none e u, C12_extend_query_none e u⟩

/-- "bool, None values, NaN/inf … are rejected with TypeError/ValueError": the per-value gate `query_var` -/
theorem C12_headline_value_gate (v : QVal) :
    (queryVar v = .error .typeError ↔ (v = .bool ∨ v = .none ∨ v = .other)) ∧
    (queryVar v = .error .valueError ↔ ∃ t k, v = .float t k ∧ k ≠ 0) ∧
    (∀ n, queryVar (.int n) = .ok (intToStr n)) ∧ (∀ s, queryVar (.str s) = .ok s) :=
  C12_query_var_gate v

/-- … a rejected value anywhere in a mapping (list slots included) rejects the whole `with_query` AND
    `extend_query` call with the error of the first offending value; in a sequence a list value is a TypeError.
    (The `extend_query` half is NEW in this file.) -/
theorem C12_headline_rejects_values (e : Env) (u : Url) (items : List (Str × QItem)) (err : PyErr)
    (h : firstErr (flatVals items) = some err) :
    withQuery e u (.mapping items) = .error err ∧ extendQuery e u (.mapping items) = .error err := by
  have hw := C12_with_query_mapping_first_error e u items err h
  refine ⟨hw, ?_⟩
  unfold withQuery at hw
  unfold extendQuery
  cases hg : getStrQuery e.b (.mapping items) with
  | error er => rw [hg] at hw; cases hw; rfl
  | ok x => rw [hg] at hw; cases hw

/-- "… and bytes are rejected" (TypeError), and whatever fails fails with TypeError or ValueError only -/
theorem C12_headline_rejects_bytes (e : Env) (u : Url) (a : QArg) (err : PyErr) :
    (withQuery e u (.bytes false) = .error .typeError ∧ extendQuery e u (.bytes false) = .error .typeError ∧
      updateQuery e u (.bytes false) = .error .typeError) ∧
    ((withQuery e u a = .error err ∨ extendQuery e u a = .error err ∨ updateQuery e u a = .error err) →
      err = .typeError ∨ err = .valueError) :=
  ⟨C12_bytes_rejected e u, fun h => h.elim (C12_with_query_error_kinds e u a err)
    (fun h => h.elim (C12_extend_query_error_kinds e u a err) (C12_update_query_error_kinds e u a err))⟩

/-! ## non-vacuity -/
example : expandItems sampleItems = some samplePs ∧ GoodPairs samplePs := by decide +kernel
example : firstErr (flatVals [([97], .one (.int 1)), ([98], .many [.str [120], .float [105, 110, 102] 1, .bool])]) =
    some .valueError := by decide

/-
GAPS:
 1. "the argument is never mutated": NOT expressible in the model (arguments are immutable Lean values);
    no theorem.  Covered only by the differential/mutation harness (C08 treats URL immutability, not
    argument immutability).
 2. String arguments: `with_query("a=1&b=2")` and `extend_query("…")` — no theorem says which pairs the
    result has (only the empty string and `update_query(str)` are covered).  Needed: `parseQsl
    (QUERY_QUOTER s) = parseQsl s` for GoodText s (C02 has the byte-level fact `pctDecodeQs …`, not this).
 3. "floats are rendered by str()": `str(float)` is an INPUT of the model (`QVal.float txt kind`); only the
    finite/NaN/inf classification is modelled.  Ints: `intToStr` is proved nowhere to equal Python's
    `str(int)` beyond its definition (sign + decimal digits).
 4. update_query with a mapping containing list/tuple values: only `C12_url_update_query_mapping_lists`
    (result = expansion of the slot-level update, hypothesis on the RESULT), and
    `C12_url_update_query_lists_differ` showing it is not `mdUpdate` on expanded pairs.  The clauses
    "keeps every other pair" / "replaces" are not stated for that case.  They are also stated at URL level
    only for `.pairs`; for `.mapping`/`.str` they follow from C12_headline_update_is_multidict_update +
    the list-level C12_update_keeps_others / C12_update_sets_keys, composition not written.
 5. "replaces all pairs whose key occurs in q" is FALSE in general (multidict stale duplicate); proved
    only under the no-tail guard, plus the unguarded prefix/sublist description.
 6. Rejected values: "the call fails" is proved for with_query / extend_query with a MAPPING argument.
    For a pair SEQUENCE with a bad single value, and for update_query with any bad value, only "if it
    fails, the error is TypeError/ValueError" is proved — not that it fails.  `bool` etc. as KEYS, and
    non-str keys, are not modelled (keys are `Str`).
 7. without_query_params / update_query need `GoodPairs (queryPairs u)` (old query free of lone
    surrogates); always true for auto-encoded URLs, but that implication (constructor result ⇒
    GoodText u.query, from C01 ASCII-ness) is not written down as a theorem.
 8. `mdUpdate` is a hand model of multidict 6.2 `_update_items` (checked by the differential harness); there
    is no proof link to multidict's source.  kwargs-vs-positional conflicts (`.noArgs`, both given) are
    modelled only as `.noArgs → ValueError`.
-/
end Yarl
