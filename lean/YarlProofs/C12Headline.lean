import YarlProofs.C12
import YarlProofs.C12Readback
import YarlProofs.C12Url
import YarlProofs.C12More
/-!
# C12 — Query operations implement multi-dict algebra exactly   (audit layer)

Property statement (verbatim):

> with_query(q) yields exactly the pairs of q in order (a list/tuple value in a mapping expands to
> repeated keys; ints and floats are rendered by str()); extend_query appends q's pairs after the
> existing ones; update_query replaces all pairs whose key occurs in q and keeps every other pair in
> order; without_query_params removes exactly the named keys. None clears the query (with_query,
> update_query) or is a no-op (extend_query); bool, None values, NaN/inf and bytes are rejected with
> TypeError/ValueError; the argument is never mutated.

Reading guide.  `queryPairs v` is `url.query` as a list of (key, value) pairs (stdlib `parse_qsl` of the
stored text).  An argument is a `QArg`: `.mapping items` (dict / MultiDict / kwargs), `.pairs items`
(sequence of 2-tuples), `.str`, `.none`, `.bytes`, `.other`.  `expandItems items = some ps` says "the
argument denotes the pairs `ps`": a `.many` slot expands to repeated keys, `.int n` is `str(n)`
(`intToStr`), `.float txt 0` is the text Python prints, and it is `none` iff `query_var` rejects a value.
`SingleValued items`: no slot is a list/tuple.  `GoodPairs ps` / `GoodText t`: Python strings without
lone surrogates (a lone surrogate cannot be UTF-8 encoded; the quoter drops it: C06).
From C12More.lean: `parseQslLit s` = the pairs a whole query STRING denotes when it is an ARGUMENT of with_query /
extend_query (spelled out in `C12_headline_str_argument_pairs_def`); `QsMore.slotErr` / `QsMore.pairsFirstErr` = the error a
slot / the first offending slot of a pair SEQUENCE raises (spelled out in `C12_headline_rejected_value_kinds_pairs`);
`Reach e u` (C01Reach.lean) = `u` is obtainable through the auto-encoding API: `URL(s)` on a Python string, `URL.build(...,
encoded=False)`, any of the modifiers (`with_path` with `encoded=False`) with Python-string arguments, `join`, copies.
Continued in C12HeadlineMore3.lean (GAPS 9: the clauses over `ReachE`, the closure of ALL entry points incl. `encoded=True`,
C12ReachE.lean; tail of GAPS 6: non-str keys, wrong-typed values and arguments in every container — MODEL-LEVEL, over the
dynamic-dispatch model YarlModel/Dyn.lean, C12Dyn.lean).
Continued further in C12HeadlineMore4.lean (headline theorems for the proof modules added after the last refresh:
C12Spec.lean; the GAPS block below cites them).
Continued in C12HeadlineMore5.lean (C02QueryStr.lean, added later: the STRING forms of with_query / extend_query /
update_query and the `%` operator — GAPS 2, 5, 7, 10 (c), 12).
-/
namespace Yarl
open QsLemmas MdLemmas QueryUrl QsMore

/-! ## with_query -/

/-- "with_query(q) yields exactly the pairs of q in order (a list/tuple value in a mapping expands to
    repeated keys; ints and floats are rendered by str())" — mapping argument -/
theorem C12_headline_with_query_mapping (e : Env) (u : Url) (items : List (Str × QItem)) (ps : List (Str × Str))
    (hden : expandItems items = some ps)
    -- excludes lone surrogates in keys/values, which the quoter drops (known finding, C06 "lone surrogates excepted")
    (hg : GoodPairs ps) :
    ∃ v, withQuery e u (.mapping items) = .ok v ∧ queryPairs v = ps ∧
      v.scheme = u.scheme ∧ v.netloc = u.netloc ∧ v.path = u.path ∧ v.fragment = u.fragment :=
  C12_url_with_query_mapping' e u items ps hden hg

/-- the same for a sequence of (key, value) tuples -/
theorem C12_headline_with_query_pairs (e : Env) (u : Url) (items : List (Str × QItem)) (ps : List (Str × Str))
    -- in a SEQUENCE a list/tuple value is rejected with TypeError (`C12_pairs_list_value_rejected`)
    (hs : SingleValued items)
    (hden : expandItems items = some ps) (hg : GoodPairs ps) :
    ∃ v, withQuery e u (.pairs items) = .ok v ∧ queryPairs v = ps ∧
      v.scheme = u.scheme ∧ v.netloc = u.netloc ∧ v.path = u.path ∧ v.fragment = u.fragment :=
  C12_url_with_query_pairs' e u items ps hs hden hg

/-- what `parseQslLit` is (definition of C12More.lean, by `rfl`): split the text on '&', drop empty pieces, split each
    piece at its first '=' (no '=': the value is ""), turn '+' into ' ' in key and value — and NO percent-decoding -/
theorem C12_headline_str_argument_pairs_def (s : Str) :
    parseQslLit s = (splitOn 38 s).filterMap (fun nv =>
      if nv.isEmpty then none
      else some (plusToSpace (splitFirstEq nv).1, plusToSpace ((splitFirstEq nv).2.getD []))) := rfl

/-- "with_query(q) yields exactly the pairs of q in order" — STRING argument (closes GAPS 2): `with_query("a=1&b=2")` has
    exactly the LITERAL pairs of the string (`parseQslLit`: '+' is a space, '%' is data — the text is quoted, not requoted),
    which are the `parse_qsl` pairs of the string when it contains no '%'; the other components are kept -/
theorem C12_headline_with_query_str (e : Env) (u : Url) (s : Str)
    -- excludes lone surrogates in the text, which the quoter drops (C06 "lone surrogates excepted":
    -- `C12_headline_with_query_str_fails_for_lone_surrogate`)
    (hs : GoodText s) :
    ∃ v, withQuery e u (.str s) = .ok v ∧ queryPairs v = parseQslLit s ∧
      (37 ∉ s → queryPairs v = parseQsl s) ∧   -- with a '%' FALSE: `C12_headline_with_query_str_fails_for_percent`
      v.scheme = u.scheme ∧ v.netloc = u.netloc ∧ v.path = u.path ∧ v.fragment = u.fragment := by
  obtain ⟨v, h1, h2, h3⟩ := C12_with_query_str_pairs e u s hs
  exact ⟨v, h1, h2, fun h => by rw [h2, C12_parseQslLit_no_pct s h], h3⟩

/-- the side condition `37 ∉ s` of the `parse_qsl` clause above is needed — see the OBSERVATION
    `C12_headline_observation_str_argument_pct` below: a '%XY' in a STRING argument is DATA for `with_query` /
    `extend_query` (`"a=%41"` is stored as `a=%2541` and reads back as `("a", "%41")`) but an ESCAPE for `update_query`
    (the string goes through `parse_qsl` first: `("a", "A")`).  So "the pairs of q" of a string are not the `parse_qsl`
    pairs for with_query / extend_query: the lemma GAPS 2 asked for, `parseQsl (QUERY_QUOTER s) = parseQsl s`, is false
    (`parseQslLit s ≠ parseQsl s` here).  This refutes that LEMMA, not a clause of C12.  `u` = `http://h/`, `s` = "a=%41".
    Cites C12_str_argument_pct_differs. -/
theorem C12_headline_with_query_str_fails_for_percent (e : Env) :
    let u := fromParts [104, 116, 116, 112] [104] [47] [] []
    let s : Str := [97, 61, 37, 52, 49]
    GoodText s ∧
    (∃ v, withQuery e u (.str s) = .ok v ∧ queryPairs v = [([97], [37, 52, 49])]) ∧
    (∃ v, extendQuery e u (.str s) = .ok v ∧ queryPairs v = [([97], [37, 52, 49])]) ∧
    (∃ v, updateQuery e u (.str s) = .ok v ∧ queryPairs v = [([97], [65])]) ∧
    parseQslLit s ≠ parseQsl s :=
  C12_str_argument_pct_differs e

/-- OBSERVATION (NOT a violated clause of C12; not in KNOWN_FINDINGS): a STRING argument with `%41` reads back as `%41`
    through with_query / extend_query but as `A` through update_query.  On `u` = `http://h/` with the argument "a=%41":
    `with_query("a=%41").query` and `extend_query("a=%41").query` are `[("a", "%41")]` — the string is quoted as DATA, the
    stored raw query is "a=%2541" — whereas `update_query("a=%41").query` is `[("a", "A")]` — there the string is first
    read by `parse_qsl`, which treats `%41` as an ESCAPE.  The property text speaks of "the pairs of q" and does not say
    how a string argument denotes pairs; each of the three methods satisfies its clause for ITS reading of the string
    (C12_headline_with_query_str / C12_headline_extend_query_str with `parseQslLit`; C12_headline_update_keeps_others_mapping_str /
    …_replaces_mapping_str with `parse_qsl`), so no clause is violated — what is observed is that the two readings differ
    as soon as the string contains a percent escape (they agree when it contains no '%': C12_parseQslLit_no_pct).
    Cites C12_str_argument_pct_differs (C12More.lean). -/
theorem C12_headline_observation_str_argument_pct (e : Env) :
    let u := fromParts "http".toStr "h".toStr "/".toStr [] []
    let s : Str := "a=%41".toStr
    (∃ v, withQuery e u (.str s) = .ok v ∧ queryPairs v = [("a".toStr, "%41".toStr)]) ∧
    (∃ v, extendQuery e u (.str s) = .ok v ∧ queryPairs v = [("a".toStr, "%41".toStr)]) ∧
    (∃ v, updateQuery e u (.str s) = .ok v ∧ queryPairs v = [("a".toStr, "A".toStr)]) ∧
    parseQslLit s = [("a".toStr, "%41".toStr)] ∧ parseQsl s = [("a".toStr, "A".toStr)] :=
  ⟨(C12_str_argument_pct_differs e).2.1, (C12_str_argument_pct_differs e).2.2.1,
   (C12_str_argument_pct_differs e).2.2.2.1, by decide +kernel, by decide +kernel⟩

/-- the `GoodText` guard is needed (C06 "lone surrogates excepted"): `with_query("\ud800=1")` reads back `("", "1")` while
    the literal pairs of the string are `("\ud800", "1")` -/
theorem C12_headline_with_query_str_fails_for_lone_surrogate (e : Env) (u : Url) :
    ∃ v, withQuery e u (.str [0xD800, 61, 49]) = .ok v ∧ queryPairs v = [([], [49])] ∧
      parseQslLit [0xD800, 61, 49] = [([0xD800], [49])] := by
  have hb : ∀ b : Backend, parseQsl (Gen.QUERY_QUOTER.run b [0xD800, 61, 49]) = [([], [49])] := by
    intro b; cases b <;> decide +kernel
  exact ⟨_, withQuery_of e u _ _ (QsMore.getStrQuery_str e.b _), hb e.b, by decide +kernel⟩

/-! ## extend_query -/

/-- "extend_query appends q's pairs after the existing ones" — no hypothesis on the old query -/
theorem C12_headline_extend_query (e : Env) (u : Url) (items : List (Str × QItem)) (ps : List (Str × Str))
    (hden : expandItems items = some ps) (hg : GoodPairs ps) :
    (∃ v, extendQuery e u (.mapping items) = .ok v ∧ queryPairs v = queryPairs u ++ ps) ∧
    (SingleValued items →
      ∃ v, extendQuery e u (.pairs items) = .ok v ∧ queryPairs v = queryPairs u ++ ps) := by
  -- -- Appendix E: C12_extend ↦ this theorem (C12_url_extend_query, C12_url_extend_query_pairs)
  by_cases hne : ps = []
  · subst hne
    refine ⟨⟨u, C12_url_extend_query_no_pairs e u items hden, by simp⟩, fun hs => ?_⟩
    -- a pair sequence that denotes no pair is the empty sequence
    cases items with
    | nil =>
      obtain ⟨v, hv, hq⟩ := (C12_url_none_and_empty e u).2.2.2.2.2.2.2.1
      exact ⟨v, hv, by simpa using hq⟩
    | cons p rest =>
      obtain ⟨k, it⟩ := p
      cases it with
      | one v => simp only [expandItems] at hden; split at hden <;> simp_all
      | many vs => exact absurd (hs _ (List.mem_cons_self ..)) (by simp [QItem.isOne])
  · exact ⟨C12_url_extend_query e u items ps hden hg hne,
      fun hs => C12_url_extend_query_pairs e u items ps hs hden hg hne⟩

/-- "extend_query appends q's pairs after the existing ones" — STRING argument (closes GAPS 2): the LITERAL pairs of the
    string (`parseQslLit`, see above) are appended, whatever the old query text is; they are the `parse_qsl` pairs when
    the string contains no '%' -/
theorem C12_headline_extend_query_str (e : Env) (u : Url) (s : Str)
    (hs : GoodText s) :   -- no lone surrogate in the argument (dropped by the quoter, C06)
    ∃ v, extendQuery e u (.str s) = .ok v ∧ queryPairs v = queryPairs u ++ parseQslLit s ∧
      (37 ∉ s → queryPairs v = queryPairs u ++ parseQsl s) := by   -- with '%': `C12_headline_with_query_str_fails_for_percent`
  obtain ⟨v, h1, h2⟩ := C12_extend_query_str_pairs e u s hs
  exact ⟨v, h1, h2, fun h => by rw [h2, C12_parseQslLit_no_pct s h]⟩

/-! ## update_query -/

/-- `update_query(q)` is `MultiDict(url.query).update(q)` (multidict 6.2, modelled by `mdUpdate`), for a
    pair sequence, a mapping with single values and a string argument -/
theorem C12_headline_update_is_multidict_update (e : Env) (u : Url) (items : List (Str × QItem))
    (ps : List (Str × Str)) (s : Str)
    -- the OLD pairs are re-rendered too: a lone surrogate in the old query (possible with encoded=True
    -- only) is lost — `C12_url_update_query_needs_good_old`
    (hold : GoodPairs (queryPairs u)) :
    (SingleValued items → expandItems items = some ps → GoodPairs ps → ps ≠ [] →
      (∃ v, updateQuery e u (.pairs items) = .ok v ∧ queryPairs v = mdUpdate (queryPairs u) ps) ∧
      (∃ v, updateQuery e u (.mapping items) = .ok v ∧ queryPairs v = mdUpdate (queryPairs u) ps)) ∧
    (GoodText s → s ≠ [] →
      ∃ v, updateQuery e u (.str s) = .ok v ∧ queryPairs v = mdUpdate (queryPairs u) (parseQsl s)) :=
  ⟨fun hs hden hg hne => ⟨C12_url_update_query e u items ps hs hden hg hold hne,
      C12_url_update_query_mapping e u items ps hs hden hg hold hne⟩,
   fun hs hne => C12_url_update_query_str e u s hs hold hne⟩

/-- "update_query … keeps every other pair in order" — true without further guard
    -- Appendix E: C12_update_keeps ↦ this theorem (C12_url_update_keeps_others; list level C12_update_keeps_others) -/
theorem C12_headline_update_keeps_others (e : Env) (u : Url) (items : List (Str × QItem)) (ps : List (Str × Str))
    (hs : SingleValued items) (hden : expandItems items = some ps) (hg : GoodPairs ps)
    (hold : GoodPairs (queryPairs u)) (hne : ps ≠ []) :
    ∃ v, updateQuery e u (.pairs items) = .ok v ∧
      (queryPairs v).filter (fun p => !(keysOf ps).contains p.1) =
        (queryPairs u).filter (fun p => !(keysOf ps).contains p.1) :=
  C12_url_update_keeps_others e u items ps hs hden hg hold hne

/-- "update_query replaces all pairs whose key occurs in q" — GUARDED: for an updated key `k` the values
    in the result are exactly the new values of `k`, in order, PROVIDED every other updated key has at
    most as many old entries as new ones.
    -- Appendix E: C12_update_sets ↦ false as stated (`C12_update_sets_keys_false`); this is its `_partial` -/
theorem C12_headline_update_replaces (e : Env) (u : Url) (items : List (Str × QItem)) (ps : List (Str × Str))
    (k : Str) (hs : SingleValued items) (hden : expandItems items = some ps) (hg : GoodPairs ps)
    (hold : GoodPairs (queryPairs u)) (hk : k ∈ keysOf ps)
    -- excludes the stale-duplicate case of multidict's update() (F-C12-multidict-tail): `C12_headline_update_replaces_fails_for`
    (htail : ∀ k' ∈ keysOf ps, k' ≠ k →
      ((queryPairs u).filter (fun p => p.1 = k')).length ≤ (ps.filter (fun p => p.1 = k')).length) :
    ∃ v, updateQuery e u (.pairs items) = .ok v ∧
      ((queryPairs v).filter (fun p => p.1 = k)).map (·.2) = (ps.filter (fun p => p.1 = k)).map (·.2) :=
  C12_url_update_sets_keys e u items ps k hs hden hg hold hk htail

/-- … and WITHOUT the guard: the new values come first, followed by a sublist of the old values that were
    not overwritten (this is all that is true in general) -/
theorem C12_headline_update_replaces_unguarded (e : Env) (u : Url) (items : List (Str × QItem))
    (ps : List (Str × Str)) (k : Str) (hs : SingleValued items) (hden : expandItems items = some ps)
    (hg : GoodPairs ps) (hold : GoodPairs (queryPairs u)) (hk : k ∈ keysOf ps) :
    ∃ v, updateQuery e u (.pairs items) = .ok v ∧
      ∃ S, ((queryPairs v).filter (fun p => p.1 = k)).map (·.2) = (ps.filter (fun p => p.1 = k)).map (·.2) ++ S ∧
        S.Sublist ((((queryPairs u).filter (fun p => p.1 = k)).map (·.2)).drop (ps.filter (fun p => p.1 = k)).length) :=
  C12_url_update_sets_keys_split e u items ps k hs hden hg hold hk

/-- KNOWN FINDING F-C12-multidict-tail (multidict 6.2 `update()`, C and Python implementation): `?a=1&a=2&b=3&b=4` updated with
    `a=9&b=8` gives `a=9&b=8&b=4` — the stale `b=4` survives; so "replaces all pairs" is false as stated -/
theorem C12_headline_update_replaces_fails_for :
    mdUpdate [([97], 1), ([97], 2), ([98], 3), ([98], 4)] [([97], 9), ([98], 8)] = [([97], 9), ([98], 8), ([98], 4)] ∧
    ¬ ∀ (old new : List (Str × Nat)) (k : Str), k ∈ keysOf new →
      ((mdUpdate old new).filter (fun p => p.1 = k)).map (·.2) = (new.filter (fun p => p.1 = k)).map (·.2) :=
  ⟨C12_update_sets_keys_counterexample, C12_update_sets_keys_false⟩

/-- "keeps every other pair in order" for a MAPPING with single values and for a STRING argument (closes the last sentence
    of GAPS 4: the composition of C12_headline_update_is_multidict_update with the list-level clause, written down) -/
theorem C12_headline_update_keeps_others_mapping_str (e : Env) (u : Url) (items : List (Str × QItem))
    (ps : List (Str × Str)) (s : Str)
    (hold : GoodPairs (queryPairs u)) :   -- old pairs are re-rendered (lone surrogate lost); true for reachable URLs: C12_headline_reachable_good_pairs
    (SingleValued items → expandItems items = some ps → GoodPairs ps → ps ≠ [] →
      ∃ v, updateQuery e u (.mapping items) = .ok v ∧
        (queryPairs v).filter (fun p => !(keysOf ps).contains p.1) =
          (queryPairs u).filter (fun p => !(keysOf ps).contains p.1)) ∧
    (GoodText s → s ≠ [] →
      ∃ v, updateQuery e u (.str s) = .ok v ∧
        (queryPairs v).filter (fun p => !(keysOf (parseQsl s)).contains p.1) =
          (queryPairs u).filter (fun p => !(keysOf (parseQsl s)).contains p.1)) :=
  ⟨fun hs hden hg hne => C12_url_update_keeps_others_mapping e u items ps hs hden hg hold hne,
   fun hs hne => C12_url_update_keeps_others_str e u s hs hold hne⟩

/-- "replaces all pairs whose key occurs in q" for a MAPPING with single values and for a STRING argument (read by
    `parse_qsl`): GUARDED form (no other updated key has more old entries than new ones — F-C12-multidict-tail) and the
    unguarded "new values first, then a sublist of the not overwritten old values" form, as for pair sequences -/
theorem C12_headline_update_replaces_mapping_str (e : Env) (u : Url) (items : List (Str × QItem))
    (ps : List (Str × Str)) (s : Str) (k : Str)
    (hold : GoodPairs (queryPairs u)) :   -- as above
    (SingleValued items → expandItems items = some ps → GoodPairs ps → k ∈ keysOf ps →
      ∃ v, updateQuery e u (.mapping items) = .ok v ∧
        ((∀ k' ∈ keysOf ps, k' ≠ k →   -- excludes multidict's stale duplicate, F-C12-multidict-tail
            ((queryPairs u).filter (fun p => p.1 = k')).length ≤ (ps.filter (fun p => p.1 = k')).length) →
          ((queryPairs v).filter (fun p => p.1 = k)).map (·.2) = (ps.filter (fun p => p.1 = k)).map (·.2)) ∧
        ∃ S, ((queryPairs v).filter (fun p => p.1 = k)).map (·.2) = (ps.filter (fun p => p.1 = k)).map (·.2) ++ S ∧
          S.Sublist ((((queryPairs u).filter (fun p => p.1 = k)).map (·.2)).drop (ps.filter (fun p => p.1 = k)).length)) ∧
    (GoodText s → k ∈ keysOf (parseQsl s) →
      ∃ v, updateQuery e u (.str s) = .ok v ∧
        ((∀ k' ∈ keysOf (parseQsl s), k' ≠ k →   -- F-C12-multidict-tail
            ((queryPairs u).filter (fun p => p.1 = k')).length ≤ ((parseQsl s).filter (fun p => p.1 = k')).length) →
          ((queryPairs v).filter (fun p => p.1 = k)).map (·.2) = ((parseQsl s).filter (fun p => p.1 = k)).map (·.2)) ∧
        ∃ S, ((queryPairs v).filter (fun p => p.1 = k)).map (·.2) =
            ((parseQsl s).filter (fun p => p.1 = k)).map (·.2) ++ S ∧
          S.Sublist ((((queryPairs u).filter (fun p => p.1 = k)).map (·.2)).drop
            ((parseQsl s).filter (fun p => p.1 = k)).length)) :=
  ⟨fun hs hden hg hk => C12_url_update_sets_keys_mapping e u items ps k hs hden hg hold hk,
   fun hs hk => C12_url_update_sets_keys_str e u s k hs hold hk⟩

/-! ### update_query with a MAPPING whose values may be lists / tuples (closes GAPS 4) -/

/-- `update_query(mapping)` with list/tuple values SUCCEEDS whenever the mapping denotes pairs, and the result is the
    expansion of the SLOT-level update: `strItems old` = the old pairs as single-valued slots, `mdUpdate` acts on slots
    (a list value is ONE slot), the updated slot list is then expanded.  (It is NOT `mdUpdate` on the expanded pairs:
    C12_url_update_query_lists_differ.)  No hypothesis on the result. -/
theorem C12_headline_update_mapping_lists (e : Env) (u : Url) (items : List (Str × QItem)) (ps : List (Str × Str))
    (hden : expandItems items = some ps)   -- the mapping denotes pairs (no rejected value)
    (hg : GoodPairs ps)                    -- no lone surrogate in the argument (C06)
    (hold : GoodPairs (queryPairs u))      -- nor in the old query (re-rendered); true for reachable URLs
    (hne : items ≠ []) :                   -- an empty mapping is a different code path (no-op), see C12_url_none_and_empty
    ∃ v ps', updateQuery e u (.mapping items) = .ok v ∧ queryPairs v = ps' ∧
      expandItems (mdUpdate (strItems (queryPairs u)) items) = some ps' :=
  C12_url_update_query_lists e u items ps hden hg hold hne

/-- "update_query … keeps every other pair in order", mapping with list/tuple values: the pairs whose key is not a key OF
    THE MAPPING are unchanged.  (A key mapped to the empty list IS a key of the mapping: its pairs are removed —
    `C12_headline_update_empty_list_removes`.) -/
theorem C12_headline_update_mapping_lists_keeps_others (e : Env) (u : Url) (items : List (Str × QItem))
    (ps : List (Str × Str))
    (hden : expandItems items = some ps) (hg : GoodPairs ps) (hold : GoodPairs (queryPairs u)) (hne : items ≠ []) :   -- as above
    ∃ v, updateQuery e u (.mapping items) = .ok v ∧
      (queryPairs v).filter (fun p => !(keysOf items).contains p.1) =
        (queryPairs u).filter (fun p => !(keysOf items).contains p.1) :=
  C12_url_update_lists_keeps_others e u items ps hden hg hold hne

/-- "update_query replaces all pairs whose key occurs in q", mapping with list/tuple values — GUARDED as
    C12_headline_update_replaces: the pairs of `k` in the result are exactly the pairs the mapping denotes for `k`, in order -/
theorem C12_headline_update_mapping_lists_replaces (e : Env) (u : Url) (items : List (Str × QItem))
    (ps : List (Str × Str)) (k : Str)
    (hden : expandItems items = some ps) (hg : GoodPairs ps) (hold : GoodPairs (queryPairs u))   -- as above
    (hk : k ∈ keysOf items)
    -- every OTHER key of the mapping has at most as many old pairs as it has slots in the mapping (for a `dict`: occurs at
    -- most once in the old query); excludes F-C12-multidict-tail: `C12_headline_update_mapping_lists_replaces_fails_for_stale_duplicate`
    (htail : ∀ k' ∈ keysOf items, k' ≠ k →
      ((queryPairs u).filter (fun p => p.1 = k')).length ≤ (items.filter (fun p => p.1 = k')).length) :
    ∃ v, updateQuery e u (.mapping items) = .ok v ∧
      (queryPairs v).filter (fun p => p.1 = k) = ps.filter (fun p => p.1 = k) :=
  C12_url_update_lists_sets_keys e u items ps k hden hg hold hk htail

/-- … and WITHOUT the guard: the denoted pairs of `k` come first (stale old pairs of `k` may follow) -/
theorem C12_headline_update_mapping_lists_replaces_unguarded (e : Env) (u : Url) (items : List (Str × QItem))
    (ps : List (Str × Str)) (k : Str)
    (hden : expandItems items = some ps) (hg : GoodPairs ps) (hold : GoodPairs (queryPairs u)) (hk : k ∈ keysOf items) :
    ∃ v, updateQuery e u (.mapping items) = .ok v ∧
      ps.filter (fun p => p.1 = k) <+: (queryPairs v).filter (fun p => p.1 = k) :=
  C12_url_update_lists_sets_keys_prefix e u items ps k hden hg hold hk

/-- KNOWN FINDING F-C12-multidict-tail with list values: `?a=1&a=2&b=3&b=4` updated with `{"a": [9], "b": [8]}` reads
    `a=9&b=8&b=4` — the guard `htail` is needed -/
theorem C12_headline_update_mapping_lists_replaces_fails_for_stale_duplicate (e : Env) :
    let u := fromParts [] [] [] [97, 61, 49, 38, 97, 61, 50, 38, 98, 61, 51, 38, 98, 61, 52] []
    ∃ v, updateQuery e u (.mapping [([97], .many [.int 9]), ([98], .many [.int 8])]) = .ok v ∧
      queryPairs v = [([97], [57]), ([98], [56]), ([98], [52])] :=
  C12_url_update_lists_sets_keys_needs_guard e

/-- `update_query({"c": []})` on `?a=1&c=2&c=3` removes every pair of key "c" (the empty list is a slot that denotes no pair) -/
theorem C12_headline_update_empty_list_removes (e : Env) :
    let u := fromParts [] [] [] [97, 61, 49, 38, 99, 61, 50, 38, 99, 61, 51] []
    ∃ v, updateQuery e u (.mapping [([99], .many [])]) = .ok v ∧ queryPairs v = [([97], [49])] :=
  C12_update_query_empty_list_removes e

/-! ### the guard `GoodPairs (queryPairs u)` holds for every URL obtained through the auto-encoding API (closes GAPS 7) -/

/-- the stored query of a reachable URL (`Reach`, see the reading guide) is ASCII text, so the pairs read from it are Python
    strings without lone surrogates: this discharges the hypothesis `hold` of every theorem of this file -/
theorem C12_headline_reachable_good_pairs (e : Env) (u : Url)
    (hr : Reach e u) :   -- excludes `encoded=True` constructions (where `?\ud800=1` is possible: `surrUrl`)
    GoodPairs (queryPairs u) :=
  C12_constructor_goodpairs e u hr

/-- instance: C12_headline_update_is_multidict_update for reachable URLs, without a hypothesis on the old query -/
theorem C12_headline_update_is_multidict_update_reachable (e : Env) (u : Url) (hr : Reach e u)
    (items : List (Str × QItem)) (ps : List (Str × Str)) (s : Str) :
    (SingleValued items → expandItems items = some ps → GoodPairs ps → ps ≠ [] →
      (∃ v, updateQuery e u (.pairs items) = .ok v ∧ queryPairs v = mdUpdate (queryPairs u) ps) ∧
      (∃ v, updateQuery e u (.mapping items) = .ok v ∧ queryPairs v = mdUpdate (queryPairs u) ps)) ∧
    (GoodText s → s ≠ [] →
      ∃ v, updateQuery e u (.str s) = .ok v ∧ queryPairs v = mdUpdate (queryPairs u) (parseQsl s)) :=
  C12_reach_update_is_multidict_update e u hr items ps s

/-! ## without_query_params -/

/-- "without_query_params removes exactly the named keys" (and keeps the others in order) -/
theorem C12_headline_without_query_params (e : Env) (u : Url) (names : List Str)
    -- the kept pairs are re-rendered: see `C12_headline_without_query_params_fails_for`
    (hold : GoodPairs (queryPairs u)) :
    ∃ v, withoutQueryParams e u names = .ok v ∧
      queryPairs v = (queryPairs u).filter (fun p => !names.contains p.1) :=
  C12_url_without_query_params e u names hold

/-- the guard is needed: `?\ud800=1&b=2` (encoded=True only) without "b" reads back `("", "1")` -/
theorem C12_headline_without_query_params_fails_for (e : Env) :
    ∃ v, withoutQueryParams e surrUrl [[98]] = .ok v ∧ queryPairs v = [([], [49])] ∧
      (queryPairs surrUrl).filter (fun p => ![[98]].contains p.1) = [([0xD800], [49])] :=
  C12_url_without_query_params_needs_good_old e

/-- instance: "without_query_params removes exactly the named keys" for reachable URLs (closes GAPS 7 for this clause): no
    hypothesis on the old query -/
theorem C12_headline_without_query_params_reachable (e : Env) (u : Url)
    (hr : Reach e u)   -- obtained through the auto-encoding API (see the reading guide)
    (names : List Str) :
    ∃ v, withoutQueryParams e u names = .ok v ∧
      queryPairs v = (queryPairs u).filter (fun p => !names.contains p.1) :=
  C12_reach_without_query_params e u hr names

/-! ## None, rejected values -/

/-- "None clears the query (with_query, update_query) or is a no-op (extend_query)" -/
theorem C12_headline_none (e : Env) (u : Url) :
    withQuery e u .none = .ok (fromParts u.scheme u.netloc u.path [] u.fragment) ∧
    updateQuery e u .none = .ok (fromParts u.scheme u.netloc u.path [] u.fragment) ∧
    extendQuery e u .none = .ok u :=
  ⟨C12_with_query_none e u, C12_update_query_none e u, C12_extend_query_none e u⟩

/-- "bool, None values, NaN/inf … are rejected with TypeError/ValueError": the per-value gate `query_var` -/
theorem C12_headline_value_gate (v : QVal) :
    (queryVar v = .error .typeError ↔ (v = .bool ∨ v = .none ∨ v = .other)) ∧
    (queryVar v = .error .valueError ↔ ∃ t k, v = .float t k ∧ k ≠ 0) ∧
    (∀ n, queryVar (.int n) = .ok (intToStr n)) ∧ (∀ s, queryVar (.str s) = .ok s) :=
  C12_query_var_gate v

/-- … a rejected value anywhere in a mapping (list slots included) rejects the whole `with_query` AND
    `extend_query` call with the error of the first offending value; in a sequence a list value is a TypeError.
    (The `extend_query` half is NEW in this file.) -/
theorem C12_headline_rejects_values (e : Env) (u : Url) (items : List (Str × QItem)) (err : PyErr)
    (h : firstErr (flatVals items) = some err) :
    withQuery e u (.mapping items) = .error err ∧ extendQuery e u (.mapping items) = .error err := by
  have hw := C12_with_query_mapping_first_error e u items err h
  refine ⟨hw, ?_⟩
  unfold withQuery at hw
  unfold extendQuery
  cases hg : getStrQuery e.b (.mapping items) with
  | error er => rw [hg] at hw; cases hw; rfl
  | ok x => rw [hg] at hw; cases hw

/-- the per-slot gate of a pair SEQUENCE (`QsMore.slotErr`, C12More.lean): bool / None / any other type → TypeError,
    NaN / ±inf → ValueError, a nested list/tuple → TypeError (whatever it contains); str, int and finite float are
    accepted.  `QsMore.pairsFirstErr items` is `slotErr` of the first slot that has one. -/
theorem C12_headline_rejected_value_kinds_pairs :
    slotErr (.one .bool) = some .typeError ∧ slotErr (.one .none) = some .typeError ∧
    slotErr (.one .other) = some .typeError ∧
    (∀ t k, k ≠ 0 → slotErr (.one (.float t k)) = some .valueError) ∧
    (∀ vs, slotErr (.many vs) = some .typeError) ∧
    (∀ s, slotErr (.one (.str s)) = none) ∧ (∀ n, slotErr (.one (.int n)) = none) ∧
    (∀ t, slotErr (.one (.float t 0)) = none) :=
  C12_slotErr_kinds

/-- "bool, None values, NaN/inf … are rejected" — pair SEQUENCE argument, all three methods (closes GAPS 6, first part):
    `with_query` and `extend_query` raise the error of the first offending pair; `update_query` FAILS too — it renders the
    UPDATED multidict, so it raises the error of the first offending pair in THAT order, always the error of one of the
    offending pairs of the argument (they can differ: `C12_headline_update_query_error_order`) -/
theorem C12_headline_rejects_values_pairs (e : Env) (u : Url) (items : List (Str × QItem)) (err : PyErr)
    (h : pairsFirstErr items = some err) :   -- some slot is rejected; `err` is the error of the first such slot
    withQuery e u (.pairs items) = .error err ∧ extendQuery e u (.pairs items) = .error err ∧
    ∃ err', updateQuery e u (.pairs items) = .error err' ∧
      pairsFirstErr (mdUpdate (strItems (queryPairs u)) items) = some err' ∧
      ∃ p ∈ items, slotErr p.2 = some err' :=
  C12_pairs_bad_value_rejected e u items err h

/-- … `update_query` with a MAPPING argument (list/tuple values allowed; closes GAPS 6, second part): a rejected value
    anywhere in the mapping makes the call FAIL, with the error of one of the offending values (the first one in the order
    of the updated multidict) -/
theorem C12_headline_update_query_rejects_values_mapping (e : Env) (u : Url) (items : List (Str × QItem)) (err : PyErr)
    (h : firstErr (flatVals items) = some err) :   -- some value (list slots included) is rejected by `query_var`
    ∃ err', updateQuery e u (.mapping items) = .error err' ∧
      firstErr (flatVals (mdUpdate (strItems (queryPairs u)) items)) = some err' ∧
      ∃ v ∈ flatVals items, queryVar v = .error err' :=
  C12_update_query_mapping_bad_value_rejected e u items err h

/-- … so when all offending values are of ONE kind, `update_query` raises exactly that kind (sequence and mapping) -/
theorem C12_headline_update_query_rejects_same_kind (e : Env) (u : Url) (items : List (Str × QItem)) (err : PyErr) :
    ((∃ p ∈ items, slotErr p.2 = some err) → (∀ p ∈ items, slotErr p.2 = none ∨ slotErr p.2 = some err) →
      updateQuery e u (.pairs items) = .error err) ∧
    ((∃ v ∈ flatVals items, queryVar v = .error err) → (∀ v ∈ flatVals items, ∀ e', queryVar v = .error e' → e' = err) →
      updateQuery e u (.mapping items) = .error err) :=
  ⟨C12_update_query_pairs_bad_kind e u items err, C12_update_query_mapping_bad_kind e u items err⟩

/-- the order effect (why `update_query` gets "one of the offending values", not "the first"): on `?b=1&a=2`,
    `[("a", True), ("b", float("nan"))]` is rejected with TypeError by with_query (first offending pair: the bool) but
    with ValueError by update_query (the updated multidict is `b=nan, a=True`).  Both are within "TypeError/ValueError". -/
theorem C12_headline_update_query_error_order (e : Env) :
    let u := fromParts [] [] [] [98, 61, 49, 38, 97, 61, 50] []
    let items : List (Str × QItem) := [([97], .one .bool), ([98], .one (.float [110, 97, 110] 2))]
    withQuery e u (.pairs items) = .error .typeError ∧ updateQuery e u (.pairs items) = .error .valueError :=
  C12_update_query_error_order e

/-- "… and bytes are rejected" (TypeError), and whatever fails fails with TypeError or ValueError only -/
theorem C12_headline_rejects_bytes (e : Env) (u : Url) (a : QArg) (err : PyErr) :
    (withQuery e u (.bytes false) = .error .typeError ∧ extendQuery e u (.bytes false) = .error .typeError ∧
      updateQuery e u (.bytes false) = .error .typeError) ∧
    ((withQuery e u a = .error err ∨ extendQuery e u a = .error err ∨ updateQuery e u a = .error err) →
      err = .typeError ∨ err = .valueError) :=
  ⟨C12_bytes_rejected e u, fun h => h.elim (C12_with_query_error_kinds e u a err)
    (fun h => h.elim (C12_extend_query_error_kinds e u a err) (C12_update_query_error_kinds e u a err))⟩

/-! ## non-vacuity -/
example : expandItems sampleItems = some samplePs ∧ GoodPairs samplePs := by decide +kernel
example : firstErr (flatVals [([97], .one (.int 1)), ([98], .many [.str [120], .float [105, 110, 102] 1, .bool])]) =
    some .valueError := by decide

/-
GAPS:
 1. "the argument is never mutated": NOT expressible in the model (arguments are immutable Lean values);
    no theorem.  Covered only by the differential/mutation harness (C08 treats URL immutability, not
    argument immutability).
 2. CLOSED by C12_with_query_str_pairs, C12_extend_query_str_pairs, C12_parseQslLit_no_pct, C12_str_argument_pct_differs
    (C12More.lean), see C12_headline_with_query_str, C12_headline_extend_query_str, C12_headline_str_argument_pairs_def,
    C12_headline_with_query_str_fails_for_percent, C12_headline_observation_str_argument_pct.  For every string without lone surrogates `with_query(s)` has exactly, and
    `extend_query(s)` appends exactly, the LITERAL pairs of `s` (split on '&' and the first '=', '+' → ' ', '%' is data); these
    are the `parse_qsl` pairs whenever `s` contains no '%'.  The lemma this item asked for, `parseQsl (QUERY_QUOTER s)
    = parseQsl s`, is FALSE for strings with percent escapes (proved instead: `= parseQslLit s`, C12_parseQsl_quote) — so for a
    string argument with_query / extend_query ("%41" is the text "%41") and update_query ("%41" is "A") read the string
    differently.  This is recorded as an OBSERVATION, not as a violated clause of C12 (the property text does not say how a
    string argument denotes "the pairs of q"; each method satisfies its clause for its own reading) and not as a
    KNOWN_FINDINGS entry: C12_headline_observation_str_argument_pct, citing C12_str_argument_pct_differs — a string
    argument with `%41` reads back as `%41` through with_query / extend_query but as `A` through update_query.  (Also in
    C12More.lean, not restated here: `URL.build(query_string=…)` /
    `build(query=…)` — C12_build_query_string_pairs, C12_build_query_pairs.)
    EXTENDED (the two readings side by side, and what the PARSED reading is) by C12_qstr_three_forms,
    C12_qstr_with_extend_pairs, C12_qstr_parse_pieces, C12_qstr_update_query_exact, C12_qstr_update_query_empty,
    C12_qstr_mod_is_update_query (C02QueryStr.lean), see C12_headline_qstr_three_forms,
    C12_headline_qstr_with_extend_pairs, C12_headline_qstr_parse_pieces, C12_headline_qstr_update_query_exact,
    C12_headline_qstr_mod_is_update_query (C12HeadlineMore5.lean).  Proved, for a string `s` without lone surrogates
    (`GoodText s`): with_query(s) has the pairs `parseQslLit s`, extend_query(s) the old pairs followed by them (nothing
    needed of the URL), update_query(s) the pairs `MultiDict(old).update(parse_qsl(s))` (hypotheses `GoodPairs
    (queryPairs u)`, `s ≠ ""`; `update_query("")` changes nothing), and `parseQslLit s = parse_qsl(s)` when `s` has no
    '%'; `parse_qsl(s)` is one pair per NON-EMPTY '&'-piece, split at the first '=', key and value form-decoded with
    errors='replace' (';' is not a separator); the stored TEXT of update_query(<non-empty str>) is given for EVERY
    string with no hypothesis.  The observation of this item is unchanged; what the parsed reading does to the BYTES of
    an undecodable escape is KNOWN FINDING F-C02-query-replace (property C02: C02Headline.lean GAPS 8), and what it does
    to literal '=' / ';' inside a value is C02Headline.lean GAPS 6 — neither is a violated clause of C12 (the pairs are
    as stated).
 3. "floats are rendered by str()": `str(float)` is an INPUT of the model (`QVal.float txt kind`); only the
    finite/NaN/inf classification is modelled.  Ints: `intToStr` is proved nowhere to equal Python's
    `str(int)` beyond its definition (sign + decimal digits).
 4. CLOSED by C12_url_update_query_lists, C12_url_update_lists_keeps_others, C12_url_update_lists_sets_keys,
    C12_url_update_lists_sets_keys_prefix, C12_url_update_lists_sets_keys_needs_guard, C12_url_update_keeps_others_mapping,
    C12_url_update_sets_keys_mapping, C12_url_update_keeps_others_str, C12_url_update_sets_keys_str (C12More.lean), see
    C12_headline_update_mapping_lists, …_lists_keeps_others, …_lists_replaces, …_lists_replaces_unguarded,
    …_lists_replaces_fails_for_stale_duplicate, C12_headline_update_empty_list_removes, C12_headline_update_keeps_others_mapping_str,
    C12_headline_update_replaces_mapping_str.  update_query with a mapping containing list/tuple values succeeds whenever the
    mapping denotes pairs (no hypothesis on the result any more), "keeps every other pair" holds for the keys not IN THE MAPPING,
    "replaces" holds under the same no-stale-duplicate guard as for sequences (prefix form without it); and the two clauses are
    now stated at URL level for `.mapping` (single values) and `.str` too.
 5. "replaces all pairs whose key occurs in q" is FALSE in general (multidict stale duplicate); proved
    only under the no-tail guard, plus the unguarded prefix/sublist description.  (= F-C12-multidict-tail; now also for
    list-valued mappings, `.mapping` and `.str` arguments.)
    SHARPENED (the clause stays FALSE as stated: KNOWN FINDING F-C12-multidict-tail) by C12_mdUpdate_eq_spec_iff,
    C12_mdUpdate_ne_spec_of_stale, C12_mdUpdate_first_stale, C12_mdUpdateSpec_sublist, C12_mdUpdate_extra_pairs,
    C12_spec_keeps_others, C12_spec_sets_keys, C12_spec_pairs_of_key, C12_spec_shape, C12_spec_in_place,
    C12_staleFree_of_no_surplus, _of_old_unrepeated, _of_nodup, _of_one_surplus_key, _single_key, _of_surplus_late,
    C12_url_update_query_spec, _spec_mapping, _spec_str, _spec_lists, C12_reach_update_query_spec (C12Spec.lean), see
    C12_headline_multidict_update_is_spec_iff, C12_headline_spec_satisfies_update_clauses, C12_headline_spec_positions,
    C12_headline_update_differs_only_by_stale_pairs, C12_headline_update_first_stale_pair,
    C12_headline_staleFree_examples, C12_headline_staleFree_sufficient, C12_headline_staleFree_of_surplus_late,
    C12_headline_update_query_spec, _update_query_spec_lists, _update_query_spec_reachable,
    C12_headline_reachE_update_query_spec, C12_headline_update_query_spec_fails_for_stale_duplicate
    (C12HeadlineMore4.lean).  The failure is now characterised EXACTLY, not by one witness plus a sufficient guard:
    for ALL lists `mdUpdate old arg = mdUpdateSpec old arg ↔ StaleFree old arg`, where `mdUpdateSpec` is a hand-written
    specification that satisfies "replaces all pairs whose key occurs in q" and "keeps every other pair in order"
    literally and without guard, and `StaleFree` is a decidable condition on the two lists (both NEW TRUSTED
    definitions: item 11).  At URL level (pair sequence, single-valued mapping, string; hypotheses as before:
    `GoodPairs` of the argument and of the old query, non-empty argument) the resulting pairs are the specified ones
    IFF `StaleFree (queryPairs u) ps`, and then every updated key has exactly the argument's pairs.  When `StaleFree`
    fails: the first old pair failing the check is a surplus pair (of an updated key, beyond the number of new values)
    and survives at its place; in every case the specified result is a subsequence of the actual one and per key the
    actual values are the specified ones followed by stale old values.  The old guard `htail` ("every OTHER updated
    key has at most as many old pairs as new ones") is one of the proved sufficient conditions for `StaleFree`
    (`_of_one_surplus_key`).  For list-valued mappings only the direction `StaleFree` (of the SLOT lists) ⟹ specified is
    stated at URL level.
    RESTATED for the STRING form in one theorem by C12_qstr_update_query_algebra (C02QueryStr.lean; it cites
    C12_url_update_query_str, C12_url_update_keeps_others_str, C12_url_update_query_spec_str), see
    C12_headline_qstr_update_query_algebra, C12_headline_qstr_update_query_algebra_reachable (C12HeadlineMore5.lean): for
    update_query(<str>) (hypotheses `GoodText s`, `s ≠ ""`, `GoodPairs (queryPairs u)` — the last one discharged for
    `Reach` URLs and for `ReachE` URLs with `NoSurrogate u.query`) the result's pairs are `mdUpdate (queryPairs u)
    (parse_qsl(s))`, every pair whose key is not in `parse_qsl(s)` is kept in order WITHOUT guard, and the result is
    `mdUpdateSpec …` IFF `StaleFree (queryPairs u) (parse_qsl(s))` (then every updated key has exactly the argument's
    pairs).  Nothing new about F-C12-multidict-tail itself.
 6. PARTLY CLOSED by C12_pairs_bad_value_rejected, C12_update_query_mapping_bad_value_rejected, C12_update_query_pairs_bad_kind,
    C12_update_query_mapping_bad_kind, C12_slotErr_kinds (C12More.lean), see C12_headline_rejects_values_pairs,
    C12_headline_update_query_rejects_values_mapping, C12_headline_update_query_rejects_same_kind,
    C12_headline_rejected_value_kinds_pairs, C12_headline_update_query_error_order.  "The call FAILS" is now proved for a pair
    SEQUENCE with a bad value (all three methods) and for update_query with a mapping; with_query / extend_query raise the
    error of the FIRST offending value, update_query the error of ONE of the offending values (the first in the order of the
    updated multidict; exactly determined when all offending values are of one kind).  The former open tail ("`bool` etc. as
    KEYS, and non-str keys, are not modelled (keys are `Str`)") is CLOSED AT MODEL LEVEL ONLY by C12_dyn_value_gate,
    C12_dyn_rejects, C12_dyn_bad_value_kinds, C12_dyn_rejects_in_list_value, C12_dyn_argument_gate, C12_dyn_bytes_argument,
    C12_dyn_key_of_pair, C12_dyn_update_query_non_str_key, C12_dyn_update_query_sequence, C12_dyn_non_str_keys,
    C12_dyn_none_key_differs, C12_dyn_empty_value_hides_key, C12_dyn_unpack (C12Dyn.lean), see C12_headline_dyn_value_gate,
    _dyn_bad_value_kinds, _dyn_rejects_values, _dyn_rejects_in_list_value, _dyn_argument_gate, _dyn_bytes_argument,
    _dyn_bytes_argument_fails_for_empty, _dyn_key_of_pair, _dyn_non_str_keys, _dyn_update_query_non_str_key,
    _dyn_update_query_sequence, _dyn_none_key_differs, _dyn_empty_value_hides_key, _dyn_unpack (C12HeadlineMore3.lean).
    These theorems are about `dynWithQuery` / `dynExtendQuery` / `dynUpdateQuery` (+ keyword forms) of YarlModel/Dyn.lean: a
    hand transcription of the type dispatch of `get_str_query` / `query_var` / `URL.update_query` / (C implementation of)
    multidict 6.2 `MultiDict.update` over the object universe `PyObj`, tied to CPython ONLY by the run-time probe table at the
    end of C12Dyn.lean, not by proof.  Proved there (model-level): a bool / None / bytes / dict / URL / object value
    (TypeError) or NaN / inf (ValueError) is rejected by all three methods in EVERY container — dict, list of 2-tuples, tuple
    of 2-lists, kwargs — with_query / extend_query with exactly the error of the first bad value (entries before it fine),
    update_query with TypeError or ValueError (exactly that error when the other entries are fine); bad values inside a
    list / tuple value; KEYS: a str subclass key is the str; for with_query / extend_query every key type other than
    str / None is a TypeError when the pair is rendered; for update_query EVERY non-str key (None included) is a TypeError
    from `MultiDict.update`, and a sequence is validated element by element (not iterable → TypeError, length ≠ 2 →
    ValueError, key → TypeError), the first offending element deciding; a truthy bytes / int / float / bool / URL / object
    ARGUMENT is a TypeError.  FALSE / not rejected (model-level, each with a probe row from the real library):
    "bytes are rejected" fails for the EMPTY bytes argument — `with_query(b"")` clears the query, `extend_query(b"")` /
    `update_query(b"")` keep it — and likewise every FALSY non-query argument (`0`, `False`, `0.0`, `URL("")`) is treated
    like "" (C12_headline_dyn_bytes_argument_fails_for_empty, C12_headline_dyn_argument_gate); the KEY `None` is accepted
    by with_query / extend_query as the text "None" but rejected by update_query (C12_headline_dyn_none_key_differs; an
    observation — the property text speaks of None VALUES); a non-str key whose value is an EMPTY list / tuple is not
    noticed by with_query / extend_query (C12_headline_dyn_empty_value_hides_key).  STILL OPEN: item 10 (a).
    FURTHER (cross-reference, MODEL-LEVEL, not imported here): `without_query_params(*names)` with ARBITRARY name
    objects is treated in C19DynBuild.lean over YarlModel/DynBuild.lean — C19_dynWithoutQueryParams, see
    C19_headline_dyn_without_query_params (C19HeadlineMore4.lean): str (subclass) names give the typed function of this
    file; the only failure is TypeError, iff some name is unhashable; hashable non-str names are silently ignored.
    Trusted base: C19Headline.lean GAPS 8 (DynBuild.lean is a hand transcription, tied to CPython by its probe table).
 7. CLOSED by C12_constructor_goodpairs, C12_reach_without_query_params, C12_reach_update_is_multidict_update (C12More.lean,
    via C01_reachable_wf), see C12_headline_reachable_good_pairs, C12_headline_without_query_params_reachable,
    C12_headline_update_is_multidict_update_reachable.  `GoodPairs (queryPairs u)` holds for every URL in `Reach e` (constructor
    on a Python string, build(encoded=False), every auto-encoding modifier, join, copies), so the hypothesis `hold` of every
    theorem above is discharged for them (the remaining `_reach_` instances — keeps_others, replaces, lists — are in
    C12More.lean: C12_reach_update_keeps_others, C12_reach_update_replaces, C12_reach_update_lists).
    ADDED: the string-form algebra theorem of item 5 is stated with `hold` discharged for `Reach`
    (C12_headline_qstr_update_query_algebra_reachable, C12HeadlineMore5.lean; a composition with
    C12_constructor_goodpairs).
 8. `mdUpdate` is a hand model of multidict 6.2 `_update_items` (checked by the differential harness); there
    is no proof link to multidict's source.  kwargs-vs-positional conflicts (`.noArgs`, both given) are
    modelled only as `.noArgs → ValueError`.  (C12Dyn.lean adds, model-level: the keyword forms `f(k=v, …)` as
    `dynQueryKw` — a mapping with str keys, no keyword at all = `.noArgs` — covered by C12_headline_dyn_rejects_values; and
    `Dyn.mdPair`, a hand model of the per-element validation of the C implementation of `MultiDict.update`, with the same
    status as `mdUpdate`.  "Both positional and keyword arguments given" is still not modelled.)
    PARTLY CLOSED by C12_mdUpdate_eq_spec_iff, C12_mdUpdateSpec_sublist, C12_mdUpdate_extra_pairs (C12Spec.lean), see
    C12_headline_multidict_update_is_spec_iff, C12_headline_update_differs_only_by_stale_pairs,
    C12_headline_update_spec_def, C12_headline_update_spec_examples (C12HeadlineMore4.lean).  Proved: the iterative
    transcription `mdUpdate` (two loops with a `used` table) is tied to a NON-ITERATIVE specification `mdUpdateSpec`
    (rank-wise overwrite in place / delete surplus / append the rest): equal exactly on the `StaleFree` inputs, and in
    every case the specified list is a subsequence of `mdUpdate`'s.  So WHAT `mdUpdate` computes is now known in closed
    form, relative to the reading of `mdUpdateSpec` / `StaleFree` (item 11).  STILL OPEN: there is no proof link from
    `mdUpdate` (or from `mdUpdateSpec`) to multidict's source or documentation — `mdUpdate` is checked against the real
    library by the differential harness only; the kwargs-vs-positional remark above is unchanged.
 9. `Reach` does not contain URLs made or modified with `encoded=True` (`URL(s, encoded=True)`, `build(encoded=True)`,
    `with_path(…, encoded=True)`); for those no theorem of THIS file discharges `hold` (and for `URL(s, encoded=True)` it can
    fail: `surrUrl`).
    CLOSED by C12_reachE_good_pairs, C12_reachE_query_no_surrogate, C12_reachE_good_pairs_of_inputs,
    C12_reachE_with_and_extend_query, C12_reachE_without_query_params, C12_reachE_update_is_multidict_update,
    C12_reachE_update_keeps_others, C12_reachE_update_replaces, C12_reachE_update_lists, C12_reachE_query_accessor_spec,
    C12_reachE_fails_for_surrogate (C12ReachE.lean, over `ReachE` = the closure of ALL entry points incl. `encoded=True`,
    ReachE.lean), see C12_headline_reachE_good_pairs, _reachE_good_pairs_of_inputs, _reachE_with_and_extend_query,
    _reachE_without_query_params, _reachE_update_is_multidict_update, _reachE_update_keeps_others, _reachE_update_replaces,
    _reachE_update_lists, _reachE_query_accessor_spec, _reachE_fails_for_surrogate (C12HeadlineMore3.lean).
    Proved: with_query / extend_query (mapping, pair sequence) need NOTHING of the URL; without_query_params and
    update_query (is-multidict-update for sequence / single-valued mapping / string, keeps-others and replaces for a pair
    sequence, keeps-others / replaces / prefix for list-valued mappings) hold for every `ReachE` URL under ONE hypothesis.
    Hypothesis: `NoSurrogate u.query` — no lone surrogate in the stored query; it follows from the INPUTS when no text
    handed over with `encoded=True` contained a lone surrogate (`ReachEX NoSurrogate Z Sc e u`,
    C12_headline_reachE_good_pairs_of_inputs) and it is NEEDED: `URL('?\ud800=1&b=2', encoded=True)` is in `ReachE` and
    there "keeps every other pair" / "removes exactly the named keys" are FALSE (C12_headline_reachE_fails_for_surrogate; =
    C06 "lone surrogates excepted").  The F-C12-multidict-tail guard of item 5 is unchanged.
10. NEW.  Side conditions introduced by the theorems that close 9 and the tail of 6.  (a) Everything cited from C12Dyn.lean
    is MODEL-LEVEL: YarlModel/Dyn.lean is a transcription, its ASSUMPTIONS (header of Dyn.lean) are not proved — `.strSub`
    is a PLAIN str subclass (no overridden `__str__` / `__iter__` / …); a `dict` stands for every Mapping type (MultiDict
    etc. have no tag); `.other` is an `object()`-like instance; objects with `__int__` (Fraction, Decimal, numpy ints) and
    bytearray / memoryview have no tag; `Dyn.mdPair` models the C implementation of multidict 6.2 (the pure-Python one
    raises TypeError instead of ValueError for an element of the wrong length: observed, not modelled); the probe table
    checks finitely many rows on `URL("http://h/p?a=1#f")` only.  (b) `NoSurrogate u.query` is a hypothesis on the stored
    text; from the inputs it is derived only in the form "ALL `encoded=True` texts on the way to `u` are free of lone
    surrogates" (sufficient, not necessary).  (c) Over `ReachE` the STRING-argument clauses of update_query for
    keeps-others / replaces and the single-valued-mapping forms of keeps-others / replaces are not restated (they follow
    from C12_headline_update_keeps_others_mapping_str / _replaces_mapping_str with `hold` from
    C12_headline_reachE_good_pairs); with_query / extend_query with a string argument need no hypothesis on `u` at all
    (C12_headline_with_query_str, C12_headline_extend_query_str).
    PARTLY CLOSED: the STRING-argument clauses of update_query (is-multidict-update, keeps-others, specified-iff-StaleFree,
    replaces under `StaleFree`) ARE now restated over `ReachE` with the one hypothesis `NoSurrogate u.query`
    (C12_headline_qstr_update_query_algebra_reachable, C12HeadlineMore5.lean; a composition with C12_reachE_good_pairs);
    the single-valued-mapping forms over `ReachE` are still not restated.
11.  NEW.  Trusted definitions and side conditions introduced by the theorems that sharpen 5 and partly close 8
    (C12Spec.lean).  (a) `mdUpdateSpec` (with `ranked`) is a hand-written SPECIFICATION of what
    `MultiDict(old).update(arg)` is meant to do; that it is the intended behaviour of multidict is a matter of READING
    (spelled out by `rfl` and on three inputs: C12_headline_update_spec_def, C12_headline_update_spec_examples); what is
    PROVED about it is that it satisfies the two update_query clauses of C12 without guard and where it sits
    (C12_headline_spec_satisfies_update_clauses, C12_headline_spec_positions).  In particular its POSITIONAL choices
    (overwrite in place by rank; appended pairs in argument order) are part of the definition, not derived from the
    property text, which only says "in order" for the pairs that are kept.  (b) `StaleFree` (with `isSurplus`,
    `surplusBefore`, `staleFreeAt`) is a `Prop`-valued, decidable predicate whose reading must be trusted; an equivalent
    split form is proved (C12_headline_staleFree_def) and four inputs are computed (C12_headline_staleFree_examples).
    It speaks about POSITIONS in the old list (it is not a per-key count condition): the same multiset of old pairs can
    be `StaleFree` in one order and not in another (`a=1&b=3&a=2&b=4` is, `a=1&a=2&b=3&b=4` is not).  (c) At URL level
    the iff is stated for a pair sequence, a single-valued mapping and a string (hypotheses `SingleValued items`,
    `GoodPairs ps`, `GoodPairs (queryPairs u)`, `ps ≠ []` resp. `GoodText s`, `s ≠ []`); for a mapping with list/tuple
    values only the implication from `StaleFree (strItems (queryPairs u)) items` — a condition on SLOTS, not on the
    expanded pairs — is stated (C12_headline_update_query_spec_lists); over `ReachE` only the pair-sequence form is
    restated (C12_headline_reachE_update_query_spec, hypothesis `NoSurrogate u.query` as in 9).  (d) All this is about
    the model function `mdUpdate`: that the REAL multidict 6.2 fails exactly on the non-`StaleFree` inputs is not proved
    (item 8); the differential harness compares `mdUpdate` with the library on the inputs it generates, and whether
    those include non-`StaleFree` inputs other than the known witness was not examined for this item.
12. NEW (with C02QueryStr.lean).  The `%` operator (`URL.__mod__`).  The model has NO separate operation for it: in the
    library it is the single line `return self.update_query(query)` — a READING of the source, not a theorem and not a
    generated fact — so every update_query statement of this file is taken to be the statement for `url % q`.  What is
    proved is only that the model's untyped positional entry point `dynUpdateQuery` (YarlModel/Dyn.lean, a hand
    transcription: item 10 (a)) on a `str` / plain `str` subclass IS the typed `updateQuery` on that string
    (C12_qstr_mod_is_update_query, see C12_headline_qstr_mod_is_update_query, C12HeadlineMore5.lean).  Whether the
    differential harness exercises `%` separately from `update_query` was not examined for this item.  Trusted
    definitions used by the string-form statements: `R15.pieces`, `R15.keyText`, `R15.valText` (C02QueryStr.lean; spelled
    out in C02_headline_qstr_vocabulary_def, C02HeadlineMore5.lean), `formDecode`, `parseQslLit` (item 2).
-/
end Yarl
