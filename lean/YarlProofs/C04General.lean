/-
  C04General.lean — property C04 ("already-canonical URLs are left untouched") for the WHOLE canonical
  grammar: with or without a scheme, with or without an authority.
-/
import YarlModel
import YarlProofs.C03Reach
set_option linter.unusedVariables false
set_option linter.unusedSimpArgs false
namespace Yarl
open ReachFix FixLemmas

/-- the authority component of a canonical string: empty, or `[user[:password]@]host[:port]` as the
    library writes it (`authText`) -/
inductive CanonNetloc (e : Env) (scheme netloc : Str) : Prop
  | empty : netloc = [] → CanonNetloc e scheme netloc
  | auth (user pw : Option Str) (host : Str) (port : Option Nat) :
      netloc = authText user pw host port → UserInfoOK e.b user pw → HostFix e.o host →
      PortOK scheme port → CanonNetloc e scheme netloc

/-- "Already canonical", component-wise, for the five components of a URL string.

    * scheme: empty, or a non-empty lower-case string of scheme characters (`SchemeOK'`);
    * authority: empty, or `[user[:password]@]host[:port]` with user / password canonical for the REQUOTER, a
      host `_encode_host` maps to itself (`hostFix_basic`, `hostFix_ipv4`, `hostFix_ipv6`), a port ≤ 65535
      that is not the scheme's default (`CanonNetloc`);
    * path / query / fragment: canonical text of their requoters (`Canon`: only characters legal literally
      there, upper-case escapes only of characters that must be escaped there or are the component's
      protected delimiters: `C04_policy`, `C04_policy_protected`);
    * under an authority: the path is empty or rooted, has no dot segment, and is not empty in front of a
      query or fragment (`str` writes "/" there);
    * KNOWN EXCLUSION 1 (`first_segment`): with neither scheme nor authority, the text before the first ':'
      of the path must not read as a scheme (implied by "no ':' in the first segment",
      `C07_first_segment_suffices`; needed: `C04_general_first_segment_needed`);
    * KNOWN EXCLUSION 2 (`authority_scheme`): a scheme in `uses_authority` ("http", "file", …) without an
      authority needs an empty or rooted path (`unsplit_result` writes "scheme://" in front; needed:
      `C04_general_authority_scheme_needed`).

    Every clause is needed: section "every clause of `CanonString` is needed" below. -/
structure CanonString (e : Env) (scheme netloc path query fragment : Str) : Prop where
  schemeOK : SchemeOK' scheme
  netlocOK : CanonNetloc e scheme netloc
  pathC : Canon (Gen.PATH_REQUOTER.tab e.b) path
  queryC : Canon (Gen.QUERY_REQUOTER.tab e.b) query
  fragmentC : Canon (Gen.FRAGMENT_REQUOTER.tab e.b) fragment
  rooted : netloc ≠ [] → (path = [] ∨ path.head? = some 47)
  nodots : netloc ≠ [] → NoDotSegments path
  nonempty : netloc ≠ [] → path = [] → query = [] ∧ fragment = []
  first_segment : scheme = [] → netloc = [] → 58 ∈ path →
    (path.takeWhile (· ≠ 58) = [] ∨ (path.takeWhile (· ≠ 58)).all (fun c => mem c Gen.schemeChars) = false)
  authority_scheme : scheme ≠ [] → Gen.usesAuthority.contains scheme = true → netloc = [] →
    (path = [] ∨ path.head? = some 47)

/-- the string with these five components: `unsplit_result` (YarlModel/Parse.lean); shape by shape it is
    `path?query#fragment` (`canonText_relative`), `scheme:path…` (`canonText_scheme_path`),
    `scheme://path…` (`canonText_scheme_empty_authority`), `//authority/path…` (`canonText_network_path`),
    `scheme://authority/path…` (`canonText_compose`) -/
def canonText (scheme netloc path query fragment : Str) : Str :=
  unsplitResult scheme netloc path query fragment

/-- the link to C03Reach: the record with these components and an empty cache satisfies the hypotheses of
    `C03_fixed_point_of_canon` -/
theorem canonString_c03 (e : Env) (scheme netloc path query fragment : Str)
    (h : CanonString e scheme netloc path query fragment) :
    CanonUrl e.b (fromParts scheme netloc path query fragment) ∧
    NetlocCanon e (fromParts scheme netloc path query fragment) ∧ SchemeOK' scheme ∧
    C03Guards (fromParts scheme netloc path query fragment) := by
  refine ⟨⟨h.pathC, h.queryC, h.fragmentC, h.nodots, h.rooted⟩, ?_, h.schemeOK, ⟨h.first_segment, h.authority_scheme⟩⟩
  cases h.netlocOK with
  | empty hn => exact .empty hn rfl
  | auth user pw host port hn hu hh hp => exact .auth user pw host port hn hu hh hp.range (Or.inl rfl)

/-- MAIN (C04, whole grammar): a canonical string is parsed into exactly its five components, and printing
    the parsed URL gives back the very string — `str(URL(s)) == s` -/
theorem C04_identity_general (e : Env) (scheme netloc path query fragment : Str)
    (h : CanonString e scheme netloc path query fragment) :
    ∃ u, encodeUrl e (canonText scheme netloc path query fragment) = .ok u ∧
      str e u = .ok (canonText scheme netloc path query fragment) ∧
      u.scheme = scheme ∧ u.netloc = netloc ∧ u.path = path ∧ u.query = query ∧ u.fragment = fragment := by
  unfold canonText
  cases h.netlocOK with
  | empty hn =>
    subst hn
    have hok := partsOK_build e.b scheme [] path query fragment h.schemeOK (fun c hc => by simp at hc) rfl
      h.pathC h.queryC h.fragmentC (fun h => absurd rfl h) (fun h1 h2 => h.authority_scheme h1 h2 rfl)
      (fun h1 _ h3 => h.first_segment h1 rfl h3)
    have henc := encode_unsplit e scheme [] path query fragment none hok (netBlock_nil e scheme)
      h.pathC h.queryC h.fragmentC (fun h => absurd rfl h)
    refine ⟨_, henc, ?_, rfl, rfl, rfl, rfl, rfl⟩
    have hN := net_empty e ⟨scheme, [], path, query, fragment, none⟩ rfl rfl
    have hep : explicitPort e ⟨scheme, [], path, query, fragment, none⟩ = .ok none := by
      unfold explicitPort; rw [hN]; rfl
    have hstr := C07_str_recompose e _ none hep (by intro p hp; cases hp)
    simpa using hstr
  | auth user pw host port hn hu hh hp =>
    subst hn
    have hne : authText user pw host port ≠ [] := NetlocLemmas.makeNetloc_ne_nil id user pw hh.ok.1 port
    have hok := partsOK_build e.b scheme (authText user pw host port) path query fragment h.schemeOK
      (authText_chars hu hh) (checkBrackets_authText _ hu hh) h.pathC h.queryC h.fragmentC
      (fun _ => h.rooted hne) (fun _ _ => h.rooted hne) (fun _ h2 => absurd h2 hne)
    have henc := encode_unsplit e scheme _ path query fragment _ hok
      (netBlock_authority e scheme hu hh hp.range) h.pathC h.queryC h.fragmentC (fun _ => h.nodots hne)
    refine ⟨_, henc, ?_, rfl, rfl, rfl, rfl, rfl⟩
    have hN : net e ⟨scheme, authText user pw host port, path, query, fragment, some (preOf user pw host port)⟩ =
        .ok (preOf user pw host port) := rfl
    have hstr := str_auth e _ user pw host port rfl hN
    have hsp : strPort scheme port = port := by
      cases port with
      | none => rfl
      | some p => simp [strPort, hp.notDefault p rfl]
    have hpath : C07_strPath ⟨scheme, authText user pw host port, path, query, fragment,
        some (preOf user pw host port)⟩ = path := by
      unfold C07_strPath
      split
      · rename_i hc
        simp only [Bool.and_eq_true, Bool.or_eq_true, List.isEmpty_iff, Bool.not_eq_true',
          List.isEmpty_eq_false_iff] at hc
        obtain ⟨hq, hf⟩ := h.nonempty hne hc.1.1
        rcases hc.2 with h2 | h2
        · exact absurd hq h2
        · exact absurd hf h2
      · rfl
    rw [hsp, hpath] at hstr
    exact hstr

/-! ## the text of a canonical string, shape by shape -/

namespace IdGen

theorem rooted_take1 {p : Str} (h : p = [] ∨ p.head? = some 47) : ¬ (p ≠ [] ∧ p.take 1 ≠ [47]) := by
  rintro ⟨h1, h2⟩
  rcases h with rfl | h
  · exact h1 rfl
  · cases p with
    | nil => exact h1 rfl
    | cons a r => simp at h; subst h; simp at h2

theorem tail_parts (x query fragment : Str) :
    (if (!fragment.isEmpty) = true then (if (!query.isEmpty) = true then x ++ [63] ++ query else x) ++ [35] ++ fragment
      else (if (!query.isEmpty) = true then x ++ [63] ++ query else x)) = x ++ qPart query ++ fPart fragment := by
  unfold qPart fPart
  cases query <;> cases fragment <;> simp

end IdGen
open IdGen

/-- no scheme, no authority, path not starting with "//": `path[?query][#fragment]` -/
theorem canonText_relative (path query fragment : Str) (h2 : path.take 2 ≠ [47, 47]) :
    canonText [] [] path query fragment = path ++ qPart query ++ fPart fragment := by
  unfold canonText unsplitResult
  simp only [List.isEmpty_nil, Bool.not_true, Bool.false_or, Bool.false_and, h2, decide_false, Bool.false_eq_true,
    if_false]
  exact tail_parts _ _ _

/-- a scheme that does not use an authority, no authority, path not starting with "//":
    `scheme:path[?query][#fragment]` -/
theorem canonText_scheme_path (scheme path query fragment : Str) (hs : scheme ≠ [])
    (hu : Gen.usesAuthority.contains scheme = false) (h2 : path.take 2 ≠ [47, 47]) :
    canonText scheme [] path query fragment = scheme ++ [58] ++ path ++ qPart query ++ fPart fragment := by
  unfold canonText unsplitResult
  simp only [List.isEmpty_nil, Bool.not_true, Bool.false_or, hu, Bool.and_false, h2, decide_false,
    Bool.false_eq_true, if_false, isEmpty_false hs, Bool.not_false, if_true]
  exact tail_parts _ _ _

/-- a scheme that uses an authority, the authority empty, the path empty or rooted:
    `scheme://path[?query][#fragment]` (as in "file:///etc/passwd") -/
theorem canonText_scheme_empty_authority (scheme path query fragment : Str) (hs : scheme ≠ [])
    (hu : Gen.usesAuthority.contains scheme = true) (hr : path = [] ∨ path.head? = some 47) :
    canonText scheme [] path query fragment = composeUrl scheme [] path query fragment := by
  unfold canonText unsplitResult composeUrl
  have hr' := rooted_take1 hr
  simp only [List.isEmpty_nil, Bool.not_true, Bool.false_or, hu, Bool.and_true, isEmpty_false hs, Bool.not_false,
    Bool.true_or, if_true, List.append_nil]
  have : ((!path.isEmpty) = true ∧ path.take 1 ≠ [47]) = False := by
    apply propext
    constructor
    · rintro ⟨h1, h2⟩
      exact hr' ⟨by intro h; subst h; simp at h1, h2⟩
    · exact False.elim
  simp only [Bool.and_eq_true, decide_eq_true_eq, this, if_false]
  exact tail_parts _ _ _

/-- no scheme, a non-empty authority, the path empty or rooted: `//authority path[?query][#fragment]` -/
theorem canonText_network_path (netloc path query fragment : Str) (hn : netloc ≠ [])
    (hr : path = [] ∨ path.head? = some 47) :
    canonText [] netloc path query fragment = [47, 47] ++ netloc ++ path ++ qPart query ++ fPart fragment := by
  unfold canonText unsplitResult
  have hr' := rooted_take1 hr
  have : ((!path.isEmpty) = true ∧ path.take 1 ≠ [47]) = False := by
    apply propext
    constructor
    · rintro ⟨h1, h2⟩
      exact hr' ⟨by intro h; subst h; simp at h1, h2⟩
    · exact False.elim
  simp only [isEmpty_false hn, Bool.not_false, Bool.true_or, if_true, Bool.and_eq_true, decide_eq_true_eq, this,
    if_false, List.isEmpty_nil, Bool.not_true, Bool.false_eq_true]
  exact tail_parts _ _ _

/-- a scheme and a non-empty authority: the `composeUrl` of C04.lean -/
theorem canonText_compose (scheme netloc path query fragment : Str) (hs : scheme ≠ []) (hn : netloc ≠ [])
    (hr : path = [] ∨ path.head? = some 47) :
    canonText scheme netloc path query fragment = composeUrl scheme netloc path query fragment :=
  unsplit_compose scheme netloc path query fragment hs hn (rooted_of_rootedP hr)

/-! ## corollaries with friendly hypotheses -/

namespace IdGen

theorem noDotSegments_of_compOK {b : Backend} {path query fragment : Str} (hc : CompOK b path query fragment) :
    NoDotSegments path := by
  by_cases hd : 46 ∈ path
  · have := EntryLemmas.noDotSegments_normalizePath path
    rw [hc.norm hd] at this
    exact this
  · exact EntryLemmas.noDotSegments_of_no_dot hd

theorem portOK_none (scheme : Str) : PortOK scheme none :=
  ⟨fun p hp => (nomatch hp), fun p hp => (nomatch hp)⟩

theorem authText_host (h : Str) (h58 : 58 ∉ h) : authText none none h none = h := by
  simp [authText, makeNetloc, bracket_of_no_colon h58]

end IdGen

/-- the relative shapes satisfy `CanonString` (exact form of the first-segment guard) -/
theorem canonString_relative (e : Env) (path query fragment : Str)
    (hp : Canon (Gen.PATH_REQUOTER.tab e.b) path) (hq : Canon (Gen.QUERY_REQUOTER.tab e.b) query)
    (hf : Canon (Gen.FRAGMENT_REQUOTER.tab e.b) fragment)
    (hc : 58 ∈ path → (path.takeWhile (· ≠ 58) = [] ∨
      (path.takeWhile (· ≠ 58)).all (fun c => mem c Gen.schemeChars) = false)) :
    CanonString e [] [] path query fragment :=
  ⟨Or.inl rfl, .empty rfl, hp, hq, hf, fun h => absurd rfl h, fun h => absurd rfl h, fun h => absurd rfl h,
    fun _ _ hm => hc hm, fun h => absurd rfl h⟩

/-- RELATIVE references `path[?query][#fragment]` ("/a/b?q#f", "a/b", "?q", "#f", ""): components canonical
    for their requoters, the path not starting with "//" (that would read as an authority) and without ':'
    in its first segment (that would read as a scheme) -/
theorem C04_identity_relative (e : Env) (path query fragment : Str)
    (hp : Canon (Gen.PATH_REQUOTER.tab e.b) path) (hq : Canon (Gen.QUERY_REQUOTER.tab e.b) query)
    (hf : Canon (Gen.FRAGMENT_REQUOTER.tab e.b) fragment)
    (h2 : path.take 2 ≠ [47, 47]) (hc : 58 ∉ path.takeWhile (· ≠ 47)) :
    ∃ u, encodeUrl e (path ++ qPart query ++ fPart fragment) = .ok u ∧
      str e u = .ok (path ++ qPart query ++ fPart fragment) ∧
      u.scheme = [] ∧ u.netloc = [] ∧ u.path = path ∧ u.query = query ∧ u.fragment = fragment := by
  have h := C04_identity_general e [] [] path query fragment
    (canonString_relative e path query fragment hp hq hf (C07_first_segment_suffices path hc))
  rw [canonText_relative path query fragment h2] at h
  exact h

/-- `scheme:path` shapes satisfy `CanonString` -/
theorem canonString_scheme_path (e : Env) (scheme path query fragment : Str) (hs : SchemeOK scheme)
    (hp : Canon (Gen.PATH_REQUOTER.tab e.b) path) (hq : Canon (Gen.QUERY_REQUOTER.tab e.b) query)
    (hf : Canon (Gen.FRAGMENT_REQUOTER.tab e.b) fragment)
    (hu : Gen.usesAuthority.contains scheme = true → (path = [] ∨ path.head? = some 47)) :
    CanonString e scheme [] path query fragment :=
  ⟨Or.inr hs, .empty rfl, hp, hq, hf, fun h => absurd rfl h, fun h => absurd rfl h, fun h => absurd rfl h,
    fun h => absurd h hs.1, fun _ h _ => hu h⟩

/-- SCHEME + PATH, no authority, for a scheme outside `uses_authority` ("mailto:x@y", "x:/p", "urn:a:b",
    "data:…"): `scheme:path[?query][#fragment]`; the path (rootless, rooted or empty) must not start with "//" -/
theorem C04_identity_scheme_only_path (e : Env) (scheme path query fragment : Str) (hs : SchemeOK scheme)
    (hu : Gen.usesAuthority.contains scheme = false)
    (hp : Canon (Gen.PATH_REQUOTER.tab e.b) path) (hq : Canon (Gen.QUERY_REQUOTER.tab e.b) query)
    (hf : Canon (Gen.FRAGMENT_REQUOTER.tab e.b) fragment) (h2 : path.take 2 ≠ [47, 47]) :
    ∃ u, encodeUrl e (scheme ++ [58] ++ path ++ qPart query ++ fPart fragment) = .ok u ∧
      str e u = .ok (scheme ++ [58] ++ path ++ qPart query ++ fPart fragment) ∧
      u.scheme = scheme ∧ u.netloc = [] ∧ u.path = path ∧ u.query = query ∧ u.fragment = fragment := by
  have h := C04_identity_general e scheme [] path query fragment
    (canonString_scheme_path e scheme path query fragment hs hp hq hf (fun h => by rw [hu] at h; cases h))
  rw [canonText_scheme_path scheme path query fragment hs.1 hu h2] at h
  exact h

/-- SCHEME + EMPTY AUTHORITY + rooted-or-empty PATH for a scheme in `uses_authority` ("file:///etc/x",
    "http://", "http:///p?q"): `scheme://path[?query][#fragment]`.  (The single-slash spelling "file:/etc/x" is
    NOT a fixed point: `C04_authority_scheme_single_slash_not_fixed`.) -/
theorem C04_identity_scheme_empty_authority (e : Env) (scheme path query fragment : Str) (hs : SchemeOK scheme)
    (hu : Gen.usesAuthority.contains scheme = true) (hr : path = [] ∨ path.head? = some 47)
    (hp : Canon (Gen.PATH_REQUOTER.tab e.b) path) (hq : Canon (Gen.QUERY_REQUOTER.tab e.b) query)
    (hf : Canon (Gen.FRAGMENT_REQUOTER.tab e.b) fragment) :
    ∃ u, encodeUrl e (composeUrl scheme [] path query fragment) = .ok u ∧
      str e u = .ok (composeUrl scheme [] path query fragment) ∧
      u.scheme = scheme ∧ u.netloc = [] ∧ u.path = path ∧ u.query = query ∧ u.fragment = fragment := by
  have h := C04_identity_general e scheme [] path query fragment
    (canonString_scheme_path e scheme path query fragment hs hp hq hf (fun _ => hr))
  rw [canonText_scheme_empty_authority scheme path query fragment hs.1 hu hr] at h
  exact h

/-- an authority `[user[:password]@]host[:port]` with the component conditions of C04.lean satisfies
    `CanonString`, with or without a scheme -/
theorem canonString_authority (e : Env) (scheme : Str) (user pw : Option Str) (h : Str) (port : Option Nat)
    (path query fragment : Str) (hs : SchemeOK' scheme) (hu : UserInfoOK e.b user pw) (hh : HostFix e.o h)
    (hp : PortOK scheme port) (hc : CompOK e.b path query fragment) :
    CanonString e scheme (authText user pw h port) path query fragment := by
  have hne : authText user pw h port ≠ [] := NetlocLemmas.makeNetloc_ne_nil id user pw hh.ok.1 port
  exact ⟨hs, .auth user pw h port rfl hu hh hp, hc.pathC, hc.queryC, hc.fragmentC,
    fun _ => rootedP_of_rooted hc.rooted, fun _ => noDotSegments_of_compOK hc, fun _ => hc.nonempty,
    fun _ h2 => absurd h2 hne, fun _ _ h3 => absurd h3 hne⟩

/-- NETWORK-PATH references `//host/path[?query][#fragment]` (no scheme) for a plain lower-case host -/
theorem C04_identity_network_path (e : Env) (host path query fragment : Str) (hh : HostBasic host)
    (hc : CompOK e.b path query fragment) :
    ∃ u, encodeUrl e ([47, 47] ++ host ++ path ++ qPart query ++ fPart fragment) = .ok u ∧
      str e u = .ok ([47, 47] ++ host ++ path ++ qPart query ++ fPart fragment) ∧
      u.scheme = [] ∧ u.netloc = host ∧ u.path = path ∧ u.query = query ∧ u.fragment = fragment := by
  have h := C04_identity_general e [] _ path query fragment
    (canonString_authority e [] none none host none path query fragment (Or.inl rfl) (userInfoOK_none _)
      (hostFix_basic e.o hh) (portOK_none _) hc)
  rw [authText_host host (hostBasic_no_colon hh)] at h
  rw [canonText_network_path host path query fragment hh.1 (rootedP_of_rooted hc.rooted)] at h
  exact h

/-- … and for any authority `[user[:password]@]host[:port]` (no scheme, so no default port) -/
theorem C04_identity_network_path_authority (e : Env) (user pw : Option Str) (h : Str) (port : Option Nat)
    (path query fragment : Str) (hu : UserInfoOK e.b user pw) (hh : HostFix e.o h)
    (hp : ∀ p, port = some p → p ≤ 65535) (hc : CompOK e.b path query fragment) :
    ∃ u, encodeUrl e ([47, 47] ++ authText user pw h port ++ path ++ qPart query ++ fPart fragment) = .ok u ∧
      str e u = .ok ([47, 47] ++ authText user pw h port ++ path ++ qPart query ++ fPart fragment) ∧
      u.scheme = [] ∧ u.netloc = authText user pw h port ∧ u.path = path ∧ u.query = query ∧
      u.fragment = fragment := by
  have h' := C04_identity_general e [] _ path query fragment
    (canonString_authority e [] user pw h port path query fragment (Or.inl rfl) hu hh
      ⟨hp, fun p _ => by rw [show defaultPort [] = none from rfl]; exact fun h => nomatch h⟩ hc)
  rw [canonText_network_path (authText user pw h port) path query fragment (NetlocLemmas.makeNetloc_ne_nil id user pw hh.ok.1 port)
    (rootedP_of_rooted hc.rooted)] at h'
  exact h'

/-- `C04_identity_authority` of C04.lean is an instance of the general theorem -/
theorem C04_identity_authority_of_general (e : Env) (scheme : Str) (user pw : Option Str) (h : Str)
    (port : Option Nat) (path query fragment : Str) (hs : SchemeOK scheme) (hu : UserInfoOK e.b user pw)
    (hh : HostFix e.o h) (hp : PortOK scheme port) (hc : CompOK e.b path query fragment) :
    ∃ u, encodeUrl e (composeUrl scheme (authText user pw h port) path query fragment) = .ok u ∧
      str e u = .ok (composeUrl scheme (authText user pw h port) path query fragment) ∧
      u.scheme = scheme ∧ u.netloc = authText user pw h port ∧ u.path = path ∧ u.query = query ∧
      u.fragment = fragment := by
  have h' := C04_identity_general e scheme _ path query fragment
    (canonString_authority e scheme user pw h port path query fragment (Or.inr hs) hu hh hp hc)
  rw [canonText_compose scheme (authText user pw h port) path query fragment hs.1
    (NetlocLemmas.makeNetloc_ne_nil id user pw hh.ok.1 port) (rootedP_of_rooted hc.rooted)] at h'
  exact h'

/-! ## the round trip as one function; a Boolean checker for the component clauses -/

/-- `str(URL(s))` -/
def C04_roundTrip (e : Env) (s : Str) : R Str := encodeUrl e s >>= str e

/-- C04 in one line: the round trip of a canonical string is that string -/
theorem C04_roundTrip_general (e : Env) (scheme netloc path query fragment : Str)
    (h : CanonString e scheme netloc path query fragment) :
    C04_roundTrip e (canonText scheme netloc path query fragment) =
      .ok (canonText scheme netloc path query fragment) := by
  obtain ⟨u, h1, h2, _⟩ := C04_identity_general e scheme netloc path query fragment h
  unfold C04_roundTrip
  rw [h1]
  exact h2

/-- the eight component clauses of `CanonString` (all but `schemeOK` and `netlocOK`), in the order of the
    structure, as Booleans (`isCanon` is the sound checker of `Canon`) -/
def C04_canonClauses (b : Backend) (scheme netloc path query fragment : Str) : List Bool :=
  [isCanon (Gen.PATH_REQUOTER.tab b) path, isCanon (Gen.QUERY_REQUOTER.tab b) query,
   isCanon (Gen.FRAGMENT_REQUOTER.tab b) fragment,
   decide (netloc ≠ [] → (path = [] ∨ path.head? = some 47)),
   decide (netloc ≠ [] → NoDotSegments path),
   decide (netloc ≠ [] → path = [] → query = [] ∧ fragment = []),
   decide (scheme = [] → netloc = [] → 58 ∈ path →
     (path.takeWhile (· ≠ 58) = [] ∨ (path.takeWhile (· ≠ 58)).all (fun c => mem c Gen.schemeChars) = false)),
   decide (scheme ≠ [] → Gen.usesAuthority.contains scheme = true → netloc = [] →
     (path = [] ∨ path.head? = some 47))]

/-- exactly clause `i` (0 path, 1 query, 2 fragment, 3 rooted, 4 nodots, 5 nonempty, 6 first_segment,
    7 authority_scheme) fails -/
def C04_OnlyClauseFails (i : Nat) (b : Backend) (scheme netloc path query fragment : Str) : Prop :=
  C04_canonClauses b scheme netloc path query fragment = (List.range 8).map (fun j => decide (j ≠ i))

instance (i : Nat) (b : Backend) (scheme netloc path query fragment : Str) :
    Decidable (C04_OnlyClauseFails i b scheme netloc path query fragment) := by
  unfold C04_OnlyClauseFails; infer_instance

/-- a canonical scheme, a canonical authority and the eight checks give `CanonString` -/
theorem canonString_of_clauses (e : Env) (scheme netloc path query fragment : Str) (hs : SchemeOK' scheme)
    (hn : CanonNetloc e scheme netloc)
    (h : C04_canonClauses e.b scheme netloc path query fragment = List.replicate 8 true) :
    CanonString e scheme netloc path query fragment := by
  unfold C04_canonClauses at h
  simp only [List.replicate, List.cons.injEq, decide_eq_true_eq, and_true] at h
  obtain ⟨h0, h1, h2, h3, h4, h5, h6, h7⟩ := h
  exact ⟨hs, hn, isCanon_sound _ _ h0, isCanon_sound _ _ h1, isCanon_sound _ _ h2, h3, h4, h5, h6, h7⟩

namespace IdGen

/-- text that a generated requoter changes is not canonical for it -/
theorem not_canon_of_run_ne (b : Backend) (a : QArgs) (ha : a ∈ Gen.allQuoters) (hreq : a.requote = true) (s : Str)
    (h : a.run b s ≠ s) : ¬ Canon (a.tab b) s :=
  fun hc => h (run_fixed b a ha hreq hc)

end IdGen

/-! ## every clause of `CanonString` is needed

  For each clause: components violating that clause only, and a string that the round trip changes. -/

/-- `PortOK.notDefault`: "http://h:80/" comes back as "http://h/" -/
theorem C04_general_default_port_needed (b : Backend) :
    SchemeOK' "http".toStr ∧ UserInfoOK b none none ∧ HostFix Oracles.empty "h".toStr ∧
    (∀ p, some 80 = some p → p ≤ 65535) ∧ ¬ PortOK "http".toStr (some 80) ∧
    C04_canonClauses b "http".toStr (authText none none "h".toStr (some 80)) "/".toStr [] [] = List.replicate 8 true ∧
    canonText "http".toStr (authText none none "h".toStr (some 80)) "/".toStr [] [] = "http://h:80/".toStr ∧
    C04_roundTrip ⟨b, Oracles.empty⟩ "http://h:80/".toStr = .ok "http://h/".toStr := by
  refine ⟨by decide, userInfoOK_none b, hostFix_basic _ (by decide), fun p hp => by cases hp; decide, ?_,
    by cases b <;> decide +kernel, by decide +kernel, by cases b <;> decide +kernel⟩
  intro h
  exact h.notDefault 80 rfl (by decide)

/-- `nodots`: "http://h/a/../b" comes back as "http://h/b" -/
theorem C04_general_dot_segment_needed (b : Backend) :
    SchemeOK' "http".toStr ∧ CanonNetloc ⟨b, Oracles.empty⟩ "http".toStr "h".toStr ∧
    C04_OnlyClauseFails 4 b "http".toStr "h".toStr "/a/../b".toStr [] [] ∧
    canonText "http".toStr "h".toStr "/a/../b".toStr [] [] = "http://h/a/../b".toStr ∧
    C04_roundTrip ⟨b, Oracles.empty⟩ "http://h/a/../b".toStr = .ok "http://h/b".toStr := by
  refine ⟨by decide, ?_, by cases b <;> decide +kernel, by decide +kernel, by cases b <;> decide +kernel⟩
  exact .auth none none "h".toStr none (by decide) (userInfoOK_none b) (hostFix_basic _ (by decide)) (portOK_none _)

/-- `nonempty`: "http://h?q" comes back as "http://h/?q" (also without a scheme: "//h?q" ↦ "//h/?q") -/
theorem C04_general_empty_path_needed (b : Backend) :
    SchemeOK' "http".toStr ∧ CanonNetloc ⟨b, Oracles.empty⟩ "http".toStr "h".toStr ∧
    C04_OnlyClauseFails 5 b "http".toStr "h".toStr [] "q".toStr [] ∧
    canonText "http".toStr "h".toStr [] "q".toStr [] = "http://h?q".toStr ∧
    C04_roundTrip ⟨b, Oracles.empty⟩ "http://h?q".toStr = .ok "http://h/?q".toStr ∧
    C04_roundTrip ⟨b, Oracles.empty⟩ "//h?q".toStr = .ok "//h/?q".toStr ∧
    C04_roundTrip ⟨b, Oracles.empty⟩ "//h#f".toStr = .ok "//h/#f".toStr := by
  refine ⟨by decide, ?_, by cases b <;> decide +kernel, by decide +kernel, by cases b <;> decide +kernel,
    by cases b <;> decide +kernel, by cases b <;> decide +kernel⟩
  exact .auth none none "h".toStr none (by decide) (userInfoOK_none b) (hostFix_basic _ (by decide)) (portOK_none _)

/-- `schemeOK`: an upper-case scheme is lowered -/
theorem C04_general_scheme_needed (b : Backend) :
    ¬ SchemeOK' "HTTP".toStr ∧ CanonNetloc ⟨b, Oracles.empty⟩ "HTTP".toStr "h".toStr ∧
    C04_canonClauses b "HTTP".toStr "h".toStr "/".toStr [] [] = List.replicate 8 true ∧
    canonText "HTTP".toStr "h".toStr "/".toStr [] [] = "HTTP://h/".toStr ∧
    C04_roundTrip ⟨b, Oracles.empty⟩ "HTTP://h/".toStr = .ok "http://h/".toStr ∧
    C04_roundTrip ⟨b, Oracles.empty⟩ "Mailto:x".toStr = .ok "mailto:x".toStr := by
  refine ⟨by decide, ?_, by cases b <;> decide +kernel, by decide +kernel, by cases b <;> decide +kernel,
    by cases b <;> decide +kernel⟩
  exact .auth none none "h".toStr none (by decide) (userInfoOK_none b) (hostFix_basic _ (by decide)) (portOK_none _)

/-- `HostFix`: an upper-case host is lowered -/
theorem C04_general_host_needed (b : Backend) :
    SchemeOK' "http".toStr ∧ ¬ HostFix Oracles.empty "H".toStr ∧
    C04_canonClauses b "http".toStr "H".toStr "/".toStr [] [] = List.replicate 8 true ∧
    canonText "http".toStr "H".toStr "/".toStr [] [] = "http://H/".toStr ∧
    C04_roundTrip ⟨b, Oracles.empty⟩ "http://H/".toStr = .ok "http://h/".toStr ∧
    C04_roundTrip ⟨b, Oracles.empty⟩ "//H/".toStr = .ok "//h/".toStr := by
  refine ⟨by decide, ?_, by cases b <;> decide +kernel, by decide +kernel, by cases b <;> decide +kernel,
    by cases b <;> decide +kernel⟩
  intro h
  have := h.enc
  revert this
  decide +kernel

/-- `pathC` / `queryC` / `fragmentC`: the superfluous escape "%41" is decoded, the lower-case escape "%c3%a9"
    is upper-cased, in every component -/
theorem C04_general_escape_needed (b : Backend) :
    (¬ Canon (Gen.PATH_REQUOTER.tab b) "/%41".toStr ∧ C04_OnlyClauseFails 0 b [] [] "/%41".toStr [] [] ∧
      canonText [] [] "/%41".toStr [] [] = "/%41".toStr ∧
      C04_roundTrip ⟨b, Oracles.empty⟩ "/%41".toStr = .ok "/A".toStr) ∧
    (¬ Canon (Gen.PATH_REQUOTER.tab b) "/%c3%a9".toStr ∧ C04_OnlyClauseFails 0 b [] [] "/%c3%a9".toStr [] [] ∧
      canonText [] [] "/%c3%a9".toStr [] [] = "/%c3%a9".toStr ∧
      C04_roundTrip ⟨b, Oracles.empty⟩ "/%c3%a9".toStr = .ok "/%C3%A9".toStr) ∧
    (¬ Canon (Gen.QUERY_REQUOTER.tab b) "a=%41".toStr ∧ C04_OnlyClauseFails 1 b [] [] [] "a=%41".toStr [] ∧
      C04_roundTrip ⟨b, Oracles.empty⟩ "?a=%41".toStr = .ok "?a=A".toStr ∧
      C04_roundTrip ⟨b, Oracles.empty⟩ "?a=%2b".toStr = .ok "?a=%2B".toStr) ∧
    (¬ Canon (Gen.FRAGMENT_REQUOTER.tab b) "%41".toStr ∧ C04_OnlyClauseFails 2 b [] [] [] [] "%41".toStr ∧
      C04_roundTrip ⟨b, Oracles.empty⟩ "#%41".toStr = .ok "#A".toStr ∧
      C04_roundTrip ⟨b, Oracles.empty⟩ "#%c3%a9".toStr = .ok "#%C3%A9".toStr) := by
  refine ⟨⟨not_canon_of_run_ne b _ pr_mem rfl _ (by cases b <;> decide +kernel), by cases b <;> decide +kernel,
      by decide +kernel, by cases b <;> decide +kernel⟩,
    ⟨not_canon_of_run_ne b _ pr_mem rfl _ (by cases b <;> decide +kernel), by cases b <;> decide +kernel,
      by decide +kernel, by cases b <;> decide +kernel⟩,
    ⟨not_canon_of_run_ne b _ qr_mem rfl _ (by cases b <;> decide +kernel), by cases b <;> decide +kernel,
      by cases b <;> decide +kernel, by cases b <;> decide +kernel⟩,
    ⟨not_canon_of_run_ne b _ fr_mem rfl _ (by cases b <;> decide +kernel), by cases b <;> decide +kernel,
      by cases b <;> decide +kernel, by cases b <;> decide +kernel⟩⟩

/-- `first_segment` (known exclusion 1): the relative path "A:b" is canonical path text, but the string "A:b" reads
    as scheme "A" and comes back as "a:b"; the string "a:b" is a fixed point, but as scheme "a" + path "b" -/
theorem C04_general_first_segment_needed (b : Backend) :
    C04_OnlyClauseFails 6 b [] [] "A:b".toStr [] [] ∧ canonText [] [] "A:b".toStr [] [] = "A:b".toStr ∧
    C04_roundTrip ⟨b, Oracles.empty⟩ "A:b".toStr = .ok "a:b".toStr ∧
    C04_OnlyClauseFails 6 b [] [] "a:b".toStr [] [] ∧ canonText [] [] "a:b".toStr [] [] = "a:b".toStr ∧
    (encodeUrl ⟨b, Oracles.empty⟩ "a:b".toStr).map (fun u => (u.scheme, u.path)) = .ok ("a".toStr, "b".toStr) := by
  refine ⟨by cases b <;> decide +kernel, by decide +kernel, by cases b <;> decide +kernel,
    by cases b <;> decide +kernel, by decide +kernel, by cases b <;> decide +kernel⟩

/-- `authority_scheme` (known exclusion 2): for a scheme in `uses_authority` a rootless path is written behind
    "scheme:///" and so gains a "/"; the string "file:a/b" itself comes back as "file:///a/b" -/
theorem C04_general_authority_scheme_needed (b : Backend) :
    SchemeOK' "file".toStr ∧ C04_OnlyClauseFails 7 b "file".toStr [] "a/b".toStr [] [] ∧
    canonText "file".toStr [] "a/b".toStr [] [] = "file:///a/b".toStr ∧
    (encodeUrl ⟨b, Oracles.empty⟩ "file:///a/b".toStr).map (·.path) = .ok "/a/b".toStr ∧
    C04_roundTrip ⟨b, Oracles.empty⟩ "file:a/b".toStr = .ok "file:///a/b".toStr := by
  refine ⟨by decide, by cases b <;> decide +kernel, by decide +kernel, by cases b <;> decide +kernel,
    by cases b <;> decide +kernel⟩

/-- … and the single-slash spelling `scheme:/path` of a scheme in `uses_authority` is not a fixed point either:
    "file:/p" comes back as "file:///p" (the canonical spelling is `canonText "file" "" "/p" = "file:///p"`,
    covered by `C04_identity_scheme_empty_authority`) -/
theorem C04_authority_scheme_single_slash_not_fixed (b : Backend) :
    C04_roundTrip ⟨b, Oracles.empty⟩ "file:/p".toStr = .ok "file:///p".toStr ∧
    C04_roundTrip ⟨b, Oracles.empty⟩ "http:/p".toStr = .ok "http:///p".toStr ∧
    canonText "file".toStr [] "/p".toStr [] [] = "file:///p".toStr ∧
    C04_roundTrip ⟨b, Oracles.empty⟩ "file:///p".toStr = .ok "file:///p".toStr := by
  refine ⟨by cases b <;> decide +kernel, by cases b <;> decide +kernel, by decide +kernel,
    by cases b <;> decide +kernel⟩

/-- `rooted`: under an authority a rootless path is written behind a "/" ("http://h/a"), and without a scheme
    `unsplit_result` drops the authority altogether (":a", see `C07_partsOK_rooted_counterexample`) -/
theorem C04_general_rooted_needed (b : Backend) :
    C04_OnlyClauseFails 3 b "http".toStr "h".toStr "a".toStr [] [] ∧
    canonText "http".toStr "h".toStr "a".toStr [] [] = "http://h/a".toStr ∧
    (encodeUrl ⟨b, Oracles.empty⟩ "http://h/a".toStr).map (·.path) = .ok "/a".toStr ∧
    C04_OnlyClauseFails 3 b [] "h".toStr "a".toStr [] [] ∧
    canonText [] "h".toStr "a".toStr [] [] = ":a".toStr := by
  refine ⟨by cases b <;> decide +kernel, by decide +kernel, by cases b <;> decide +kernel,
    by cases b <;> decide +kernel, by decide +kernel⟩

/-- the hypothesis "the path does not start with //" of the friendly corollaries `C04_identity_relative` and
    `C04_identity_scheme_only_path`: such a path is canonical (`CanonString` holds, the general theorem applies
    and writes "////X"), but the plain concatenation "//X" reads as an authority and comes back as "//x" -/
theorem C04_double_slash_path (b : Backend) :
    CanonString ⟨b, Oracles.empty⟩ [] [] "//X".toStr [] [] ∧ canonText [] [] "//X".toStr [] [] = "////X".toStr ∧
    C04_roundTrip ⟨b, Oracles.empty⟩ "////X".toStr = .ok "////X".toStr ∧
    C04_roundTrip ⟨b, Oracles.empty⟩ "//X".toStr = .ok "//x".toStr ∧
    canonText "x".toStr [] "//p".toStr [] [] = "x:////p".toStr ∧
    C04_roundTrip ⟨b, Oracles.empty⟩ "x://p".toStr = .ok "x://p".toStr ∧
    (encodeUrl ⟨b, Oracles.empty⟩ "x://p".toStr).map (fun u => (u.netloc, u.path)) = .ok ("p".toStr, []) := by
  refine ⟨canonString_of_clauses _ _ _ _ _ _ (by decide) (.empty rfl) (by cases b <;> decide +kernel),
    by decide +kernel, by cases b <;> decide +kernel, by cases b <;> decide +kernel, by decide +kernel,
    by cases b <;> decide +kernel, by cases b <;> decide +kernel⟩

/-! ## non-vacuity: concrete canonical strings of every shape (both backends) -/

namespace IdGen

/-- "/a%20b/c?x=1&y=%26#f" -/
theorem ex_relative (b : Backend) :
    CanonString ⟨b, Oracles.empty⟩ [] [] "/a%20b/c".toStr "x=1&y=%26".toStr "f".toStr :=
  canonString_of_clauses _ _ _ _ _ _ (by decide) (.empty rfl) (by cases b <;> decide +kernel)

/-- "mailto:user@example.com" -/
theorem ex_mailto (b : Backend) :
    CanonString ⟨b, Oracles.empty⟩ "mailto".toStr [] "user@example.com".toStr [] [] :=
  canonString_of_clauses _ _ _ _ _ _ (by decide) (.empty rfl) (by cases b <;> decide +kernel)

/-- "//example.com/p" -/
theorem ex_network (b : Backend) :
    CanonString ⟨b, Oracles.empty⟩ [] "example.com".toStr "/p".toStr [] [] :=
  canonString_of_clauses _ _ _ _ _ _ (by decide)
    (.auth none none "example.com".toStr none (by decide) (userInfoOK_none b) (hostFix_basic _ (by decide))
      (portOK_none _))
    (by cases b <;> decide +kernel)

/-- "http://u:p%40w@[2001:db8::1]:8080/a/b?q#f" -/
theorem ex_full (b : Backend) :
    CanonString ⟨b, Oracles.empty⟩ "http".toStr "u:p%40w@[2001:db8::1]:8080".toStr "/a/b".toStr "q".toStr "f".toStr :=
  canonString_of_clauses _ _ _ _ _ _ (by decide)
    (.auth (some "u".toStr) (some "p%40w".toStr) (ipv6ToStr [0x2001, 0xdb8, 0, 0, 0, 0, 0, 1]) (some 8080)
      (by decide +kernel)
      ⟨fun s h => (by cases h; exact ⟨by decide, isCanon_sound _ _ (by cases b <;> decide +kernel)⟩),
       fun s h => (by cases h; exact isCanon_sound _ _ (by cases b <;> decide +kernel))⟩
      (hostFix_ipv6 _ _ (by decide) (by decide))
      ⟨fun p hp => (by cases hp; decide), fun p hp => (by cases hp; decide)⟩)
    (by cases b <;> decide +kernel)

/-- "?q" -/
theorem ex_query (b : Backend) : CanonString ⟨b, Oracles.empty⟩ [] [] [] "q".toStr [] :=
  canonString_of_clauses _ _ _ _ _ _ (by decide) (.empty rfl) (by cases b <;> decide +kernel)

/-- "" -/
theorem ex_empty (b : Backend) : CanonString ⟨b, Oracles.empty⟩ [] [] [] [] [] :=
  canonString_of_clauses _ _ _ _ _ _ (by decide) (.empty rfl) (by cases b <;> decide +kernel)

end IdGen

example : canonText [] [] "/a%20b/c".toStr "x=1&y=%26".toStr "f".toStr = "/a%20b/c?x=1&y=%26#f".toStr := by decide +kernel
example : canonText "mailto".toStr [] "user@example.com".toStr [] [] = "mailto:user@example.com".toStr := by decide +kernel
example : canonText [] "example.com".toStr "/p".toStr [] [] = "//example.com/p".toStr := by decide +kernel
example : canonText "http".toStr "u:p%40w@[2001:db8::1]:8080".toStr "/a/b".toStr "q".toStr "f".toStr =
    "http://u:p%40w@[2001:db8::1]:8080/a/b?q#f".toStr := by decide +kernel
example : canonText [] [] [] "q".toStr [] = "?q".toStr := by decide +kernel
example : canonText [] [] [] [] [] = [] := by decide +kernel

/-- the identity, instantiated: each of the six strings is parsed into exactly its components and printed back -/
theorem C04_general_examples (b : Backend) :
    (∃ u, encodeUrl ⟨b, Oracles.empty⟩ "/a%20b/c?x=1&y=%26#f".toStr = .ok u ∧
      str ⟨b, Oracles.empty⟩ u = .ok "/a%20b/c?x=1&y=%26#f".toStr ∧ u.scheme = [] ∧ u.netloc = [] ∧
      u.path = "/a%20b/c".toStr ∧ u.query = "x=1&y=%26".toStr ∧ u.fragment = "f".toStr) ∧
    (∃ u, encodeUrl ⟨b, Oracles.empty⟩ "mailto:user@example.com".toStr = .ok u ∧
      str ⟨b, Oracles.empty⟩ u = .ok "mailto:user@example.com".toStr ∧ u.scheme = "mailto".toStr ∧ u.netloc = [] ∧
      u.path = "user@example.com".toStr ∧ u.query = [] ∧ u.fragment = []) ∧
    (∃ u, encodeUrl ⟨b, Oracles.empty⟩ "//example.com/p".toStr = .ok u ∧
      str ⟨b, Oracles.empty⟩ u = .ok "//example.com/p".toStr ∧ u.scheme = [] ∧ u.netloc = "example.com".toStr ∧
      u.path = "/p".toStr ∧ u.query = [] ∧ u.fragment = []) ∧
    (∃ u, encodeUrl ⟨b, Oracles.empty⟩ "http://u:p%40w@[2001:db8::1]:8080/a/b?q#f".toStr = .ok u ∧
      str ⟨b, Oracles.empty⟩ u = .ok "http://u:p%40w@[2001:db8::1]:8080/a/b?q#f".toStr ∧ u.scheme = "http".toStr ∧
      u.netloc = "u:p%40w@[2001:db8::1]:8080".toStr ∧ u.path = "/a/b".toStr ∧ u.query = "q".toStr ∧
      u.fragment = "f".toStr) ∧
    (∃ u, encodeUrl ⟨b, Oracles.empty⟩ "?q".toStr = .ok u ∧ str ⟨b, Oracles.empty⟩ u = .ok "?q".toStr ∧
      u.scheme = [] ∧ u.netloc = [] ∧ u.path = [] ∧ u.query = "q".toStr ∧ u.fragment = []) ∧
    (∃ u, encodeUrl ⟨b, Oracles.empty⟩ [] = .ok u ∧ str ⟨b, Oracles.empty⟩ u = .ok [] ∧
      u.scheme = [] ∧ u.netloc = [] ∧ u.path = [] ∧ u.query = [] ∧ u.fragment = []) :=
  ⟨C04_identity_general _ _ _ _ _ _ (ex_relative b), C04_identity_general _ _ _ _ _ _ (ex_mailto b),
   C04_identity_general _ _ _ _ _ _ (ex_network b), C04_identity_general _ _ _ _ _ _ (ex_full b),
   C04_identity_general _ _ _ _ _ _ (ex_query b), C04_identity_general _ _ _ _ _ _ (ex_empty b)⟩

/-- the friendly corollaries are not vacuous either -/
example (b : Backend) : ∃ u, encodeUrl ⟨b, Oracles.empty⟩ "a.b/c%2Fd;x?k=v+w#frag/?".toStr = .ok u ∧
    str ⟨b, Oracles.empty⟩ u = .ok "a.b/c%2Fd;x?k=v+w#frag/?".toStr ∧ u.scheme = [] ∧ u.netloc = [] ∧
    u.path = "a.b/c%2Fd;x".toStr ∧ u.query = "k=v+w".toStr ∧ u.fragment = "frag/?".toStr :=
  C04_identity_relative ⟨b, Oracles.empty⟩ "a.b/c%2Fd;x".toStr "k=v+w".toStr "frag/?".toStr
    (isCanon_sound _ _ (by cases b <;> decide +kernel)) (isCanon_sound _ _ (by cases b <;> decide +kernel))
    (isCanon_sound _ _ (by cases b <;> decide +kernel)) (by decide) (by decide)

example (b : Backend) : ∃ u, encodeUrl ⟨b, Oracles.empty⟩ "x:/p/../q?z".toStr = .ok u ∧
    str ⟨b, Oracles.empty⟩ u = .ok "x:/p/../q?z".toStr ∧ u.scheme = "x".toStr ∧ u.netloc = [] ∧
    u.path = "/p/../q".toStr ∧ u.query = "z".toStr ∧ u.fragment = [] :=
  C04_identity_scheme_only_path ⟨b, Oracles.empty⟩ "x".toStr "/p/../q".toStr "z".toStr [] (by decide) (by decide)
    (isCanon_sound _ _ (by cases b <;> decide +kernel)) (isCanon_sound _ _ (by cases b <;> decide +kernel))
    (isCanon_sound _ _ (by cases b <;> decide +kernel)) (by decide)

example (b : Backend) : ∃ u, encodeUrl ⟨b, Oracles.empty⟩ "file:///etc/passwd".toStr = .ok u ∧
    str ⟨b, Oracles.empty⟩ u = .ok "file:///etc/passwd".toStr ∧ u.scheme = "file".toStr ∧ u.netloc = [] ∧
    u.path = "/etc/passwd".toStr ∧ u.query = [] ∧ u.fragment = [] :=
  C04_identity_scheme_empty_authority ⟨b, Oracles.empty⟩ "file".toStr "/etc/passwd".toStr [] [] (by decide) (by decide)
    (by decide) (isCanon_sound _ _ (by cases b <;> decide +kernel)) (isCanon_sound _ _ (by cases b <;> decide +kernel))
    (isCanon_sound _ _ (by cases b <;> decide +kernel))

example (b : Backend) : ∃ u, encodeUrl ⟨b, Oracles.empty⟩ "//cdn.example.org/lib.js?v=2".toStr = .ok u ∧
    str ⟨b, Oracles.empty⟩ u = .ok "//cdn.example.org/lib.js?v=2".toStr ∧ u.scheme = [] ∧
    u.netloc = "cdn.example.org".toStr ∧ u.path = "/lib.js".toStr ∧ u.query = "v=2".toStr ∧ u.fragment = [] :=
  C04_identity_network_path ⟨b, Oracles.empty⟩ "cdn.example.org".toStr "/lib.js".toStr "v=2".toStr [] (by decide)
    (compOKB_sound (by cases b <;> decide +kernel))

end Yarl
