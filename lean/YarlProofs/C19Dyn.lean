/-
  C19Dyn.lean — closes C19 GAPS item 1 (TypeError for wrong-typed arguments) over the dynamic layer YarlModel/Dyn.lean.

  For every entry point that HAS a type gate in `yarl/_url.py` (constructor, with_scheme, with_user, with_password,
  with_host, with_port, with_fragment, with_name, with_suffix, join, `/`, the three query methods, the comparison
  operators) we prove
   * `C19_dyn_errors_allowed`: the call returns, or raises ValueError / TypeError (or is an oracle request of the typed
     function it delegates to) — never anything else;
   * `C19_dyn_type_errors`: EXACTLY which objects are rejected with TypeError (`isinstance(x, str)` accepts str
     subclasses; `None` is accepted by with_user / with_password / with_fragment / with_port only; `with_port` rejects
     `bool` although it is an int; `join` wants `type(url) is URL`; the constructor takes str, str subclass, URL, and a
     SplitResult only with `encoded=True`), and that the type check comes FIRST (a wrong type on a relative URL is a
     TypeError, not the "relative URL" ValueError);
   * `C19_dyn_agrees_on_typed`: on arguments of the documented types the dynamic entry point IS the typed function,
     so all typed C19 theorems transfer.

  Two entry points have NO type gate: `with_path` and `joinpath`.  For them "never anything else" is FALSE in the code
  (real library behaviour, see the probe rows; NOT a violation of C19, whose text starts "given arguments of the
  documented types"):
   * `URL("http://h/p").joinpath({1: 2})` raises KeyError, `URL("http://h/p").joinpath((), encoded=True)` raises
     AttributeError (`C19_dyn_joinpath_leaks`);
   * `URL("/a").with_path(None)`, `URL("http://h").with_path(0, encoded=True)`, `….with_path((), encoded=True)` RETURN
     a URL object whose `_path` is not a str, `URL("http://h").with_path(b"x", encoded=True)` returns
     `URL("http://h/b'x'")`, `….with_path({1: 2}, encoded=True)` raises KeyError (`C19_dyn_with_path_leaks`).
  The strongest true statements are proved instead: the complete outcome tables (`C19_dyn_childArgErr_table`,
  `C19_dyn_with_path_table`) and the kind bounds (`C19_dyn_joinpath_errors`, `C19_dyn_with_path_nonstr`).
-/
import YarlModel.Dyn
import YarlProofs.C19
namespace Yarl
open Yarl.Dyn Yarl.ErrLemmas

namespace Dyn

/-! ### tag predicates used in the statements -/

def isNone : PyObj → Bool
  | .none => true
  | _ => false
/-- `type(o) is int` — a `bool` is not -/
def isInt : PyObj → Bool
  | .int _ => true
  | _ => false
def isUrl : PyObj → Bool
  | .url _ => true
  | _ => false
def isSplit : PyObj → Bool
  | .splitResult _ => true
  | _ => false

variable {Q : PyErr → Prop}

theorem vo_ne_type : ¬ VO .typeError := by simp [VO]
theorem vo_ne_key : ¬ VO .keyError := by simp [VO]

theorem not_type_of_vo {α} {x : R α} (h : Errs VO x) : x ≠ .error .typeError :=
  fun hx => vo_ne_type (h.elim hx)

theorem withPort_int_errs [Sub VO Q] (e : Env) (u : Url) (p : Option Int) : Errs Q (withPort e u p 0) := by
  unfold withPort
  simp only [ne_eq, not_true_eq_false, ↓reduceIte]
  errs

/-! ### error kinds of the gated entry points -/

theorem dynNew_errs [Sub VO Q] [Sub TV Q] (e : Env) (o : PyObj) (enc : Bool) : Errs Q (dynNew e o enc) := by
  unfold dynNew
  split
  · split
    · exact preEncodedUrl_errs e _
    · exact encodeUrl_errs e _
  · exact Errs.ok _
  · split
    · exact Errs.error tv_value
    · split
      · exact Errs.ok _
      · exact Errs.error tv_type
  · split
    · exact preEncodedUrl_errs e _
    · exact encodeUrl_errs e _
  · exact Errs.error tv_type

theorem dynWithScheme_errs [Sub VO Q] [Sub TV Q] (e : Env) (u : Url) (o : PyObj) : Errs Q (dynWithScheme e u o) := by
  unfold dynWithScheme; split
  · exact withScheme_errs e u _
  · exact Errs.error tv_type

theorem dynWithUser_errs [Sub VO Q] [Sub TV Q] (e : Env) (u : Url) (o : PyObj) : Errs Q (dynWithUser e u o) := by
  unfold dynWithUser; split
  · exact withUser_errs e u _
  · split
    · exact withUser_errs e u _
    · exact Errs.error tv_type

theorem dynWithPassword_errs [Sub VO Q] [Sub TV Q] (e : Env) (u : Url) (o : PyObj) :
    Errs Q (dynWithPassword e u o) := by
  unfold dynWithPassword; split
  · exact withPassword_errs e u _
  · split
    · exact withPassword_errs e u _
    · exact Errs.error tv_type

theorem dynWithHost_errs [Sub VO Q] [Sub TV Q] (e : Env) (u : Url) (o : PyObj) : Errs Q (dynWithHost e u o) := by
  unfold dynWithHost; split
  · exact withHost_errs e u _
  · exact Errs.error tv_type

theorem dynWithPort_errs [Sub VO Q] [Sub TV Q] (e : Env) (u : Url) (o : PyObj) : Errs Q (dynWithPort e u o) := by
  unfold dynWithPort; split <;> exact withPort_errs e u _ _

theorem dynWithFragment_errs [Sub TV Q] (e : Env) (u : Url) (o : PyObj) : Errs Q (dynWithFragment e u o) := by
  unfold dynWithFragment; split
  · exact Errs.ok _
  · split
    · exact Errs.ok _
    · exact Errs.error tv_type

theorem dynWithName_errs [Sub VO Q] [Sub TV Q] (e : Env) (u : Url) (o : PyObj) (kq kf : Bool) :
    Errs Q (dynWithName e u o kq kf) := by
  unfold dynWithName; split
  · exact withName_errs e u _ _ _
  · exact Errs.error tv_type

theorem dynWithSuffix_errs [Sub VO Q] [Sub TV Q] (e : Env) (u : Url) (o : PyObj) (kq kf : Bool) :
    Errs Q (dynWithSuffix e u o kq kf) := by
  unfold dynWithSuffix; split
  · exact withSuffix_errs e u _ _ _
  · exact Errs.error tv_type

theorem dynJoin_errs [Sub TV Q] (e : Env) (u : Url) (o : PyObj) : Errs Q (dynJoin e u o) := by
  unfold dynJoin; split
  · exact Errs.ok _
  · exact Errs.error tv_type

theorem dynTruediv_errs [Sub VO Q] [Sub TV Q] (e : Env) (u : Url) (o : PyObj) : Errs Q (dynTruediv e u o) := by
  unfold dynTruediv; split
  · exact makeChild_errs e u _ _
  · exact Errs.error tv_type

theorem dynCmp_errs [Sub TV Q] (op : Nat) (u : Url) (o : PyObj) : Errs Q (dynCmp op u o) := by
  unfold dynCmp; split
  · exact Errs.ok _
  · split
    · exact Errs.ok _
    · exact Errs.error tv_type

theorem unpack2_errs [Sub TV Q] (o : PyObj) : Errs Q (unpack2 o) := by
  unfold unpack2; split
  · exact Errs.error tv_type
  · exact Errs.ok _
  · exact Errs.error tv_value

theorem mdPair_errs [Sub TV Q] (o : PyObj) : Errs Q (mdPair o) := by
  unfold mdPair; split
  · rename_i err h
    have := (unpack2_errs (Q := Q) o)
    rw [h] at this
    exact this
  · split
    · exact Errs.ok _
    · exact Errs.error tv_type

theorem dynUpdateQuery_errs [Sub TV Q] (e : Env) (u : Url) (o : PyObj) : Errs Q (dynUpdateQuery e u o) := by
  have hb : ∀ xs : List PyObj,
      Errs Q ((xs.mapM mdPair).bind (fun items => updateQuery e u (.pairs items))) := fun xs =>
    Errs.bind (x := xs.mapM mdPair) (Errs.mapM mdPair_errs xs) (fun _ => updateQuery_errs e u _)
  unfold dynUpdateQuery
  split
  · exact updateQuery_errs e u _
  · split
    · exact updateQuery_errs e u _
    · split
      · split
        · exact updateQuery_errs e u _
        · exact Errs.error tv_type
      · exact updateQuery_errs e u _
      · exact updateQuery_errs e u _
      · exact Errs.error tv_type
      · exact hb _
      · exact hb _
      · exact hb _
      · exact Errs.error tv_type

/-! ### `joinpath` helpers -/

theorem childScan_strs : ∀ (xs : List PyObj) (strs : List Str), xs.map strLike = strs.map some →
    childScan xs = (strs, none)
  | [], [], _ => rfl
  | [], _ :: _, h => by simp at h
  | _ :: _, [], h => by simp at h
  | x :: xs, s :: strs, h => by
    simp only [List.map_cons, List.cons.injEq] at h
    simp only [childScan, h.1, childScan_strs xs strs h.2]

/-- `o[0]` on a TRUTHY object: never IndexError -/
theorem item0_errs (o : PyObj) (ht : truthy o = true) (err : PyErr) (h : item0 o = .error err) :
    err = .typeError ∨ err = .keyError := by
  cases o with
  | str s => cases s with
    | nil => simp [truthy] at ht
    | cons c r => simp [item0] at h
  | strSub s => cases s with
    | nil => simp [truthy] at ht
    | cons c r => simp [item0] at h
  | bytes s => cases s with
    | nil => simp [truthy] at ht
    | cons c r => simp [item0] at h
  | tuple s => cases s with
    | nil => simp [truthy] at ht
    | cons c r => simp [item0] at h
  | list s => cases s with
    | nil => simp [truthy] at ht
    | cons c r => simp [item0] at h
  | splitResult s => cases s with
    | nil => simp [truthy] at ht
    | cons c r => simp [item0] at h
  | dict items =>
    simp only [item0] at h
    split at h
    · cases h
    · cases h; exact .inr rfl
  | none => simp [item0] at h; exact .inl h.symm
  | bool b => simp [item0] at h; exact .inl h.symm
  | int i => simp [item0] at h; exact .inl h.symm
  | float t k => simp [item0] at h; exact .inl h.symm
  | url v => simp [item0] at h; exact .inl h.symm
  | other t => simp [item0] at h; exact .inl h.symm

theorem dotIn_errs (o : PyObj) (err : PyErr) (h : dotIn o = .error err) : err = .typeError := by
  cases o <;> simp [dotIn] at h <;> exact h.symm

/-- the error of one non-str element is never IndexError: `path[0]` is only evaluated on a truthy `path` -/
theorem childArgErr_kinds (enc : Bool) (o : PyObj) :
    childArgErr enc o = .typeError ∨ childArgErr enc o = .valueError ∨ childArgErr enc o = .keyError ∨
      childArgErr enc o = .attributeError := by
  unfold childArgErr
  split
  · rename_i err heq
    split at heq
    · rename_i ht
      cases hi : item0 o with
      | error e' =>
        rw [hi] at heq
        simp only [Except.map, Except.error.injEq] at heq
        subst heq
        rcases item0_errs o ht _ hi with h | h <;> simp [h]
      | ok x => rw [hi] at heq; simp [Except.map] at heq
    · cases heq
  · simp
  · split
    · split
      · rename_i err hd
        simp [dotIn_errs o err hd]
      · simp
    · simp

end Dyn

/-! ## Sentence: "only ValueError / TypeError" for the type-gated entry points -/

/-- every type-gated entry point, on ANY object: a failure is a ValueError, a TypeError, or an oracle request of the
    typed function it delegates to — never anything else (`==` / `!=` are total: they return a bool) -/
theorem C19_dyn_errors_allowed (e : Env) (u : Url) (o : PyObj) (err : PyErr) :
    (∀ enc, dynNew e o enc = .error err → Allowed err) ∧
    (dynWithScheme e u o = .error err → Allowed err) ∧
    (dynWithUser e u o = .error err → Allowed err) ∧
    (dynWithPassword e u o = .error err → Allowed err) ∧
    (dynWithHost e u o = .error err → Allowed err) ∧
    (dynWithPort e u o = .error err → Allowed err) ∧
    (dynWithFragment e u o = .error err → err = .typeError) ∧
    (∀ kq kf, dynWithName e u o kq kf = .error err → Allowed err) ∧
    (∀ kq kf, dynWithSuffix e u o kq kf = .error err → Allowed err) ∧
    (dynJoin e u o = .error err → err = .typeError) ∧
    (dynTruediv e u o = .error err → Allowed err) ∧
    (dynWithQuery e u o = .error err → err = .typeError ∨ err = .valueError) ∧
    (dynExtendQuery e u o = .error err → err = .typeError ∨ err = .valueError) ∧
    (dynUpdateQuery e u o = .error err → err = .typeError ∨ err = .valueError) ∧
    (∀ op, dynCmp op u o = .error err → err = .typeError) := by
  refine ⟨fun enc h => (dynNew_errs (Q := Allowed) e o enc).elim h,
    fun h => (dynWithScheme_errs (Q := Allowed) e u o).elim h,
    fun h => (dynWithUser_errs (Q := Allowed) e u o).elim h,
    fun h => (dynWithPassword_errs (Q := Allowed) e u o).elim h,
    fun h => (dynWithHost_errs (Q := Allowed) e u o).elim h,
    fun h => (dynWithPort_errs (Q := Allowed) e u o).elim h,
    fun h => ?_,
    fun kq kf h => (dynWithName_errs (Q := Allowed) e u o kq kf).elim h,
    fun kq kf h => (dynWithSuffix_errs (Q := Allowed) e u o kq kf).elim h,
    fun h => ?_,
    fun h => (dynTruediv_errs (Q := Allowed) e u o).elim h,
    fun h => (withQuery_errs (Q := TV) e u _).elim h,
    fun h => (extendQuery_errs (Q := TV) e u _).elim h,
    fun h => (dynUpdateQuery_errs (Q := TV) e u o).elim h,
    fun op h => ?_⟩
  · unfold dynWithFragment at h
    split at h
    · cases h
    · split at h
      · cases h
      · cases h; rfl
  · unfold dynJoin at h
    split at h
    · cases h
    · cases h; rfl
  · unfold dynCmp at h
    split at h
    · cases h
    · split at h
      · cases h
      · cases h; rfl

/-- the keyword forms (`with_query(**kw)` …): kwargs have str keys by construction; an empty call is the arity
    ValueError -/
theorem C19_dyn_kw_errors_allowed (e : Env) (u : Url) (kw : List (Str × PyObj)) (err : PyErr) :
    (dynWithQueryKw e u kw = .error err → err = .typeError ∨ err = .valueError) ∧
    (dynExtendQueryKw e u kw = .error err → err = .typeError ∨ err = .valueError) ∧
    (dynUpdateQueryKw e u kw = .error err → err = .typeError ∨ err = .valueError) ∧
    dynWithQueryKw e u [] = .error .valueError ∧ dynExtendQueryKw e u [] = .error .valueError ∧
    dynUpdateQueryKw e u [] = .error .valueError :=
  ⟨fun h => (withQuery_errs (Q := TV) e u _).elim h, fun h => (extendQuery_errs (Q := TV) e u _).elim h,
   fun h => (updateQuery_errs (Q := TV) e u _).elim h, rfl, rfl, rfl⟩

/-! ## the exact TypeError conditions -/

/-- which objects each type-gated entry point rejects with TypeError — for EVERY receiver `u` (so the type check
    precedes every value check, e.g. the "relative URL" ValueError) -/
theorem C19_dyn_type_errors (e : Env) (u : Url) (o : PyObj) :
    (dynWithScheme e u o = .error .typeError ↔ strLike o = none) ∧
    (dynWithUser e u o = .error .typeError ↔ strLike o = none ∧ isNone o = false) ∧
    (dynWithPassword e u o = .error .typeError ↔ strLike o = none ∧ isNone o = false) ∧
    (dynWithHost e u o = .error .typeError ↔ strLike o = none) ∧
    (dynWithPort e u o = .error .typeError ↔ isNone o = false ∧ isInt o = false) ∧
    (dynWithFragment e u o = .error .typeError ↔ strLike o = none ∧ isNone o = false) ∧
    (∀ kq kf, dynWithName e u o kq kf = .error .typeError ↔ strLike o = none) ∧
    (∀ kq kf, dynWithSuffix e u o kq kf = .error .typeError ↔ strLike o = none) ∧
    (dynJoin e u o = .error .typeError ↔ isUrl o = false) ∧
    (dynTruediv e u o = .error .typeError ↔ strLike o = none) ∧
    (∀ op, dynCmp op u o = .error .typeError ↔ isUrl o = false) := by
  have hs := fun s => not_type_of_vo (withScheme_errs (Q := VO) e u s)
  have hu := fun s => not_type_of_vo (withUser_errs (Q := VO) e u s)
  have hp := fun s => not_type_of_vo (withPassword_errs (Q := VO) e u s)
  have hh := fun s => not_type_of_vo (withHost_errs (Q := VO) e u s)
  have hpt := fun p => not_type_of_vo (withPort_int_errs (Q := VO) e u p)
  have hn := fun s kq kf => not_type_of_vo (withName_errs (Q := VO) e u s kq kf)
  have hsx := fun s kq kf => not_type_of_vo (withSuffix_errs (Q := VO) e u s kq kf)
  have hc := fun l enc => not_type_of_vo (makeChild_errs (Q := VO) e u l enc)
  have hpb : withPort e u none 1 = .error .typeError := by simp [withPort]
  have hpo : withPort e u none 2 = .error .typeError := by simp [withPort]
  cases o <;>
    simp [dynWithScheme, dynWithUser, dynWithPassword, dynWithHost, dynWithPort, dynWithFragment, dynWithName,
      dynWithSuffix, dynJoin, dynTruediv, dynCmp, urlCmpMethod, reflCmp, strLike, isNone, isInt, isUrl, hs, hu, hp, hh,
      hpt, hn, hsx, hc, hpb, hpo]

/-- the constructor: TypeError("Constructor parameter should be str") exactly for objects that are neither a str
    (subclass), nor a URL, nor a SplitResult; a SplitResult is a ValueError unless `encoded=True`; a URL is returned
    as it is, whatever `encoded` says -/
theorem C19_dyn_new_type_errors (e : Env) (o : PyObj) (enc : Bool)
    (hwf : ∀ parts, o = .splitResult parts → parts.length = 5) :
    (dynNew e o enc = .error .typeError ↔ strLike o = none ∧ isUrl o = false ∧ isSplit o = false) ∧
    (∀ v, o = .url v → dynNew e o enc = .ok v) ∧
    (isSplit o = true → (enc = false → dynNew e o enc = .error .valueError) ∧
      (enc = true → ∃ v, dynNew e o enc = .ok v ∧ o = .splitResult [v.scheme, v.netloc, v.path, v.query, v.fragment])) := by
  have h1 := fun s => not_type_of_vo (encodeUrl_errs (Q := VO) e s)
  have h2 := fun s => not_type_of_vo (preEncodedUrl_errs (Q := VO) e s)
  cases o with
  | splitResult parts =>
    have h5 := hwf parts rfl
    match parts, h5 with
    | [a, b, c, d, f], _ =>
      cases enc <;> simp [dynNew, strLike, isUrl, isSplit, fromParts]
  | str s => cases enc <;> simp [dynNew, strLike, isUrl, isSplit, h1, h2]
  | strSub s => cases enc <;> simp [dynNew, strLike, isUrl, isSplit, h1, h2]
  | _ => simp [dynNew, strLike, isUrl, isSplit]

/-- readable instances of the two theorems above -/
theorem C19_dyn_type_error_instances (e : Env) (u : Url) :
    (∀ b, dynWithPort e u (.bool b) = .error .typeError) ∧                 -- bool is an int, yet rejected
    (∀ t k, dynWithPort e u (.float t k) = .error .typeError) ∧
    (∀ s, dynWithPort e u (.str s) = .error .typeError) ∧
    dynWithScheme e u .none = .error .typeError ∧ dynWithHost e u .none = .error .typeError ∧
    (∀ b, dynWithScheme e u (.bytes b) = .error .typeError) ∧
    (∀ i, dynWithUser e u (.int i) = .error .typeError) ∧ (∀ b, dynWithPassword e u (.bytes b) = .error .typeError) ∧
    (∀ i, dynWithFragment e u (.int i) = .error .typeError) ∧
    (∀ s, dynJoin e u (.str s) = .error .typeError) ∧ dynJoin e u .none = .error .typeError ∧
    (∀ ps, dynJoin e u (.splitResult ps) = .error .typeError) ∧
    (∀ i, dynTruediv e u (.int i) = .error .typeError) ∧ (∀ v, dynTruediv e u (.url v) = .error .typeError) ∧
    (∀ enc b, dynNew e (.bytes b) enc = .error .typeError) ∧ (∀ enc, dynNew e .none enc = .error .typeError) ∧
    (∀ enc xs, dynNew e (.tuple xs) enc = .error .typeError) :=
  ⟨fun _ => by simp [dynWithPort, withPort], fun _ _ => by simp [dynWithPort, withPort],
   fun _ => by simp [dynWithPort, withPort], rfl, rfl, fun _ => rfl, fun _ => rfl, fun _ => rfl, fun _ => rfl,
   fun _ => rfl, rfl, fun _ => rfl, fun _ => rfl, fun _ => rfl, fun _ _ => rfl, fun _ => rfl, fun _ _ => rfl⟩

/-! ## documented types: the dynamic entry point IS the typed function -/

theorem C19_dyn_agrees_on_typed (e : Env) (u : Url) (s : Str) :
    (∀ enc, dynNew e (.str s) enc = if enc then preEncodedUrl e s else encodeUrl e s) ∧
    dynWithScheme e u (.str s) = withScheme e u s ∧
    dynWithUser e u (.str s) = withUser e u (some s) ∧ dynWithUser e u .none = withUser e u none ∧
    dynWithPassword e u (.str s) = withPassword e u (some s) ∧ dynWithPassword e u .none = withPassword e u none ∧
    dynWithHost e u (.str s) = withHost e u s ∧
    (∀ i, dynWithPort e u (.int i) = withPort e u (some i) 0) ∧ dynWithPort e u .none = withPort e u none 0 ∧
    dynWithFragment e u (.str s) = .ok (withFragment e u (some s)) ∧
    dynWithFragment e u .none = .ok (withFragment e u none) ∧
    (∀ kq kf, dynWithName e u (.str s) kq kf = withName e u s kq kf) ∧
    (∀ kq kf, dynWithSuffix e u (.str s) kq kf = withSuffix e u s kq kf) ∧
    (∀ v, dynJoin e u (.url v) = .ok (join e u v)) ∧
    dynTruediv e u (.str s) = makeChild e u [s] false ∧
    (∀ enc kq kf, dynWithPath e u (.str s) enc kq kf = .ok (withPath e u s enc kq kf)) :=
  ⟨fun _ => rfl, rfl, rfl, rfl, rfl, rfl, rfl, fun _ => rfl, rfl, rfl, rfl, fun _ _ => rfl, fun _ _ => rfl,
   fun _ => rfl, rfl, fun _ _ _ => rfl⟩

/-- a str SUBCLASS instance is accepted everywhere a str is (`isinstance`, not `type(x) is str`), with the same result -/
theorem C19_dyn_str_subclass (e : Env) (u : Url) (s : Str) :
    (∀ enc, dynNew e (.strSub s) enc = dynNew e (.str s) enc) ∧
    dynWithScheme e u (.strSub s) = dynWithScheme e u (.str s) ∧
    dynWithUser e u (.strSub s) = dynWithUser e u (.str s) ∧
    dynWithPassword e u (.strSub s) = dynWithPassword e u (.str s) ∧
    dynWithHost e u (.strSub s) = dynWithHost e u (.str s) ∧
    dynWithFragment e u (.strSub s) = dynWithFragment e u (.str s) ∧
    (∀ kq kf, dynWithName e u (.strSub s) kq kf = dynWithName e u (.str s) kq kf) ∧
    (∀ kq kf, dynWithSuffix e u (.strSub s) kq kf = dynWithSuffix e u (.str s) kq kf) ∧
    dynTruediv e u (.strSub s) = dynTruediv e u (.str s) ∧
    (∀ enc kq kf, dynWithPath e u (.strSub s) enc kq kf = dynWithPath e u (.str s) enc kq kf) ∧
    dynWithQuery e u (.strSub s) = dynWithQuery e u (.str s) ∧
    dynExtendQuery e u (.strSub s) = dynExtendQuery e u (.str s) ∧
    dynUpdateQuery e u (.strSub s) = dynUpdateQuery e u (.str s) ∧
    (dynWithPort e u (.strSub s) = .error .typeError ∧ dynJoin e u (.strSub s) = .error .typeError) := by
  refine ⟨fun _ => rfl, rfl, rfl, rfl, rfl, rfl, fun _ _ => rfl, fun _ _ => rfl, rfl, fun _ _ _ => rfl, ?_, ?_, ?_,
    by simp [dynWithPort, withPort], rfl⟩
  · cases s <;> rfl
  · cases s <;> rfl
  · cases s <;> rfl

/-! ## `joinpath`: no type gate -/

/-- str (subclass) arguments only: `joinpath` is the typed `_make_child` -/
theorem C19_dyn_joinpath_strs (e : Env) (u : Url) (xs : List PyObj) (strs : List Str) (enc : Bool)
    (h : xs.map strLike = strs.map some) : dynJoinpath e u xs enc = makeChild e u strs enc := by
  have h' : xs.reverse.map strLike = strs.reverse.map some := by
    rw [List.map_reverse, List.map_reverse, h]
  simp [dynJoinpath, childScan_strs _ _ h']

/-- with a non-str argument: the error of the first offending element of `reversed(other)` — the leading-slash
    ValueError of a str met before the first non-str element, else that element's error -/
theorem C19_dyn_joinpath_nonstr (e : Env) (u : Url) (xs : List PyObj) (enc : Bool) (pre : List Str) (o : PyObj)
    (h : childScan xs.reverse = (pre, some o)) :
    dynJoinpath e u xs enc =
      .error (if pre.any (fun s => s.head? = some 47) then .valueError else childArgErr enc o) := by
  simp only [dynJoinpath, h]
  split <;> rfl

/-- what one non-str element raises inside `_make_child` (complete table) -/
theorem C19_dyn_childArgErr_table (enc : Bool) :
    let generic : PyErr := if enc then .attributeError else .typeError
    childArgErr enc .none = .typeError ∧ (∀ b, childArgErr enc (.bool b) = .typeError) ∧
    (∀ i, childArgErr enc (.int i) = .typeError) ∧ (∀ t k, childArgErr enc (.float t k) = .typeError) ∧
    (∀ b, childArgErr enc (.bytes b) = .typeError) ∧ (∀ v, childArgErr enc (.url v) = .typeError) ∧
    (∀ t, childArgErr enc (.other t) = .typeError) ∧
    childArgErr enc (.tuple []) = generic ∧ childArgErr enc (.list []) = generic ∧
    childArgErr enc (.dict []) = generic ∧
    (∀ x xs, childArgErr enc (.tuple (x :: xs)) = if eqSlash x then .valueError else generic) ∧
    (∀ x xs, childArgErr enc (.list (x :: xs)) = if eqSlash x then .valueError else generic) ∧
    (∀ p ps, childArgErr enc (.splitResult (p :: ps)) = if p = [47] then .valueError else generic) ∧
    (∀ kv items, childArgErr enc (.dict (kv :: items)) =
      match (kv :: items).find? (fun kv => isZeroKey kv.1) with
      | none => .keyError
      | some kv => if eqSlash kv.2 then .valueError else generic) := by
  have hfind : ∀ (l : List (PyObj × PyObj)) (generic : PyErr), generic = (if enc then .attributeError else .typeError) →
      l ≠ [] → childArgErr enc (.dict l) =
      match l.find? (fun kv => isZeroKey kv.1) with
      | none => .keyError
      | some kv => if eqSlash kv.2 then .valueError else generic := by
    intro l generic hg hl
    have ht : truthy (.dict l) = true := by cases l <;> simp_all [truthy]
    cases hf : l.find? (fun kv => isZeroKey kv.1) with
    | none => simp [childArgErr, ht, item0, hf, Except.map]
    | some kv' =>
      cases hx : eqSlash kv'.2 <;> cases enc <;> simp_all [childArgErr, item0, dotIn, Except.map]
  cases enc
  · refine ⟨rfl, fun b => by cases b <;> rfl, fun i => ?_, fun t k => ?_, fun b => by cases b <;> rfl, fun v => ?_,
      fun _ => rfl, rfl, rfl, rfl, fun x xs => ?_, fun x xs => ?_, fun p ps => ?_, fun kv items => ?_⟩
    · by_cases h : i = 0 <;> simp [childArgErr, truthy, item0, Except.map, h]
    · cases hc : truthy (.float t k) <;> simp [childArgErr, hc, item0, Except.map]
    · cases hc : truthy (.url v) <;> simp [childArgErr, hc, item0, Except.map]
    · cases hx : eqSlash x <;> simp [childArgErr, truthy, item0, Except.map, hx]
    · cases hx : eqSlash x <;> simp [childArgErr, truthy, item0, Except.map, hx]
    · by_cases hp : p = [47] <;> simp [childArgErr, truthy, item0, Except.map, eqSlash, strLike, hp]
    · exact hfind _ _ rfl (by simp)
  · refine ⟨rfl, fun b => by cases b <;> rfl, fun i => ?_, fun t k => ?_, fun b => by cases b <;> rfl, fun v => ?_,
      fun _ => rfl, rfl, rfl, rfl, fun x xs => ?_, fun x xs => ?_, fun p ps => ?_, fun kv items => ?_⟩
    · by_cases h : i = 0 <;> simp [childArgErr, truthy, item0, dotIn, Except.map, h]
    · cases hc : truthy (.float t k) <;> simp [childArgErr, hc, item0, dotIn, Except.map]
    · cases hc : truthy (.url v) <;> simp [childArgErr, hc, item0, dotIn, Except.map]
    · cases hx : eqSlash x <;> simp [childArgErr, truthy, item0, dotIn, Except.map, hx]
    · cases hx : eqSlash x <;> simp [childArgErr, truthy, item0, dotIn, Except.map, hx]
    · by_cases hp : p = [47] <;> simp [childArgErr, truthy, item0, dotIn, Except.map, eqSlash, strLike, hp]
    · exact hfind _ _ rfl (by simp)

/-- the kind bound that IS true for `joinpath` on arbitrary objects: ValueError, TypeError, oracle request — or
    KeyError / AttributeError, which only a dict / a tuple, list, dict, SplitResult element can cause -/
theorem C19_dyn_joinpath_errors (e : Env) (u : Url) (xs : List PyObj) (enc : Bool) (err : PyErr)
    (h : dynJoinpath e u xs enc = .error err) :
    Allowed err ∨ err = .keyError ∨ err = .attributeError := by
  unfold dynJoinpath at h
  split at h
  · exact .inl ((makeChild_errs (Q := Allowed) e u _ _).elim h)
  · rename_i pre o _
    split at h
    · cases h; exact .inl (.inl rfl)
    · cases h
      rcases childArgErr_kinds enc o with h | h | h | h <;> rw [h]
      · exact .inl (.inr (.inl rfl))
      · exact .inl (.inl rfl)
      · exact .inr (.inl rfl)
      · exact .inr (.inr rfl)

/-- "never anything else" FAILS for `joinpath` on non-str arguments (real library: `URL("http://h/p").joinpath({1: 2})`
    → KeyError(0); `.joinpath((), encoded=True)`, `.joinpath([], encoded=True)` → AttributeError: … has no attribute
    'split'), for every receiver -/
theorem C19_dyn_joinpath_leaks (e : Env) (u : Url) :
    (∀ enc, dynJoinpath e u [.dict [(.int 1, .int 2)]] enc = .error .keyError) ∧
    dynJoinpath e u [.tuple []] true = .error .attributeError ∧
    dynJoinpath e u [.list []] true = .error .attributeError ∧
    (∀ ps, dynJoinpath e u [.splitResult ([104] :: ps)] true = .error .attributeError) ∧
    ¬ Allowed .keyError ∧ ¬ Allowed .attributeError := by
  refine ⟨fun enc => by cases enc <;> rfl, rfl, rfl, fun _ => rfl, ?_, ?_⟩ <;> simp [Allowed]

/-! ## `with_path`: no type gate -/

/-- a non-str `path` NEVER produces a URL of the model: the call raises TypeError / KeyError, or returns garbage -/
theorem C19_dyn_with_path_nonstr (e : Env) (u : Url) (o : PyObj) (enc kq kf : Bool) (h : strLike o = none) :
    (∀ v, dynWithPath e u o enc kq kf ≠ .ok v) ∧
    (∀ err, dynWithPath e u o enc kq kf = .error err → err = .typeError ∨ err = .keyError) ∧
    (∀ k, dynWithPath e u o enc kq kf = .garbage k → k = 0 ∨ k = 1) := by
  have key : (dynWithPath e u o enc kq kf = .error .typeError ∨ dynWithPath e u o enc kq kf = .error .keyError) ∨
      dynWithPath e u o enc kq kf = .garbage 0 ∨ dynWithPath e u o enc kq kf = .garbage 1 := by
    unfold dynWithPath
    rw [h]
    dsimp only
    split
    · split
      · split <;> simp
      · simp
    · split
      · split <;> simp
      · rename_i ht
        have ht' : truthy o = true := by simpa using ht
        split
        · rename_i err hi
          rcases item0_errs o ht' err hi with h | h <;> simp [h]
        · split
          · split <;> simp
          · simp
  rcases key with (h | h) | h | h <;> rw [h] <;> simp

/-- complete outcome table of `with_path` on non-str objects -/
theorem C19_dyn_with_path_table (e : Env) (u : Url) (kq kf : Bool) :
    -- encoded=False: everything goes through PATH_QUOTER, which rejects non-str — except None
    dynWithPath e u .none false kq kf = (if u.netloc.isEmpty then .garbage 0 else .error .typeError) ∧
    (∀ o, strLike o = none → isNone o = false → dynWithPath e u o false kq kf = .error .typeError) ∧
    -- encoded=True: `if path and path[0] != "/"`, then `from_parts` hashes
    dynWithPath e u .none true kq kf = .garbage 0 ∧
    dynWithPath e u (.bool false) true kq kf = .garbage 0 ∧ dynWithPath e u (.bool true) true kq kf = .error .typeError ∧
    dynWithPath e u (.int 0) true kq kf = .garbage 0 ∧
    (∀ i, i ≠ 0 → dynWithPath e u (.int i) true kq kf = .error .typeError) ∧
    (∀ t k, dynWithPath e u (.float t k) true kq kf =
      if k = 0 ∧ floatZeroTxt t = true then .garbage 0 else .error .typeError) ∧
    dynWithPath e u (.bytes []) true kq kf = .garbage 0 ∧
    (∀ c b, dynWithPath e u (.bytes (c :: b)) true kq kf = .garbage 1) ∧
    dynWithPath e u (.tuple []) true kq kf = .garbage 0 ∧
    dynWithPath e u (.list []) true kq kf = .error .typeError ∧
    dynWithPath e u (.dict []) true kq kf = .error .typeError ∧
    (∀ x xs, dynWithPath e u (.tuple (x :: xs)) true kq kf =
      if eqSlash x then (if hashable (.tuple (x :: xs)) then .garbage 0 else .error .typeError) else .garbage 1) ∧
    (∀ x xs, dynWithPath e u (.list (x :: xs)) true kq kf = if eqSlash x then .error .typeError else .garbage 1) ∧
    (∀ p ps, dynWithPath e u (.splitResult (p :: ps)) true kq kf = if p = [47] then .garbage 0 else .garbage 1) ∧
    (∀ kv items, dynWithPath e u (.dict (kv :: items)) true kq kf =
      match (kv :: items).find? (fun kv => isZeroKey kv.1) with
      | none => .error .keyError
      | some kv => if eqSlash kv.2 then .error .typeError else .garbage 1) ∧
    (∀ v, dynWithPath e u (.url v) true kq kf = if v.truthy then .error .typeError else .garbage 0) ∧
    (∀ t, dynWithPath e u (.other t) true kq kf = .error .typeError) := by
  refine ⟨?_, fun o ho hn => ?_, rfl, rfl, rfl, rfl, fun i hi => ?_, fun t k => ?_, rfl, fun _ _ => rfl, rfl, rfl, rfl,
    fun x xs => ?_, fun x xs => ?_, fun p ps => ?_, fun kv items => ?_, fun v => ?_, fun _ => rfl⟩
  · simp only [dynWithPath, strLike, Bool.not_false, ↓reduceIte]
    cases u.netloc.isEmpty <;> simp
  · cases o <;> simp_all [dynWithPath, strLike, isNone]
  · simp [dynWithPath, strLike, truthy, item0, hi]
  · by_cases hk : k = 0 <;> cases hz : floatZeroTxt t <;> simp [dynWithPath, strLike, truthy, hashable, item0, hk, hz]
  · simp [dynWithPath, strLike, truthy, item0]
  · simp [dynWithPath, strLike, truthy, hashable, item0]
  · by_cases hp : p = [47] <;> simp [dynWithPath, strLike, truthy, hashable, item0, eqSlash, hp]
  · cases hf : (kv :: items).find? (fun kv => isZeroKey kv.1) with
    | none => simp [dynWithPath, strLike, truthy, item0, hf]
    | some kv' => cases hx : eqSlash kv'.2 <;> simp [dynWithPath, strLike, truthy, hashable, item0, hf, hx]
  · cases hv : v.truthy <;> simp [dynWithPath, strLike, truthy, hashable, item0, hv]

/-- "never anything else" FAILS for `with_path` on non-str arguments, for every receiver (real library:
    `URL("/a").with_path(None)._path is None`; `URL("http://h").with_path(0, encoded=True)._path == 0`;
    `URL("http://h").with_path(b"x", encoded=True) == URL("http://h/b'x'")`;
    `URL("http://h").with_path({1: 2}, encoded=True)` raises KeyError(0)) -/
theorem C19_dyn_with_path_leaks (e : Env) (u : Url) (kq kf : Bool) :
    (u.netloc = [] → dynWithPath e u .none false kq kf = .garbage 0) ∧
    dynWithPath e u .none true kq kf = .garbage 0 ∧
    dynWithPath e u (.int 0) true kq kf = .garbage 0 ∧
    dynWithPath e u (.tuple []) true kq kf = .garbage 0 ∧
    dynWithPath e u (.bytes [120]) true kq kf = .garbage 1 ∧
    dynWithPath e u (.dict [(.int 1, .int 2)]) true kq kf = .error .keyError := by
  refine ⟨fun h => ?_, rfl, rfl, rfl, rfl, rfl⟩
  simp [dynWithPath, strLike, h]

/-! ## non-vacuity -/

example : childScan [PyObj.str [97], .int 1, .str [47, 98]].reverse = ([[47, 98]], some (.int 1)) := by rfl
example : [PyObj.strSub [120], .str [121]].map strLike = [[120], [121]].map some := by decide
example : ∀ parts, PyObj.splitResult [[], [], [], [], []] = .splitResult parts → parts.length = 5 := by
  intro parts h; cases h; rfl
example : strLike (.bytes [47, 120]) = none ∧ isNone (.bytes [47, 120]) = false := by decide

/-! ## the probe table (outcomes of the real library, both quoter backends; /tmp/q3_probe.py): constructor, gated
    modifiers, `/`, `with_path`, `joinpath` — receivers URL("http://h/p?a=1#f") and URL("/a") -/
example : showU pe (dynNew pe (.strSub [104, 116, 116, 112, 58, 47, 47, 104, 47, 97, 32, 98]) false) = .ok [104, 116, 116, 112, 58, 47, 47, 104, 47, 97, 37, 50, 48, 98] := by decide +kernel
example : showU pe (dynNew pe (.strSub [104, 116, 116, 112, 58, 47, 47, 104, 47, 97, 32, 98]) true) = .ok [104, 116, 116, 112, 58, 47, 47, 104, 47, 97, 32, 98] := by decide +kernel
example : showU pe (dynNew pe (.splitResult [[104, 116, 116, 112], [104], [47, 112], [], []]) false) = .err .valueError := by decide +kernel
example : showU pe (dynNew pe (.splitResult [[104, 116, 116, 112], [104], [47, 112], [], []]) true) = .ok [104, 116, 116, 112, 58, 47, 47, 104, 47, 112] := by decide +kernel
example : showU pe (dynNew pe (.bytes [104, 116, 116, 112, 58, 47, 47, 104]) false) = .err .typeError := by decide +kernel
example : showU pe (dynNew pe .none false) = .err .typeError := by decide +kernel
example : showU pe (dynNew pe (.int (1)) true) = .err .typeError := by decide +kernel
example : showU pe (dynNew pe (.url (pU [104, 116, 116, 112, 58, 47, 47, 104, 47, 112, 63, 97, 61, 49, 35, 102])) true) = .ok [104, 116, 116, 112, 58, 47, 47, 104, 47, 112, 63, 97, 61, 49, 35, 102] := by decide +kernel
example : showU pe (dynNew pe (.tuple [(.str [104, 116, 116, 112]), (.str [104]), (.str [47]), (.str []), (.str [])]) true) = .err .typeError := by decide +kernel
example : showU pe (dynNew pe (.other 0) false) = .err .typeError := by decide +kernel
example : showU pe (dynWithScheme pe (pU [104, 116, 116, 112, 58, 47, 47, 104, 47, 112, 63, 97, 61, 49, 35, 102]) (.strSub [72, 84, 84, 80, 83])) = .ok [104, 116, 116, 112, 115, 58, 47, 47, 104, 47, 112, 63, 97, 61, 49, 35, 102] := by decide +kernel
example : showU pe (dynWithScheme pe (pU [104, 116, 116, 112, 58, 47, 47, 104, 47, 112, 63, 97, 61, 49, 35, 102]) .none) = .err .typeError := by decide +kernel
example : showU pe (dynWithScheme pe (pU [104, 116, 116, 112, 58, 47, 47, 104, 47, 112, 63, 97, 61, 49, 35, 102]) (.bytes [104, 116, 116, 112])) = .err .typeError := by decide +kernel
example : showU pe (dynWithScheme pe (pU [47, 97]) (.int (1))) = .err .typeError := by decide +kernel
example : showU pe (dynWithUser pe (pU [104, 116, 116, 112, 58, 47, 47, 104, 47, 112, 63, 97, 61, 49, 35, 102]) .none) = .ok [104, 116, 116, 112, 58, 47, 47, 104, 47, 112, 63, 97, 61, 49, 35, 102] := by decide +kernel
example : showU pe (dynWithUser pe (pU [104, 116, 116, 112, 58, 47, 47, 104, 47, 112, 63, 97, 61, 49, 35, 102]) (.strSub [120])) = .ok [104, 116, 116, 112, 58, 47, 47, 120, 64, 104, 47, 112, 63, 97, 61, 49, 35, 102] := by decide +kernel
example : showU pe (dynWithUser pe (pU [104, 116, 116, 112, 58, 47, 47, 104, 47, 112, 63, 97, 61, 49, 35, 102]) (.int (1))) = .err .typeError := by decide +kernel
example : showU pe (dynWithUser pe (pU [47, 97]) (.int (1))) = .err .typeError := by decide +kernel
example : showU pe (dynWithUser pe (pU [47, 97]) .none) = .err .valueError := by decide +kernel
example : showU pe (dynWithPassword pe (pU [104, 116, 116, 112, 58, 47, 47, 104, 47, 112, 63, 97, 61, 49, 35, 102]) .none) = .ok [104, 116, 116, 112, 58, 47, 47, 104, 47, 112, 63, 97, 61, 49, 35, 102] := by decide +kernel
example : showU pe (dynWithPassword pe (pU [104, 116, 116, 112, 58, 47, 47, 104, 47, 112, 63, 97, 61, 49, 35, 102]) (.bytes [120])) = .err .typeError := by decide +kernel
example : showU pe (dynWithPassword pe (pU [47, 97]) (.strSub [120])) = .err .valueError := by decide +kernel
example : showU pe (dynWithHost pe (pU [104, 116, 116, 112, 58, 47, 47, 104, 47, 112, 63, 97, 61, 49, 35, 102]) .none) = .err .typeError := by decide +kernel
example : showU pe (dynWithHost pe (pU [104, 116, 116, 112, 58, 47, 47, 104, 47, 112, 63, 97, 61, 49, 35, 102]) (.strSub [120])) = .ok [104, 116, 116, 112, 58, 47, 47, 120, 47, 112, 63, 97, 61, 49, 35, 102] := by decide +kernel
example : showU pe (dynWithHost pe (pU [47, 97]) .none) = .err .typeError := by decide +kernel
example : showU pe (dynWithHost pe (pU [104, 116, 116, 112, 58, 47, 47, 104, 47, 112, 63, 97, 61, 49, 35, 102]) (.bytes [120])) = .err .typeError := by decide +kernel
example : showU pe (dynWithPort pe (pU [104, 116, 116, 112, 58, 47, 47, 104, 47, 112, 63, 97, 61, 49, 35, 102]) (.bool true)) = .err .typeError := by decide +kernel
example : showU pe (dynWithPort pe (pU [104, 116, 116, 112, 58, 47, 47, 104, 47, 112, 63, 97, 61, 49, 35, 102]) (.str [49])) = .err .typeError := by decide +kernel
example : showU pe (dynWithPort pe (pU [104, 116, 116, 112, 58, 47, 47, 104, 47, 112, 63, 97, 61, 49, 35, 102]) (.float [49, 46, 48] 0)) = .err .typeError := by decide +kernel
example : showU pe (dynWithPort pe (pU [104, 116, 116, 112, 58, 47, 47, 104, 47, 112, 63, 97, 61, 49, 35, 102]) .none) = .ok [104, 116, 116, 112, 58, 47, 47, 104, 47, 112, 63, 97, 61, 49, 35, 102] := by decide +kernel
example : showU pe (dynWithPort pe (pU [104, 116, 116, 112, 58, 47, 47, 104, 47, 112, 63, 97, 61, 49, 35, 102]) (.int (-1))) = .err .valueError := by decide +kernel
example : showU pe (dynWithPort pe (pU [47, 97]) (.bool true)) = .err .typeError := by decide +kernel
example : showU pe (dynWithPort pe (pU [47, 97]) (.int (8080))) = .err .valueError := by decide +kernel
example : showU pe (dynWithPort pe (pU [104, 116, 116, 112, 58, 47, 47, 104, 47, 112, 63, 97, 61, 49, 35, 102]) (.int (8080))) = .ok [104, 116, 116, 112, 58, 47, 47, 104, 58, 56, 48, 56, 48, 47, 112, 63, 97, 61, 49, 35, 102] := by decide +kernel
example : showU pe (dynWithFragment pe (pU [104, 116, 116, 112, 58, 47, 47, 104, 47, 112, 63, 97, 61, 49, 35, 102]) .none) = .ok [104, 116, 116, 112, 58, 47, 47, 104, 47, 112, 63, 97, 61, 49] := by decide +kernel
example : showU pe (dynWithFragment pe (pU [104, 116, 116, 112, 58, 47, 47, 104, 47, 112, 63, 97, 61, 49, 35, 102]) (.int (1))) = .err .typeError := by decide +kernel
example : showU pe (dynWithFragment pe (pU [104, 116, 116, 112, 58, 47, 47, 104, 47, 112, 63, 97, 61, 49, 35, 102]) (.strSub [120])) = .ok [104, 116, 116, 112, 58, 47, 47, 104, 47, 112, 63, 97, 61, 49, 35, 120] := by decide +kernel
example : showU pe (dynWithFragment pe (pU [104, 116, 116, 112, 58, 47, 47, 104, 47, 112, 63, 97, 61, 49, 35, 102]) (.bytes [120])) = .err .typeError := by decide +kernel
example : showU pe (dynWithName pe (pU [104, 116, 116, 112, 58, 47, 47, 104, 47, 112, 63, 97, 61, 49, 35, 102]) .none false false) = .err .typeError := by decide +kernel
example : showU pe (dynWithName pe (pU [104, 116, 116, 112, 58, 47, 47, 104, 47, 112, 63, 97, 61, 49, 35, 102]) (.bytes [120]) false false) = .err .typeError := by decide +kernel
example : showU pe (dynWithName pe (pU [104, 116, 116, 112, 58, 47, 47, 104, 47, 112, 63, 97, 61, 49, 35, 102]) (.strSub [120]) false false) = .ok [104, 116, 116, 112, 58, 47, 47, 104, 47, 120] := by decide +kernel
example : showU pe (dynWithSuffix pe (pU [104, 116, 116, 112, 58, 47, 47, 104, 47, 112, 63, 97, 61, 49, 35, 102]) .none false false) = .err .typeError := by decide +kernel
example : showU pe (dynWithSuffix pe (pU [104, 116, 116, 112, 58, 47, 47, 104, 47, 112, 63, 97, 61, 49, 35, 102]) (.strSub [46, 120]) false false) = .ok [104, 116, 116, 112, 58, 47, 47, 104, 47, 112, 46, 120] := by decide +kernel
example : showU pe (dynWithSuffix pe (pU [104, 116, 116, 112, 58, 47, 47, 104, 47, 112, 63, 97, 61, 49, 35, 102]) (.int (1)) false false) = .err .typeError := by decide +kernel
example : showU pe (dynJoin pe (pU [104, 116, 116, 112, 58, 47, 47, 104, 47, 112, 63, 97, 61, 49, 35, 102]) (.str [120])) = .err .typeError := by decide +kernel
example : showU pe (dynJoin pe (pU [104, 116, 116, 112, 58, 47, 47, 104, 47, 112, 63, 97, 61, 49, 35, 102]) .none) = .err .typeError := by decide +kernel
example : showU pe (dynJoin pe (pU [104, 116, 116, 112, 58, 47, 47, 104, 47, 112, 63, 97, 61, 49, 35, 102]) (.url (pU [120]))) = .ok [104, 116, 116, 112, 58, 47, 47, 104, 47, 120] := by decide +kernel
example : showU pe (dynJoin pe (pU [104, 116, 116, 112, 58, 47, 47, 104, 47, 112, 63, 97, 61, 49, 35, 102]) (.splitResult [[], [], [120], [], []])) = .err .typeError := by decide +kernel
example : showU pe (dynTruediv pe (pU [104, 116, 116, 112, 58, 47, 47, 104, 47, 112, 63, 97, 61, 49, 35, 102]) (.int (1))) = .err .typeError := by decide +kernel
example : showU pe (dynTruediv pe (pU [104, 116, 116, 112, 58, 47, 47, 104, 47, 112, 63, 97, 61, 49, 35, 102]) .none) = .err .typeError := by decide +kernel
example : showU pe (dynTruediv pe (pU [104, 116, 116, 112, 58, 47, 47, 104, 47, 112, 63, 97, 61, 49, 35, 102]) (.bytes [120])) = .err .typeError := by decide +kernel
example : showU pe (dynTruediv pe (pU [104, 116, 116, 112, 58, 47, 47, 104, 47, 112, 63, 97, 61, 49, 35, 102]) (.strSub [120])) = .ok [104, 116, 116, 112, 58, 47, 47, 104, 47, 112, 47, 120] := by decide +kernel
example : showU pe (dynTruediv pe (pU [104, 116, 116, 112, 58, 47, 47, 104, 47, 112, 63, 97, 61, 49, 35, 102]) (.float [49, 46, 53] 0)) = .err .typeError := by decide +kernel
example : showU pe (dynTruediv pe (pU [104, 116, 116, 112, 58, 47, 47, 104, 47, 112, 63, 97, 61, 49, 35, 102]) (.url (pU [120]))) = .err .typeError := by decide +kernel
example : showU pe (dynTruediv pe (pU [104, 116, 116, 112, 58, 47, 47, 104, 47, 112, 63, 97, 61, 49, 35, 102]) (.tuple [(.str [120])])) = .err .typeError := by decide +kernel
example : showP pe (dynWithPath pe (pU [104, 116, 116, 112, 58, 47, 47, 104, 47, 112, 63, 97, 61, 49, 35, 102]) .none false false false) = .err .typeError := by decide +kernel
example : showP pe (dynWithPath pe (pU [47, 97]) .none false false false) = .garbage 0 := by decide +kernel
example : showP pe (dynWithPath pe (pU [104, 116, 116, 112, 58, 47, 47, 104, 47, 112, 63, 97, 61, 49, 35, 102]) (.int (1)) false false false) = .err .typeError := by decide +kernel
example : showP pe (dynWithPath pe (pU [104, 116, 116, 112, 58, 47, 47, 104, 47, 112, 63, 97, 61, 49, 35, 102]) (.bytes [47, 120]) false false false) = .err .typeError := by decide +kernel
example : showP pe (dynWithPath pe (pU [104, 116, 116, 112, 58, 47, 47, 104, 47, 112, 63, 97, 61, 49, 35, 102]) (.strSub [120, 32, 121]) false false false) = .ok [104, 116, 116, 112, 58, 47, 47, 104, 47, 120, 37, 50, 48, 121] := by decide +kernel
example : showP pe (dynWithPath pe (pU [47, 97]) (.list [(.str [47])]) false false false) = .err .typeError := by decide +kernel
example : showP pe (dynWithPath pe (pU [104, 116, 116, 112, 58, 47, 47, 104, 47, 112, 63, 97, 61, 49, 35, 102]) .none true false false) = .garbage 0 := by decide +kernel
example : showP pe (dynWithPath pe (pU [104, 116, 116, 112, 58, 47, 47, 104, 47, 112, 63, 97, 61, 49, 35, 102]) (.int (0)) true false false) = .garbage 0 := by decide +kernel
example : showP pe (dynWithPath pe (pU [104, 116, 116, 112, 58, 47, 47, 104, 47, 112, 63, 97, 61, 49, 35, 102]) (.int (1)) true false false) = .err .typeError := by decide +kernel
example : showP pe (dynWithPath pe (pU [104, 116, 116, 112, 58, 47, 47, 104, 47, 112, 63, 97, 61, 49, 35, 102]) (.bool true) true false false) = .err .typeError := by decide +kernel
example : showP pe (dynWithPath pe (pU [104, 116, 116, 112, 58, 47, 47, 104, 47, 112, 63, 97, 61, 49, 35, 102]) (.bool false) true false false) = .garbage 0 := by decide +kernel
example : showP pe (dynWithPath pe (pU [104, 116, 116, 112, 58, 47, 47, 104, 47, 112, 63, 97, 61, 49, 35, 102]) (.float [48, 46, 48] 0) true false false) = .garbage 0 := by decide +kernel
example : showP pe (dynWithPath pe (pU [104, 116, 116, 112, 58, 47, 47, 104, 47, 112, 63, 97, 61, 49, 35, 102]) (.float [49, 46, 53] 0) true false false) = .err .typeError := by decide +kernel
example : showP pe (dynWithPath pe (pU [104, 116, 116, 112, 58, 47, 47, 104, 47, 112, 63, 97, 61, 49, 35, 102]) (.bytes []) true false false) = .garbage 0 := by decide +kernel
example : showP pe (dynWithPath pe (pU [104, 116, 116, 112, 58, 47, 47, 104, 47, 112, 63, 97, 61, 49, 35, 102]) (.bytes [47, 120]) true false false) = .garbage 1 := by decide +kernel
example : showP pe (dynWithPath pe (pU [104, 116, 116, 112, 58, 47, 47, 104, 47, 112, 63, 97, 61, 49, 35, 102]) (.tuple []) true false false) = .garbage 0 := by decide +kernel
example : showP pe (dynWithPath pe (pU [104, 116, 116, 112, 58, 47, 47, 104, 47, 112, 63, 97, 61, 49, 35, 102]) (.tuple [(.str [47])]) true false false) = .garbage 0 := by decide +kernel
example : showP pe (dynWithPath pe (pU [104, 116, 116, 112, 58, 47, 47, 104, 47, 112, 63, 97, 61, 49, 35, 102]) (.tuple [(.str [47]), (.list [])]) true false false) = .err .typeError := by decide +kernel
example : showP pe (dynWithPath pe (pU [104, 116, 116, 112, 58, 47, 47, 104, 47, 112, 63, 97, 61, 49, 35, 102]) (.tuple [(.str [97])]) true false false) = .garbage 1 := by decide +kernel
example : showP pe (dynWithPath pe (pU [104, 116, 116, 112, 58, 47, 47, 104, 47, 112, 63, 97, 61, 49, 35, 102]) (.list []) true false false) = .err .typeError := by decide +kernel
example : showP pe (dynWithPath pe (pU [104, 116, 116, 112, 58, 47, 47, 104, 47, 112, 63, 97, 61, 49, 35, 102]) (.list [(.str [47])]) true false false) = .err .typeError := by decide +kernel
example : showP pe (dynWithPath pe (pU [104, 116, 116, 112, 58, 47, 47, 104, 47, 112, 63, 97, 61, 49, 35, 102]) (.list [(.str [97])]) true false false) = .garbage 1 := by decide +kernel
example : showP pe (dynWithPath pe (pU [104, 116, 116, 112, 58, 47, 47, 104, 47, 112, 63, 97, 61, 49, 35, 102]) (.dict []) true false false) = .err .typeError := by decide +kernel
example : showP pe (dynWithPath pe (pU [104, 116, 116, 112, 58, 47, 47, 104, 47, 112, 63, 97, 61, 49, 35, 102]) (.dict [((.int (1)), (.int (2)))]) true false false) = .err .keyError := by decide +kernel
example : showP pe (dynWithPath pe (pU [104, 116, 116, 112, 58, 47, 47, 104, 47, 112, 63, 97, 61, 49, 35, 102]) (.dict [((.int (0)), (.str [47]))]) true false false) = .err .typeError := by decide +kernel
example : showP pe (dynWithPath pe (pU [104, 116, 116, 112, 58, 47, 47, 104, 47, 112, 63, 97, 61, 49, 35, 102]) (.dict [((.int (0)), (.str [97]))]) true false false) = .garbage 1 := by decide +kernel
example : showP pe (dynWithPath pe (pU [104, 116, 116, 112, 58, 47, 47, 104, 47, 112, 63, 97, 61, 49, 35, 102]) (.url (pU [104, 116, 116, 112, 58, 47, 47, 104, 47, 112, 63, 97, 61, 49, 35, 102])) true false false) = .err .typeError := by decide +kernel
example : showP pe (dynWithPath pe (pU [104, 116, 116, 112, 58, 47, 47, 104, 47, 112, 63, 97, 61, 49, 35, 102]) (.url (pU [])) true false false) = .garbage 0 := by decide +kernel
example : showP pe (dynWithPath pe (pU [104, 116, 116, 112, 58, 47, 47, 104, 47, 112, 63, 97, 61, 49, 35, 102]) (.splitResult [[104, 116, 116, 112], [104], [], [], []]) true false false) = .garbage 1 := by decide +kernel
example : showP pe (dynWithPath pe (pU [104, 116, 116, 112, 58, 47, 47, 104, 47, 112, 63, 97, 61, 49, 35, 102]) (.other 0) true false false) = .err .typeError := by decide +kernel
example : showP pe (dynWithPath pe (pU [104, 116, 116, 112, 58, 47, 47, 104, 47, 112, 63, 97, 61, 49, 35, 102]) (.strSub [47, 120]) true false false) = .ok [104, 116, 116, 112, 58, 47, 47, 104, 47, 120] := by decide +kernel
example : showP pe (dynWithPath pe (pU [104, 116, 116, 112, 58, 47, 47, 104, 47, 112, 63, 97, 61, 49, 35, 102]) (.float [110, 97, 110] 2) true false false) = .err .typeError := by decide +kernel
example : showU pe (dynJoinpath pe (pU [104, 116, 116, 112, 58, 47, 47, 104, 47, 112, 63, 97, 61, 49, 35, 102]) [.none] false) = .err .typeError := by decide +kernel
example : showU pe (dynJoinpath pe (pU [104, 116, 116, 112, 58, 47, 47, 104, 47, 112, 63, 97, 61, 49, 35, 102]) [(.int (0))] false) = .err .typeError := by decide +kernel
example : showU pe (dynJoinpath pe (pU [104, 116, 116, 112, 58, 47, 47, 104, 47, 112, 63, 97, 61, 49, 35, 102]) [(.int (1))] false) = .err .typeError := by decide +kernel
example : showU pe (dynJoinpath pe (pU [104, 116, 116, 112, 58, 47, 47, 104, 47, 112, 63, 97, 61, 49, 35, 102]) [(.bytes [97, 98])] false) = .err .typeError := by decide +kernel
example : showU pe (dynJoinpath pe (pU [104, 116, 116, 112, 58, 47, 47, 104, 47, 112, 63, 97, 61, 49, 35, 102]) [(.tuple [(.str [47])])] false) = .err .valueError := by decide +kernel
example : showU pe (dynJoinpath pe (pU [104, 116, 116, 112, 58, 47, 47, 104, 47, 112, 63, 97, 61, 49, 35, 102]) [(.tuple [(.str [97])])] false) = .err .typeError := by decide +kernel
example : showU pe (dynJoinpath pe (pU [104, 116, 116, 112, 58, 47, 47, 104, 47, 112, 63, 97, 61, 49, 35, 102]) [(.dict [((.int (1)), (.int (2)))])] false) = .err .keyError := by decide +kernel
example : showU pe (dynJoinpath pe (pU [104, 116, 116, 112, 58, 47, 47, 104, 47, 112, 63, 97, 61, 49, 35, 102]) [(.dict [((.int (0)), (.str [47]))])] false) = .err .valueError := by decide +kernel
example : showU pe (dynJoinpath pe (pU [104, 116, 116, 112, 58, 47, 47, 104, 47, 112, 63, 97, 61, 49, 35, 102]) [(.dict [])] false) = .err .typeError := by decide +kernel
example : showU pe (dynJoinpath pe (pU [104, 116, 116, 112, 58, 47, 47, 104, 47, 112, 63, 97, 61, 49, 35, 102]) [(.url (pU [104, 116, 116, 112, 58, 47, 47, 104, 47, 112, 63, 97, 61, 49, 35, 102]))] false) = .err .typeError := by decide +kernel
example : showU pe (dynJoinpath pe (pU [104, 116, 116, 112, 58, 47, 47, 104, 47, 112, 63, 97, 61, 49, 35, 102]) [(.url (pU []))] false) = .err .typeError := by decide +kernel
example : showU pe (dynJoinpath pe (pU [104, 116, 116, 112, 58, 47, 47, 104, 47, 112, 63, 97, 61, 49, 35, 102]) [(.str [47, 120]), .none] false) = .err .typeError := by decide +kernel
example : showU pe (dynJoinpath pe (pU [104, 116, 116, 112, 58, 47, 47, 104, 47, 112, 63, 97, 61, 49, 35, 102]) [.none, (.str [47, 120])] false) = .err .valueError := by decide +kernel
example : showU pe (dynJoinpath pe (pU [104, 116, 116, 112, 58, 47, 47, 104, 47, 112, 63, 97, 61, 49, 35, 102]) [(.strSub [120]), (.str [121])] false) = .ok [104, 116, 116, 112, 58, 47, 47, 104, 47, 112, 47, 120, 47, 121] := by decide +kernel
example : showU pe (dynJoinpath pe (pU [104, 116, 116, 112, 58, 47, 47, 104, 47, 112, 63, 97, 61, 49, 35, 102]) [(.splitResult [[104, 116, 116, 112], [104], [], [], []])] false) = .err .typeError := by decide +kernel
example : showU pe (dynJoinpath pe (pU [104, 116, 116, 112, 58, 47, 47, 104, 47, 112, 63, 97, 61, 49, 35, 102]) [(.other 0)] false) = .err .typeError := by decide +kernel
example : showU pe (dynJoinpath pe (pU [104, 116, 116, 112, 58, 47, 47, 104, 47, 112, 63, 97, 61, 49, 35, 102]) [.none] true) = .err .typeError := by decide +kernel
example : showU pe (dynJoinpath pe (pU [104, 116, 116, 112, 58, 47, 47, 104, 47, 112, 63, 97, 61, 49, 35, 102]) [(.int (0))] true) = .err .typeError := by decide +kernel
example : showU pe (dynJoinpath pe (pU [104, 116, 116, 112, 58, 47, 47, 104, 47, 112, 63, 97, 61, 49, 35, 102]) [(.int (1))] true) = .err .typeError := by decide +kernel
example : showU pe (dynJoinpath pe (pU [104, 116, 116, 112, 58, 47, 47, 104, 47, 112, 63, 97, 61, 49, 35, 102]) [(.bytes [97, 98])] true) = .err .typeError := by decide +kernel
example : showU pe (dynJoinpath pe (pU [104, 116, 116, 112, 58, 47, 47, 104, 47, 112, 63, 97, 61, 49, 35, 102]) [(.bytes [])] true) = .err .typeError := by decide +kernel
example : showU pe (dynJoinpath pe (pU [104, 116, 116, 112, 58, 47, 47, 104, 47, 112, 63, 97, 61, 49, 35, 102]) [(.tuple [])] true) = .err .attributeError := by decide +kernel
example : showU pe (dynJoinpath pe (pU [104, 116, 116, 112, 58, 47, 47, 104, 47, 112, 63, 97, 61, 49, 35, 102]) [(.tuple [(.str [97])])] true) = .err .attributeError := by decide +kernel
example : showU pe (dynJoinpath pe (pU [104, 116, 116, 112, 58, 47, 47, 104, 47, 112, 63, 97, 61, 49, 35, 102]) [(.tuple [(.str [47])])] true) = .err .valueError := by decide +kernel
example : showU pe (dynJoinpath pe (pU [104, 116, 116, 112, 58, 47, 47, 104, 47, 112, 63, 97, 61, 49, 35, 102]) [(.list [])] true) = .err .attributeError := by decide +kernel
example : showU pe (dynJoinpath pe (pU [104, 116, 116, 112, 58, 47, 47, 104, 47, 112, 63, 97, 61, 49, 35, 102]) [(.dict [])] true) = .err .attributeError := by decide +kernel
example : showU pe (dynJoinpath pe (pU [104, 116, 116, 112, 58, 47, 47, 104, 47, 112, 63, 97, 61, 49, 35, 102]) [(.dict [((.int (1)), (.int (2)))])] true) = .err .keyError := by decide +kernel
example : showU pe (dynJoinpath pe (pU [104, 116, 116, 112, 58, 47, 47, 104, 47, 112, 63, 97, 61, 49, 35, 102]) [(.url (pU []))] true) = .err .typeError := by decide +kernel
example : showU pe (dynJoinpath pe (pU [104, 116, 116, 112, 58, 47, 47, 104, 47, 112, 63, 97, 61, 49, 35, 102]) [(.splitResult [[104, 116, 116, 112], [104], [], [], []])] true) = .err .attributeError := by decide +kernel
example : showU pe (dynJoinpath pe (pU [104, 116, 116, 112, 58, 47, 47, 104, 47, 112, 63, 97, 61, 49, 35, 102]) [(.other 0)] true) = .err .typeError := by decide +kernel
example : showU pe (dynJoinpath pe (pU [104, 116, 116, 112, 58, 47, 47, 104, 47, 112, 63, 97, 61, 49, 35, 102]) [(.strSub [120])] true) = .ok [104, 116, 116, 112, 58, 47, 47, 104, 47, 112, 47, 120] := by decide +kernel
example : showU pe (dynJoinpath pe (pU [104, 116, 116, 112, 58, 47, 47, 104, 47, 112, 63, 97, 61, 49, 35, 102]) [(.str [97]), (.int (1)), (.str [47, 98])] true) = .err .valueError := by decide +kernel
example : showU pe (dynJoinpath pe (pU [104, 116, 116, 112, 58, 47, 47, 104, 47, 112, 63, 97, 61, 49, 35, 102]) [(.str [47, 97]), (.int (1)), (.str [98])] true) = .err .typeError := by decide +kernel
end Yarl
