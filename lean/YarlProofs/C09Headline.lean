import YarlProofs.C09
import YarlProofs.Lemmas.WfLemmas
import YarlProofs.C09Idn
/-!
  C09Headline.lean — AUDIT LAYER for property C09.

  C09 | Eager and lazy component computation agree; pickling is lossless |
  "Every accessor returns the same value whether it was pre-computed while the URL was being built or derived later from
  the stored string parts. In particular a URL restored by pickle, copy or deepcopy compares equal to the original, has
  the same hash and string form, and returns identical values for every accessor."

  Vocabulary.  `u.pre : Option NetPre` = the four `_cache` entries `encode_url` pre-computes (raw_host, explicit_port,
  raw_user, raw_password) — the ONLY eager values in the library; `net e u` returns them when present and otherwise
  `lazyNet e u` = what `split_netloc` derives from the stored netloc.  `pickleTwin u` = `{ u with pre := none }` = the
  object `__reduce__`/`__setstate__`, `copy` or `deepcopy` rebuilds from the five stored strings.  `eqKey` is the tuple
  `__eq__` compares and `__hash__` hashes.  `GoodAuthority e s`: for the split `pt`/`np` of the input, the user (if any)
  is a Python string, and the host text `h0` cut out of the input satisfies `GoodHost` (no '[' inside it, and for a
  non-ASCII host a sane IDNA answer — or it is a valid IPv6 literal with any zone); with an EMPTY host there must be a
  user that is actually written, a password or a port.  (Since fix 2fdb38c a user made of lone surrogates only, which
  requotes to "", is cached as None — not "" —, so in front of a non-empty host the guard asks nothing more of the
  user: C09_headline_surrogate_user_agrees.)
  IDN hosts: `IdnaAnswerSane` / `IdnaSaneAt` / `IdnaSane` (C16Idn.lean) are the stated ASSUMPTION about the `idna` package
  under which the IDNA clause of the guard holds, see the section "IDN (non-ASCII) hosts".

  Continued in C09HeadlineMore.lean (theorems that need a module which imports this file): C09Bracket.lean imports this
  file, so the statements for BRACKETED hosts that are not IPv6 addresses (IPvFuture "[v1.a:b]", "[g::1]", "[a:b]";
  GAPS 1, guard coverage) are there as `C09_headline_…_bracketed_host…`.
  Continued further in C09HeadlineMore4.lean (headline theorems for the proof modules added after the last refresh:
  C09More.lean; the GAPS block below cites them).
-/
set_option linter.unusedVariables false
namespace Yarl
open EagerLemmas Idn HumanLemmas

/-! ## Sentence 1 — "Every accessor returns the same value whether it was pre-computed while the URL was being built or
    derived later from the stored string parts." -/

/-- the sentence for the only constructor that pre-computes anything: the four cached entries are exactly what the lazy
    route derives from the stored parts. -/
theorem C09_headline_eager_eq_lazy (e : Env) (s : Str) (u : Url) (p : NetPre)
    (hu : encodeUrl e s = .ok u) (hpre : u.pre = some p)
    -- excludes the two KNOWN FINDINGS F-C09-bracket ("[[::1]", C09_headline_fails_for_malformed_brackets) and
    -- F-C09-empty-authority ("//@", C09_headline_fails_for_empty_authority, …_fails_for_surrogate_user_empty_host);
    -- C09_guard_excludes: ANY disagreeing input is outside the guard
    (hg : GoodAuthority e s) :
    lazyNet e (pickleTwin u) = .ok p :=
  C09_eager_eq_lazy e s u p hu hpre hg
-- Appendix E: C09_eager_eq_lazy ↦ C09_eager_eq_lazy (same name).  `∀ kv ∈ u.prefill, kv.2 = lazyAccessor kv.1 u.parts`
--             became `lazyNet e (pickleTwin u) = .ok p` (the four entries at once); the guard `GoodAuthority` is new and
--             is justified by the two counterexample theorems.

/-- NEW composition — the guard checked on the input for the common case: any input whose host text (as `split_netloc`
    cuts it out) is ASCII and contains no '[' : reg-names in any case, IPv4, IPvFuture, "[a:b]", stray ']' … -/
theorem C09_headline_eager_eq_lazy_ascii_host (e : Env) (s : Str) (hs : PyStr s) (u : Url) (p : NetPre)
    (pt : Parts) (np : NetlocParts) (h0 : Str)
    (hu : encodeUrl e s = .ok u) (hpre : u.pre = some p)
    (h1 : splitUrl e.o s = .ok pt) (h2 : splitNetloc e.o pt.netloc = .ok np)
    (hhost : np.host = some h0) (hascii : isAscii h0 = true) (h91 : 91 ∉ h0) :
    lazyNet e (pickleTwin u) = .ok p := by
  have hnp : GoodNp e np := by
    refine ⟨(WfLemmas.splitNetloc_pyStr e.o pt.netloc (WfLemmas.splitUrl_pyStr e.o s hs pt h1).1 np h2).1, ?_⟩
    rw [hhost]; exact C09_good_host_ascii e.o h0 hascii h91
  exact C09_eager_eq_lazy e s u p hu hpre (C09_good_authority_of e s pt np h1 h2 hnp)

/-- … and then EVERY netloc-dependent accessor agrees (the others read only the five parts, next theorem). -/
theorem C09_headline_all_accessors_agree (e : Env) (u : Url) (p : NetPre)
    (hpre : u.pre = some p) (hlazy : lazyNet e (pickleTwin u) = .ok p) :
    net e (pickleTwin u) = net e u ∧ str e (pickleTwin u) = str e u ∧ host e (pickleTwin u) = host e u ∧
    hostSubcomponent e (pickleTwin u) = hostSubcomponent e u ∧
    hostPortSubcomponent e (pickleTwin u) = hostPortSubcomponent e u ∧ port e (pickleTwin u) = port e u ∧
    isDefaultPort e (pickleTwin u) = isDefaultPort e u ∧ authority e (pickleTwin u) = authority e u ∧
    user e (pickleTwin u) = user e u ∧ password e (pickleTwin u) = password e u ∧
    humanRepr e (pickleTwin u) = humanRepr e u ∧
    rawUser e (pickleTwin u) = rawUser e u ∧ rawPassword e (pickleTwin u) = rawPassword e u ∧
    rawHost e (pickleTwin u) = rawHost e u ∧ explicitPort e (pickleTwin u) = explicitPort e u :=
  C09_all_accessors_of_net e u p hpre hlazy

/-- every OTHER producer pre-computes nothing (so for it "eager" and "lazy" are the same computation): `URL(s, encoded=True)`,
    build(), from_parts, and every modifier result `v` satisfy `pickleTwin v = v` (with_fragment, extend_query,
    without_query_params, join may hand back an argument unchanged). -/
theorem C09_headline_only_constructor_prefills (e : Env) (u : Url) :
    (∀ s v, preEncodedUrl e s = .ok v → v.pre = none) ∧ (∀ a v, build e a = .ok v → v.pre = none) ∧
    (∀ sc n p q f, (fromParts sc n p q f).pre = none) ∧
    (∀ x v, withUser e u x = .ok v → pickleTwin v = v) ∧ (∀ x v, withPassword e u x = .ok v → pickleTwin v = v) ∧
    (∀ x v, withHost e u x = .ok v → pickleTwin v = v) ∧ (∀ x k v, withPort e u x k = .ok v → pickleTwin v = v) ∧
    (∀ x v, withScheme e u x = .ok v → pickleTwin v = v) ∧
    (∀ p enc kq kf, pickleTwin (withPath e u p enc kq kf) = withPath e u p enc kq kf) ∧
    (∀ a v, withQuery e u a = .ok v → pickleTwin v = v) ∧ (∀ a v, updateQuery e u a = .ok v → pickleTwin v = v) ∧
    (∀ a v, extendQuery e u a = .ok v → pickleTwin v = v ∨ v = u) ∧
    (∀ f, pickleTwin (withFragment e u f) = withFragment e u f ∨ withFragment e u f = u) ∧
    (∀ n kq kf v, withName e u n kq kf = .ok v → pickleTwin v = v) ∧
    (∀ x kq kf v, withSuffix e u x kq kf = .ok v → pickleTwin v = v) ∧
    (∀ ps enc v, makeChild e u ps enc = .ok v → pickleTwin v = v) ∧
    (∀ v, relative u = .ok v → pickleTwin v = v) ∧
    (∀ r, pickleTwin (join e u r) = join e u r ∨ join e u r = r) := by
  obtain ⟨a1, a2, a3⟩ := C09_no_prefill e
  exact ⟨a1, a2, a3, C09_modifiers_no_prefill e u⟩

/-! ## Sentence 2 — "In particular a URL restored by pickle, copy or deepcopy compares equal to the original, has the same
    hash and string form, and returns identical values for every accessor." -/

/-- "compares equal to the original, has the same hash": unconditional (equality and hash read the five parts only);
    restoring twice changes nothing. -/
theorem C09_headline_restored_equal_same_hash (u : Url) :
    (pickleTwin u).beq u = true ∧ eqKey (pickleTwin u) = eqKey u ∧ (pickleTwin u).parts = u.parts ∧
    pickleTwin (pickleTwin u) = pickleTwin u := by
  obtain ⟨h1, h2, h3, h4⟩ := C09_twin_parts u
  exact ⟨h3, h2, h1, h4⟩

/-- "… the same … string form, and returns identical values for every accessor": the accessors that read only the five
    parts — unconditional. -/
theorem C09_headline_restored_pure_accessors (e : Env) (u v : Url) :
    rawPath (pickleTwin u) = rawPath u ∧ pathDecoded e (pickleTwin u) = pathDecoded e u ∧
    pathSafe e (pickleTwin u) = pathSafe e u ∧ queryPairs (pickleTwin u) = queryPairs u ∧
    queryString e (pickleTwin u) = queryString e u ∧ fragmentDecoded e (pickleTwin u) = fragmentDecoded e u ∧
    rawParts (pickleTwin u) = rawParts u ∧ rawName (pickleTwin u) = rawName u ∧
    rawSuffix (pickleTwin u) = rawSuffix u ∧ parent (pickleTwin u) = pickleTwin (parent u) ∧
    pathQs e (pickleTwin u) = pathQs e u ∧ rawPathQs (pickleTwin u) = rawPathQs u ∧
    partsDecoded e (pickleTwin u) = partsDecoded e u ∧ name e (pickleTwin u) = name e u ∧
    suffix e (pickleTwin u) = suffix e u ∧ rawSuffixes (pickleTwin u) = rawSuffixes u ∧
    suffixes e (pickleTwin u) = suffixes e u ∧ relative (pickleTwin u) = relative u ∧
    (pickleTwin u).truthy = u.truthy ∧
    (pickleTwin u).lt v = u.lt v ∧ v.lt (pickleTwin u) = v.lt u ∧ (pickleTwin u).le v = u.le v ∧
    v.le (pickleTwin u) = v.le u ∧ (pickleTwin u).beq v = u.beq v ∧ v.beq (pickleTwin u) = v.beq u := by
  obtain ⟨a1, a2, a3, a4, a5, a6, a7, a8, a9, a10⟩ := C09_twin_pure_accessors e u
  obtain ⟨b1, b2, b3, b4, b5, b6, b7, b8, b9, b10, b11, b12, b13, b14, b15⟩ := C09_twin_pure_accessors_more e u v
  exact ⟨a1, a2, a3, a4, a5, a6, a7, a8, a9, a10, b1, b2, b3, b4, b5, b6, b7, b8, b9, b10, b11, b12, b13, b14, b15⟩

/-- "… the same … string form, and … identical values for every accessor": the netloc-dependent ones, for constructor
    results inside the guard (for every other producer the restored URL IS the URL: previous section). -/
theorem C09_headline_restored_string_form_and_accessors (e : Env) (s : Str) (u : Url)
    (hu : encodeUrl e s = .ok u) (hg : GoodAuthority e s) :  -- same guard, same two findings
    str e (pickleTwin u) = str e u ∧ net e (pickleTwin u) = net e u ∧ host e (pickleTwin u) = host e u ∧
    port e (pickleTwin u) = port e u ∧ authority e (pickleTwin u) = authority e u ∧
    user e (pickleTwin u) = user e u ∧ password e (pickleTwin u) = password e u ∧
    humanRepr e (pickleTwin u) = humanRepr e u := by
  obtain ⟨h1, h2, h3, h4, h5, h6, h7, h8, _⟩ := C09_pickle_lossless e s u hu hg
  exact ⟨h2, h1, h3, h4, h5, h6, h7, h8⟩

/-- the restored URL is also indistinguishable as an ARGUMENT of the netloc-reading modifiers -/
theorem C09_headline_restored_as_modifier_argument (e : Env) (u : Url) (hnet : net e (pickleTwin u) = net e u) :
    (∀ x, withUser e (pickleTwin u) x = withUser e u x) ∧ (∀ x, withPassword e (pickleTwin u) x = withPassword e u x) ∧
    (∀ x, withHost e (pickleTwin u) x = withHost e u x) ∧ (∀ x k, withPort e (pickleTwin u) x k = withPort e u x k) ∧
    (origin e (pickleTwin u)).map pickleTwin = (origin e u).map pickleTwin :=
  C09_modifiers_of_net e u hnet

/-! ### IDN (non-ASCII) hosts — the IDNA clause of the guard under ONE stated assumption (GAPS 1)

  IDNA is an oracle of the model.  `IdnaAnswerSane a` (C16Idn.lean): `a` is non-empty and the library's own
  `NOT_REG_NAME` screen finds nothing in it (lower-case RFC 3986 reg-name text).  `IdnaSaneAt o h`: every answer of the
  oracle for the host `h` — the `idna` package's, or the stdlib-codec fallback's after the `.lower()` the library
  applies — is sane.  `IdnaSane o`: … for every non-ASCII host.  These are ASSUMPTIONS about a third-party package
  (trusted base), not proved. -/

/-- the IDNA clause of `GoodHost` ("the answer is non-empty and introduces none of ':' '@' '[' ']'") follows from the
    assumption for the host at hand; and under the universal assumption the whole guard on the host is purely
    syntactic: "no '[' inside the host text, or a valid IPv6 literal (before an optional %zone)" — ASCII or not. -/
theorem C09_headline_idn_guard (o : Oracles) (h0 : Str) :
    (91 ∉ h0 →                       -- no '[' inside the host text (F-C09-bracket)
      IdnaSaneAt o h0 →              -- ASSUMPTION about the idna package, for this host
      GoodHost o h0) ∧
    (IdnaSane o →                    -- ASSUMPTION about the idna package, for every non-ASCII host
      (GoodHost o h0 ↔ (91 ∉ h0 ∨ ∃ h8, parseIP (partition 37 h0).1 = some (.v6 h8)))) :=
  ⟨fun h91 hs => C09_idn_good_host o h0 h91 hs, fun hs => C09_idn_good_host_iff o hs h0⟩

/-- sentence 1 for an input whose authority has the (IDN) host `h0`, with userinfo / port or not: the four cached
    entries are what the lazy route derives.  (C09_idn_eager_eq_lazy, C09Idn.lean.) -/
theorem C09_headline_eager_eq_lazy_idn_host (e : Env) (s : Str) (u : Url) (p : NetPre) (pt : Parts)
    (np : NetlocParts) (h0 : Str)
    (hu : encodeUrl e s = .ok u) (hpre : u.pre = some p)
    (h1 : splitUrl e.o s = .ok pt) (h2 : splitNetloc e.o pt.netloc = .ok np) -- names the split of the input
    (hhost : np.host = some h0)
    (h91 : 91 ∉ h0)                              -- F-C09-bracket (C09_headline_fails_for_malformed_brackets)
    (hs : IdnaSaneAt e.o h0)                     -- ASSUMPTION about the idna package; needed:
                                                 -- C09_headline_idn_fails_for_insane_answer
    (huser : ∀ x, np.user = some x → PyStr x) :  -- the user is a Python string (automatic when `s` is one)
    lazyNet e (pickleTwin u) = .ok p :=
  C09_idn_eager_eq_lazy e s u p pt np h0 hu hpre h1 h2 hhost h91 hs huser

/-- sentence 2 for such an input: the restored URL has the same string form, netloc data, host, port, authority,
    user, password, human_repr, and is equal with the same hash key.  Second part: under the universal assumption
    `IdnaSane` EVERY Python-string input whose host text has no '[' inside (or is a valid IPv6 literal) is covered.
    (C09_idn_pickle_lossless, C09_idn_pickle_lossless_any_host.) -/
theorem C09_headline_restored_idn_host (e : Env) (s : Str) (u : Url) (pt : Parts) (np : NetlocParts) (h0 : Str)
    (hpy : PyStr s) (hu : encodeUrl e s = .ok u)
    (h1 : splitUrl e.o s = .ok pt) (h2 : splitNetloc e.o pt.netloc = .ok np) (hhost : np.host = some h0) :
    ((91 ∉ h0 ∧ IdnaSaneAt e.o h0) ∨             -- F-C09-bracket; ASSUMPTION for this host — or
      (IdnaSane e.o ∧ (91 ∉ h0 ∨ ∃ h8, parseIP (partition 37 h0).1 = some (.v6 h8)))) → -- the universal ASSUMPTION
    net e (pickleTwin u) = net e u ∧ str e (pickleTwin u) = str e u ∧ host e (pickleTwin u) = host e u ∧
    port e (pickleTwin u) = port e u ∧ authority e (pickleTwin u) = authority e u ∧
    user e (pickleTwin u) = user e u ∧ password e (pickleTwin u) = password e u ∧
    humanRepr e (pickleTwin u) = humanRepr e u ∧ (pickleTwin u).beq u = true ∧ eqKey (pickleTwin u) = eqKey u := by
  rintro (⟨h91, hs⟩ | ⟨hs, hsyn⟩)
  · exact C09_idn_pickle_lossless e s u pt np h0 hpy hu h1 h2 hhost h91 hs
  · exact C09_idn_pickle_lossless_any_host e hs s u pt np h0 hpy hu h1 h2 hhost hsyn

/-- END TO END, hypotheses on the input text only: `URL("scheme://h/path#fragment")` with a non-ASCII host `h`
    (`IdnHostInput`: non-ASCII, none of `/ ? # TAB LF CR [ ] : @`, passes the NFKC check, the isdigit oracle knows
    it, no IP literal before a '%').  Whatever the constructor returns is inside the guard and pickling it is
    lossless.  (C09_idn_pickle_lossless_ctor.) -/
theorem C09_headline_restored_idn_constructor (e : Env) (sc h rp rf : Str)
    (vs : ValidScheme sc)                        -- non-empty scheme characters, written lower-case
    (hi : IdnHostInput e.o h)                    -- the shape of the input host, see above
    (hs : IdnaSaneAt e.o h)                      -- ASSUMPTION about the idna package
    (h35 : 35 ∉ rp) (h63 : 63 ∉ rp)              -- `rp` = path text after the first '/': no '#', no '?'
    (hc1 : Clean rp) (hc2 : Clean rf)            -- no TAB / LF / CR (split_url would strip them)
    (u : Url) :
    encodeUrl e (sc ++ 58 :: 47 :: 47 :: (h ++ (47 :: rp ++ fragTail rf))) = .ok u →
    GoodAuthority e (sc ++ 58 :: 47 :: 47 :: (h ++ (47 :: rp ++ fragTail rf))) ∧
    net e (pickleTwin u) = net e u ∧ str e (pickleTwin u) = str e u ∧ host e (pickleTwin u) = host e u ∧
    port e (pickleTwin u) = port e u ∧ authority e (pickleTwin u) = authority e u ∧
    user e (pickleTwin u) = user e u ∧ password e (pickleTwin u) = password e u ∧
    humanRepr e (pickleTwin u) = humanRepr e u ∧ (pickleTwin u).beq u = true ∧ eqKey (pickleTwin u) = eqKey u :=
  C09_idn_pickle_lossless_ctor e sc h rp rf vs hi hs h35 h63 hc1 hc2 u

/-- the assumption is needed: with an `idna` package that answered "a:81", "u@x" or "" for the host of
    `C16_idn_input` ("http://é/p") eager and lazy values DIFFER — raw_host "a:81" vs "a" (and port 80 vs 81),
    raw_host "u@x" / no user vs "x" / user "u", raw_host "" vs None — and the input is outside the guard.
    (Hypothetical packages: not observed, not a finding.  C16_idn_needs_no_colon / _no_at / _nonempty, C16Idn.lean.) -/
theorem C09_headline_idn_fails_for_insane_answer :
    (let e : Env := { b := .c, o := C16_idn_hostile "a:81".toStr }
     ¬ IdnaSaneAt e.o [233] ∧
     (encodeUrl e C16_idn_input).bind (rawHost e) = .ok (some "a:81".toStr) ∧
     (encodeUrl e C16_idn_input).bind (fun u => rawHost e (pickleTwin u)) = .ok (some "a".toStr) ∧
     (encodeUrl e C16_idn_input).bind (port e) = .ok (some 80) ∧
     (encodeUrl e C16_idn_input).bind (fun u => port e (pickleTwin u)) = .ok (some 81) ∧
     ¬ GoodAuthority e C16_idn_input) ∧
    (let e : Env := { b := .c, o := C16_idn_hostile "u@x".toStr }
     ¬ IdnaSaneAt e.o [233] ∧
     (encodeUrl e C16_idn_input).bind (rawHost e) = .ok (some "u@x".toStr) ∧
     (encodeUrl e C16_idn_input).bind (fun u => rawHost e (pickleTwin u)) = .ok (some "x".toStr) ∧
     (encodeUrl e C16_idn_input).bind (rawUser e) = .ok none ∧
     (encodeUrl e C16_idn_input).bind (fun u => rawUser e (pickleTwin u)) = .ok (some "u".toStr) ∧
     ¬ GoodAuthority e C16_idn_input) ∧
    (let e : Env := { b := .c, o := C16_idn_hostile [] }
     ¬ IdnaSaneAt e.o [233] ∧
     (encodeUrl e C16_idn_input).bind (rawHost e) = .ok (some []) ∧
     (encodeUrl e C16_idn_input).bind (fun u => rawHost e (pickleTwin u)) = .ok none ∧
     ¬ GoodAuthority e C16_idn_input) := by
  obtain ⟨a1, _, a3, a4, a5, a6, _, _, a9⟩ := C16_idn_needs_no_colon
  obtain ⟨b1, b2, b3, b4, b5, b6⟩ := C16_idn_needs_no_at
  obtain ⟨c1, _, c3, c4, _, c6⟩ := C16_idn_needs_nonempty
  exact ⟨⟨a1, a3, a5, a4, a6, a9⟩, ⟨b1, b2, b4, b3, b5, b6⟩, ⟨c1, c3, c4, c6⟩⟩

/-! ### the two KNOWN FINDINGS: inputs outside the guard on which eager and lazy values differ -/

/-- F-C09-empty-authority: "//@:?#", "//@", "//:" — stored netloc "", eager raw_host "", the restored URL reads None -/
theorem C09_headline_fails_for_empty_authority :
    ∀ s ∈ ["//@:?#".toStr, "//@".toStr, "//:".toStr],
      eagerLazy envPy s = .ok ([],
        some { rawHost := some [], explicitPort := none, rawUser := none, rawPassword := none },
        .ok { rawHost := none, explicitPort := none, rawUser := none, rawPassword := none }) ∧
      ¬ GoodAuthority envPy s :=
  C09_normalises_to_empty_counterexample

/-- F-C09-bracket: "http://[[::1]/" — stored netloc "[::1", eager raw_host "::", the restored URL reads "::1" -/
theorem C09_headline_fails_for_malformed_brackets :
    eagerLazy envPy "http://[[::1]/".toStr = .ok ("[::1".toStr,
      some { rawHost := some "::".toStr, explicitPort := none, rawUser := none, rawPassword := none },
      .ok { rawHost := some "::1".toStr, explicitPort := none, rawUser := none, rawPassword := none }) ∧
    ¬ GoodAuthority envPy "http://[[::1]/".toStr :=
  C09_malformed_brackets_counterexample

/-- NEW (evaluation): the other two spellings KNOWN_FINDINGS lists under F-C09-bracket, "x[::1]" and "[::1]x", do NOT
    disagree in the model: the stray "x" is dropped, the stored netloc is "[::1]", eager and lazy raw_host are both "::1". -/
theorem C09_headline_bracket_variants_agree :
    ∀ s ∈ ["http://x[::1]/".toStr, "http://[::1]x/".toStr],
      eagerLazy envPy s = .ok ("[::1]".toStr,
        some { rawHost := some "::1".toStr, explicitPort := none, rawUser := none, rawPassword := none },
        .ok { rawHost := some "::1".toStr, explicitPort := none, rawUser := none, rawPassword := none }) := by
  intro s hs
  simp only [List.mem_cons, List.not_mem_nil, or_false] at hs
  rcases hs with rfl | rfl <;> rfl

/-! ### a user made of lone surrogates only (fix 2fdb38c) -/

/-- FIXED by commit 2fdb38c (was a C09 defect: eager raw_user "" vs None on the restored URL).  A user made of lone
    surrogates only requotes to ""; `encode_url` now caches `REQUOTER(username) or None`, i.e. None — what the
    restored URL reads from the stored netloc "host" — and the input is INSIDE the guard (which asks of a user in
    front of a non-empty host only that it is a Python string).  Evaluated on the compiled backend with the NFKC
    oracle = identity (`envC`); the pure-Python quoter drops the surrogate as well (C09_requote_lone_surrogate). -/
theorem C09_headline_surrogate_user_agrees :
    eagerLazy envC ("http://".toStr ++ [0xDC80] ++ "@host/".toStr) = .ok ("host".toStr,
      some { rawHost := some "host".toStr, explicitPort := none, rawUser := none, rawPassword := none },
      .ok { rawHost := some "host".toStr, explicitPort := none, rawUser := none, rawPassword := none }) ∧
    GoodAuthority envC ("http://".toStr ++ [0xDC80] ++ "@host/".toStr) ∧
    (∀ e : Env, q e Gen.REQUOTER [0xDC80] = []) :=
  ⟨C09_surrogate_user_now_agrees, C09_surrogate_user_in_guard.1, C09_requote_lone_surrogate⟩

/-- what is LEFT of that family — a further member of the class of F-C09-empty-authority ("authority normalises to
    empty"; KNOWN_FINDINGS names only the spellings made of '@' and ':'): in front of an EMPTY host the dropped user
    leaves the stored netloc empty, "foo://\udc80@/x": eager raw_host "", the restored URL reads None.  This is why
    the empty-host clause of the guard asks for a user THAT IS WRITTEN (does not requote to ""), a password or a port. -/
theorem C09_headline_fails_for_surrogate_user_empty_host :
    eagerLazy envC ("foo://".toStr ++ [0xDC80] ++ "@/x".toStr) = .ok ([],
      some { rawHost := some [], explicitPort := none, rawUser := none, rawPassword := none },
      .ok { rawHost := none, explicitPort := none, rawUser := none, rawPassword := none }) ∧
    ¬ GoodAuthority envC ("foo://".toStr ++ [0xDC80] ++ "@/x".toStr) :=
  C09_surrogate_user_empty_host_counterexample

/-
GAPS:
 1. PARTLY CLOSED by C09_idn_good_host, C09_idn_good_host_iff, C09_idn_eager_eq_lazy, C09_idn_pickle_lossless,
    C09_idn_pickle_lossless_any_host, C09_idn_pickle_lossless_ctor (C09Idn.lean), see C09_headline_idn_guard,
    C09_headline_eager_eq_lazy_idn_host, C09_headline_restored_idn_host, C09_headline_restored_idn_constructor.
    GUARD COVERAGE as before for ASCII hosts: `GoodHost` is established from the input for ASCII host text without '['
    (C09_good_host_ascii — covers reg-names, IPv4, IPvFuture, bracketed junk with ':'), valid IPv6 with any zone
    (C09_good_host_ipv6_any_zone), the empty host with a written user / password / port
    (C09_eager_eq_lazy_empty_host).  BRACKETED NON-IPv6 HOSTS (IPvFuture "[v1.a:b]", "[g::1]", "[a:b]",
    "[1.2.3.4%a:b]"; since fix c17f18a their brackets are kept in the stored netloc) — were covered only implicitly by the
    "ASCII, no '['" clause; now CLOSED explicitly by C09_bracket_good_authority, C09_bracket_pickle_lossless,
    C09_bracket_eager_eq_lazy (C09Bracket.lean — that file IMPORTS this one, so the headline theorems are in the
    companion file C09HeadlineMore.lean), see C09_headline_bracketed_host_in_guard, C09_headline_restored_bracketed_host,
    C09_headline_eager_eq_lazy_bracketed_host: every Python-string input whose host text is a bracketed non-IPv6 text IN
    ANY LETTER CASE (`BracketTextIn`) is inside `GoodAuthority`, all netloc-dependent accessors, the string form, `==` and
    the hash key of the restored URL agree, and for the canonical strings `scheme://[user[:pw]@][t][:port]…` (any port,
    the default one included) the cached `raw_host = t`, port, user, password are exactly what the restored URL derives.
    Only "ASCII" and "no '[' inside" of `BracketTextIn` are used — so even the inputs whose string form cannot be parsed
    again ("[V:b]", a further member of F-C03-bracket, C03Headline.lean GAPS 2) pickle losslessly; nothing remains open
    for this family in C09.  NEW for NON-ASCII (IDN) hosts: the clause "the IDNA answer is non-empty and
    introduces none of ':' '@' '[' ']'" is now DERIVED from the single assumption `IdnaSaneAt e.o h0` ("every answer
    of the `idna` package / of the lower-cased stdlib fallback for this host is non-empty lower-case reg-name text",
    stated once in C16Idn.lean), for any authority shape (userinfo, port), and end to end from the input text for
    `scheme://h/path#fragment`; under the universal form `IdnaSane` the guard on the host is purely syntactic.
    WHAT REMAINS OPEN: `IdnaSaneAt` / `IdnaSane` is itself an ASSUMPTION about `idna.encode` (trusted base): no
    theorem can discharge it.  (The former remark "the differential harness does not check it" is STALE: since commit
    d1e0e7e `harness/core.py` (`check_oracle_assumption`) tests every answer the real `idna` package / stdlib codec
    gives during a run against `IdnaSaneAt` and records counts and the answers OUTSIDE the assumption in the evidence,
    `coverage.oracle_assumptions_checked` — and such answers DO occur, e.g. the stdlib fallback answers "xa/cy.com" for
    "x\u2100y.com" and "2001:db8::" for a fullwidth-digit IPv6 text: those hosts are outside the per-host IDN theorems;
    a run-time check on the inputs of a run, not a proof.)  So for IDN inputs C09 is still conditional — on that one
    assumption.  It is needed: C09_headline_idn_fails_for_insane_answer (hypothetical answers "a:81", "u@x", "").
    (Model change, fix 3fbf5b4: an IDNA answer that contains ':' is now re-entered into `_encode_host` — `encodeHostA`
    — instead of being stored as is.  Nothing above changes: under `IdnaSaneAt` an answer contains no ':', so the
    re-entry is never taken; the hostile answer "a:81" is no IP literal, the re-entry returns it unchanged and
    C09_headline_idn_fails_for_insane_answer still holds as stated.)
    FURTHER (guard coverage) CLOSED by C09_good_authority_of_input, C09_good_authority_iff_input,
    C09_pickle_lossless_of_input, C09_guard_false_without_authority, C09_no_authority_twin (C09More.lean), see
    C09_headline_guard_from_input_text, C09_headline_guard_iff_input_text, C09_headline_input_guard_def,
    C09_headline_input_guard_covers_host_kinds, C09_headline_pickle_lossless_of_input,
    C09_headline_guard_false_without_authority (C09HeadlineMore4.lean).  Proved: ONE decidable predicate `AuthorityOK`
    on the authority TEXT of the input (RFC 3986 Appendix B on the cleaned input) covers every host kind at once —
    reg-names in any letter case, trailing dots, IPv4, IPv6 with any zone, IPvFuture and other bracketed texts, IDN
    hosts, the empty host with a written user / password / port, with or without userinfo and port; a Python-string
    input with `AuthorityOK` is inside `GoodAuthority`, and on input that `split_url` and `split_netloc` accept
    `GoodAuthority e s ↔ AuthorityOK (ctorAuthorityText s)` — no family is missing.  Hypotheses: `PyStr s`; for a
    NON-ASCII host text the assumption `IdnaSaneAt` (direction "AuthorityOK ⟹ guard" only).  NEGATIVE, new:
    `GoodAuthority` is FALSE for an input WITHOUT authority ("/a?b#c"), so the theorems of this file with that
    hypothesis say nothing about "/path", "mailto:x"; `InputOK` (no authority, or `AuthorityOK`) includes them and
    C09_headline_pickle_lossless_of_input states sentence 1 and 2 for it.  See item 8 for what is trusted.
 2. F-C09-bracket in KNOWN_FINDINGS names three spellings ("[[::1]", "x[::1]", "[::1]x").  In the model only "[[::1]"
    disagrees (C09_headline_fails_for_malformed_brackets); the other two agree (C09_headline_bracket_variants_agree, new)
    and lie inside the guard (host text "::1").  Replayed against /repo (pickle round trip, 2026-09): the library agrees with the
    model — raw_host "::1" on both sides for "x[::1]" / "[::1]x", "::" vs "::1" for "[[::1]".  So the text of the
    finding is broader than the C09 defect (the other two spellings are C03 matters: the stray "x" is dropped by str).
    SHARPENED by C09_eager_lazy_iff, C09_eager_ne_lazy_iff, C09_agreeB_false_iff, C09_authorityOK_agreeB,
    C09_guard_not_exact (C09More.lean), see C09_headline_eager_lazy_iff, C09_headline_eager_ne_lazy_iff,
    C09_headline_boundary_predicates_def, C09_headline_boundary_examples, C09_headline_guard_sufficient_not_necessary
    (C09HeadlineMore4.lean).  The defect is now a CLASS with an exact boundary instead of one witness: for a
    Python-string input that the constructor accepts (with cached entries) and whose HOST TEXT IS ASCII, eager = lazy
    IFF the decidable `AgreeB` holds of the authority text, and eager ≠ lazy IFF the authority is in class (A)
    `NormalisesToEmpty` (item 7) or class (B) `MalformedBrackets` = a '[' inside the host text, which is no IPv6
    literal, except the odd texts without port whose eager and lazy raw_host coincide (`OddHost`: "[" or everything
    after the first character is '[').  By computation "[[::1]", "[x:[]:80", "[A:[]" are in class (B) and "x[::1]" /
    "[::1]x" satisfy `AgreeB`.  KNOWN FINDING F-C09-bracket stays a finding (class (B) is non-empty).  NEGATIVE about
    the guard: `GoodAuthority` is sufficient but NOT necessary — "foo://[:[]/", "foo://[:[[]/", "foo://[a:b]@[[]/" are
    outside it and agree.  Not covered: non-ASCII host texts (no exact boundary; only the sufficient guard under
    `IdnaSaneAt`, item 1).
 3. "every accessor": the accessor lists of C09_all_accessors_of_net (15) and C09_twin_pure_accessors(_more) (25) are
    enumerations; completeness w.r.t. the public API is by inspection (C08Yarl's `Acc` has 34 names and
    C08_yarl_read_eq_model_all proves the same fact for every NAME of that table).  `query` is `queryPairs`; `raw_query`,
    `scheme`, `raw_fragment`, `raw_authority` are fields and agree by `C09_twin_parts`.
    PARTLY CLOSED by C09_accessor_list_complete, C09_every_accessor, C09_indist_every_accessor,
    C09_eager_entries_are_lazy (C09More.lean), see C09_headline_accessor_list, C09_headline_every_accessor,
    C09_headline_indistinguishable_every_accessor, C09_headline_same_value_def, C09_headline_eager_entries_are_lazy
    (C09HeadlineMore4.lean).  Proved: ONE theorem quantified over `Acc9`, a list with one name per accessor function of
    YarlModel/Url.lean (53 names, the comparisons against an arbitrary other URL on either side included): under
    `GoodAuthority e s`, for every name the value read from the restored URL is "the same" (`AccVal.Same`) as the value
    read from the constructor result; `parent` / `origin()` / `relative()` return indistinguishable URLs (`Indist`), and
    indistinguishable URLs agree on every name again.  Completeness of `Acc9` w.r.t. the FILE Url.lean is a BUILD-TIME
    assertion (`run_cmd` in C09More.lean), not a theorem (item 8).  STILL OPEN: completeness w.r.t. the PUBLIC API of
    the Python library is by inspection, as before (C08Yarl's `Acc` table).
 4. "same hash": the model has no hash function; "same `eqKey`" is the tuple that is hashed.  That the cached
    `_cache["hash"]` entry is not carried over by pickling (and need not be) is not modelled.
 5. pickle format: `__reduce__`/`__setstate__` are not modelled beyond "the five strings survive"; unpickling data NOT
    produced by pickling a URL (hand-made state) is outside C09.
 6. Eager values other than the four netloc entries do not exist in `encode_url`; if the library starts pre-computing
    more (e.g. `raw_path`), `NetPre` and this property must grow — the generated tables do not check this
    (no `Gen.` fact lists the keys `encode_url` writes into `_cache`).
 7. (new) F-C09-empty-authority has a member that KNOWN_FINDINGS does not spell out: a user made of lone surrogates only
    in front of an EMPTY host ("foo://\udc80@/x", C09_headline_fails_for_surrogate_user_empty_host) — the same class
    ("authority normalises to empty"), reached through the quoter dropping the user instead of through '@' / ':' only.
    (The non-empty-host case was the defect fixed by 2fdb38c and agrees now: C09_headline_surrogate_user_agrees.)
    Both are evaluated on the compiled backend only (`envC`); for the pure-Python backend there is the quoter fact
    C09_requote_lone_surrogate but no evaluated `eagerLazy` theorem.
    PARTLY CLOSED by C09_eager_ne_lazy_iff, C09_normalises_to_empty_ascii (C09More.lean), see
    C09_headline_eager_ne_lazy_iff, C09_headline_normalises_to_empty_ascii, C09_headline_boundary_examples,
    C09_headline_surrogate_user_empty_host_disagrees_any_backend (C09HeadlineMore4.lean).  Proved: class (A)
    `NormalisesToEmpty` — empty host, no '[', no written user (absent, "" or lone surrogates only), no password, no port
    text — is exactly the empty-host half of the disagreement (ASCII host text; the empty host text is ASCII); among the
    non-empty authority texts WITHOUT lone surrogates it is exactly "@", ":" and "@:"; the member named here (a
    lone-surrogate user in front of "@") is in the class by computation, and that users of lone surrogates only in front
    of "@" / "@:" are the ONLY further members is said in C09More.lean's doc comment but not proved; a lone-surrogate
    user in front of a non-empty host satisfies `AgreeB` (computed).  For "foo://\udc80@/x" the disagreement is now
    stated for EVERY backend and oracle table, CONDITIONALLY: whenever the constructor accepts the input and caches
    entries `p`, the restored URL does not derive `p`.  STILL OPEN: an evaluated `eagerLazy` theorem for the pure-Python
    backend (acceptance of that input there is not evaluated).
 8.  NEW.  Trusted definitions and side conditions introduced by the theorems that close / sharpen 1, 2, 3, 7
    (C09More.lean).  (a) `Acc9`, `Acc9.read`, `AccVal`, `AccVal.Same`, `Indist` are hand-written: "every accessor"
    means "every name of `Acc9`" and "the same value" means `AccVal.Same` (equality, except for URL-valued accessors:
    same error or `Indist` results — NOT equality of the `Url` records: the eager cache `pre` of the two may differ);
    both are spelled out by C09_headline_accessor_list / C09_headline_same_value_def and must be READ.  (b) That no
    accessor function of YarlModel/Url.lean is missing from `Acc9.read` is checked by a build-time `run_cmd`: every
    definition of module YarlModel.Url with an argument of type `Url` must be in one of two hand-written name lists
    (`R9.accessorFns`, `R9.modifierFns`) and every name of the first must occur in the body of `Acc9.read`.  This is an
    assertion on the environment, not a theorem; it looks at arguments of type exactly `Url` (not `Option Url` /
    `List Url`), at module YarlModel.Url only, and the split accessor / modifier is by hand.  (c) `ctorAuthorityText`,
    `hostText`, `userWritten`, `AuthorityOK`, `InputOK`, `AgreeB`, `OddHost`, `NormalisesToEmpty`, `MalformedBrackets`
    are new decidable predicates on TEXT whose reading must be trusted (spelled out by `rfl`:
    C09_headline_input_guard_def, C09_headline_boundary_predicates_def); `ctorAuthorityText` uses the independent
    Appendix-B splitter `Rfc.appendixB`, tied to `split_url` by proof only on accepted input.  (d) Hypotheses: `PyStr s`
    everywhere; the iff of item 1 needs the input accepted by `split_url` and `split_netloc`; the exact boundary (items
    2, 7) needs `encodeUrl e s = .ok u`, `u.pre = some p` and an ASCII host text — for NON-ASCII hosts there is no exact
    boundary, and `IdnaSaneAt` is sufficient, not necessary (e.g. a fullwidth-digit IPv6 text, fix 3fbf5b4, has an
    IDNA answer with ':' — outside `IdnaSaneAt` — for which no theorem from the input text is stated).  (e) From
    C09More.lean's own list, not closable in the model: items 4, 5, 6 (unchanged).
-/

end Yarl
