import YarlProofs.C09
import YarlProofs.Lemmas.WfLemmas
/-!
  C09Headline.lean — AUDIT LAYER for property C09.

  C09 | Eager and lazy component computation agree; pickling is lossless |
  "Every accessor returns the same value whether it was pre-computed while the URL was being built or derived later from
  the stored string parts. In particular a URL restored by pickle, copy or deepcopy compares equal to the original, has
  the same hash and string form, and returns identical values for every accessor."

  Vocabulary.  `u.pre : Option NetPre` = the four `_cache` entries `encode_url` pre-computes (raw_host, explicit_port,
  raw_user, raw_password) — the ONLY eager values in the library; `net e u` returns them when present and otherwise
  `lazyNet e u` = what `split_netloc` derives from the stored netloc.  `pickleTwin u` = `{ u with pre := none }` = the
  object `__reduce__`/`__setstate__`, `copy` or `deepcopy` rebuilds from the five stored strings.  `eqKey` is the tuple
  `__eq__` compares and `__hash__` hashes.  `GoodAuthority e s`: for the split `pt`/`np` of the input, the user (if any)
  is a Python string, and the host text `h0` cut out of the input satisfies `GoodHost` (no '[' inside it, and for a
  non-ASCII host a sane IDNA answer — or it is a valid IPv6 literal with any zone); with an EMPTY host there must be a
  user that is actually written, a password or a port.
-/
set_option linter.unusedVariables false
namespace Yarl
open EagerLemmas

/-! ## Sentence 1 — "Every accessor returns the same value whether it was pre-computed while the URL was being built or
    derived later from the stored string parts." -/

/-- the sentence for the only constructor that pre-computes anything: the four cached entries are exactly what the lazy
    route derives from the stored parts. -/
theorem C09_headline_eager_eq_lazy (e : Env) (s : Str) (u : Url) (p : NetPre)
    (hu : encodeUrl e s = .ok u) (hpre : u.pre = some p)
    -- excludes the two KNOWN FINDINGS F-C09-bracket ("[[::1]", C09_headline_fails_for_malformed_brackets) and
    -- F-C09-empty-authority ("//@", C09_headline_fails_for_empty_authority); C09_guard_excludes: ANY disagreeing input
    -- is outside the guard
    (hg : GoodAuthority e s) :
    lazyNet e (pickleTwin u) = .ok p :=
  C09_eager_eq_lazy e s u p hu hpre hg
-- Appendix E: C09_eager_eq_lazy ↦ C09_eager_eq_lazy (same name).  `∀ kv ∈ u.prefill, kv.2 = lazyAccessor kv.1 u.parts`
--             became `lazyNet e (pickleTwin u) = .ok p` (the four entries at once); the guard `GoodAuthority` is new and
--             is justified by the two counterexample theorems.

/-- NEW composition — the guard checked on the input for the common case: any input whose host text (as `split_netloc`
    cuts it out) is ASCII and contains no '[' : reg-names in any case, IPv4, IPvFuture, "[a:b]", stray ']' … -/
theorem C09_headline_eager_eq_lazy_ascii_host (e : Env) (s : Str) (hs : PyStr s) (u : Url) (p : NetPre)
    (pt : Parts) (np : NetlocParts) (h0 : Str)
    (hu : encodeUrl e s = .ok u) (hpre : u.pre = some p)
    (h1 : splitUrl e.o s = .ok pt) (h2 : splitNetloc e.o pt.netloc = .ok np)
    (hhost : np.host = some h0) (hascii : isAscii h0 = true) (h91 : 91 ∉ h0) :
    lazyNet e (pickleTwin u) = .ok p := by
  have hnp : GoodNp e np := by
    refine ⟨(WfLemmas.splitNetloc_pyStr e.o pt.netloc (WfLemmas.splitUrl_pyStr e.o s hs pt h1).1 np h2).1, ?_⟩
    rw [hhost]; exact C09_good_host_ascii e.o h0 hascii h91
  exact C09_eager_eq_lazy e s u p hu hpre (C09_good_authority_of e s pt np h1 h2 hnp)

/-- … and then EVERY netloc-dependent accessor agrees (the others read only the five parts, next theorem). -/
theorem C09_headline_all_accessors_agree (e : Env) (u : Url) (p : NetPre)
    (hpre : u.pre = some p) (hlazy : lazyNet e (pickleTwin u) = .ok p) :
    net e (pickleTwin u) = net e u ∧ str e (pickleTwin u) = str e u ∧ host e (pickleTwin u) = host e u ∧
    hostSubcomponent e (pickleTwin u) = hostSubcomponent e u ∧
    hostPortSubcomponent e (pickleTwin u) = hostPortSubcomponent e u ∧ port e (pickleTwin u) = port e u ∧
    isDefaultPort e (pickleTwin u) = isDefaultPort e u ∧ authority e (pickleTwin u) = authority e u ∧
    user e (pickleTwin u) = user e u ∧ password e (pickleTwin u) = password e u ∧
    humanRepr e (pickleTwin u) = humanRepr e u ∧
    rawUser e (pickleTwin u) = rawUser e u ∧ rawPassword e (pickleTwin u) = rawPassword e u ∧
    rawHost e (pickleTwin u) = rawHost e u ∧ explicitPort e (pickleTwin u) = explicitPort e u :=
  C09_all_accessors_of_net e u p hpre hlazy

/-- every OTHER producer pre-computes nothing (so for it "eager" and "lazy" are the same computation): `URL(s, encoded=True)`,
    build(), from_parts, and every modifier result `v` satisfy `pickleTwin v = v` (with_fragment, extend_query,
    without_query_params, join may hand back an argument unchanged). -/
theorem C09_headline_only_constructor_prefills (e : Env) (u : Url) :
    (∀ s v, preEncodedUrl e s = .ok v → v.pre = none) ∧ (∀ a v, build e a = .ok v → v.pre = none) ∧
    (∀ sc n p q f, (fromParts sc n p q f).pre = none) ∧
    (∀ x v, withUser e u x = .ok v → pickleTwin v = v) ∧ (∀ x v, withPassword e u x = .ok v → pickleTwin v = v) ∧
    (∀ x v, withHost e u x = .ok v → pickleTwin v = v) ∧ (∀ x k v, withPort e u x k = .ok v → pickleTwin v = v) ∧
    (∀ x v, withScheme e u x = .ok v → pickleTwin v = v) ∧
    (∀ p enc kq kf, pickleTwin (withPath e u p enc kq kf) = withPath e u p enc kq kf) ∧
    (∀ a v, withQuery e u a = .ok v → pickleTwin v = v) ∧ (∀ a v, updateQuery e u a = .ok v → pickleTwin v = v) ∧
    (∀ a v, extendQuery e u a = .ok v → pickleTwin v = v ∨ v = u) ∧
    (∀ f, pickleTwin (withFragment e u f) = withFragment e u f ∨ withFragment e u f = u) ∧
    (∀ n kq kf v, withName e u n kq kf = .ok v → pickleTwin v = v) ∧
    (∀ x kq kf v, withSuffix e u x kq kf = .ok v → pickleTwin v = v) ∧
    (∀ ps enc v, makeChild e u ps enc = .ok v → pickleTwin v = v) ∧
    (∀ v, relative u = .ok v → pickleTwin v = v) ∧
    (∀ r, pickleTwin (join e u r) = join e u r ∨ join e u r = r) := by
  obtain ⟨a1, a2, a3⟩ := C09_no_prefill e
  exact ⟨a1, a2, a3, C09_modifiers_no_prefill e u⟩

/-! ## Sentence 2 — "In particular a URL restored by pickle, copy or deepcopy compares equal to the original, has the same
    hash and string form, and returns identical values for every accessor." -/

/-- "compares equal to the original, has the same hash": unconditional (equality and hash read the five parts only);
    restoring twice changes nothing. -/
theorem C09_headline_restored_equal_same_hash (u : Url) :
    (pickleTwin u).beq u = true ∧ eqKey (pickleTwin u) = eqKey u ∧ (pickleTwin u).parts = u.parts ∧
    pickleTwin (pickleTwin u) = pickleTwin u := by
  obtain ⟨h1, h2, h3, h4⟩ := C09_twin_parts u
  exact ⟨h3, h2, h1, h4⟩

/-- "… the same … string form, and returns identical values for every accessor": the accessors that read only the five
    parts — unconditional. -/
theorem C09_headline_restored_pure_accessors (e : Env) (u v : Url) :
    rawPath (pickleTwin u) = rawPath u ∧ pathDecoded e (pickleTwin u) = pathDecoded e u ∧
    pathSafe e (pickleTwin u) = pathSafe e u ∧ queryPairs (pickleTwin u) = queryPairs u ∧
    queryString e (pickleTwin u) = queryString e u ∧ fragmentDecoded e (pickleTwin u) = fragmentDecoded e u ∧
    rawParts (pickleTwin u) = rawParts u ∧ rawName (pickleTwin u) = rawName u ∧
    rawSuffix (pickleTwin u) = rawSuffix u ∧ parent (pickleTwin u) = pickleTwin (parent u) ∧
    pathQs e (pickleTwin u) = pathQs e u ∧ rawPathQs (pickleTwin u) = rawPathQs u ∧
    partsDecoded e (pickleTwin u) = partsDecoded e u ∧ name e (pickleTwin u) = name e u ∧
    suffix e (pickleTwin u) = suffix e u ∧ rawSuffixes (pickleTwin u) = rawSuffixes u ∧
    suffixes e (pickleTwin u) = suffixes e u ∧ relative (pickleTwin u) = relative u ∧
    (pickleTwin u).truthy = u.truthy ∧
    (pickleTwin u).lt v = u.lt v ∧ v.lt (pickleTwin u) = v.lt u ∧ (pickleTwin u).le v = u.le v ∧
    v.le (pickleTwin u) = v.le u ∧ (pickleTwin u).beq v = u.beq v ∧ v.beq (pickleTwin u) = v.beq u := by
  obtain ⟨a1, a2, a3, a4, a5, a6, a7, a8, a9, a10⟩ := C09_twin_pure_accessors e u
  obtain ⟨b1, b2, b3, b4, b5, b6, b7, b8, b9, b10, b11, b12, b13, b14, b15⟩ := C09_twin_pure_accessors_more e u v
  exact ⟨a1, a2, a3, a4, a5, a6, a7, a8, a9, a10, b1, b2, b3, b4, b5, b6, b7, b8, b9, b10, b11, b12, b13, b14, b15⟩

/-- "… the same … string form, and … identical values for every accessor": the netloc-dependent ones, for constructor
    results inside the guard (for every other producer the restored URL IS the URL: previous section). -/
theorem C09_headline_restored_string_form_and_accessors (e : Env) (s : Str) (u : Url)
    (hu : encodeUrl e s = .ok u) (hg : GoodAuthority e s) :  -- same guard, same two findings
    str e (pickleTwin u) = str e u ∧ net e (pickleTwin u) = net e u ∧ host e (pickleTwin u) = host e u ∧
    port e (pickleTwin u) = port e u ∧ authority e (pickleTwin u) = authority e u ∧
    user e (pickleTwin u) = user e u ∧ password e (pickleTwin u) = password e u ∧
    humanRepr e (pickleTwin u) = humanRepr e u := by
  obtain ⟨h1, h2, h3, h4, h5, h6, h7, h8, _⟩ := C09_pickle_lossless e s u hu hg
  exact ⟨h2, h1, h3, h4, h5, h6, h7, h8⟩

/-- the restored URL is also indistinguishable as an ARGUMENT of the netloc-reading modifiers -/
theorem C09_headline_restored_as_modifier_argument (e : Env) (u : Url) (hnet : net e (pickleTwin u) = net e u) :
    (∀ x, withUser e (pickleTwin u) x = withUser e u x) ∧ (∀ x, withPassword e (pickleTwin u) x = withPassword e u x) ∧
    (∀ x, withHost e (pickleTwin u) x = withHost e u x) ∧ (∀ x k, withPort e (pickleTwin u) x k = withPort e u x k) ∧
    (origin e (pickleTwin u)).map pickleTwin = (origin e u).map pickleTwin :=
  C09_modifiers_of_net e u hnet

/-! ### the two KNOWN FINDINGS: inputs outside the guard on which eager and lazy values differ -/

/-- F-C09-empty-authority: "//@:?#", "//@", "//:" — stored netloc "", eager raw_host "", the restored URL reads None -/
theorem C09_headline_fails_for_empty_authority :
    ∀ s ∈ ["//@:?#".toStr, "//@".toStr, "//:".toStr],
      eagerLazy envPy s = .ok ([],
        some { rawHost := some [], explicitPort := none, rawUser := none, rawPassword := none },
        .ok { rawHost := none, explicitPort := none, rawUser := none, rawPassword := none }) ∧
      ¬ GoodAuthority envPy s :=
  C09_normalises_to_empty_counterexample

/-- F-C09-bracket: "http://[[::1]/" — stored netloc "[::1", eager raw_host "::", the restored URL reads "::1" -/
theorem C09_headline_fails_for_malformed_brackets :
    eagerLazy envPy "http://[[::1]/".toStr = .ok ("[::1".toStr,
      some { rawHost := some "::".toStr, explicitPort := none, rawUser := none, rawPassword := none },
      .ok { rawHost := some "::1".toStr, explicitPort := none, rawUser := none, rawPassword := none }) ∧
    ¬ GoodAuthority envPy "http://[[::1]/".toStr :=
  C09_malformed_brackets_counterexample

/-- NEW (evaluation): the other two spellings KNOWN_FINDINGS lists under F-C09-bracket, "x[::1]" and "[::1]x", do NOT
    disagree in the model: the stray "x" is dropped, the stored netloc is "[::1]", eager and lazy raw_host are both "::1". -/
theorem C09_headline_bracket_variants_agree :
    ∀ s ∈ ["http://x[::1]/".toStr, "http://[::1]x/".toStr],
      eagerLazy envPy s = .ok ("[::1]".toStr,
        some { rawHost := some "::1".toStr, explicitPort := none, rawUser := none, rawPassword := none },
        .ok { rawHost := some "::1".toStr, explicitPort := none, rawUser := none, rawPassword := none }) := by
  intro s hs
  simp only [List.mem_cons, List.not_mem_nil, or_false] at hs
  rcases hs with rfl | rfl <;> rfl

/-
GAPS:
 1. GUARD COVERAGE.  `GoodHost` is established from the input for: ASCII host text without '[' (C09_good_host_ascii —
    covers reg-names, IPv4, IPvFuture, bracketed junk with ':'), valid IPv6 with any zone (C09_good_host_ipv6_any_zone),
    the empty host with a written user / password / port (C09_eager_eq_lazy_empty_host).  NOT established for: NON-ASCII
    (IDN) hosts — the clause "the IDNA answer is non-empty and introduces none of ':' '@' '[' ']'" is a hypothesis about
    the oracle that no theorem discharges (it needs a fact about `idna.encode`); so for IDN inputs C09 is conditional.
 2. F-C09-bracket in KNOWN_FINDINGS names three spellings ("[[::1]", "x[::1]", "[::1]x").  In the model only "[[::1]"
    disagrees (C09_headline_fails_for_malformed_brackets); the other two agree (C09_headline_bracket_variants_agree, new)
    and lie inside the guard (host text "::1").  Replayed against /repo (pickle round trip, 2026-09): the library agrees with the
    model — raw_host "::1" on both sides for "x[::1]" / "[::1]x", "::" vs "::1" for "[[::1]".  So the text of the
    finding is broader than the C09 defect (the other two spellings are C03 matters: the stray "x" is dropped by str).
 3. "every accessor": the accessor lists of C09_all_accessors_of_net (15) and C09_twin_pure_accessors(_more) (25) are
    enumerations; completeness w.r.t. the public API is by inspection (C08Yarl's `Acc` has 34 names and
    C08_yarl_read_eq_model_all proves the same fact for every NAME of that table).  `query` is `queryPairs`; `raw_query`,
    `scheme`, `raw_fragment`, `raw_authority` are fields and agree by `C09_twin_parts`.
 4. "same hash": the model has no hash function; "same `eqKey`" is the tuple that is hashed.  That the cached
    `_cache["hash"]` entry is not carried over by pickling (and need not be) is not modelled.
 5. pickle format: `__reduce__`/`__setstate__` are not modelled beyond "the five strings survive"; unpickling data NOT
    produced by pickling a URL (hand-made state) is outside C09.
 6. Eager values other than the four netloc entries do not exist in `encode_url`; if the library starts pre-computing
    more (e.g. `raw_path`), `NetPre` and this property must grow — the generated tables do not check this
    (no `Gen.` fact lists the keys `encode_url` writes into `_cache`).
-/

end Yarl
