import YarlProofs.C02Headline
import YarlProofs.C02HeadlineMore
import YarlProofs.C02HeadlineMore2
import YarlProofs.C02HeadlineMore3
import YarlProofs.C02HeadlineMore4
import YarlProofs.C02QueryStr
/-!
  C02HeadlineMore5.lean — AUDIT LAYER for property C02, fifth continuation of C02Headline.lean: headline theorems for the
  proof module added after the last refresh, C02QueryStr.lean (the STRING-argument forms of the query modifiers).  This
  file is a leaf, nobody imports it.  The GAPS block of C02Headline.lean (items 3, 6, 7, 8) cites the theorems of this
  file; the C12 half of the module is in C12HeadlineMore5.lean.

  C02 | Canonicalisation never changes what a URL means |
  "Auto-encoding preserves every decoded value: percent-decoding the canonical user, password, each path
  segment, each query key and value, and the fragment yields exactly the bytes obtained by percent-decoding
  (as UTF-8) the text that was supplied. Delimiter status is preserved too: an encoded '/' inside a path
  segment and encoded '&', '=', '+', ';' inside a query stay encoded, literal ones stay literal, so the number
  and boundaries of path segments and query pairs never change."

  What is here.  The three methods read a `str` argument in TWO ways (observed on the library, reproduced by the model):
      with_query("a=1%2B2")     stores  a=1%252B2      the string is TEXT: '%' is data; '+' '&' '=' ';' stay literal
      extend_query("a=1%2B2")   appends a=1%252B2      (same)
      update_query("a=1%2B2")   stores  a=1%2B2        the string is PARSED (`parse_qsl`), every key / value re-quoted
   * TEXT forms (with_query, extend_query): the exact stored text for EVERY string
     (`C02_headline_qstr_text_forms_stored`); decoded values piece by piece, '%' being data
     (`C02_headline_qstr_with_query_decoded_values`, `C02_headline_qstr_extend_query_decoded_values`); "literal '&' '='
     ';' '+' stay literal" — TRUE, as a split statement and position by position
     (`C02_headline_qstr_text_forms_literal_delims`).
   * PARSED form (update_query): decoded values and pair boundaries are preserved
     (`C02_headline_qstr_update_query_decoded_values`) — the bytes of the supplied text EXACTLY when every escape of it
     is valid UTF-8 (`C02_headline_qstr_update_query_bytes_iff_escapes_valid`); otherwise EF BF BD is stored: the clause
     is FALSE there (`C02_headline_qstr_update_query_fails_for_undecodable_escape`; KNOWN FINDING F-C02-query-replace,
     same root as F-C06-query-replace).
   * PARSED form, delimiter status: "literal ones stay literal" is FALSE for update_query(str) — in general
     (`C02_headline_qstr_update_query_delims_reencoded`: never a literal ';', exactly one literal '=' per stored piece)
     and on four calls (`C02_headline_qstr_update_query_literal_delims_fail`: '=' / ';' inside a value get ENCODED, a
     bare key GAINS '=', an empty '&'-piece DISAPPEARS).  Decoded values and pairs are the same; NOT in
     KNOWN_FINDINGS.jsonl as a C02 entry of its own.
   * the observed calls (`C02_headline_qstr_instances`) and the vocabulary spelled out (`C02_headline_qstr_vocabulary_def`).

  Vocabulary added by C02QueryStr.lean (namespace `R15`; all definitions to be read).
  `pieces s`        — the NON-EMPTY '&'-pieces of `s` (what `parse_qsl` turns into pairs; ';' is no separator).
  `keyText p`, `valText p` — the text of the piece `p` before / after its FIRST '=' (value "" when there is none).
  `ValidUtf8 bs`    — `bs` is the UTF-8 encoding of a Python string without lone surrogates.
  `EscapesValid s`  — for every piece of `s`, the form-decoded bytes of its key text and of its value text are `ValidUtf8`.
  `ex "q"`          — the URL http://h/?q of the examples.
  From earlier files: `q e A x` = the quoter `A` on backend `e.b`; `pctDecodeQs` = form-decoding to bytes ('+' → space,
  %XY → byte); `formDecode x` = `decodeReplace (pctDecodeQs x)`, the decoded TEXT with errors='replace'; `utf8s` = UTF-8
  bytes of a text (lone surrogates dropped); `plusToSpace`; `parseQsl` = `parse_qsl(keep_blank_values=True,
  errors='replace')`; `parseQslLit` = the LITERAL pairs of a text (no percent-decoding; C12More.lean); `mdUpdate` =
  `MultiDict.update` (C12); `queryPairs u` = `parseQsl u.query`; `GoodText s` = Python string without lone surrogates;
  `GoodPairs`; `btoks` / `BTok.lit` / `BTok.esc` = the byte tokens of a stored text (C02Tokens.lean); `stripTrail L` = `L`
  without an empty last piece; `partition 61 P` = split at the first '='; 38 '&', 61 '=', 59 ';', 43 '+', 37 '%', 32 ' '.
-/
set_option linter.unusedVariables false
namespace Yarl
open QsLemmas MdLemmas QueryUrl WfLemmas TokLemmas QsMore MeanMore QsSpec OutLangLemmas PathAlg PathLemmas R15

/-! ## `with_query(str)` / `extend_query(str)`: the string is TEXT -/

/-- the EXACT stored text, for EVERY string and every URL (no hypothesis): `with_query(<str>)` sets the query to
    `QUERY_QUOTER(s)` and moves nothing else; `extend_query(<str>)` does nothing when the string quotes to "", else appends
    the quoted string to the old query — after an "&" unless the old query is empty or already ends in "&".
    Cites C02_qstr_with_query_stored, C02_qstr_extend_query_stored. -/
theorem C02_headline_qstr_text_forms_stored (e : Env) (u : Url) (s : Str) :
    withQuery e u (.str s) = .ok (fromParts u.scheme u.netloc u.path (q e Gen.QUERY_QUOTER s) u.fragment) ∧
    extendQuery e u (.str s) = .ok
      (if q e Gen.QUERY_QUOTER s = [] then u
       else fromParts u.scheme u.netloc u.path
        (if u.query = [] then q e Gen.QUERY_QUOTER s
         else if u.query.getLast? = some 38 then u.query ++ q e Gen.QUERY_QUOTER s
         else u.query ++ [38] ++ q e Gen.QUERY_QUOTER s) u.fragment) :=
  ⟨C02_qstr_with_query_stored e u s, C02_qstr_extend_query_stored e u s⟩

/-- "percent-decoding … each query key and value … yields exactly the bytes … of the text that was supplied" and "the
    number and boundaries of … query pairs never change" for `with_query(<str>)`, every Python string: the stored query
    has exactly as many '&'-pieces as the supplied TEXT, and piece by piece — split at the first '=' — (form-decoded key,
    has '=', form-decoded value) of the stored piece are (UTF-8 bytes of the key text, has '=', UTF-8 bytes of the value
    text) of the supplied piece, a supplied '+' read as a space.  There is NO percent-decoding of the supplied text: the
    right-hand sides are `utf8s`, '%' is data ("%2B" is stored "%252B").  Cites C02_qstr_with_query_form_decoding. -/
theorem C02_headline_qstr_with_query_decoded_values (e : Env) (u : Url) (s : Str)
    (hs : PyStr s) :                     -- model artefact: code points of a Python string
    ∃ v, withQuery e u (.str s) = .ok v ∧ v.query = q e Gen.QUERY_QUOTER s ∧
      (splitOn 38 v.query).length = (splitOn 38 s).length ∧
      (splitOn 38 v.query).map (fun P =>
          (pctDecodeQs (partition 61 P).1, (partition 61 P).2.1, pctDecodeQs (partition 61 P).2.2)) =
        (splitOn 38 s).map (fun T =>
          (utf8s (plusToSpace (partition 61 T).1), (partition 61 T).2.1, utf8s (plusToSpace (partition 61 T).2.2))) ∧
      pctDecodeQs v.query = utf8s (plusToSpace s) :=
  C02_qstr_with_query_form_decoding e u s hs

/-- … the same for `extend_query(<str>)`: the OLD '&'-pieces are kept byte for byte (without the empty piece after a
    trailing '&'), followed by one piece per '&'-piece of the supplied TEXT with exactly its bytes; scheme, authority, path
    and fragment are untouched.  Cites C02_qstr_extend_query_form_decoding. -/
theorem C02_headline_qstr_extend_query_decoded_values (e : Env) (u : Url) (s : Str)
    (hs : GoodText s)                    -- Python string without lone surrogates (C02Headline.lean GAPS 5)
    (hne : s ≠ []) :                     -- extend_query("") changes nothing
    ∃ v, extendQuery e u (.str s) = .ok v ∧
      splitOn 38 v.query = stripTrail (splitOn 38 u.query) ++ (splitOn 38 s).map (q e Gen.QUERY_QUOTER) ∧
      ((splitOn 38 s).map (q e Gen.QUERY_QUOTER)).map (fun P =>
          (pctDecodeQs (partition 61 P).1, (partition 61 P).2.1, pctDecodeQs (partition 61 P).2.2)) =
        (splitOn 38 s).map (fun T =>
          (utf8s (plusToSpace (partition 61 T).1), (partition 61 T).2.1, utf8s (plusToSpace (partition 61 T).2.2))) ∧
      v.scheme = u.scheme ∧ v.netloc = u.netloc ∧ v.path = u.path ∧ v.fragment = u.fragment :=
  C02_qstr_extend_query_form_decoding e u s hs hne

/-- "literal ones stay literal" for the TEXT forms (the stored text of both is `QUERY_QUOTER` of the argument) — TRUE:
    (1) cutting at '&', '=' or ';' commutes with the quoter: the stored text has a literal delimiter exactly where the
    supplied text has one; (2) POSITION BY POSITION (one token per stored byte, an escape %XY being one token): a literal
    '&' / '=' / ';' sits exactly where the UTF-8 bytes of the supplied text have that byte, a literal '+' where they have
    '+' OR a space (the only change of spelling: a supplied space is stored '+', item 6), NO escape of a delimiter (%26 %3D
    %3B %2B) is ever written, and there are as many tokens as supplied bytes.
    Cites C02_qstr_literal_delims_split, C02_qstr_literal_delims_positions. -/
theorem C02_headline_qstr_text_forms_literal_delims (b : Backend) (s : Str) (hs : PyStr s) :
    (∀ d, d = 38 ∨ d = 61 ∨ d = 59 →
      splitOn d (Gen.QUERY_QUOTER.run b s) = (splitOn d s).map (Gen.QUERY_QUOTER.run b)) ∧
    (∀ d, d = 38 ∨ d = 61 ∨ d = 59 →
      (btoks (Gen.QUERY_QUOTER.run b s)).map (fun k => decide (k = .lit d)) = (utf8s s).map (fun x => decide (x = d))) ∧
    (btoks (Gen.QUERY_QUOTER.run b s)).map (fun k => decide (k = .lit 43)) =
      (utf8s s).map (fun x => decide (x = 43 ∨ x = 32)) ∧
    (∀ d, d = 38 ∨ d = 61 ∨ d = 59 ∨ d = 43 → BTok.esc d ∉ btoks (Gen.QUERY_QUOTER.run b s)) ∧
    (btoks (Gen.QUERY_QUOTER.run b s)).length = (utf8s s).length :=
  ⟨fun d hd => C02_qstr_literal_delims_split b s hs d hd, C02_qstr_literal_delims_positions b s hs⟩

/-! ## `update_query(str)` (and the `%` operator, which is the same call): the string is PARSED -/

/-- "preserves every decoded value … the number and boundaries of … query pairs never change" for `update_query(<str>)`,
    the half that HOLDS.  With `R` = `MultiDict(old pairs).update(parse_qsl(s))`: the stored query has exactly one
    '&'-piece per pair of `R`, that piece is `QUERY_PART_QUOTER(key) = QUERY_PART_QUOTER(value)` — the stored text is the
    re-quoted DECODED value —, each stored piece form-decodes to exactly (UTF-8 bytes of the key, has '=', UTF-8 bytes of
    the value) of its pair, the result reads back as `R`; every pair of `parse_qsl(s)` is in `R`, every other pair of `R`
    is an old pair; `parse_qsl(s)` has one pair per NON-EMPTY '&'-piece of `s` — with the form-decoded bytes of that
    piece's key / value text WHEN EVERY ESCAPE DECODES (`EscapesValid s`; exact: next theorem).
    Cites C02_qstr_update_preserves_values. -/
theorem C02_headline_qstr_update_query_decoded_values (e : Env) (u : Url) (s : Str)
    (hs : GoodText s)                    -- Python string without lone surrogates
    (hgu : GoodPairs (queryPairs u))     -- the OLD pairs are re-rendered too; true of every reachable URL (C12 GAPS 7, 9)
    (hne : parseQsl s ≠ []) :            -- the string has a non-empty '&'-piece
    ∃ v, updateQuery e u (.str s) = .ok v ∧
      let R := mdUpdate (queryPairs u) (parseQsl s)
      splitOn 38 v.query =
        R.map (fun p => q e Gen.QUERY_PART_QUOTER p.1 ++ [61] ++ q e Gen.QUERY_PART_QUOTER p.2) ∧
      (splitOn 38 v.query).length = R.length ∧
      (splitOn 38 v.query).map (fun P =>
          (pctDecodeQs (partition 61 P).1, (partition 61 P).2.1, pctDecodeQs (partition 61 P).2.2)) =
        R.map (fun p => (utf8s p.1, true, utf8s p.2)) ∧
      queryPairs v = R ∧
      (∀ p ∈ parseQsl s, p ∈ R) ∧ (∀ p ∈ R, p ∈ queryPairs u ∨ p ∈ parseQsl s) ∧
      (parseQsl s).length = (pieces s).length ∧
      (EscapesValid s →
        (parseQsl s).map (fun p => (utf8s p.1, utf8s p.2)) =
          (pieces s).map (fun p => (pctDecodeQs (keyText p), pctDecodeQs (valText p)))) ∧
      v.scheme = u.scheme ∧ v.netloc = u.netloc ∧ v.path = u.path ∧ v.fragment = u.fragment :=
  C02_qstr_update_preserves_values e u s hs hgu hne

/-- the hypothesis `EscapesValid` is EXACT: the pairs `update_query(<str>)` adds carry, key by key and value by value,
    exactly the form-decoded bytes of the supplied piece's key / value text IF AND ONLY IF every escape of the string
    decodes to well-formed UTF-8; and for a single text: `utf8s (formDecode x) = pctDecodeQs x ⟺ ValidUtf8 (pctDecodeQs
    x)`.  (Escapes ARE escapes here and '+' is a space; for the TEXT forms '%' is data.)
    Cites C02_qstr_parse_bytes_iff, C02_qstr_formDecode_exact_iff. -/
theorem C02_headline_qstr_update_query_bytes_iff_escapes_valid (s : Str) (hs : GoodText s) :
    ((parseQsl s).map (fun p => (utf8s p.1, utf8s p.2)) =
        (pieces s).map (fun p => (pctDecodeQs (keyText p), pctDecodeQs (valText p))) ↔ EscapesValid s) ∧
    (∀ x : Str, utf8s (formDecode x) = pctDecodeQs x ↔ ValidUtf8 (pctDecodeQs x)) :=
  ⟨C02_qstr_parse_bytes_iff s hs, C02_qstr_formDecode_exact_iff⟩

/-- "preserves every decoded value" is FALSE for `update_query(<str>)` when an escape is NOT valid UTF-8 — KNOWN FINDING
    F-C02-query-replace (same root as F-C06-query-replace: `parse_qsl(errors='replace')`).  (1) in general: for a key or
    value text `t ++ "%XY" ++ y` (`t` without '%' and '+') whose escape XY is a byte that occurs in no well-formed UTF-8
    sequence (C0, C1, F5..FF), the supplied text form-decodes to bytes containing XY, the decoded TEXT has U+FFFD there,
    and its bytes — EF BF BD, stored "%EF%BF%BD" on both backends — DIFFER from the supplied ones; (2) the library call
    `URL("http://h/").update_query("bad=%FF")` is http://h/?bad=%EF%BF%BD; (3) an OLD pair is rewritten too:
    `URL("http://h/?a=%FF").update_query("b=1")` is http://h/?a=%EF%BF%BD&b=1 (with_query / extend_query cannot
    produce the effect: for them '%' is data, theorems above; that the constructor keeps "%FF" is C02Headline.lean
    items 2 / 4, not restated here).  Cites C02_qstr_update_undecodable_escape, C02_qstr_update_replacement_stored,
    C02_qstr_instance_update_query_replace, C02_qstr_instance_update_query_rewrites_old. -/
theorem C02_headline_qstr_update_query_fails_for_undecodable_escape (e : Env) :
    (∀ (t y : Str) (b0 : Nat), GoodText t → 37 ∉ t → 43 ∉ t →
      ((0xC0 ≤ b0 ∧ b0 < 0xC2) ∨ (0xF5 ≤ b0 ∧ b0 < 256)) →
      pctDecodeQs (t ++ pct b0 ++ y) = utf8s t ++ b0 :: pctDecodeQs y ∧
      formDecode (t ++ pct b0 ++ y) = t ++ 0xFFFD :: formDecode y ∧
      utf8s (formDecode (t ++ pct b0 ++ y)) = utf8s t ++ [0xEF, 0xBF, 0xBD] ++ utf8s (formDecode y) ∧
      utf8s (formDecode (t ++ pct b0 ++ y)) ≠ pctDecodeQs (t ++ pct b0 ++ y)) ∧
    (utf8 0xFFFD = [0xEF, 0xBF, 0xBD] ∧ Gen.QUERY_PART_QUOTER.run e.b [0xFFFD] = "%EF%BF%BD".toStr) ∧
    (updateQuery e (ex "") (.str "bad=%FF".toStr) = .ok (ex "bad=%EF%BF%BD") ∧
      pctDecodeQs "%FF".toStr = [0xFF] ∧ pctDecodeQs "%EF%BF%BD".toStr = [0xEF, 0xBF, 0xBD] ∧
      ¬ EscapesValid "bad=%FF".toStr) ∧
    (updateQuery e (ex "a=%FF") (.str "b=1".toStr) = .ok (ex "a=%EF%BF%BD&b=1") ∧
      GoodPairs (queryPairs (ex "a=%FF"))) :=
  ⟨fun t y b0 ht h37 h43 hb => C02_qstr_update_undecodable_escape t y b0 ht h37 h43 hb,
   C02_qstr_update_replacement_stored e.b, C02_qstr_instance_update_query_replace e,
   C02_qstr_instance_update_query_rewrites_old e⟩

/-- "literal ones stay literal" FAILS for `update_query(<str>)`, GENERAL form (hypotheses as for the decoded values):
    whatever the string, NO literal ';' is stored, no stored '&'-piece contains an '&', and every stored '&'-piece has
    EXACTLY ONE literal '=' — so a literal ';' of the supplied string and every literal '=' after the first one of a piece
    is stored ENCODED (%3B / %3D), and a piece without '=' GAINS one.  This also holds for the OLD pieces (all are
    re-rendered).  Cites C02_qstr_update_delims_reencoded. -/
theorem C02_headline_qstr_update_query_delims_reencoded (e : Env) (u : Url) (s : Str) (hs : GoodText s)
    (hgu : GoodPairs (queryPairs u)) (hne : parseQsl s ≠ []) :
    ∃ v, updateQuery e u (.str s) = .ok v ∧
      59 ∉ v.query ∧ (∀ P ∈ splitOn 38 v.query, P.count 61 = 1 ∧ 38 ∉ P) :=
  C02_qstr_update_delims_reencoded e u s hs hgu hne

/-- … on four calls, every environment (decoded values and pairs are the same in each; `with_query` on the same strings
    keeps the delimiters literal):
    * `update_query("a=x=y")` stores "a=x%3Dy" (two literal '=' supplied, one stored; value "x=y" either way);
    * `update_query("s=a;b")` stores "s=a%3Bb" (the literal ';' is gone; value "a;b" either way);
    * `update_query("a")` stores "a=" (a literal '=' APPEARS) — `with_query("a")` stores "a";
    * `update_query("a=1&&b=2")` stores "a=1&b=2" (the empty '&'-piece is dropped; the PAIRS are the same two) —
      `with_query("a=1&&b=2")` keeps "a=1&&b=2".
    Cites C02_qstr_update_literal_delims_fail. -/
theorem C02_headline_qstr_update_query_literal_delims_fail (e : Env) :
    (updateQuery e (ex "") (.str "a=x=y".toStr) = .ok (ex "a=x%3Dy") ∧
      "a=x=y".toStr.count 61 = 2 ∧ "a=x%3Dy".toStr.count 61 = 1 ∧
      parseQsl "a=x=y".toStr = [("a".toStr, "x=y".toStr)] ∧ queryPairs (ex "a=x%3Dy") = [("a".toStr, "x=y".toStr)] ∧
      withQuery e (ex "") (.str "a=x=y".toStr) = .ok (ex "a=x=y")) ∧
    (updateQuery e (ex "") (.str "s=a;b".toStr) = .ok (ex "s=a%3Bb") ∧
      59 ∈ "s=a;b".toStr ∧ 59 ∉ "s=a%3Bb".toStr ∧
      parseQsl "s=a;b".toStr = [("s".toStr, "a;b".toStr)] ∧ queryPairs (ex "s=a%3Bb") = [("s".toStr, "a;b".toStr)] ∧
      withQuery e (ex "") (.str "s=a;b".toStr) = .ok (ex "s=a;b")) ∧
    (updateQuery e (ex "") (.str "a".toStr) = .ok (ex "a=") ∧
      withQuery e (ex "") (.str "a".toStr) = .ok (ex "a")) ∧
    (updateQuery e (ex "") (.str "a=1&&b=2".toStr) = .ok (ex "a=1&b=2") ∧
      withQuery e (ex "") (.str "a=1&&b=2".toStr) = .ok (ex "a=1&&b=2") ∧
      queryPairs (ex "a=1&b=2") = queryPairs (ex "a=1&&b=2")) :=
  C02_qstr_update_literal_delims_fail e

/-! ## the observed calls, and the vocabulary -/

/-- the calls of the header, every environment (`ex "q"` is http://h/?q):
    `URL("http://h/").with_query("a=1%2B2")` is http://h/?a=1%252B2 and reads back ("a", "1%2B2");
    `URL("http://h/?x=0").extend_query("a=1%2B2")` is http://h/?x=0&a=1%252B2;
    `URL("http://h/").update_query("a=1%2B2")` is http://h/?a=1%2B2 and reads back ("a", "1+2");
    `URL("http://h/").update_query("s=a%3Bb;c")` is http://h/?s=a%3Bb%3Bc — ONE pair, value "a;b;c".
    Cites C02_qstr_instance_with_query, _extend_query, _update_query, _update_query_semicolon. -/
theorem C02_headline_qstr_instances (e : Env) :
    (withQuery e (ex "") (.str "a=1%2B2".toStr) = .ok (ex "a=1%252B2") ∧
      queryPairs (ex "a=1%252B2") = [("a".toStr, "1%2B2".toStr)]) ∧
    (extendQuery e (ex "x=0") (.str "a=1%2B2".toStr) = .ok (ex "x=0&a=1%252B2") ∧
      queryPairs (ex "x=0&a=1%252B2") = [("x".toStr, "0".toStr), ("a".toStr, "1%2B2".toStr)]) ∧
    (updateQuery e (ex "") (.str "a=1%2B2".toStr) = .ok (ex "a=1%2B2") ∧
      queryPairs (ex "a=1%2B2") = [("a".toStr, "1+2".toStr)]) ∧
    (updateQuery e (ex "") (.str "s=a%3Bb;c".toStr) = .ok (ex "s=a%3Bb%3Bc") ∧
      parseQsl "s=a%3Bb;c".toStr = [("s".toStr, "a;b;c".toStr)] ∧
      queryPairs (ex "s=a%3Bb%3Bc") = [("s".toStr, "a;b;c".toStr)]) :=
  ⟨C02_qstr_instance_with_query e, C02_qstr_instance_extend_query e, C02_qstr_instance_update_query e,
   C02_qstr_instance_update_query_semicolon e⟩

/-- the vocabulary of the `update_query(str)` statements SPELLED OUT (definitional unfoldings, to be read) -/
theorem C02_headline_qstr_vocabulary_def (s p : Str) (bs : List Nat) (query : String) :
    pieces s = (splitOn 38 s).filter (fun p => p ≠ []) ∧
    keyText p = (partition 61 p).1 ∧ valText p = (partition 61 p).2.2 ∧
    (ValidUtf8 bs ↔ ∃ t : Str, GoodText t ∧ utf8s t = bs) ∧
    (EscapesValid s ↔ ∀ p ∈ pieces s, ValidUtf8 (pctDecodeQs (keyText p)) ∧ ValidUtf8 (pctDecodeQs (valText p))) ∧
    ex query = fromParts "http".toStr "h".toStr "/".toStr query.toStr [] :=
  ⟨rfl, rfl, rfl, Iff.rfl, Iff.rfl, rfl⟩

/-! ## non-vacuity -/

/-- the hypotheses of the `update_query(str)` theorems on a string with valid escapes (é, €), a '+', an escaped '+', a
    ';', an empty piece and a bare key; and on an old query with an invalid escape -/
example : GoodText sampleStr ∧ parseQsl sampleStr ≠ [] ∧ GoodPairs (queryPairs (ex "a=%FF&b=x+y")) := by decide +kernel

example : EscapesValid sampleStr :=
  ((C02_headline_qstr_update_query_bytes_iff_escapes_valid sampleStr (by decide +kernel)).1).mp (by decide +kernel)

example (e : Env) : ∃ v, updateQuery e (ex "a=%FF&b=x+y") (.str sampleStr) = .ok v ∧ 59 ∉ v.query := by
  obtain ⟨v, h1, h2, _⟩ := C02_headline_qstr_update_query_delims_reencoded e (ex "a=%FF&b=x+y") sampleStr
    (by decide +kernel) (by decide +kernel) (by decide +kernel)
  exact ⟨v, h1, h2⟩

end Yarl
