import YarlProofs.C05
import YarlProofs.Lemmas.WfLemmas
import YarlProofs.C19Quoter
import YarlProofs.C01Reach
/-!
  C05Headline.lean — AUDIT LAYER for property C05.

  C05 | Pure-Python and compiled quoters are interchangeable |
  "For every quoter and unquoter configuration the library uses and every input string, the pure-Python and the
  compiled implementation return identical results (or raise the same exception type), including for outputs that
  cross the compiled implementation's 8 KiB buffer-growth boundaries. Every URL-level result is therefore
  independent of whether the C extension is available (YARL_NO_EXTENSIONS)."

  Vocabulary.  `Backend` = `.py | .c`; `a.run b s` runs the generated configuration `a` (a `QArgs` from
  `Gen.allQuoters`, a `UArgs` from `Gen.allUnquoters`) on backend `b`.  The model functions for the two backends are
  transcriptions of `_quoting_py.py` and `_quoting_c.pyx` (YarlModel/Quote.lean, Unquote.lean).  An `Env` is a
  backend plus the oracles (`o`), so "independent of the C extension" reads `f ⟨.py, o⟩ … = f ⟨.c, o⟩ …`.
  `PyStr s`: every code point ≤ 0x10FFFF (lone surrogates allowed).  `DecLemmas.QArgPy a`: the texts inside a query
  argument are Python strings.
  `QuoteW.quoteCW n t faults s` (YarlModel/QuoteW.lean): `_Quoter._do_quote_or_skip` of `_quoting_c.pyx` transcribed
  statement by statement with every output character going through `Writer.writeChar` (`_write_char`) on a buffer of
  `n` bytes (static first, grown by `n` through PyMem_Malloc / PyMem_Realloc); `faults k = true` means the k-th
  growth request of the call is refused (→ MemoryError); the result is (outcome, final writer state).
  `QuoteW.unquoteCW n u faults s`: `_Unquoter._do_unquote` with its two inner `_Quoter` calls run through `quoteCW`.
  `a.tabC` = the table of configuration `a` on the compiled backend (`a.run .c s` is `quoteC a.tabC s` by definition);
  `cOut t x` = the characters the compiled loop writes for input `x`, `cChanged t x` = its final `changed` flag,
  `allSafe t x` = the fast path "every character is safe" (YarlModel/Quote.lean); `stripSurr` drops lone surrogates.

  Continued in C05HeadlineMore3.lean (URLs made through ALL entry points incl. `encoded=True`: GAPS 4; TypeError at the
  type gates of the URL methods, model level: GAPS 1).
-/
set_option linter.unusedVariables false
namespace Yarl

/-! ## Sentence 1a — "For every quoter and unquoter configuration the library uses and every input string, the
    pure-Python and the compiled implementation return identical results (or raise the same exception type)" -/

/-- "For every quoter … configuration the library uses and every input string, … identical results" -/
theorem C05_headline_quoters_agree (a : QArgs) (ha : a ∈ Gen.allQuoters) (s : Str)
    (hs : PyStr s) :   -- the model's `Str` also has non-Python code points; lone surrogates ARE covered (fix ff515b9)
    a.run .py s = a.run .c s :=
  C05_quote a ha s hs
-- Appendix E: C05_quote ↦ C05_quote (same name, same statement; `quote b q s` is now `q.run b s`).

/-- "For every … unquoter configuration … and every input string, … identical results" — holds for ANY unquoter
    keyword arguments and ANY list of code points. -/
theorem C05_headline_unquoters_agree (a : UArgs) (s : Str) : a.run .py s = a.run .c s :=
  C05_unquote_any a s
-- Appendix E: C05_unquote ↦ C05_unquote / C05_unquote_any (the hypotheses `u ∈ Gen.allUnquoters`, `PyStr s` turned
--             out to be unnecessary).

/-! ## Sentence 1b — "including for outputs that cross the compiled implementation's 8 KiB buffer-growth boundaries" -/

/-- "… outputs that cross the … 8 KiB buffer-growth boundaries": the compiled `Writer` (static buffer of `bufSize`
    bytes, grown by `bufSize` on the heap), when no allocation fails, returns exactly the bytes written, for every
    positive buffer size and in particular for the generated one, which is 8192. -/
theorem C05_headline_buffer_growth_invisible (cs : List Nat) :
    (∀ n, 0 < n → (Writer.run n (fun _ => false) cs).1 = .ok cs) ∧
    (Writer.run Gen.bufSize (fun _ => false) cs).1 = .ok cs ∧ Gen.bufSize = 8192 :=
  ⟨fun n hn => C05_writer n hn cs, C05_writer_gen cs, by decide⟩
-- Appendix E: C05_writer ↦ C05_writer (the fault oracle is `fun _ => false` = "no allocation fails"; the planned text
--             had `fun _ => true` with the opposite polarity; result is the first component of `Writer.run`).

/-- "… outputs that cross the … 8 KiB buffer-growth boundaries" for the compiled QUOTER ITSELF (closes GAPS 2): the
    interleaved loop of `_do_quote`, writing character by character through its writer, (1) IS `Writer.run` applied to
    the batch output `cOut` followed by the `changed` test, with literally the final writer state of `Writer.run` (fast
    path: no writer at all) — the statement "combining `QArgs.run .c` with `Writer.run`" GAPS 2 missed; (2) without a
    refused allocation returns what the pure-Python quoter returns, for EVERY buffer size `n` — so for outputs crossing
    any number of `k·n` boundaries — and (3) in particular at the generated size 8192.
    Cites C19_quoteCW_refines_run, C05_quoteCW_backend_any, C05_quoteCW_backend (C19Quoter.lean). -/
theorem C05_headline_buffer_growth_quoter_through_writer (a : QArgs) (ha : a ∈ Gen.allQuoters) (faults : Nat → Bool)
    (s : Str) (hs : PyStr s) :   -- model artefact, as in `C05_headline_quoters_agree`
    (∀ n,
      (allSafe a.tabC (stripSurr s) = true → QuoteW.quoteCW n a.tabC faults s = (.ok (stripSurr s), Writer.init n)) ∧
      (allSafe a.tabC (stripSurr s) = false →
        QuoteW.quoteCW n a.tabC faults s =
          ((Writer.run n faults (cOut a.tabC (stripSurr s))).1.map
              (fun d => if cChanged a.tabC (stripSurr s) then d else stripSurr s),
           (Writer.run n faults (cOut a.tabC (stripSurr s))).2))) ∧
    (∀ n, (∀ i, faults i = false) →     -- no allocation fails
      (QuoteW.quoteCW n a.tabC faults s).1 = .ok (a.run .py s)) ∧
    ((∀ i, faults i = false) → (QuoteW.quoteCW Gen.bufSize a.tabC faults s).1 = .ok (a.run .py s)) ∧
    Gen.bufSize = 8192 :=
  ⟨fun n => C19_quoteCW_refines_run n a.tabC faults s, fun n hf => C05_quoteCW_backend_any n a ha faults s hs hf,
   fun hf => C05_quoteCW_backend a ha faults s hs hf, by decide⟩

/-- the same for the compiled UNQUOTER (its only writer activity is two inner `_Quoter` calls per decoded character,
    each writing at most 12 characters — less than the static buffer): at the real buffer size it returns what the
    pure-Python unquoter returns under ANY allocation-fault pattern.  Cites C05_unquoteCW_backend (C19Quoter.lean). -/
theorem C05_headline_buffer_growth_unquoter_through_writer (a : UArgs) (ha : a ∈ Gen.allUnquoters)
    (faults : Nat → Bool) (s : Str) :
    QuoteW.unquoteCW Gen.bufSize (a.tab .c) faults s = .ok (a.run .py s) :=
  C05_unquoteCW_backend a ha faults s

/-! ## Sentence 1c — "(or raise the same exception type)" -/

/-- "(or raise the same exception type)" — what the model can say (GAPS 1, partly): the pure-Python quoter model is
    total; the compiled quoter through its writer returns the pure-Python result or raises MemoryError, nothing else;
    MemoryError exactly when the call leaves the fast path and a growth request its output length needs is refused
    (request `k` is needed iff the output has more than `(k+1)·8192` characters); never when the output fits the
    static buffer.  So the ONLY divergence is an out-of-memory condition of the compiled side (property C19).
    Cites C05_quoteCW_backend_fault, C19_quoteCW_fault_iff (C19Quoter.lean). -/
theorem C05_headline_exceptions_quoter (a : QArgs) (ha : a ∈ Gen.allQuoters) (faults : Nat → Bool) (s : Str)
    (hs : PyStr s) :   -- model artefact
    ((QuoteW.quoteCW Gen.bufSize a.tabC faults s).1 = .ok (a.run .py s) ∨
      (QuoteW.quoteCW Gen.bufSize a.tabC faults s).1 = .error .memoryError) ∧
    ((QuoteW.quoteCW Gen.bufSize a.tabC faults s).1 = .error .memoryError ↔
      allSafe a.tabC (stripSurr s) = false ∧
      ∃ k, (k + 1) * Gen.bufSize < (cOut a.tabC (stripSurr s)).length ∧ faults k = true) ∧
    ((cOut a.tabC (stripSurr s)).length ≤ Gen.bufSize →
      (QuoteW.quoteCW Gen.bufSize a.tabC faults s).1 = .ok (a.run .py s)) :=
  ⟨(C05_quoteCW_backend_fault a ha faults s hs).1, C19_quoteCW_fault_iff Gen.bufSize (by decide) a.tabC faults s,
   (C05_quoteCW_backend_fault a ha faults s hs).2⟩

/-! ## Sentence 2 — "Every URL-level result is therefore independent of whether the C extension is available" -/

/-- constructors: `URL(s)` (auto-encoding) and `URL.build(...)` (both modes) -/
theorem C05_headline_constructors_backend (o : Oracles) :
    (∀ s, PyStr s → encodeUrl ⟨.py, o⟩ s = encodeUrl ⟨.c, o⟩ s) ∧
    (∀ s, preEncodedUrl ⟨.py, o⟩ s = preEncodedUrl ⟨.c, o⟩ s) ∧
    (∀ a, DecLemmas.BuildArgsPy a → build ⟨.py, o⟩ a = build ⟨.c, o⟩ a) :=
  ⟨fun s hs => C05_encodeUrl_backend o s hs, fun _ => rfl, fun a ha => C05_build_backend o a ha⟩

/-- accessors and renderings: no hypothesis on the URL record at all -/
theorem C05_headline_accessors_backend (o : Oracles) (u : Url) :
    str ⟨.py, o⟩ u = str ⟨.c, o⟩ u ∧ humanRepr ⟨.py, o⟩ u = humanRepr ⟨.c, o⟩ u ∧
    authority ⟨.py, o⟩ u = authority ⟨.c, o⟩ u ∧
    user ⟨.py, o⟩ u = user ⟨.c, o⟩ u ∧ password ⟨.py, o⟩ u = password ⟨.c, o⟩ u ∧
    pathDecoded ⟨.py, o⟩ u = pathDecoded ⟨.c, o⟩ u ∧ pathSafe ⟨.py, o⟩ u = pathSafe ⟨.c, o⟩ u ∧
    queryString ⟨.py, o⟩ u = queryString ⟨.c, o⟩ u ∧ fragmentDecoded ⟨.py, o⟩ u = fragmentDecoded ⟨.c, o⟩ u ∧
    partsDecoded ⟨.py, o⟩ u = partsDecoded ⟨.c, o⟩ u ∧ name ⟨.py, o⟩ u = name ⟨.c, o⟩ u ∧
    suffix ⟨.py, o⟩ u = suffix ⟨.c, o⟩ u ∧ suffixes ⟨.py, o⟩ u = suffixes ⟨.c, o⟩ u ∧
    pathQs ⟨.py, o⟩ u = pathQs ⟨.c, o⟩ u ∧
    -- these never call a quoter (they read `e.o` only): true by unfolding
    host ⟨.py, o⟩ u = host ⟨.c, o⟩ u ∧ port ⟨.py, o⟩ u = port ⟨.c, o⟩ u ∧
    rawHost ⟨.py, o⟩ u = rawHost ⟨.c, o⟩ u ∧ rawUser ⟨.py, o⟩ u = rawUser ⟨.c, o⟩ u ∧
    rawPassword ⟨.py, o⟩ u = rawPassword ⟨.c, o⟩ u ∧ explicitPort ⟨.py, o⟩ u = explicitPort ⟨.c, o⟩ u := by
  obtain ⟨a1, a2, a3, a4, a5, a6, a7, a8, a9⟩ := C05_accessors_backend' o u
  exact ⟨C05_str_backend o u, C05_human_repr_backend o u, C05_authority_backend o u,
    (C05_userinfo_backend o u).1, (C05_userinfo_backend o u).2, a1, a2, a3, a4, a5, a6, a7, a8, a9,
    rfl, rfl, rfl, rfl, rfl, rfl⟩

/-- modifiers that existing theorems cover (text arguments are Python strings) -/
theorem C05_headline_modifiers_backend (o : Oracles) (u : Url) :
    (∀ p enc kq kf, PyStr p → withPath ⟨.py, o⟩ u p enc kq kf = withPath ⟨.c, o⟩ u p enc kq kf) ∧
    (∀ f, (∀ t, f = some t → PyStr t) → withFragment ⟨.py, o⟩ u f = withFragment ⟨.c, o⟩ u f) ∧
    (∀ n kq kf, PyStr n → withName ⟨.py, o⟩ u n kq kf = withName ⟨.c, o⟩ u n kq kf) ∧
    (∀ x kq kf, PyStr x → withSuffix ⟨.py, o⟩ u x kq kf = withSuffix ⟨.c, o⟩ u x kq kf) ∧
    (∀ ps enc, (∀ p ∈ ps, PyStr p) → makeChild ⟨.py, o⟩ u ps enc = makeChild ⟨.c, o⟩ u ps enc) ∧
    (∀ x, (∀ t, x = some t → PyStr t) → withUser ⟨.py, o⟩ u x = withUser ⟨.c, o⟩ u x) ∧
    (∀ x, (∀ t, x = some t → PyStr t) → withPassword ⟨.py, o⟩ u x = withPassword ⟨.c, o⟩ u x) ∧
    (∀ h, withHost ⟨.py, o⟩ u h = withHost ⟨.c, o⟩ u h) ∧
    (∀ p k, withPort ⟨.py, o⟩ u p k = withPort ⟨.c, o⟩ u p k) ∧
    (∀ a, DecLemmas.QArgPy a → withQuery ⟨.py, o⟩ u a = withQuery ⟨.c, o⟩ u a) ∧
    (∀ a, DecLemmas.QArgPy a → extendQuery ⟨.py, o⟩ u a = extendQuery ⟨.c, o⟩ u a) ∧
    origin ⟨.py, o⟩ u = origin ⟨.c, o⟩ u :=
  ⟨fun p enc kq kf hp => C05_with_path_backend o u p hp enc kq kf,
   fun f hf => C05_with_fragment_backend o u f hf,
   fun n kq kf hn => C05_with_name_backend o u n hn kq kf,
   fun x kq kf hx => C05_with_suffix_backend o u x hx kq kf,
   fun ps enc hp => C05_make_child_backend o u ps hp enc,
   fun x hx => C05_with_user_backend o u x hx, fun x hx => C05_with_password_backend o u x hx,
   fun h => (C05_with_host_port_backend o u h none 0).1, fun p k => (C05_with_host_port_backend o u [] p k).2,
   fun a ha => C05_with_query_backend_any o u a ha, fun a ha => C05_extend_query_backend o u a ha,
   C05_origin_backend o u⟩

/-! ### NEW — the entry points C05.lean did not cover (small gaps closed here) -/

namespace HeadA
open DecLemmas

theorem map_some_inj {x y : R Str} (h : x.map some = y.map some) : x = y := by
  cases x <;> cases y <;> simp_all [Except.map]

theorem iter_backend (items : List (Str × QItem)) (h : ∀ p ∈ items, PyStr p.1 ∧ DecLemmas.QItemPy p.2) :
    strQueryFromIterable .py items = strQueryFromIterable .c items := by
  cases items with
  | nil => rfl
  | cons x t => exact map_some_inj (by simpa [getStrQuery] using getStrQuery_backend (.pairs (x :: t)) h)

theorem seq_backend (items : List (Str × QItem)) (h : ∀ p ∈ items, PyStr p.1 ∧ DecLemmas.QItemPy p.2) :
    strQueryFromSeqIterable .py items = strQueryFromSeqIterable .c items := by
  cases items with
  | nil => rfl
  | cons x t => exact map_some_inj (by simpa [getStrQuery] using getStrQuery_backend (.mapping (x :: t)) h)

theorem strItems_py (ps : List (Str × Str)) (h : ∀ p ∈ ps, PyStr p.1 ∧ PyStr p.2) :
    ∀ p ∈ strItems ps, PyStr p.1 ∧ DecLemmas.QItemPy p.2 := by
  intro x hx
  simp only [strItems, List.mem_map] at hx
  obtain ⟨p, hp, rfl⟩ := hx
  exact ⟨(h p hp).1, (h p hp).2⟩

theorem md_py (u : Url) (hq : PyStr u.query) (new : List (Str × QItem))
    (hn : ∀ p ∈ new, PyStr p.1 ∧ DecLemmas.QItemPy p.2) :
    ∀ p ∈ mdUpdate (strItems (queryPairs u)) new, PyStr p.1 ∧ DecLemmas.QItemPy p.2 := by
  intro x hx
  rcases WfLemmas.mdUpdate_mem _ _ x hx with h | h
  · exact strItems_py _ (WfLemmas.parseQsl_pyStr _ hq) x h
  · exact hn x h
end HeadA

/-- NEW: `update_query`, `without_query_params` (stored query a Python string — true of every `WFUrl`),
    `with_scheme`, `join` (which never quotes), and the env-free `parent`, `relative` need no statement. -/
theorem C05_headline_remaining_modifiers_backend (o : Oracles) (u : Url) (hq : PyStr u.query) :
    (∀ a, DecLemmas.QArgPy a → updateQuery ⟨.py, o⟩ u a = updateQuery ⟨.c, o⟩ u a) ∧
    (∀ ns, withoutQueryParams ⟨.py, o⟩ u ns = withoutQueryParams ⟨.c, o⟩ u ns) ∧
    (∀ s, withScheme ⟨.py, o⟩ u s = withScheme ⟨.c, o⟩ u s) ∧
    (∀ r, join ⟨.py, o⟩ u r = join ⟨.c, o⟩ u r) := by
  refine ⟨?_, ?_, fun _ => rfl, fun _ => rfl⟩
  · intro a ha
    unfold updateQuery
    cases a with
    | str s =>
      simp only
      split
      · rfl
      · rw [HeadA.iter_backend _ (HeadA.md_py u hq _ (HeadA.strItems_py _ (WfLemmas.parseQsl_pyStr s ha)))]
    | mapping items =>
      simp only
      split
      · rfl
      · rw [HeadA.seq_backend _ (HeadA.md_py u hq _ ha)]
    | pairs items =>
      simp only
      split
      · rfl
      · rw [HeadA.iter_backend _ (HeadA.md_py u hq _ ha)]
    | none => rfl
    | bytes e => rfl
    | other => rfl
    | noArgs => rfl
  · intro ns
    unfold withoutQueryParams
    simp only
    split
    · rfl
    · exact C05_with_query_backend_any o u _ (HeadA.strItems_py _ (fun p hp =>
        WfLemmas.parseQsl_pyStr _ hq p (List.mem_filter.mp hp).1))

/-- the same for every URL the auto-encoding API produces (closes GAPS 4): the hypothesis `PyStr u.query` of
    `C05_headline_remaining_modifiers_backend` follows from reachability (`Reach`, C01Reach.lean: constructor, build,
    the 19 operations, join — on EITHER backend `b`), because the stored query of a reachable URL is QUERY_REQUOTER
    output.  NEW composition with C01_reachable_wf (C01Reach.lean) and WfLemmas.outLang_pyStr. -/
theorem C05_headline_remaining_modifiers_backend_reachable (b : Backend) (o : Oracles) (u : Url)
    (hreach : Reach ⟨b, o⟩ u) :
    (∀ a, DecLemmas.QArgPy a → updateQuery ⟨.py, o⟩ u a = updateQuery ⟨.c, o⟩ u a) ∧
    (∀ ns, withoutQueryParams ⟨.py, o⟩ u ns = withoutQueryParams ⟨.c, o⟩ u ns) ∧
    (∀ s, withScheme ⟨.py, o⟩ u s = withScheme ⟨.c, o⟩ u s) ∧
    (∀ r, join ⟨.py, o⟩ u r = join ⟨.c, o⟩ u r) :=
  C05_headline_remaining_modifiers_backend o u
    (WfLemmas.outLang_pyStr (by decide : Gen.QUERY_REQUOTER ∈ Gen.allQuoters) b (C01_reachable_wf ⟨b, o⟩ u hreach).query)

/-! ## non-vacuity -/

example : Gen.PATH_REQUOTER.run .py DecLemmas.sampleText = Gen.PATH_REQUOTER.run .c DecLemmas.sampleText :=
  C05_headline_quoters_agree _ (by decide) _ (by decide)

/-- 6000 spaces quote to 18000 characters (two growths: the malloc at 8192, the realloc at 16384): with no refused
    allocation the compiled quoter through its writer returns the pure-Python result … -/
example : (QuoteW.quoteCW Gen.bufSize Gen.PATH_QUOTER.tabC (fun _ => false) (List.replicate 6000 32)).1 =
    .ok (Gen.PATH_QUOTER.run .py (List.replicate 6000 32)) :=
  (C05_headline_buffer_growth_quoter_through_writer _ (by decide) _ _
    (by intro c hc; rw [List.eq_of_mem_replicate hc]; decide)).2.2.1 (fun _ => rfl)

/-- … and with the realloc (request 1) refused it raises MemoryError, by the "iff" of `C05_headline_exceptions_quoter` -/
example : (QuoteW.quoteCW Gen.bufSize Gen.PATH_QUOTER.tabC (fun i => i == 1) (List.replicate 6000 32)).1 =
    .error .memoryError :=
  (C05_headline_exceptions_quoter Gen.PATH_QUOTER (by decide) _ _
    (by intro c hc; rw [List.eq_of_mem_replicate hc]; decide)).2.1.mpr
    ⟨(exSpaces 5999).1, 1, by rw [(exSpaces 5999).2]; decide, rfl⟩

/-
GAPS:
 1. PARTLY CLOSED by C05_quoteCW_backend_fault, C19_quoteCW_fault_iff (C19Quoter.lean), see
    C05_headline_exceptions_quoter (and C05_headline_buffer_growth_unquoter_through_writer for the unquoter, which
    cannot fail).  Proved: the compiled quoter executed through its writer returns the pure-Python result or raises
    MemoryError, and MemoryError exactly when a growth request that the output length needs is refused; the
    pure-Python model never raises.  STILL OPEN: the quoter / unquoter models `a.run` are TOTAL functions on lists of
    code points; the other exception of the real implementations (TypeError for a non-str argument) is outside
    `a.run` and `quoteCW`, so no theorem compares it across the two backends.
    (Added at the More3 refresh — sharpened at URL level, MODEL level only: YarlModel/Dyn.lean now transcribes the type
    gates of the URL methods on an arbitrary Python object, and C19_dyn_type_errors (C19Dyn.lean) gives the exact
    TypeError condition as a property of the object alone; see C05_headline_type_gates_backend (C05HeadlineMore3.lean):
    with_scheme / with_user / with_password / with_host / with_port / with_fragment / with_name / with_suffix / join / `/`
    reject an object with TypeError on the pure-Python backend exactly when they do on the compiled one.  The dynamic
    layer is tied to CPython by a run-time probe table (run on both quoter backends), not by proof.  On arguments of
    the documented types the dynamic entry points ARE the typed functions (C19_dyn_agrees_on_typed, by `rfl`), so the
    URL-level theorems of this file apply to them.  NOT covered by a backend comparison: the constructor gate, the
    query methods (YarlModel/Dyn.lean, `keyStr`, models `quoter(key)` — TypeError for a non-str key, `None` passed
    through — by ONE function for both backends, by construction; the C12Dyn.lean theorems about it hold for every
    `e` but state no backend comparison), `with_path` / `joinpath` (no type gate), and — unchanged — the quoters' own
    TypeError.)
 2. CLOSED by C19_quoteCW_refines_run, C05_quoteCW_backend_any, C05_quoteCW_backend, C05_unquoteCW_backend
    (C19Quoter.lean, over the new model file YarlModel/QuoteW.lean), see
    C05_headline_buffer_growth_quoter_through_writer, C05_headline_buffer_growth_unquoter_through_writer.  Proved: the
    compiled quoter transcribed statement by statement THROUGH `Writer.writeChar` equals `Writer.run` on the batch
    output (slow path) and, when no allocation is refused, returns `a.run .py s` for every generated configuration,
    every Python string and EVERY buffer size (hence across any number of 8192-byte boundaries; instance with an
    18000-character output in the non-vacuity block).  What remains by construction: `QuoteW.quoteCW` is itself a
    transcription of `_quoting_c.pyx` (trusted like the other model files); `a.run .c` is still the batch function
    `quoteC`, related to `quoteCW` by these theorems.
 3. URL level — now covered: constructors (both), build, every accessor of YarlModel/Url.lean, str, human_repr, all
    modifiers incl. update_query / without_query_params / with_scheme / join (last four NEW here).  Still without a
    backend theorem: the cached layer (YarlModel/Cache.lean — C08/C20 treat it for an arbitrary pure semantics, hence
    for either backend), comparison / hashing (env-free, trivially equal), and `QArg` kinds with non-Python
    texts (excluded by `QArgPy`).
 4. CLOSED, see C05_headline_remaining_modifiers_backend_reachable (NEW composition with C01_reachable_wf,
    C01Reach.lean): for every URL reachable through the auto-encoding API (on either backend) `PyStr u.query` holds,
    so update_query / without_query_params / with_scheme / join agree on the two backends without further
    hypothesis.  (Records made with `encoded=True` are outside `Reach`; for them the hypothesis `PyStr u.query` of
    C05_headline_remaining_modifiers_backend stays.)
    That remainder is now CLOSED by C01_reachE_components_python (C01ReachE.lean, over ReachE.lean), see
    C05_headline_remaining_modifiers_backend_all_entry_points (C05HeadlineMore3.lean).  Proved: for every URL in
    `ReachE` — the closure of ALL entry points of the model: `URL(s)`, `URL(s, encoded=True)`, `URL.build` in both modes,
    the operations, `with_path(…, encoded=True)`, `joinpath(…, encoded=True)`, `join`; made on either backend —
    `PyStr u.query` holds, so update_query / without_query_params / with_scheme / join agree on the two backends without
    a hypothesis on the record.  Hypotheses: those built into `ReachE` — every text handed to an entry point is a
    Python string (`PyStr`, `BuildAllPy`, `UOp.ArgsPy`), query arguments satisfy `QArgPy`.  Not an entry point of
    `ReachE`: the model artefact `UOp.joinRef` with an arbitrary record (a `join` reference must itself be `ReachE`),
    and records that no entry point produces (e.g. unpickled from a tampered state): for those the hypothesis stays.
 5. The oracles (`o`: IDNA, NFKC, isprintable, …) are shared by both sides by construction: "independent of the C
    extension" is proved for equal oracle answers, which is right because none of them lives in the C extension.
-/

end Yarl
