import YarlProofs.C18More2
/-!
# C18More3 — C18 gap closing, third wave: the '%' escape and the non-printable escapes, UNIVERSALLY (GAPS 6, 10)

"Only characters that would change the parse in their position, '%' and non-printable characters are escaped."
C18More2.lean classified '%' on three witness texts and the non-printable characters on a sample, by computation with an
instrumented copy `R5.humanReprLit` of `human_repr()`.  Here the statements are universal.  Companion files:
C18More3b.lean (the '%' rule at URL level in BOTH directions), C18More3Join.lean (+ C18More3JoinB.lean: `join`, GAPS 2(e)),
C18More3Spell.lean (syntactic characterisation of the spelling conditions, GAPS 9).

Vocabulary (namespace `R12`).  `twoHex s`: `s` starts with two hex digits (either case).  `R5.humanQuoteLit o x uns lit`:
`human_quote(x, unsafe=uns)` with the characters selected by `lit` left literal.  `LitChars uns lit x`: every selected
character of `x` is none of TAB / LF / CR and not in `uns`.  `PctOK lit x`: no selected '%' of `x` is followed (in `x`) by
two hex digits.  `LitOK = LitChars ∧ PctOK`.  `textsAt comp …`: the decoded texts in position `comp` ("user", "password",
"path", "k", "v", "fragment"); `LitSafeAt comp lit …`: `LitOK` for all of them (decidable).  `LitCompat t t' uns`: the table
facts (decided on the generated tables: `gen_litCompat`).

Component level (requoter vs quoter of each position kind; both backends):
* `C18_percent_literal_iff` — ONE '%' of the decoded text `x ++ "%" ++ y` left literal: REQUOTER(shown) = QUOTER(decoded)
  IFF the '%' is not followed by two hex digits (`R12.cOut_one_pct_iff`: compositional form at table level);
* `C18_percent_literal_all_iff` — every '%' (any admissible `lit`) left literal: … IFF `PctOK lit x`
  (`R12.cOut_lit_iff`; the two halves are `R12.cOut_lit_append` — compositional spelling — and `R12.cOut_lit_lt` — the
  requoted text is strictly SHORTER otherwise);
* `C18_percent_literal_decoded` — decoded level, direction "not needed"; `C18_percent_literal_decoded_converse_fails` —
  the converse is FALSE at the decoded level ("%FF": the stored component differs, the decoded accessor does not).
URL level (`u` ANY URL with `StoresOK`; `R5.humanReprLit`):
* `C18_humanReprLit_none` — the instrumented copy IS `human_repr()` when nothing is literal, for every URL (GAPS 10);
* `C18_literal_roundtrip` — the general theorem: `LitSafeAt` ⟹ `URL(shown) == u`, and it stores the same components;
* `C18_nonprintable_literal_roundtrip` — EVERY set of non-printable characters other than TAB / LF / CR may be left literal
  in any position; `C18_tab_lf_cr_dropped` — the converse for TAB / LF / CR, for every input string;
* `C18_percent_literal_roundtrip` — the '%' rule, direction "not needed" (all six positions);
  `C18_percent_literal_url_iff` (C18More3b.lean) — both directions for path / k / v / fragment.
-/
set_option linter.unusedVariables false
set_option linter.unusedSimpArgs false
namespace Yarl
open HumanLemmas HumanFull HumanMore HumanRelax QueryUrl QsLemmas NetlocLemmas PathAlg PathLemmas PathMore HumanReach
open OutLangLemmas R5

namespace R12

/-! ## hex look-ahead -/

/-- the text starts with two hex digits (either case): a '%' in front of it is read as an escape -/
def twoHex : Str → Bool
  | h1 :: h2 :: _ => (fromHex h1).isSome && (fromHex h2).isSome
  | _ => false

theorem takeEscape_none_iff (s : Str) : takeEscape restoreCh s = none ↔ twoHex s = false := by
  match s with
  | [] => simp [takeEscape, twoHex]
  | [a] => simp [takeEscape, twoHex]
  | a :: b :: r =>
    simp only [takeEscape, restoreCh, twoHex]
    cases fromHex a <;> cases fromHex b <;> simp

theorem takeEscape_of_twoHex {s : Str} (h : twoHex s = true) :
    ∃ v d1 d2 r, s = d1 :: d2 :: r ∧ (fromHex d1).isSome ∧ (fromHex d2).isSome ∧
      takeEscape restoreCh s = some (v, d1, d2, r) := by
  match s, h with
  | a :: b :: r, h =>
    simp only [twoHex, Bool.and_eq_true] at h
    obtain ⟨x, hx⟩ := Option.isSome_iff_exists.mp h.1
    obtain ⟨y, hy⟩ := Option.isSome_iff_exists.mp h.2
    exact ⟨x * 16 + y, a, b, r, rfl, h.1, h.2, by simp [takeEscape, restoreCh, hx, hy]⟩

/-- what follows does not start with a hex digit (so it cannot complete an escape that a literal '%' began) -/
def NH (r : Str) : Prop := ∀ c, r.head? = some c → fromHex c = none

theorem nh_nil : NH [] := fun c h => by cases h
theorem nh_cons {c : Nat} (h : fromHex c = none) (r : Str) : NH (c :: r) := fun d hd => by
  simp at hd; subst hd; exact h

theorem hex_range {c : Nat} (h : (fromHex c).isSome) : 48 ≤ c ∧ c ≤ 102 := by
  unfold fromHex at h
  split at h
  · omega
  · split at h
    · omega
    · split at h
      · omega
      · simp at h

/-! ## `human_quote` with some characters left literal, one character at a time -/

/-- what `humanQuoteLit` does with one character -/
def litChar (o : Oracles) (uns : Str) (lit : Nat → Bool) (c : Nat) : R Str :=
  if lit c then pure [c] else hqChar o uns c

theorem humanQuoteLit_eq (o : Oracles) (s uns : Str) (lit : Nat → Bool) :
    humanQuoteLit o s uns lit = (do let parts ← s.mapM (litChar o uns lit); pure parts.flatten) := rfl

theorem humanQuoteLit_nil (o : Oracles) (uns : Str) (lit : Nat → Bool) : humanQuoteLit o [] uns lit = .ok [] := rfl

theorem humanQuoteLit_cons (o : Oracles) (uns : Str) (lit : Nat → Bool) (c : Nat) (s r : Str) :
    humanQuoteLit o (c :: s) uns lit = .ok r ↔
      ∃ p r', litChar o uns lit c = .ok p ∧ humanQuoteLit o s uns lit = .ok r' ∧ r = p ++ r' := by
  rw [humanQuoteLit_eq, humanQuoteLit_eq, List.mapM_cons]
  cases h1 : litChar o uns lit c with
  | error e => simp [bind, Except.bind]
  | ok p =>
    cases h2 : List.mapM (litChar o uns lit) s with
    | error e => simp [bind, Except.bind]
    | ok ps =>
      simp only [bind, Except.bind, pure, Except.pure, List.flatten_cons, Except.ok.injEq]
      constructor
      · intro h; exact ⟨p, ps.flatten, rfl, rfl, h.symm⟩
      · rintro ⟨p', r', rfl, rfl, rfl⟩; rfl

/-- with nothing left literal it is `human_quote` -/
theorem humanQuoteLit_false (o : Oracles) (s uns : Str) : humanQuoteLit o s uns (fun _ => false) = humanQuote o s uns := rfl

/-- the characters left literal are none of TAB, LF, CR and none of the characters unsafe in the position -/
def LitChars (uns : Str) (lit : Nat → Bool) (x : Str) : Prop :=
  ∀ c ∈ x, lit c = true → c ≠ 9 ∧ c ≠ 10 ∧ c ≠ 13 ∧ mem c uns = false

/-- every '%' left literal is NOT followed (in the decoded text) by two hex digits -/
def PctOK (lit : Nat → Bool) : Str → Prop
  | [] => True
  | c :: s => (lit c = true → c = 37 → twoHex s = false) ∧ PctOK lit s

instance (lit : Nat → Bool) : (x : Str) → Decidable (PctOK lit x)
  | [] => isTrue trivial
  | c :: s => by
    unfold PctOK
    have := instDecidablePctOK lit s
    infer_instance

instance (uns : Str) (lit : Nat → Bool) (x : Str) : Decidable (LitChars uns lit x) := by
  unfold LitChars; infer_instance

theorem litChars_tail {uns : Str} {lit : Nat → Bool} {c : Nat} {s : Str} (h : LitChars uns lit (c :: s)) :
    LitChars uns lit s := fun d hd => h d (by simp [hd])

theorem litChars_false (uns x : Str) : LitChars uns (fun _ => false) x := fun c _ h => by cases h
theorem pctOK_false : ∀ x : Str, PctOK (fun _ => false) x
  | [] => trivial
  | c :: s => ⟨fun h => (by cases h), pctOK_false s⟩

/-- the table facts needed on top of `HumanCompat`: characters that are not unsafe in the position are written the
    same way by the requoting and the non-requoting table (so a literal one is read as itself), and no hex digit is
    unsafe (so the two characters after a '%' are shown as they are) -/
structure LitCompat (t t' : QTab) (uns : Str) : Prop where
  hc : HumanCompat t t' uns
  lit : ∀ c, c < 128 → c ≠ 37 → mem c uns = false → cWriteOut t c = cWriteOut t' c
  hex : ∀ c ∈ uns, fromHex c = none

/-- the shape of one piece -/
theorem litChar_head {o : Oracles} {uns : Str} {lit : Nat → Bool} {c : Nat} {p : Str}
    (hex : ∀ c ∈ uns, fromHex c = none) (hc : c ≤ 0x10FFFF) (hs : isSurrogate c = false)
    (h : litChar o uns lit c = .ok p) :
    ((fromHex c).isSome → p = [c]) ∧ (fromHex c = none → ∃ d rest, p = d :: rest ∧ fromHex d = none) := by
  unfold litChar at h
  by_cases hl : lit c = true
  · rw [if_pos hl] at h
    cases h
    exact ⟨fun _ => rfl, fun hn => ⟨c, [], rfl, hn⟩⟩
  · rw [if_neg hl] at h
    have h37 : fromHex 37 = none := by decide
    cases hqChar_ok h with
    | esc h1 hp =>
      subst hp
      refine ⟨fun hx => ?_, fun _ => ⟨37, _, rfl, h37⟩⟩
      rcases h1 with rfl | h1
      · rw [h37] at hx; cases hx
      · rw [hex c (GenTabs.mem_iff.mp h1)] at hx; cases hx
    | shown _ _ _ hp => subst hp; exact ⟨fun _ => rfl, fun hn => ⟨c, [], rfl, hn⟩⟩
    | hidden _ _ hpr hsur hp =>
      subst hp
      constructor
      · intro hx
        have hr := hex_range hx
        rw [isPrintableChar_ascii o (by omega)] at hpr
        simp only [Except.ok.injEq, Bool.and_eq_false_iff, decide_eq_false_iff_not] at hpr
        omega
      · intro _
        have := QuoteEquiv.utf8_ne_nil hc hsur
        cases hu : utf8 c with
        | nil => rw [hu] at this; cases this
        | cons b bs => exact ⟨37, toHex (b / 16) :: toHex (b % 16) :: bs.flatMap pct, by simp [pct], h37⟩

/-- a '%' in front of a text that does not start with two hex digits, shown with literals, starts no escape -/
theorem noesc_lit {o : Oracles} {uns : Str} {lit : Nat → Bool} (hex : ∀ c ∈ uns, fromHex c = none)
    {s X : Str} (hs : PyStr s) (hn : NoSurrogate s) (h : humanQuoteLit o s uns lit = .ok X)
    (h2 : twoHex s = false) {r : Str} (hr : NH r) : takeEscape restoreCh (X ++ r) = none := by
  have tail : ∀ r : Str, NH r → takeEscape restoreCh r = none := by
    intro r hr
    cases r with
    | nil => rfl
    | cons c r' => exact te_dot c (hr c rfl) r'
  cases s with
  | nil => rw [humanQuoteLit_nil] at h; cases h; exact tail r hr
  | cons c s' =>
    obtain ⟨p, X', hp, hX', rfl⟩ := (humanQuoteLit_cons o uns lit c s' X).mp h
    obtain ⟨k1, k2⟩ := litChar_head hex (hs c (by simp)) (hn c (by simp)) hp
    cases hc : fromHex c with
    | none =>
      obtain ⟨d, rest, rfl, hd⟩ := k2 hc
      exact te_dot d hd _
    | some v =>
      rw [k1 (by rw [hc]; rfl)]
      cases s' with
      | nil =>
        rw [humanQuoteLit_nil] at hX'; cases hX'
        cases r with
        | nil => rfl
        | cons d r' => exact te_one_dot d (hr d rfl) c r'
      | cons c2 s'' =>
        obtain ⟨p2, X'', hp2, hX'', rfl⟩ := (humanQuoteLit_cons o uns lit c2 s'' X').mp hX'
        obtain ⟨_, m2⟩ := litChar_head hex (hs c2 (by simp)) (hn c2 (by simp)) hp2
        have hc2 : fromHex c2 = none := by
          simp only [twoHex, hc, Option.isSome_some, Bool.true_and] at h2
          cases hx : fromHex c2 with
          | none => rfl
          | some w => rw [hx] at h2; cases h2
        obtain ⟨d, rest, rfl, hd⟩ := m2 hc2
        exact te_one_dot d hd c _

/-! ## characters of the shown text (no tables involved) -/

theorem litChar_mem {o : Oracles} {uns : Str} {lit : Nat → Bool} {c : Nat} {p : Str}
    (hu : ∀ c ∈ uns, c < 128) (hc : c ≤ 0x10FFFF)
    (hl : lit c = true → c ≠ 9 ∧ c ≠ 10 ∧ c ≠ 13 ∧ mem c uns = false)
    (h : litChar o uns lit c = .ok p) :
    ∀ d ∈ p, d = 37 ∨ isUpperHexDigit d = true ∨ (d = c ∧ mem d uns = false ∧ d ≠ 9 ∧ d ≠ 10 ∧ d ≠ 13) := by
  unfold litChar at h
  by_cases hlc : lit c = true
  · rw [if_pos hlc] at h; cases h
    intro d hd
    simp only [List.mem_cons, List.not_mem_nil, or_false] at hd
    subst hd
    obtain ⟨a1, a2, a3, a4⟩ := hl hlc
    exact Or.inr (Or.inr ⟨rfl, a4, a1, a2, a3⟩)
  · rw [if_neg hlc] at h
    intro d hd
    cases hqChar_ok h with
    | esc h1 hp =>
      subst hp
      have hlt : c < 128 := by
        rcases h1 with rfl | h1
        · omega
        · exact hu c (GenTabs.mem_iff.mp h1)
      rcases pct_chars c (by omega) d hd with h | h
      · exact Or.inl h
      · exact Or.inr (Or.inl h)
    | shown h37 hm hpr hp =>
      subst hp
      simp only [List.mem_cons, List.not_mem_nil, or_false] at hd
      subst hd
      refine Or.inr (Or.inr ⟨rfl, hm, ?_⟩)
      by_cases hlt : d < 128
      · rw [isPrintableChar_ascii o hlt] at hpr
        simp only [Except.ok.injEq, Bool.and_eq_true, decide_eq_true_eq] at hpr
        omega
      · omega
    | hidden _ _ _ _ hp =>
      subst hp
      rw [List.mem_flatMap] at hd
      obtain ⟨b, hb, hd⟩ := hd
      rcases pct_chars b (utf8_byte_lt c hc b hb) d hd with h | h
      · exact Or.inl h
      · exact Or.inr (Or.inl h)

/-- every character of the shown text is '%', an upper-case hex digit, or a character of the decoded text that is not
    unsafe in the position and none of TAB, LF, CR -/
theorem lit_mem_cases {o : Oracles} {uns : Str} {lit : Nat → Bool} (hu : ∀ c ∈ uns, c < 128) :
    ∀ (x X : Str), PyStr x → humanQuoteLit o x uns lit = .ok X → LitChars uns lit x →
      ∀ d ∈ X, d = 37 ∨ isUpperHexDigit d = true ∨ (d ∈ x ∧ mem d uns = false ∧ d ≠ 9 ∧ d ≠ 10 ∧ d ≠ 13) := by
  intro x
  induction x with
  | nil => intro X _ h _ d hd; rw [humanQuoteLit_nil] at h; cases h; cases hd
  | cons c s ih =>
    intro X hs h hl d hd
    obtain ⟨p, X', hp, hX', rfl⟩ := (humanQuoteLit_cons o uns lit c s X).mp h
    rw [List.mem_append] at hd
    rcases hd with hd | hd
    · rcases litChar_mem hu (hs c (by simp)) (hl c (by simp)) hp d hd with h | h | ⟨h1, h2⟩
      · exact Or.inl h
      · exact Or.inr (Or.inl h)
      · exact Or.inr (Or.inr ⟨by simp [h1], h2⟩)
    · rcases ih X' (fun y hy => hs y (by simp [hy])) hX' (litChars_tail hl) d hd with h | h | ⟨h1, h2⟩
      · exact Or.inl h
      · exact Or.inr (Or.inl h)
      · exact Or.inr (Or.inr ⟨by simp [h1], h2⟩)

/-- a character that is unsafe in the position, or TAB / LF / CR, never appears literally -/
theorem lit_avoid {o : Oracles} {uns : Str} {lit : Nat → Bool} (hu : ∀ c ∈ uns, c < 128)
    {x X : Str} (hs : PyStr x) (h : humanQuoteLit o x uns lit = .ok X) (hl : LitChars uns lit x)
    {d : Nat} (h37 : d ≠ 37) (hx : isUpperHexDigit d = false)
    (hbad : mem d uns = true ∨ d = 9 ∨ d = 10 ∨ d = 13) : d ∉ X := by
  intro hm
  rcases lit_mem_cases hu x X hs h hl d hm with h1 | h1 | ⟨_, h3, h4, h5, h6⟩
  · exact h37 h1
  · rw [hx] at h1; cases h1
  · rcases hbad with hb | hb | hb | hb
    · rw [h3] at hb; cases hb
    · exact h4 hb
    · exact h5 hb
    · exact h6 hb

theorem upperHex_lt {d : Nat} (h : isUpperHexDigit d = true) : d < 128 := by
  unfold isUpperHexDigit at h
  simp only [Bool.or_eq_true, Bool.and_eq_true, decide_eq_true_eq] at h
  omega

theorem lit_pyStr {o : Oracles} {uns : Str} {lit : Nat → Bool} (hu : ∀ c ∈ uns, c < 128)
    {x X : Str} (hs : PyStr x) (hn : NoSurrogate x) (h : humanQuoteLit o x uns lit = .ok X)
    (hl : LitChars uns lit x) : PyStr X ∧ NoSurrogate X := by
  have key : ∀ d ∈ X, d < 128 ∨ d ∈ x := by
    intro d hd
    rcases lit_mem_cases hu x X hs h hl d hd with h1 | h1 | ⟨h1, _⟩
    · exact Or.inl (by omega)
    · exact Or.inl (upperHex_lt h1)
    · exact Or.inr h1
  constructor
  · intro d hd
    rcases key d hd with h | h
    · show d ≤ 0x10FFFF; omega
    · exact hs d h
  · intro d hd
    rcases key d hd with h | h
    · unfold isSurrogate
      simp only [Bool.and_eq_false_iff, decide_eq_false_iff_not]
      omega
    · exact hn d h

theorem lit_ne_nil {o : Oracles} {uns : Str} {lit : Nat → Bool} (hex : ∀ c ∈ uns, fromHex c = none)
    {x X : Str} (hs : PyStr x) (hn : NoSurrogate x) (h0 : x ≠ [])
    (h : humanQuoteLit o x uns lit = .ok X) : X ≠ [] := by
  obtain ⟨c, s, rfl⟩ := List.exists_cons_of_ne_nil h0
  obtain ⟨p, X', hp, _, rfl⟩ := (humanQuoteLit_cons o uns lit c s X).mp h
  obtain ⟨k1, k2⟩ := litChar_head hex (hs c (by simp)) (hn c (by simp)) hp
  intro hnil
  have hp0 : p = [] := (List.append_eq_nil_iff.mp hnil).1
  cases hc : fromHex c with
  | none => obtain ⟨d, rest, rfl, _⟩ := k2 hc; cases hp0
  | some v => rw [k1 (by rw [hc]; rfl)] at hp0; cases hp0

/-! ## the requoter on the shown text -/

theorem cOut_nil (t : QTab) : cOut t [] = [] := by rw [cOut]

theorem cEscOut_le (t : QTab) (v : Nat) : (cEscOut t v).length ≤ 3 := by
  unfold cEscOut
  split
  · simp [pct]
  · split <;> simp [pct]

theorem cOut_nr_append (t' : QTab) (hnr : t'.requote = false) (a y : Str) :
    cOut t' (a ++ y) = cOut t' a ++ cOut t' y := by
  rw [cOut_nr_flatMap t' hnr, cOut_nr_flatMap t' hnr, cOut_nr_flatMap t' hnr, List.flatMap_append]

section tables
variable (o : Oracles) (t t' : QTab) (ht : t.WF) (ht' : t'.WF) (hreq : t.requote = true) (hnr : t'.requote = false)
  (uns : Str) (k : LitCompat t t' uns) (lit : Nat → Bool)
include ht ht' hreq hnr k

/-- one piece that is not a literal '%' -/
theorem cOut_litpiece {c : Nat} (hc : c ≤ 0x10FFFF) {p : Str} (hp : litChar o uns lit c = .ok p)
    (hl : lit c = true → c ≠ 37 ∧ mem c uns = false) (r : Str) :
    cOut t (p ++ r) = cWriteOut t' c ++ cOut t r := by
  unfold litChar at hp
  by_cases hlc : lit c = true
  · rw [if_pos hlc] at hp; cases hp
    obtain ⟨h37, hm⟩ := hl hlc
    rw [List.singleton_append, cOut_cons_ne t h37]
    by_cases hlt : c < 128
    · rw [k.lit c hlt h37 hm]
    · rw [cWriteOut_high t ht (by omega), cWriteOut_high t' ht' (by omega)]
  · rw [if_neg hlc] at hp
    exact cOut_piece o t t' ht ht' hreq uns k.hc hc (hqChar_ok hp) r

/-- COMPOSITIONAL SPELLING: the requoter reads the shown text `X` of the decoded text `x` (some characters left
    literal: none of them unsafe / TAB / LF / CR, no literal '%' in front of two hex digits), followed by any text `r`
    that does not start with a hex digit, as the QUOTER's output for `x` followed by what it makes of `r` -/
theorem cOut_lit_append : ∀ (x X : Str), PyStr x → NoSurrogate x → humanQuoteLit o x uns lit = .ok X →
    LitChars uns lit x → PctOK lit x → ∀ r, NH r → cOut t (X ++ r) = cOut t' x ++ cOut t r := by
  intro x
  induction x with
  | nil =>
    intro X _ _ h _ _ r _
    rw [humanQuoteLit_nil] at h; cases h
    rw [List.nil_append, cOut_nil, List.nil_append]
  | cons c s ih =>
    intro X hs hn h hl hp r hr
    obtain ⟨p, X', hpc, hX', rfl⟩ := (humanQuoteLit_cons o uns lit c s X).mp h
    have hs' : PyStr s := fun y hy => hs y (by simp [hy])
    have hn' : NoSurrogate s := fun y hy => hn y (by simp [hy])
    have ih' := ih X' hs' hn' hX' (litChars_tail hl) hp.2 r hr
    rw [List.append_assoc, cOut_nr_cons t' hnr]
    by_cases h37 : lit c = true ∧ c = 37
    · obtain ⟨hlc, rfl⟩ := h37
      have : p = [37] := by unfold litChar at hpc; rw [if_pos hlc] at hpc; cases hpc; rfl
      subst this
      have hne := noesc_lit k.hex hs' hn' hX' (hp.1 hlc rfl) hr
      rw [List.singleton_append, QuoteEquiv.cOut_noesc t hreq hne, ih', cWriteOut_37 t ht, cWriteOut_37 t' ht',
        List.append_assoc]
    · rw [cOut_litpiece o t t' ht ht' hreq hnr uns k lit (hs c (by simp)) hpc
        (fun hlc => ⟨fun e => h37 ⟨hlc, e⟩, (hl c (by simp) hlc).2.2.2⟩), ih', List.append_assoc]

/-- the requoter never makes MORE of the shown text than the quoter makes of the decoded text -/
theorem cOut_lit_le : ∀ (x X : Str), PyStr x → NoSurrogate x → humanQuoteLit o x uns lit = .ok X →
    LitChars uns lit x → ∀ r, (cOut t (X ++ r)).length ≤ (cOut t' x).length + (cOut t r).length := by
  intro x
  induction x with
  | nil =>
    intro X _ _ h _ r
    rw [humanQuoteLit_nil] at h; cases h
    rw [List.nil_append, cOut_nil]; simp
  | cons c s ih =>
    intro X hs hn h hl r
    obtain ⟨p, X', hpc, hX', rfl⟩ := (humanQuoteLit_cons o uns lit c s X).mp h
    have hs' : PyStr s := fun y hy => hs y (by simp [hy])
    have hn' : NoSurrogate s := fun y hy => hn y (by simp [hy])
    have ih' := ih X' hs' hn' hX' (litChars_tail hl) r
    rw [List.append_assoc, cOut_nr_cons t' hnr, List.length_append]
    by_cases h37 : lit c = true ∧ c = 37
    · obtain ⟨hlc, rfl⟩ := h37
      have : p = [37] := by unfold litChar at hpc; rw [if_pos hlc] at hpc; cases hpc; rfl
      subst this
      rw [List.singleton_append, cWriteOut_37 t' ht']
      cases hte : takeEscape restoreCh (X' ++ r) with
      | none =>
        rw [QuoteEquiv.cOut_noesc t hreq hte, cWriteOut_37 t ht, List.length_append]
        omega
      | some q =>
        obtain ⟨v, d1, d2, rest⟩ := q
        obtain ⟨hshape, hv⟩ := takeEscape_eq hte
        rw [cOut_cons_esc t hreq hte, List.length_append]
        have h1 := cEscOut_le t v
        have hd1 : d1 ≠ 37 := by
          rintro rfl; simp [restoreCh, fromHex] at hv
        have hd2 : d2 ≠ 37 := by
          rintro rfl
          simp only [restoreCh] at hv
          cases hx : fromHex d1 <;> simp [hx, fromHex] at hv
        have h2 : (cOut t rest).length ≤ (cOut t (X' ++ r)).length := by
          rw [hshape, cOut_cons_ne t hd1, cOut_cons_ne t hd2]
          simp only [List.length_append]; omega
        simp only [pct, List.length_cons, List.length_nil]
        omega
    · rw [cOut_litpiece o t t' ht ht' hreq hnr uns k lit (hs c (by simp)) hpc
        (fun hlc => ⟨fun e => h37 ⟨hlc, e⟩, (hl c (by simp) hlc).2.2.2⟩), List.length_append]
      omega

/-- a literal '%' in front of a shown text whose decoded text starts with two hex digits: the requoter takes the three
    characters for an escape, and what it writes is shorter than the quoter's "%25" + the two digits -/
theorem esc_lt (s X' : Str) (hs' : PyStr s) (hn' : NoSurrogate s) (hX' : humanQuoteLit o s uns lit = .ok X')
    (hl : LitChars uns lit s) (h2 : twoHex s = true) (r : Str) :
    (cOut t (37 :: (X' ++ r))).length < 3 + (cOut t' s).length + (cOut t r).length := by
  cases s with
  | nil => simp [twoHex] at h2
  | cons h1 s1 =>
  cases s1 with
  | nil => simp [twoHex] at h2
  | cons h2' s'' =>
    simp only [twoHex, Bool.and_eq_true] at h2
    obtain ⟨p1, Y, hp1, hY, rfl⟩ := (humanQuoteLit_cons o uns lit h1 _ X').mp hX'
    obtain ⟨p2, X'', hp2, hX'', rfl⟩ := (humanQuoteLit_cons o uns lit h2' _ Y).mp hY
    have e1 := (litChar_head k.hex (hs' h1 (by simp)) (hn' h1 (by simp)) hp1).1 h2.1
    have e2 := (litChar_head k.hex (hs' h2' (by simp)) (hn' h2' (by simp)) hp2).1 h2.2
    subst e1 e2
    obtain ⟨v, d1, d2, rest, hshape, _, _, hte⟩ := takeEscape_of_twoHex
      (s := [h1] ++ ([h2'] ++ X'') ++ r) (by simp [twoHex, h2.1, h2.2])
    have hshape' : h1 :: h2' :: (X'' ++ r) = d1 :: d2 :: rest := by simpa using hshape
    injection hshape' with _ hh
    injection hh with _ hrest
    subst hrest
    rw [cOut_cons_esc t hreq hte, List.length_append, cOut_nr_cons t' hnr, cOut_nr_cons t' hnr]
    have hs'' : PyStr s'' := fun y hy => hs' y (by simp [hy])
    have hn'' : NoSurrogate s'' := fun y hy => hn' y (by simp [hy])
    have hle := cOut_lit_le o t t' ht ht' hreq hnr uns k lit s'' X'' hs'' hn'' hX''
      (litChars_tail (litChars_tail hl)) r
    have h1' := cEscOut_le t v
    have w1 := List.length_pos_iff.mpr (EagerLemmas.cWriteOut_ne_nil t' (hs' h1 (by simp)) (hn' h1 (by simp)))
    have w2 := List.length_pos_iff.mpr (EagerLemmas.cWriteOut_ne_nil t' (hs' h2' (by simp)) (hn' h2' (by simp)))
    simp only [List.length_append]
    omega

/-- … and strictly LESS when some literal '%' stands in front of two hex digits -/
theorem cOut_lit_lt : ∀ (x X : Str), PyStr x → NoSurrogate x → humanQuoteLit o x uns lit = .ok X →
    LitChars uns lit x → ¬ PctOK lit x → ∀ r, NH r →
      (cOut t (X ++ r)).length < (cOut t' x).length + (cOut t r).length := by
  intro x
  induction x with
  | nil => intro X _ _ _ _ hp; exact absurd trivial hp
  | cons c s ih =>
    intro X hs hn h hl hp r hr
    obtain ⟨p, X', hpc, hX', rfl⟩ := (humanQuoteLit_cons o uns lit c s X).mp h
    have hs' : PyStr s := fun y hy => hs y (by simp [hy])
    have hn' : NoSurrogate s := fun y hy => hn y (by simp [hy])
    rw [List.append_assoc, cOut_nr_cons t' hnr, List.length_append]
    by_cases h37 : lit c = true ∧ c = 37
    · obtain ⟨hlc, rfl⟩ := h37
      have : p = [37] := by unfold litChar at hpc; rw [if_pos hlc] at hpc; cases hpc; rfl
      subst this
      rw [List.singleton_append, cWriteOut_37 t' ht']
      cases h2 : twoHex s with
      | false =>
        have hps : ¬ PctOK lit s := fun hh => hp ⟨fun _ _ => h2, hh⟩
        have ih' := ih X' hs' hn' hX' (litChars_tail hl) hps r hr
        rw [QuoteEquiv.cOut_noesc t hreq (noesc_lit k.hex hs' hn' hX' h2 hr), cWriteOut_37 t ht, List.length_append]
        omega
      | true =>
        have := esc_lt o t t' ht ht' hreq hnr uns k lit s X' hs' hn' hX' (litChars_tail hl) h2 r
        simp only [pct, List.length_cons, List.length_nil]
        omega
    · have hps : ¬ PctOK lit s := fun hh => hp ⟨fun hlc e => absurd ⟨hlc, e⟩ h37, hh⟩
      have ih' := ih X' hs' hn' hX' (litChars_tail hl) hps r hr
      rw [cOut_litpiece o t t' ht ht' hreq hnr uns k lit (hs c (by simp)) hpc
        (fun hlc => ⟨fun e => h37 ⟨hlc, e⟩, (hl c (by simp) hlc).2.2.2⟩), List.length_append]
      omega

/-- THE IFF at table level: the requoter reads the shown text as the quoter's output for the decoded text EXACTLY
    WHEN no '%' that was left literal stands in front of two hex digits -/
theorem cOut_lit_iff (x X : Str) (hs : PyStr x) (hn : NoSurrogate x) (h : humanQuoteLit o x uns lit = .ok X)
    (hl : LitChars uns lit x) : cOut t X = cOut t' x ↔ PctOK lit x := by
  constructor
  · intro he
    refine Classical.byContradiction (fun hp => ?_)
    have := cOut_lit_lt o t t' ht ht' hreq hnr uns k lit x X hs hn h hl hp [] nh_nil
    rw [List.append_nil, he, cOut_nil] at this
    simp at this
  · intro hp
    have := cOut_lit_append o t t' ht ht' hreq hnr uns k lit x X hs hn h hl hp [] nh_nil
    rwa [List.append_nil, cOut_nil, List.append_nil] at this

/-- ONE '%' of the decoded text `a ++ "%" ++ b` left literal, everything else shown as `human_quote` shows it: the
    requoter reads the quoter's output for the decoded text IF AND ONLY IF the '%' is NOT followed by two hex digits.
    Compositional form (any tail `r` that does not start with a hex digit). -/
theorem cOut_one_pct_iff (a b A B : Str) (hsa : PyStr a) (hsb : PyStr b) (hnb : NoSurrogate b)
    (hA : humanQuote o a uns = .ok A) (hB : humanQuote o b uns = .ok B) (r : Str) (hr : NH r) :
    cOut t (A ++ 37 :: B ++ r) = cOut t' (a ++ 37 :: b) ++ cOut t r ↔ twoHex b = false := by
  have hB' : humanQuoteLit o b (uns) (fun _ => false) = .ok B := hB
  rw [List.append_assoc, cOut_human_append o t t' ht ht' hreq hnr uns k.hc a A hsa hA,
    cOut_nr_append t' hnr, List.append_assoc, cOut_nr_cons t' hnr, cWriteOut_37 t' ht']
  constructor
  · intro he
    have he := List.append_cancel_left he
    cases h2 : twoHex b with
    | false => rfl
    | true =>
      have := esc_lt o t t' ht ht' hreq hnr uns k (fun _ => false) b B hsb hnb hB' (litChars_false uns b) h2 r
      rw [List.cons_append] at he
      rw [he] at this
      simp only [pct, List.length_cons, List.length_nil, List.length_append] at this
      omega
  · intro h2
    congr 1
    rw [List.cons_append, QuoteEquiv.cOut_noesc t hreq (noesc_lit k.hex hsb hnb hB' h2 hr), cWriteOut_37 t ht,
      cOut_lit_append o t t' ht ht' hreq hnr uns k (fun _ => false) b B hsb hnb hB' (litChars_false uns b)
        (pctOK_false b) r hr, List.append_assoc]

end tables

/-! ## the generated tables -/

instance (t t' : QTab) (uns : Str) : Decidable (LitCompat t t' uns) :=
  if h : HumanCompat t t' uns ∧
      (∀ c, c < 128 → c ≠ 37 → mem c uns = false → cWriteOut t c = cWriteOut t' c) ∧
      (∀ c ∈ uns, fromHex c = none) then
    isTrue ⟨h.1, h.2.1, h.2.2⟩
  else isFalse (fun k => h ⟨k.hc, k.lit, k.hex⟩)

/-- the table facts for the real positions, on both backends, by computation on the generated tables and lists -/
theorem gen_litCompat : ∀ b : Backend,
    LitCompat (Gen.REQUOTER.tab b) (Gen.QUOTER.tab b) (humanUnsafeOf "user") ∧
    LitCompat (Gen.PATH_REQUOTER.tab b) (Gen.PATH_QUOTER.tab b) (humanUnsafeOf "path") ∧
    LitCompat (Gen.FRAGMENT_REQUOTER.tab b) (Gen.FRAGMENT_QUOTER.tab b) (humanUnsafeOf "fragment") ∧
    LitCompat (Gen.QUERY_REQUOTER.tab b) (Gen.QUERY_PART_QUOTER.tab b) (humanUnsafeOf "k") := by
  intro b
  rw [tab_eq_c Gen.REQUOTER (by decide) b, tab_eq_c Gen.QUOTER (by decide) b,
    tab_eq_c Gen.PATH_REQUOTER (by decide) b, tab_eq_c Gen.PATH_QUOTER (by decide) b,
    tab_eq_c Gen.FRAGMENT_REQUOTER (by decide) b, tab_eq_c Gen.FRAGMENT_QUOTER (by decide) b,
    tab_eq_c Gen.QUERY_REQUOTER (by decide) b, tab_eq_c Gen.QUERY_PART_QUOTER (by decide) b]
  decide +kernel

/-- run level (generated quoters, either backend): REQUOTER(shown text) = QUOTER(decoded text) iff no literal '%'
    stands in front of two hex digits -/
theorem run_lit_iff (a a' : QArgs) (ha : a ∈ Gen.allQuoters) (ha' : a' ∈ Gen.allQuoters)
    (hreq : a.requote = true) (hnr : a'.requote = false) (uns : Str)
    (k : ∀ b, LitCompat (a.tab b) (a'.tab b) uns)
    (e : Env) (lit : Nat → Bool) (x X : Str) (hs : PyStr x) (hn : NoSurrogate x)
    (h : humanQuoteLit e.o x uns lit = .ok X) (hl : LitChars uns lit x) :
    a.run e.b X = a'.run e.b x ↔ PctOK lit x := by
  obtain ⟨hr1, hr2⟩ := lit_pyStr (k e.b).hc.ascii hs hn h hl
  rw [run_eq_cOut a ha e.b X hr1, run_eq_cOut a' ha' e.b x hs, stripSurr_id X hr2, stripSurr_id x hn]
  exact cOut_lit_iff e.o (a.tab e.b) (a'.tab e.b) (gen_tab_wf a ha e.b) (gen_tab_wf a' ha' e.b)
    (by rw [tab_requote]; exact hreq) (by rw [tab_requote]; exact hnr) uns (k e.b) lit x X hs hn h hl

/-- run level, ONE literal '%' -/
theorem run_one_pct_iff (a a' : QArgs) (ha : a ∈ Gen.allQuoters) (ha' : a' ∈ Gen.allQuoters)
    (hreq : a.requote = true) (hnr : a'.requote = false) (uns : Str)
    (k : ∀ b, LitCompat (a.tab b) (a'.tab b) uns)
    (e : Env) (x y X Y : Str) (hx : PyStr x) (hxn : NoSurrogate x) (hy : PyStr y) (hyn : NoSurrogate y)
    (hX : humanQuote e.o x uns = .ok X) (hY : humanQuote e.o y uns = .ok Y) :
    a.run e.b (X ++ 37 :: Y) = a'.run e.b (x ++ 37 :: y) ↔ twoHex y = false := by
  obtain ⟨x1, x2⟩ := humanQuote_pyStr e.o uns (k e.b).hc.ascii x X hx hxn hX
  obtain ⟨y1, y2⟩ := humanQuote_pyStr e.o uns (k e.b).hc.ascii y Y hy hyn hY
  have g1 : PyStr (X ++ 37 :: Y) := by
    intro c hc
    simp only [List.mem_append, List.mem_cons] at hc
    rcases hc with hc | rfl | hc
    · exact x1 c hc
    · show (37 : Nat) ≤ 0x10FFFF; omega
    · exact y1 c hc
  have g2 : NoSurrogate (X ++ 37 :: Y) := by
    intro c hc
    simp only [List.mem_append, List.mem_cons] at hc
    rcases hc with hc | rfl | hc
    · exact x2 c hc
    · rfl
    · exact y2 c hc
  have g3 : PyStr (x ++ 37 :: y) := by
    intro c hc
    simp only [List.mem_append, List.mem_cons] at hc
    rcases hc with hc | rfl | hc
    · exact hx c hc
    · show (37 : Nat) ≤ 0x10FFFF; omega
    · exact hy c hc
  have g4 : NoSurrogate (x ++ 37 :: y) := by
    intro c hc
    simp only [List.mem_append, List.mem_cons] at hc
    rcases hc with hc | rfl | hc
    · exact hxn c hc
    · rfl
    · exact hyn c hc
  rw [run_eq_cOut a ha e.b _ g1, run_eq_cOut a' ha' e.b _ g3, stripSurr_id _ g2, stripSurr_id _ g4]
  have := cOut_one_pct_iff e.o (a.tab e.b) (a'.tab e.b) (gen_tab_wf a ha e.b) (gen_tab_wf a' ha' e.b)
    (by rw [tab_requote]; exact hreq) (by rw [tab_requote]; exact hnr) uns (k e.b) x y X Y hx hy hyn hX hY [] nh_nil
  rwa [List.append_nil, cOut_nil, List.append_nil] at this

end R12

open R12

/-! ## C18 GAPS 6 (i) — the '%' escape, UNIVERSALLY, at the level of the component quoter / requoter / unquoter -/

/-- "'%' … [is] escaped" — WHEN the escape is needed, for EVERY decoded text and every position kind.  The decoded
    text is `x ++ "%" ++ y` (any Python strings without lone surrogates); `X`, `Y` are what `human_quote` shows for `x`
    and `y` in the position; the text with THIS '%' left literal is `X ++ "%" ++ Y`.  The constructor's requoter of
    the position reads it as the encoding that `build` stores for the decoded text (so the re-parse is unchanged)
    IF AND ONLY IF the '%' is NOT followed by two hex digits in the decoded text (`R12.twoHex y = false`).  Positions:
    user / password (REQUOTER vs QUOTER), path (PATH_REQUOTER vs PATH_QUOTER), query key / value (QUERY_REQUOTER vs
    QUERY_PART_QUOTER), fragment (FRAGMENT_REQUOTER vs FRAGMENT_QUOTER); both backends (`e.b`). -/
theorem C18_percent_literal_iff (e : Env) (x y X Y : Str)
    (hx : PyStr x) (hxn : NoSurrogate x) (hy : PyStr y) (hyn : NoSurrogate y) :
    (∀ key, key = "user" ∨ key = "password" →
      humanQuote e.o x (humanUnsafeOf key) = .ok X → humanQuote e.o y (humanUnsafeOf key) = .ok Y →
      (q e Gen.REQUOTER (X ++ 37 :: Y) = q e Gen.QUOTER (x ++ 37 :: y) ↔ twoHex y = false)) ∧
    (humanQuote e.o x (humanUnsafeOf "path") = .ok X → humanQuote e.o y (humanUnsafeOf "path") = .ok Y →
      (q e Gen.PATH_REQUOTER (X ++ 37 :: Y) = q e Gen.PATH_QUOTER (x ++ 37 :: y) ↔ twoHex y = false)) ∧
    (∀ key, key = "k" ∨ key = "v" →
      humanQuote e.o x (humanUnsafeOf key) = .ok X → humanQuote e.o y (humanUnsafeOf key) = .ok Y →
      (q e Gen.QUERY_REQUOTER (X ++ 37 :: Y) = q e Gen.QUERY_PART_QUOTER (x ++ 37 :: y) ↔ twoHex y = false)) ∧
    (humanQuote e.o x (humanUnsafeOf "fragment") = .ok X → humanQuote e.o y (humanUnsafeOf "fragment") = .ok Y →
      (q e Gen.FRAGMENT_REQUOTER (X ++ 37 :: Y) = q e Gen.FRAGMENT_QUOTER (x ++ 37 :: y) ↔ twoHex y = false)) := by
  refine ⟨?_, ?_, ?_, ?_⟩
  · intro key hk hX hY
    have hl : humanUnsafeOf key = humanUnsafeOf "user" := by
      rcases hk with rfl | rfl
      · rfl
      · exact gen_same_lists.1
    rw [hl] at hX hY
    exact run_one_pct_iff Gen.REQUOTER Gen.QUOTER (by decide) (by decide) rfl rfl _ (fun b => (gen_litCompat b).1)
      e x y X Y hx hxn hy hyn hX hY
  · intro hX hY
    exact run_one_pct_iff Gen.PATH_REQUOTER Gen.PATH_QUOTER (by decide) (by decide) rfl rfl _
      (fun b => (gen_litCompat b).2.1) e x y X Y hx hxn hy hyn hX hY
  · intro key hk hX hY
    have hl : humanUnsafeOf key = humanUnsafeOf "k" := by
      rcases hk with rfl | rfl
      · rfl
      · exact gen_same_lists.2
    rw [hl] at hX hY
    exact run_one_pct_iff Gen.QUERY_REQUOTER Gen.QUERY_PART_QUOTER (by decide) (by decide) rfl rfl _
      (fun b => (gen_litCompat b).2.2.2) e x y X Y hx hxn hy hyn hX hY
  · intro hX hY
    exact run_one_pct_iff Gen.FRAGMENT_REQUOTER Gen.FRAGMENT_QUOTER (by decide) (by decide) rfl rfl _
      (fun b => (gen_litCompat b).2.2.1) e x y X Y hx hxn hy hyn hX hY

/-! ## URL level: `human_repr()` with characters left literal in one position -/

namespace R12

/-- the literal choice of `R5.humanReprLit`, per position key -/
def Lk (comp : String) (lit : Nat → Bool) (key : String) : Nat → Bool := fun c => key == comp && lit c

/-- one `key=value` piece of `R5.humanReprLit` -/
def litPair (o : Oracles) (comp : String) (lit : Nat → Bool) : Str × Str → R Str := fun (k, v) => do
  pure ((← humanQuoteLit o k (humanUnsafeOf "k") (Lk comp lit "k")) ++ [61] ++
        (← humanQuoteLit o v (humanUnsafeOf "v") (Lk comp lit "v")))

theorem humanReprLit_eq (comp : String) (lit : Nat → Bool) (e : Env) (u : Url) : humanReprLit comp lit e u = (do
    let usr ← humanQuoteLitOpt e.o (← user e u) (humanUnsafeOf "user") (Lk comp lit "user")
    let pw ← humanQuoteLitOpt e.o (← password e u) (humanUnsafeOf "password") (Lk comp lit "password")
    let h0 ← host e u
    let h := h0.map (fun h => if !h.isEmpty && mem 58 h then [91] ++ h ++ [93] else h)
    let path ← humanQuoteLit e.o (pathDecoded e u) (humanUnsafeOf "path") (Lk comp lit "path")
    let qparts ← (queryPairs u).mapM (litPair e.o comp lit)
    let qs := joinC 38 qparts
    let frag ← humanQuoteLit e.o (fragmentDecoded e u) (humanUnsafeOf "fragment") (Lk comp lit "fragment")
    let netloc := makeNetloc (q e Gen.QUOTER) usr pw h (← explicitPort e u) false
    pure (unsplitResult u.scheme netloc path qs frag)) := rfl

/-- the instrumented `human_repr()` reads a URL only through `net`, the scheme, the decoded path, query and fragment -/
theorem humanReprLit_congr (comp : String) (lit : Nat → Bool) (e : Env) (u v : Url) (hnet : net e u = net e v)
    (hs : u.scheme = v.scheme) (hp : pathDecoded e u = pathDecoded e v) (hq : u.query = v.query)
    (hf : u.fragment = v.fragment) : humanReprLit comp lit e u = humanReprLit comp lit e v := by
  rw [humanReprLit_eq, humanReprLit_eq]
  unfold Yarl.user password host rawUser rawPassword rawHost explicitPort queryPairs fragmentDecoded
  rw [hnet, hs, hp, hq, hf]

/-- with NOTHING left literal the instrumented copy IS `human_repr()` — for every URL (closes the tie that
    `C18_humanReprLit_std` checked on one instance) -/
theorem humanReprLit_none (comp : String) (e : Env) (u : Url) :
    humanReprLit comp (fun _ => false) e u = humanRepr e u := by
  have hL : ∀ key, Lk comp (fun _ => false) key = fun _ => false := by
    intro key; funext c; simp [Lk]
  have h1 : ∀ (x : Option Str) (uns : Str), humanQuoteLitOpt e.o x uns (fun _ => false) = humanQuoteOpt e.o x uns := by
    intro x uns; cases x <;> rfl
  have h2 : litPair e.o comp (fun _ => false) = humanPair e.o := by
    funext ⟨k, v⟩; simp only [litPair, hL]; rfl
  rw [humanReprLit_eq, humanRepr_eq]
  simp only [hL, h1, h2, humanQuoteLit_false]

/-- the instrumented `human_repr()` of a URL that stores the encodings of decoded components is that of the URL
    `build` makes from them -/
theorem humanReprLit_of_stores (comp : String) (lit : Nat → Bool) (e : Env) (u : Url) (user pw : Option Str) (H : Str)
    (port : Option Nat) (p : Str) (kvs : List (Str × Str)) (f : Str) (st : Stores e u user pw H port p kvs f)
    (hu : UText user) (hune : ∀ s, user = some s → s ≠ []) (hH : HostOK H)
    (hport : ∀ x, port = some x → x ≤ 65535) (hp : PyStr (47 :: p)) (hn : NoSurrogate (47 :: p)) :
    humanReprLit comp lit e u = humanReprLit comp lit e (builtFull e u.scheme user pw H port (47 :: p) kvs f) := by
  have huk := userOK_quoted e user hu hune
  apply humanReprLit_congr
  · rw [net_of_stores e u user pw H port p kvs f st huk hH hport,
      net_of_stores e _ user pw H port p kvs f (builtFull_stores e _ user pw H port p kvs f) huk hH hport]
  · rfl
  · rw [pathDecoded_of e (builtFull e u.scheme user pw H port (47 :: p) kvs f) p rfl hp hn]
    rcases st.path with h | ⟨h1, h2⟩
    · exact pathDecoded_of e u p h hp hn
    · subst h2
      unfold pathDecoded
      have hnl : u.netloc.isEmpty = false := by
        rw [st.netloc]; exact HumanLemmas.isEmpty_false (authText_ne_nil _ _ hH.1 _)
      simp [h1, hnl]
  · exact st.query
  · exact st.fragment

theorem humanReprLit_full (comp : String) (lit : Nat → Bool) (e : Env) (sc : Str) (user pw : Option Str) (H D : Str)
    (port : Option Nat) (p : Str) (kvs : List (Str × Str)) (f : Str)
    (hH : HostOK H) (hshown : ∀ u, rawHost e u = .ok (some H) → host e u = .ok (some D)) (hD : D ≠ [])
    (hport : ∀ x, port = some x → x ≤ 65535)
    (hu : UText user) (hune : ∀ s, user = some s → s ≠ []) (hw : UText pw)
    (hp : PyStr (47 :: p)) (hn : NoSurrogate (47 :: p)) (hg : GoodPairs kvs)
    (hf : PyStr f) (hfn : NoSurrogate f) :
    humanReprLit comp lit e (builtFull e sc user pw H port (47 :: p) kvs f) =
      (humanQuoteLitOpt e.o user (humanUnsafeOf "user") (Lk comp lit "user") >>= fun usr =>
        humanQuoteLitOpt e.o pw (humanUnsafeOf "password") (Lk comp lit "password") >>= fun pw' =>
        humanQuoteLit e.o (47 :: p) (humanUnsafeOf "path") (Lk comp lit "path") >>= fun rp =>
        kvs.mapM (litPair e.o comp lit) >>= fun qparts =>
        humanQuoteLit e.o f (humanUnsafeOf "fragment") (Lk comp lit "fragment") >>= fun rf =>
          pure (unsplitResult sc (authText usr pw' D port) rp (joinC 38 qparts) rf)) := by
  have huk := userOK_quoted e user hu hune
  have hU : rawUser e (builtFull e sc user pw H port (47 :: p) kvs f) = .ok (user.map (q e Gen.QUOTER)) :=
    rawUser_std e id _ _ H port _ _ _ _ huk hH hport
  have hP : rawPassword e (builtFull e sc user pw H port (47 :: p) kvs f) = .ok (pw.map (q e Gen.QUOTER)) :=
    rawPassword_std e id _ _ H port _ _ _ _ huk hH hport
  have hHo : rawHost e (builtFull e sc user pw H port (47 :: p) kvs f) = .ok (some H) :=
    rawHost_std e id _ _ H port _ _ _ _ huk hH hport
  have hE : explicitPort e (builtFull e sc user pw H port (47 :: p) kvs f) = .ok port :=
    explicitPort_std e id _ _ H port _ _ _ _ huk hH hport
  have hHost := hshown _ hHo
  have hq : queryPairs (builtFull e sc user pw H port (47 :: p) kvs f) = kvs := parse_qtext e.b kvs hg
  have hsc : (builtFull e sc user pw H port (47 :: p) kvs f).scheme = sc := rfl
  rw [humanReprLit_eq]
  unfold Yarl.user password
  rw [hU, hP, hHost, hE, pathDecoded_of e _ p rfl hp hn, fragmentDecoded_of e _ f rfl hf hfn, hq, hsc]
  simp only [bind, Except.bind, pure, Except.pure, map_readback e user hu, map_readback e pw hw,
    Option.map_some, shown_bracket hD, authText, makeNetloc_qf (q e Gen.QUOTER) id]

theorem humanQuoteLitOpt_ok {o : Oracles} {x y : Option Str} {L : Str} {lit : Nat → Bool}
    (h : humanQuoteLitOpt o x L lit = .ok y) :
    (x = none ∧ y = none) ∨ ∃ s r, x = some s ∧ y = some r ∧ humanQuoteLit o s L lit = .ok r := by
  cases x with
  | none => left; cases h; exact ⟨rfl, rfl⟩
  | some s =>
    right
    cases hq : humanQuoteLit o s L lit with
    | error err => simp only [humanQuoteLitOpt, hq, bind, Except.bind] at h; cases h
    | ok r =>
      simp only [humanQuoteLitOpt, hq, bind, Except.bind, pure, Except.pure, Except.ok.injEq] at h
      exact ⟨s, r, rfl, h.symm, hq⟩

theorem litPair_ok {o : Oracles} {comp : String} {lit : Nat → Bool} {p : Str × Str} {r : Str}
    (h : litPair o comp lit p = .ok r) :
    ∃ rk rv, humanQuoteLit o p.1 (humanUnsafeOf "k") (Lk comp lit "k") = .ok rk ∧
      humanQuoteLit o p.2 (humanUnsafeOf "v") (Lk comp lit "v") = .ok rv ∧ r = rk ++ [61] ++ rv := by
  obtain ⟨k, v⟩ := p
  simp only [litPair] at h
  cases h1 : humanQuoteLit o k (humanUnsafeOf "k") (Lk comp lit "k") with
  | error err => rw [h1] at h; cases h
  | ok rk =>
    cases h2 : humanQuoteLit o v (humanUnsafeOf "v") (Lk comp lit "v") with
    | error err => rw [h1, h2] at h; cases h
    | ok rv =>
      rw [h1, h2] at h
      simp only [bind, Except.bind, pure, Except.pure, Except.ok.injEq] at h
      exact ⟨rk, rv, rfl, rfl, h.symm⟩

/-- what is asked of the characters left literal in one decoded text: none of them TAB / LF / CR or unsafe in the
    position, and no literal '%' in front of two hex digits -/
def LitOK (uns : Str) (lit : Nat → Bool) (x : Str) : Prop := LitChars uns lit x ∧ PctOK lit x

instance (uns : Str) (lit : Nat → Bool) (x : Str) : Decidable (LitOK uns lit x) := by unfold LitOK; infer_instance

theorem litOK_false (uns x : Str) : LitOK uns (fun _ => false) x := ⟨litChars_false uns x, pctOK_false x⟩

/-! ### the query string -/

theorem cOut_litPair (o : Oracles) (b : Backend) (lk lv : Nat → Bool) (p : Str × Str) (rk rv : Str)
    (hg : GoodText p.1 ∧ GoodText p.2)
    (h1 : humanQuoteLit o p.1 (humanUnsafeOf "k") lk = .ok rk) (h2 : humanQuoteLit o p.2 (humanUnsafeOf "k") lv = .ok rv)
    (c1 : LitOK (humanUnsafeOf "k") lk p.1) (c2 : LitOK (humanUnsafeOf "k") lv p.2) (x : Str) (hx : NH x) :
    cOut (Gen.QUERY_REQUOTER.tab b) ((rk ++ [61] ++ rv) ++ x) = pairOut b p ++ cOut (Gen.QUERY_REQUOTER.tab b) x := by
  have ht := gen_tab_wf Gen.QUERY_REQUOTER (by decide) b
  have ht' := gen_tab_wf Gen.QUERY_PART_QUOTER (by decide) b
  have hreq : (Gen.QUERY_REQUOTER.tab b).requote = true := by rw [HumanLemmas.tab_requote]; rfl
  have hnr : (Gen.QUERY_PART_QUOTER.tab b).requote = false := by rw [HumanLemmas.tab_requote]; rfl
  have k := (gen_litCompat b).2.2.2
  rw [List.append_assoc, List.append_assoc,
    cOut_lit_append o _ _ ht ht' hreq hnr _ k lk p.1 rk hg.1.1 hg.1.2 h1 c1.1 c1.2 ([61] ++ (rv ++ x))
      (nh_cons (c := 61) (by decide) (rv ++ x)),
    List.singleton_append, cOut_cons_ne _ (by decide : (61 : Nat) ≠ 37), (query_seps b).1,
    cOut_lit_append o _ _ ht ht' hreq hnr _ k lv p.2 rv hg.2.1 hg.2.2 h2 c2.1 c2.2 x hx]
  simp [pairOut]

/-- the conditions on the literal characters of all keys and values -/
def PairsOK (lk lv : Nat → Bool) (ps : List (Str × Str)) : Prop :=
  ∀ p ∈ ps, LitOK (humanUnsafeOf "k") lk p.1 ∧ LitOK (humanUnsafeOf "k") lv p.2

theorem litPair_ok' {o : Oracles} {comp : String} {lit : Nat → Bool} {p : Str × Str} {r : Str}
    (h : litPair o comp lit p = .ok r) :
    ∃ rk rv, humanQuoteLit o p.1 (humanUnsafeOf "k") (Lk comp lit "k") = .ok rk ∧
      humanQuoteLit o p.2 (humanUnsafeOf "k") (Lk comp lit "v") = .ok rv ∧ r = rk ++ [61] ++ rv := by
  obtain ⟨rk, rv, h1, h2, h3⟩ := litPair_ok h
  rw [key_val_lists] at h2
  exact ⟨rk, rv, h1, h2, h3⟩

theorem cOut_flatC_litPairs (o : Oracles) (b : Backend) (comp : String) (lit : Nat → Bool) :
    ∀ (ps : List (Str × Str)) (parts : List Str), GoodPairs ps →
      PairsOK (Lk comp lit "k") (Lk comp lit "v") ps →
      ps.mapM (litPair o comp lit) = .ok parts →
      cOut (Gen.QUERY_REQUOTER.tab b) (HostLemmas.flatC 38 parts) =
        HostLemmas.flatC 38 (ps.map (pairOut b)) := by
  intro ps
  induction ps with
  | nil =>
    intro parts _ _ h
    rw [mapM_nil_ok h]
    simp [HostLemmas.flatC, cOut_nil]
  | cons p ps ih =>
    intro parts hg hc h
    obtain ⟨r, rs, h1, h2, rfl⟩ := mapM_cons_ok h
    obtain ⟨rk, rv, a1, a2, rfl⟩ := litPair_ok' h1
    have hnh : NH (HostLemmas.flatC 38 rs) := by
      cases rs with
      | nil => exact nh_nil
      | cons a l => exact nh_cons (by decide) _
    rw [HostLemmas.flatC_cons, cOut_cons_ne _ (by decide : (38 : Nat) ≠ 37), (query_seps b).2,
      cOut_litPair o b _ _ p rk rv (hg p (by simp)) a1 a2 (hc p (by simp)).1 (hc p (by simp)).2 _ hnh,
      ih rs (fun x hx => hg x (by simp [hx])) (fun x hx => hc x (by simp [hx])) h2]
    simp

theorem cOut_joinC_litPairs (o : Oracles) (b : Backend) (comp : String) (lit : Nat → Bool)
    (ps : List (Str × Str)) (parts : List Str) (hg : GoodPairs ps)
    (hc : PairsOK (Lk comp lit "k") (Lk comp lit "v") ps) (h : ps.mapM (litPair o comp lit) = .ok parts) :
    cOut (Gen.QUERY_REQUOTER.tab b) (joinC 38 parts) = joinC 38 (ps.map (pairOut b)) := by
  cases ps with
  | nil => rw [mapM_nil_ok h]; simp [cOut_nil]
  | cons p ps =>
    obtain ⟨r, rs, h1, h2, rfl⟩ := mapM_cons_ok h
    obtain ⟨rk, rv, a1, a2, rfl⟩ := litPair_ok' h1
    have hnh : NH (HostLemmas.flatC 38 rs) := by
      cases rs with
      | nil => exact nh_nil
      | cons a l => exact nh_cons (by decide) _
    rw [List.map_cons, HostLemmas.joinC_cons, HostLemmas.joinC_cons,
      cOut_litPair o b _ _ p rk rv (hg p (by simp)) a1 a2 (hc p (by simp)).1 (hc p (by simp)).2 _ hnh,
      cOut_flatC_litPairs o b comp lit ps rs (fun x hx => hg x (by simp [hx])) (fun x hx => hc x (by simp [hx])) h2]

theorem queryBad_lit : ∀ d ∈ queryBad, d ≠ 37 ∧ d ≠ 61 ∧ isUpperHexDigit d = false ∧
    (mem d (humanUnsafeOf "k") = true ∨ d = 9 ∨ d = 10 ∨ d = 13) := by decide

/-- the character conditions alone (no condition on '%') -/
def PairsCh (lk lv : Nat → Bool) (ps : List (Str × Str)) : Prop :=
  ∀ p ∈ ps, LitChars (humanUnsafeOf "k") lk p.1 ∧ LitChars (humanUnsafeOf "k") lv p.2

theorem PairsOK.ch {lk lv : Nat → Bool} {ps : List (Str × Str)} (h : PairsOK lk lv ps) : PairsCh lk lv ps :=
  fun p hp => ⟨(h p hp).1.1, (h p hp).2.1⟩

/-- what the parser needs to know about the query string shown with literals -/
theorem litQuery_chars (o : Oracles) (comp : String) (lit : Nat → Bool) (ps : List (Str × Str)) (parts : List Str)
    (hg : GoodPairs ps) (hc : PairsCh (Lk comp lit "k") (Lk comp lit "v") ps)
    (h : ps.mapM (litPair o comp lit) = .ok parts) :
    PyStr (joinC 38 parts) ∧ NoSurrogate (joinC 38 parts) ∧ ∀ d ∈ queryBad, d ∉ joinC 38 parts := by
  have key : ∀ p r, p ∈ ps → litPair o comp lit p = .ok r →
      (PyStr r ∧ NoSurrogate r) ∧ ∀ d ∈ queryBad, d ∉ r := by
    intro p r hp hr
    obtain ⟨rk, rv, a1, a2, rfl⟩ := litPair_ok' hr
    obtain ⟨⟨g1, g2⟩, ⟨g3, g4⟩⟩ := hg p hp
    obtain ⟨c1, c2⟩ := hc p hp
    obtain ⟨x1, x2⟩ := lit_pyStr k_unsafe_ascii g1 g2 a1 c1
    obtain ⟨y1, y2⟩ := lit_pyStr k_unsafe_ascii g3 g4 a2 c2
    refine ⟨⟨?_, ?_⟩, ?_⟩
    · intro x hx
      simp only [List.mem_append, List.mem_singleton] at hx
      rcases hx with (hx | rfl) | hx
      · exact x1 x hx
      · show (61 : Nat) ≤ 0x10FFFF; omega
      · exact y1 x hx
    · intro x hx
      simp only [List.mem_append, List.mem_singleton] at hx
      rcases hx with (hx | rfl) | hx
      · exact x2 x hx
      · rfl
      · exact y2 x hx
    · intro d hd hm
      have hd' := queryBad_lit d hd
      simp only [List.mem_append, List.mem_singleton] at hm
      rcases hm with (hm | hm) | hm
      · exact lit_avoid k_unsafe_ascii g1 a1 c1 hd'.1 hd'.2.2.1 hd'.2.2.2 hm
      · exact hd'.2.1 hm
      · exact lit_avoid k_unsafe_ascii g3 a2 c2 hd'.1 hd'.2.2.1 hd'.2.2.2 hm
  have hall : ∀ r ∈ parts, (PyStr r ∧ NoSurrogate r) ∧ ∀ d ∈ queryBad, d ∉ r := by
    have : ∀ (l : List (Str × Str)) (rs : List Str), (∀ p ∈ l, p ∈ ps) → l.mapM (litPair o comp lit) = .ok rs →
        ∀ r ∈ rs, (PyStr r ∧ NoSurrogate r) ∧ ∀ d ∈ queryBad, d ∉ r := by
      intro l
      induction l with
      | nil => intro rs _ h; rw [mapM_nil_ok h]; intro r hr; cases hr
      | cons a l ih =>
        intro rs hl h
        obtain ⟨b', bs, h1, h2, rfl⟩ := mapM_cons_ok h
        intro r hr
        rcases List.mem_cons.mp hr with rfl | hr
        · exact key a _ (hl a (by simp)) h1
        · exact ih bs (fun y hy => hl y (by simp [hy])) h2 r hr
    exact this ps parts (fun _ h => h) h
  refine ⟨?_, ?_, ?_⟩
  · intro x hx
    rcases HostLemmas.mem_joinC hx with rfl | ⟨p, hp, hxp⟩
    · show (38 : Nat) ≤ 0x10FFFF; omega
    · exact (hall p hp).1.1 x hxp
  · intro x hx
    rcases HostLemmas.mem_joinC hx with rfl | ⟨p, hp, hxp⟩
    · rfl
    · exact (hall p hp).1.2 x hxp
  · intro d hd hm
    rcases HostLemmas.mem_joinC hm with rfl | ⟨p, hp, hxp⟩
    · exact (queryBad_tab 38 hd).2.2.2.1 rfl
    · exact (hall p hp).2 d hd hxp

/-- QUERY_REQUOTER on the query string shown with literals gives back the stored query -/
theorem query_requote_lit (e : Env) (comp : String) (lit : Nat → Bool) (ps : List (Str × Str)) (parts : List Str)
    (hg : GoodPairs ps) (hc : PairsOK (Lk comp lit "k") (Lk comp lit "v") ps)
    (h : ps.mapM (litPair e.o comp lit) = .ok parts) :
    q e Gen.QUERY_REQUOTER (joinC 38 parts) = qtext e.b ps := by
  obtain ⟨c1, c2, _⟩ := litQuery_chars e.o comp lit ps parts hg hc.ch h
  unfold q qtext
  rw [run_eq_cOut _ (by decide) e.b _ c1, stripSurr_id _ c2, cOut_joinC_litPairs e.o e.b comp lit ps parts hg hc h]
  congr 1
  apply List.map_congr_left
  intro p hp
  exact (pairText_eq_pairOut e.b p (hg p hp)).symm

theorem litQuery_nil_iff (o : Oracles) (comp : String) (lit : Nat → Bool) (ps : List (Str × Str)) (parts : List Str)
    (h : ps.mapM (litPair o comp lit) = .ok parts) : joinC 38 parts = [] ↔ ps = [] := by
  cases ps with
  | nil => rw [mapM_nil_ok h]; simp
  | cons p ps =>
    obtain ⟨r, rs, h1, h2, rfl⟩ := mapM_cons_ok h
    obtain ⟨rk, rv, _, _, rfl⟩ := litPair_ok h1
    simp [HostLemmas.joinC_cons]

/-! ### the other positions, and the assembly -/

/-- the decoded texts in position `key` of a URL that stores `user pw … p kvs f` -/
def textsAt (key : String) (user pw : Option Str) (p : Str) (kvs : List (Str × Str)) (f : Str) : List Str :=
  if key = "user" then user.toList else if key = "password" then pw.toList else if key = "path" then [p]
  else if key = "k" then kvs.map (·.1) else if key = "v" then kvs.map (·.2)
  else if key = "fragment" then [f] else []

/-- the condition of the universal theorem: in every decoded text of the position `comp`, the characters selected by
    `lit` are none of TAB / LF / CR, are not unsafe in the position, and a selected '%' is not followed by two hex
    digits -/
def LitSafeAt (comp : String) (lit : Nat → Bool) (user pw : Option Str) (p : Str) (kvs : List (Str × Str)) (f : Str) :
    Prop := ∀ x ∈ textsAt comp user pw p kvs f, LitOK (humanUnsafeOf comp) lit x

instance (comp : String) (lit : Nat → Bool) (user pw : Option Str) (p : Str) (kvs : List (Str × Str)) (f : Str) :
    Decidable (LitSafeAt comp lit user pw p kvs f) := by unfold LitSafeAt; infer_instance

theorem litOK_key (comp : String) (lit : Nat → Bool) (key : String) (x : Str)
    (h : key = comp → LitOK (humanUnsafeOf comp) lit x) : LitOK (humanUnsafeOf key) (Lk comp lit key) x := by
  by_cases hk : key = comp
  · subst hk
    have : Lk key lit key = lit := by funext c; simp [Lk]
    rw [this]; exact h rfl
  · have : Lk comp lit key = fun _ => false := by
      funext c
      have : (key == comp) = false := beq_eq_false_iff_ne.mpr hk
      simp [Lk, this]
    rw [this]; exact litOK_false _ x

theorem userBad_lit : ∀ d ∈ userBad, d ≠ 37 ∧ isUpperHexDigit d = false ∧
    (mem d (humanUnsafeOf "user") = true ∨ d = 9 ∨ d = 10 ∨ d = 13) := by decide

/-- user / password shown with literals SPELL the decoded text (`R5.SpellOpt`) -/
theorem spellOpt_lit {e : Env} {x y : Option Str} {l : Nat → Bool} (hx : UText x)
    (h : humanQuoteLitOpt e.o x (humanUnsafeOf "user") l = .ok y)
    (hc : ∀ s, x = some s → LitOK (humanUnsafeOf "user") l s) :
    SpellOpt e x y ∧ ((∀ s, x = some s → s ≠ []) → ∀ r, y = some r → r ≠ []) := by
  have hex := (gen_litCompat e.b).1.hex
  rcases humanQuoteLitOpt_ok h with ⟨rfl, rfl⟩ | ⟨s, r, rfl, rfl, hq⟩
  · exact ⟨⟨fun r hr => (by cases hr), ⟨fun _ => rfl, fun _ => rfl⟩, rfl⟩, fun _ r hr => (by cases hr)⟩
  · obtain ⟨hs, hn⟩ := hx s rfl
    obtain ⟨c1, c2⟩ := hc s rfl
    refine ⟨⟨?_, by simp, ?_⟩, ?_⟩
    · intro r' hr' d hd
      cases hr'
      obtain ⟨a1, a2, a3⟩ := userBad_lit d hd
      exact lit_avoid user_unsafe_ascii hs hq c1 a1 a2 a3
    · simp only [requoteOpt, Option.map_some, Option.some.injEq]
      by_cases hr0 : r = []
      · subst hr0
        have hs0 : s = [] := Classical.byContradiction (fun h0 => lit_ne_nil hex hs hn h0 hq rfl)
        subst hs0
        simp only [HumanLemmas.q_nil]; rfl
      · rw [HumanLemmas.isEmpty_false hr0]
        simp only [Bool.false_eq_true, if_false]
        exact (run_lit_iff Gen.REQUOTER Gen.QUOTER (by decide) (by decide) rfl rfl _ (fun b => (gen_litCompat b).1)
          e l s r hs hn hq c1).mpr c2
    · intro hne r' hr'
      cases hr'
      exact lit_ne_nil hex hs hn (hne s rfl) hq

theorem litChar_slash (o : Oracles) (l : Nat → Bool) : litChar o (humanUnsafeOf "path") l 47 = .ok [47] := by
  unfold litChar
  split
  · rfl
  · exact hqChar_slash_path o

theorem path_tab : mem 47 (humanUnsafeOf "path") = false ∧ mem 63 (humanUnsafeOf "path") = true ∧
    mem 35 (humanUnsafeOf "path") = true ∧ (∀ c ∈ humanUnsafeOf "path", c < 128) ∧
    (∀ c ∈ humanUnsafeOf "fragment", c < 128) := by decide

/-- two URL objects that store the same decoded components under the same scheme are `==` -/
theorem beq_of_stores (e : Env) (a b : Url) (user pw : Option Str) (H : Str) (port : Option Nat) (p : Str)
    (kvs : List (Str × Str)) (f : Str) (sa : Stores e a user pw H port p kvs f) (sb : Stores e b user pw H port p kvs f)
    (hsc : a.scheme = b.scheme) (hH : H ≠ []) (hp : PyStr (47 :: p)) (hn : NoSurrogate (47 :: p)) :
    Url.beq a b = true := by
  have hnl : (authText (user.map (q e Gen.QUOTER)) (pw.map (q e Gen.QUOTER)) H port).isEmpty = false :=
    HumanLemmas.isEmpty_false (authText_ne_nil _ _ hH _)
  have hq1 := q_path_cons_slash e p hp hn
  have key : ∀ c : Url, Stores e c user pw H port p kvs f →
      (if c.path.isEmpty && !c.netloc.isEmpty then [47] else c.path) = 47 :: q e Gen.PATH_QUOTER p := by
    intro c sc
    rcases sc.path with h1 | ⟨h1, h2⟩
    · rw [h1, hq1]; simp
    · subst h2
      rw [h1, sc.netloc, q_nil]; simp [hnl]
  simp only [Url.beq, eqKey, decide_eq_true_eq, Parts.mk.injEq]
  exact ⟨hsc, sa.netloc.trans sb.netloc.symm, (key a sa).trans (key b sb).symm, sa.query.trans sb.query.symm,
    sa.fragment.trans sb.fragment.symm⟩

/-- MAIN (URL level).  `u` is ANY URL object that stores the encodings of decoded components (`StoresOK`: made by
    `build`, the constructor, any chain of modifiers …); `hr` is its `human_repr()` computed with the characters selected
    by `lit` left LITERAL in position `comp` (`R5.humanReprLit`).  If in every decoded text of that position the selected
    characters are none of TAB / LF / CR, none of the characters unsafe in the position, and no selected '%' stands in
    front of two hex digits (`LitSafeAt`), then `URL(hr)` succeeds, is `==` to `u`, and stores the same decoded
    components (NFKC proviso as in the master theorem). -/
theorem literal_reparse (e : Env) (u : Url) (user pw : Option Str) (H : Str) (port : Option Nat) (p : Str)
    (kvs : List (Str × Str)) (f : Str) (ok : StoresOK e u user pw H port p kvs f) (comp : String) (lit : Nat → Bool)
    (hsafe : LitSafeAt comp lit user pw p kvs f) :
    ∀ hr, humanReprLit comp lit e u = .ok hr →
      (isAscii (Rfc.appendixB Gen.schemeChars hr).authority = false →
        checkNetloc e.o (Rfc.appendixB Gen.schemeChars hr).authority = .ok ()) →
      ∃ v, encodeUrl e hr = .ok v ∧ Url.beq v u = true ∧ StoresOK e v user pw H port p kvs f := by
  intro hr hh hnf
  obtain ⟨h, D, hk⟩ := ok.hk
  have hrt := hk.rt
  rw [humanReprLit_of_stores comp lit e u user pw H port p kvs f ok.st ok.hu ok.hune hrt.okH ok.hport ok.hp ok.hn,
    humanReprLit_full comp lit e u.scheme user pw H D port p kvs f hrt.okH hrt.shown hrt.disp.ok.1 ok.hport ok.hu
      ok.hune ok.hw ok.hp ok.hn ok.hg ok.hf ok.hfn] at hh
  cases hq1 : humanQuoteLitOpt e.o user (humanUnsafeOf "user") (Lk comp lit "user") with
  | error err => rw [hq1] at hh; cases hh
  | ok usr =>
  cases hq2 : humanQuoteLitOpt e.o pw (humanUnsafeOf "password") (Lk comp lit "password") with
  | error err => rw [hq1, hq2] at hh; cases hh
  | ok pw' =>
  cases h1 : humanQuoteLit e.o (47 :: p) (humanUnsafeOf "path") (Lk comp lit "path") with
  | error err => rw [hq1, hq2, h1] at hh; cases hh
  | ok rp0 =>
  cases h4 : kvs.mapM (litPair e.o comp lit) with
  | error err => rw [hq1, hq2, h1, h4] at hh; cases hh
  | ok qparts =>
  cases h2 : humanQuoteLit e.o f (humanUnsafeOf "fragment") (Lk comp lit "fragment") with
  | error err => rw [hq1, hq2, h1, h4, h2] at hh; cases hh
  | ok rf =>
    rw [hq1, hq2, h1, h4, h2] at hh
    simp only [bind, Except.bind, pure, Except.pure, Except.ok.injEq] at hh
    subst hh
    obtain ⟨t47, t63, t35, tpa, tfa⟩ := path_tab
    -- the conditions, position by position
    have cu : ∀ s, user = some s → LitOK (humanUnsafeOf "user") (Lk comp lit "user") s := fun s hs =>
      litOK_key comp lit "user" s (fun hk => hsafe s (by subst hk; simp [textsAt, hs]))
    have cw : ∀ s, pw = some s → LitOK (humanUnsafeOf "user") (Lk comp lit "password") s := fun s hs => by
      have := litOK_key comp lit "password" s (fun hk => hsafe s (by subst hk; simp [textsAt, hs]))
      rwa [gen_same_lists.1] at this
    have cp : LitOK (humanUnsafeOf "path") (Lk comp lit "path") p :=
      litOK_key comp lit "path" p (fun hk => hsafe p (by subst hk; simp [textsAt]))
    have cq : PairsOK (Lk comp lit "k") (Lk comp lit "v") kvs := fun kv hkv =>
      ⟨litOK_key comp lit "k" kv.1 (fun hk => hsafe kv.1 (by subst hk; simp only [textsAt]; simp; exact ⟨_, hkv⟩)),
       by
        have := litOK_key comp lit "v" kv.2 (fun hk => hsafe kv.2 (by subst hk; simp only [textsAt]; simp; exact ⟨_, hkv⟩))
        rwa [key_val_lists] at this⟩
    have cf : LitOK (humanUnsafeOf "fragment") (Lk comp lit "fragment") f :=
      litOK_key comp lit "fragment" f (fun hk => hsafe f (by subst hk; simp [textsAt]))
    -- user, password
    have hq2' : humanQuoteLitOpt e.o pw (humanUnsafeOf "user") (Lk comp lit "password") = .ok pw' := by
      rw [← gen_same_lists.1]; exact hq2
    obtain ⟨s1, hne1⟩ := spellOpt_lit ok.hu hq1 cu
    obtain ⟨s2, _⟩ := spellOpt_lit ok.hw hq2' cw
    -- the path
    obtain ⟨p0, rp, hp0, hrp, rfl⟩ := (humanQuoteLit_cons e.o _ _ 47 p rp0).mp h1
    rw [litChar_slash] at hp0
    cases hp0
    have hp' : PyStr p := fun y hy => ok.hp y (by simp [hy])
    have hn' : NoSurrogate p := fun y hy => ok.hn y (by simp [hy])
    have cp47 : LitOK (humanUnsafeOf "path") (Lk comp lit "path") (47 :: p) := by
      refine ⟨?_, ⟨fun _ h47 => (by cases h47), cp.2⟩⟩
      intro c hc hl
      rcases List.mem_cons.mp hc with rfl | hc
      · exact ⟨by decide, by decide, by decide, t47⟩
      · exact cp.1 c hc hl
    have hpath : q e Gen.PATH_REQUOTER (47 :: rp) = q e Gen.PATH_QUOTER (47 :: p) :=
      (run_lit_iff Gen.PATH_REQUOTER Gen.PATH_QUOTER (by decide) (by decide) rfl rfl _
        (fun b => (gen_litCompat b).2.1) e _ (47 :: p) ([47] ++ rp) ok.hp ok.hn h1 cp47.1).mpr cp47.2
    have h63 : 63 ∉ rp := lit_avoid tpa hp' hrp cp.1 (by decide) (by decide) (Or.inl t63)
    have h35 : 35 ∉ rp := lit_avoid tpa hp' hrp cp.1 (by decide) (by decide) (Or.inl t35)
    have hc1 : Clean rp := fun c hc =>
      ⟨fun e9 => lit_avoid tpa hp' hrp cp.1 (d := 9) (by decide) (by decide) (Or.inr (Or.inl rfl)) (e9 ▸ hc),
       fun e9 => lit_avoid tpa hp' hrp cp.1 (d := 10) (by decide) (by decide) (Or.inr (Or.inr (Or.inl rfl))) (e9 ▸ hc),
       fun e9 => lit_avoid tpa hp' hrp cp.1 (d := 13) (by decide) (by decide) (Or.inr (Or.inr (Or.inr rfl))) (e9 ▸ hc)⟩
    -- the fragment
    have hc2 : Clean rf := fun c hc =>
      ⟨fun e9 => lit_avoid tfa ok.hf h2 cf.1 (d := 9) (by decide) (by decide) (Or.inr (Or.inl rfl)) (e9 ▸ hc),
       fun e9 => lit_avoid tfa ok.hf h2 cf.1 (d := 10) (by decide) (by decide) (Or.inr (Or.inr (Or.inl rfl))) (e9 ▸ hc),
       fun e9 => lit_avoid tfa ok.hf h2 cf.1 (d := 13) (by decide) (by decide) (Or.inr (Or.inr (Or.inr rfl))) (e9 ▸ hc)⟩
    have hfrag : FixLemmas.encFragment e rf = fragText e f := by
      unfold FixLemmas.encFragment fragText
      by_cases hf0 : f = []
      · subst hf0
        rw [humanQuoteLit_nil] at h2; cases h2; rfl
      · have hne := lit_ne_nil (gen_litCompat e.b).2.2.1.hex ok.hf ok.hfn hf0 h2
        rw [HumanLemmas.isEmpty_false hne, HumanLemmas.isEmpty_false hf0]
        simp only [Bool.false_eq_true, ↓reduceIte]
        exact (run_lit_iff Gen.FRAGMENT_REQUOTER Gen.FRAGMENT_QUOTER (by decide) (by decide) rfl rfl _
          (fun b => (gen_litCompat b).2.2.1) e _ f rf ok.hf ok.hfn h2 cf.1).mpr cf.2
    -- the query
    obtain ⟨_, _, hqbad⟩ := litQuery_chars e.o comp lit kvs qparts ok.hg cq.ch h4
    have hq35 : ∀ c ∈ joinC 38 qparts, c ≠ 35 := fun c hc e9 => hqbad 35 (by decide) (e9 ▸ hc)
    have hcq : Clean (joinC 38 qparts) := fun c hc =>
      ⟨fun e9 => hqbad 9 (by decide) (e9 ▸ hc), fun e9 => hqbad 10 (by decide) (e9 ▸ hc),
       fun e9 => hqbad 13 (by decide) (e9 ▸ hc)⟩
    have hquery : FixLemmas.encQuery e (joinC 38 qparts) = qtext e.b kvs := by
      unfold FixLemmas.encQuery
      split
      · rename_i hemp
        have := (litQuery_nil_iff e.o comp lit kvs qparts h4).mp (List.isEmpty_iff.mp hemp)
        subst this
        rw [List.isEmpty_iff.mp hemp]; rfl
      · exact query_requote_lit e comp lit kvs qparts ok.hg cq h4
    -- the text, and the NFKC proviso on its authority
    have hcomp : unsplitResult u.scheme (authText usr pw' D port) ([47] ++ rp) (joinC 38 qparts) rf =
        composeUrl u.scheme (authText usr pw' D port) (47 :: rp) (joinC 38 qparts) rf :=
      FixLemmas.unsplit_compose u.scheme _ _ _ _ ok.vs.ne (authText_ne_nil usr pw' hrt.disp.ok.1 port) (Or.inr ⟨rp, rfl⟩)
    rw [hcomp] at hnf ⊢
    rw [FixLemmas.appendixB_compose u.scheme _ (47 :: rp) _ rf (schemeOK_of_valid ok.vs)
      (fun c hc => by
        obtain ⟨a1, a2, a3, _⟩ := authText_human_chars port s1.part s2.part hrt.disp c hc
        simp [Rfc.isDelim3, a1, a2, a3])
      (Or.inr ⟨rp, rfl⟩)
      (fun c hc => by
        rcases List.mem_cons.mp hc with rfl | hc
        · omega
        · exact ⟨fun e9 => h63 (e9 ▸ hc), fun e9 => h35 (e9 ▸ hc)⟩)
      hq35] at hnf
    obtain ⟨v, hv, hvs, hvok, _⟩ := C18_constructor_any_spelling e u.scheme user pw h H D port p kvs f usr pw' rp
      (joinC 38 qparts) rf ok.vs hk ok.hport ok.hu ok.hw ok.hune ok.hp ok.hn ok.hnorm ok.hg ok.hf ok.hfn s1 s2
      (hne1 ok.hune) hpath (fun c hc => ⟨fun e9 => h63 (e9 ▸ hc), fun e9 => h35 (e9 ▸ hc)⟩) hc1 hquery hq35 hcq
      hfrag hc2 hnf
    exact ⟨v, hv, beq_of_stores e v u user pw H port p kvs f hvok.st ok.st hvs hrt.okH.1 ok.hp ok.hn, hvok⟩

theorem pctOK_of_not37 {lit : Nat → Bool} (h : lit 37 = false) : ∀ x : Str, PctOK lit x
  | [] => trivial
  | c :: s => ⟨fun hl hc => (by subst hc; rw [h] at hl; cases hl), pctOK_of_not37 h s⟩

theorem textsAt_pos {comp : String} {user pw : Option Str} {p : Str} {kvs : List (Str × Str)} {f x : Str}
    (h : x ∈ textsAt comp user pw p kvs f) : comp ∈ positions := by
  unfold textsAt at h
  by_cases h1 : comp = "user"
  · subst h1; decide
  by_cases h2 : comp = "password"
  · subst h2; decide
  by_cases h3 : comp = "path"
  · subst h3; decide
  by_cases h4 : comp = "k"
  · subst h4; decide
  by_cases h5 : comp = "v"
  · subst h5; decide
  by_cases h6 : comp = "fragment"
  · subst h6; decide
  simp [h1, h2, h3, h4, h5, h6] at h

/-- every character that is unsafe in one of the six positions is printable ASCII other than '%' -/
theorem unsafe_printable : ∀ comp ∈ positions, ∀ c ∈ humanUnsafeOf comp, 32 ≤ c ∧ c < 127 ∧ c ≠ 37 := by decide

/-- `cleanUrl` (strip leading C0-or-space, remove TAB / LF / CR) does not see TAB / LF / CR -/
theorem lstrip_filter (s : Str) :
    lstripSet Gen.stripSet (s.filter (fun c => !mem c Gen.removeSet)) =
      (lstripSet Gen.stripSet s).filter (fun c => !mem c Gen.removeSet) := by
  have hsub : ∀ c, mem c Gen.removeSet = true → mem c Gen.stripSet = true := by
    intro c hc
    have : c ∈ Gen.removeSet := GenTabs.mem_iff.mp hc
    have h' : ∀ d ∈ Gen.removeSet, mem d Gen.stripSet = true := by decide
    exact h' c this
  induction s with
  | nil => rfl
  | cons x xs ih =>
    cases hx : mem x Gen.removeSet with
    | true =>
      have h1 : (x :: xs).filter (fun c => !mem c Gen.removeSet) = xs.filter (fun c => !mem c Gen.removeSet) := by
        simp [List.filter_cons, hx]
      rw [h1, ih]
      simp only [lstripSet, hsub x hx, if_true]
    | false =>
      have h1 : (x :: xs).filter (fun c => !mem c Gen.removeSet) = x :: xs.filter (fun c => !mem c Gen.removeSet) := by
        simp [List.filter_cons, hx]
      rw [h1]
      simp only [lstripSet]
      split
      · exact ih
      · rw [h1]

theorem cleanUrl_filter (s : Str) : cleanUrl (s.filter (fun c => !mem c Gen.removeSet)) = cleanUrl s := by
  unfold cleanUrl
  rw [lstrip_filter, List.filter_filter]
  congr 1
  funext c
  simp

theorem splitUrl_clean (o : Oracles) (s s' : Str) (h : cleanUrl s = cleanUrl s') : splitUrl o s = splitUrl o s' := by
  unfold splitUrl
  simp only [h]

end R12

/-! ## C18 GAPS 6 (ii), GAPS 10 — non-printable characters, UNIVERSALLY, at URL level -/

/-- GAPS 10: the instrumented copy `R5.humanReprLit` of `human_repr()` IS `human_repr()` when nothing is left literal —
    for EVERY URL and position name (it was tied by one computed instance, `C18_humanReprLit_std`). -/
theorem C18_humanReprLit_none (comp : String) (e : Env) (u : Url) :
    humanReprLit comp (fun _ => false) e u = humanRepr e u := humanReprLit_none comp e u

/-- the UNIVERSAL statement behind both classifications: `u` ANY URL object that stores the encodings of decoded
    components (`StoresOK` — `build`, the constructor on any spelling, every chain of modifiers); `hr` its
    `human_repr()` with the characters selected by `lit` left LITERAL in position `comp` (one of "user", "password",
    "path", "k", "v", "fragment").  If, in every decoded text of that position, the selected characters are none of
    TAB / LF / CR, none of the characters unsafe in the position, and no selected '%' stands in front of two hex digits
    (`R12.LitSafeAt`, decidable), then `URL(hr)` succeeds, is `==` to `u` and stores the same decoded components (so
    every modifier may follow).  NFKC proviso as in the master theorem (F-C18-nfkc-userinfo). -/
theorem C18_literal_roundtrip (e : Env) (u : Url) (user pw : Option Str) (H : Str) (port : Option Nat) (p : Str)
    (kvs : List (Str × Str)) (f : Str) (ok : StoresOK e u user pw H port p kvs f) (comp : String) (lit : Nat → Bool)
    (hsafe : LitSafeAt comp lit user pw p kvs f) :
    ∀ hr, humanReprLit comp lit e u = .ok hr →
      (isAscii (Rfc.appendixB Gen.schemeChars hr).authority = false →
        checkNetloc e.o (Rfc.appendixB Gen.schemeChars hr).authority = .ok ()) →
      ∃ v, encodeUrl e hr = .ok v ∧ Url.beq v u = true ∧ StoresOK e v user pw H port p kvs f :=
  literal_reparse e u user pw H port p kvs f ok comp lit hsafe

/-- "non-printable characters are escaped" — NONE of these escapes is needed for the parse, except those of TAB, LF
    and CR: UNIVERSALLY.  For every URL that stores the encodings of decoded components, every position, and EVERY set
    `lit` of characters that `str.isprintable()` rejects (C0 controls, DEL, every non-printable non-ASCII character —
    whatever the `isprintable` oracle says) other than TAB / LF / CR: the text shown with those characters left literal
    is read back by `URL(…)` to an equal URL.  (The parser only strips TAB / LF / CR and splits at the delimiters;
    everything else is re-quoted: `C18_tab_lf_cr_dropped` is the converse for TAB / LF / CR.) -/
theorem C18_nonprintable_literal_roundtrip (e : Env) (u : Url) (user pw : Option Str) (H : Str) (port : Option Nat)
    (p : Str) (kvs : List (Str × Str)) (f : Str) (ok : StoresOK e u user pw H port p kvs f) (comp : String)
    (lit : Nat → Bool)
    (hlit : ∀ c, lit c = true → isPrintableChar e.o c = .ok false ∧ c ≠ 9 ∧ c ≠ 10 ∧ c ≠ 13) :
    ∀ hr, humanReprLit comp lit e u = .ok hr →
      (isAscii (Rfc.appendixB Gen.schemeChars hr).authority = false →
        checkNetloc e.o (Rfc.appendixB Gen.schemeChars hr).authority = .ok ()) →
      ∃ v, encodeUrl e hr = .ok v ∧ Url.beq v u = true := by
  intro hr hh hnf
  have h37 : lit 37 = false := by
    cases h : lit 37 with
    | false => rfl
    | true =>
      have := (hlit 37 h).1
      rw [isPrintableChar_ascii e.o (by omega)] at this
      cases this
  have hsafe : LitSafeAt comp lit user pw p kvs f := by
    intro x hx
    have hpos := textsAt_pos hx
    refine ⟨?_, pctOK_of_not37 h37 x⟩
    intro c _ hl
    obtain ⟨a1, a2, a3, a4⟩ := hlit c hl
    refine ⟨a2, a3, a4, ?_⟩
    cases hm : mem c (humanUnsafeOf comp) with
    | false => rfl
    | true =>
      obtain ⟨b1, b2, _⟩ := unsafe_printable comp hpos c (GenTabs.mem_iff.mp hm)
      rw [isPrintableChar_ascii e.o (by omega)] at a1
      simp only [Except.ok.injEq, Bool.and_eq_false_iff, decide_eq_false_iff_not] at a1
      omega
  obtain ⟨v, h1, h2, _⟩ := literal_reparse e u user pw H port p kvs f ok comp lit hsafe hr hh hnf
  exact ⟨v, h1, h2⟩

/-- the converse for TAB, LF and CR, at parser level and for EVERY input string: `URL(s)` IS `URL(s without its TAB /
    LF / CR characters)` — `split_url` removes them before anything else.  So a TAB / LF / CR left literal in a decoded
    text is silently dropped by the re-parse: that escape IS needed. -/
theorem C18_tab_lf_cr_dropped (e : Env) (s : Str) :
    encodeUrl e s = encodeUrl e (s.filter (fun c => !mem c Gen.removeSet)) ∧ Gen.removeSet = [9, 13, 10] := by
  refine ⟨?_, rfl⟩
  rw [FixLemmas.encodeUrl_eq, FixLemmas.encodeUrl_eq, splitUrl_clean e.o s _ (cleanUrl_filter s).symm]

/-- "'%' … [is] escaped" at URL level, the direction "not needed": for every URL that stores the encodings of decoded
    components and every position, if NO '%' of the decoded texts of that position is followed by two hex digits
    (`R12.PctOK (· == 37)`), the text shown with every '%' of that position left LITERAL is read back by `URL(…)` to an
    equal URL.  (The direction "needed" is `C18_percent_literal_iff` / `C18_percent_literal_all_iff`: the stored
    component differs.) -/
theorem C18_percent_literal_roundtrip (e : Env) (u : Url) (user pw : Option Str) (H : Str) (port : Option Nat)
    (p : Str) (kvs : List (Str × Str)) (f : Str) (ok : StoresOK e u user pw H port p kvs f) (comp : String)
    (hpos : comp ∈ positions)
    (hpct : ∀ x ∈ textsAt comp user pw p kvs f, PctOK (· == 37) x) :
    ∀ hr, humanReprLit comp (· == 37) e u = .ok hr →
      (isAscii (Rfc.appendixB Gen.schemeChars hr).authority = false →
        checkNetloc e.o (Rfc.appendixB Gen.schemeChars hr).authority = .ok ()) →
      ∃ v, encodeUrl e hr = .ok v ∧ Url.beq v u = true := by
  intro hr hh hnf
  have hsafe : LitSafeAt comp (· == 37) user pw p kvs f := by
    intro x hx
    refine ⟨?_, hpct x hx⟩
    intro c _ hl
    have hc : c = 37 := by simpa using hl
    subst hc
    refine ⟨by decide, by decide, by decide, ?_⟩
    cases hm : mem 37 (humanUnsafeOf comp) with
    | false => rfl
    | true => exact absurd rfl (unsafe_printable comp hpos 37 (GenTabs.mem_iff.mp hm)).2.2
  obtain ⟨v, h1, h2, _⟩ := literal_reparse e u user pw H port p kvs f ok comp _ hsafe hr hh hnf
  exact ⟨v, h1, h2⟩

/-! ## C18 GAPS 6 (i) — every '%' of a text left literal; the decoded level; counterexample -/

/-- ALL the '%' of a decoded text `x` left literal (more generally: any set `lit` of characters none of which is TAB /
    LF / CR or unsafe in the position — `R12.LitChars`): with `X` the text so shown (`R5.humanQuoteLit`), the
    constructor's requoter reads `X` as the encoding `build` stores for `x` IF AND ONLY IF no '%' that was left literal
    is followed by two hex digits in `x` (`R12.PctOK lit x`).  Every position kind, both backends. -/
theorem C18_percent_literal_all_iff (e : Env) (lit : Nat → Bool) (x X : Str) (hx : PyStr x) (hxn : NoSurrogate x) :
    (∀ key, key = "user" ∨ key = "password" →
      humanQuoteLit e.o x (humanUnsafeOf key) lit = .ok X → LitChars (humanUnsafeOf key) lit x →
      (q e Gen.REQUOTER X = q e Gen.QUOTER x ↔ PctOK lit x)) ∧
    (humanQuoteLit e.o x (humanUnsafeOf "path") lit = .ok X → LitChars (humanUnsafeOf "path") lit x →
      (q e Gen.PATH_REQUOTER X = q e Gen.PATH_QUOTER x ↔ PctOK lit x)) ∧
    (∀ key, key = "k" ∨ key = "v" →
      humanQuoteLit e.o x (humanUnsafeOf key) lit = .ok X → LitChars (humanUnsafeOf key) lit x →
      (q e Gen.QUERY_REQUOTER X = q e Gen.QUERY_PART_QUOTER x ↔ PctOK lit x)) ∧
    (humanQuoteLit e.o x (humanUnsafeOf "fragment") lit = .ok X → LitChars (humanUnsafeOf "fragment") lit x →
      (q e Gen.FRAGMENT_REQUOTER X = q e Gen.FRAGMENT_QUOTER x ↔ PctOK lit x)) := by
  refine ⟨?_, ?_, ?_, ?_⟩
  · intro key hk hX hl
    have hlist : humanUnsafeOf key = humanUnsafeOf "user" := by
      rcases hk with rfl | rfl
      · rfl
      · exact gen_same_lists.1
    rw [hlist] at hX hl
    exact run_lit_iff Gen.REQUOTER Gen.QUOTER (by decide) (by decide) rfl rfl _ (fun b => (gen_litCompat b).1)
      e lit x X hx hxn hX hl
  · intro hX hl
    exact run_lit_iff Gen.PATH_REQUOTER Gen.PATH_QUOTER (by decide) (by decide) rfl rfl _
      (fun b => (gen_litCompat b).2.1) e lit x X hx hxn hX hl
  · intro key hk hX hl
    have hlist : humanUnsafeOf key = humanUnsafeOf "k" := by
      rcases hk with rfl | rfl
      · rfl
      · exact gen_same_lists.2
    rw [hlist] at hX hl
    exact run_lit_iff Gen.QUERY_REQUOTER Gen.QUERY_PART_QUOTER (by decide) (by decide) rfl rfl _
      (fun b => (gen_litCompat b).2.2.2) e lit x X hx hxn hX hl
  · intro hX hl
    exact run_lit_iff Gen.FRAGMENT_REQUOTER Gen.FRAGMENT_QUOTER (by decide) (by decide) rfl rfl _
      (fun b => (gen_litCompat b).2.2.1) e lit x X hx hxn hX hl

/-- the DECODED level (`unquote(requote(text with the '%' literal))`), direction "not needed": when the '%' is not
    followed by two hex digits, the decoded accessor reads the text back — user / password and fragment through
    UNQUOTER, path through PATH_UNQUOTER. -/
theorem C18_percent_literal_decoded (e : Env) (x y X Y : Str)
    (hx : PyStr x) (hxn : NoSurrogate x) (hy : PyStr y) (hyn : NoSurrogate y) (h2 : twoHex y = false) :
    (∀ key, key = "user" ∨ key = "password" →
      humanQuote e.o x (humanUnsafeOf key) = .ok X → humanQuote e.o y (humanUnsafeOf key) = .ok Y →
      uq e Gen.UNQUOTER (q e Gen.REQUOTER (X ++ 37 :: Y)) = x ++ 37 :: y) ∧
    (humanQuote e.o x (humanUnsafeOf "path") = .ok X → humanQuote e.o y (humanUnsafeOf "path") = .ok Y →
      uq e Gen.PATH_UNQUOTER (q e Gen.PATH_REQUOTER (X ++ 37 :: Y)) = x ++ 37 :: y) ∧
    (humanQuote e.o x (humanUnsafeOf "fragment") = .ok X → humanQuote e.o y (humanUnsafeOf "fragment") = .ok Y →
      uq e Gen.UNQUOTER (q e Gen.FRAGMENT_REQUOTER (X ++ 37 :: Y)) = x ++ 37 :: y) := by
  obtain ⟨k1, k2, _, k4⟩ := C18_percent_literal_iff e x y X Y hx hxn hy hyn
  have g3 : PyStr (x ++ 37 :: y) := by
    intro c hc
    simp only [List.mem_append, List.mem_cons] at hc
    rcases hc with hc | rfl | hc
    · exact hx c hc
    · show (37 : Nat) ≤ 0x10FFFF; omega
    · exact hy c hc
  have g4 : NoSurrogate (x ++ 37 :: y) := by
    intro c hc
    simp only [List.mem_append, List.mem_cons] at hc
    rcases hc with hc | rfl | hc
    · exact hxn c hc
    · rfl
    · exact hyn c hc
  refine ⟨?_, ?_, ?_⟩
  · intro key hk hX hY
    rw [(k1 key hk hX hY).mpr h2]
    exact user_readback e _ g3 g4
  · intro hX hY
    rw [(k2 hX hY).mpr h2]
    exact path_readback e _ g3 g4
  · intro hX hY
    rw [(k4 hX hY).mpr h2]
    exact fragment_readback e _ g3 g4

/-- … and the converse is FALSE at the decoded level (it holds at the level of the stored component,
    `C18_percent_literal_iff`): the decoded text "%FF" (Python: `URL.build(scheme="http", host="h", path="/%FF")`, or
    user / fragment "%FF").  Its '%' IS followed by two hex digits; left literal, the requoter keeps `%FF` as an escape
    (stored `%FF`, while `build` stores `%25FF`: the URLs are not `==`) — but `%FF` is not UTF-8, the unquoter keeps it
    verbatim, and the decoded accessor reads "%FF" again.  So "changes the re-parse" must be read on the stored
    components (`==`), not on the decoded accessors.  Both backends. -/
theorem C18_percent_literal_decoded_converse_fails : ∀ b : Backend,
    let e : Env := ⟨b, Oracles.empty⟩
    twoHex "FF".toStr = true ∧
    humanQuote e.o [] (humanUnsafeOf "path") = .ok [] ∧ humanQuote e.o "FF".toStr (humanUnsafeOf "path") = .ok "FF".toStr ∧
    q e Gen.PATH_REQUOTER "%FF".toStr = "%FF".toStr ∧ q e Gen.PATH_QUOTER "%FF".toStr = "%25FF".toStr ∧
    uq e Gen.PATH_UNQUOTER (q e Gen.PATH_REQUOTER "%FF".toStr) = "%FF".toStr ∧
    uq e Gen.UNQUOTER (q e Gen.REQUOTER "%FF".toStr) = "%FF".toStr ∧
    uq e Gen.UNQUOTER (q e Gen.FRAGMENT_REQUOTER "%FF".toStr) = "%FF".toStr := by
  intro b; cases b <;> decide +kernel

/-! ## non-vacuity and computed instances -/

section checks
open R12

/-- the witness: `URL.build(scheme="http", user="u%zz", host="example.com", path="/a\x01b%4", query={"k%": "v\x7f%"},
    fragment="f%")` as a stored record (`R5.ctorUrl`), oracle `HumanMore.demo` -/
private def wit (b : Backend) : Url :=
  ctorUrl ⟨b, demo⟩ "http".toStr (some "u%zz".toStr) none "example.com".toStr none [97, 1, 98, 37, 52]
    [("k%".toStr, [118, 127, 37])] "f%".toStr

private theorem wit_ok (b : Backend) :
    StoresOK ⟨b, demo⟩ (wit b) (some "u%zz".toStr) none "example.com".toStr none [97, 1, 98, 37, 52]
      [("k%".toStr, [118, 127, 37])] "f%".toStr :=
  ctorUrl_storesOK ⟨b, demo⟩ "http".toStr (some "u%zz".toStr) none "example.com".toStr "example.com".toStr
    "example.com".toStr none _ _ _ (by decide)
    (.plain (by decide +kernel) (by show demo.idnaDec _ = _; decide +kernel)) (by intro x hx; cases hx)
    (utext_some (by decide)) (by intro t ht; cases ht; decide) utext_none (by decide) (by decide) (by decide +kernel)
    (by decide) (by decide) (by decide)

/-- the characters left literal: '%', SOH, DEL — the hypotheses of `C18_literal_roundtrip` hold in EVERY position … -/
private def litW : Nat → Bool := fun c => c == 37 || c == 1 || c == 127

example : ∀ comp ∈ positions, LitSafeAt comp litW (some "u%zz".toStr) none [97, 1, 98, 37, 52]
    [("k%".toStr, [118, 127, 37])] "f%".toStr := by decide +kernel

/-- … the text shown has them literal, and `URL(…)` of it is `==` the URL (computed; the theorem says the same) -/
example : ∀ b : Backend,
    humanReprLit "path" litW ⟨b, demo⟩ (wit b) =
      .ok ("http://u%25zz@example.com/a".toStr ++ [1] ++ "b%4?k%25=v%7F%25#f%25".toStr) ∧
    humanReprLit "v" litW ⟨b, demo⟩ (wit b) =
      .ok ("http://u%25zz@example.com/a%01b%254?k%25=v".toStr ++ [127, 37] ++ "#f%25".toStr) := by
  intro b; cases b <;> decide +kernel

example (b : Backend) (comp : String) (hc : comp ∈ positions) (hr : Str)
    (h : humanReprLit comp litW ⟨b, demo⟩ (wit b) = .ok hr) :
    ∃ v, encodeUrl ⟨b, demo⟩ hr = .ok v ∧ Url.beq v (wit b) = true := by
  have hall : ∀ comp ∈ positions, LitSafeAt comp litW (some "u%zz".toStr) none [97, 1, 98, 37, 52]
      [("k%".toStr, [118, 127, 37])] "f%".toStr := by decide +kernel
  -- the authority of the shown text is ASCII, whatever the position
  have key : ∀ comp ∈ positions, ((humanReprLit comp litW ⟨b, demo⟩ (wit b)).toOption.all
      (fun hr => isAscii (Rfc.appendixB Gen.schemeChars hr).authority)) = true := by
    cases b <;> decide +kernel
  have hasc : isAscii (Rfc.appendixB Gen.schemeChars hr).authority = true := by
    have := key comp hc
    rw [h] at this
    simpa [Except.toOption] using this
  obtain ⟨v, h1, h2, _⟩ := C18_literal_roundtrip _ _ _ _ _ _ _ _ _ (wit_ok b) comp litW (hall comp hc) hr h
    (fun hna => by rw [hasc] at hna; cases hna)
  exact ⟨v, h1, h2⟩

/-- `C18_nonprintable_literal_roundtrip`: a `lit` that satisfies its hypothesis (all C0 controls except TAB / LF / CR,
    DEL, and the non-printable non-ASCII character U+200B of the demonstration oracle) -/
example : ∀ c, (fun c => (c < 32 && c != 9 && c != 10 && c != 13) || c == 127 || c == 0x200B) c = true →
    isPrintableChar demo c = .ok false ∧ c ≠ 9 ∧ c ≠ 10 ∧ c ≠ 13 := by
  intro c hc
  simp only [Bool.or_eq_true, Bool.and_eq_true, decide_eq_true_eq, bne_iff_ne, beq_iff_eq] at hc
  rcases hc with (⟨⟨⟨h1, h2⟩, h3⟩, h4⟩ | rfl) | rfl
  · refine ⟨?_, h2, h3, h4⟩
    rw [isPrintableChar_ascii demo (by omega)]
    simp only [Except.ok.injEq, Bool.and_eq_false_iff, decide_eq_false_iff_not]; omega
  · exact ⟨by decide, by decide, by decide, by decide⟩
  · exact ⟨by decide +kernel, by decide, by decide, by decide⟩

/-- `C18_percent_literal_iff` on the texts of `C18_percent_escape_needed`: "a%41" (needed), "a%zz", "a%4" (not) — and
    the theorem agrees with the computation -/
example : ∀ b : Backend,
    let e : Env := ⟨b, demo⟩
    humanQuote e.o "a".toStr (humanUnsafeOf "path") = .ok "a".toStr ∧
    humanQuote e.o "41".toStr (humanUnsafeOf "path") = .ok "41".toStr ∧
    twoHex "41".toStr = true ∧ twoHex "zz".toStr = false ∧ twoHex "4".toStr = false ∧
    q e Gen.PATH_REQUOTER "a%41".toStr = "aA".toStr ∧ q e Gen.PATH_QUOTER "a%41".toStr = "a%2541".toStr ∧
    q e Gen.PATH_REQUOTER "a%zz".toStr = q e Gen.PATH_QUOTER "a%zz".toStr ∧
    q e Gen.PATH_REQUOTER "a%4".toStr = q e Gen.PATH_QUOTER "a%4".toStr := by
  intro b; cases b <;> decide +kernel

example (b : Backend) : q ⟨b, demo⟩ Gen.PATH_REQUOTER ("a".toStr ++ 37 :: "41".toStr) ≠
    q ⟨b, demo⟩ Gen.PATH_QUOTER ("a".toStr ++ 37 :: "41".toStr) := by
  have h := (C18_percent_literal_iff ⟨b, demo⟩ "a".toStr "41".toStr "a".toStr "41".toStr (by decide) (by decide)
    (by decide) (by decide)).2.1 (by show humanQuote demo _ _ = _; decide +kernel)
    (by show humanQuote demo _ _ = _; decide +kernel)
  intro he
  have := h.mp he
  revert this; decide

/-- the finding of `C18_percent_literal_decoded_converse_fails` at URL level (Python: `u = URL.build(scheme="http",
    host="example.com", path="/%FF")`; `URL("http://example.com/%FF") != u` although both have `.path == "/%FF"`) -/
example : ∀ b : Backend,
    changesParseLit b "path" "%FF".toStr 37 = some true ∧
    (do let u ← build ⟨b, demo⟩ (witnessT "path" "%FF".toStr); pure (pathDecoded ⟨b, demo⟩ u)) = .ok "/%FF".toStr ∧
    (do let v ← encodeUrl ⟨b, demo⟩ "http://example.com/%FF".toStr; pure (pathDecoded ⟨b, demo⟩ v)) = .ok "/%FF".toStr := by
  intro b; cases b <;> decide +kernel

/-- `C18_tab_lf_cr_dropped` on a path with a literal TAB: it reads back WITHOUT the TAB (the escape is needed) -/
example : ∀ b : Backend,
    (encodeUrl ⟨b, demo⟩ ("http://example.com/a".toStr ++ [9] ++ "b".toStr)).map Url.parts =
      (encodeUrl ⟨b, demo⟩ "http://example.com/ab".toStr).map Url.parts := by
  intro b
  have := (C18_tab_lf_cr_dropped ⟨b, demo⟩ ("http://example.com/a".toStr ++ [9] ++ "b".toStr)).1
  rw [this]
  have h2 : ("http://example.com/a".toStr ++ [9] ++ "b".toStr).filter (fun c => !mem c Gen.removeSet) =
      "http://example.com/ab".toStr := by decide +kernel
  rw [h2]

end checks

end Yarl
