/-
  C05.lean — pure-Python and compiled quoters are interchangeable.
-/
import YarlProofs.Lemmas.DecLemmas
import YarlProofs.Lemmas.WriterLemmas
namespace Yarl
open Yarl.DecLemmas

/-- every generated quoter configuration: both backends return the same string -/
theorem C05_quote (a : QArgs) (ha : a ∈ Gen.allQuoters) (s : Str) (hs : PyStr s) :
    a.run .py s = a.run .c s := qrun_backend a ha s hs

/-- every generated unquoter configuration: both backends return the same string -/
theorem C05_unquote (a : UArgs) (ha : a ∈ Gen.allUnquoters) (s : Str) : a.run .py s = a.run .c s :=
  let _ := ha
  uqrun_backend a s

/-- (extra) the same for ANY unquoter keyword arguments, not only the generated ones -/
theorem C05_unquote_any (a : UArgs) (s : Str) : a.run .py s = a.run .c s := uqrun_backend a s

/-- growth steps of the compiled writer are invisible, for every buffer size -/
theorem C05_writer (n : Nat) (hn : 0 < n) (cs : List Nat) :
    (Writer.run n (fun _ => false) cs).1 = .ok cs := Writer.run_ok n hn cs

theorem C05_writer_gen (cs : List Nat) : (Writer.run Gen.bufSize (fun _ => false) cs).1 = .ok cs :=
  Writer.run_ok Gen.bufSize (by decide) cs

/-! ### URL level -/

theorem C05_encodeUrl_backend (o : Oracles) (s : Str) (hs : PyStr s) :
    encodeUrl { b := .py, o := o } s = encodeUrl { b := .c, o := o } s := by
  unfold encodeUrl
  simp only []
  cases hp : splitUrl o s with
  | error err => rfl
  | ok p =>
    obtain ⟨hnet, hpath, hquery, hfrag⟩ := pyStr_splitUrl o s hs p hp
    simp only [bind, Except.bind, pure, Except.pure]
    rw [q_backend o Gen.PATH_REQUOTER (by decide) p.path hpath,
      q_backend o Gen.QUERY_REQUOTER (by decide) p.query hquery,
      q_backend o Gen.FRAGMENT_REQUOTER (by decide) p.fragment hfrag]
    by_cases hne : p.netloc.isEmpty = true
    · simp only [hne, ↓reduceIte]
    · simp only [hne, Bool.false_eq_true, ↓reduceIte]
      by_cases hm : (mem 58 p.netloc || mem 64 p.netloc || mem 91 p.netloc) = true
      · simp only [hm, ↓reduceIte]
        cases hsn : splitNetloc o p.netloc with
        | error err => rfl
        | ok np =>
          obtain ⟨hu, hpw⟩ := pyStr_splitNetloc o p.netloc hnet np hsn
          simp only
          rw [requoteOpt_backend o np.user hu, requoteOpt_backend o np.password hpw]
          simp only [makeNetloc_noenc (q { b := .py, o := o } Gen.QUOTER) (q { b := .c, o := o } Gen.QUOTER)]
      · simp only [hm, Bool.false_eq_true, ↓reduceIte]
        rfl

/-- the decoded accessors do not depend on the backend (no hypothesis on the URL is needed at all) -/
theorem C05_accessors_backend' (o : Oracles) (u : Url) :
    pathDecoded { b := .py, o := o } u = pathDecoded { b := .c, o := o } u ∧
    pathSafe { b := .py, o := o } u = pathSafe { b := .c, o := o } u ∧
    queryString { b := .py, o := o } u = queryString { b := .c, o := o } u ∧
    fragmentDecoded { b := .py, o := o } u = fragmentDecoded { b := .c, o := o } u ∧
    partsDecoded { b := .py, o := o } u = partsDecoded { b := .c, o := o } u ∧
    name { b := .py, o := o } u = name { b := .c, o := o } u ∧
    suffix { b := .py, o := o } u = suffix { b := .c, o := o } u ∧
    suffixes { b := .py, o := o } u = suffixes { b := .c, o := o } u ∧
    pathQs { b := .py, o := o } u = pathQs { b := .c, o := o } u := by
  have huq : ∀ a, uq { b := .py, o := o } a = uq { b := .c, o := o } a :=
    fun a => funext (uq_backend o a)
  have h1 : pathDecoded { b := .py, o := o } u = pathDecoded { b := .c, o := o } u := by
    unfold pathDecoded; rw [huq]
  have h3 : queryString { b := .py, o := o } u = queryString { b := .c, o := o } u := by
    unfold queryString; rw [huq]
  refine ⟨h1, ?_, h3, ?_, ?_, ?_, ?_, ?_, ?_⟩
  · unfold pathSafe; rw [huq]
  · unfold fragmentDecoded; rw [huq]
  · unfold partsDecoded; rw [huq]
  · unfold name; rw [huq]
  · unfold suffix; rw [huq]
  · unfold suffixes; rw [huq]
  · unfold pathQs; rw [h1, h3]

theorem C05_accessors_backend (o : Oracles) (u : Url)
    (hu : PyStr u.path ∧ PyStr u.query ∧ PyStr u.fragment ∧ PyStr u.netloc) :
    pathDecoded { b := .py, o := o } u = pathDecoded { b := .c, o := o } u ∧
    pathSafe { b := .py, o := o } u = pathSafe { b := .c, o := o } u ∧
    queryString { b := .py, o := o } u = queryString { b := .c, o := o } u ∧
    fragmentDecoded { b := .py, o := o } u = fragmentDecoded { b := .c, o := o } u ∧
    partsDecoded { b := .py, o := o } u = partsDecoded { b := .c, o := o } u :=
  let _ := hu
  let h := C05_accessors_backend' o u
  ⟨h.1, h.2.1, h.2.2.1, h.2.2.2.1, h.2.2.2.2.1⟩

/-- user / password accessors -/
theorem C05_userinfo_backend (o : Oracles) (u : Url) :
    user { b := .py, o := o } u = user { b := .c, o := o } u ∧
    password { b := .py, o := o } u = password { b := .c, o := o } u := by
  have huq : ∀ a, uq { b := .py, o := o } a = uq { b := .c, o := o } a :=
    fun a => funext (uq_backend o a)
  constructor
  · unfold user; rw [huq]; rfl
  · unfold password; rw [huq]; rfl

theorem C05_with_path_backend (o : Oracles) (u : Url) (path : Str) (hp : PyStr path)
    (encoded keepQuery keepFragment : Bool) :
    withPath { b := .py, o := o } u path encoded keepQuery keepFragment =
      withPath { b := .c, o := o } u path encoded keepQuery keepFragment := by
  unfold withPath
  rw [q_backend o Gen.PATH_QUOTER (by decide) path hp]

theorem C05_with_fragment_backend (o : Oracles) (u : Url) (f : Option Str)
    (hf : ∀ t, f = some t → PyStr t) :
    withFragment { b := .py, o := o } u f = withFragment { b := .c, o := o } u f := by
  unfold withFragment
  cases f with
  | none => rfl
  | some t => simp only [q_backend o Gen.FRAGMENT_QUOTER (by decide) t (hf t rfl)]

theorem C05_with_name_backend (o : Oracles) (u : Url) (nm : Str) (hp : PyStr nm)
    (keepQuery keepFragment : Bool) :
    withName { b := .py, o := o } u nm keepQuery keepFragment =
      withName { b := .c, o := o } u nm keepQuery keepFragment := by
  unfold withName
  rw [q_backend o Gen.PATH_QUOTER (by decide) nm hp]

theorem C05_with_user_backend (o : Oracles) (u : Url) (usr : Option Str)
    (hf : ∀ t, usr = some t → PyStr t) :
    withUser { b := .py, o := o } u usr = withUser { b := .c, o := o } u usr := by
  unfold withUser
  simp only [makeNetloc_noenc (q { b := .py, o := o } Gen.QUOTER) (q { b := .c, o := o } Gen.QUOTER)]
  cases usr with
  | none => rfl
  | some t =>
    simp only [q_backend o Gen.QUOTER (by decide) t (hf t rfl)]
    rfl

theorem C05_with_password_backend (o : Oracles) (u : Url) (pw : Option Str)
    (hf : ∀ t, pw = some t → PyStr t) :
    withPassword { b := .py, o := o } u pw = withPassword { b := .c, o := o } u pw := by
  unfold withPassword
  simp only [makeNetloc_noenc (q { b := .py, o := o } Gen.QUOTER) (q { b := .c, o := o } Gen.QUOTER)]
  cases pw with
  | none => rfl
  | some t =>
    simp only [Option.map_some, q_backend o Gen.QUOTER (by decide) t (hf t rfl)]
    rfl

/-- `with_query(str)` / `with_query(None)` -/
theorem C05_with_query_backend (o : Oracles) (u : Url) (s : Str) (hs : PyStr s) :
    withQuery { b := .py, o := o } u (.str s) = withQuery { b := .c, o := o } u (.str s) ∧
    withQuery { b := .py, o := o } u .none = withQuery { b := .c, o := o } u .none := by
  constructor
  · unfold withQuery getStrQuery
    show (do let qs := (← (if s.isEmpty then Except.ok (some []) else
            Except.ok (some (Gen.QUERY_QUOTER.run .py s)))).getD []; _) = _
    rw [C05_quote Gen.QUERY_QUOTER (by decide) s hs]
  · rfl

/-- `with_query(...)`, any argument kind whose strings are Python strings -/
theorem C05_with_query_backend_any (o : Oracles) (u : Url) (a : QArg) (ha : QArgPy a) :
    withQuery { b := .py, o := o } u a = withQuery { b := .c, o := o } u a := by
  unfold withQuery
  simp only [getStrQuery_backend a ha]

theorem C05_extend_query_backend (o : Oracles) (u : Url) (a : QArg) (ha : QArgPy a) :
    extendQuery { b := .py, o := o } u a = extendQuery { b := .c, o := o } u a := by
  unfold extendQuery
  simp only [getStrQuery_backend a ha]

/-- every string argument of `URL.build` is a Python string -/
def DecLemmas.BuildArgsPy (a : BuildArgs) : Prop :=
  PyStr a.authority ∧ (∀ t, a.user = some t → PyStr t) ∧ (∀ t, a.password = some t → PyStr t) ∧
  PyStr a.path ∧ QArgPy a.query ∧ PyStr a.queryString ∧ PyStr a.fragment

/-- the scheme is lowered without the quoting backend (`build` lowers it since fix e21485a) -/
theorem DecLemmas.lowerAny_backend (o : Oracles) (s : Str) :
    lowerAny { b := .py, o := o } s = lowerAny { b := .c, o := o } s := rfl

/-- `URL.build(...)`, both modes -/
theorem C05_build_backend (o : Oracles) (a : BuildArgs) (ha : BuildArgsPy a) :
    build { b := .py, o := o } a = build { b := .c, o := o } a := by
  obtain ⟨hauth, huser, hpw, hpath, hq, hqs, hfrag⟩ := ha
  have hQ : ∀ t, PyStr t → q { b := .py, o := o } Gen.QUOTER t = q { b := .c, o := o } Gen.QUOTER t :=
    fun t ht => q_backend o Gen.QUOTER (by decide) t ht
  have hmk : ∀ h port enc, makeNetloc (q { b := .py, o := o } Gen.QUOTER) a.user a.password h port enc =
      makeNetloc (q { b := .c, o := o } Gen.QUOTER) a.user a.password h port enc :=
    fun h port enc => makeNetloc_congr _ _ _ _ _ _ _ (fun t ht => hQ t (huser t ht)) (fun t ht => hQ t (hpw t ht))
  unfold build
  simp only [getStrQuery_backend a.query hq, hmk, buildPreEncoded, lowerAny_backend o a.scheme,
    q_backend o Gen.PATH_QUOTER (by decide) a.path hpath,
    q_backend o Gen.FRAGMENT_QUOTER (by decide) a.fragment hfrag]
  have hnp : ∀ np : NetlocParts, splitNetloc o a.authority = .ok np → ∀ h port enc,
      makeNetloc (q { b := .py, o := o } Gen.QUOTER) np.user np.password h port enc =
      makeNetloc (q { b := .c, o := o } Gen.QUOTER) np.user np.password h port enc := by
    intro np hsn h port enc
    obtain ⟨h1, h2⟩ := pyStr_splitNetloc o a.authority hauth np hsn
    exact makeNetloc_congr _ _ _ _ _ _ _ (fun t ht => hQ t (h1 t ht)) (fun t ht => hQ t (h2 t ht))
  cases hsn : splitNetloc o a.authority with
  | error err =>
    by_cases ht : qargTruthy a.query = true
    · simp only [ht, Bool.not_true, Bool.false_and, Bool.false_eq_true, if_false, bind, Except.bind]
    · simp only [ht, Bool.false_eq_true, if_false, bind, Except.bind, pure, Except.pure,
        q_backend o Gen.QUERY_QUOTER (by decide) a.queryString hqs]
  | ok np =>
    have := hnp np hsn
    by_cases ht : qargTruthy a.query = true
    · simp only [ht, Bool.not_true, Bool.false_and, Bool.false_eq_true, if_false, bind, Except.bind, this]
    · simp only [ht, Bool.false_eq_true, if_false, bind, Except.bind, pure, Except.pure, this,
        q_backend o Gen.QUERY_QUOTER (by decide) a.queryString hqs]

/-! ### the remaining readers and modifiers that take the backend -/

theorem C05_str_backend (o : Oracles) (u : Url) : str { b := .py, o := o } u = str { b := .c, o := o } u := by
  unfold str
  simp only [makeNetloc_noenc (q { b := .py, o := o } Gen.QUOTER) (q { b := .c, o := o } Gen.QUOTER)]
  rfl

theorem C05_authority_backend (o : Oracles) (u : Url) :
    authority { b := .py, o := o } u = authority { b := .c, o := o } u := by
  unfold authority
  simp only [makeNetloc_noenc (q { b := .py, o := o } Gen.QUOTER) (q { b := .c, o := o } Gen.QUOTER),
    (C05_userinfo_backend o u).1, (C05_userinfo_backend o u).2]
  rfl

theorem C05_origin_backend (o : Oracles) (u : Url) :
    origin { b := .py, o := o } u = origin { b := .c, o := o } u := by
  unfold origin
  simp only [makeNetloc_noenc (q { b := .py, o := o } Gen.QUOTER) (q { b := .c, o := o } Gen.QUOTER)]
  rfl

theorem C05_with_host_port_backend (o : Oracles) (u : Url) (h : Str) (p : Option Int) (k : Nat) :
    withHost { b := .py, o := o } u h = withHost { b := .c, o := o } u h ∧
    withPort { b := .py, o := o } u p k = withPort { b := .c, o := o } u p k := by
  constructor
  · unfold withHost
    simp only [makeNetloc_noenc (q { b := .py, o := o } Gen.QUOTER) (q { b := .c, o := o } Gen.QUOTER)]
    rfl
  · unfold withPort
    simp only [makeNetloc_noenc (q { b := .py, o := o } Gen.QUOTER) (q { b := .c, o := o } Gen.QUOTER)]
    rfl

theorem C05_human_repr_backend (o : Oracles) (u : Url) :
    humanRepr { b := .py, o := o } u = humanRepr { b := .c, o := o } u := by
  have h := C05_accessors_backend' o u
  unfold humanRepr
  simp only [makeNetloc_noenc (q { b := .py, o := o } Gen.QUOTER) (q { b := .c, o := o } Gen.QUOTER),
    (C05_userinfo_backend o u).1, (C05_userinfo_backend o u).2, h.1, h.2.2.2.1]
  rfl

theorem C05_with_suffix_backend (o : Oracles) (u : Url) (sfx : Str) (hs : PyStr sfx) (kq kf : Bool) :
    withSuffix { b := .py, o := o } u sfx kq kf = withSuffix { b := .c, o := o } u sfx kq kf := by
  unfold withSuffix
  simp only [q_backend o Gen.PATH_QUOTER (by decide) sfx hs]

theorem DecLemmas.makeChild_go_backend (o : Oracles) (enc : Bool) (l : List Str) (hl : ∀ p ∈ l, PyStr p) :
    ∀ last parsed nn, makeChild.go { b := .py, o := o } enc l last parsed nn =
      makeChild.go { b := .c, o := o } enc l last parsed nn := by
  induction l with
  | nil => intro last parsed nn; rfl
  | cons p rest ih =>
    intro last parsed nn
    unfold makeChild.go
    simp only [q_backend o Gen.PATH_QUOTER (by decide) p (hl p (by simp))]
    split
    · rfl
    · exact ih (fun x hx => hl x (by simp [hx])) _ _ _

theorem C05_make_child_backend (o : Oracles) (u : Url) (paths : List Str) (hp : ∀ p ∈ paths, PyStr p)
    (enc : Bool) :
    makeChild { b := .py, o := o } u paths enc = makeChild { b := .c, o := o } u paths enc := by
  unfold makeChild
  rw [makeChild_go_backend o enc paths.reverse (fun p h => hp p (List.mem_reverse.1 h))]

/-! ### non-vacuity -/

namespace DecLemmas
def sampleText : Str := [47, 97, 32, 43, 37, 50, 102, 37, 122, 233, 0x20AC, 0x1F600, 0xD800, 38, 61, 63, 35, 64, 58]
def sampleUrl : Str := " HtTp://us%65r:p w@Example.com:8080/a b/%7e/é?k=v w&x=%zz#fr ag".toStr
end DecLemmas

example : PyStr DecLemmas.sampleText ∧ PyStr DecLemmas.sampleUrl := by decide
example : Gen.PATH_REQUOTER ∈ Gen.allQuoters ∧ Gen.QS_UNQUOTER ∈ Gen.allUnquoters := by decide
/-- both sides of `C05_quote` / `C05_unquote` on a non-trivial input (escapes, non-ASCII, a lone surrogate) -/
example : Gen.PATH_REQUOTER.run .py DecLemmas.sampleText = "/a%20+%2F%25z%C3%A9%E2%82%AC%F0%9F%98%80&=%3F%23@:".toStr ∧
    Gen.PATH_REQUOTER.run .c DecLemmas.sampleText = "/a%20+%2F%25z%C3%A9%E2%82%AC%F0%9F%98%80&=%3F%23@:".toStr := by
  decide +kernel
example : Gen.QS_UNQUOTER.run .py "a+b%2Bc%C3%A9%FF%3d".toStr = "a b%2Bc\u00e9%FF%3D".toStr ∧
    Gen.QS_UNQUOTER.run .c "a+b%2Bc%C3%A9%FF%3d".toStr = "a b%2Bc\u00e9%FF%3D".toStr := by
  decide +kernel
/-- the writer really grows: 3 growth steps with a 2-byte buffer, same bytes out -/
example : (Writer.run 2 (fun _ => false) [1, 2, 3, 4, 5, 6, 7]).2.allocs = 3 ∧
    (Writer.run 2 (fun _ => false) [1, 2, 3, 4, 5, 6, 7]).2.size = 8 := by decide
example : 0 < Gen.bufSize := by decide
/-- `C05_encodeUrl_backend` is about successful constructions too (userinfo, port, every component re-quoted) -/
example : ∀ b : Backend, (encodeUrl ⟨b, Oracles.empty⟩ DecLemmas.sampleUrl).toOption.map
      (fun u => (u.netloc, u.path, u.query, u.fragment)) =
    some ("user:p%20w@example.com:8080".toStr, "/a%20b/~/%C3%A9".toStr, "k=v+w&x=%25zz".toStr, "fr%20ag".toStr) := by
  intro b; cases b <;> decide +kernel

end Yarl
