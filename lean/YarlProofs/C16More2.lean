import YarlProofs.C16More
import YarlProofs.C16Idn
import YarlProofs.Lemmas.HumanFull
/-!
# C16 — gap closing, second wave (C16Headline GAPS 4, 1, 6)

GAPS 4 (RFC 5952 / embedded IPv4):
* `C16_ipv6_text_every_address` — for EVERY value of the eight 16-bit groups, in one statement: lower-case hex groups
  without leading zeros; the LONGEST run of ≥ 2 zero groups, the FIRST on ties, and only that one, replaced by "::";
  a single zero group is never compressed; the model's parser reads the text back to the same groups (so the printer
  is injective and the text a fixed point); no '.', '%', '[', ']', '/' in the text.
* `C16_ipv4_text_parses` — every `a.b.c.d` (octets ≤ 255) IS an IPv4 literal for the parser;
  `C16_ipv6_embedded_ipv4_parse` — an IPv6 text whose last part is a dotted quad, "::"-forms and full forms, in general;
  `C16_ipv4_mapped_canonical` — `::ffff:a.b.c.d` ↦ `[::ffff:X:Y]` for ALL a.b.c.d (parse, `_encode_host`, fixed point);
  `C16_ipv4_compatible_canonical` — `::a.b.c.d` ↦ `[::]` / `[::Y]` / `[::X:Y]`.
GAPS 1 (idempotence in one theorem; the routes agree):
* `C16_validation_only_rejects` — validate_host=True never changes the answer, it only rejects (ValueError);
* `C16_encode_idempotent_every_host` — ONE hypothesis (`h` passes validation), every host kind, ASCII or not, no IDNA
  assumption: re-encoding the stored raw host gives the same result, with validation on and off;
* `C16_host_text_three_routes` — with_host / build(host=) / the constructor store the SAME raw host for the same host
  text, for any shape of the rest of the URL (this also lifts the IDN statement beyond `scheme://h/path#fragment`);
  `C16_host_text_build_authority_route` — so does build(authority=) when the host part passes validation.
GAPS 6 (NFKC clause on the routes without `_check_netloc`):
* `C16_with_host_needs_no_nfkc_screen` — what `with_host` guarantees at URL level instead of the NFKC screen;
  `C16_with_host_nfkc_clause_depends_on_idna` — "is rejected" holds with the real IDNA answers, fails for a hypothetical
  package (evaluated); `C16_build_encoded_skips_host_processing` — `encoded=True` stores the text verbatim, no oracle.
STILL OPEN after this file: `ipv6ToStr` / `parseIPv6` are hand models of CPython's `ipaddress` (differential harness
only); the IDNA / NFKC answers are oracles (trusted base).
-/
set_option linter.unusedVariables false
namespace Yarl
namespace R5
open HostLemmas NetlocLemmas Rfc5952
open Yarl.ParseLemmas (mem_eq)

/-! ## embedded IPv4 (dotted quad as the last part of an IPv6 text) -/

theorem parseIPv4_dot {v4 : Str} {o4 : List Nat} (h : parseIPv4 v4 = some o4) : 46 ∈ v4 := by
  unfold parseIPv4 at h
  split at h; · cases h
  split at h; · cases h
  simp only at h
  split at h; · cases h
  rename_i _ _ hl
  apply Classical.byContradiction
  intro hno
  rw [splitOn_of_not_mem 46 v4 hno] at hl
  simp at hl

theorem parseIPv4_no {v4 : Str} {o4 : List Nat} (h : parseIPv4 v4 = some o4) {k : Nat} (hk : k = 47 ∨ k = 58) :
    k ∉ v4 := by
  intro hm
  rcases parseIPv4_chars h k hm with h1 | h1
  · omega
  · rcases hk with rfl | rfl <;> simp [isDigitC] at h1

/-- the parts of an IPv6 text whose last part is a dotted quad: the quad is replaced by two hex groups -/
theorem parseIPv6_join_v4 (pre : List Str) (v4 : Str) (a b c d : Nat)
    (hp : ∀ p ∈ pre, ∀ c ∈ p, isLowerHexC c) (hlen : 2 ≤ pre.length)
    (h4 : parseIPv4 v4 = some [a, b, c, d]) :
    parseIPv6 (joinC 58 (pre ++ [v4])) = v6core (pre ++ [hexLower (a * 256 + b), hexLower (c * 256 + d)]) := by
  have hno : ∀ k, (k = 47 ∨ k = 58) → ∀ p ∈ pre ++ [v4], k ∉ p := by
    intro k hk p hpp hkp
    rcases List.mem_append.mp hpp with h | h
    · exact not_lowerHex_of (by omega) (hp p h k hkp)
    · simp at h; subst h; exact parseIPv4_no h4 hk hkp
  have h47 : mem 47 (joinC 58 (pre ++ [v4])) = false := by
    rw [mem_eq]
    simp only [decide_eq_false_iff_not]
    intro hm
    rcases mem_joinC hm with h | ⟨p, hpp, hc⟩
    · omega
    · exact hno 47 (by simp) p hpp hc
  have hne : (joinC 58 (pre ++ [v4])).isEmpty = false := by
    match pre, hlen with
    | x :: y :: rest, _ =>
      simp only [List.cons_append]
      rw [joinC_cons, flatC_cons]
      cases x <;> rfl
  have hsplit := splitOn_joinC 58 (pre ++ [v4]) (by simp) (hno 58 (by simp))
  have hexp : v6expand (pre ++ [v4]) = some (pre ++ [hexLower (a * 256 + b), hexLower (c * 256 + d)]) := by
    unfold v6expand
    have : mem 46 v4 = true := mem_iff.mpr (parseIPv4_dot h4)
    simp [this, h4]
  rw [parseIPv6_eq, h47, hne, hsplit]
  have : ¬ (pre ++ [v4]).length < 3 := by simp; omega
  rw [if_neg this, hexp]; simp

theorem octets_le {v4 : Str} {a b c d : Nat} (h4 : parseIPv4 v4 = some [a, b, c, d]) :
    a ≤ 255 ∧ b ≤ 255 ∧ c ≤ 255 ∧ d ≤ 255 := by
  have := (C16_ipv4_canonical v4 _ h4).2.2
  exact ⟨this a (by simp), this b (by simp), this c (by simp), this d (by simp)⟩

/-- general form: `P::Q:a.b.c.d` / `P::a.b.c.d` — a "::" form whose last part is a dotted quad -/
theorem parseIPv6_skip_v4 (P Q : List Str) (A B : List Nat) (v4 : Str) (a b c d : Nat)
    (hP : (A = [] ∧ P = [[]]) ∨ (A ≠ [] ∧ P = A.map hexLower))
    (hQ : Q = B.map hexLower)
    (hlen : A.length + B.length ≤ 4) (hA : ∀ x ∈ A, x < 65536) (hB : ∀ x ∈ B, x < 65536)
    (h4 : parseIPv4 v4 = some [a, b, c, d]) :
    parseIPv6 (joinC 58 (P ++ [] :: Q ++ [v4])) =
      some (A ++ List.replicate (6 - (A.length + B.length)) 0 ++ (B ++ [a * 256 + b, c * 256 + d])) := by
  obtain ⟨ha, hb, hc, hd⟩ := octets_le h4
  have hpre : ∀ p ∈ P ++ [] :: Q, ∀ c ∈ p, isLowerHexC c := by
    intro p hp c hc
    simp only [List.mem_append, List.mem_cons] at hp
    rcases hp with hp | rfl | hp
    · rcases hP with ⟨_, e⟩ | ⟨_, e⟩
      · rw [e] at hp; simp at hp; subst hp; simp at hc
      · rw [e] at hp; exact all_lowerHex_map A p hp c hc
    · simp at hc
    · rw [hQ] at hp; exact all_lowerHex_map B p hp c hc
  have hl2 : 2 ≤ (P ++ [] :: Q).length := by
    have : 1 ≤ P.length := by
      rcases hP with ⟨_, e⟩ | ⟨h, e⟩
      · rw [e]; simp
      · rw [e]; simp; exact List.length_pos_iff.2 h
    simp; omega
  have e0 : P ++ [] :: Q ++ [v4] = (P ++ [] :: Q) ++ [v4] := by simp
  rw [e0, parseIPv6_join_v4 _ v4 a b c d hpre hl2 h4]
  have e1 : P ++ [] :: Q ++ [hexLower (a * 256 + b), hexLower (c * 256 + d)] =
      P ++ [] :: (B ++ [a * 256 + b, c * 256 + d]).map hexLower := by
    rw [hQ]; simp
  rw [e1, v6core_skip P _ A (B ++ [a * 256 + b, c * 256 + d]) hP (Or.inr ⟨by simp, rfl⟩) (by simp; omega) hA
    (by intro x hx; simp at hx; rcases hx with hx | rfl | rfl
        · exact hB x hx
        · omega
        · omega)]
  have : 8 - (A.length + (B ++ [a * 256 + b, c * 256 + d]).length) = 6 - (A.length + B.length) := by
    simp; omega
  rw [this]

theorem zerosAt2 (x y : Nat) : zerosAt [x, y] = if x = 0 then (if y = 0 then 2 else 1) else 0 := by
  by_cases hx : x = 0
  · subst hx
    by_cases hy : y = 0
    · subst hy; rfl
    · rw [V6More.zerosAt_cons_zero, V6More.zerosAt_cons_ne _ hy]; simp [hy]
  · rw [V6More.zerosAt_cons_ne _ hx]; simp [hx]

theorem zerosAt1 (y : Nat) : zerosAt [y] = if y = 0 then 1 else 0 := by
  by_cases hy : y = 0
  · subst hy; rfl
  · rw [V6More.zerosAt_cons_ne _ hy]; simp [hy]

theorem longest_mapped (x y : Nat) : longest [0, 0, 0, 0, 0, 65535, x, y] = 5 ∧
    firstAt 5 [0, 0, 0, 0, 0, 65535, x, y] = 0 := by
  have h5 : zerosAt [0, 0, 0, 0, 0, 65535, x, y] = 5 := by simp [zerosAt, List.takeWhile]
  have h4 : zerosAt [0, 0, 0, 0, 65535, x, y] = 4 := by simp [zerosAt, List.takeWhile]
  have h3 : zerosAt [0, 0, 0, 65535, x, y] = 3 := by simp [zerosAt, List.takeWhile]
  have h2 : zerosAt [0, 0, 65535, x, y] = 2 := by simp [zerosAt, List.takeWhile]
  have h1 : zerosAt [0, 65535, x, y] = 1 := by simp [zerosAt, List.takeWhile]
  have h0 : zerosAt [65535, x, y] = 0 := by simp [zerosAt, List.takeWhile]
  constructor
  · simp only [longest, h5, h4, h3, h2, h1, h0, zerosAt2, zerosAt1]
    repeat' split
    all_goals omega
  · simp [firstAt, h5]

theorem field_ffff : field 65535 = "ffff".toStr := by decide

/-- the text printed for an IPv4-mapped address -/
theorem ipv6ToStr_mapped (x y : Nat) (hx : x < 65536) (hy : y < 65536) :
    ipv6ToStr [0, 0, 0, 0, 0, 65535, x, y] = "::ffff:".toStr ++ hexLower x ++ [58] ++ hexLower y := by
  have hb : ∀ z ∈ [0, 0, 0, 0, 0, 65535, x, y], z < 65536 := by
    intro z hz; simp at hz; rcases hz with rfl | rfl | rfl | rfl <;> omega
  rw [V6More.ipv6ToStr_eq_format _ hb]
  obtain ⟨hl, hf⟩ := longest_mapped x y
  unfold format
  rw [hl, hf]
  simp only [show ¬ (5 < 2) by omega, if_false, List.take_zero, fields, List.drop_succ_cons, List.drop_zero,
    field_ffff, V6More.field_eq_hexLower hx, V6More.field_eq_hexLower hy]
  show ([] : Str) ++ [58, 58] ++ ([102, 102, 102, 102] ++ 58 :: (field x ++ 58 :: field y)) =
    [58, 58, 102, 102, 102, 102, 58] ++ field x ++ [58] ++ field y
  simp

theorem longest_compat (x y : Nat) : longest [0, 0, 0, 0, 0, 0, x, y] = 6 + zerosAt [x, y] ∧
    firstAt (6 + zerosAt [x, y]) [0, 0, 0, 0, 0, 0, x, y] = 0 := by
  have e : ∀ l, zerosAt (0 :: l) = zerosAt l + 1 := V6More.zerosAt_cons_zero
  have hz : zerosAt [0, 0, 0, 0, 0, 0, x, y] = 6 + zerosAt [x, y] := by simp only [e]; omega
  constructor
  · simp only [longest, e, zerosAt2, zerosAt1]
    repeat' split
    all_goals omega
  · simp [firstAt, hz]

/-- the text printed for an IPv4-compatible address `::a.b.c.d` -/
theorem ipv6ToStr_compat (x y : Nat) (hx : x < 65536) (hy : y < 65536) :
    ipv6ToStr [0, 0, 0, 0, 0, 0, x, y] =
      if x = 0 then (if y = 0 then [58, 58] else [58, 58] ++ hexLower y)
      else [58, 58] ++ hexLower x ++ [58] ++ hexLower y := by
  have hb : ∀ z ∈ [0, 0, 0, 0, 0, 0, x, y], z < 65536 := by
    intro z hz; simp at hz; rcases hz with rfl | rfl | rfl <;> omega
  rw [V6More.ipv6ToStr_eq_format _ hb]
  obtain ⟨hl, hf⟩ := longest_compat x y
  unfold format
  rw [hl, hf, zerosAt2]
  by_cases h0 : x = 0
  · by_cases h1 : y = 0
    · subst h0 h1; rfl
    · subst h0
      simp only [if_true, h1, if_false, show ¬ (6 + 1 < 2) by omega, List.take_zero, fields, Nat.zero_add,
        List.drop_succ_cons, List.drop_zero, V6More.field_eq_hexLower hy]
      rfl
  · simp only [h0, if_false, show ¬ (6 + 0 < 2) by omega, List.take_zero, fields, Nat.zero_add, Nat.add_zero,
      List.drop_succ_cons, List.drop_zero, V6More.field_eq_hexLower hy, V6More.field_eq_hexLower hx]
    simp

theorem octet_print_parse : ∀ n, n < 256 → parseOctet (natToStr n) = some n ∧ 46 ∉ natToStr n ∧
    47 ∉ natToStr n ∧ natToStr n ≠ [] := by
  decide +kernel

/-- every `a.b.c.d` with octets ≤ 255, printed in decimal, is an IPv4 literal for the model's parser -/
theorem parseIPv4_print (a b c d : Nat) (ha : a ≤ 255) (hb : b ≤ 255) (hc : c ≤ 255) (hd : d ≤ 255) :
    parseIPv4 (ipv4ToStr [a, b, c, d]) = some [a, b, c, d] := by
  have pa := octet_print_parse a (by omega)
  have pb := octet_print_parse b (by omega)
  have pc := octet_print_parse c (by omega)
  have pd := octet_print_parse d (by omega)
  have hsplit : splitOn 46 (ipv4ToStr [a, b, c, d]) = [natToStr a, natToStr b, natToStr c, natToStr d] := by
    unfold ipv4ToStr
    exact splitOn_joinC 46 _ (by simp) (by
      intro p hp; simp at hp; rcases hp with rfl | rfl | rfl | rfl
      · exact pa.2.1
      · exact pb.2.1
      · exact pc.2.1
      · exact pd.2.1)
  have h47 : mem 47 (ipv4ToStr [a, b, c, d]) = false := by
    rw [mem_eq]; simp only [decide_eq_false_iff_not]
    intro hm
    unfold ipv4ToStr at hm
    rcases mem_joinC hm with h | ⟨p, hp, hcp⟩
    · omega
    · simp at hp; rcases hp with rfl | rfl | rfl | rfl
      · exact pa.2.2.1 hcp
      · exact pb.2.2.1 hcp
      · exact pc.2.2.1 hcp
      · exact pd.2.2.1 hcp
  have hne : (ipv4ToStr [a, b, c, d]).isEmpty = false := by
    unfold ipv4ToStr
    simp only [List.map_cons, joinC_cons]
    have := pa.2.2.2
    cases hn : natToStr a with
    | nil => exact absurd hn this
    | cons x xs => rfl
  unfold parseIPv4
  rw [h47, hne, hsplit]
  simp [pa.1, pb.1, pc.1, pd.1]

theorem v4_no37 {v4 : Str} {o4 : List Nat} (h : parseIPv4 v4 = some o4) : 37 ∉ v4 := by
  intro hm
  rcases parseIPv4_chars h 37 hm with h1 | h1
  · omega
  · simp [isDigitC] at h1

theorem enc_of_parse (o : Oracles) (s : Str) (h8 : List Nat) (v : Bool) (hp : parseIPv6 s = some h8)
    (h37 : 37 ∉ s) : encodeHost o s v = .ok ([91] ++ ipv6ToStr h8 ++ [93]) := by
  have := HumanFull.ipv6_encode o s h8 [] v hp h37 (Or.inl rfl)
  simpa using this

end R5

open HostLemmas NetlocLemmas Rfc5952 R5 MiscLemmas

/-! ## C16 GAPS 4 — the IPv6 text, for EVERY address; embedded IPv4 -/

/-- "valid IPv6 literals are compressed" — for EVERY value of the eight 16-bit groups (no reference to an input text),
    everything RFC 5952 §4 asks of the printed text `t = ipv6ToStr h8`, in one statement:
    (i)   every group is written in lower-case hex, 1–4 digits, without leading zeros (a zero group is "0"), and the only
          other character of `t` is ':';
    (ii)  with `n` = the length of the longest run of zero groups and `i` = the first position where such a run starts:
          if `n ≥ 2` exactly that run — the LONGEST, the FIRST on ties — is replaced by "::", which then occurs exactly
          once, and the replaced run cannot be extended on either side;
    (iii) if `n < 2` (no two adjacent zero groups: a single zero group is NOT compressed) `t` is the eight groups joined
          by single colons and "::" does not occur;
    (iv)  the model's parser reads `t` back to the same eight groups, so the printer is injective;
    (v)   `t` contains no '.', '%', '[' , ']', '/' — and `t` is a fixed point: printing what was parsed from `t` gives `t`. -/
theorem C16_ipv6_text_every_address (h8 : List Nat)
    (hl : h8.length = 8) (hx : ∀ x ∈ h8, x < 65536) :       -- an arbitrary 128-bit value as eight 16-bit groups
    let n := longest h8
    let i := firstAt n h8
    -- (i)
    (∀ x ∈ h8, hexLower x = Rfc5952.field x ∧ 1 ≤ (hexLower x).length ∧ (hexLower x).length ≤ 4 ∧
      ((hexLower x).head? = some 48 → hexLower x = [48] ∧ x = 0) ∧ parseHextet (hexLower x) = some x) ∧
    (∀ c ∈ ipv6ToStr h8, c = 58 ∨ isDigitC c = true ∨ (97 ≤ c ∧ c ≤ 102)) ∧
    -- (ii)
    (2 ≤ n → h8 = h8.take i ++ List.replicate n 0 ++ h8.drop (i + n) ∧
      ipv6ToStr h8 = fields (h8.take i) ++ [58, 58] ++ fields (h8.drop (i + n)) ∧
      countDC (ipv6ToStr h8) = 1 ∧
      (h8.drop (i + n)).head? ≠ some 0 ∧ (h8.take i).getLast? ≠ some 0) ∧
    (∀ a b m, h8 = a ++ List.replicate m 0 ++ b → m ≤ n ∧ (m = n → i ≤ a.length)) ∧
    -- (iii)
    (n < 2 → ipv6ToStr h8 = fields h8 ∧ countDC (ipv6ToStr h8) = 0) ∧
    ((∀ a b, h8 ≠ a ++ [0, 0] ++ b) → n < 2) ∧
    -- (iv)
    parseIPv6 (ipv6ToStr h8) = some h8 ∧
    (∀ h8', h8'.length = 8 → (∀ x ∈ h8', x < 65536) → ipv6ToStr h8' = ipv6ToStr h8 → h8' = h8) ∧
    -- (v)
    (46 ∉ ipv6ToStr h8 ∧ 37 ∉ ipv6ToStr h8 ∧ 91 ∉ ipv6ToStr h8 ∧ 93 ∉ ipv6ToStr h8 ∧ 47 ∉ ipv6ToStr h8) ∧
    (∀ h, parseIPv6 (ipv6ToStr h8) = some h → ipv6ToStr h = ipv6ToStr h8) := by
  intro n i
  have hdc := C16_ipv6_double_colon h8 hx
  have hrt := C16_ipv6_roundtrip h8 hl hx
  have hch := C16_ipv6_text_lower h8
  have hno : ∀ k, k ≠ 58 → isDigitC k = false → ¬ (97 ≤ k ∧ k ≤ 102) → k ∉ ipv6ToStr h8 := by
    intro k h1 h2 h3 hm
    rcases hch k hm with h | h | h
    · exact h1 h
    · rw [h2] at h; cases h
    · exact h3 h
  refine ⟨fun x hxm => ?_, hch, hdc.2.1, hdc.2.2.1, hdc.1, ?_, hrt, ?_, ?_, ?_⟩
  · have := C16_ipv6_groups x (hx x hxm)
    exact ⟨this.1, this.2.2.1, this.2.2.2.1, this.2.2.2.2.1, this.2.2.2.2.2⟩
  · intro hnone
    apply Classical.byContradiction
    intro hn
    have hn2 : 2 ≤ n := by omega
    obtain ⟨hdec, _⟩ := hdc.2.1 hn2
    have hr : List.replicate n 0 = [0, 0] ++ List.replicate (n - 2) 0 := by
      have : n = (n - 2) + 1 + 1 := by omega
      rw [this, List.replicate_succ, List.replicate_succ]; simp
    exact hnone (h8.take i) (List.replicate (n - 2) 0 ++ h8.drop (i + n)) (by
      have := hdec; rw [hr] at this; simpa using this)
  · intro h8' hl' hx' he
    have h1 := C16_ipv6_roundtrip h8' hl' hx'
    rw [he, hrt] at h1
    exact (Option.some.inj h1).symm
  · exact ⟨hno 46 (by decide) (by decide) (by omega), hno 37 (by decide) (by decide) (by omega),
      hno 91 (by decide) (by decide) (by omega), hno 93 (by decide) (by decide) (by omega),
      hno 47 (by decide) (by decide) (by omega)⟩
  · intro h hh
    rw [hrt] at hh
    rw [← Option.some.inj hh]

/-- every dotted quad `a.b.c.d` with octets ≤ 255 (printed in decimal, no leading zeros) IS an IPv4 literal for the
    model of `ipaddress` — so the theorems below, stated for a text `v4` with `parseIPv4 v4 = some [a, b, c, d]`, hold for
    ALL `a.b.c.d`; and conversely such a text is that print (`C16_ipv4_canonical`) -/
theorem C16_ipv4_text_parses (a b c d : Nat) (ha : a ≤ 255) (hb : b ≤ 255) (hc : c ≤ 255) (hd : d ≤ 255) :
    parseIPv4 (ipv4ToStr [a, b, c, d]) = some [a, b, c, d] :=
  parseIPv4_print a b c d ha hb hc hd

/-- EMBEDDED IPv4, general form of the parser (CPython `_ip_int_from_string`): an IPv6 text whose LAST part is a dotted
    quad `a.b.c.d` denotes the address whose last two groups are `a·256+b` and `c·256+d`.
    (1) "::"-forms `A₁:…:Aₖ::B₁:…:Bₘ:a.b.c.d` (`A`, `B` possibly empty, `k + m ≤ 4`; the groups written in canonical
        lower-case hex — other spellings: `parseIPv6_lower`, `C16_ipv6_groups`);
    (2) full forms `A₁:…:A₆:a.b.c.d`. -/
theorem C16_ipv6_embedded_ipv4_parse (v4 : Str) (a b c d : Nat)
    (h4 : parseIPv4 v4 = some [a, b, c, d]) :               -- `v4` is the dotted quad `a.b.c.d`
    (∀ A B : List Nat, A.length + B.length ≤ 4 → (∀ x ∈ A, x < 65536) → (∀ x ∈ B, x < 65536) →
      parseIPv6 (joinC 58 ((if A = [] then [[]] else A.map hexLower) ++ [] :: B.map hexLower ++ [v4])) =
        some (A ++ List.replicate (6 - (A.length + B.length)) 0 ++ (B ++ [a * 256 + b, c * 256 + d]))) ∧
    (∀ A : List Nat, A.length = 6 → (∀ x ∈ A, x < 65536) →
      parseIPv6 (joinC 58 (A.map hexLower ++ [v4])) = some (A ++ [a * 256 + b, c * 256 + d])) := by
  obtain ⟨ha, hb, hc, hd⟩ := octets_le h4
  constructor
  · intro A B hlen hA hB
    refine parseIPv6_skip_v4 _ _ A B v4 a b c d ?_ rfl hlen hA hB h4
    by_cases h : A = []
    · left; simp [h]
    · right; simp [h]
  · intro A hl hA
    rw [parseIPv6_join_v4 _ v4 a b c d (all_lowerHex_map A) (by simp; omega) h4]
    have e : A.map hexLower ++ [hexLower (a * 256 + b), hexLower (c * 256 + d)] =
        (A ++ [a * 256 + b, c * 256 + d]).map hexLower := by simp
    rw [e]
    exact v6core_full _ (by simp; omega) (by
      intro x hx; simp at hx; rcases hx with hx | rfl | rfl
      · exact hA x hx
      · omega
      · omega)

/-- IPv4-MAPPED addresses `::ffff:a.b.c.d`, for ALL `a.b.c.d`: the text is an IPv6 literal denoting
    `0:0:0:0:0:ffff:(a·256+b):(c·256+d)`; `_encode_host` (validation on or off) canonicalises it to
    `[::ffff:X:Y]` with `X`, `Y` the two groups in lower-case hex without leading zeros — the dotted quad does NOT survive
    (RFC 5952 §5's mixed notation is not used, as in CPython; instance: `C16_ipv6_no_mixed_notation`); the canonical text
    denotes the same address and is a fixed point of `_encode_host`. -/
theorem C16_ipv4_mapped_canonical (o : Oracles) (v4 : Str) (a b c d : Nat) (v : Bool)
    (h4 : parseIPv4 v4 = some [a, b, c, d]) :               -- `v4` is the dotted quad `a.b.c.d` (all of them: `C16_ipv4_text_parses`)
    let X := hexLower (a * 256 + b)
    let Y := hexLower (c * 256 + d)
    parseIPv6 ("::ffff:".toStr ++ v4) = some [0, 0, 0, 0, 0, 0xffff, a * 256 + b, c * 256 + d] ∧
    encodeHost o ("::ffff:".toStr ++ v4) v = .ok ("[::ffff:".toStr ++ X ++ [58] ++ Y ++ [93]) ∧
    46 ∉ "[::ffff:".toStr ++ X ++ [58] ++ Y ++ [93] ∧
    parseIPv6 ("::ffff:".toStr ++ X ++ [58] ++ Y) = some [0, 0, 0, 0, 0, 0xffff, a * 256 + b, c * 256 + d] ∧
    encodeHost o ("::ffff:".toStr ++ X ++ [58] ++ Y) v = .ok ("[::ffff:".toStr ++ X ++ [58] ++ Y ++ [93]) := by
  obtain ⟨ha, hb, hc, hd⟩ := octets_le h4
  have hx : a * 256 + b < 65536 := by omega
  have hy : c * 256 + d < 65536 := by clear hx; omega
  have hb8 : ∀ z ∈ [0, 0, 0, 0, 0, 65535, a * 256 + b, c * 256 + d], z < 65536 := by
    intro z hz; simp at hz
    rcases hz with rfl | rfl | rfl | rfl
    · exact Nat.zero_lt_succ _
    · exact Nat.lt_succ_self _
    · exact hx
    · exact hy
  intro X Y
  have hparse : parseIPv6 ("::ffff:".toStr ++ v4) = some [0, 0, 0, 0, 0, 0xffff, a * 256 + b, c * 256 + d] := by
    have hq : ["ffff".toStr] = [65535].map hexLower := by
      simp only [List.map_cons, List.map_nil, V6More.field_eq_hexLower (show 65535 < 65536 by omega), field_ffff]
    have := parseIPv6_skip_v4 [[]] ["ffff".toStr] [] [65535] v4 a b c d (Or.inl ⟨rfl, rfl⟩) hq (by simp)
      (by simp) (by simp) h4
    exact this
  have htxt := ipv6ToStr_mapped _ _ hx hy
  have hrt := C16_ipv6_roundtrip _ (by simp) hb8
  rw [htxt] at hrt
  have h37a : 37 ∉ "::ffff:".toStr ++ v4 := by
    intro hm
    rcases List.mem_append.mp hm with h | h
    · revert h; decide
    · exact v4_no37 h4 h
  have hnoX : ∀ k, (k = 37 ∨ k = 46) → k ∉ "::ffff:".toStr ++ X ++ [58] ++ Y := by
    intro k hk hm
    have h1 : ∀ z, k ∉ hexLower z := fun z hz => by
      have := hexLower_lower z k hz
      unfold isLowerHexC isDigitC at this
      rcases hk with rfl | rfl <;> simp at this
    simp only [List.mem_append, List.mem_singleton] at hm
    rcases hm with ((h | h) | h) | h
    · rcases hk with rfl | rfl <;> revert h <;> decide
    · exact h1 _ h
    · omega
    · exact h1 _ h
  have e1 := enc_of_parse o _ _ v hparse h37a
  have e2 := enc_of_parse o _ _ v hrt (hnoX 37 (by simp))
  rw [htxt] at e1 e2
  have hbr : "[::ffff:".toStr ++ X ++ [58] ++ Y ++ [93] = [91] ++ ("::ffff:".toStr ++ X ++ [58] ++ Y) ++ [93] := by
    show [91, 58, 58, 102, 102, 102, 102, 58] ++ X ++ [58] ++ Y ++ [93] =
      [91] ++ ([58, 58, 102, 102, 102, 102, 58] ++ X ++ [58] ++ Y) ++ [93]
    simp
  rw [hbr]
  refine ⟨hparse, e1, ?_, hrt, e2⟩
  intro hm
  simp only [List.mem_append, List.mem_singleton] at hm
  rcases hm with (h | h) | h
  · omega
  · exact hnoX 46 (by simp) (by simpa [or_assoc] using h)
  · omega

/-- IPv4-COMPATIBLE addresses `::a.b.c.d`, for ALL `a.b.c.d`: the address is `0:0:0:0:0:0:(a·256+b):(c·256+d)`, and the
    canonical text depends on which of the two groups are zero — the "::" swallows them: `::0.0.0.0` ↦ `[::]`,
    `::0.0.c.d` ↦ `[::Y]`, otherwise `[::X:Y]` (so `::0.0.0.1` is stored as `[::1]`, the loopback address). -/
theorem C16_ipv4_compatible_canonical (o : Oracles) (v4 : Str) (a b c d : Nat) (v : Bool)
    (h4 : parseIPv4 v4 = some [a, b, c, d]) :               -- `v4` is the dotted quad `a.b.c.d`
    parseIPv6 ("::".toStr ++ v4) = some [0, 0, 0, 0, 0, 0, a * 256 + b, c * 256 + d] ∧
    encodeHost o ("::".toStr ++ v4) v =
      .ok ([91] ++ (if a * 256 + b = 0 then (if c * 256 + d = 0 then "::".toStr else "::".toStr ++ hexLower (c * 256 + d))
                    else "::".toStr ++ hexLower (a * 256 + b) ++ [58] ++ hexLower (c * 256 + d)) ++ [93]) := by
  obtain ⟨ha, hb, hc, hd⟩ := octets_le h4
  have hx : a * 256 + b < 65536 := by omega
  have hy : c * 256 + d < 65536 := by clear hx; omega
  have hparse : parseIPv6 ("::".toStr ++ v4) = some [0, 0, 0, 0, 0, 0, a * 256 + b, c * 256 + d] := by
    have := parseIPv6_skip_v4 [[]] [] [] [] v4 a b c d (Or.inl ⟨rfl, rfl⟩) rfl (by simp) (by simp) (by simp) h4
    exact this
  have h37a : 37 ∉ "::".toStr ++ v4 := by
    intro hm
    rcases List.mem_append.mp hm with h | h
    · revert h; decide
    · exact v4_no37 h4 h
  refine ⟨hparse, ?_⟩
  rw [enc_of_parse o _ _ v hparse h37a, ipv6ToStr_compat _ _ hx hy]
  rfl

/-! ### non-vacuity / instances (IPv4-mapped, IPv4-compatible, NAT64 prefix, leading zeros rejected) -/
example : parseIPv4 "192.0.2.1".toStr = some [192, 0, 2, 1] := by decide +kernel
example (o : Oracles) : encodeHost o "::ffff:192.0.2.1".toStr true = .ok "[::ffff:c000:201]".toStr := by
  have := (C16_ipv4_mapped_canonical o "192.0.2.1".toStr 192 0 2 1 true (by decide +kernel)).2.1
  exact this
example (o : Oracles) : encodeHost o "::0.0.0.1".toStr false = .ok "[::1]".toStr :=
  (C16_ipv4_compatible_canonical o "0.0.0.1".toStr 0 0 0 1 false (by decide +kernel)).2
-- the general parser statement on the NAT64 well-known prefix `64:ff9b::192.0.2.33`
example : parseIPv6 "64:ff9b::192.0.2.33".toStr = some [0x64, 0xff9b, 0, 0, 0, 0, 0xc000, 0x221] := by
  have := (C16_ipv6_embedded_ipv4_parse "192.0.2.33".toStr 192 0 2 33 (by decide +kernel)).1 [0x64, 0xff9b] []
    (by simp) (by intro x hx; simp at hx; rcases hx with rfl | rfl <;> omega) (by simp)
  exact this
-- an octet with a leading zero, or > 255, is no dotted quad for CPython ≥ 3.9.5, hence no IPv6 literal either:
-- such a host is lower-cased as a registered name by the constructor and rejected by build(host=) / with_host
example : parseIPv6 "::ffff:192.0.02.1".toStr = none ∧ parseIPv6 "::ffff:192.0.2.256".toStr = none ∧
    encodeHost Oracles.empty "::ffff:192.0.02.1".toStr false = .ok "::ffff:192.0.02.1".toStr ∧
    encodeHost Oracles.empty "::ffff:192.0.02.1".toStr true = .error .valueError := by
  refine ⟨by decide +kernel, by decide +kernel, by decide +kernel, by decide +kernel⟩

/-! ## C16 GAPS 1 — validation only rejects; idempotence for EVERY host kind; the three routes agree -/

namespace R5
open StrTotal (bind_ok ite_err_ok rebracket)

theorem regPathA_true_false {h r : Str} (hr : regPathA h true = .ok r) : regPathA h false = .ok r := by
  obtain ⟨ha, rfl, _⟩ := regPathA_ok hr
  simp [regPathA, ha, pure, Except.pure]

theorem regPathA_false_true {h r : Str} (hr : regPathA h false = .ok r) :
    regPathA h true = .ok r ∨ regPathA h true = .error .valueError := by
  obtain ⟨ha, rfl, _⟩ := regPathA_ok hr
  simp only [regPathA, ha, if_true, Bool.true_and]
  split
  · exact Or.inr rfl
  · exact Or.inl rfl

/-- the re-entry (fix 3fbf5b4): validation only rejects -/
theorem encodeHostA_true_false {o : Oracles} {h r : Str} (he : encodeHostA o h true = .ok r) :
    encodeHostA o h false = .ok r := by
  rw [encodeHostA_eqV] at he ⊢
  cases hl : looksIP o h with
  | error er => rw [hl] at he; cases he
  | ok b =>
    rw [hl] at he
    simp only [bind, Except.bind, ipResV_eq] at he ⊢
    cases hi : (if b = true then (ipRes h).map (fun r => if zoneBad h true then (.error .valueError : R Str) else .ok r)
        else none) with
    | none =>
      rw [hi] at he
      have : (if b = true then (ipRes h).map (fun r => if zoneBad h false then (.error .valueError : R Str) else .ok r)
          else none) = none := by
        cases b with
        | false => rfl
        | true =>
          simp only [if_true] at hi ⊢
          cases hr : ipRes h with
          | none => rfl
          | some x => rw [hr] at hi; cases hi
      rw [this]
      exact regPathA_true_false he
    | some r' =>
      rw [hi] at he
      cases b with
      | false => cases hi
      | true =>
        simp only [if_true] at hi ⊢
        cases hr : ipRes h with
        | none => rw [hr] at hi; cases hi
        | some x =>
          rw [hr] at hi
          simp only [Option.map_some, Option.some.injEq] at hi
          simp only [Option.map_some, zoneBad_false, Bool.false_eq_true, if_false]
          subst hi
          simp only at he
          split at he
          · cases he
          · exact he

theorem encodeHostA_false_true {o : Oracles} {h r : Str} (he : encodeHostA o h false = .ok r) :
    encodeHostA o h true = .ok r ∨ encodeHostA o h true = .error .valueError := by
  rw [encodeHostA_eqV] at he ⊢
  cases hl : looksIP o h with
  | error er => rw [hl] at he; cases he
  | ok b =>
    rw [hl] at he
    simp only [bind, Except.bind, ipResV_eq] at he ⊢
    cases b with
    | false =>
      simp only [Bool.false_eq_true, if_false] at he ⊢
      exact regPathA_false_true he
    | true =>
      simp only [if_true] at he ⊢
      cases hr : ipRes h with
      | none =>
        rw [hr] at he
        simp only [Option.map_none] at he ⊢
        exact regPathA_false_true he
      | some x =>
        rw [hr] at he
        simp only [Option.map_some, zoneBad_false, Bool.false_eq_true, if_false] at he ⊢
        split
        · exact Or.inr rfl
        · exact Or.inl he

theorem regPath_true_false {o : Oracles} {h r : Str} (hr : regPath o h true = .ok r) : regPath o h false = .ok r := by
  unfold regPath at hr ⊢
  split
  · rename_i ha
    rw [if_pos ha] at hr
    split at hr
    · cases hr
    · simpa using hr
  · rename_i ha
    rw [if_neg ha] at hr
    obtain ⟨a, h1, h2⟩ := bind_ok hr
    rw [h1]
    simp only [bind, Except.bind]
    split
    · rename_i h58
      rw [if_pos h58] at h2
      exact encodeHostA_true_false h2
    · rename_i h58
      rw [if_neg h58] at h2
      split at h2
      · cases h2
      · simpa using h2

/-- (before fix 3fbf5b4 the validating call was exactly `if notRegName r then ValueError else r`; an IDNA answer that
    is re-entered as an IP literal is screened differently — by its zone — so only the disjunction is kept) -/
theorem regPath_false_true {o : Oracles} {h r : Str} (hr : regPath o h false = .ok r) :
    regPath o h true = .ok r ∨ regPath o h true = .error .valueError := by
  unfold regPath at hr ⊢
  split
  · rename_i ha
    rw [if_pos ha] at hr
    simp only [Bool.false_and, Bool.false_eq_true, if_false, pure, Except.pure, Except.ok.injEq] at hr
    subst hr
    simp only [Bool.true_and]
    split
    · exact Or.inr rfl
    · exact Or.inl rfl
  · rename_i ha
    rw [if_neg ha] at hr
    obtain ⟨a, h1, h2⟩ := bind_ok hr
    rw [h1]
    simp only [bind, Except.bind]
    split
    · rename_i h58
      rw [if_pos h58] at h2
      exact encodeHostA_false_true h2
    · rename_i h58
      rw [if_neg h58] at h2
      simp only [Bool.false_and, Bool.false_eq_true, if_false, pure, Except.pure, Except.ok.injEq] at h2
      subst h2
      simp only [Bool.true_and]
      split
      · exact Or.inr rfl
      · exact Or.inl rfl

theorem unbracket_bracket' {r : Str} (h91 : 91 ∉ r) : unbracket (bracket r) = r := by
  unfold unbracket bracket
  by_cases h58 : mem 58 r = true
  · have : mem 91 ([91] ++ r ++ [93]) = true := mem_iff.mpr (by simp)
    simp only [h58, if_true, this]
    simp
  · simp only [h58, Bool.false_eq_true, if_false, mem_false_iff.mpr h91]

/-- the raw host of a URL without cache pre-fill whose netloc is `[userinfo@]hosttext[:port]` -/
theorem rawHost_hostText (e : Env) (u : Url) {w body : Str} (hw : V6More.HostTxt w body) (port : Option Nat) (X : Str)
    (hX : X = [] ∨ ∃ ui, X = ui ++ [64]) (hpre : u.pre = none) (hnl : u.netloc = X ++ w ++ V6More.portStr port)
    (hne : u.netloc ≠ []) {h : Option Str} (hraw : rawHost e u = .ok h) : h = some body := by
  unfold rawHost net at hraw
  rw [hpre] at hraw
  unfold lazyNet at hraw
  cases hs : splitNetloc e.o u.netloc with
  | error err => rw [hs] at hraw; cases hraw
  | ok np =>
    rw [hs] at hraw
    have hs' := hs
    rw [hnl] at hs'
    obtain ⟨hh, _⟩ := V6More.splitNetloc_hostText e.o hw port X hX np hs'
    have hemp : u.netloc.isEmpty = false := by
      cases hn : u.netloc with
      | nil => exact absurd hn hne
      | cons _ _ => rfl
    simp only [bind, Except.bind, pure, Except.pure, Except.map, Except.ok.injEq, hh, hemp] at hraw
    rw [← hraw]
    unfold orNone
    by_cases hb : body.isEmpty = true
    · rw [if_pos hb]; simp [List.isEmpty_iff.mp hb]
    · rw [if_neg hb]

/-- the host text the constructor / `build(authority=)` write for a host that passes validation -/
theorem hostTxt_rebracket_validated {eh b : Str} (bk : Bool) (hb : eh = bracket b) (h64 : 64 ∉ b) (h91 : 91 ∉ b)
    (h93 : 93 ∉ b) : V6More.HostTxt (rebracket bk eh) b := by
  by_cases h58 : 58 ∈ b
  · have he : eh = [91] ++ b ++ [93] := by rw [hb]; simp [bracket, mem_iff.mpr h58]
    have hm : mem 91 eh = true := mem_iff.mpr (by rw [he]; simp)
    have : rebracket bk eh = eh := by simp [rebracket, hm]
    rw [this, he]
    exact Or.inl ⟨rfl, h93, h64⟩
  · have he : eh = b := by
      rw [hb]; unfold bracket; rw [if_neg (by rw [mem_iff]; exact h58)]
    rw [he]
    cases bk with
    | true =>
      have : rebracket true b = [91] ++ b ++ [93] := by simp [rebracket, mem_false_iff.mpr h91]
      rw [this]; exact Or.inl ⟨rfl, h93, h64⟩
    | false =>
      have : rebracket false b = b := by simp [rebracket]
      rw [this]; exact Or.inr ⟨rfl, h58, h91, h64⟩

end R5

open StrTotal (bind_ok ite_err_ok rebracket) in
/-- VALIDATION ONLY REJECTS, it never changes the answer: whenever `_encode_host(h, validate_host=True)` (build(host=),
    with_host) accepts `h`, `_encode_host(h, validate_host=False)` (the constructor, build(authority=)) returns the SAME
    text; conversely, when the non-validating call returns `r`, the validating call returns `r` or raises ValueError
    (never another text, never another error).  Every host kind — reg-name, IDN (whatever the oracle answers), IPv4,
    IPv6, with or without zone. -/
theorem C16_validation_only_rejects (o : Oracles) (h r : Str) :
    (encodeHost o h true = .ok r → encodeHost o h false = .ok r) ∧
    (encodeHost o h false = .ok r → encodeHost o h true = .ok r ∨ encodeHost o h true = .error .valueError) := by
  constructor
  · intro he
    rw [encodeHost_eq] at he ⊢
    cases hl : looksIP o h with
    | error er => rw [hl] at he; cases he
    | ok b =>
      rw [hl] at he
      simp only [bind, Except.bind] at he ⊢
      cases hi : (if b = true then ipRes h else none) with
      | none => rw [hi] at he; exact regPath_true_false he
      | some r' =>
        rw [hi] at he
        simp only [zoneBad_false, Bool.false_eq_true, if_false] at he ⊢
        split at he
        · cases he
        · exact he
  · intro he
    rw [encodeHost_eq] at he ⊢
    cases hl : looksIP o h with
    | error er => rw [hl] at he; cases he
    | ok b =>
      rw [hl] at he
      simp only [bind, Except.bind] at he ⊢
      cases hi : (if b = true then ipRes h else none) with
      | none =>
        rw [hi] at he
        simp only at he ⊢
        exact regPath_false_true he
      | some r' =>
        rw [hi] at he
        simp only [zoneBad_false, Bool.false_eq_true, if_false] at he ⊢
        split
        · exact Or.inr rfl
        · exact Or.inl he

/-- "encoding is idempotent" for EVERY host kind in ONE statement, with ONE hypothesis and no assumption on the IDNA
    oracle: if `_encode_host(h, validate_host=True)` accepts `h` — ASCII or not, reg-name, IDN, IPv4, IPv6, with or
    without zone — with the result `r`, then encoding the stored raw host (`unbracket r`: `r` without the brackets of an
    IPv6 literal) again gives `r`, with validation on AND off.  (`C16_headline_idempotent` needs `isAscii h` and a
    three-way disjunction, `C16_headline_idn_idempotent` the assumption `IdnaSaneAt`; with validation ON neither is
    needed, because the validation itself checks what those hypotheses provide.  For validation OFF the hypotheses ARE
    needed: `C16_headline_idempotent_fails_for`, `C16_headline_lower_ascii_fails_for_hostile_idna`.) -/
theorem C16_encode_idempotent_every_host (o : Oracles) (h r : Str) (v' : Bool)
    (he : encodeHost o h true = .ok r) :                    -- the one hypothesis: `h` passes build(host=) / with_host
    encodeHost o (unbracket r) v' = .ok r ∧ encodeHost o h false = .ok r := by
  refine ⟨?_, (C16_validation_only_rejects o h r).1 he⟩
  -- the IP branch, for ANY text `h` (the host itself, or — fix 3fbf5b4 — the IDNA answer that spells an IP literal)
  have keyIP : ∀ h : Str, encodeHost o h true = .ok r → ipRes h = some r → zoneBad h true = false →
      encodeHost o (unbracket r) true = .ok r := by
    intro h he hres hz
    cases hp : parseIP (partition 37 h).1 with
    | none => simp [ipRes, hp] at hres
    | some ip =>
      cases ip with
      | v4 o4 =>
        have hrh : r = h := ipRes_v4_eq hp hres
        subst hrh
        have h91 : 91 ∉ r := by
          intro hm
          have hch := parseIPv4_chars (StrTotal.parseIP_v4 hp)
          have hj := StrTotal.partition_join 37 r
          rw [hj] at hm
          rcases List.mem_append.1 hm with hm | hm
          · rcases hch 91 hm with h | h
            · omega
            · simp [isDigitC] at h
          · cases hsep : (partition 37 r).2.1 with
            | false => rw [hsep] at hm; simp at hm
            | true =>
              rw [hsep] at hm
              simp only [↓reduceIte, List.mem_cons] at hm
              rcases hm with h | hm
              · omega
              · have := zone_chars (zoneBad_true_false hz hsep) 91 hm
                omega
        rw [unbracket_of_no91 h91]
        exact he
      | v6 h8 =>
        obtain ⟨h4, h6⟩ := StrTotal.parseIP_v6 hp
        obtain ⟨hhead, _, _⟩ := C16_ipv6_bracketed o h true h8 r h4 h6 he
        rw [unbracket_of_head hhead]
        exact C16_ipv6_idem o h true h8 r h4 h6 he
  have key : encodeHost o (unbracket r) true = .ok r := by
    by_cases ha : isAscii h = true
    · exact C16_encode_idempotent o h r true ha (Or.inl rfl) he
    · have hna : isAscii h = false := by simpa using ha
      rcases encodeHost_casesV he with ⟨hres, hz⟩ | ⟨hwhy, hreg⟩
      · -- the IP branch (an IP literal in front of a non-ASCII zone cannot pass, but no case analysis is needed)
        exact keyIP h he hres hz
      · obtain ⟨a, hi, ⟨_, rfl, hnr'⟩ | ⟨h58, hres, hz⟩⟩ := regPath_idn_validated hna hreg
        · -- the IDNA branch: the answer passed the reg-name screen
          rw [unbracket_of_no91 (notRegName_no91 hnr')]
          by_cases hne : r = []
          · subst hne; exact V6More.encodeHost_nil o true
          · exact Idn.encodeHost_sane o ⟨hne, hnr'⟩ true
        · -- (fix 3fbf5b4) the answer holds a ':' and spells an IP literal: the IP branch, on the answer
          exact keyIP a (encodeHost_ip (looksIP_of_colon o (mem_iff.mp h58)) hres hz) hres hz
  cases v' with
  | true => exact key
  | false => exact (C16_validation_only_rejects o _ r).1 key

open StrTotal (bind_ok ite_err_ok rebracket) in
open V6More FixLemmas in
/-- THE THREE ROUTES AGREE on the stored host.  Let `h0` be a host text that passes validation,
    `_encode_host(h0, validate_host=True) = eh`.  Then
    (1) `u.with_host(h0)`, on ANY receiver `u`, stores the raw host `unbracket eh` (`eh` without the brackets of an IPv6
        literal);
    (2) `URL.build(host=h0, …)` stores the raw host `unbracket eh`;
    (3) the constructor `URL(s)`, for ANY `s` whose authority has the host part `h0` (as `split_netloc` cuts it out:
        `[user[:password]@]h0[:port]`, or `[h0]` in brackets), stores the raw host `unbracket eh` — although it encodes
        the host WITHOUT validation;
    and (4) that raw host is a fixed point: encoding it again, validating or not, gives `eh`.
    In (1) and (2) the conclusion is about whatever `raw_host` returns (the lazily parsed netloc of the new URL: its
    userinfo is the receiver's / the quoted `user=` and is not constrained here); in (3) `raw_host` is the cache entry the
    constructor pre-fills. -/
theorem C16_host_text_three_routes (e : Env) (h0 eh : Str)
    (hv : encodeHost e.o h0 true = .ok eh)                  -- `h0` passes validation (what build(host=) / with_host demand)
    (hne0 : eh ≠ []) :                                      -- excludes an IDNA oracle answering "" for a non-ASCII host
                                                            -- (automatic for ASCII `h0 ≠ ""`; as in `C11_headline_with_host`)
    (∀ u u', withHost e u h0 = .ok u' → ∀ x, rawHost e u' = .ok x → x = some (unbracket eh)) ∧
    (∀ a u, a.encoded = false → a.authority = [] → a.host = h0 → h0 ≠ [] → build e a = .ok u →
      ∀ x, rawHost e u = .ok x → x = some (unbracket eh)) ∧
    (∀ s u p np, encodeUrl e s = .ok u → splitUrl e.o s = .ok p → splitNetloc e.o p.netloc = .ok np →
      np.host = some h0 → rawHost e u = .ok (some (unbracket eh))) ∧
    (∀ v', encodeHost e.o (unbracket eh) v' = .ok eh) := by
  obtain ⟨b, hb, h64, h91, h93⟩ := encoded_host_plain e.o h0 eh hv
  have hun : unbracket eh = b := by rw [hb]; exact unbracket_bracket' h91
  have hf : encodeHost e.o h0 false = .ok eh := (C16_validation_only_rejects e.o h0 eh).1 hv
  refine ⟨?_, ?_, ?_, fun v' => (C16_encode_idempotent_every_host e.o h0 eh v' hv).1⟩
  · intro u u' hw x hx
    unfold withHost at hw
    obtain ⟨hn0, hw⟩ := ite_err_ok hw
    obtain ⟨_, hw⟩ := ite_err_ok hw
    obtain ⟨eh', heh, hw⟩ := bind_ok hw
    rw [hv] at heh; cases heh
    obtain ⟨port, hport, hw⟩ := bind_ok hw
    obtain ⟨ru, hru, hw⟩ := bind_ok hw
    obtain ⟨rp, hrp, hw⟩ := bind_ok hw
    cases hw
    have hnl := makeNetloc_userPrefix (q e Gen.QUOTER) ru rp eh port
    rw [hun]
    have hne : (fromParts u.scheme (makeNetloc (q e Gen.QUOTER) ru rp (some eh) port false) u.path u.query
        u.fragment).netloc ≠ [] := by
      show makeNetloc (q e Gen.QUOTER) ru rp (some eh) port false ≠ []
      rw [hnl]
      intro h0
      simp only [List.append_eq_nil_iff] at h0
      exact hne0 h0.1.2
    exact rawHost_hostText e _ (hb ▸ hostText_bracket h64 h91 h93) port _ (userPrefix_shape ru rp) rfl hnl hne hx
  · intro a u henc hauth hhost hh0 hbu x hx
    subst hhost
    obtain ⟨sc, _, hsch, hpre, hnl, _⟩ := build_parts e a u henc hbu
    unfold StrTotal.buildNetloc at hnl
    simp only [hauth, List.isEmpty_nil, Bool.not_true, Bool.false_eq_true, if_false] at hnl
    have hhost : a.host.isEmpty = false := by
      cases hq : a.host with
      | nil => exact absurd hq hh0
      | cons _ _ => rfl
    simp only [hhost, Bool.not_false, if_true] at hnl
    obtain ⟨eh', heh, hnl⟩ := bind_ok hnl
    rw [hv] at heh; cases heh
    obtain ⟨X, hX, hnl'⟩ := build_forms_shape e a.user a.password eh _ u.netloc hnl
    have hne : u.netloc ≠ [] := by
      rw [hnl']; intro h0
      simp only [List.append_eq_nil_iff] at h0
      exact hne0 h0.1.2
    rw [hun]
    exact rawHost_hostText e u (hb ▸ hostText_bracket h64 h91 h93) _ X hX hpre hnl' hne hx
  · intro s u p np hu hp hsn hh
    obtain ⟨p', netloc, pre, hp', hnb, hu'⟩ := encodeUrl_inv e s u hu
    rw [hp] at hp'
    cases hp'
    rw [netBlock_eq] at hnb
    have hn0 : p.netloc ≠ [] := by
      intro h0
      rw [h0] at hsn
      have : np.host = none := by
        have : splitNetloc e.o [] = .ok { user := none, password := none, host := none, port := none } := by rfl
        rw [this] at hsn; cases hsn; rfl
      rw [this] at hh; cases hh
    have hemp : ¬ p.netloc.isEmpty = true := by
      intro h0; exact hn0 (List.isEmpty_iff.mp h0)
    rw [if_neg hemp] at hnb
    obtain ⟨np', hgate, hrest⟩ := bind_ok hnb
    have hsplit := gateNp_split e.o p.netloc hn0 np' hgate
    rw [hsn] at hsplit; cases hsplit
    unfold netRest at hrest
    obtain ⟨host0, hh0, hrest⟩ := bind_ok hrest
    obtain ⟨host1, hh1, hrest⟩ := bind_ok hrest
    rw [hh] at hh0; cases hh0
    rw [hf] at hh1; cases hh1
    -- the written host text
    have hw : HostTxt (rebracket (mem 91 (rpartition 64 p.netloc).2.2) eh) b :=
      hostTxt_rebracket_validated _ hb h64 h91 h93
    have hrb : (if (mem 91 (rpartition 64 p.netloc).2.2 && !mem 91 eh) = true then [91] ++ eh ++ [93] else eh) =
        rebracket (mem 91 (rpartition 64 p.netloc).2.2) eh := rfl
    simp only [hrb, hostText_unbracket hw] at hrest
    have key : ∃ ru rp port, pre = some { rawHost := some b, explicitPort := port, rawUser := ru, rawPassword := rp } := by
      split at hrest
      · cases hrest; exact ⟨_, _, _, rfl⟩
      · cases hrest; exact ⟨_, _, _, rfl⟩
    obtain ⟨ru, rp, port, hpre⟩ := key
    subst hu'
    rw [hun]
    unfold rawHost net finishUrl
    rw [hpre]; rfl

open StrTotal (bind_ok ite_err_ok rebracket) in
open V6More FixLemmas in
/-- … and the FOURTH route, `URL.build(authority=A, …)` (host encoded WITHOUT validation, like the constructor): when the
    host part `h0` of `A` (as `split_netloc` cuts it out) passes validation, the raw host stored is again `unbracket eh`.
    (When it does NOT pass validation this route still accepts it — `C16_headline_validation_fails_for_build_authority` —
    and stores the lower-cased / IDNA text; then nothing ties it to the other routes, which reject.) -/
theorem C16_host_text_build_authority_route (e : Env) (a : BuildArgs) (u : Url) (np : NetlocParts) (h0 eh : Str)
    (hbu : build e a = .ok u)
    (henc : a.encoded = false)                              -- guard: encoded=True skips everything
    (hauth : a.authority ≠ [])                              -- the `authority=` route
    (hsn : splitNetloc e.o a.authority = .ok np) (hh : np.host = some h0)   -- `h0` is the host part of the authority
    (hv : encodeHost e.o h0 true = .ok eh)                  -- … and passes validation
    (hne0 : eh ≠ []) :                                      -- excludes an IDNA oracle answering ""
    ∀ x, rawHost e u = .ok x → x = some (unbracket eh) := by
  intro x hx
  obtain ⟨b, hb, h64, h91, h93⟩ := encoded_host_plain e.o h0 eh hv
  have hun : unbracket eh = b := by rw [hb]; exact unbracket_bracket' h91
  have hf : encodeHost e.o h0 false = .ok eh := (C16_validation_only_rejects e.o h0 eh).1 hv
  obtain ⟨sc, _, _, hpre, _, _⟩ := build_parts e a u henc hbu
  obtain ⟨sc', np', h1, X, _, _, _, hnp', hh1, hX, hnl, _⟩ := C16_build_authority_host e a u hbu henc hauth
  rw [hsn] at hnp'; cases hnp'
  rw [hh] at hh1
  simp only at hh1
  rw [hf] at hh1; cases hh1
  have hw := hostTxt_rebracket_validated (mem 91 (rpartition 64 a.authority).2.2) hb h64 h91 h93
  have hne : u.netloc ≠ [] := by
    rw [hnl]; intro hz
    simp only [List.append_eq_nil_iff] at hz
    have : rebracket (mem 91 (rpartition 64 a.authority).2.2) eh = [] := hz.1.2
    unfold rebracket at this
    split at this
    · simp at this
    · exact hne0 this
  rw [hun]
  exact rawHost_hostText e u hw _ X hX hpre hnl hne hx

/-! ## C16 GAPS 6 — the NFKC clause and `with_host`; `encoded=True` -/

open StrTotal (bind_ok ite_err_ok rebracket) in
open V6More FixLemmas in
/-- "any authority containing a non-ASCII character whose NFKC form contains '/', '?', '#', '@' or ':' is rejected" —
    `with_host` does NOT run the NFKC screen `_check_netloc`, and does not need to: WHATEVER the argument `h0` (ASCII or
    not, whatever its NFKC form, whatever the IDNA oracle answers), if `u.with_host(h0)` returns a URL then the raw host
    it stores contains none of '/', '?', '#', '@', ' ', and contains ':' '[' ']' only when `h0` is an IP literal (then
    the raw host is the compressed IPv6 text with its zone); so no part of the host can be re-read as userinfo, port,
    path, query or fragment.  (For a non-ASCII `h0` the stored host is the IDNA answer, which passed `NOT_REG_NAME` —
    or, since fix 3fbf5b4, the canonical text of the IP literal which that answer spells: the second alternative of the
    last conjunct.) -/
theorem C16_with_host_needs_no_nfkc_screen (e : Env) (u u' : Url) (h0 : Str) (hw : withHost e u h0 = .ok u') :
    ∃ eh, encodeHost e.o h0 true = .ok eh ∧
      ∀ x, rawHost e u' = .ok (some x) →
        (∀ c ∈ x, c ∈ eh) ∧
        64 ∉ x ∧ 47 ∉ x ∧ 63 ∉ x ∧ 35 ∉ x ∧ 32 ∉ x ∧
        ((∃ c ∈ x, c = 58 ∨ c = 91 ∨ c = 93) → (∃ ip, parseIP (partition 37 h0).1 = some ip) ∨
          (isAscii h0 = false ∧ ∃ a ip, idnaEncode e.o h0 = .ok a ∧ parseIP (partition 37 a).1 = some ip)) := by
  have hw0 := hw
  unfold withHost at hw
  obtain ⟨hn0, hw⟩ := ite_err_ok hw
  obtain ⟨_, hw⟩ := ite_err_ok hw
  obtain ⟨eh, heh, hw⟩ := bind_ok hw
  obtain ⟨port, hport, hw⟩ := bind_ok hw
  obtain ⟨ru, hru, hw⟩ := bind_ok hw
  obtain ⟨rp, hrp, hw⟩ := bind_ok hw
  cases hw
  refine ⟨eh, heh, ?_⟩
  intro x hx
  obtain ⟨b, hb, h64, h91, h93⟩ := encoded_host_plain e.o h0 eh heh
  have hnl := makeNetloc_userPrefix (q e Gen.QUOTER) ru rp eh port
  have hxb : x = b := by
    by_cases hne : (fromParts u.scheme (makeNetloc (q e Gen.QUOTER) ru rp (some eh) port false) u.path u.query
        u.fragment).netloc = []
    · have hx' := rawHost_nil e _ rfl hne
      rw [hx'] at hx; cases hx
    · have := rawHost_hostText e _ (hb ▸ hostText_bracket h64 h91 h93) port _ (userPrefix_shape ru rp) rfl hnl hne hx
      exact Option.some.inj this
  subst hxb
  have hsub : ∀ c ∈ x, c ∈ eh := by
    intro c hc
    rw [hb]; unfold bracket
    split
    · simp [hc]
    · exact hc
  obtain ⟨a1, a2, a3, a4, a5, a6⟩ := C16_headline_never_injects e.o h0 eh heh
  refine ⟨hsub, h64, fun h => a2 (hsub _ h), fun h => a3 (hsub _ h), fun h => a4 (hsub _ h),
    fun h => a5 (hsub _ h), ?_⟩
  rintro ⟨c, hc, hcc⟩
  exact a6 ⟨c, hsub c hc, hcc⟩

/-- … and the clause AS WRITTEN ("is rejected") is an accident of the IDNA oracle on this route, not a guarantee of the
    library: with the answers the real code gives for the host "a／b" (U+FF0F FULLWIDTH SOLIDUS, NFKC "/": the `idna`
    package refuses it, the stdlib codec — which applies NFKC — answers "a/b") `with_host` raises ValueError, because the
    answer fails the reg-name screen; with a HYPOTHETICAL package that answers reg-name text ("xn--ab-x") `with_host`
    stores that answer although the NFKC form of the argument contains '/', while the constructor rejects the same host
    through `_check_netloc`.  Both backends. -/
theorem C16_with_host_nfkc_clause_depends_on_idna : ∀ b : Backend,
    let fw : Str := [97, 0xFF0F, 98]                       -- "a／b"
    let real : Oracles := { Oracles.empty with
      nfkc := fun s => some (s.map fun c => if c = 0xFF0F then 47 else c),
      idnaEnc := fun _ => some none, idnaEncStd := fun _ => some (some "a/b".toStr), isDigitU := fun _ => some false }
    let hypo : Oracles := { real with idnaEnc := fun _ => some (some "xn--ab-x".toStr) }
    let base : BuildArgs := { scheme := "http".toStr, host := "example.com".toStr, path := "/p".toStr }
    ((build ⟨b, real⟩ base).bind (fun u => withHost ⟨b, real⟩ u fw)) = .error .valueError ∧
    ((build ⟨b, hypo⟩ base).bind (fun u => withHost ⟨b, hypo⟩ u fw)).map (·.netloc) = .ok "xn--ab-x".toStr ∧
    encodeUrl ⟨b, hypo⟩ ("http://".toStr ++ fw ++ "/p".toStr) = .error .valueError := by
  intro b; cases b <;> exact ⟨by decide +kernel, by decide +kernel, by decide +kernel⟩

open StrTotal (bind_ok ite_err_ok) in
/-- `build(encoded=True)` skips EVERYTHING of C16 (C16Headline GAPS 5 / 6, "no theorem"): the stored netloc is the
    `authority` argument verbatim — or `host[:port]` / `[user[:password]@]host[:port]` around the `host` argument
    verbatim — with no lower-casing, no IDNA, no IPv6 compression, no reg-name screen and no NFKC screen; the `nfkc`
    and IDNA oracles are not consulted at all. -/
theorem C16_build_encoded_skips_host_processing (e : Env) (a : BuildArgs) (u : Url) (henc : a.encoded = true)
    (hb : build e a = .ok u) :
    (a.authority ≠ [] → u.netloc = a.authority) ∧
    (a.authority = [] → a.host ≠ [] → a.user = none → a.password = none →
      ∃ port, u.netloc = a.host ++ V6More.portStr port) ∧
    (a.authority = [] → a.host = [] → u.netloc = []) ∧
    u.scheme = a.scheme ∧ u.pre = none ∧
    (∀ o' : Oracles, build ⟨e.b, o'⟩ a = build e a) := by
  have horacle : ∀ o' : Oracles, build ⟨e.b, o'⟩ a = build e a := by
    intro o'
    unfold build
    simp only [henc, if_true]
    rfl
  unfold build at hb
  obtain ⟨_, hb⟩ := ite_err_ok hb
  obtain ⟨_, hb⟩ := ite_err_ok hb
  obtain ⟨_, hb⟩ := ite_err_ok hb
  obtain ⟨_, hb⟩ := ite_err_ok hb
  obtain ⟨_, hb⟩ := ite_err_ok hb
  obtain ⟨qs, _, hb⟩ := bind_ok hb
  rw [henc] at hb
  simp only [if_true, pure, Except.pure, Except.ok.injEq] at hb
  subst hb
  refine ⟨?_, ?_, ?_, rfl, rfl, horacle⟩
  · intro hA
    have : a.authority.isEmpty = false := by
      cases hq : a.authority with
      | nil => exact absurd hq hA
      | cons _ _ => rfl
    simp [buildPreEncoded, fromParts, this]
  · intro hA hH hU hP
    have hh : a.host.isEmpty = false := by
      cases hq : a.host with
      | nil => exact absurd hq hH
      | cons _ _ => rfl
    simp only [buildPreEncoded, fromParts, hA, hh, hU, hP, List.isEmpty_nil, Bool.not_true, Bool.false_eq_true,
      if_false, Bool.not_false, if_true, Option.isNone_none, Bool.and_self]
    split
    · exact ⟨none, by simp [V6More.portStr]⟩
    · rename_i pt _
      exact ⟨some pt, by simp [V6More.portStr]⟩
  · intro hA hH
    simp [buildPreEncoded, fromParts, hA, hH]

/-! ### non-vacuity -/
-- the one hypothesis of `C16_encode_idempotent_every_host` / `C16_host_text_three_routes`, on the four host kinds
example : encodeHost Oracles.empty "EXAMPLE.com".toStr true = .ok "example.com".toStr ∧
    encodeHost Oracles.empty "FE80::1%Eth0".toStr true = .ok "[fe80::1%Eth0]".toStr ∧
    unbracket "[fe80::1%Eth0]".toStr = "fe80::1%Eth0".toStr ∧
    encodeHost Oracles.empty "192.0.2.1".toStr true = .ok "192.0.2.1".toStr ∧
    encodeHost C16_idn_sampleOracle C16_idn_buecher true = .ok "xn--bcher-kva".toStr := by
  refine ⟨by decide +kernel, by decide +kernel, by decide +kernel, by decide +kernel, by decide +kernel⟩
-- the four routes on one host text (an IPv6 literal with zone, upper case, uncompressed), evaluated
example : ∀ b : Backend,
    let e : Env := ⟨b, Oracles.empty⟩
    (encodeUrl e "http://u:p@[FE80:0:0:0:0:0:0:1%Eth0]:8080/x".toStr).bind (rawHost e) = .ok (some "fe80::1%Eth0".toStr) ∧
    (build e { scheme := "http".toStr, host := "FE80:0:0:0:0:0:0:1%Eth0".toStr }).bind (rawHost e) =
      .ok (some "fe80::1%Eth0".toStr) ∧
    ((build e { scheme := "http".toStr, host := "x".toStr }).bind
      (fun u => withHost e u "FE80:0:0:0:0:0:0:1%Eth0".toStr)).bind (rawHost e) = .ok (some "fe80::1%Eth0".toStr) ∧
    (build e { scheme := "http".toStr, authority := "u:p@[FE80:0:0:0:0:0:0:1%Eth0]:8080".toStr }).bind (rawHost e) =
      .ok (some "fe80::1%Eth0".toStr) := by
  intro b; cases b <;> exact ⟨by decide +kernel, by decide +kernel, by decide +kernel, by decide +kernel⟩
-- `encoded=True`: the authority "a＠evil.com" (U+FF20) and an upper-case, uncompressed IPv6 host are stored verbatim
example : ∀ b : Backend,
    (build ⟨b, V6More.nfkcDemo⟩
      { scheme := "http".toStr, encoded := true, authority := ([97, 0xFF20] ++ "evil.com".toStr) }).map (·.netloc) =
        .ok ([97, 0xFF20] ++ "evil.com".toStr) ∧
    (build ⟨b, Oracles.empty⟩
      { scheme := "HTTP".toStr, encoded := true, port := some 8080, host := "[FE80:0:0:0:0:0:0:1]".toStr }).map
        (fun u => (u.scheme, u.netloc)) = .ok ("HTTP".toStr, "[FE80:0:0:0:0:0:0:1]:8080".toStr) := by
  intro b; cases b <;> exact ⟨by decide +kernel, by decide +kernel⟩

end Yarl
