import YarlProofs.C04
import YarlProofs.C04General
import YarlProofs.C07Recompose
import YarlProofs.C03Netloc
import YarlProofs.C04Idn
/-!
  C04Headline.lean — AUDIT LAYER for property C04.

  C04 | Already-canonical URLs are left untouched |
  "For every string that is already canonical - lower-case scheme and host, no default port, no dot segments
  under an authority, only characters that are legal literally in each component, and upper-case escapes only
  for characters that must be escaped there (or, for that component's reserved delimiters, may be) -
  str(URL(s)) == s. The library neither over-encodes nor over-decodes, as documented ('Already encoded URL is
  not changed')."

  Vocabulary.  `C04_roundTrip e s` = `encodeUrl e s >>= str e` = str(URL(s)).
  `canonText sc nl p q f` = `unsplitResult sc nl p q f`, the string with these five components.
  `Canon t x` (Lemmas/Canon.lean): `x` consists of literals `c` with `t.safe c` (not '%', not ' ' in a form table)
  and escapes `%XY` (upper-case hex) of bytes that are ≥ 128, or not safe, or protected (`t.prot`).
  `CanonNetloc e sc nl`: `nl = []`, or `nl = authText user pw host port` = `[user[:password]@]host[:port]` with
  `UserInfoOK` (user non-empty, user/password `Canon` for REQUOTER), `HostFix` (a host `_encode_host` maps to
  itself: every non-empty lower-case host text without ':' — reg-names, also ending in a digit or a dot, IPv4 —,
  compressed IPv6 with or without zone id, sane A-labels: C04_headline_lower_case_host_families) and `PortOK`
  (≤ 65535, not the scheme default).
  KNOWN FINDINGS of C04 (strings canonical in the words of the property that ARE changed; each is a theorem below):
  F-C04-empty-path, F-C04-single-slash, F-C04-empty-delims, F-C04-empty-authority, F-C04-colon-password.

  Continued in C04HeadlineMore.lean (theorems that need a module which imports this file): C04Bracket.lean imports this
  file, so the identity for BRACKETED hosts that are not IPv6 addresses (IPvFuture "[v1.a:b]", "[g::1]", "[a:b]";
  GAPS 1) is stated there as `C04_headline_…_bracketed_…`.
  Continued further in C04HeadlineMore4.lean (C04Decide.lean, C04DecideConverse.lean, C04DecideDomain.lean,
  C04DecideEmpty.lean, added after both files): the Boolean checker `canonicalB` on the raw string and its soundness
  (GAPS 2), the converse inside `C04_Domain` and where it fails (GAPS 5), the empty host (GAPS 1) and the empty user
  (GAPS 4).
-/
set_option linter.unusedVariables false
namespace Yarl
open FixLemmas NetShape HostLemmas NetlocLemmas Idn

/-! ## Sentence 1 — "For every string that is already canonical - … - str(URL(s)) == s." -/

/-- The sentence, for the string written from five components; every hypothesis is one phrase of the property text
    or a recorded exclusion.  (This is `C04_identity_general` / `C04_roundTrip_general` with `CanonString`
    unfolded field by field.) -/
theorem C04_headline_canonical_string_unchanged (e : Env) (scheme netloc path query fragment : Str)
    -- "lower-case scheme": empty, or non-empty lower-case scheme characters      (needed: C04_general_scheme_needed)
    (h_scheme : SchemeOK' scheme)
    -- "lower-case … host", "no default port" (+ canonical userinfo)   (C04_general_host_needed, C04_general_default_port_needed)
    -- the userinfo clause (`UserInfoOK`: no literal ':' in the password) is KNOWN FINDING F-C04-colon-password
    -- (`C04_headline_fails_for_colon_in_password` below)
    (h_netloc : CanonNetloc e scheme netloc)
    -- "only characters that are legal literally in each component, and upper-case escapes only for characters that
    -- must be escaped there (or, for … reserved delimiters, may be)"                   (C04_general_escape_needed)
    (h_path : Canon (Gen.PATH_REQUOTER.tab e.b) path)
    (h_query : Canon (Gen.QUERY_REQUOTER.tab e.b) query)
    (h_fragment : Canon (Gen.FRAGMENT_REQUOTER.tab e.b) fragment)
    -- "no dot segments under an authority"                                         (C04_general_dot_segment_needed)
    (h_nodots : netloc ≠ [] → NoDotSegments path)
    -- well-formedness of the 5-tuple: under an authority the path is empty or rooted  (C04_general_rooted_needed)
    (h_rooted : netloc ≠ [] → (path = [] ∨ path.head? = some 47))
    -- NOT in the property text — KNOWN FINDING F-C04-empty-path: an empty path before '?'/'#' under an authority is
    -- written "/" (C04_general_empty_path_needed; `C04_headline_fails_for_empty_path` below)
    (h_nonempty : netloc ≠ [] → path = [] → query = [] ∧ fragment = [])
    -- well-formedness of the 5-tuple: a scheme-less, authority-less path whose text before ':' reads as a scheme IS
    -- a scheme (C04_general_first_segment_needed; the STRING "a:b" is still a fixed point, as scheme "a" + path "b")
    (h_first_segment : scheme = [] → netloc = [] → 58 ∈ path →
      (path.takeWhile (· ≠ 58) = [] ∨ (path.takeWhile (· ≠ 58)).all (fun c => mem c Gen.schemeChars) = false))
    -- NOT in the property text — KNOWN FINDING F-C03-rootless: for a scheme in `uses_authority` without authority
    -- the path must be empty or rooted (C04_general_authority_scheme_needed; `…_fails_for_authority_scheme` below)
    (h_authority_scheme : scheme ≠ [] → Gen.usesAuthority.contains scheme = true → netloc = [] →
      (path = [] ∨ path.head? = some 47)) :
    C04_roundTrip e (canonText scheme netloc path query fragment) = .ok (canonText scheme netloc path query fragment) ∧
    ∃ u, encodeUrl e (canonText scheme netloc path query fragment) = .ok u ∧
      u.scheme = scheme ∧ u.netloc = netloc ∧ u.path = path ∧ u.query = query ∧ u.fragment = fragment := by
  have h : CanonString e scheme netloc path query fragment :=
    ⟨h_scheme, h_netloc, h_path, h_query, h_fragment, h_rooted, h_nodots, h_nonempty, h_first_segment,
      h_authority_scheme⟩
  obtain ⟨u, h1, _, h3⟩ := C04_identity_general e scheme netloc path query fragment h
  exact ⟨C04_roundTrip_general e scheme netloc path query fragment h, u, h1, h3⟩
-- Appendix E: C04_identity ↦ C04_identity_general (C04General.lean).  `CanonUrl s` (a predicate on the string)
--   became `CanonString e scheme netloc path query fragment` on components + `canonText`; the string-quantified
--   form is the next theorem (NEW).  `(encodeUrl s).map str = .ok s` became `C04_roundTrip e s = .ok s`
--   (`str` is itself fallible in the model).

/-- NEW (closes the gap between "for every 5-tuple" and "For every string"): for EVERY string `s` that parses, whose
    parsed components are canonical in the sense above, and that loses nothing in parsing, str(URL(s)) == s.
    Composition of C07_unsplit_split_id with C04_roundTrip_general. -/
theorem C04_headline_every_canonical_string (e : Env) (s : Str) (p : Parts)
    (h_parse : splitUrl e.o s = .ok p)
    (h_canon : CanonString e p.scheme p.netloc p.path p.query p.fragment)
    -- no leading C0/space, no TAB/CR/LF (they are stripped: C07_clean_spec)
    (h_clean : cleanUrl s = s)
    -- the scheme is WRITTEN lower-case in `s` (the parsed scheme is lowered already)
    (h_lower : (splitScheme s).1 = [] ∨ lower (s.takeWhile (· ≠ 58)) = s.takeWhile (· ≠ 58))
    -- no empty '?'/'#' delimiter (KNOWN FINDING F-C04-empty-delims, `C04_headline_fails_for_empty_delims`), no "//" of
    -- an empty authority that unsplit would not write (F-C04-empty-authority, `…_fails_for_empty_authority`), "//"
    -- after a `uses_authority` scheme (F-C04-single-slash, `…_fails_for_single_slash`)
    -- (C07_recomposable_*_counterexample; `C04_headline_fails_for_dropped_delimiters` below)
    (h_recomp : Recomposable s) :
    C04_roundTrip e s = .ok s := by
  have hs := C07_unsplit_split_id e.o s p h_parse h_recomp h_clean h_lower
  have := C04_roundTrip_general e p.scheme p.netloc p.path p.query p.fragment h_canon
  rwa [canonText, hs] at this

/-! ### "lower-case … host": which hosts are covered (closes GAPS 1 except the empty host; bracketed non-IPv6 hosts —
    IPvFuture — are in C04HeadlineMore.lean) -/

/-- "lower-case … host" is `HostFix o h` (= `_encode_host(h)` is `h` again, in brackets when it contains ':').  It
    holds for EVERY non-empty lower-case host text without ':' (`hostChar` = visible ASCII, no upper-case letter,
    none of `/ ? # : @ [ ]`: reg-names — also ending in a digit such as "h1", "example.com1" —, IPv4 literals), for
    such a text followed by a dot, for the compressed lower-case text `ipv6ToStr h8` of an IPv6 address without and
    with a zone id (`textChar` = visible ASCII, none of `/ ? # @ [ ]`), and for every sane A-label text
    (`IdnaAnswerSane a`, C16Idn.lean: non-empty and the library's `NOT_REG_NAME` screen finds nothing — "xn--…" hosts;
    no assumption about the `idna` package: the text is ASCII and never reaches IDNA).
    Cites C03_hostFix_lower, C03_hostFix_trailing_dot, C03_hostFix_ipv6_zone (C03Netloc.lean), hostFix_ipv6
    (Lemmas/FixLemmas.lean), Idn.hostFix_sane (C16Idn.lean). -/
theorem C04_headline_lower_case_host_families (o : Oracles) :
    (∀ h : Str, h ≠ [] → (∀ c ∈ h, hostChar c = true) → HostFix o h) ∧
    (∀ h : Str, (∀ c ∈ h, hostChar c = true) → HostFix o (h ++ [46])) ∧
    (∀ h8 : List Nat, h8.length = 8 → (∀ x ∈ h8, x < 65536) → HostFix o (ipv6ToStr h8)) ∧
    (∀ (h8 : List Nat) (z : Str), h8.length = 8 → (∀ x ∈ h8, x < 65536) → (∀ c ∈ z, textChar c = true) →
      HostFix o (ipv6ToStr h8 ++ 37 :: z)) ∧
    (∀ a : Str, IdnaAnswerSane a → HostFix o a) :=
  ⟨fun _ hne hch => C03_hostFix_lower o hne hch, fun _ hch => C03_hostFix_trailing_dot o hch,
   fun h8 hl hx => hostFix_ipv6 o h8 hl hx,
   fun h8 z hl hx hz => C03_hostFix_ipv6_zone o h8 hl hx z hz, fun _ ha => hostFix_sane o ha⟩

/-- The identity for a string with an authority, written out as text: `scheme://[user[:password]@]host[:port]path
    [?query][#fragment]` (`composeUrl`) and the network-path reference `//[user[:password]@]host[:port]path…` are
    parsed into exactly these components and printed back unchanged, for ANY host of the families above.
    `CompOK b path query fragment`: path empty or rooted, path / query / fragment `Canon` for their requoters, no dot
    segment (`46 ∈ path → normalizePath path = path`), path not empty in front of a query or fragment.
    (C04_identity_authority_of_general, C04_identity_network_path_authority, C04General.lean.) -/
theorem C04_headline_canonical_authority_unchanged (e : Env) (scheme : Str) (user pw : Option Str) (h : Str)
    (port : Option Nat) (path query fragment : Str)
    (hu : UserInfoOK e.b user pw)                  -- canonical userinfo; no literal ':' in the password: F-C04-colon-password
    (hh : HostFix e.o h)                           -- "lower-case … host", see the families above
    (hc : CompOK e.b path query fragment) :        -- "only characters that are legal literally …", "no dot segments",
                                                   -- not empty before '?'/'#': F-C04-empty-path
    (SchemeOK scheme →                             -- "lower-case scheme" (non-empty)
      PortOK scheme port →                         -- "no default port" (and ≤ 65535)
      ∃ u, encodeUrl e (composeUrl scheme (authText user pw h port) path query fragment) = .ok u ∧
        str e u = .ok (composeUrl scheme (authText user pw h port) path query fragment) ∧
        u.scheme = scheme ∧ u.netloc = authText user pw h port ∧ u.path = path ∧ u.query = query ∧
        u.fragment = fragment) ∧
    ((∀ p, port = some p → p ≤ 65535) →            -- no scheme, so no default port
      ∃ u, encodeUrl e ([47, 47] ++ authText user pw h port ++ path ++ qPart query ++ fPart fragment) = .ok u ∧
        str e u = .ok ([47, 47] ++ authText user pw h port ++ path ++ qPart query ++ fPart fragment) ∧
        u.scheme = [] ∧ u.netloc = authText user pw h port ∧ u.path = path ∧ u.query = query ∧
        u.fragment = fragment) :=
  ⟨fun hs hp => C04_identity_authority_of_general e scheme user pw h port path query fragment hs hu hh hp hc,
   fun hp => C04_identity_network_path_authority e user pw h port path query fragment hu hh hp hc⟩

/-- A-label / IDN hosts (GAPS 1): the same identity for a sane A-label host `a`, stated on its own; and what the
    library itself stores for a NON-ASCII host `h` is such a text PROVIDED the answers of the `idna` package for `h`
    are sane (`IdnaSaneAt e.o h`: an ASSUMPTION about a third-party package, C16Idn.lean — the only place where
    the package enters C04).  (C04_idn_identity_general, C04_idn_identity_network_path, C04Idn.lean.) -/
theorem C04_headline_idn_host_unchanged (e : Env) (scheme : Str) (user pw : Option Str) (a : Str)
    (port : Option Nat) (path query fragment : Str)
    (hu : UserInfoOK e.b user pw)                  -- canonical userinfo (F-C04-colon-password)
    (ha : IdnaAnswerSane a)                        -- the host text: non-empty lower-case reg-name text ("xn--…")
    (hc : CompOK e.b path query fragment) :        -- as above (F-C04-empty-path)
    (SchemeOK scheme → PortOK scheme port →
      ∃ u, encodeUrl e (composeUrl scheme (authText user pw a port) path query fragment) = .ok u ∧
        str e u = .ok (composeUrl scheme (authText user pw a port) path query fragment) ∧
        u.scheme = scheme ∧ u.netloc = authText user pw a port ∧ u.path = path ∧ u.query = query ∧
        u.fragment = fragment) ∧
    ((∀ p, port = some p → p ≤ 65535) →
      ∃ u, encodeUrl e ([47, 47] ++ authText user pw a port ++ path ++ qPart query ++ fPart fragment) = .ok u ∧
        str e u = .ok ([47, 47] ++ authText user pw a port ++ path ++ qPart query ++ fPart fragment) ∧
        u.scheme = [] ∧ u.netloc = authText user pw a port ∧ u.path = path ∧ u.query = query ∧
        u.fragment = fragment) ∧
    (∀ h, IdnaSaneAt e.o h → idnaEncode e.o h = .ok a → IdnaAnswerSane a) :=
  ⟨fun hs hp => C04_idn_identity_general e scheme user pw a port path query fragment hs hu ha hp hc,
   fun hp => C04_idn_identity_network_path e user pw a port path query fragment hu ha hp hc,
   fun _ hs he => idnaEncode_sane hs he⟩

/-- the assumption cannot be dropped for the library's OWN output: with an `idna` package that answered "XN--A" for
    the host of `C16_idn_input` ("http://é/p") the constructor stores that, and str(URL("http://XN--A/p")) is
    "http://xn--a/p".  (A hypothetical package, not a finding; "XN--A" is not `IdnaAnswerSane`.) -/
theorem C04_headline_idn_fails_for_upper_case_answer :
    let e : Env := { b := .c, o := C16_idn_hostile "XN--A".toStr }
    (encodeUrl e C16_idn_input).bind (str e) = .ok "http://XN--A/p".toStr ∧
    (encodeUrl e "http://XN--A/p".toStr).bind (str e) = .ok "http://xn--a/p".toStr :=
  C04_idn_needs_lower

/-! ### strings that look canonical in the words of the property but are changed -/

/-- KNOWN FINDING F-C04-empty-path (witness URL('http://h?q')): an empty path under an authority is written as "/" in
    front of a query or fragment: "http://h?q" ↦ "http://h/?q", "//h?q" ↦ "//h/?q", "//h#f" ↦ "//h/#f"
    (guard `h_nonempty`) -/
theorem C04_headline_fails_for_empty_path (b : Backend) :
    C04_roundTrip ⟨b, Oracles.empty⟩ "http://h?q".toStr = .ok "http://h/?q".toStr ∧
    C04_roundTrip ⟨b, Oracles.empty⟩ "//h?q".toStr = .ok "//h/?q".toStr ∧
    C04_roundTrip ⟨b, Oracles.empty⟩ "//h#f".toStr = .ok "//h/#f".toStr :=
  ⟨(C04_general_empty_path_needed b).2.2.2.2.1, (C04_general_empty_path_needed b).2.2.2.2.2.1,
    (C04_general_empty_path_needed b).2.2.2.2.2.2⟩

/-- F-C03-rootless seen from C04: "file:a/b" ↦ "file:///a/b" (guard `h_authority_scheme`), and KNOWN FINDING
    F-C04-single-slash (same root): "file:/p" ↦ "file:///p", "http:/p" ↦ "http:///p"
    (guard `Recomposable.authority_scheme`; on its own: `C04_headline_fails_for_single_slash`) -/
theorem C04_headline_fails_for_authority_scheme (b : Backend) :
    C04_roundTrip ⟨b, Oracles.empty⟩ "file:a/b".toStr = .ok "file:///a/b".toStr ∧
    C04_roundTrip ⟨b, Oracles.empty⟩ "file:/p".toStr = .ok "file:///p".toStr ∧
    C04_roundTrip ⟨b, Oracles.empty⟩ "http:/p".toStr = .ok "http:///p".toStr :=
  ⟨(C04_general_authority_scheme_needed b).2.2.2.2, (C04_authority_scheme_single_slash_not_fixed b).1,
    (C04_authority_scheme_single_slash_not_fixed b).2.1⟩

/-- At URL level (guard `Recomposable`): an empty query / fragment delimiter — KNOWN FINDING F-C04-empty-delims — and
    the "//" of an empty authority — KNOWN FINDING F-C04-empty-authority — are dropped: "http://h/a?" ↦ "http://h/a",
    "http://h/a#" ↦ "http://h/a", "x:///p" ↦ "x:/p".  Class by class with all recorded witnesses: the next three
    theorems. -/
theorem C04_headline_fails_for_dropped_delimiters (b : Backend) :
    C04_roundTrip ⟨b, Oracles.empty⟩ "http://h/a?".toStr = .ok "http://h/a".toStr ∧
    C04_roundTrip ⟨b, Oracles.empty⟩ "http://h/a#".toStr = .ok "http://h/a".toStr ∧
    C04_roundTrip ⟨b, Oracles.empty⟩ "x:///p".toStr = .ok "x:/p".toStr := by
  cases b <;> decide +kernel

/-- KNOWN FINDING F-C04-empty-delims (witness URL('http://h/a?')): an empty '?' or '#' delimiter is dropped —
    "http://h/a?" ↦ "http://h/a", "http://h/a#" ↦ "http://h/a", "/p?#" ↦ "/p".  The strings satisfy every condition
    the property lists; the URL value is the same (guard `Recomposable.query_delim` / `.fragment_delim`). -/
theorem C04_headline_fails_for_empty_delims (b : Backend) :
    C04_roundTrip ⟨b, Oracles.empty⟩ "http://h/a?".toStr = .ok "http://h/a".toStr ∧
    C04_roundTrip ⟨b, Oracles.empty⟩ "http://h/a#".toStr = .ok "http://h/a".toStr ∧
    C04_roundTrip ⟨b, Oracles.empty⟩ "/p?#".toStr = .ok "/p".toStr := by
  cases b <;> decide +kernel

/-- KNOWN FINDING F-C04-empty-authority (witness URL('x:///p')): the "//" of an empty authority is dropped for a
    scheme outside urllib's `uses_netloc` (`Gen.usesAuthority`) — both recorded witnesses: "x:///p" ↦ "x:/p" and
    "x://" ↦ "x:"; the results are fixed points (guard `Recomposable.authority_marker`). -/
theorem C04_headline_fails_for_empty_authority (b : Backend) :
    Gen.usesAuthority.contains "x".toStr = false ∧
    C04_roundTrip ⟨b, Oracles.empty⟩ "x:///p".toStr = .ok "x:/p".toStr ∧
    C04_roundTrip ⟨b, Oracles.empty⟩ "x://".toStr = .ok "x:".toStr ∧
    C04_roundTrip ⟨b, Oracles.empty⟩ "x:/p".toStr = .ok "x:/p".toStr ∧
    C04_roundTrip ⟨b, Oracles.empty⟩ "x:".toStr = .ok "x:".toStr := by
  cases b <;> decide +kernel

/-- KNOWN FINDING F-C04-single-slash (witness URL('file:/p'); same root as F-C03-rootless): for a scheme in urllib's
    `uses_netloc` an absent authority is written as an empty one — both recorded witnesses: "file:/p" ↦ "file:///p"
    and "http:/p" ↦ "http:///p"; the canonical spelling "file:///p" is a fixed point
    (guard `Recomposable.authority_scheme`). -/
theorem C04_headline_fails_for_single_slash (b : Backend) :
    C04_roundTrip ⟨b, Oracles.empty⟩ "file:/p".toStr = .ok "file:///p".toStr ∧
    C04_roundTrip ⟨b, Oracles.empty⟩ "http:/p".toStr = .ok "http:///p".toStr ∧
    canonText "file".toStr [] "/p".toStr [] [] = "file:///p".toStr ∧
    C04_roundTrip ⟨b, Oracles.empty⟩ "file:///p".toStr = .ok "file:///p".toStr :=
  C04_authority_scheme_single_slash_not_fixed b

/-- KNOWN FINDING F-C04-colon-password (witness URL('http://u:p:w@h/')): a literal ':' inside the password is legal
    RFC 3986 userinfo but is escaped (REQUOTER keeps no ':' literal, see `C04_headline_no_over_encoding`; documented
    deviation): "http://u:p:w@h/" ↦ "http://u:p%3Aw@h/" (guard `UserInfoOK` in `h_netloc`) -/
theorem C04_headline_fails_for_colon_in_password (b : Backend) :
    C04_roundTrip ⟨b, Oracles.empty⟩ "http://u:p:w@h/".toStr = .ok "http://u:p%3Aw@h/".toStr := by
  cases b <;> decide +kernel

/-! ## Sentence 2 — "The library neither over-encodes nor over-decodes, as documented ('Already encoded URL is not
    changed')." -/

/-- "neither over-encodes …": the characters a requoter keeps literal are EXACTLY the RFC 3986 literals of its
    component (userinfo: without ':'), nothing ≥ 128 is literal — so nothing that may stand literally is escaped and
    nothing else is left raw. -/
theorem C04_headline_no_over_encoding (b : Backend) (c : Nat) :
    (c < 128 →
      (Gen.PATH_REQUOTER.tab b).safe c = Rfc.pathLit c ∧ (Gen.QUERY_REQUOTER.tab b).safe c = Rfc.queryLit c ∧
      (Gen.FRAGMENT_REQUOTER.tab b).safe c = Rfc.queryLit c ∧
      (Gen.REQUOTER.tab b).safe c = (Rfc.userinfoLit c && c != 58)) ∧
    (128 ≤ c → ∀ a ∈ Gen.allQuoters, (a.tab b).safe c = false) :=
  ⟨C04_policy b c, fun hc a ha => C04_policy_high b a ha c hc⟩
-- Appendix E: C04_policy ↦ C04_policy (same name; `Gen.requoterOf comp` became the four explicit tables, the
--   userinfo ':' exception is in the statement).

/-- "… nor over-decodes": the escapes a requoter KEEPS although the byte could be literal are exactly those of its
    reserved delimiters ('/' '+' in paths; '=' '+' '&' ';' in queries; none in fragment and userinfo) -/
theorem C04_headline_no_over_decoding (b : Backend) (c : Nat) (hc : c < 128) :
    (Gen.PATH_REQUOTER.tab b).prot c = (c == 47 || c == 43) ∧
    (Gen.QUERY_REQUOTER.tab b).prot c = (c == 61 || c == 43 || c == 38 || c == 59) ∧
    (Gen.FRAGMENT_REQUOTER.tab b).prot c = false ∧ (Gen.REQUOTER.tab b).prot c = false :=
  C04_policy_protected b c hc

/-- "'Already encoded URL is not changed'", component level: every generated requoter returns canonical text
    unchanged, what it writes is canonical, and it is idempotent; what the non-requoting partner (used by build /
    modifiers) writes is unchanged by the requoter. -/
theorem C04_headline_already_encoded_component (b : Backend) (a : QArgs) (ha : a ∈ Gen.allQuoters)
    (hreq : a.requote = true) (s : Str) (hs : PyStr s) :
    (Canon (a.tab b) s → a.run b s = s) ∧ Canon (a.tab b) (a.run b s) ∧ a.run b (a.run b s) = a.run b s ∧
    (Gen.REQUOTER.run b (Gen.QUOTER.run b s) = Gen.QUOTER.run b s ∧
     Gen.PATH_REQUOTER.run b (Gen.PATH_QUOTER.run b s) = Gen.PATH_QUOTER.run b s ∧
     Gen.QUERY_REQUOTER.run b (Gen.QUERY_QUOTER.run b s) = Gen.QUERY_QUOTER.run b s ∧
     Gen.QUERY_REQUOTER.run b (Gen.QUERY_PART_QUOTER.run b s) = Gen.QUERY_PART_QUOTER.run b s ∧
     Gen.FRAGMENT_REQUOTER.run b (Gen.FRAGMENT_QUOTER.run b s) = Gen.FRAGMENT_QUOTER.run b s) :=
  ⟨C04_component_identity b a ha hreq s hs, C04_requote_canon b a ha hreq s hs, C04_requote_idem b a ha hreq s hs,
    C04_partner_fixed b s hs⟩

/-! ## non-vacuity -/

example (b : Backend) : C04_roundTrip ⟨b, Oracles.empty⟩ "http://u:p%40w@[2001:db8::1]:8080/a/b?q#f".toStr =
    .ok "http://u:p%40w@[2001:db8::1]:8080/a/b?q#f".toStr := by
  obtain ⟨_, _, _, ⟨u, h1, h2, _⟩, _⟩ := C04_general_examples b
  unfold C04_roundTrip; rw [h1]; exact h2

-- hosts of GAPS 1 that had no identity theorem: a reg-name ending in a digit, a trailing dot, IPv6 with a zone id
example (b : Backend) : ∃ u, encodeUrl ⟨b, Oracles.empty⟩ "http://example.com1/p".toStr = .ok u ∧
    str ⟨b, Oracles.empty⟩ u = .ok "http://example.com1/p".toStr := by
  obtain ⟨u, h1, h2, _⟩ := (C04_headline_canonical_authority_unchanged ⟨b, Oracles.empty⟩ "http".toStr none none
    "example.com1".toStr none "/p".toStr [] [] (userInfoOK_none _)
    ((C04_headline_lower_case_host_families _).1 _ (by decide) (by decide))
    (compOKB_sound (by cases b <;> decide +kernel))).1 (by decide) (IdGen.portOK_none _)
  exact ⟨u, h1, h2⟩
example (b : Backend) : ∃ u, encodeUrl ⟨b, Oracles.empty⟩ "//example.com./p".toStr = .ok u ∧
    str ⟨b, Oracles.empty⟩ u = .ok "//example.com./p".toStr := by
  obtain ⟨u, h1, h2, _⟩ := (C04_headline_canonical_authority_unchanged ⟨b, Oracles.empty⟩ [] none none
    ("example.com".toStr ++ [46]) none "/p".toStr [] [] (userInfoOK_none _)
    ((C04_headline_lower_case_host_families _).2.1 _ (by decide))
    (compOKB_sound (by cases b <;> decide +kernel))).2 (fun p hp => by cases hp)
  exact ⟨u, h1, h2⟩
example (b : Backend) : ∃ u, encodeUrl ⟨b, Oracles.empty⟩ "http://[fe80::1%eth0]:8080/p".toStr = .ok u ∧
    str ⟨b, Oracles.empty⟩ u = .ok "http://[fe80::1%eth0]:8080/p".toStr := by
  obtain ⟨u, h1, h2, _⟩ := (C04_headline_canonical_authority_unchanged ⟨b, Oracles.empty⟩ "http".toStr none none
    (ipv6ToStr [0xfe80, 0, 0, 0, 0, 0, 0, 1] ++ 37 :: "eth0".toStr) (some 8080) "/p".toStr [] [] (userInfoOK_none _)
    ((C04_headline_lower_case_host_families _).2.2.2.1 _ _ rfl (by decide) (by decide))
    (compOKB_sound (by cases b <;> decide +kernel))).1 (by decide)
    ⟨fun p hp => (by cases hp; decide), fun p hp => (by cases hp; decide)⟩
  have hc : composeUrl "http".toStr (authText none none (ipv6ToStr [0xfe80, 0, 0, 0, 0, 0, 0, 1] ++ 37 :: "eth0".toStr)
      (some 8080)) "/p".toStr [] [] = "http://[fe80::1%eth0]:8080/p".toStr := by decide +kernel
  rw [hc] at h1 h2
  exact ⟨u, h1, h2⟩
/-
GAPS:
 1. PARTLY CLOSED by C03_hostFix_lower, C03_hostFix_trailing_dot, C03_hostFix_ipv6_zone (C03Netloc.lean) and
    Idn.hostFix_sane / C04_idn_identity_general / C04_idn_identity_network_path (C16Idn.lean, C04Idn.lean), see
    C04_headline_lower_case_host_families, C04_headline_canonical_authority_unchanged,
    C04_headline_idn_host_unchanged.  "lower-case … host" (`HostFix`) and hence the identity are now proved for
    EVERY non-empty lower-case host text without ':' (reg-names incl. those ending in a digit — "h1",
    "example.com1" —, IPv4), a trailing dot, compressed lower-case IPv6 without and WITH a zone id, and A-label
    hosts ("xn--…": any text with `IdnaAnswerSane`, no assumption about the `idna` package; that the library's own
    answer for a non-ASCII host is such a text is the ASSUMPTION `IdnaSaneAt`, C16Idn.lean, not proved —
    C04_headline_idn_fails_for_upper_case_answer shows what a hostile package would do).
    Bracketed non-IPv6 hosts (IPvFuture "[v1.a:b]", "[g::1]", "[a:b]", "[1.2.3.4%a:b]"; `HostFix.notV` excludes a
    host with ':' that starts with 'v') — CLOSED by C04_identity_generalB, C04_roundTrip_generalB,
    C04_bracket_every_canonical_string, C04_bracket_identity (C04Bracket.lean, which IMPORTS this file, so the headline
    theorems are in the companion file C04HeadlineMore.lean), see C04_headline_canon_netloc_bracketed_spec,
    C04_headline_canonical_string_unchanged_bracketed_host, C04_headline_every_canonical_string_bracketed_host,
    C04_headline_canonical_bracketed_authority_unchanged, C04_headline_bracketed_host_families.  Proved: with the
    authority clause extended to `[user[:password]@][t][:port]` around a lower-case bracketed non-IPv6 text `t`
    (`HostFixB`; `BracketText t` suffices), any `UserInfoOK` userinfo, any non-default port ≤ 65535 and any canonical
    path / query / fragment, str(URL(s)) == s and the parsed URL has exactly the five components.  Both clauses are
    needed: upper case is lowered (C04_headline_bracketed_fails_for_upper_case); a default port is dropped — and, as the
    module reports, WITHOUT a ':' in the host the BRACKETS go with it: "https://[v1.a]:443/" ↦ "https://v1.a/"
    (C04_headline_bracketed_fails_for_default_port; both strings are outside "already canonical", no finding for C04).
    Not covered in this family: a space inside the brackets (outside `BracketText`, C03Headline.lean GAPS 2).
    WAS: STILL no identity theorem for: the empty host with a port (":80"; `HostFix` asks a non-empty host).
    The EMPTY HOST — CLOSED by C04_identity_empty_host, C04_identity_empty_host_text, C04_empty_host_requires_host,
    C04_requires_host_iff_default_port, C04_empty_host_examples (C04DecideEmpty.lean), see
    C04_headline_empty_host_unchanged, C04_headline_empty_host_rejected_when_host_required,
    C04_headline_empty_host_instances (C04HeadlineMore4.lean).  Proved: for an authority `[user[:password]@][:port]`
    without a host (`authTextE`; ":80", "u@", "u:p@:80") that is not the empty text (hypothesis `hne`), `UserInfoOK`
    userinfo, a port ≤ 65535, canonical path / query / fragment (`CompOK`) and a scheme that is empty or lower-case
    scheme characters: if the scheme is NOT in `SCHEME_REQUIRES_HOST` (hypothesis `hreq`; such a scheme has no default
    port) then str(URL(s)) == s with exactly the five components, `raw_host == ""`; if it IS (http, https, ws, wss,
    ftp) then `URL(s)` raises ValueError, so the clause is vacuous.  NOT covered by a general theorem: the host-less
    authority that is a ':' alone, which VANISHES ("//:/" ↦ "/", "x://:/" ↦ "x:/": instances in
    C04_headline_empty_host_instances; compare "http://h:/", a ':' without port after a host, rejected by `canonicalB`
    and not treated by any theorem).  These host-less fixed points are REJECTED by the checker of GAPS 2
    (`canonicalB "x://:80/" = false`): the checker is sound, not complete, see GAPS 5 / 8.
 2. "For every string": C04_headline_every_canonical_string (new) is string-quantified but asks the caller for
    `splitUrl e.o s = .ok p` and `CanonString` of the PARSED parts; there is no decision procedure / sound Boolean
    checker for the whole of `CanonString` (C04_canonClauses covers the eight component clauses, not
    `CanonNetloc`), so instantiating it on a concrete string still needs a hand-made `authText` decomposition (for a
    bracketed non-IPv6 host: an `authTextB` decomposition and `CanonNetlocB`, C04HeadlineMore.lean — same remark).
    CLOSED by C04_canonicalB_spec, C04_canonicalB_sound, C04_canonicalB_sound_parts, C04_canonicalB_rejects_changed
    (C04Decide.lean, over netlocB_sound / hostKindB_sound / userInfoB_sound / portB_sound of Lemmas/CanonDecide.lean),
    see C04_headline_checked_string_unchanged, C04_headline_checker_meaning,
    C04_headline_checker_rejects_every_changed_string, C04_headline_checker_instances (C04HeadlineMore4.lean).
    Proved: `canonicalB : Str → Bool` is a computable function of the raw text; for EVERY text, both backends, every
    oracle assignment and with NO further hypothesis, `canonicalB s = true` implies that `URL(s)` succeeds,
    str(URL(s)) == s and the URL has the five Appendix B components of `s`; it covers `CanonNetlocB` (plain and
    bracketed non-IPv6 hosts), so no hand-made `authText` / `authTextB` decomposition is needed: a concrete string is
    handled by `decide +kernel` (seventeen accepted / rejected instances in the headline theorem, sixty `example`s in
    C04Decide.lean).  What "already canonical" MEANS is now the definition of `canonicalB`: see GAPS 7.
 3. Strings canonical in the words of the property but changed by str(URL(s)) — the property text has no exception
    for them.  ALL are now in KNOWN_FINDINGS.jsonl and each is a theorem here: empty path before '?'/'#' under an
    authority (F-C04-empty-path, C04_headline_fails_for_empty_path); authority-taking scheme without "//"
    (F-C04-single-slash, C04_headline_fails_for_single_slash; with a rootless path F-C03-rootless,
    C04_headline_fails_for_authority_scheme); empty '?' / '#' delimiters (F-C04-empty-delims,
    C04_headline_fails_for_empty_delims); the "//" of an empty authority for other schemes (F-C04-empty-authority,
    C04_headline_fails_for_empty_authority; both recorded witnesses "x:///p" and "x://").  They remain GUARDS of the
    identity theorems (`h_nonempty`, `h_authority_scheme`, `Recomposable`), i.e. the sentence "for every string that
    is already canonical" is proved only outside these five classes (with item 4).
    FURTHER (C04Decide.lean): the checker of GAPS 2 REJECTS a witness of each of the five classes
    (C04_headline_checker_instances) and necessarily every string that is changed
    (C04_headline_checker_rejects_every_changed_string); so the closure of GAPS 2 does not prove the sentence for these
    classes either: it makes the exclusion part of the definition of `canonicalB` (clauses `Recomposable`,
    `C04_canonClauses`, `userInfoB`).  A SIXTH class of the same kind is now a theorem: the empty userinfo "@host",
    GAPS 4 / 9.
 4. Userinfo: `UserInfoOK` requires REQUOTER-canonical text, i.e. no literal ':' in the password — "u:p:w@h" is
    legal RFC 3986 userinfo but is rewritten (C04_headline_fails_for_colon_in_password; now KNOWN FINDING
    F-C04-colon-password) — and a NON-EMPTY user when a user is present: ":pw@h" evaluates to a fixed point and "@h"
    to "h", but no theorem covers the empty user.
    The EMPTY USER — CLOSED by C04_identity_empty_user_password, C04_empty_user_dropped, C04_empty_user_examples
    (C04DecideEmpty.lean), see C04_headline_empty_user_with_password_unchanged, C04_headline_fails_for_empty_user,
    C04_headline_empty_user_instances (C04HeadlineMore4.lean).  Proved: ":password@host" (no user, a
    REQUOTER-canonical password, also the empty one ":@h") is an instance of `UserInfoOK none (some w)` and is
    unchanged, with `raw_user` None and `raw_password` the password (any `HostFix` host, `PortOK` port, `CompOK`
    path / query / fragment); "@host" (the '@' alone) is NEVER unchanged: for every such host, port and components the
    '@' is dropped and str(URL(s)) differs from s (a NEGATIVE result, see GAPS 9).  The first sentence of this item
    (':' in the password, F-C04-colon-password) is unchanged.
 5. "neither over-encodes nor over-decodes" is proved as table identities (C04_policy, C04_policy_protected) and
    as the identity on canonical text; there is no CONVERSE at URL level ("if str(URL(s)) == s then s is canonical"),
    and no policy statement for the host or the scheme.
    PARTLY CLOSED by C04_fixed_point_canonical, C04_canonicalB_complete, C04_canonicalB_iff,
    C04_not_canonical_changed, C04_component_unchanged_canonical, C04_authority_unchanged_checked
    (C04DecideConverse.lean, over Lemmas/CanonComplete.lean and Lemmas/CanonConverse.lean) and C04_domainB_sound,
    C04_canonicalB_iff_of_domainB, C04_not_canonical_changed_of_domainB (C04DecideDomain.lean), see
    C04_headline_fixed_point_is_canonical, C04_headline_canonical_iff_unchanged_in_domain,
    C04_headline_canonical_iff_unchanged_decidable, C04_headline_domain_instances,
    C04_headline_unchanged_component_is_canonical, C04_headline_unchanged_authority_is_canonical
    (C04HeadlineMore4.lean).  Proved: UNDER THE HYPOTHESIS `C04_Domain e.o s p` (GAPS 8: `s` a Python string,
    `split_url(s) = p`, authority empty or of a supported host kind in any spelling, host not an IPv4 literal with a
    zone id) `canonicalB s = true` IFF str(URL(s)) == s, both backends, every oracle assignment — so inside the domain
    every string that is not canonical (upper-case scheme or host, default port, dot segment under an authority,
    superfluous or lower-case escape, …) IS changed or rejected, which is the missing policy statement for host and
    scheme; at Prop level, under `PyStr s`, `split_url(s) = p` and `AuthInputB` only, a fixed point has `CanonStringB`
    parts.  Per component WITHOUT any hypothesis on the authority: a path / query / fragment that `URL(s)` stores as
    read is canonical for its requoter (and the path has no dot segment and is empty or rooted under an authority).
    STILL OPEN / FALSE: outside the domain the converse is FALSE — C04_headline_converse_fails_outside_domain (cites
    C04_converse_fails_for_ipv4_zone, …_for_empty_host, …_for_space_in_host): "http://1.2.3.4%ETH0/" and
    "http://[1.2.3.4%A:b]/" are unchanged although the host is not lower-case (`_encode_host` copies the zone id of an
    IPv4 literal verbatim), "x://:80/" and "//u@:80/p" (empty host, GAPS 1) and "http://a b/" (a space in the host,
    C03Headline.lean GAPS 2) are unchanged and rejected by the checker.  Non-ASCII hosts (IDN) are outside `AuthInputB`, and every
    non-ASCII authority (every input that reaches the NFKC screen) is outside `C04_domainB`: no converse for them;
    the forward direction for A-label hosts stays C04_headline_idn_host_unchanged (GAPS 1).
 6. Only the auto-encoding constructor is covered (that is what C04 is about); `encoded=True` is trivially verbatim
    (C07_preencoded_verbatim) but `str` of such a URL may still drop a default port.
    CLOSED for canonical text (outside C04's wording, which is about the auto-encoding mode) by
    C03_encoded_true_on_canonical, C03_same_parts_not_canonical (C03Encoded.lean), see
    C03_headline_encoded_true_on_canonical_text, C03_headline_same_parts_fails_to_give_canonical (C03HeadlineMore5.lean):
    for every `s` with `canonicalB s = true`, `str(URL(s, encoded=True)) == s` as well (it stores the same five parts as
    `URL(s)` and every accessor agrees); the remark about the default port is now a theorem on a witness:
    `URL('http://h:80/', encoded=True)` stores ":80", prints 'http://h/' (F-C07-default-port) and 'http://h:80/' is not
    canonical.
 7. NEW (trusted definition introduced by the closure of GAPS 2).  `canonicalB` (C04Decide.lean) with `netlocB`,
    `hostKindB`, `v6B`, `userInfoB`, `portB` (Lemmas/CanonDecide.lean), `bracketTextB` (Lemmas/BrHost.lean family),
    `C04_canonClauses`, `isCanon` and `Recomposable` (earlier files) is a hand-written READING of the property's phrase
    "already canonical"; the soundness theorem says that what it accepts is unchanged, not that it accepts what the
    property means.  It is deliberately NARROWER than the words of the property: it rejects the five KNOWN FINDING
    classes (GAPS 3) and "@host" (GAPS 9); it rejects every non-ASCII host and every host-less authority; it asks for
    a port written without leading zeros.  In one corner it is narrower than the library needs: fixed points it
    rejects are listed in GAPS 5 (so it is NOT complete outside `C04_Domain`).  That it is not vacuous is shown by
    instances only (C04_headline_checker_instances and the examples of C04Decide.lean); there is no theorem "every
    string with property X is accepted" other than the completeness half of GAPS 5 (accepted iff unchanged, inside the
    domain) — and, ADDED with C03Encoded.lean, a SECOND characterisation of the same kind that does not go through the
    auto-encoding `str`: inside `C04_Domain`, `canonicalB s = true` IFF `URL(s, encoded=True)` and `URL(s)` store the same
    five parts AND the `encoded=True` object prints `s` (C03_encoded_true_canonical_iff, see
    C03_headline_encoded_true_canonical_iff, C03HeadlineMore5.lean; neither conjunct suffices alone).  Also ADDED: what
    `canonicalB` implies for the STRING FORM (ASCII, components well escaped: C03_headline_canonical_text_ascii).  The
    split it uses is `Rfc.appendixB Gen.schemeChars` (C07Headline.lean GAPS 6: now the RFC's regular
    expression up to the scheme test) and the C-backend tables (equal to the Python ones by `gen_tab_backend_eq`).
 8. NEW (hypothesis of the converse, GAPS 5).  `C04_Domain o s p` (C04DecideConverse.lean) =
    `PyStr s` ∧ `splitUrl o s = .ok p` ∧ `AuthInputB o p.netloc` (C03Bracket.lean) ∧ `C04_NoIPv4Zone p.netloc`; its
    Boolean form `C04_domainB s` (C04DecideDomain.lean) additionally asks for an ASCII authority that passes
    `checkBrackets` and is only SOUND for `C04_Domain` (C04_domainB_sound), not equivalent to it.  Both are definitions
    to be read; `AuthInputB` is the input-side host family of C03Bracket.lean (ASCII reg-name / IPv4 text in any letter
    case, IPv6 literal in any spelling `ipaddress` accepts + zone, bracketed non-IPv6 text).  The corner
    `C04_NoIPv4Zone` is needed only by the Boolean checker (it asks for a lower-case zone), not by the Prop-level
    converse C04_headline_fixed_point_is_canonical.
    ADDED: `C04_Domain` / `C04_domainB` are now also the hypothesis of the converse half of C03Headline.lean GAPS 6
    (C03_headline_encoded_true_same_parts, C03_headline_encoded_true_canonical_iff, C03HeadlineMore5.lean); the same
    remarks apply there.
 9. NEW (negative result, candidate finding).  "@host": a userinfo consisting of the '@' alone is legal RFC 3986
    (`userinfo = *( unreserved / pct-encoded / sub-delims / ":" )`), the string "http://@h/" satisfies every condition
    the property lists, and str(URL("http://@h/")) == "http://h/" — for EVERY host, port, path, query and fragment of
    the canonical families (C04_headline_fails_for_empty_user, cites C04_empty_user_dropped, C04DecideEmpty.lean).
    This is a sixth class of strings canonical by the letter that ARE changed, of the same kind as those of GAPS 3
    (the URL value is the same, `raw_user` is None either way).  It is NOT in KNOWN_FINDINGS.jsonl at the time of this
    refresh (the five C04 entries there are F-C04-empty-path, -single-slash, -empty-delims, -empty-authority,
    -colon-password); the identity theorems exclude it through `UserInfoOK` (a user, if present, is non-empty) and the
    checker through `userInfoB` / the literal comparison with `authText`.  The same remark applies to the host-less
    authority ":" ("//:/" ↦ "/", GAPS 1), for which there are instances only.
-/

end Yarl
