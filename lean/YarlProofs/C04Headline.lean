import YarlProofs.C04
import YarlProofs.C04General
import YarlProofs.C07Recompose
/-!
  C04Headline.lean — AUDIT LAYER for property C04.

  C04 | Already-canonical URLs are left untouched |
  "For every string that is already canonical - lower-case scheme and host, no default port, no dot segments
  under an authority, only characters that are legal literally in each component, and upper-case escapes only
  for characters that must be escaped there (or, for that component's reserved delimiters, may be) -
  str(URL(s)) == s. The library neither over-encodes nor over-decodes, as documented ('Already encoded URL is
  not changed')."

  Vocabulary.  `C04_roundTrip e s` = `encodeUrl e s >>= str e` = str(URL(s)).
  `canonText sc nl p q f` = `unsplitResult sc nl p q f`, the string with these five components.
  `Canon t x` (Lemmas/Canon.lean): `x` consists of literals `c` with `t.safe c` (not '%', not ' ' in a form table)
  and escapes `%XY` (upper-case hex) of bytes that are ≥ 128, or not safe, or protected (`t.prot`).
  `CanonNetloc e sc nl`: `nl = []`, or `nl = authText user pw host port` = `[user[:password]@]host[:port]` with
  `UserInfoOK` (user non-empty, user/password `Canon` for REQUOTER), `HostFix` (a host `_encode_host` maps to
  itself: hostFix_basic / hostFix_ipv4 / hostFix_ipv6) and `PortOK` (≤ 65535, not the scheme default).
-/
set_option linter.unusedVariables false
namespace Yarl

/-! ## Sentence 1 — "For every string that is already canonical - … - str(URL(s)) == s." -/

/-- The sentence, for the string written from five components; every hypothesis is one phrase of the property text
    or a recorded exclusion.  (This is `C04_identity_general` / `C04_roundTrip_general` with `CanonString`
    unfolded field by field.) -/
theorem C04_headline_canonical_string_unchanged (e : Env) (scheme netloc path query fragment : Str)
    -- "lower-case scheme": empty, or non-empty lower-case scheme characters      (needed: C04_general_scheme_needed)
    (h_scheme : SchemeOK' scheme)
    -- "lower-case … host", "no default port" (+ canonical userinfo)   (C04_general_host_needed, C04_general_default_port_needed)
    (h_netloc : CanonNetloc e scheme netloc)
    -- "only characters that are legal literally in each component, and upper-case escapes only for characters that
    -- must be escaped there (or, for … reserved delimiters, may be)"                   (C04_general_escape_needed)
    (h_path : Canon (Gen.PATH_REQUOTER.tab e.b) path)
    (h_query : Canon (Gen.QUERY_REQUOTER.tab e.b) query)
    (h_fragment : Canon (Gen.FRAGMENT_REQUOTER.tab e.b) fragment)
    -- "no dot segments under an authority"                                         (C04_general_dot_segment_needed)
    (h_nodots : netloc ≠ [] → NoDotSegments path)
    -- well-formedness of the 5-tuple: under an authority the path is empty or rooted  (C04_general_rooted_needed)
    (h_rooted : netloc ≠ [] → (path = [] ∨ path.head? = some 47))
    -- NOT in the property text: an empty path before '?'/'#' under an authority is written "/"
    -- (C04_general_empty_path_needed; `C04_headline_fails_for_empty_path` below)
    (h_nonempty : netloc ≠ [] → path = [] → query = [] ∧ fragment = [])
    -- well-formedness of the 5-tuple: a scheme-less, authority-less path whose text before ':' reads as a scheme IS
    -- a scheme (C04_general_first_segment_needed; the STRING "a:b" is still a fixed point, as scheme "a" + path "b")
    (h_first_segment : scheme = [] → netloc = [] → 58 ∈ path →
      (path.takeWhile (· ≠ 58) = [] ∨ (path.takeWhile (· ≠ 58)).all (fun c => mem c Gen.schemeChars) = false))
    -- NOT in the property text — KNOWN FINDING F-C03-rootless: for a scheme in `uses_authority` without authority
    -- the path must be empty or rooted (C04_general_authority_scheme_needed; `…_fails_for_authority_scheme` below)
    (h_authority_scheme : scheme ≠ [] → Gen.usesAuthority.contains scheme = true → netloc = [] →
      (path = [] ∨ path.head? = some 47)) :
    C04_roundTrip e (canonText scheme netloc path query fragment) = .ok (canonText scheme netloc path query fragment) ∧
    ∃ u, encodeUrl e (canonText scheme netloc path query fragment) = .ok u ∧
      u.scheme = scheme ∧ u.netloc = netloc ∧ u.path = path ∧ u.query = query ∧ u.fragment = fragment := by
  have h : CanonString e scheme netloc path query fragment :=
    ⟨h_scheme, h_netloc, h_path, h_query, h_fragment, h_rooted, h_nodots, h_nonempty, h_first_segment,
      h_authority_scheme⟩
  obtain ⟨u, h1, _, h3⟩ := C04_identity_general e scheme netloc path query fragment h
  exact ⟨C04_roundTrip_general e scheme netloc path query fragment h, u, h1, h3⟩
-- Appendix E: C04_identity ↦ C04_identity_general (C04General.lean).  `CanonUrl s` (a predicate on the string)
--   became `CanonString e scheme netloc path query fragment` on components + `canonText`; the string-quantified
--   form is the next theorem (NEW).  `(encodeUrl s).map str = .ok s` became `C04_roundTrip e s = .ok s`
--   (`str` is itself fallible in the model).

/-- NEW (closes the gap between "for every 5-tuple" and "For every string"): for EVERY string `s` that parses, whose
    parsed components are canonical in the sense above, and that loses nothing in parsing, str(URL(s)) == s.
    Composition of C07_unsplit_split_id with C04_roundTrip_general. -/
theorem C04_headline_every_canonical_string (e : Env) (s : Str) (p : Parts)
    (h_parse : splitUrl e.o s = .ok p)
    (h_canon : CanonString e p.scheme p.netloc p.path p.query p.fragment)
    -- no leading C0/space, no TAB/CR/LF (they are stripped: C07_clean_spec)
    (h_clean : cleanUrl s = s)
    -- the scheme is WRITTEN lower-case in `s` (the parsed scheme is lowered already)
    (h_lower : (splitScheme s).1 = [] ∨ lower (s.takeWhile (· ≠ 58)) = s.takeWhile (· ≠ 58))
    -- no empty '?'/'#' delimiter, no "//" of an empty authority that unsplit would not write, "//" after a
    -- `uses_authority` scheme (C07_recomposable_*_counterexample; `C04_headline_fails_for_dropped_delimiters` below)
    (h_recomp : Recomposable s) :
    C04_roundTrip e s = .ok s := by
  have hs := C07_unsplit_split_id e.o s p h_parse h_recomp h_clean h_lower
  have := C04_roundTrip_general e p.scheme p.netloc p.path p.query p.fragment h_canon
  rwa [canonText, hs] at this

/-! ### strings that look canonical in the words of the property but are changed -/

/-- "http://h?q" ↦ "http://h/?q", "//h?q" ↦ "//h/?q", "//h#f" ↦ "//h/#f" (guard `h_nonempty`) -/
theorem C04_headline_fails_for_empty_path (b : Backend) :
    C04_roundTrip ⟨b, Oracles.empty⟩ "http://h?q".toStr = .ok "http://h/?q".toStr ∧
    C04_roundTrip ⟨b, Oracles.empty⟩ "//h?q".toStr = .ok "//h/?q".toStr ∧
    C04_roundTrip ⟨b, Oracles.empty⟩ "//h#f".toStr = .ok "//h/#f".toStr :=
  ⟨(C04_general_empty_path_needed b).2.2.2.2.1, (C04_general_empty_path_needed b).2.2.2.2.2.1,
    (C04_general_empty_path_needed b).2.2.2.2.2.2⟩

/-- F-C03-rootless seen from C04: "file:a/b" ↦ "file:///a/b", "file:/p" ↦ "file:///p", "http:/p" ↦ "http:///p"
    (guard `h_authority_scheme` / `Recomposable.authority_scheme`) -/
theorem C04_headline_fails_for_authority_scheme (b : Backend) :
    C04_roundTrip ⟨b, Oracles.empty⟩ "file:a/b".toStr = .ok "file:///a/b".toStr ∧
    C04_roundTrip ⟨b, Oracles.empty⟩ "file:/p".toStr = .ok "file:///p".toStr ∧
    C04_roundTrip ⟨b, Oracles.empty⟩ "http:/p".toStr = .ok "http:///p".toStr :=
  ⟨(C04_general_authority_scheme_needed b).2.2.2.2, (C04_authority_scheme_single_slash_not_fixed b).1,
    (C04_authority_scheme_single_slash_not_fixed b).2.1⟩

/-- NEW at URL level (guard `Recomposable`): an empty query / fragment delimiter and the "//" of an empty authority
    are dropped: "http://h/a?" ↦ "http://h/a", "http://h/a#" ↦ "http://h/a", "x:///p" ↦ "x:/p" -/
theorem C04_headline_fails_for_dropped_delimiters (b : Backend) :
    C04_roundTrip ⟨b, Oracles.empty⟩ "http://h/a?".toStr = .ok "http://h/a".toStr ∧
    C04_roundTrip ⟨b, Oracles.empty⟩ "http://h/a#".toStr = .ok "http://h/a".toStr ∧
    C04_roundTrip ⟨b, Oracles.empty⟩ "x:///p".toStr = .ok "x:/p".toStr := by
  cases b <;> decide +kernel

/-- NEW: a literal ':' inside the password is legal RFC 3986 userinfo but is escaped (REQUOTER keeps no ':' literal,
    see `C04_headline_no_over_encoding`): "http://u:p:w@h/" ↦ "http://u:p%3Aw@h/" (guard `UserInfoOK` in `h_netloc`) -/
theorem C04_headline_fails_for_colon_in_password (b : Backend) :
    C04_roundTrip ⟨b, Oracles.empty⟩ "http://u:p:w@h/".toStr = .ok "http://u:p%3Aw@h/".toStr := by
  cases b <;> decide +kernel

/-! ## Sentence 2 — "The library neither over-encodes nor over-decodes, as documented ('Already encoded URL is not
    changed')." -/

/-- "neither over-encodes …": the characters a requoter keeps literal are EXACTLY the RFC 3986 literals of its
    component (userinfo: without ':'), nothing ≥ 128 is literal — so nothing that may stand literally is escaped and
    nothing else is left raw. -/
theorem C04_headline_no_over_encoding (b : Backend) (c : Nat) :
    (c < 128 →
      (Gen.PATH_REQUOTER.tab b).safe c = Rfc.pathLit c ∧ (Gen.QUERY_REQUOTER.tab b).safe c = Rfc.queryLit c ∧
      (Gen.FRAGMENT_REQUOTER.tab b).safe c = Rfc.queryLit c ∧
      (Gen.REQUOTER.tab b).safe c = (Rfc.userinfoLit c && c != 58)) ∧
    (128 ≤ c → ∀ a ∈ Gen.allQuoters, (a.tab b).safe c = false) :=
  ⟨C04_policy b c, fun hc a ha => C04_policy_high b a ha c hc⟩
-- Appendix E: C04_policy ↦ C04_policy (same name; `Gen.requoterOf comp` became the four explicit tables, the
--   userinfo ':' exception is in the statement).

/-- "… nor over-decodes": the escapes a requoter KEEPS although the byte could be literal are exactly those of its
    reserved delimiters ('/' '+' in paths; '=' '+' '&' ';' in queries; none in fragment and userinfo) -/
theorem C04_headline_no_over_decoding (b : Backend) (c : Nat) (hc : c < 128) :
    (Gen.PATH_REQUOTER.tab b).prot c = (c == 47 || c == 43) ∧
    (Gen.QUERY_REQUOTER.tab b).prot c = (c == 61 || c == 43 || c == 38 || c == 59) ∧
    (Gen.FRAGMENT_REQUOTER.tab b).prot c = false ∧ (Gen.REQUOTER.tab b).prot c = false :=
  C04_policy_protected b c hc

/-- "'Already encoded URL is not changed'", component level: every generated requoter returns canonical text
    unchanged, what it writes is canonical, and it is idempotent; what the non-requoting partner (used by build /
    modifiers) writes is unchanged by the requoter. -/
theorem C04_headline_already_encoded_component (b : Backend) (a : QArgs) (ha : a ∈ Gen.allQuoters)
    (hreq : a.requote = true) (s : Str) (hs : PyStr s) :
    (Canon (a.tab b) s → a.run b s = s) ∧ Canon (a.tab b) (a.run b s) ∧ a.run b (a.run b s) = a.run b s ∧
    (Gen.REQUOTER.run b (Gen.QUOTER.run b s) = Gen.QUOTER.run b s ∧
     Gen.PATH_REQUOTER.run b (Gen.PATH_QUOTER.run b s) = Gen.PATH_QUOTER.run b s ∧
     Gen.QUERY_REQUOTER.run b (Gen.QUERY_QUOTER.run b s) = Gen.QUERY_QUOTER.run b s ∧
     Gen.QUERY_REQUOTER.run b (Gen.QUERY_PART_QUOTER.run b s) = Gen.QUERY_PART_QUOTER.run b s ∧
     Gen.FRAGMENT_REQUOTER.run b (Gen.FRAGMENT_QUOTER.run b s) = Gen.FRAGMENT_QUOTER.run b s) :=
  ⟨C04_component_identity b a ha hreq s hs, C04_requote_canon b a ha hreq s hs, C04_requote_idem b a ha hreq s hs,
    C04_partner_fixed b s hs⟩

/-! ## non-vacuity -/

example (b : Backend) : C04_roundTrip ⟨b, Oracles.empty⟩ "http://u:p%40w@[2001:db8::1]:8080/a/b?q#f".toStr =
    .ok "http://u:p%40w@[2001:db8::1]:8080/a/b?q#f".toStr := by
  obtain ⟨_, _, _, ⟨u, h1, h2, _⟩, _⟩ := C04_general_examples b
  unfold C04_roundTrip; rw [h1]; exact h2

/-
GAPS:
 1. HOSTS.  "lower-case … host" is `HostFix`, proved for: lower-case reg-names NOT ending in a digit
    (hostFix_basic), IPv4 literals (hostFix_ipv4), compressed lower-case IPv6 literals without zone
    (hostFix_ipv6).  No identity theorem for: A-label / IDN hosts ("xn--…", needs IDNA oracle facts), reg-names
    ending in a digit ("h1", "example.com1"), IPv6 with a zone id, bracketed non-IPv6 hosts (IPvFuture), a host
    with a trailing dot, the empty host with a port (":80").
 2. "For every string": C04_headline_every_canonical_string (new) is string-quantified but asks the caller for
    `splitUrl e.o s = .ok p` and `CanonString` of the PARSED parts; there is no decision procedure / sound Boolean
    checker for the whole of `CanonString` (C04_canonClauses covers the eight component clauses, not
    `CanonNetloc`), so instantiating it on a concrete string still needs a hand-made `authText` decomposition.
 3. Strings canonical in the words of the property but changed by str(URL(s)) — the property text has no exception
    for them: empty path before '?'/'#' under an authority (C04_headline_fails_for_empty_path); authority-taking
    scheme without "//" (C04_headline_fails_for_authority_scheme, F-C03-rootless); empty '?' / '#' delimiters and
    the "//" of an empty authority for other schemes (C04_headline_fails_for_dropped_delimiters).  Only the second
    is in KNOWN_FINDINGS (under C03).
 4. Userinfo: `UserInfoOK` requires REQUOTER-canonical text, i.e. no literal ':' in the password — "u:p:w@h" is
    legal RFC 3986 userinfo but is rewritten (C04_headline_fails_for_colon_in_password, new; not in
    KNOWN_FINDINGS) — and a NON-EMPTY user when a user is present: ":pw@h" evaluates to a fixed point and "@h"
    to "h", but no theorem covers the empty user.
 5. "neither over-encodes nor over-decodes" is proved as table identities (C04_policy, C04_policy_protected) and
    as the identity on canonical text; there is no CONVERSE at URL level ("if str(URL(s)) == s then s is canonical"),
    and no policy statement for the host or the scheme.
 6. Only the auto-encoding constructor is covered (that is what C04 is about); `encoded=True` is trivially verbatim
    (C07_preencoded_verbatim) but `str` of such a URL may still drop a default port.
-/

end Yarl
