import YarlProofs.C19Headline
import YarlProofs.C19HeadlineMore3
import YarlProofs.C19DynBuild
/-!
  C19HeadlineMore4.lean — AUDIT LAYER for property C19, third file (after C19Headline.lean and C19HeadlineMore3.lean):
  headline theorems for the proof module added after the last refresh, C19DynBuild.lean, over the new MODEL file
  YarlModel/DynBuild.lean.  This file is a leaf, nobody imports it.  The GAPS block of C19Headline.lean cites the
  theorems of this file.

  C19 | Failures are reported only as ValueError/TypeError; nothing crashes |
  "Given arguments of the documented types, every public entry point either returns or raises ValueError
  (malformed value, including IDNA errors) or TypeError (wrong type); it never leaks IndexError, KeyError,
  AttributeError, RecursionError, AssertionError or any other exception type, and an object that build() or
  a modifier returned can always be turned into a string. If memory allocation fails inside the compiled
  quoter the call raises MemoryError, nothing is corrupted and later calls return correct results."

  What is here (all MODEL-LEVEL, as PART A of C19HeadlineMore3.lean: statements about the hand transcription
  YarlModel/DynBuild.lean of `URL.build`'s body over the universe `PyObj`; tied to CPython only by the probe table).
  GAPS 1 of C19Headline.lean listed as STILL OPEN: wrong-typed keyword arguments of `URL.build(…)`, the `names` of
  `without_query_params`, the `encoded` / `keep_query` / `keep_fragment` flags.  C19DynBuild.lean treats all three:
   * with keyword objects OF THE DOCUMENTED TYPES `URL.build` IS the typed `build` (the property's own premise), so the
     typed theorems transfer: only ValueError / TypeError (or an oracle request), never a non-URL object;
   * with ARBITRARY keyword objects "returns a URL or raises ValueError / TypeError" is FALSE — the NEGATIVE result
     C19_headline_dyn_build_kinds_FAILS: AttributeError leaks (scheme / authority / host objects without `.lower` /
     `.isascii` / `.isdigit`) and objects with non-str parts are RETURNED (bytes scheme, falsy non-str path /
     query_string / fragment, anything hashable with `encoded=True`); not a violation of C19, whose text starts "Given
     arguments of the documented types".  The strongest true statements are given instead: the kind bound, the exact
     condition for AttributeError, the leaking calls for every environment;
   * the argument checks of `build` and their order (which check stops the call, as iffs), the conflict checks as one
     iff, the sources of every ValueError;
   * `without_query_params(*names)`: the only failure is the TypeError of an unhashable name;
   * the flags act through `bool(o)` and cannot raise.

  Vocabulary added by YarlModel/DynBuild.lean and C19DynBuild.lean (`PyObj`, `Dyn.truthy`, `Dyn.hashable`,
  `Dyn.strLike`, `PathOut` with `.ok` / `.error` / `.garbage k`, `dynWithPath` …: see C19HeadlineMore3.lean).
  `DynB.BuildKw`       — the keyword arguments of one call `URL.build(**kw)`: every field an `Option PyObj`, `none` =
                         keyword not passed.  `BuildKw.resolve` fills in the defaults of the signature and gives
  `DynB.BuildObjs`     — the eleven argument OBJECTS scheme, authority, user, password, host, port, path, query,
                         query_string, fragment, encoded.
  `DynB.dynBuildObjs e o`, `DynB.dynBuild e kw` — `URL.build(…)` on these objects; outcome `PathOut`:
                         `.ok url`, `.error err`, `.garbage 0` (a URL object is RETURNED one of whose five stored parts
                         is not a `str`), `.garbage 1` (five `str` parts, but the netloc embeds `format(obj)` of a
                         non-str user / password / host).
  `DynB.isStr o` (`isinstance(o, str)`), `DynB.isNoneObj o`, `DynB.isBytes o`, `DynB.portInt o` (`type(o) is int`,
                         its value), `DynB.strOr o` (the text of a str, else "").
  `BuildObjs.Typed o`  — every keyword holds an object of its documented type: str for scheme / authority / host / path /
                         query_string / fragment, str or None for user / password, int (not bool) or None for port;
                         `query` and `encoded` unconstrained.  `DynB.args o` — the typed `BuildArgs` these coerce to.
  `DynB.preStop o`     — the first of the argument checks (statements 1–5 of `build`) that fires, as a `Stop`:
                         mixAuthority, portType, portRange, portNoHost, twoQueries, noneArg; `Stop.err` its exception.
  `DynB.queryStage e o` — statement 6, `get_str_query(query)` for a truthy `query`.
  `DynB.authorityObjErr o` / `DynB.hostObjErr o` — what a non-str truthy `authority` / `host` object raises.
  `BuildObjs.conflict o` — the call is stopped by one of the three CONFLICT checks (mixAuthority, portNoHost, twoQueries).
  `DynB.dynWithoutQueryParams e u names`, `DynB.dynWithPathFlags` / `dynWithNameFlags` / `dynWithSuffixFlags` /
  `dynJoinpathFlag` — the entry points with `names` / the flags as arbitrary objects.
-/
set_option linter.unusedVariables false
namespace Yarl
open Yarl.Dyn Yarl.DynB Yarl.ErrLemmas

/-! ## Sentence 1 — "Given arguments of the documented types, every public entry point either returns or raises
    ValueError … or TypeError" — `URL.build(**kwargs)` at the level of Python objects -/

/-- MODEL-LEVEL.  "Given arguments of the documented types": when every keyword object has its documented type,
    `URL.build` on the objects IS the typed `build` on the coerced arguments; hence a failure is a ValueError, a
    TypeError or an oracle request — never another exception — and no non-URL object is returned.  This is the bridge
    that carries every typed C19 theorem about `build` (C19_headline_kinds_constructors, C19_headline_str_total_build …)
    to the Python-level call.  Cites C19_dynBuild_typed, C19_dynBuild_typed_errors (C19DynBuild.lean). -/
theorem C19_headline_dyn_build_documented_types (e : Env) (o : BuildObjs)
    (h : o.Typed) :                                       -- "arguments of the documented types"
    dynBuildObjs e o = ofR (build e (args o)) ∧
    (∀ err, dynBuildObjs e o = .error err → Allowed err) ∧
    (∀ k, dynBuildObjs e o ≠ .garbage k) :=
  ⟨C19_dynBuild_typed e o h, C19_dynBuild_typed_errors e o h⟩

/-- MODEL-LEVEL.  The same in keyword form: a typed argument record passed keyword by keyword, with ANY object as
    `query=` (the typed `QArg` it dispatches to is `dynQuery query`).  Hypothesis: the typed record's port is a plain
    int (`portKind = 0`; the tags for a bool / non-int port exist only in the typed model).
    Cites C19_dynBuild_ofArgs (C19DynBuild.lean). -/
theorem C19_headline_dyn_build_keyword_form (e : Env) (a : BuildArgs) (query : PyObj)
    (h0 : a.portKind = 0) :                               -- the port, if given, is an `int`
    dynBuild e (BuildKw.ofArgs a query) = ofR (build e { a with query := dynQuery query }) :=
  C19_dynBuild_ofArgs e a h0 query

/-- NEGATIVE RESULT, MODEL-LEVEL (each witness is also a row of the probe table: the real library, both quoter
    backends).  "For ALL keyword objects the outcome of `URL.build` is a URL, ValueError or TypeError" is FALSE.
    Not a violation of C19 ("Given arguments of the documented types"), but the sentence "it never leaks …
    AttributeError" does not extend to wrong-typed `build` arguments.  Cites C19_dynBuild_errors_FAILS. -/
theorem C19_headline_dyn_build_kinds_FAILS :
    ¬ ∀ (e : Env) (k : BuildKw), (∃ u, dynBuild e k = .ok u) ∨ dynBuild e k = .error .valueError ∨
        dynBuild e k = .error .typeError :=
  C19_dynBuild_errors_FAILS

/-- MODEL-LEVEL.  The kind bound that IS true for ARBITRARY keyword objects: a failure is a ValueError, a TypeError,
    an oracle request of the typed `build` — or an AttributeError; a returned non-model object is garbage 0 / 1.
    (No IndexError, KeyError, … in the model of `build`.)  Cites C19_dynBuild_error_kinds (C19DynBuild.lean). -/
theorem C19_headline_dyn_build_kinds (e : Env) (o : BuildObjs) :
    (∀ err, dynBuildObjs e o = .error err → Allowed err ∨ err = .attributeError) ∧
    (∀ k, dynBuildObjs e o = .garbage k → k = 0 ∨ k = 1) :=
  C19_dynBuild_error_kinds e o

/-- MODEL-LEVEL.  EXACTLY when `URL.build` raises AttributeError: no argument check fires, `get_str_query` succeeds,
    `encoded` is falsy, and either `scheme` is neither str nor bytes (no `.lower`), or — `scheme.lower()` having
    succeeded — a truthy `authority` is neither str nor bytes (no `.isascii`), or (authority falsy) a truthy hashable
    `host` is a bytes / tuple / SplitResult; with the two object-level tables this refers to.
    Cites C19_dynBuild_attributeError_iff, C19_dynBuild_objErr_table (C19DynBuild.lean). -/
theorem C19_headline_dyn_build_attribute_error_iff (e : Env) (o : BuildObjs) :
    (dynBuildObjs e o = .error .attributeError ↔
      preStop o = none ∧ (∃ qs, queryStage e o = .ok qs) ∧ truthy o.encoded = false ∧
      ((isStr o.scheme = false ∧ isBytes o.scheme = false) ∨
       ((∃ l, lowerAny e (strOr o.scheme) = .ok l) ∧
        ((truthy o.authority = true ∧ isStr o.authority = false ∧ authorityObjErr o.authority = .attributeError) ∨
         (truthy o.authority = false ∧ truthy o.host = true ∧ isStr o.host = false ∧
            hostObjErr o.host = .attributeError))))) ∧
    (∀ x, authorityObjErr x = .attributeError ↔ isBytes x = false) ∧
    (∀ x, hostObjErr x = .attributeError ↔
      hashable x = true ∧ (isBytes x = true ∨ (∃ xs, x = .tuple xs) ∨ (∃ ps, x = .splitResult ps))) :=
  ⟨C19_dynBuild_attributeError_iff e o, C19_dynBuild_objErr_table.1, C19_dynBuild_objErr_table.2.2⟩

/-- MODEL-LEVEL, for EVERY environment.  The leaking calls with ONE wrong-typed keyword:
    `URL.build(scheme=x)`, x not a str / bytes / None (e.g. 1) → AttributeError;
    `URL.build(authority=x)`, x truthy, not a str / bytes (e.g. 1) → AttributeError;
    `URL.build(host=x)`, x a truthy hashable bytes / tuple / SplitResult (e.g. b"x", ("a",)) → AttributeError;
    `URL.build(scheme=b"x")` RETURNS a URL whose `_scheme` is bytes;
    `URL.build(path=x)` / `(query_string=x)` / `(fragment=x)`, x falsy and not a str / None (0, False, b"", (), [], {})
    RETURNS a URL whose `_path` / `_query` / `_fragment` is `x`;
    with `encoded=True`: EVERY hashable non-str non-None scheme / path / query_string / fragment is stored as it is
    (an unhashable one is the `lru_cache`'s TypeError).
    Cites C19_dynBuild_attributeError_leaks, C19_dynBuild_garbage_leaks, C19_dynBuild_encoded_leaks. -/
theorem C19_headline_dyn_build_fails_for_wrong_typed_keyword (e : Env) (x : PyObj) :
    (isStr x = false → isBytes x = false → isNoneObj x = false →
      dynBuild e { scheme := some x } = .error .attributeError) ∧
    (truthy x = true → isStr x = false → isBytes x = false →
      dynBuild e { authority := some x } = .error .attributeError) ∧
    (truthy x = true → isStr x = false → hostObjErr x = .attributeError →
      dynBuild e { host := some x } = .error .attributeError) ∧
    (∀ b, dynBuild e { scheme := some (.bytes b) } = .garbage 0) ∧
    (truthy x = false → isStr x = false → isNoneObj x = false →
      dynBuild e { path := some x } = .garbage 0 ∧ dynBuild e { queryString := some x } = .garbage 0 ∧
      dynBuild e { fragment := some x } = .garbage 0) ∧
    (isStr x = false → isNoneObj x = false →
      let out : PathOut := if hashable x then .garbage 0 else .error .typeError
      dynBuild e { scheme := some x, encoded := some (.bool true) } = out ∧
      dynBuild e { path := some x, encoded := some (.bool true) } = out ∧
      dynBuild e { queryString := some x, encoded := some (.bool true) } = out ∧
      dynBuild e { fragment := some x, encoded := some (.bool true) } = out) :=
  ⟨(C19_dynBuild_attributeError_leaks e x).1, (C19_dynBuild_attributeError_leaks e x).2.1,
   (C19_dynBuild_attributeError_leaks e x).2.2, (C19_dynBuild_garbage_leaks e x).1, (C19_dynBuild_garbage_leaks e x).2,
   fun h1 h3 => C19_dynBuild_encoded_leaks e x h1 h3⟩

/-- MODEL-LEVEL, concrete calls (all in the probe table), for every environment: AttributeError for
    `URL.build(scheme=1)`, `(authority=1)`, `(host=b"x")`, `(host=("a",))`; a URL with a non-str part for
    `(scheme=b"x")`, `(path=0)`, `(query_string=[])`, `(fragment=())` and, with `encoded=True`, for `(scheme=1)`,
    `(authority=1)`, `(host=1)`, `(path=object())`; a netloc with `format(obj)` inside for `(host="h", user=1,
    encoded=True)` (= URL("//1@h")), `(host="h", password=0, encoded=True)`, `(host=1, port=81, encoded=True)`; and wrong
    types that are SILENTLY ignored: `URL.build(user=1) == URL("")`, `URL.build(host=0) == URL("")`,
    `URL.build(host="h", user=0) == URL("//h")`.  Cites C19_dynBuild_leak_instances (C19DynBuild.lean). -/
theorem C19_headline_dyn_build_leak_instances (e : Env) :
    dynBuild e { scheme := some (.int 1) } = .error .attributeError ∧
    dynBuild e { authority := some (.int 1) } = .error .attributeError ∧
    dynBuild e { host := some (.bytes [120]) } = .error .attributeError ∧
    dynBuild e { host := some (.tuple [.str [97]]) } = .error .attributeError ∧
    dynBuild e { scheme := some (.bytes [120]) } = .garbage 0 ∧
    dynBuild e { path := some (.int 0) } = .garbage 0 ∧
    dynBuild e { queryString := some (.list []) } = .garbage 0 ∧
    dynBuild e { fragment := some (.tuple []) } = .garbage 0 ∧
    dynBuild e { scheme := some (.int 1), encoded := some (.bool true) } = .garbage 0 ∧
    dynBuild e { authority := some (.int 1), encoded := some (.bool true) } = .garbage 0 ∧
    dynBuild e { host := some (.int 1), encoded := some (.bool true) } = .garbage 0 ∧
    dynBuild e { path := some (.other 0), encoded := some (.bool true) } = .garbage 0 ∧
    dynBuild e { host := some (.str [104]), user := some (.int 1), encoded := some (.bool true) } = .garbage 1 ∧
    dynBuild e { host := some (.str [104]), password := some (.int 0), encoded := some (.bool true) } = .garbage 1 ∧
    dynBuild e { host := some (.int 1), port := some (.int 81), encoded := some (.bool true) } = .garbage 1 ∧
    dynBuild e { user := some (.int 1) } = .ok (fromParts [] [] [] [] []) ∧
    dynBuild e { host := some (.int 0) } = .ok (fromParts [] [] [] [] []) ∧
    dynBuild e { host := some (.str [104]), user := some (.int 0) } = .ok (fromParts [] [104] [] [] []) :=
  C19_dynBuild_leak_instances e

/-! ## Sentence 1 — "ValueError (malformed value …) or TypeError (wrong type)" — the argument checks of `build` -/

/-- MODEL-LEVEL.  Which check stops `URL.build`, on arbitrary objects — statements 1–5 of `build` in source order, each
    with the negation of the earlier ones — and that a stopped call raises the exception of that check whatever the
    other arguments are:
    1. `authority and (user or password or host or port is not None)` → ValueError;  2. `port` neither None nor an int
    (a bool is not) → TypeError, an int outside 0..65535 → ValueError;  3. `port is not None and not host` → ValueError
    (1. and 3. since library fix 7970b83: a port of 0 IS a given port; before, both tested the truthiness of `port`);
    4. `query and
    query_string` → ValueError;  5. a None among scheme / authority / host / path / query_string / fragment → TypeError.
    Cites C19_dynBuild_stop, C19_dynBuild_checks (C19DynBuild.lean). -/
theorem C19_headline_dyn_build_argument_checks (e : Env) (o : BuildObjs) :
    (∀ s, preStop o = some s → dynBuildObjs e o = .error s.err) ∧
    (preStop o = some .mixAuthority ↔
      truthy o.authority = true ∧
        (truthy o.user = true ∨ truthy o.password = true ∨ truthy o.host = true ∨ isNoneObj o.port = false)) ∧
    (preStop o = some .portType ↔
      mixAuthority o = false ∧ isNoneObj o.port = false ∧ (portInt o.port).isNone = true) ∧
    (preStop o = some .portRange ↔ mixAuthority o = false ∧ ∃ i, o.port = .int i ∧ ¬(0 ≤ i ∧ i ≤ 65535)) ∧
    (preStop o = some .portNoHost ↔
      (∃ i, o.port = .int i ∧ 0 ≤ i ∧ i ≤ 65535) ∧ truthy o.host = false ∧ truthy o.authority = false) ∧
    (preStop o = some .twoQueries ↔
      truthy o.query = true ∧ truthy o.queryString = true ∧
        mixAuthority o = false ∧ portStop o.port = none ∧ portNoHost o = false) ∧
    (preStop o = some .noneArg ↔
      noneArg o = true ∧ mixAuthority o = false ∧ portStop o.port = none ∧ portNoHost o = false ∧
        twoQueries o = false) ∧
    (preStop o = none ↔
      mixAuthority o = false ∧ portStop o.port = none ∧ portNoHost o = false ∧ twoQueries o = false ∧
        noneArg o = false) :=
  ⟨fun s h => C19_dynBuild_stop e o s h, C19_dynBuild_checks o⟩

/-- MODEL-LEVEL.  The three argument CONFLICTS as one iff (only truthiness matters — for `port`, since library fix 7970b83,
    only whether it is None: `isNoneObj o.port = false`, `0 ≤ i`), a conflict is always a ValueError;
    conversely every ValueError of `URL.build` is a conflict, the port range check, or a value-level ValueError of
    `get_str_query` / of the typed `build` on (a prefix of) the coerced arguments.  `build` has NO "scheme requires a
    host" check.  Cites C19_dynBuild_conflict_iff, C19_dynBuild_valueError_sources (C19DynBuild.lean). -/
theorem C19_headline_dyn_build_conflicts (e : Env) (o : BuildObjs) :
    (o.conflict ↔
      (truthy o.authority = true ∧
        (truthy o.user = true ∨ truthy o.password = true ∨ truthy o.host = true ∨ isNoneObj o.port = false)) ∨
      ((∃ i, o.port = .int i ∧ 0 ≤ i ∧ i ≤ 65535) ∧ truthy o.host = false ∧ truthy o.authority = false) ∨
      (truthy o.query = true ∧ truthy o.queryString = true ∧
        mixAuthority o = false ∧ portStop o.port = none ∧ portNoHost o = false)) ∧
    (o.conflict → dynBuildObjs e o = .error .valueError) ∧
    (dynBuildObjs e o = .error .valueError →
      o.conflict ∨ preStop o = some .portRange ∨
        (preStop o = none ∧
          (getStrQuery e.b (dynQuery o.query) = .error .valueError ∨ ∃ a, build e a = .error .valueError))) :=
  ⟨(C19_dynBuild_conflict_iff e o).1, (C19_dynBuild_conflict_iff e o).2, C19_dynBuild_valueError_sources e o⟩

/-- MODEL-LEVEL, the ORDER of the checks on concrete calls: the TypeError of a None argument comes after the conflict
    checks and the port check.  Cites C19_dynBuild_none_order (C19DynBuild.lean). -/
theorem C19_headline_dyn_build_check_order_instances (e : Env) :
    dynBuild e { scheme := some .none } = .error .typeError ∧
    dynBuild e { scheme := some .none, authority := some (.str [97]), host := some (.str [104]) } = .error .valueError ∧
    dynBuild e { fragment := some .none, port := some (.int (-5)) } = .error .valueError ∧
    dynBuild e { query := some (.str [97]), queryString := some .none } = .error .typeError ∧
    dynBuild e { query := some (.str [97]), queryString := some (.str [98]), scheme := some .none } =
      .error .valueError :=
  C19_dynBuild_none_order e

/-! ## Sentence 1 — `without_query_params(*names)` and the bool flags, on arbitrary objects -/

/-- MODEL-LEVEL.  `u.without_query_params(*names)` on ARBITRARY name objects: with str (subclass) names it is the typed
    function; the ONLY failure is TypeError, raised iff some name is unhashable (`set(names)`), whatever the URL and
    the other names are; hashable non-str names (None, ints, bytes, tuples, URLs, objects) are silently ignored.
    Cites C19_dynWithoutQueryParams (C19DynBuild.lean). -/
theorem C19_headline_dyn_without_query_params (e : Env) (u : Url) (names : List PyObj) :
    (∀ strs, names.map strLike = strs.map some →
      dynWithoutQueryParams e u names = withoutQueryParams e u strs) ∧
    (∀ err, dynWithoutQueryParams e u names = .error err ↔ err = .typeError ∧ ∃ n ∈ names, hashable n = false) ∧
    (names.all hashable = true →
      dynWithoutQueryParams e u names = withoutQueryParams e u (names.filterMap strLike) ∧
      dynWithoutQueryParams e u names = dynWithoutQueryParams e u (names.filter isStr)) :=
  C19_dynWithoutQueryParams e u names

/-- MODEL-LEVEL.  `encoded=`, `keep_query=`, `keep_fragment=` given as ARBITRARY objects are only tested by the code:
    they act as `bool(o)` — the entry point is the one of Dyn.lean at `truthy o` — so no exception can come from a
    flag; with_name / with_suffix with arbitrary flag objects still raise only ValueError / TypeError (or an oracle
    request), TypeError exactly for a non-str name / suffix.  (For with_path / joinpath the statements about a
    non-str FIRST argument are those of C19HeadlineMore3.lean, unchanged by the flags.)
    Cites C19_dyn_flags (C19DynBuild.lean). -/
theorem C19_headline_dyn_flags (e : Env) (u : Url) :
    (∀ p enc kq kf, dynWithPathFlags e u p enc kq kf = dynWithPath e u p (truthy enc) (truthy kq) (truthy kf)) ∧
    (∀ n kq kf, dynWithNameFlags e u n kq kf = dynWithName e u n (truthy kq) (truthy kf)) ∧
    (∀ n kq kf, dynWithSuffixFlags e u n kq kf = dynWithSuffix e u n (truthy kq) (truthy kf)) ∧
    (∀ xs enc, dynJoinpathFlag e u xs enc = dynJoinpath e u xs (truthy enc)) ∧
    (∀ n kq kf err, dynWithNameFlags e u n kq kf = .error err → Allowed err) ∧
    (∀ n kq kf err, dynWithSuffixFlags e u n kq kf = .error err → Allowed err) ∧
    (∀ n kq kf, dynWithNameFlags e u n kq kf = .error .typeError ↔ strLike n = none) ∧
    (∀ n kq kf, dynWithSuffixFlags e u n kq kf = .error .typeError ↔ strLike n = none) :=
  have h := C19_dyn_flags e u
  ⟨h.1, h.2.1, h.2.2.1, h.2.2.2.1, h.2.2.2.2.2.2.2.2.1, h.2.2.2.2.2.2.2.2.2.1, h.2.2.2.2.2.2.2.2.2.2.1,
   h.2.2.2.2.2.2.2.2.2.2.2⟩

end Yarl
