/-
  C19Ctor.lean — property C19 ("an object that build() or a modifier returned can always be turned
  into a string") extended to the two constructors, and its combination with C09 (pickle twin).

  * the auto-encoding constructor: the result always prints — `net` is the pre-filled cache when the
    input had an authority, and `lazyNet` of the empty netloc otherwise;
  * `encoded=True`: printable iff the stored authority splits (documented garbage-in);
  * constructor results under `GoodAuthority`: `LazyOK` and `HostShape` both hold, so every modifier
    result prints (no extra IDNA hypothesis is needed: `GoodAuthority` already carries it);
  * the pickle twin of such a URL prints, and prints the same text.
-/
import YarlModel
import YarlProofs.C19Str
import YarlProofs.C09
set_option linter.unusedSimpArgs false
namespace Yarl
open NetlocLemmas StrTotal EagerLemmas

namespace MiscLemmas

/-- `encode_url` pre-fills the cache whenever it stores a non-empty netloc; with an empty input
    authority it stores the empty netloc and no cache -/
theorem authBlock_pre (e : Env) (pt : Parts) (netloc : Str) (pre : Option NetPre)
    (h : authBlock e pt = .ok (netloc, pre)) : (pre = none ∧ netloc = [] ∧ pt.netloc = []) ∨ ∃ p, pre = some p := by
  unfold authBlock at h
  split at h
  · rename_i hemp
    cases h
    left
    refine ⟨rfl, rfl, ?_⟩
    cases hn : pt.netloc with
    | nil => rfl
    | cons _ _ => rw [hn] at hemp; cases hemp
  · right
    obtain ⟨np, _, h⟩ := bind_ok h
    obtain ⟨host0, _, h⟩ := bind_ok h
    obtain ⟨host1, _, h⟩ := bind_ok h
    unfold eagerOut at h
    simp only at h
    split at h
    · cases h; exact ⟨_, rfl⟩
    · cases h; exact ⟨_, rfl⟩

/-- the result of the auto-encoding constructor: cache pre-filled, or empty netloc and no cache -/
theorem encodeUrl_pre (e : Env) (s : Str) (u : Url) (h : encodeUrl e s = .ok u) :
    (u.pre = none ∧ u.netloc = []) ∨ ∃ p, u.pre = some p := by
  rw [encodeUrl_eq] at h
  obtain ⟨pt, _, h⟩ := bind_ok h
  obtain ⟨⟨netloc, pre⟩, hab, h⟩ := bind_ok h
  cases h
  rcases authBlock_pre e pt netloc pre hab with ⟨h1, h2, _⟩ | ⟨p, hp⟩
  · exact Or.inl ⟨h1, h2⟩
  · exact Or.inr ⟨p, hp⟩

theorem preEncodedUrl_pre (e : Env) (s : Str) (u : Url) (h : preEncodedUrl e s = .ok u) : u.pre = none := by
  unfold preEncodedUrl at h
  obtain ⟨p, _, h⟩ := bind_ok h
  cases h
  rfl

theorem lazyNet_twin (e : Env) (u : Url) : lazyNet e (pickleTwin u) = lazyNet e u :=
  lazyNet_congr e (u := u) (v := pickleTwin u) rfl

theorem lazyNet_nil (e : Env) (u : Url) (h : u.netloc = []) : ∃ p, lazyNet e u = .ok p := by
  apply (lazyNet_ok_iff e u).2
  rw [h]
  exact ⟨_, rfl⟩

end MiscLemmas
open MiscLemmas

/-! ### the auto-encoding constructor -/

/-- what `net` is for a constructor result -/
theorem C19_constructor_net (e : Env) (s : Str) (u : Url) : encodeUrl e s = .ok u →
    (∃ p, u.pre = some p ∧ net e u = .ok p) ∨ (u.pre = none ∧ u.netloc = [] ∧ net e u = lazyNet e u) := by
  intro h
  rcases encodeUrl_pre e s u h with ⟨hpre, hn⟩ | ⟨p, hp⟩
  · right
    refine ⟨hpre, hn, ?_⟩
    unfold net; rw [hpre]
  · left
    refine ⟨p, hp, ?_⟩
    unfold net; rw [hp]; rfl

/-- a parsed URL always prints: `net` is the pre-filled cache when there is an authority, and
    `lazyNet` of an empty netloc otherwise.  No hypothesis on the input or on the oracles. -/
theorem C19_constructor_str_total (e : Env) (s : Str) (u : Url) : encodeUrl e s = .ok u → StrOK e u := by
  intro h
  apply C19_str_total_of_net
  rcases C19_constructor_net e s u h with ⟨p, _, hp⟩ | ⟨_, hn, hnet⟩
  · exact ⟨p, hp⟩
  · rw [hnet]
    exact lazyNet_nil e u hn

/-! ### the `encoded=True` constructor -/

/-- `URL(s, encoded=True)`: the five parts are stored verbatim, no cache is filled; the result is
    printable iff the stored authority splits (documented garbage-in) -/
theorem C19_preencoded_str_total_iff (e : Env) (s : Str) (u : Url) : preEncodedUrl e s = .ok u →
    (StrOK e u ↔ ∃ r, splitNetloc e.o u.netloc = .ok r) := by
  intro h
  have hpre := preEncodedUrl_pre e s u h
  rw [C19_str_total_iff_net]
  have : net e u = lazyNet e u := by unfold net; rw [hpre]
  rw [this]
  exact lazyNet_ok_iff e u

/-- … and it is not always printable: a port text that is no number is stored as it is -/
theorem C19_preencoded_counterexample (e : Env) :
    ∃ u, preEncodedUrl e "http://h:x/".toStr = .ok u ∧ u.netloc = "h:x".toStr ∧ str e u = .error .valueError :=
  ⟨_, rfl, rfl, rfl⟩

/-! ### constructor results under `GoodAuthority`: every modifier result prints -/

/-- the stored netloc of a constructor result splits again when the input authority is good (C09) -/
theorem C19_constructor_lazyOK (e : Env) (s : Str) (u : Url) :
    encodeUrl e s = .ok u → GoodAuthority e s → LazyOK e u := by
  intro h hg
  rcases encodeUrl_pre e s u h with ⟨_, hn⟩ | ⟨p, hp⟩
  · unfold LazyOK
    rw [lazyNet_twin]
    exact lazyNet_nil e u hn
  · exact ⟨p, C09_eager_eq_lazy e s u p h hp hg⟩

/-- … and the cached raw host / port have the shape the netloc-rebuilding modifiers need.  Under
    `GoodAuthority` this needs NO further IDNA hypothesis (unlike `C19_hostShape_encodeUrl`): the cache
    equals what `split_netloc` reads from the stored netloc, and that always has the shape. -/
theorem C19_constructor_hostShape (e : Env) (s : Str) (u : Url) :
    encodeUrl e s = .ok u → GoodAuthority e s → HostShape e u := by
  intro h hg
  have hnet : net e (pickleTwin u) = net e u := (C09_pickle_lossless e s u h hg).1
  intro p hp
  rw [← hnet] at hp
  exact C19_hostShape_of_lazy e (pickleTwin u) rfl p hp

/-- assembly of `C19_modifier_str_total` for constructor results: under `GoodAuthority` the URL
    itself prints, its stored netloc splits (`LazyOK`), the cache has the shape (`HostShape`), and
    every modifier result prints -/
theorem C19_constructor_then_modifiers (e : Env) (s : Str) (u : Url) :
    encodeUrl e s = .ok u → GoodAuthority e s →
    LazyOK e u ∧ HostShape e u ∧ StrOK e u ∧
    ((∀ usr v, withUser e u usr = .ok v → StrOK e v) ∧
    (∀ pw v, withPassword e u pw = .ok v → StrOK e v) ∧
    (∀ port kind v, withPort e u port kind = .ok v → StrOK e v) ∧
    (∀ h v, withHost e u h = .ok v → StrOK e v) ∧
    (∀ s v, withScheme e u s = .ok v → StrOK e v) ∧
    (∀ p enc kq kf, StrOK e (withPath e u p enc kq kf)) ∧
    (∀ a v, withQuery e u a = .ok v → StrOK e v) ∧
    (∀ a v, extendQuery e u a = .ok v → StrOK e v) ∧
    (∀ a v, updateQuery e u a = .ok v → StrOK e v) ∧
    (∀ names v, withoutQueryParams e u names = .ok v → StrOK e v) ∧
    (∀ f, StrOK e (withFragment e u f)) ∧
    (∀ nm kq kf v, withName e u nm kq kf = .ok v → StrOK e v) ∧
    (∀ sfx kq kf v, withSuffix e u sfx kq kf = .ok v → StrOK e v) ∧
    (∀ paths enc v, makeChild e u paths enc = .ok v → StrOK e v) ∧
    StrOK e (parent u) ∧
    (∀ v, relative u = .ok v → StrOK e v)) := by
  intro h hg
  have hl := C19_constructor_lazyOK e s u h hg
  have hs := C19_constructor_hostShape e s u h hg
  exact ⟨hl, hs, C19_constructor_str_total e s u h, C19_modifier_str_total e u hl hs⟩

/-- the same without `GoodAuthority` for the four modifiers that REBUILD the netloc (they only read the
    cache): here the IDNA hypothesis of `C19_hostShape_encodeUrl` is what is needed -/
theorem C19_constructor_rebuilders (e : Env) (s : Str) (u : Url)
    (hidna : ∀ x r, idnaEncode e.o x = .ok r → HostShapeStr r) : encodeUrl e s = .ok u →
    (∀ usr v, withUser e u usr = .ok v → StrOK e v) ∧
    (∀ pw v, withPassword e u pw = .ok v → StrOK e v) ∧
    (∀ port kind v, withPort e u port kind = .ok v → StrOK e v) ∧
    (∀ h v, withHost e u h = .ok v → StrOK e v) := by
  intro h
  have hs := C19_hostShape_encodeUrl e s u hidna h
  exact ⟨fun usr v hv => C19_withUser_str_total e u v usr hs hv,
   fun pw v hv => C19_withPassword_str_total e u v pw hs hv,
   fun port kind v hv => C19_withPort_str_total e u v port kind hs hv,
   fun h v hv => C19_withHost_str_total e u v h hs hv⟩

/-! ### the pickle twin -/

/-- the pickled / copied constructor result prints, and prints the same text -/
theorem C19_twin_str_total (e : Env) (s : Str) (u : Url) : encodeUrl e s = .ok u → GoodAuthority e s →
    StrOK e (pickleTwin u) ∧ str e (pickleTwin u) = str e u := by
  intro h hg
  have heq : str e (pickleTwin u) = str e u := (C09_pickle_lossless e s u h hg).2.1
  obtain ⟨t, ht⟩ := C19_constructor_str_total e s u h
  exact ⟨⟨t, by rw [heq, ht]⟩, heq⟩

/-- in general the twin prints iff the stored netloc splits (for the URL itself the cache hides this) -/
theorem C19_twin_str_total_iff (e : Env) (u : Url) :
    StrOK e (pickleTwin u) ↔ ∃ r, splitNetloc e.o u.netloc = .ok r := by
  rw [C19_str_total_iff_net]
  have : net e (pickleTwin u) = lazyNet e u := lazyNet_twin e u
  rw [this]
  exact lazyNet_ok_iff e u

/-- an IDNA table that answers "a:x" (no real one does) -/
def C19_hostileIdna : Oracles :=
  { Oracles.empty with nfkc := fun s => some s, idnaEnc := fun _ => some (some "a:x".toStr),
                       isDigitU := fun _ => some false }

/-- `GoodAuthority` is needed in `C19_twin_str_total` (and in `C19_constructor_lazyOK`): with an IDNA
    oracle that answers "a:x" the constructor result prints (from its cache) but its pickle twin
    does not, and neither does the result of a netloc-keeping modifier.  `GoodHost` excludes exactly this:
    the IDNA answer introduces a ':'. -/
theorem C19_twin_needs_good_authority :
    let e : Env := { b := .c, o := C19_hostileIdna }
    let s := "http://".toStr ++ [233] ++ "/".toStr
    (encodeUrl e s).bind (str e) = .ok "http://a:x/".toStr ∧
    (encodeUrl e s).bind (fun u => str e (pickleTwin u)) = .error .valueError ∧
    (encodeUrl e s).bind (fun u => str e (withFragment e u (some "f".toStr))) = .error .valueError ∧
    ¬ GoodAuthority e s := by
  refine ⟨by rfl, by rfl, by rfl, ?_⟩
  intro hg
  have := hg { scheme := "http".toStr, netloc := [233], path := "/".toStr, query := [], fragment := [] }
    { user := none, password := none, host := some [233], port := none } rfl rfl
  rcases this.2 with ⟨_, h⟩ | ⟨h8, h⟩
  · have := (h (by decide) "a:x".toStr rfl).2 58 (Or.inl rfl) (by decide)
    simp at this
  · have : parseIP (partition 37 [233]).1 = none := by decide
    rw [this] at h; cases h

/-! ### non-vacuity -/

section checks
-- (evaluation of the quoters needs the compiled backend's fast path: the Python byte loop is a
-- well-founded recursion; the theorems above hold for both backends)
private def eC : Env := { b := .c, o := Oracles.empty }

private def s0 : Str := "HTTP://Us:p.w@[FE80::1%eth0]:8080/a/../b?k=v#f".toStr

-- the constructor accepts it, fills the cache, and the result prints
example : (encodeUrl eC s0).map (·.netloc) = .ok "Us:p.w@[fe80::1%eth0]:8080".toStr := by rfl
example : (encodeUrl eC s0).map (·.pre) = .ok (some
    { rawHost := some "fe80::1%eth0".toStr, explicitPort := some 8080,
      rawUser := some "Us".toStr, rawPassword := some "p.w".toStr }) := by rfl
example : (encodeUrl eC s0).bind (str eC) = .ok "http://Us:p.w@[fe80::1%eth0]:8080/b?k=v#f".toStr := by rfl
-- … so does its twin, to the same text
example : (encodeUrl eC s0).bind (fun u => str eC (pickleTwin u))
    = .ok "http://Us:p.w@[fe80::1%eth0]:8080/b?k=v#f".toStr := by rfl
-- no authority: no cache, empty netloc
example : (encodeUrl eC "mailto:a@b".toStr).map (fun u => (u.pre, u.netloc)) = .ok (none, []) := by rfl
example : (encodeUrl eC "mailto:a@b".toStr).bind (str eC) = .ok "mailto:a@b".toStr := by rfl
-- modifiers on a constructor result
example : (encodeUrl eC s0).bind (fun u => (withPort eC u (some 81) 0).bind (str eC))
    = .ok "http://Us:p.w@[fe80::1%eth0]:81/b?k=v#f".toStr := by rfl
example : (encodeUrl eC s0).bind (fun u => str eC (withPath eC u "/x".toStr false false false))
    = .ok "http://Us:p.w@[fe80::1%eth0]:8080/x".toStr := by rfl
-- `encoded=True`: both directions of the iff are inhabited
example : (preEncodedUrl eC "http://h:81/p".toStr).bind (str eC) = .ok "http://h:81/p".toStr := by rfl
example : (preEncodedUrl eC "http://h:x/p".toStr).bind (str eC) = .error .valueError := by rfl
example : splitNetloc eC.o "h:x".toStr = .error .valueError := by rfl

-- `GoodAuthority` holds for the sample input: mixed-case user, password, IPv6 + zone, port
example : GoodAuthority eC s0 :=
  C09_good_authority_of eC _
    { scheme := "http".toStr, netloc := "Us:p.w@[FE80::1%eth0]:8080".toStr, path := "/a/../b".toStr,
      query := "k=v".toStr, fragment := "f".toStr }
    { user := some "Us".toStr, password := some "p.w".toStr, host := some "FE80::1%eth0".toStr, port := some 8080 }
    rfl rfl
    ⟨(by intro s hs; cases hs; decide),
     C09_good_host_ipv6 _ _ [0xfe80, 0, 0, 0, 0, 0, 0, 1] (by decide +kernel) (by decide) (by decide)⟩

-- the remaining C09 finding "[[::1]" is outside `GoodAuthority`, but its twin still prints (the stored
-- netloc splits; it is the cached HOST that differs), cf. `C19_twin_str_total_iff`
example : (encodeUrl eC "http://[[::1]/".toStr).bind (fun u => str eC (pickleTwin u)) = .ok "http://[::1/".toStr ∧
    (encodeUrl eC "http://[[::1]/".toStr).bind (str eC) = .ok "http://[::1/".toStr := ⟨by rfl, by rfl⟩
end checks

end Yarl
