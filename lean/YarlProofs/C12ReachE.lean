/-
  C12ReachE.lean — property C12 (query algebra) over `ReachE`, the closure of ALL entry points, `encoded=True` included
  (ReachE.lean).  Closes C12Headline GAPS 9.

  What the existing proofs use of the URL being updated (C12Url.lean, C12More.lean):
    * `with_query`, `extend_query`              NOTHING — they hold for every `Url` (`C12_url_with_query_mapping'`,
                                                `C12_url_with_query_pairs'`, `C12_url_extend_query`, `…_pairs`, `…_no_pairs`);
                                                collected over `ReachE` in `C12_reachE_with_and_extend_query`;
    * `update_query`, `without_query_params`    ONLY `GoodPairs (queryPairs u)` (the OLD pairs are re-rendered by the query
                                                quoter, which drops lone surrogates), and that follows from
                                                `GoodText u.query` = Python string without lone surrogates.
  Over `ReachE` the stored query IS a Python string (`C01_reachE_components_python`), so exactly one thing is needed of
  `u.query`: NO LONE SURROGATE.
    * `C12_reachE_good_pairs`                   `ReachE e u` and `NoSurrogate u.query` give `GoodPairs (queryPairs u)`;
    * `C12_reachE_query_no_surrogate`           … and `NoSurrogate u.query` holds whenever no text handed over with
                                                `encoded=True` contained a lone surrogate (`ReachEX NoSurrogate Z Sc`);
    * `C12_reachE_without_query_params`, `C12_reachE_update_is_multidict_update`, `C12_reachE_update_keeps_others`,
      `C12_reachE_update_replaces`, `C12_reachE_update_lists`, `C12_reachE_query_accessor_spec`
                                                the `C12_reach_*` theorems of C12More.lean, restated over `ReachE`;
    * `C12_reachE_fails_for_surrogate`          the hypothesis is needed: `URL('?\ud800=1&b=2', encoded=True)` is in
                                                `ReachE`, and `update_query` / `without_query_params` on it do NOT obey
                                                the multidict algebra (the old key loses its surrogate).
-/
import YarlProofs.ReachE
import YarlProofs.C01ReachE
set_option linter.unusedVariables false
namespace Yarl
open StrAscii OutLangLemmas QsLemmas WfLemmas EntryLemmas R6 QueryUrl QsSpec

/-! ## what is needed of the stored query -/

/-- over `ReachE` the stored query is a Python string; without lone surrogates its pairs are good -/
theorem C12_reachE_good_pairs (e : Env) (u : Url) (hr : ReachE e u) (hq : NoSurrogate u.query) :
    GoodText u.query ∧ GoodPairs (queryPairs u) :=
  have hg : GoodText u.query := ⟨(C01_reachE_components_python e u hr).2.1, hq⟩
  ⟨hg, C12_url_query_pairs_good u hg⟩

/-- INPUT-SIDE: if no text handed over with `encoded=True` contained a lone surrogate, the stored path, query and
    fragment contain none (the auto-encoding entry points store ASCII) -/
theorem C12_reachE_query_no_surrogate (e : Env) (Z Sc : Str → Prop) (u : Url) (h : ReachEX NoSurrogate Z Sc e u) :
    NoSurrogate u.path ∧ NoSurrogate u.query ∧ NoSurrogate u.fragment := by
  have := reachEX_tail cclass_good (A := NoSurrogate)
    (fun x hp hn => (goodText_iff x).mp ⟨hp, hn⟩) h
  exact ⟨((goodText_iff _).mpr this.path).2, ((goodText_iff _).mpr this.query).2, ((goodText_iff _).mpr this.fragment).2⟩

/-- … hence the hypothesis `hold` of every C12 theorem is discharged from the inputs -/
theorem C12_reachE_good_pairs_of_inputs (e : Env) (Z Sc : Str → Prop) (u : Url) (h : ReachEX NoSurrogate Z Sc e u) :
    GoodPairs (queryPairs u) :=
  (C12_reachE_good_pairs e u h.toReachE (C12_reachE_query_no_surrogate e Z Sc u h).2.1).2

/-! ## the operations that need nothing -/

/-- `with_query` REPLACES and `extend_query` APPENDS the pairs the argument denotes — for every URL of `ReachE`, whatever
    its stored query (indeed for every `Url`: cites `C12_url_with_query_mapping'`, `C12_url_with_query_pairs'`,
    `C12_url_extend_query`, `C12_url_extend_query_pairs`, `C12_url_extend_query_no_pairs`, which have no hypothesis on `u`) -/
theorem C12_reachE_with_and_extend_query (e : Env) (u : Url) (hr : ReachE e u) (items : List (Str × QItem))
    (ps : List (Str × Str)) (hden : expandItems items = some ps) (hg : GoodPairs ps) :
    (∃ v, withQuery e u (.mapping items) = .ok v ∧ queryPairs v = ps) ∧
    (SingleValued items → ∃ v, withQuery e u (.pairs items) = .ok v ∧ queryPairs v = ps) ∧
    (ps ≠ [] → ∃ v, extendQuery e u (.mapping items) = .ok v ∧ queryPairs v = queryPairs u ++ ps) ∧
    (ps ≠ [] → SingleValued items → ∃ v, extendQuery e u (.pairs items) = .ok v ∧ queryPairs v = queryPairs u ++ ps) ∧
    (ps = [] → extendQuery e u (.mapping items) = .ok u) := by
  refine ⟨?_, ?_, ?_, ?_, ?_⟩
  · obtain ⟨v, h1, h2, _⟩ := C12_url_with_query_mapping' e u items ps hden hg
    exact ⟨v, h1, h2⟩
  · intro hs
    obtain ⟨v, h1, h2, _⟩ := C12_url_with_query_pairs' e u items ps hs hden hg
    exact ⟨v, h1, h2⟩
  · exact fun hne => C12_url_extend_query e u items ps hden hg hne
  · exact fun hne hs => C12_url_extend_query_pairs e u items ps hs hden hg hne
  · intro hnil; subst hnil; exact C12_url_extend_query_no_pairs e u items hden

/-! ## `update_query` / `without_query_params`: the `C12_reach_*` theorems over `ReachE` -/

/-- `C12_reach_without_query_params` over `ReachE` -/
theorem C12_reachE_without_query_params (e : Env) (u : Url) (hr : ReachE e u) (hq : NoSurrogate u.query)
    (names : List Str) :
    ∃ v, withoutQueryParams e u names = .ok v ∧
      queryPairs v = (queryPairs u).filter (fun p => !names.contains p.1) :=
  C12_url_without_query_params e u names (C12_reachE_good_pairs e u hr hq).2

/-- `C12_reach_update_is_multidict_update` over `ReachE` -/
theorem C12_reachE_update_is_multidict_update (e : Env) (u : Url) (hr : ReachE e u) (hq : NoSurrogate u.query)
    (items : List (Str × QItem)) (ps : List (Str × Str)) (s : Str) :
    (SingleValued items → expandItems items = some ps → GoodPairs ps → ps ≠ [] →
      (∃ v, updateQuery e u (.pairs items) = .ok v ∧ queryPairs v = mdUpdate (queryPairs u) ps) ∧
      (∃ v, updateQuery e u (.mapping items) = .ok v ∧ queryPairs v = mdUpdate (queryPairs u) ps)) ∧
    (GoodText s → s ≠ [] →
      ∃ v, updateQuery e u (.str s) = .ok v ∧ queryPairs v = mdUpdate (queryPairs u) (parseQsl s)) :=
  have hold := (C12_reachE_good_pairs e u hr hq).2
  ⟨fun hs hden hg hne => ⟨C12_url_update_query e u items ps hs hden hg hold hne,
      C12_url_update_query_mapping e u items ps hs hden hg hold hne⟩,
   fun hs hne => C12_url_update_query_str e u s hs hold hne⟩

/-- `C12_reach_update_keeps_others` over `ReachE` -/
theorem C12_reachE_update_keeps_others (e : Env) (u : Url) (hr : ReachE e u) (hq : NoSurrogate u.query)
    (items : List (Str × QItem)) (ps : List (Str × Str)) (hs : SingleValued items)
    (hden : expandItems items = some ps) (hg : GoodPairs ps) (hne : ps ≠ []) :
    ∃ v, updateQuery e u (.pairs items) = .ok v ∧
      (queryPairs v).filter (fun p => !(keysOf ps).contains p.1) =
        (queryPairs u).filter (fun p => !(keysOf ps).contains p.1) :=
  C12_url_update_keeps_others e u items ps hs hden hg (C12_reachE_good_pairs e u hr hq).2 hne

/-- `C12_reach_update_replaces` over `ReachE` -/
theorem C12_reachE_update_replaces (e : Env) (u : Url) (hr : ReachE e u) (hq : NoSurrogate u.query)
    (items : List (Str × QItem)) (ps : List (Str × Str)) (k : Str) (hs : SingleValued items)
    (hden : expandItems items = some ps) (hg : GoodPairs ps) (hk : k ∈ keysOf ps) :
    ((∀ k' ∈ keysOf ps, k' ≠ k →
        ((queryPairs u).filter (fun p => p.1 = k')).length ≤ (ps.filter (fun p => p.1 = k')).length) →
      ∃ v, updateQuery e u (.pairs items) = .ok v ∧
        ((queryPairs v).filter (fun p => p.1 = k)).map (·.2) = (ps.filter (fun p => p.1 = k)).map (·.2)) ∧
    (∃ v, updateQuery e u (.pairs items) = .ok v ∧
      ∃ S, ((queryPairs v).filter (fun p => p.1 = k)).map (·.2) = (ps.filter (fun p => p.1 = k)).map (·.2) ++ S ∧
        S.Sublist ((((queryPairs u).filter (fun p => p.1 = k)).map (·.2)).drop (ps.filter (fun p => p.1 = k)).length)) :=
  have hold := (C12_reachE_good_pairs e u hr hq).2
  ⟨fun ht => C12_url_update_sets_keys e u items ps k hs hden hg hold hk ht,
   C12_url_update_sets_keys_split e u items ps k hs hden hg hold hk⟩

/-- `C12_reach_update_lists` over `ReachE` -/
theorem C12_reachE_update_lists (e : Env) (u : Url) (hr : ReachE e u) (hq : NoSurrogate u.query)
    (items : List (Str × QItem)) (ps : List (Str × Str)) (hden : expandItems items = some ps) (hg : GoodPairs ps)
    (hne : items ≠ []) :
    (∃ v, updateQuery e u (.mapping items) = .ok v ∧
      (queryPairs v).filter (fun p => !(keysOf items).contains p.1) =
        (queryPairs u).filter (fun p => !(keysOf items).contains p.1)) ∧
    (∀ k ∈ keysOf items,
      (∀ k' ∈ keysOf items, k' ≠ k →
        ((queryPairs u).filter (fun p => p.1 = k')).length ≤ (items.filter (fun p => p.1 = k')).length) →
      ∃ v, updateQuery e u (.mapping items) = .ok v ∧
        (queryPairs v).filter (fun p => p.1 = k) = ps.filter (fun p => p.1 = k)) ∧
    (∀ k ∈ keysOf items, ∃ v, updateQuery e u (.mapping items) = .ok v ∧
      ps.filter (fun p => p.1 = k) <+: (queryPairs v).filter (fun p => p.1 = k)) :=
  have hold := (C12_reachE_good_pairs e u hr hq).2
  ⟨C12_url_update_lists_keeps_others e u items ps hden hg hold hne,
   fun k hk ht => C12_url_update_lists_sets_keys e u items ps k hden hg hold hk ht,
   fun k hk => C12_url_update_lists_sets_keys_prefix e u items ps k hden hg hold hk⟩

/-- `C06_query_accessor_spec_reach` over `ReachE`: the `query` accessor meets its specification -/
theorem C12_reachE_query_accessor_spec (e : Env) (u : Url) (hr : ReachE e u) (hq : NoSurrogate u.query) :
    queryPairs u = queryPairsSpec u.query :=
  C06_query_accessor_spec u.query (C12_reachE_good_pairs e u hr hq).1

/-! ## the hypothesis is needed -/

/-- `URL('?\ud800=1&b=2', encoded=True)` (= `surrUrl`, C12Url.lean) IS in `ReachE`; its stored query has a lone surrogate;
    `update_query([("c","3")])` reads back `[("", "1"), ("b","2"), ("c","3")]` instead of
    `mdUpdate (queryPairs u) [("c","3")] = [("\ud800","1"), ("b","2"), ("c","3")]`, and `without_query_params("b")` reads
    back `[("", "1")]` instead of `[("\ud800","1")]`.  (Cites `C12_url_update_query_needs_good_old`,
    `C12_url_without_query_params_needs_good_old`.)  `with_query` / `extend_query` are unaffected. -/
theorem C12_reachE_fails_for_surrogate (e : Env) :
    preEncodedUrl e [63, 0xD800, 61, 49, 38, 98, 61, 50] = .ok surrUrl ∧ ReachE e surrUrl ∧
    ¬ NoSurrogate surrUrl.query ∧ ¬ GoodPairs (queryPairs surrUrl) ∧
    (∃ v, updateQuery e surrUrl (.pairs [([99], .one (.str [51]))]) = .ok v ∧
      queryPairs v = [([], [49]), ([98], [50]), ([99], [51])] ∧
      mdUpdate (queryPairs surrUrl) [([99], [51])] = [([0xD800], [49]), ([98], [50]), ([99], [51])]) ∧
    (∃ v, withoutQueryParams e surrUrl [[98]] = .ok v ∧ queryPairs v = [([], [49])] ∧
      (queryPairs surrUrl).filter (fun p => ![[98]].contains p.1) = [([0xD800], [49])]) := by
  have h0 : preEncodedUrl e [63, 0xD800, 61, 49, 38, 98, 61, 50] = .ok surrUrl := by
    have : ∀ o : Oracles, splitUrl o [63, 0xD800, 61, 49, 38, 98, 61, 50] =
        .ok { scheme := [], netloc := [], path := [], query := [0xD800, 61, 49, 38, 98, 61, 50], fragment := [] } := by
      intro o; rfl
    unfold preEncodedUrl
    rw [this]; rfl
  obtain ⟨h1, h2⟩ := C12_url_update_query_needs_good_old e
  exact ⟨h0, ReachE.ctorEnc _ _ (by decide) h0, by decide, h1, h2, C12_url_without_query_params_needs_good_old e⟩

/-! ## non-vacuity -/

section witnesses
private def e0 : Env := ⟨.py, Oracles.empty⟩

/-- a `ReachE` URL that really comes from `encoded=True`, with a NON-canonical stored query (raw space, lower-case
    escape, non-ASCII text) but no lone surrogate: the hypotheses of the theorems above hold, and
    `update_query({"b": "2"})` is the multidict update of the pairs read from the stored text -/
theorem C12_reachE_instance :
    let u := fromParts [] [] "/p".toStr ("a=x y&k=%c3%a9&z=".toStr ++ [233]) []
    preEncodedUrl e0 ("/p?a=x y&k=%c3%a9&z=".toStr ++ [233]) = .ok u ∧
    ReachEX NoSurrogate (fun _ => True) (fun _ => True) e0 u ∧ ReachE e0 u ∧ NoSurrogate u.query ∧
    queryPairs u = [("a".toStr, "x y".toStr), ("k".toStr, [233]), ("z".toStr, [233])] ∧
    ∃ v, updateQuery e0 u (.pairs [("a".toStr, .one (.str "2".toStr))]) = .ok v ∧
      queryPairs v = [("a".toStr, "2".toStr), ("k".toStr, [233]), ("z".toStr, [233])] := by
  intro u
  have h0 : preEncodedUrl e0 ("/p?a=x y&k=%c3%a9&z=".toStr ++ [233]) = .ok u := by decide +kernel
  have hx : ReachEX NoSurrogate (fun _ => True) (fun _ => True) e0 u := ReachEX.ctorEnc _ _ (by decide) (by decide) h0
  have hq : NoSurrogate u.query := by decide
  have hp : queryPairs u = [("a".toStr, "x y".toStr), ("k".toStr, [233]), ("z".toStr, [233])] := by decide +kernel
  refine ⟨h0, hx, hx.toReachE, hq, hp, ?_⟩
  obtain ⟨v, hv, hv2⟩ := ((C12_reachE_update_is_multidict_update e0 u hx.toReachE hq
    [("a".toStr, .one (.str "2".toStr))] [("a".toStr, "2".toStr)] []).1 (by decide) (by decide +kernel) (by decide)
    (by decide)).1
  refine ⟨v, hv, ?_⟩
  rw [hv2, hp]
  decide +kernel

end witnesses

end Yarl
