/-
  C02QueryStr.lean — properties C02 (auto-encoding preserves decoded values and delimiter status) and C12 (query
  algebra) for the STRING-argument forms of the query modifiers.

  Observed on the real library (and reproduced by the model, last section):
     with_query("a=1%2B2")     stores  a=1%252B2      the string is TEXT: '%' is data; '+' '&' '=' ';' stay literal
     extend_query("a=1%2B2")   appends a=1%252B2      (same)
     update_query("a=1%2B2")   stores  a=1%2B2        the string is PARSED (parse_qsl), every key / value re-quoted
     update_query("s=a%3Bb;c") stores  s=a%3Bb%3Bc    ';' is no separator; a literal ';' / '=' in a value gets encoded
     update_query("bad=%FF")   stores  bad=%EF%BF%BD  errors='replace' (F-C02-query-replace / F-C06-query-replace)
     update_query on ?a=%FF    rewrites that OLD pair too.

  (3) the '%' operator: the model has NO separate operation — Python's `URL.__mod__` is the one line
      `return self.update_query(query)`; the dynamic entry point is `dynUpdateQuery` (C12_qstr_mod_is_update_query).
-/
import YarlModel
import YarlProofs.C02More
import YarlProofs.C12More
import YarlProofs.C12Spec
set_option linter.unusedVariables false
set_option linter.unusedSimpArgs false
namespace Yarl
open QsLemmas MdLemmas QueryUrl WfLemmas TokLemmas QsMore MeanMore QsSpec OutLangLemmas PathAlg PathLemmas

namespace R15

theorem qq_mem : Gen.QUERY_QUOTER ∈ Gen.allQuoters := by decide

theorem qq_nil (b : Backend) : Gen.QUERY_QUOTER.run b [] = [] := by cases b <;> decide +kernel

theorem getStr (b : Backend) (s : Str) : getStrQuery b (.str s) = .ok (some (Gen.QUERY_QUOTER.run b s)) := by
  cases s with
  | nil => simp only [getStrQuery, List.isEmpty_nil, if_true, qq_nil]
  | cons c r => simp [getStrQuery]

/-- a non-empty string without lone surrogates never quotes to "" -/
theorem qq_ne_nil (b : Backend) (s : Str) (hs : GoodText s) (hne : s ≠ []) : Gen.QUERY_QUOTER.run b s ≠ [] := by
  intro h
  have := C02_gen_decode_QUERY_QUOTER b s hs.1
  rw [h, pctDecodeQs_nil] at this
  cases s with
  | nil => exact hne rfl
  | cons c r =>
    have hc := utf8_length_pos (p2s c) (pts_pyStr hs.1 _ (by simp [plusToSpace, p2s]))
      (pts_noSurr hs.2 _ (by simp [plusToSpace, p2s]))
    have h2 : utf8s (plusToSpace (c :: r)) = utf8 (p2s c) ++ utf8s (plusToSpace r) := by
      simp [plusToSpace, utf8s, p2s]
    rw [h2] at this
    cases hu : utf8 (p2s c) with
    | nil => rw [hu] at hc; simp at hc
    | cons y ys => rw [hu] at this; simp at this

end R15
open R15

/-! ## 1. `with_query(str)` / `extend_query(str)`: the string is TEXT -/

/-- the exact stored text of `with_query(<str>)` — for EVERY string: the query is `QUERY_QUOTER(s)`; nothing else moves -/
theorem C02_qstr_with_query_stored (e : Env) (u : Url) (s : Str) :
    withQuery e u (.str s) = .ok (fromParts u.scheme u.netloc u.path (q e Gen.QUERY_QUOTER s) u.fragment) :=
  withQuery_of e u _ _ (getStr e.b s)

/-- the exact stored text of `extend_query(<str>)` — for EVERY string: nothing happens when the string quotes to "";
    otherwise the quoted string is appended to the old query, after an "&" unless the old query is empty or already ends
    in "&" -/
theorem C02_qstr_extend_query_stored (e : Env) (u : Url) (s : Str) :
    extendQuery e u (.str s) = .ok
      (if q e Gen.QUERY_QUOTER s = [] then u
       else fromParts u.scheme u.netloc u.path
        (if u.query = [] then q e Gen.QUERY_QUOTER s
         else if u.query.getLast? = some 38 then u.query ++ q e Gen.QUERY_QUOTER s
         else u.query ++ [38] ++ q e Gen.QUERY_QUOTER s) u.fragment) := by
  by_cases h0 : q e Gen.QUERY_QUOTER s = []
  · rw [if_pos h0]
    unfold extendQuery
    rw [getStr e.b s]
    have : Gen.QUERY_QUOTER.run e.b s = [] := h0
    rw [this]
    rfl
  · rw [if_neg h0, extendQuery_of e u _ _ (getStr e.b s) h0]
    by_cases hq : u.query = []
    · simp [hq, q]
    · have : u.query.isEmpty = false := by cases hu : u.query <;> simp_all
      simp [hq, this, q]

/-- … in the usual case (old query non-empty and not ending in '&', a non-empty string without lone surrogates):
    old ++ "&" ++ QUERY_QUOTER(s) -/
theorem C02_qstr_extend_query_stored_amp (e : Env) (u : Url) (s : Str) (hs : GoodText s) (hne : s ≠ [])
    (hq : u.query ≠ []) (hl : u.query.getLast? ≠ some 38) :
    extendQuery e u (.str s) = .ok
      (fromParts u.scheme u.netloc u.path (u.query ++ [38] ++ q e Gen.QUERY_QUOTER s) u.fragment) := by
  have h0 : q e Gen.QUERY_QUOTER s ≠ [] := qq_ne_nil e.b s hs hne
  rw [C02_qstr_extend_query_stored, if_neg h0, if_neg hq, if_neg hl]

/-- C02 for `with_query(<str>)` in FORM-decoding terms, for every Python string (lone surrogates: they contribute no byte on
    either side): the stored query has exactly as many '&'-pieces as the supplied TEXT, and piece by piece — split at the
    first '=' — the form-decoded key, "has an '='", and the form-decoded value of the stored piece are the UTF-8 bytes of
    the key text, "has an '='", the UTF-8 bytes of the value text of the supplied piece, a supplied '+' read as a space.
    There is NO percent-decoding of the supplied text ('%' is data: the right-hand sides are `utf8s`, not `pctDecode`). -/
theorem C02_qstr_with_query_form_decoding (e : Env) (u : Url) (s : Str) (hs : PyStr s) :
    ∃ v, withQuery e u (.str s) = .ok v ∧ v.query = q e Gen.QUERY_QUOTER s ∧
      (splitOn 38 v.query).length = (splitOn 38 s).length ∧
      (splitOn 38 v.query).map (fun P =>
          (pctDecodeQs (partition 61 P).1, (partition 61 P).2.1, pctDecodeQs (partition 61 P).2.2)) =
        (splitOn 38 s).map (fun T =>
          (utf8s (plusToSpace (partition 61 T).1), (partition 61 T).2.1, utf8s (plusToSpace (partition 61 T).2.2))) ∧
      pctDecodeQs v.query = utf8s (plusToSpace s) := by
  obtain ⟨f1, f2, f3⟩ := qq_facts e.b s hs
  refine ⟨_, C02_qstr_with_query_stored e u s, rfl, ?_, f2, f3⟩
  show (splitOn 38 (Gen.QUERY_QUOTER.run e.b s)).length = _
  rw [f1]; simp

/-- … the same for `extend_query(<str>)`: the OLD '&'-pieces are kept byte for byte (`stripTrail`: without the empty piece
    after a trailing '&'), followed by one piece per '&'-piece of the supplied TEXT with exactly its bytes -/
theorem C02_qstr_extend_query_form_decoding (e : Env) (u : Url) (s : Str) (hs : GoodText s) (hne : s ≠ []) :
    ∃ v, extendQuery e u (.str s) = .ok v ∧
      splitOn 38 v.query = stripTrail (splitOn 38 u.query) ++ (splitOn 38 s).map (q e Gen.QUERY_QUOTER) ∧
      ((splitOn 38 s).map (q e Gen.QUERY_QUOTER)).map (fun P =>
          (pctDecodeQs (partition 61 P).1, (partition 61 P).2.1, pctDecodeQs (partition 61 P).2.2)) =
        (splitOn 38 s).map (fun T =>
          (utf8s (plusToSpace (partition 61 T).1), (partition 61 T).2.1, utf8s (plusToSpace (partition 61 T).2.2))) ∧
      v.scheme = u.scheme ∧ v.netloc = u.netloc ∧ v.path = u.path ∧ v.fragment = u.fragment := by
  obtain ⟨v, h1, _, h3, h4⟩ := C02_extend_query_string e u s hs.1
  obtain ⟨h5, h6⟩ := h3 (qq_ne_nil e.b s hs hne)
  exact ⟨v, h1, h5, h6, h4⟩

/-- … and through the library's own reader: the pairs of the result are the LITERAL pairs of the text (`parseQslLit`,
    C12More.lean: split at '&', drop empty pieces, split at the first '=', '+' → ' ', no percent-decoding).
    Cites C12_with_query_str_pairs / C12_extend_query_str_pairs. -/
theorem C12_qstr_with_extend_pairs (e : Env) (u : Url) (s : Str) (hs : GoodText s) :
    (∃ v, withQuery e u (.str s) = .ok v ∧ queryPairs v = parseQslLit s) ∧
    (∃ v, extendQuery e u (.str s) = .ok v ∧ queryPairs v = queryPairs u ++ parseQslLit s) := by
  obtain ⟨v, h1, h2, _⟩ := C12_with_query_str_pairs e u s hs
  exact ⟨⟨v, h1, h2⟩, C12_extend_query_str_pairs e u s hs⟩

/-- "literal '&', '=', ';' stay literal" for the TEXT forms: cutting the stored text at any of the three commutes with
    the quoter — the stored text has a literal delimiter exactly where the supplied text has one -/
theorem C02_qstr_literal_delims_split (b : Backend) (s : Str) (hs : PyStr s) (d : Nat)
    (hd : d = 38 ∨ d = 61 ∨ d = 59) :
    splitOn d (Gen.QUERY_QUOTER.run b s) = (splitOn d s).map (Gen.QUERY_QUOTER.run b) := by
  rcases hd with rfl | rfl | rfl
  · exact gen_split _ qq_mem b 38 (by cases b <;> decide) (by decide) (fun _ => by decide) (by decide) s hs
  · exact gen_split _ qq_mem b 61 (by cases b <;> decide) (by decide) (fun _ => by decide) (by decide) s hs
  · exact gen_split _ qq_mem b 59 (by cases b <;> decide) (by decide) (fun _ => by decide) (by decide) s hs

/-- "literal '&', '=', ';', '+' stay literal", POSITIONAL form: token by token (`btoks`: one token per stored byte, an
    escape %XY being one token) the stored text has the literal delimiter `d` exactly where the UTF-8 bytes of the
    supplied text have the byte `d` — for '+' : where they have '+' or a space (a supplied space is stored as '+';
    both mean a space) — and NO escape of a delimiter (%26 %3D %3B %2B) is ever written: a supplied "%26" is the data
    '%', '2', '6' and is stored "%2526". -/
theorem C02_qstr_literal_delims_positions (b : Backend) (s : Str) (hs : PyStr s) :
    (∀ d, d = 38 ∨ d = 61 ∨ d = 59 →
      (btoks (Gen.QUERY_QUOTER.run b s)).map (fun k => decide (k = .lit d)) = (utf8s s).map (fun x => decide (x = d))) ∧
    (btoks (Gen.QUERY_QUOTER.run b s)).map (fun k => decide (k = .lit 43)) =
      (utf8s s).map (fun x => decide (x = 43 ∨ x = 32)) ∧
    (∀ d, d = 38 ∨ d = 61 ∨ d = 59 ∨ d = 43 → BTok.esc d ∉ btoks (Gen.QUERY_QUOTER.run b s)) ∧
    (btoks (Gen.QUERY_QUOTER.run b s)).length = (utf8s s).length := by
  have hall := C02_tokens_nr_gen b Gen.QUERY_QUOTER qq_mem rfl s hs
  have hsafe : ∀ d, d = 38 ∨ d = 61 ∨ d = 59 ∨ d = 43 → (Gen.QUERY_QUOTER.tab b).safe d = true ∧ d < 128 ∧ d ≠ 32 := by
    intro d hd
    rcases hd with rfl | rfl | rfl | rfl <;> (cases b <;> decide)
  have hqs : (Gen.QUERY_QUOTER.tab b).qs = true := by cases b <;> rfl
  refine ⟨?_, ?_, ?_, ?_⟩
  · intro d hd
    have hd' := hsafe d (by rcases hd with h | h | h <;> simp [h])
    have hd43 : d ≠ 43 := by rcases hd with h | h | h <;> simp [h]
    have := hall.map_eq (fun k => decide (k = .lit d)) (fun k => decide (k = .lit d)) (fun x y hr => by
      cases x with
      | esc _ => exact absurd hr (by simp [TokRelNR])
      | lit x =>
        cases y with
        | lit y =>
          simp only [TokRelNR] at hr
          rcases hr with ⟨rfl, _⟩ | ⟨_, rfl, rfl⟩
          · rfl
          · simp only [BTok.lit.injEq, decide_eq_decide]
            constructor
            · intro h; exact absurd h.symm hd'.2.2
            · intro h; exact absurd h.symm hd43
        | esc y =>
          simp only [TokRelNR] at hr
          obtain ⟨rfl, h1, h2⟩ := hr
          simp only [BTok.lit.injEq, reduceCtorEq, decide_false, decide_eq_false_iff_not]
          intro h; subst h; exact h1 ⟨hd'.2.1, hd'.1⟩)
    rw [← this, List.map_map]
    apply List.map_congr_left
    intro x _
    simp
  · have := hall.map_eq (fun k => decide (k = .lit 43 ∨ k = .lit 32)) (fun k => decide (k = .lit 43)) (fun x y hr => by
      have h43 := hsafe 43 (by simp)
      cases x with
      | esc _ => exact absurd hr (by simp [TokRelNR])
      | lit x =>
        cases y with
        | lit y =>
          simp only [TokRelNR] at hr
          rcases hr with ⟨rfl, _, _, h4⟩ | ⟨_, rfl, rfl⟩
          · simp only [BTok.lit.injEq, decide_eq_decide]
            constructor
            · rintro (h | h)
              · exact h
              · exact absurd ⟨hqs, h⟩ h4
            · intro h; exact Or.inl h
          · simp
        | esc y =>
          simp only [TokRelNR] at hr
          obtain ⟨rfl, h1, h2⟩ := hr
          simp only [BTok.lit.injEq, reduceCtorEq, decide_false, decide_eq_false_iff_not, not_or]
          constructor
          · intro h; subst h; exact h1 ⟨h43.2.1, h43.1⟩
          · intro h; exact h2 ⟨hqs, h⟩)
    rw [← this, List.map_map]
    apply List.map_congr_left
    intro x _
    simp
  · intro d hd hm
    have hd' := hsafe d hd
    have key : ∀ (l₁ l₂ : List BTok), All2 (TokRelNR (Gen.QUERY_QUOTER.tab b)) l₁ l₂ →
        (∀ k ∈ l₁, ∃ x, k = .lit x) → BTok.esc d ∉ l₂ := by
      intro l₁ l₂ h
      induction h with
      | nil => intro _ h; simp at h
      | @cons x y xs ys hr _ ih =>
        intro hl hm
        rcases List.mem_cons.mp hm with h | h
        · obtain ⟨x', rfl⟩ := hl x (by simp)
          subst h
          simp only [TokRelNR] at hr
          obtain ⟨rfl, h1, _⟩ := hr
          exact h1 ⟨hd'.2.1, hd'.1⟩
        · exact ih (fun k hk => hl k (by simp [hk])) h
    exact key _ _ hall (fun k hk => by
      obtain ⟨x, _, rfl⟩ := List.mem_map.mp hk
      exact ⟨x, rfl⟩) hm
  · have := hall.length_eq
    simpa using this.symm

/-! ## 2. `update_query(str)`: the string is PARSED (`parse_qsl`), then every key and value is re-quoted -/

namespace R15

/-- the non-empty '&'-pieces of a string — the pieces `parse_qsl` turns into pairs -/
def pieces (s : Str) : List Str := (splitOn 38 s).filter (fun p => p ≠ [])

/-- key text / value text of a piece: before / after its first '=' (value "" without '=') -/
def keyText (p : Str) : Str := (partition 61 p).1
def valText (p : Str) : Str := (partition 61 p).2.2

/-- `bs` is well-formed UTF-8: the encoding of a Python string without lone surrogates -/
def ValidUtf8 (bs : List Nat) : Prop := ∃ t : Str, GoodText t ∧ utf8s t = bs

/-- every escape of the key and of the value of every piece of `s` decodes: the form-decoded bytes are well-formed UTF-8 -/
def EscapesValid (s : Str) : Prop :=
  ∀ p ∈ pieces s, ValidUtf8 (pctDecodeQs (keyText p)) ∧ ValidUtf8 (pctDecodeQs (valText p))

theorem partition_not_mem (c : Nat) (p : Str) (h : c ∉ p) : partition c p = (p, false, []) := by
  induction p with
  | nil => rfl
  | cons x xs ih =>
    have hx : x ≠ c := fun e => h (by simp [e])
    have hxs : c ∉ xs := fun e => h (by simp [e])
    simp [partition, hx, ih hxs]

theorem formDecode_good (x : Str) : GoodText (formDecode x) :=
  (goodText_iff _).mpr (dr_good _ _)

end R15

/-- what `parse_qsl` makes of a string without lone surrogates: one pair per NON-EMPTY '&'-piece (';' is not a
    separator), split at the FIRST '=', key and value form-decoded ('+' → space, %XY → byte, then UTF-8 with U+FFFD for
    every undecodable part).  From C06_query_accessor_spec (C12More.lean), with `partition` for the split. -/
theorem C12_qstr_parse_pieces (s : Str) (hs : GoodText s) :
    parseQsl s = (pieces s).map (fun p => (formDecode (keyText p), formDecode (valText p))) := by
  rw [parseQsl_eq_qslWith, qslWith_congr _ formDecode s hs (fun x hx => stdUnquote_pts x hx.1 hx.2)]
  unfold qslWith pieces
  rw [filterMap_nonempty (fun p => (formDecode (splitFirstEq p).1, formDecode ((splitFirstEq p).2.getD [])))]
  apply List.map_congr_left
  intro p _
  unfold splitFirstEq keyText valText
  by_cases h61 : 61 ∈ p
  · have : (partition 61 p).2.1 = true := by rw [ParseLemmas.partition_eq]; simp [h61]
    simp [this]
  · rw [partition_not_mem 61 p h61]; rfl

/-- the exact hypothesis under which form-decoding loses nothing: the UTF-8 bytes of the decoded text are the
    form-decoded bytes of `x` IF AND ONLY IF those bytes are well-formed UTF-8 -/
theorem C02_qstr_formDecode_exact_iff (x : Str) :
    utf8s (formDecode x) = pctDecodeQs x ↔ ValidUtf8 (pctDecodeQs x) := by
  constructor
  · intro h; exact ⟨formDecode x, formDecode_good x, h⟩
  · rintro ⟨t, ht, h⟩
    unfold formDecode
    rw [← h, decodeReplace_utf8s t ht.1 ht.2]

/-- the exact result of `update_query(<non-empty str>)`: the stored query is one "&"-joined piece
    `QUERY_PART_QUOTER(key) = QUERY_PART_QUOTER(value)` per pair of `MultiDict(old pairs).update(parse_qsl(s))`
    (`mdUpdate`, property C12: C12Url.lean / C12More.lean / C12Spec.lean) — NO hypothesis for the stored text; the result
    reads back as exactly those pairs when the old pairs and the string have no lone surrogates. -/
theorem C12_qstr_update_query_exact (e : Env) (u : Url) (s : Str) (hne : s ≠ []) :
    ∃ v, updateQuery e u (.str s) = .ok v ∧
      v.query = joinC 38 ((mdUpdate (queryPairs u) (parseQsl s)).map
        (fun p => q e Gen.QUERY_PART_QUOTER p.1 ++ [61] ++ q e Gen.QUERY_PART_QUOTER p.2)) ∧
      (GoodText s → GoodPairs (queryPairs u) → queryPairs v = mdUpdate (queryPairs u) (parseQsl s)) ∧
      v.scheme = u.scheme ∧ v.netloc = u.netloc ∧ v.path = u.path ∧ v.fragment = u.fragment := by
  obtain ⟨hs2, h2⟩ := expand_mdUpdate (queryPairs u) (parseQsl s) (strItems (parseQsl s))
    (singleValued_strItems _) (expandItems_strItems _)
  rw [C12_update_query_str e u s hne, iter_render e.b _ _ hs2 h2]
  refine ⟨_, rfl, rfl, ?_, rfl, rfl, rfl, rfl⟩
  intro hs hgu
  exact parse_qtext e.b _ (mdUpdate_good _ _ hgu (parseQsl_good s hs))

/-- `update_query("")` changes nothing -/
theorem C12_qstr_update_query_empty (e : Env) (u : Url) :
    updateQuery e u (.str []) = .ok (fromParts u.scheme u.netloc u.path u.query u.fragment) := rfl

/-- the pairs `update_query(<str>)` adds, against the supplied TEXT: as many as the string has non-empty '&'-pieces, and —
    when every escape decodes (`EscapesValid`) — key by key and value by value with exactly the form-decoded bytes of the
    piece's key text / value text.  (Escapes ARE escapes here and '+' is a space; compare `C02_qstr_with_query_form_decoding`,
    where '%' is data.) -/
theorem C02_qstr_parse_bytes (s : Str) (hs : GoodText s) :
    (parseQsl s).length = (pieces s).length ∧
    (EscapesValid s →
      (parseQsl s).map (fun p => (utf8s p.1, utf8s p.2)) =
        (pieces s).map (fun p => (pctDecodeQs (keyText p), pctDecodeQs (valText p)))) := by
  rw [C12_qstr_parse_pieces s hs]
  refine ⟨by simp, ?_⟩
  intro hv
  rw [List.map_map]
  apply List.map_congr_left
  intro p hp
  obtain ⟨h1, h2⟩ := hv p hp
  simp only [Function.comp, (C02_qstr_formDecode_exact_iff _).mpr h1, (C02_qstr_formDecode_exact_iff _).mpr h2]

/-- … and the hypothesis is EXACT: the bytes agree for every piece iff every escape decodes -/
theorem C02_qstr_parse_bytes_iff (s : Str) (hs : GoodText s) :
    (parseQsl s).map (fun p => (utf8s p.1, utf8s p.2)) =
        (pieces s).map (fun p => (pctDecodeQs (keyText p), pctDecodeQs (valText p))) ↔ EscapesValid s := by
  refine ⟨?_, (C02_qstr_parse_bytes s hs).2⟩
  rw [C12_qstr_parse_pieces s hs, List.map_map]
  intro h p hp
  have := List.map_inj_left.mp h p hp
  simp only [Function.comp, Prod.mk.injEq] at this
  exact ⟨(C02_qstr_formDecode_exact_iff _).mp this.1, (C02_qstr_formDecode_exact_iff _).mp this.2⟩

/-- C02 for `update_query(<str>)`, the half that HOLDS — decoded values and pair boundaries are preserved.
    With `R` = `MultiDict(old pairs).update(parse_qsl(s))`:
    * the stored query has exactly one '&'-piece per pair of `R`, and that piece is
      `QUERY_PART_QUOTER(key) = QUERY_PART_QUOTER(value)` — the stored value TEXT is the re-quoted DECODED value;
    * split at its first '=', each stored piece form-decodes to exactly (UTF-8 bytes of the key, has '=', UTF-8 bytes of the
      value) of its pair;
    * every pair of `parse_qsl(s)` is in `R`, every other pair of `R` is an old pair;
    * `parse_qsl(s)` has one pair per non-empty '&'-piece of `s`, with the form-decoded bytes of that piece's key / value
      text when every escape decodes (the exact condition: `C02_qstr_parse_bytes_iff`; otherwise
      `C02_qstr_update_undecodable_*`).
    Hypotheses: no lone surrogates in `s` and in the old pairs (the old pairs are re-rendered; true of every reachable URL,
    C12_constructor_goodpairs); `parse_qsl(s)` non-empty.  Cites C02_update_query_string (C02More.lean). -/
theorem C02_qstr_update_preserves_values (e : Env) (u : Url) (s : Str) (hs : GoodText s)
    (hgu : GoodPairs (queryPairs u)) (hne : parseQsl s ≠ []) :
    ∃ v, updateQuery e u (.str s) = .ok v ∧
      let R := mdUpdate (queryPairs u) (parseQsl s)
      splitOn 38 v.query =
        R.map (fun p => q e Gen.QUERY_PART_QUOTER p.1 ++ [61] ++ q e Gen.QUERY_PART_QUOTER p.2) ∧
      (splitOn 38 v.query).length = R.length ∧
      (splitOn 38 v.query).map (fun P =>
          (pctDecodeQs (partition 61 P).1, (partition 61 P).2.1, pctDecodeQs (partition 61 P).2.2)) =
        R.map (fun p => (utf8s p.1, true, utf8s p.2)) ∧
      queryPairs v = R ∧
      (∀ p ∈ parseQsl s, p ∈ R) ∧ (∀ p ∈ R, p ∈ queryPairs u ∨ p ∈ parseQsl s) ∧
      (parseQsl s).length = (pieces s).length ∧
      (EscapesValid s →
        (parseQsl s).map (fun p => (utf8s p.1, utf8s p.2)) =
          (pieces s).map (fun p => (pctDecodeQs (keyText p), pctDecodeQs (valText p)))) ∧
      v.scheme = u.scheme ∧ v.netloc = u.netloc ∧ v.path = u.path ∧ v.fragment = u.fragment := by
  obtain ⟨v, h1, h2, ⟨h3, h4, h5⟩, h6, h7, h8⟩ := C02_update_query_string e u s hs hgu hne
  have hs0 : s ≠ [] := by rintro rfl; exact hne rfl
  obtain ⟨v', h1', _, hp, _⟩ := C12_qstr_update_query_exact e u s hs0
  have hv : v' = v := by rw [h1] at h1'; injection h1' with h; exact h.symm
  subst hv
  obtain ⟨b1, b2⟩ := C02_qstr_parse_bytes s hs
  exact ⟨v', h1, h3, h4, h5, hp hs hgu, h6, h7, b1, b2, h8⟩

/-- C02 for `update_query(<str>)`, the half that FAILS in general form: whatever the string, NO literal ';' is stored and
    every stored '&'-piece has EXACTLY ONE literal '=' — so a literal ';' of the supplied string, and every literal '='
    after the first one of a piece, is stored ENCODED (%3B / %3D), and a piece without '=' GAINS one. -/
theorem C02_qstr_update_delims_reencoded (e : Env) (u : Url) (s : Str) (hs : GoodText s)
    (hgu : GoodPairs (queryPairs u)) (hne : parseQsl s ≠ []) :
    ∃ v, updateQuery e u (.str s) = .ok v ∧
      59 ∉ v.query ∧ (∀ P ∈ splitOn 38 v.query, P.count 61 = 1 ∧ 38 ∉ P) := by
  obtain ⟨v, h1, h3, _, _, h5, _⟩ := C02_qstr_update_preserves_values e u s hs hgu hne
  have hRg := mdUpdate_good _ _ hgu (parseQsl_good s hs)
  have hpieces : ∀ P ∈ splitOn 38 v.query, P.count 61 = 1 ∧ 38 ∉ P ∧ 59 ∉ P := by
    intro P hP
    rw [h3] at hP
    obtain ⟨p, hp, rfl⟩ := List.mem_map.mp hP
    obtain ⟨a1, a2, a3⟩ := qpq_no_delims e.b p.1 (hRg p hp).1.1
    obtain ⟨c1, c2, c3⟩ := qpq_no_delims e.b p.2 (hRg p hp).2.1
    refine ⟨?_, ?_, ?_⟩
    · simp only [q, List.count_append, List.count_eq_zero.mpr a2, List.count_eq_zero.mpr c2]
      rfl
    · simp only [q, List.mem_append, List.mem_singleton]
      rintro ((h | h) | h)
      · exact a1 h
      · exact absurd h (by decide)
      · exact c1 h
    · simp only [q, List.mem_append, List.mem_singleton]
      rintro ((h | h) | h)
      · exact a3 h
      · exact absurd h (by decide)
      · exact c3 h
  refine ⟨v, h1, ?_, fun P hP => ⟨(hpieces P hP).1, (hpieces P hP).2.1⟩⟩
  intro hm
  rw [← HostLemmas.joinC_splitOn 38 v.query] at hm
  rcases HostLemmas.mem_joinC hm with h | ⟨P, hP, h⟩
  · exact absurd h (by decide)
  · exact (hpieces P hP).2.2 h

/-! ### the other case: an escape that is NOT valid UTF-8 (F-C02-query-replace / F-C06-query-replace) -/

/-- byte level, the exact counter-statement: a byte that occurs in NO well-formed UTF-8 sequence (C0, C1, F5..FF — e.g.
    the FF of "%FF") decodes to ONE U+FFFD, whatever surrounds it (the bytes before it — well-formed or not — and after it
    are decoded as if it were not there) … -/
theorem C02_qstr_update_undecodable_byte (a r : List Nat) (b0 : Nat)
    (hb : (0xC0 ≤ b0 ∧ b0 < 0xC2) ∨ 0xF5 ≤ b0) :
    decodeReplace (a ++ b0 :: r) = decodeReplace a ++ 0xFFFD :: decodeReplace r := by
  have hc : isCont b0 = false := by
    unfold isCont
    rcases hb with h | h <;> simp <;> omega
  rw [dr_append a (b0 :: r) (fun b r' h => by cases h; exact hc)]
  congr 1
  show decodeReplaceAux (r.length + 1 + 1) (b0 :: r) = 0xFFFD :: decodeReplaceAux (r.length + 1) r
  rcases hb with h | h
  · have h1 : ¬ b0 < 0x80 := by omega
    have h2 : b0 < 0xC2 := h.2
    simp only [decodeReplaceAux, h1, h2, if_false, if_true]
  · have h1 : ¬ b0 < 0x80 := by omega
    have h2 : ¬ b0 < 0xC2 := by omega
    have h3 : ¬ b0 < 0xE0 := by omega
    have h4 : ¬ b0 < 0xF0 := by omega
    have h5 : ¬ b0 < 0xF5 := by omega
    simp only [decodeReplaceAux, h1, h2, h3, h4, h5, if_false]

/-- … and U+FFFD is the bytes EF BF BD, stored "%EF%BF%BD" by the re-quoting step (both backends) -/
theorem C02_qstr_update_replacement_stored (b : Backend) :
    utf8 0xFFFD = [0xEF, 0xBF, 0xBD] ∧ Gen.QUERY_PART_QUOTER.run b [0xFFFD] = "%EF%BF%BD".toStr := by
  constructor
  · decide
  · cases b <;> decide +kernel

namespace R15
theorem pdq_plain (t r : Str) (h37 : 37 ∉ t) (h43 : 43 ∉ t) : pctDecodeQs (t ++ r) = utf8s t ++ pctDecodeQs r := by
  induction t with
  | nil => simp [utf8s]
  | cons c t ih =>
    have hc1 : c ≠ 37 := fun e => h37 (by simp [e])
    have hc2 : c ≠ 43 := fun e => h43 (by simp [e])
    rw [List.cons_append, pctDecodeQs_cons_ne hc1 hc2, ih (fun e => h37 (by simp [e])) (fun e => h43 (by simp [e])),
      QuoteEquiv.utf8s_cons, List.append_assoc]

theorem pdq_pct (x : Nat) (hx : x < 256) (r : Str) : pctDecodeQs (pct x ++ r) = x :: pctDecodeQs r := by
  rw [Readback.pct_append, pctDecodeQs_esc (Readback.takeEscape_toHex x hx r)]
end R15

/-- text level: a key or value text `t ++ "%XY" ++ y` (`t` without '%' and '+') whose escape is such a byte: the
    form-decoded BYTES contain XY, the decoded TEXT has U+FFFD there, whose bytes are EF BF BD — `update_query` stores
    the latter: the decoded value is NOT preserved. -/
theorem C02_qstr_update_undecodable_escape (t y : Str) (b0 : Nat) (ht : GoodText t) (h37 : 37 ∉ t) (h43 : 43 ∉ t)
    (hb : (0xC0 ≤ b0 ∧ b0 < 0xC2) ∨ (0xF5 ≤ b0 ∧ b0 < 256)) :
    pctDecodeQs (t ++ pct b0 ++ y) = utf8s t ++ b0 :: pctDecodeQs y ∧
    formDecode (t ++ pct b0 ++ y) = t ++ 0xFFFD :: formDecode y ∧
    utf8s (formDecode (t ++ pct b0 ++ y)) = utf8s t ++ [0xEF, 0xBF, 0xBD] ++ utf8s (formDecode y) ∧
    utf8s (formDecode (t ++ pct b0 ++ y)) ≠ pctDecodeQs (t ++ pct b0 ++ y) := by
  have hlt : b0 < 256 := by rcases hb with h | h <;> omega
  have hb' : (0xC0 ≤ b0 ∧ b0 < 0xC2) ∨ 0xF5 ≤ b0 := by rcases hb with h | h; exact Or.inl h; exact Or.inr h.1
  have e1 : pctDecodeQs (t ++ pct b0 ++ y) = utf8s t ++ b0 :: pctDecodeQs y := by
    rw [List.append_assoc, pdq_plain t _ h37 h43, pdq_pct b0 hlt]
  have e2 : formDecode (t ++ pct b0 ++ y) = t ++ 0xFFFD :: formDecode y := by
    unfold formDecode
    rw [e1, C02_qstr_update_undecodable_byte _ _ b0 hb', decodeReplace_utf8s t ht.1 ht.2]
  have e3 : utf8s (formDecode (t ++ pct b0 ++ y)) = utf8s t ++ [0xEF, 0xBF, 0xBD] ++ utf8s (formDecode y) := by
    rw [e2]
    have : utf8 0xFFFD = [0xEF, 0xBF, 0xBD] := by decide
    simp [utf8s, this]
  refine ⟨e1, e2, e3, ?_⟩
  rw [e3, e1, List.append_assoc]
  intro h
  have := List.append_cancel_left h
  simp only [List.cons_append, List.cons.injEq] at this
  omega

/-- … the same as the negative half of `C02_qstr_formDecode_exact_iff` -/
theorem C02_qstr_update_undecodable_not_valid (x : Str) (h : ¬ ValidUtf8 (pctDecodeQs x)) :
    utf8s (formDecode x) ≠ pctDecodeQs x := fun e => h ((C02_qstr_formDecode_exact_iff x).mp e)

/-! ### the six observed calls, both backends (the proofs run `cases e.b`) -/

namespace R15

theorem upd_eq (e : Env) (u : Url) (s : Str) (hne : s ≠ []) :
    updateQuery e u (.str s) = .ok (fromParts u.scheme u.netloc u.path
      (qtext e.b (mdUpdate (parseQsl u.query) (parseQsl s))) u.fragment) := by
  obtain ⟨hs2, h2⟩ := expand_mdUpdate (queryPairs u) (parseQsl s) (strItems (parseQsl s))
    (singleValued_strItems _) (expandItems_strItems _)
  rw [C12_update_query_str e u s hne, iter_render e.b _ _ hs2 h2]
  rfl

theorem upd_inst (e : Env) (u : Url) (s lit : Str) (hne : s ≠ [])
    (h : ∀ b, qtext b (mdUpdate (parseQsl u.query) (parseQsl s)) = lit) :
    updateQuery e u (.str s) = .ok (fromParts u.scheme u.netloc u.path lit u.fragment) := by
  rw [upd_eq e u s hne, h]

theorem with_inst (e : Env) (u : Url) (s lit : Str) (h : ∀ b, Gen.QUERY_QUOTER.run b s = lit) :
    withQuery e u (.str s) = .ok (fromParts u.scheme u.netloc u.path lit u.fragment) := by
  rw [C02_qstr_with_query_stored, q, h]

/-- the base URL of the examples: http://h/?<query> -/
def ex (query : String) : Url := fromParts "http".toStr "h".toStr "/".toStr query.toStr []

end R15

/-- `URL("http://h/").with_query("a=1%2B2")` is http://h/?a=1%252B2 and reads back ("a", "1%2B2") -/
theorem C02_qstr_instance_with_query (e : Env) :
    withQuery e (ex "") (.str "a=1%2B2".toStr) = .ok (ex "a=1%252B2") ∧
    queryPairs (ex "a=1%252B2") = [("a".toStr, "1%2B2".toStr)] :=
  ⟨with_inst e (ex "") _ _ (fun b => by cases b <;> decide +kernel), by decide +kernel⟩

/-- `URL("http://h/?x=0").extend_query("a=1%2B2")` is http://h/?x=0&a=1%252B2 -/
theorem C02_qstr_instance_extend_query (e : Env) :
    extendQuery e (ex "x=0") (.str "a=1%2B2".toStr) = .ok (ex "x=0&a=1%252B2") ∧
    queryPairs (ex "x=0&a=1%252B2") = [("x".toStr, "0".toStr), ("a".toStr, "1%2B2".toStr)] := by
  refine ⟨?_, by decide +kernel⟩
  rw [C02_qstr_extend_query_stored_amp e (ex "x=0") _ (by decide) (by decide) (by decide) (by decide)]
  have : ∀ b, Gen.QUERY_QUOTER.run b "a=1%2B2".toStr = "a=1%252B2".toStr := fun b => by cases b <;> decide +kernel
  rw [q, this]
  rfl

/-- `URL("http://h/").update_query("a=1%2B2")` is http://h/?a=1%2B2 and reads back ("a", "1+2") -/
theorem C02_qstr_instance_update_query (e : Env) :
    updateQuery e (ex "") (.str "a=1%2B2".toStr) = .ok (ex "a=1%2B2") ∧
    queryPairs (ex "a=1%2B2") = [("a".toStr, "1+2".toStr)] :=
  ⟨upd_inst e (ex "") _ _ (by decide) (fun b => by cases b <;> decide +kernel), by decide +kernel⟩

/-- `URL("http://h/").update_query("s=a%3Bb;c")` is http://h/?s=a%3Bb%3Bc: ';' is not a separator (ONE pair), the
    literal ';' comes out encoded; the value "a;b;c" is what both texts decode to -/
theorem C02_qstr_instance_update_query_semicolon (e : Env) :
    updateQuery e (ex "") (.str "s=a%3Bb;c".toStr) = .ok (ex "s=a%3Bb%3Bc") ∧
    parseQsl "s=a%3Bb;c".toStr = [("s".toStr, "a;b;c".toStr)] ∧
    queryPairs (ex "s=a%3Bb%3Bc") = [("s".toStr, "a;b;c".toStr)] :=
  ⟨upd_inst e (ex "") _ _ (by decide) (fun b => by cases b <;> decide +kernel), by decide +kernel, by decide +kernel⟩

/-- `URL("http://h/").update_query("bad=%FF")` is http://h/?bad=%EF%BF%BD (F-C02-query-replace): the supplied value
    decodes to the byte FF, the stored one to EF BF BD -/
theorem C02_qstr_instance_update_query_replace (e : Env) :
    updateQuery e (ex "") (.str "bad=%FF".toStr) = .ok (ex "bad=%EF%BF%BD") ∧
    pctDecodeQs "%FF".toStr = [0xFF] ∧ pctDecodeQs "%EF%BF%BD".toStr = [0xEF, 0xBF, 0xBD] ∧
    ¬ EscapesValid "bad=%FF".toStr := by
  refine ⟨upd_inst e (ex "") _ _ (by decide) (fun b => by cases b <;> decide +kernel), by decide +kernel,
    by decide +kernel, ?_⟩
  intro h
  have hp : "bad=%FF".toStr ∈ pieces "bad=%FF".toStr := by decide +kernel
  have h2 := (h _ hp).2
  have h3 : valText "bad=%FF".toStr = [] ++ pct 0xFF ++ [] := by decide +kernel
  rw [h3] at h2
  exact (C02_qstr_update_undecodable_escape [] [] 0xFF goodText_nil (by simp) (by simp) (by omega)).2.2.2
    ((C02_qstr_formDecode_exact_iff _).mpr h2)

/-- `URL("http://h/?a=%FF").update_query("b=1")` is http://h/?a=%EF%BF%BD&b=1: the OLD pair is rewritten too
    (every pair is re-rendered from its DECODED value) -/
theorem C02_qstr_instance_update_query_rewrites_old (e : Env) :
    updateQuery e (ex "a=%FF") (.str "b=1".toStr) = .ok (ex "a=%EF%BF%BD&b=1") ∧
    GoodPairs (queryPairs (ex "a=%FF")) :=
  ⟨upd_inst e (ex "a=%FF") _ _ (by decide) (fun b => by cases b <;> decide +kernel), by decide +kernel⟩

/-- C02 for `update_query(<str>)`, the half that FAILS — "literal delimiters stay literal" is FALSE for '=' and ';' inside
    a value (both backends), while the decoded values and the pairs are the same; `with_query` on the same strings keeps
    them literal:
    * `update_query("a=x=y")` stores "a=x%3Dy" (two literal '=' supplied, one stored; value "x=y" either way);
    * `update_query("s=a;b")` stores "s=a%3Bb" (the literal ';' is gone; value "a;b" either way);
    * `update_query("a")` stores "a=" (a literal '=' APPEARS: parse_qsl gives ("a", "")) — `with_query("a")` stores "a";
    * `update_query("a=1&&b=2")` stores "a=1&b=2" (the empty '&'-piece is dropped; the PAIRS are the same two).
    General form: `C02_qstr_update_delims_reencoded` (never a literal ';', exactly one literal '=' per stored piece). -/
theorem C02_qstr_update_literal_delims_fail (e : Env) :
    (updateQuery e (ex "") (.str "a=x=y".toStr) = .ok (ex "a=x%3Dy") ∧
      "a=x=y".toStr.count 61 = 2 ∧ "a=x%3Dy".toStr.count 61 = 1 ∧
      parseQsl "a=x=y".toStr = [("a".toStr, "x=y".toStr)] ∧ queryPairs (ex "a=x%3Dy") = [("a".toStr, "x=y".toStr)] ∧
      withQuery e (ex "") (.str "a=x=y".toStr) = .ok (ex "a=x=y")) ∧
    (updateQuery e (ex "") (.str "s=a;b".toStr) = .ok (ex "s=a%3Bb") ∧
      59 ∈ "s=a;b".toStr ∧ 59 ∉ "s=a%3Bb".toStr ∧
      parseQsl "s=a;b".toStr = [("s".toStr, "a;b".toStr)] ∧ queryPairs (ex "s=a%3Bb") = [("s".toStr, "a;b".toStr)] ∧
      withQuery e (ex "") (.str "s=a;b".toStr) = .ok (ex "s=a;b")) ∧
    (updateQuery e (ex "") (.str "a".toStr) = .ok (ex "a=") ∧
      withQuery e (ex "") (.str "a".toStr) = .ok (ex "a")) ∧
    (updateQuery e (ex "") (.str "a=1&&b=2".toStr) = .ok (ex "a=1&b=2") ∧
      withQuery e (ex "") (.str "a=1&&b=2".toStr) = .ok (ex "a=1&&b=2") ∧
      queryPairs (ex "a=1&b=2") = queryPairs (ex "a=1&&b=2")) := by
  refine ⟨⟨?_, by decide, by decide, by decide +kernel, by decide +kernel, ?_⟩,
    ⟨?_, by decide, by decide, by decide +kernel, by decide +kernel, ?_⟩, ⟨?_, ?_⟩, ⟨?_, ?_, by decide +kernel⟩⟩
  · exact upd_inst e (ex "") _ _ (by decide) (fun b => by cases b <;> decide +kernel)
  · exact with_inst e (ex "") _ _ (fun b => by cases b <;> decide +kernel)
  · exact upd_inst e (ex "") _ _ (by decide) (fun b => by cases b <;> decide +kernel)
  · exact with_inst e (ex "") _ _ (fun b => by cases b <;> decide +kernel)
  · exact upd_inst e (ex "") _ _ (by decide) (fun b => by cases b <;> decide +kernel)
  · exact with_inst e (ex "") _ _ (fun b => by cases b <;> decide +kernel)
  · exact upd_inst e (ex "") _ _ (by decide) (fun b => by cases b <;> decide +kernel)
  · exact with_inst e (ex "") _ _ (fun b => by cases b <;> decide +kernel)

/-! ### the query algebra (C12) for the string form -/

/-- C12 for `update_query(<str>)`: the argument's pairs are `parse_qsl(s)`; the result's pairs are
    `MultiDict(old).update(parse_qsl(s))`; every pair whose key does not occur in `parse_qsl(s)` is kept, in order; and
    the result is the SPECIFIED replacement (`mdUpdateSpec`, C12Spec.lean) exactly when the multidict stale-duplicate
    condition `StaleFree` holds (F-C12-multidict-tail otherwise).  Cites C12_url_update_query_str (C12Url.lean),
    C12_url_update_keeps_others_str (C12More.lean), C12_url_update_query_spec_str (C12Spec.lean). -/
theorem C12_qstr_update_query_algebra (e : Env) (u : Url) (s : Str) (hs : GoodText s)
    (hold : GoodPairs (queryPairs u)) (hne : s ≠ []) :
    ∃ v, updateQuery e u (.str s) = .ok v ∧
      queryPairs v = mdUpdate (queryPairs u) (parseQsl s) ∧
      (queryPairs v).filter (fun p => !(keysOf (parseQsl s)).contains p.1) =
        (queryPairs u).filter (fun p => !(keysOf (parseQsl s)).contains p.1) ∧
      (queryPairs v = mdUpdateSpec (queryPairs u) (parseQsl s) ↔ StaleFree (queryPairs u) (parseQsl s)) ∧
      (StaleFree (queryPairs u) (parseQsl s) →
        ∀ k ∈ keysOf (parseQsl s),
          (queryPairs v).filter (fun p => p.1 = k) = (parseQsl s).filter (fun p => p.1 = k)) := by
  obtain ⟨v, h1, h2⟩ := C12_url_update_query_str e u s hs hold hne
  obtain ⟨v1, g1, g2⟩ := C12_url_update_keeps_others_str e u s hs hold hne
  obtain ⟨v2, k1, k2, k3⟩ := C12_url_update_query_spec_str e u s hs hold hne
  have e1 : v1 = v := by rw [h1] at g1; injection g1 with h; exact h.symm
  have e2 : v2 = v := by rw [h1] at k1; injection k1 with h; exact h.symm
  subst e1; subst e2
  exact ⟨_, h1, h2, g2, k2, fun hsf => (k3 hsf).2.2⟩

/-- the three string forms side by side (C12): with_query REPLACES the pairs by the LITERAL pairs of the text, extend_query
    APPENDS them, update_query UPDATES with the PARSED pairs; the two readings of the text agree when it has no '%'
    (C12_parseQslLit_no_pct) -/
theorem C12_qstr_three_forms (e : Env) (u : Url) (s : Str) (hs : GoodText s) (hold : GoodPairs (queryPairs u))
    (hne : s ≠ []) :
    (∃ v, withQuery e u (.str s) = .ok v ∧ queryPairs v = parseQslLit s) ∧
    (∃ v, extendQuery e u (.str s) = .ok v ∧ queryPairs v = queryPairs u ++ parseQslLit s) ∧
    (∃ v, updateQuery e u (.str s) = .ok v ∧ queryPairs v = mdUpdate (queryPairs u) (parseQsl s)) ∧
    (37 ∉ s → parseQslLit s = parseQsl s) :=
  ⟨(C12_qstr_with_extend_pairs e u s hs).1, (C12_qstr_with_extend_pairs e u s hs).2,
   C12_url_update_query_str e u s hs hold hne, C12_parseQslLit_no_pct s⟩

/-! ## 3. the '%' operator

The model has no separate operation for `URL.__mod__`: in the library it is the single line
`return self.update_query(query)`, so `url % "a=1"` IS `url.update_query("a=1")`.  The untyped entry point the model has
for the positional form (`dynUpdateQuery`, YarlModel/Dyn.lean) is the typed `updateQuery` on a `str`: -/
theorem C12_qstr_mod_is_update_query (e : Env) (u : Url) (s : Str) :
    dynUpdateQuery e u (.str s) = updateQuery e u (.str s) ∧
    dynUpdateQuery e u (.strSub s) = updateQuery e u (.str s) := by
  cases s <;> exact ⟨rfl, rfl⟩

/-! ## non-vacuity -/

namespace R15
/-- "k%C3%A9=%E2%82%AC+x&a=1%2B2": valid escapes (é, €), a '+', an escaped '+' -/
def sampleStr : Str := "k%C3%A9=%E2%82%AC+x&a=1%2B2;z&&n".toStr
/-- text with non-ASCII characters, '%', '+', ';', a space -/
def sampleText : Str := "k%C3=1+2;3 4&&n".toStr ++ [233, 0x20AC, 0x1F600]
end R15

example : GoodText sampleStr ∧ sampleStr ≠ [] ∧ parseQsl sampleStr ≠ [] := by decide +kernel
example : GoodText sampleText ∧ sampleText ≠ [] := by decide +kernel
example : parseQsl sampleStr =
    [([107, 233], [0x20AC, 32, 120]), ("a".toStr, "1+2;z".toStr), ("n".toStr, [])] := by decide +kernel
example : parseQslLit sampleStr =
    [("k%C3%A9".toStr, "%E2%82%AC x".toStr), ("a".toStr, "1%2B2;z".toStr), ("n".toStr, [])] := by decide +kernel
example : pieces sampleStr = ["k%C3%A9=%E2%82%AC+x".toStr, "a=1%2B2;z".toStr, "n".toStr] := by decide +kernel
example : EscapesValid sampleStr :=
  (C02_qstr_parse_bytes_iff sampleStr (by decide +kernel)).mp (by decide +kernel)
example : GoodPairs (queryPairs (ex "a=%FF&b=x+y")) ∧ (ex "x=0").query ≠ [] ∧
    (ex "x=0").query.getLast? ≠ some 38 := by decide +kernel
example : StaleFree (queryPairs (ex "a=1&b=2")) (parseQsl sampleStr) :=
  C12_staleFree_of_nodup _ _ (by decide +kernel)
example : 59 ∈ sampleStr ∧ 37 ∉ "a=1&b=2".toStr := by decide +kernel
example : GoodText "k".toStr ∧ 37 ∉ "k".toStr ∧ 43 ∉ "k".toStr ∧ ((0xF5 : Nat) ≤ 0xFF ∧ 0xFF < 256) := by decide
example : ¬ ValidUtf8 (pctDecodeQs "%FF".toStr) := fun h =>
  (C02_qstr_update_undecodable_escape [] [] 0xFF goodText_nil (by simp) (by simp) (by omega)).2.2.2
    ((C02_qstr_formDecode_exact_iff _).mpr h)

end Yarl
