import YarlProofs.C06Headline
import YarlProofs.C06HeadlineMore
import YarlProofs.C06More2
import YarlProofs.C06Encoded
/-!
  C06HeadlineMore3.lean — AUDIT LAYER for property C06, third file (after C06Headline.lean and C06HeadlineMore.lean):
  headline theorems for the proof modules added after the last refresh, C06More2.lean (with its lemma library
  Lemmas/Readback2.lean) and C06Encoded.lean.  This file is a leaf, nobody imports it.  The GAPS block of
  C06Headline.lean cites the theorems of this file.

  C06 | Decoded views are faithful and supplied values read back unchanged |
  "Each decoded accessor (user, password, path, path_safe, parts, name, suffix, query, query_string, fragment) equals
  the UTF-8 percent-decoding of the corresponding raw component, with malformed or undecodable escapes kept verbatim,
  '+' meaning space only in queries, and path_safe keeping %2F and %25. Any text supplied as a decoded value through
  build(), with_user, with_password, with_path, with_name, with_fragment, with_query, / or joinpath reads back
  unchanged from the matching accessor (lone surrogates, and dot segments under an authority, excepted)."

  What is here (numbers = GAPS items of C06Headline.lean):
    * sentence 1a for `encoded=True` URLs (C06Encoded.lean): the decoded accessors of `URL(s, encoded=True)` and of
      `URL.build(…, encoded=True)` are the textbook decodings of the Appendix B components / of the arguments VERBATIM;
    * GAPS 3: `build(authority=A)` — user, password, raw_host / host, explicit_port / port; `build(query=<str>)`;
    * GAPS 4: `with_user("")`; `with_user` / `with_password` on a URL without authority;
    * GAPS 6: `joinpath(a₁, …, aₙ)` read back through `path`;
    * GAPS 9: the `/` / joinpath read-backs for REACHABLE URLs (`ReachC`) without side conditions on the old path;
    * GAPS 10: exactly when `URL.host` consults the IDNA decoder; `build(host=)` read-back without oracle hypothesis where
      it does not; the oracle hypothesis is needed where it does (with the library's real behaviour for "xn--" names).

  Vocabulary of the cited modules.  `np = split_netloc(A)` (`splitNetloc e.o A = .ok np`): `np.user` = the text before
  the first ':' of the userinfo (= the text before the LAST '@'), `None` when empty; `np.password` = the text after that
  ':' (`None` without ':'); `np.host` = the host text without brackets; `np.port` = the integer.
  `HostTextOK h0` (Lemmas/NetShape.lean) = `h0` is a supported ASCII host text: non-empty and either (no ':') a name /
  IPv4 text of visible ASCII characters without `/ ? # @ [ ] :`, or (with ':') an IPv6 literal with optional "%zone".
  `stripSurr s` = `s` without lone surrogates; `orNone x` = `x or None`; `q e a s` / `uq e a s` = the quoter /
  unquoter configuration `a` on the backend of `e`.  `strPort sc p` (C03Reach.lean) = `p`, or `None` when `p` is the
  default port of scheme `sc`; `defaultPort sc` = `DEFAULT_PORTS.get(sc)`; `lowerAny e s` = `s.lower()` (non-ASCII
  through an oracle); `unbracket r` = `r` without surrounding brackets; `bracket h` = `h` in brackets iff it has a ':'.
  `UserOK U` = the user, when given, is non-empty without ':'; `HostOK H` = non-empty, none of '@' '[' ']'.
  `Written qf u usr pw h port`, `pickleTwin`, `net`, `GoodAuthority`, `NetlocCanon`: see C06HeadlineMore.lean.
  `ReachC e u` (C03Reach.lean) = `u` is obtainable through the auto-encoding API: constructor on a Python string,
  `build(encoded=False)`, every modifier with Python-string arguments, `join`.  `PathMore.argSegs e true ps`,
  `stripTrail`, `rawParts`, `NoDots`, `dot`, `dotdot`: see C06Headline.lean.  `idnaDecode o raw` = the library's
  `_idna_decode(raw)`; `o.idnaDec` = the oracle table for the `idna` package (`none` = no entry: the model reports an
  `oracleMiss`).  `Rfc.pctUtf8Decode keep plus`, `keepNone`, `keepSlashPercent`, `keepQsDelims`: the independent
  decoding specification of C06HeadlineMore.lean.  `Rfc.appendixB`, `Rfc.authoritySplit`, `C07_portOf` (C07More.lean):
  the Appendix B decomposition, the RFC split of an authority, and the port text read as a port (all four authority
  accessors raise when it is not an integer in 0..65535).  `C07_encBuildNetloc a` (C07Encoded.lean) = the authority
  `build(encoded=True)` stores: `authority=` verbatim, else `make_netloc(user, password, host, port)` WITHOUT encoding
  and without brackets; `C07_buildQueryString e a` = `get_str_query(query)` for a truthy `query=`, else `query_string=`.
-/
set_option linter.unusedVariables false
namespace Yarl
open NetlocLemmas HeadB EagerLemmas NetShape R2

/-! ## Sentence 1a — "Each decoded accessor … equals the UTF-8 percent-decoding of the corresponding raw component" —
    for `encoded=True` URLs, where the raw component is what the caller typed -/

section EncodedHeadline
open Rfc DecMore

/-- "Each decoded accessor … equals the UTF-8 percent-decoding of the corresponding raw component" for
    `u = URL(s, encoded=True)`: with `B` = the Appendix B decomposition of the cleaned input and `A` = the RFC split of
    its authority, path / path_safe / query_string / fragment / user / password are the textbook decoding
    `Rfc.pctUtf8Decode` of the components of `B` / `A` VERBATIM (nothing was requoted: an unquoted space, a non-ASCII
    character, a lower-case or malformed escape are decoded from exactly what was typed); parts / name / suffix /
    suffixes are the decodings of the raw ones.  user / password raise when the port text of the authority is no port
    (`C07_portOf`); an empty path reads "" without and "/" with an authority.  (Instance of
    C06_headline_accessors_are_pct_utf8_decodings, which has no hypothesis on the URL, composed with C07's
    "encoded=True … verbatim".)  Cites C06_encoded_accessors (C06Encoded.lean). -/
theorem C06_headline_encoded_true_accessors_are_decodings (e : Env) (s : Str) (u : Url)
    (h : preEncodedUrl e s = .ok u) :                -- `u = URL(s, encoded=True)`
    let B := Rfc.appendixB Gen.schemeChars (cleanUrl s)
    let A := Rfc.authoritySplit B.authority
    pathDecoded e u = (if B.path.isEmpty then (if B.authority.isEmpty then [] else [47])
                       else pctUtf8Decode keepNone false B.path) ∧
    pathSafe e u = (if B.path.isEmpty then (if B.authority.isEmpty then [] else [47])
                    else pctUtf8Decode keepSlashPercent false B.path) ∧
    queryString e u = pctUtf8Decode keepQsDelims true B.query ∧
    fragmentDecoded e u = pctUtf8Decode keepNone false B.fragment ∧
    user e u = (C07_portOf e.o A.port).map (fun _ => (A.user.bind orNone).map (pctUtf8Decode keepNone false)) ∧
    password e u = (C07_portOf e.o A.port).map (fun _ => A.password.map (pctUtf8Decode keepNone false)) ∧
    partsDecoded e u = (rawParts u).map (pctUtf8Decode keepNone false) ∧
    name e u = (rawName u).map (pctUtf8Decode keepNone false) ∧
    suffix e u = (rawSuffix u).map (pctUtf8Decode keepNone false) ∧
    suffixes e u = (rawSuffixes u).map (List.map (pctUtf8Decode keepNone false)) :=
  C06_encoded_accessors e s u h

/-- the same for `u = URL.build(…, encoded=True)`: the decoding specification applied to the ARGUMENTS verbatim
    (`path=`, `fragment=`, `query_string=`; a truthy `query=` alone is first rendered by `get_str_query`, as in both
    modes), user / password decoded from the RFC split of the stored authority `C07_encBuildNetloc a`.  NO read-back
    claim: with `encoded=True` the arguments are raw texts, not decoded values — `build(path="/a%2Fb", encoded=True).path`
    is "/a/b".  Cites C06_build_encoded_accessors (C06Encoded.lean). -/
theorem C06_headline_build_encoded_true_accessors_are_decodings (e : Env) (a : BuildArgs) (u : Url)
    (ha : a.encoded = true)                          -- `encoded=True`
    (h : build e a = .ok u) :                        -- `u = URL.build(…)`
    let N := C07_encBuildNetloc a
    let A := Rfc.authoritySplit N
    pathDecoded e u = (if a.path.isEmpty then (if N.isEmpty then [] else [47])
                       else pctUtf8Decode keepNone false a.path) ∧
    pathSafe e u = (if a.path.isEmpty then (if N.isEmpty then [] else [47])
                    else pctUtf8Decode keepSlashPercent false a.path) ∧
    fragmentDecoded e u = pctUtf8Decode keepNone false a.fragment ∧
    (∃ qs, C07_buildQueryString e a = .ok qs ∧ queryString e u = pctUtf8Decode keepQsDelims true qs) ∧
    (qargTruthy a.query = false → queryString e u = pctUtf8Decode keepQsDelims true a.queryString) ∧
    user e u = (C07_portOf e.o A.port).map (fun _ => (A.user.bind orNone).map (pctUtf8Decode keepNone false)) ∧
    password e u = (C07_portOf e.o A.port).map (fun _ => A.password.map (pctUtf8Decode keepNone false)) :=
  C06_build_encoded_accessors e a u ha h

end EncodedHeadline

/-! ## Sentence 2 — "Any text supplied as a decoded value through build() … reads back unchanged" — `build(authority=A)`
    (GAPS 3 of C06Headline.lean) -/

/-- GAPS 3, `build(authority=A)` (encoded=False): the userinfo texts of `A` are taken AS DECODED VALUES (they are quoted
    with QUOTER, '%' becomes "%25"), so `user` / `password` read back the userinfo texts of `A` VERBATIM — lone
    surrogates dropped; an empty user reads `None` — and NOT their percent-decodings
    (C06_headline_build_authority_readback_fails_for_percent_escapes); `raw_host` is `_encode_host(host text)` without
    brackets (which text: next theorem); `explicit_port` is the port of `A` unless it is the default port of the
    lower-cased scheme — then `None`; `port` is the integer of `A` whenever `A` has one (the scheme's default otherwise).
    Cites C06_build_authority_readback (C06More2.lean). -/
theorem C06_headline_build_authority_readback (e : Env) (a : BuildArgs) (v : Url) (h : build e a = .ok v)
    (henc : a.encoded = false)                                    -- auto-encoding mode
    (hpy : PyStr a.authority)                                     -- model artefact: `Str` also has code points > 0x10FFFF
    (np : NetlocParts) (h0 : Str)
    (hsp : splitNetloc e.o a.authority = .ok np)                  -- `np = split_netloc(A)` (names the parts of `A`)
    (hhost : np.host = some h0)                                   -- `A` has a host text `h0`
    (hk : HostTextOK h0)                                          -- a supported ASCII host text (name / IPv4 / IPv6 [+zone]); IDN, IPvFuture: not covered
    (hwrap : 58 ∉ h0 → 91 ∉ (rpartition 64 a.authority).2.2) :    -- a host that is no IPv6 literal is not written in brackets
    ∃ sc r, lowerAny e a.scheme = .ok sc ∧ v.scheme = sc ∧ encodeHost e.o h0 false = .ok r ∧ r ≠ [] ∧
      rawUser e v = .ok ((np.user.map (q e Gen.QUOTER)).bind orNone) ∧
      rawPassword e v = .ok (np.password.map (q e Gen.QUOTER)) ∧
      user e v = .ok ((np.user.map stripSurr).bind orNone) ∧
      password e v = .ok (np.password.map stripSurr) ∧
      ((∀ s, np.user = some s → NoSurrogate s) → user e v = .ok np.user) ∧               -- "lone surrogates … excepted"
      ((∀ s, np.password = some s → NoSurrogate s) → password e v = .ok np.password) ∧   -- "lone surrogates … excepted"
      rawHost e v = .ok (some (unbracket r)) ∧
      explicitPort e v = .ok (strPort sc np.port) ∧
      port e v = .ok (np.port.orElse fun _ => defaultPort sc) :=
  C06_build_authority_readback e a v h henc hpy np h0 hsp hhost hk hwrap

/-- GAPS 3, `build(authority=A)`, the host (`host` is not in the property's list of accessors; same three cases as
    C06_headline_build_host_readback for `host=`):
    (i) the host text of `A` is a NAME (no ':'; not an IPv4 literal): `raw_host` is the name LOWER-CASED, and so is
        `host` — under the hypothesis that the IDNA decoder maps that ASCII lower-case name to itself, needed only when
        `URL.host` consults the decoder (GAPS 10; C06_headline_host_oracle_use);
    (ii) an IPv4 literal (not in brackets): `raw_host` and `host` return it unchanged, no oracle;
    (iii) an IPv6 literal (any spelling `ipaddress` accepts, optional "%zone"): canonical lower-case text, the zone id
        verbatim, without brackets, from both, no oracle.
    Cites C06_build_authority_host_name, C06_build_authority_host_ipv4, C06_build_authority_host_ipv6 (C06More2.lean). -/
theorem C06_headline_build_authority_host_readback (e : Env) (a : BuildArgs) (v : Url) (h : build e a = .ok v)
    (henc : a.encoded = false)                                    -- auto-encoding mode
    (hpy : PyStr a.authority)                                     -- model artefact
    (np : NetlocParts) (h0 : Str)
    (hsp : splitNetloc e.o a.authority = .ok np) (hhost : np.host = some h0) :   -- `h0` = the host text of `A`
    (HostTextOK h0 →                                              -- supported ASCII host text
      (58 ∉ h0 → 91 ∉ (rpartition 64 a.authority).2.2) →          -- a non-IPv6 host is not written in brackets
      -- the text is not an IP literal (those are (ii), (iii)):
      (parseIP (partition 37 h0).1 = none ∨ (58 ∉ h0 ∧ ∀ l, h0.getLast? = some l → isDigitC l = false)) →
      rawHost e v = .ok (some (lower h0)) ∧
      -- oracle hypothesis, needed only when `URL.host` calls the IDNA decoder:
      ((((∀ l, (lower h0).getLast? = some l → isDigitC l = false) ∨ hasSub [120, 110, 45, 45] (lower h0) = true) →
          e.o.idnaDec (lower h0) = some (some (lower h0))) →
        host e v = .ok (some (lower h0)))) ∧
    (91 ∉ (rpartition 64 a.authority).2.2 →                       -- the IPv4 literal is not written in brackets
      ∀ o4, parseIPv4 h0 = some o4 → rawHost e v = .ok (some h0) ∧ host e v = .ok (some h0)) ∧
    (HostTextOK h0 → ∀ h8, parseIPv6 (partition 37 h0).1 = some h8 →
      rawHost e v = .ok (some (ipv6ToStr h8 ++ (if (partition 37 h0).2.1 then [37] ++ (partition 37 h0).2.2 else []))) ∧
      host e v = .ok (some (ipv6ToStr h8 ++ (if (partition 37 h0).2.1 then [37] ++ (partition 37 h0).2.2 else [])))) :=
  ⟨fun hk hwrap hnip => C06_build_authority_host_name e a v h henc hpy np h0 hsp hhost hk hwrap hnip,
   fun hwrap o4 h4 => C06_build_authority_host_ipv4 e a v h henc hpy np h0 hsp hhost hwrap o4 h4,
   fun hk h8 h6 => C06_build_authority_host_ipv6 e a v h henc hpy np h0 hsp hhost hk h8 h6⟩

/-- GAPS 3, `build(authority=A)` in "reads back unchanged" form: for `A = make_netloc(U, P, H, pt)` written WITHOUT
    encoding — a well-shaped user `U` (non-empty, no ':'), any password `P`, a supported host text `H` in brackets iff
    it has a ':' — `user`, `password` of `build(authority=A)` are `U`, `P` (verbatim), `explicit_port` is `pt` unless
    it is the scheme's default, `port` is the integer.  Cites C06_build_authority_written_readback (C06More2.lean). -/
theorem C06_headline_build_authority_written_readback (e : Env) (a : BuildArgs) (v : Url) (h : build e a = .ok v)
    (henc : a.encoded = false)                                    -- auto-encoding mode
    (U P : Option Str) (H : Str) (pt : Option Nat)
    (hA : a.authority = makeNetloc id U P (some (bracket H)) pt false)   -- `A` is `[U[:P]@]H[:pt]`, nothing encoded
    (hpy : PyStr a.authority)                                     -- model artefact
    (hU : UserOK U)                                               -- the user, when given, is non-empty and has no ':'
    (hH : HostOK H) (hk : HostTextOK H)                           -- a supported ASCII host text without '@' '[' ']'
    (hport : ∀ p, pt = some p → p ≤ 65535)                        -- a port in range
    (hUn : ∀ s, U = some s → NoSurrogate s) (hPn : ∀ s, P = some s → NoSurrogate s) :  -- "lone surrogates … excepted"
    ∃ sc r, lowerAny e a.scheme = .ok sc ∧ v.scheme = sc ∧ encodeHost e.o H false = .ok r ∧
      user e v = .ok U ∧ password e v = .ok P ∧ rawHost e v = .ok (some (unbracket r)) ∧
      explicitPort e v = .ok (strPort sc pt) ∧
      port e v = .ok (pt.orElse fun _ => defaultPort sc) :=
  C06_build_authority_written_readback e a v h henc U P H pt hA hpy hU hH hk hport hUn hPn

/-- — the userinfo of `authority=` is NOT read as escaped text, and `explicit_port` does not always read back the
    integer (both backends): `URL.build(scheme="http", authority="us%41er:p%40w@h1:80")` has stored authority
    "us%2541er:p%2540w@h1", `user == "us%41er"` (the percent-decoding of "us%41er" is "usAer"), `password == "p%40w"`,
    `explicit_port is None`, `port == 80` — whereas the same text in `URL("http://us%41er:p%40w@h1:80")` is REQUOTED:
    user "usAer".  So whether this is "reads back unchanged" depends on the reading of `authority=`: as a sequence of
    DECODED values it does (previous theorems); as a raw authority (what the parameter name and the parser suggest) the
    '%' is double-encoded.  NOT in KNOWN_FINDINGS.jsonl — see GAPS 11.
    Cites C06_build_authority_not_percent_decoded (C06More2.lean). -/
theorem C06_headline_build_authority_readback_fails_for_percent_escapes (b : Backend) :
    ∃ v, build ⟨b, Oracles.empty⟩ { scheme := "http".toStr, authority := "us%41er:p%40w@h1:80".toStr } = .ok v ∧
      v.netloc = "us%2541er:p%2540w@h1".toStr ∧
      user ⟨b, Oracles.empty⟩ v = .ok (some "us%41er".toStr) ∧
      password ⟨b, Oracles.empty⟩ v = .ok (some "p%40w".toStr) ∧
      Gen.UNQUOTER.run b "us%41er".toStr = "usAer".toStr ∧ Gen.UNQUOTER.run b "p%40w".toStr = "p@w".toStr ∧
      explicitPort ⟨b, Oracles.empty⟩ v = .ok none ∧ port ⟨b, Oracles.empty⟩ v = .ok (some 80) ∧
      (encodeUrl ⟨b, Oracles.empty⟩ "http://us%41er:p%40w@h1:80".toStr).bind (user ⟨b, Oracles.empty⟩) =
        .ok (some "usAer".toStr) :=
  C06_build_authority_not_percent_decoded b

/-! ## Sentence 2 — "build()" — a STRING `query=` (GAPS 3 of C06Headline.lean) -/

/-- GAPS 3, `build(query=s)` for a non-empty STRING `s` — in BOTH `encoded=` modes (a `query=` argument is always
    rendered by the library) and whatever the other arguments are: the stored query is `QUERY_QUOTER(s)`; `url.query`
    yields the pieces of `s` between '&' (empty pieces dropped), each cut at its FIRST '=', with '+' read as a space and
    NOTHING else decoded ('%' in `s` is a literal character: it is stored as "%25"); `query_string` is `s` with
    '+' → ' '.  So a query STRING is not a sequence of decoded values: '&', '=' and '+' in it are syntax (as for
    `query_string=`, C06_headline_build_query_string_readback); in particular ONE "key=value" text without '&' '+' (and
    no '=' in the key) reads back as that pair.
    Cites C06_build_query_str_readback, C06_build_query_str_single (C06More2.lean). -/
theorem C06_headline_build_query_str_readback (e : Env) (a : BuildArgs) (v : Url) (h : build e a = .ok v) :
    (∀ s, a.query = .str s → s ≠ [] →              -- `query=` is a non-empty str ("" is falsy: no query)
      PyStr s →                                    -- model artefact
      NoSurrogate s →                              -- "lone surrogates … excepted"
      v.query = q e Gen.QUERY_QUOTER s ∧
      queryPairs v = ((splitOn 38 s).filter (fun p => ¬ p = [])).map
        (fun p => (plusToSpace (partition 61 p).1, plusToSpace (partition 61 p).2.2)) ∧
      queryString e v = plusToSpace s) ∧
    (∀ k w, a.query = .str (k ++ 61 :: w) →        -- `query="k=w"`
      PyStr k ∧ NoSurrogate k → PyStr w ∧ NoSurrogate w →
      38 ∉ k ∧ 61 ∉ k ∧ 43 ∉ k →                   -- no '&' '=' '+' in the key
      38 ∉ w ∧ 43 ∉ w →                            -- no '&' '+' in the value
      queryPairs v = [(k, w)]) :=
  ⟨fun s hq hne hs hn => C06_build_query_str_readback e a v h s hq hne hs hn,
   fun k w hq hk hw hk' hw' => C06_build_query_str_single e a v h k w hq hk hw hk' hw'⟩

/-! ## Sentence 2 — "with_user, with_password" — `with_user("")` and URLs without authority (GAPS 4) -/

/-- GAPS 4, `with_user("")` on a record without cache whose authority is `make_netloc(usr, pw, h, port)`: it does NOT
    store an empty user and is NOT `with_user(None)`: it removes the user and KEEPS the password (authority
    ":pw@host"); `user` of the result is `None` — so "reads back unchanged" is FALSE for the text "" (it reads `None`;
    the same deviation as C11_headline_with_user_fails_for_empty); password / host / port are kept; it coincides with
    `with_user(None)` exactly when the URL has no password.  Cites C06_with_user_empty_written (C06More2.lean). -/
theorem C06_headline_with_user_empty_written (e : Env) (qf : Str → Str) (usr pw : Option Str) (h : Str)
    (port : Option Nat) (scheme path query fragment : Str)
    (hu : UserOK usr)                              -- the old user, when there is one, is non-empty without ':'
    (hh : HostOK h)                                -- the host is non-empty, none of '@' '[' ']'
    (hp : ∀ p, port = some p → p ≤ 65535) :        -- a port in range
    let u := fromParts scheme (makeNetloc qf usr pw (some (bracket h)) port false) path query fragment
    let v := fromParts scheme (makeNetloc id none pw (some (bracket h)) port false) path query fragment
    withUser e u (some []) = .ok v ∧
    user e v = .ok none ∧ rawUser e v = .ok none ∧
    rawPassword e v = .ok pw ∧ password e v = password e u ∧
    rawHost e v = .ok (some h) ∧ explicitPort e v = .ok port ∧
    (withUser e u none = .ok v ↔ pw = none) :=
  C06_with_user_empty_written e qf usr pw h port scheme path query fragment hu hh hp

/-- GAPS 4, `with_user("")` on a URL WITH a (consistent) pre-filled cache, and on a CONSTRUCTOR result `u = URL(s)`:
    the result has `user is None`, the old raw password / decoded password / host / port, the authority
    `make_netloc(None, pw, h, port)`, and the other four parts unchanged.
    Cites C06_cached_with_user_empty, C06_ctor_with_user_empty (C06More2.lean). -/
theorem C06_headline_with_user_empty_cached_constructor (e : Env) (qf : Str → Str) (u : Url) (usr pw : Option Str)
    (h : Str) (port : Option Nat)
    (w : Written qf (pickleTwin u) usr pw h port) :          -- the stored authority is `make_netloc` text
    (net e (pickleTwin u) = net e u ∨                        -- the cache agrees with the stored authority (C09's statement), or
      (∃ s, encodeUrl e s = .ok u ∧ GoodAuthority e s)) →    -- `u = URL(s)` under the C09 guard
    ∃ v, withUser e u (some []) = .ok v ∧
      user e v = .ok none ∧ rawUser e v = .ok none ∧
      rawPassword e v = .ok pw ∧ password e v = password e u ∧
      rawHost e v = .ok (some h) ∧ explicitPort e v = .ok port ∧
      v.netloc = makeNetloc id none pw (some (bracket h)) port false ∧
      v.scheme = u.scheme ∧ v.path = u.path ∧ v.query = u.query ∧ v.fragment = u.fragment ∧
      (withUser e u none = .ok v ↔ pw = none) := by
  rintro (hnet | ⟨s, hu, hg⟩)
  · exact C06_cached_with_user_empty e qf u usr pw h port hnet w
  · exact C06_ctor_with_user_empty e qf s u usr pw h port hu hg w

/-- GAPS 4, `with_user("")` on EVERY URL with an authority that satisfies the invariant `NetlocCanon` — no `Written` /
    cache hypothesis: `user` of the result is `None`, the raw and decoded password, raw_host, explicit_port and the
    other parts are those of `u`; it is `with_user(None)` iff `u` has no password.
    Cites C06_netlocCanon_with_user_empty (C06More2.lean). -/
theorem C06_headline_with_user_empty_invariant (e : Env) (u : Url)
    (hc : NetlocCanon e u)      -- the invariant (C06_headline_with_user_password_readback_from_input, C11_headline_invariant_of_*)
    (hne : u.netloc ≠ []) :     -- there is an authority (without one: next theorem)
    ∃ v pw, rawPassword e u = .ok pw ∧ withUser e u (some []) = .ok v ∧
      user e v = .ok none ∧ rawUser e v = .ok none ∧
      rawPassword e v = .ok pw ∧ password e v = password e u ∧
      rawHost e v = rawHost e u ∧ explicitPort e v = explicitPort e u ∧
      v.scheme = u.scheme ∧ v.path = u.path ∧ v.query = u.query ∧ v.fragment = u.fragment ∧
      (withUser e u none = .ok v ↔ pw = none) :=
  C06_netlocCanon_with_user_empty e u hc hne

/-- GAPS 4, "with_user / with_password on a URL without host": for EVERY record with an empty stored authority (cache
    or not, whatever its other parts) and EVERY argument (`None`, "", any text) the model returns `ValueError` —
    Python: "user replacement is not allowed for relative URLs" / "password replacement is not allowed for relative
    URLs" — so there is nothing to read back; and for a record without cache "without host" (`raw_host` / `host` is
    `None`) IS "empty stored authority".
    Cites C06_with_user_password_no_authority, C06_no_host_iff_no_authority (C06More2.lean). -/
theorem C06_headline_with_user_password_no_authority (e : Env) (u : Url) :
    (u.netloc = [] →                                -- no authority
      (∀ x, withUser e u x = .error .valueError) ∧ (∀ x, withPassword e u x = .error .valueError)) ∧
    (u.pre = none →                                 -- no pre-filled cache
      (rawHost e u = .ok none ↔ u.netloc = []) ∧ (host e u = .ok none ↔ u.netloc = [])) :=
  ⟨fun hnl => C06_with_user_password_no_authority e u hnl, fun hpre => C06_no_host_iff_no_authority e u hpre⟩

/-! ## Sentence 2 — "/ or joinpath" — several arguments through `path` (GAPS 6); reachable URLs (GAPS 9) -/

section JoinHeadline
open PathLemmas PathAlg PathMore EntryLemmas

/-- GAPS 6 (read-back through `path` for several arguments): `u.joinpath(a₁, …, aₙ)` is `u.joinpath("a₁/…/aₙ")` — the
    SAME URL, where "a₁/…/aₙ" = `joinC 47 (argSegs e true ps)` is the text in which a trailing '/' of a non-last argument
    is not doubled — and so reads back through `path` as the old decoded path without ONE trailing slash, then "/" and
    the joined arguments (for an empty old path: the joined arguments themselves without, "/" + them with an
    authority); `parts` / `name` as in C06_headline_joinpath_readback.
    Cites C06_joinpath_path_readback (C06More2.lean). -/
theorem C06_headline_joinpath_path_readback (e : Env) (u : Url) (ps : List Str) (v : Url)
    (hne : ps ≠ [])                                                    -- at least one argument
    (hps : ∀ p ∈ ps, PyStr p ∧ NoSurrogate p)                          -- model artefact; "lone surrogates … excepted"
    (hnd : u.netloc ≠ [] → NoDots (splitOn 47 u.path) ∧ ∀ p ∈ ps, NoDots (splitOn 47 p))  -- "dot segments under an authority excepted" (old path: GAPS 9)
    (hq : u.netloc ≠ [] → u.path = [] → ∃ p ∈ ps, p ≠ [])              -- not all arguments empty on an empty path under an authority
    (hpath : u.netloc ≠ [] → (u.path = [] ∨ u.path.head? = some 47)) : -- old path empty or rooted under an authority (GAPS 9)
    makeChild e u ps false = .ok v →
      makeChild e u [joinC 47 (argSegs e true ps)] false = .ok v ∧
      pathDecoded e v =
        (if u.path = [] then (if u.netloc = [] then joinC 47 (argSegs e true ps) else 47 :: joinC 47 (argSegs e true ps))
         else (if u.path.getLast? = some 47 then (pathDecoded e u).dropLast else pathDecoded e u) ++
           47 :: joinC 47 (argSegs e true ps)) ∧
      partsDecoded e v = (stripTrail (rawParts u)).map (uq e Gen.UNQUOTER) ++ argSegs e true ps ∧
      name e v = .ok ((argSegs e true ps).getLast?.getD []) :=
  C06_joinpath_path_readback e u ps v hne hps hnd hq hpath

/-- GAPS 9: the two side conditions on the OLD url of the `/` / joinpath read-back theorems hold for EVERY URL
    reachable through the auto-encoding API: under an authority its stored path has no dot segment and is empty or
    rooted.  Cites C06_reachable_old_path_ok (C06More2.lean; composition with C15_headline_reachable). -/
theorem C06_headline_reachable_old_path_ok (e : Env) (u : Url)
    (hr : ReachC e u) :                                   -- `u` is reachable through the auto-encoding API
    (u.netloc ≠ [] → NoDots (splitOn 47 u.path)) ∧ (u.netloc ≠ [] → (u.path = [] ∨ u.path.head? = some 47)) :=
  C06_reachable_old_path_ok e u hr

/-- GAPS 9, "/ or joinpath" on a REACHABLE URL — only conditions on the ARGUMENTS remain:
    (i) ONE non-empty segment that may contain '.' (not "." / ".." themselves) reads back through `name`;
    (ii) a text with '/' and '.' (no dot SEGMENT under an authority) reads back through `parts`, `name` and `path`.
    Cites C06_reach_child_readback, C06_reach_child_slash_readback (C06More2.lean). -/
theorem C06_headline_child_readback_reachable (e : Env) (u : Url)
    (hr : ReachC e u)                                     -- `u` is reachable through the auto-encoding API
    (s : Str) (v : Url)
    (hs : PyStr s) (hsur : NoSurrogate s) :               -- model artefact; "lone surrogates … excepted"
    (47 ∉ s → s ≠ [] →                                    -- ONE non-empty segment
      s ≠ dot ∧ s ≠ dotdot →                              -- "dot segments … excepted"
      makeChild e u [s] false = .ok v → name e v = .ok s) ∧
    ((u.netloc ≠ [] → NoDots (splitOn 47 s)) →            -- "dot segments under an authority excepted" (the ARGUMENT only)
      (u.netloc ≠ [] → u.path = [] → s ≠ []) →            -- "http://h" / "" is excluded (the result path would be "/")
      makeChild e u [s] false = .ok v →
        partsDecoded e v = (stripTrail (rawParts u)).map (uq e Gen.UNQUOTER) ++ splitOn 47 s ∧
        name e v = .ok ((splitOn 47 s).getLast?.getD []) ∧
        pathDecoded e v =
          (if u.path = [] then (if u.netloc = [] then s else 47 :: s)
           else (if u.path.getLast? = some 47 then (pathDecoded e u).dropLast else pathDecoded e u) ++ 47 :: s)) :=
  ⟨fun h47 hne hdot => C06_reach_child_readback e u hr s v hs hsur h47 hne hdot,
   fun hnd hq => C06_reach_child_slash_readback e u hr s v hs hsur hnd hq⟩

/-- GAPS 9 + GAPS 6, "joinpath" with several arguments on a REACHABLE URL: `parts`, `name` and `path`.
    Cites C06_reach_joinpath_readback (C06More2.lean). -/
theorem C06_headline_joinpath_readback_reachable (e : Env) (u : Url)
    (hr : ReachC e u)                                     -- `u` is reachable through the auto-encoding API
    (ps : List Str) (v : Url)
    (hne : ps ≠ [])                                       -- at least one argument
    (hps : ∀ p ∈ ps, PyStr p ∧ NoSurrogate p)             -- model artefact; "lone surrogates … excepted"
    (hnd : u.netloc ≠ [] → ∀ p ∈ ps, NoDots (splitOn 47 p))   -- "dot segments under an authority excepted" (the ARGUMENTS only)
    (hq : u.netloc ≠ [] → u.path = [] → ∃ p ∈ ps, p ≠ []) :   -- not all arguments empty on an empty path under an authority
    makeChild e u ps false = .ok v →
      partsDecoded e v = (stripTrail (rawParts u)).map (uq e Gen.UNQUOTER) ++ argSegs e true ps ∧
      name e v = .ok ((argSegs e true ps).getLast?.getD []) ∧
      pathDecoded e v =
        (if u.path = [] then (if u.netloc = [] then joinC 47 (argSegs e true ps) else 47 :: joinC 47 (argSegs e true ps))
         else (if u.path.getLast? = some 47 then (pathDecoded e u).dropLast else pathDecoded e u) ++
           47 :: joinC 47 (argSegs e true ps)) :=
  C06_reach_joinpath_readback e u hr ps v hne hps hnd hq

end JoinHeadline

/-! ## Sentence 2 — "build()" — the decoded `host` and the IDNA oracle (GAPS 10) -/

/-- GAPS 10: PRECISELY when `URL.host` is computed without the IDNA oracle, for an ASCII raw host: (a) last character a
    digit and no "xn--", or a ':' inside → `host` IS the raw host, whatever the oracles are; (b) otherwise `host` is
    the answer of `_idna_decode` — consulted for EVERY other name, with or without "xn--" ("example.com" too): with no
    table entry the model reports the miss, and for any answer `r` of the IDNA decoder `host` is `r`.
    Cites C06_host_oracle_use (C06More2.lean). -/
theorem C06_headline_host_oracle_use (e : Env) (u : Url) (raw : Str)
    (hraw : rawHost e u = .ok (some raw))                 -- `raw` = `url.raw_host`
    (hasc : isAscii raw = true) :                         -- it is ASCII (true of every encoded host)
    ((((∃ l, raw.getLast? = some l ∧ isDigitC l = true) ∧ hasSub [120, 110, 45, 45] raw = false) ∨ 58 ∈ raw) →
      host e u = .ok (some raw)) ∧
    (¬ (((∃ l, raw.getLast? = some l ∧ isDigitC l = true) ∧ hasSub [120, 110, 45, 45] raw = false) ∨ 58 ∈ raw) →
      host e u = (idnaDecode e.o raw).map some ∧
      (e.o.idnaDec raw = none → host e u = .error (.oracleMiss "idnaDec" raw)) ∧
      (∀ r, e.o.idnaDec raw = some (some r) → host e u = .ok (some r))) :=
  C06_host_oracle_use e u raw hraw hasc

/-- GAPS 10: C06_headline_build_host_readback (i) WITHOUT any oracle hypothesis, for the names where `URL.host`
    consults no oracle: `build(host=x)` for an ASCII registered name `x` that ENDS IN A DIGIT and has no "xn--" (any
    letter case; e.g. "Srv-01", "Node.K8S", "h1"): `raw_host` and `host` are `x` lower-cased.
    Cites C06_build_host_readback_no_oracle (C06More2.lean). -/
theorem C06_headline_build_host_readback_no_oracle (e : Env) (a : BuildArgs) (v : Url) (h : build e a = .ok v)
    (henc : a.encoded = false)      -- auto-encoding mode
    (hauth : a.authority = [])      -- `host=`, not `authority=` (that one: C06_headline_build_authority_host_readback)
    (hasc : isAscii a.host = true)                                        -- an ASCII name
    (hnip : parseIP (partition 37 a.host).1 = none)                       -- the text is not an IP literal
    (hd : ∃ l, a.host.getLast? = some l ∧ isDigitC l = true)              -- it ends in a digit
    (hx : hasSub [120, 110, 45, 45] (lower a.host) = false) :             -- no "xn--" (in any letter case)
    rawHost e v = .ok (some (lower a.host)) ∧ host e v = .ok (some (lower a.host)) :=
  C06_build_host_readback_no_oracle e a v h henc hauth hasc hnip hd hx

/-- GAPS 10: for EVERY other ASCII registered name (not ending in a digit, or containing "xn--") the decoded `host` of
    `build(host=x)` is whatever `_idna_decode` answers for the lower-cased name: the read-back (of the lower-cased name)
    holds IF AND ONLY IF that answer is the name itself — the oracle hypothesis of C06_headline_build_host_readback (i)
    cannot be dropped or weakened.  Cites C06_build_host_readback_iff_oracle (C06More2.lean). -/
theorem C06_headline_build_host_readback_iff_oracle (e : Env) (a : BuildArgs) (v : Url) (h : build e a = .ok v)
    (henc : a.encoded = false) (hauth : a.authority = []) (hhost : a.host ≠ [])   -- `build(host=x)`, auto-encoding mode
    (hasc : isAscii a.host = true)                                                -- an ASCII name
    (hnip : parseIP (partition 37 a.host).1 = none ∨                              -- not an IP literal
      (58 ∉ a.host ∧ ∀ l, a.host.getLast? = some l → isDigitC l = false))
    (hor : (∀ l, (lower a.host).getLast? = some l → isDigitC l = false) ∨         -- the case: `URL.host` consults the decoder
      hasSub [120, 110, 45, 45] (lower a.host) = true) :
    host e v = (idnaDecode e.o (lower a.host)).map some ∧
    (host e v = .ok (some (lower a.host)) ↔ idnaDecode e.o (lower a.host) = .ok (lower a.host)) :=
  C06_build_host_readback_iff_oracle e a v h henc hauth hhost hasc hnip hor

/-- GAPS 10: concrete oracles for which the read-back through `host` FAILS.  (a) names WITH "xn--" — the library's REAL
    behaviour, not hypothetical (`R2.oIdna` answers what the `idna` package answers):
    `URL.build(host="XN--Bcher-KVA.de").host == "bücher.de"` while `raw_host` is the lower-cased A-label
    "xn--bcher-kva.de" — "reads back unchanged" through the DECODED `host` is false for A-labels (`host` is not in the
    property's list of accessors); (b) names WITHOUT "xn--" not ending in a digit: with a HYPOTHETICAL decoder
    (`R2.oUp`) answering "EXAMPLE.COM" for "example.com", `build(host="Example.COM").host` is "EXAMPLE.COM"; with no
    answer at all the model reports the oracle miss — `host` DOES consult the decoder for "example.com".
    Cites C06_build_host_readback_fails_for_oracle (C06More2.lean). -/
theorem C06_headline_build_host_readback_fails_for_oracle (b : Backend) :
    (∃ v, build ⟨b, oIdna⟩ { host := "XN--Bcher-KVA.de".toStr } = .ok v ∧
      rawHost ⟨b, oIdna⟩ v = .ok (some "xn--bcher-kva.de".toStr) ∧
      host ⟨b, oIdna⟩ v = .ok (some [98, 252, 99, 104, 101, 114, 46, 100, 101]) ∧
      host ⟨b, oIdna⟩ v ≠ .ok (some "xn--bcher-kva.de".toStr)) ∧
    (∃ v, build ⟨b, oUp⟩ { host := "Example.COM".toStr } = .ok v ∧
      rawHost ⟨b, oUp⟩ v = .ok (some "example.com".toStr) ∧
      host ⟨b, oUp⟩ v = .ok (some "EXAMPLE.COM".toStr) ∧ host ⟨b, oUp⟩ v ≠ .ok (some "example.com".toStr)) ∧
    (∃ v, build ⟨b, Oracles.empty⟩ { host := "Example.COM".toStr } = .ok v ∧
      host ⟨b, Oracles.empty⟩ v = .error (.oracleMiss "idnaDec" "example.com".toStr)) :=
  C06_build_host_readback_fails_for_oracle b

/-! ## non-vacuity -/

/-- `URL.build(scheme="HTTP", authority="us%41er:p%40 w:@x@Example.COM:8080")` (witnesses `R2.exAuth`, `R2.exAuthUrl`,
    `R2.exAuthNp` of C06More2.lean; upper-case scheme and host, '%' ' ' ':' '@' in the userinfo, a port): the
    hypotheses of C06_headline_build_authority_readback hold, user / password read back verbatim. -/
example (b : Backend) :
    user ⟨b, Oracles.empty⟩ exAuthUrl = .ok (some "us%41er".toStr) ∧
    password ⟨b, Oracles.empty⟩ exAuthUrl = .ok (some "p%40 w:@x".toStr) := by
  obtain ⟨sc, r, _, _, _, _, _, _, _, _, h9, h10, _⟩ :=
    C06_headline_build_authority_readback ⟨b, Oracles.empty⟩ exAuth exAuthUrl (exAuth_ok b) rfl (by decide) exAuthNp
      "Example.COM".toStr exAuth_split rfl exAuth_host (by decide +kernel)
  exact ⟨h9 (by intro s hs; cases hs; decide), h10 (by intro s hs; cases hs; decide)⟩

/-- `build(query="a=%41+b&&c&=d&e=f=g")`: a string query with '%', '+', empty pieces, an empty key, '=' in a value -/
example (b : Backend) (v : Url)
    (h : build ⟨b, Oracles.empty⟩ { query := .str "a=%41+b&&c&=d&e=f=g".toStr } = .ok v) :
    queryPairs v = [("a".toStr, "%41 b".toStr), ("c".toStr, []), ([], "d".toStr), ("e".toStr, "f=g".toStr)] := by
  rw [((C06_headline_build_query_str_readback _ _ v h).1 "a=%41+b&&c&=d&e=f=g".toStr rfl (by decide) (by decide)
    (by decide)).2.1]
  decide +kernel

/-- `URL("http://h/x/./y/../z/") / "a.b/c d"`: a reachable URL (constructor result `R2.uR`), no side condition on it -/
example (v : Url) (h : makeChild e0 uR ["a.b/c d".toStr] false = .ok v) :
    pathDecoded e0 v = "/x/z/a.b/c d".toStr := by
  have := ((C06_headline_child_readback_reachable e0 uR (ReachC.ctor _ uR (by decide) uR_ok) "a.b/c d".toStr v
    (by decide) (by decide)).2 (by intro _; unfold PathLemmas.NoDots; decide +kernel) (by intro _ _; decide) h).2.2
  rw [this]
  decide +kernel

/-- "Srv-01" ends in a digit and has no "xn--": `host` without any oracle -/
example (b : Backend) (v : Url) (h : build ⟨b, Oracles.empty⟩ { host := "Srv-01".toStr } = .ok v) :
    host ⟨b, Oracles.empty⟩ v = .ok (some "srv-01".toStr) :=
  (C06_headline_build_host_readback_no_oracle _ _ v h rfl rfl (by decide) (by decide +kernel)
    ⟨49, by decide, by decide⟩ (by decide)).2

end Yarl
