/-
  C03Bracket.lean — closes the "IPvFuture / bracketed non-IPv6 text" items: C03 GAPS 2 (C03Headline.lean),
  C04 GAPS 1 (C04Headline.lean, theorems in C04Bracket.lean), and the corresponding part of C09 (C09Bracket.lean).

  Since fix c17f18a the constructor (and `build(authority=)`) keeps the brackets of a bracketed host that is NOT an
  IPv6 address: "[v1.a:b]" (IPvFuture), "[g::1]", "[a:b]", "[1.2.3.4%a:b]".  `HostFix` / `HostTextOK` / `AuthInput`
  do not cover such hosts.  Vocabulary (Lemmas/BrHost.lean):

  `bracketCheck t`    — the bracket check of `split_url` on the text between '[' and ']': a text starting with a
                        lower-case 'v' must match `v<hex>+.<char>+`, any other text must contain ':'.
  `BracketTextIn t`   — INPUT side (any letter case): visible ASCII, none of `/ ? # @ [ ]` (`textChar`; ':' and '%'
                        allowed), `bracketCheck t`, and the text before an optional `%zone` is no IPv6 literal.
  `BracketText t`     — STORED side: `BracketTextIn t` and no upper-case letter.
  `HostFixB o t`      — abstract form: `HostOK t`, authority characters, `bracketCheck t`, and
                        `_encode_host(t) = t` (no brackets added: `encode_url` puts them back).
  `authTextB user pw t port` — the text `[user[:password]@][t][:port]`, host ALWAYS bracketed.
  `strAuthB scheme user pw t port` — the authority `str` writes for it (see C03_bracket_default_port).
  `NetlocCanonB e u`  — `NetlocCanon e u`, or the stored authority is an `authTextB` with `UserInfoOK`, `HostFixB`,
                        port ≤ 65535 and a consistent cache.
-/
import YarlModel
import YarlProofs.Lemmas.BrHost
set_option linter.unusedVariables false
set_option linter.unusedSimpArgs false
namespace Yarl
open ReachFix FixLemmas NetShape NetlocLemmas HostLemmas MiscLemmas BrHost

/-! ## Item 3 — the wrapper `NetlocCanonB` and the general fixed-point theorem -/

/-- "syntactically valid host", STORED side, extended: the stored authority is one of `NetlocCanon` (empty, or
    `authText` around a `HostFix` host), or `[user[:password]@][t][:port]` around a bracketed non-IPv6 text `t`
    (`HostFixB`; `BracketText t` suffices: `C03_bracket_hostFixB`) -/
inductive NetlocCanonB (e : Env) (u : Url) : Prop
  | plain : NetlocCanon e u → NetlocCanonB e u
  | brk (user pw : Option Str) (t : Str) (port : Option Nat) :
      u.netloc = authTextB user pw t port → UserInfoOK e.b user pw → HostFixB e.o t →
      (∀ p, port = some p → p ≤ 65535) →
      (u.pre = none ∨ u.pre = some (preOf user pw t port)) → NetlocCanonB e u

/-- the syntactic family is an instance of `HostFixB`, for every oracle (the oracles are never consulted: the
    text is ASCII) -/
theorem C03_bracket_hostFixB (o : Oracles) {t : Str} (h : BracketText t) : HostFixB o t := hostFixB_of_text o h

/-- the core of the `brk` case, with the re-parsed URL written out: it has the authority `str` wrote
    (`strAuthB`) and the cache `raw_host = t`, `explicit_port` = the port `str` wrote -/
theorem C03_bracket_fixed_point_of_canon (e : Env) (u : Url) (hc : CanonUrl e.b u) (hs : SchemeOK' u.scheme)
    (user pw : Option Str) (t : Str) (port : Option Nat)
    (hn : u.netloc = authTextB user pw t port)    -- the stored authority is [user[:pw]@][t][:port]
    (hu : UserInfoOK e.b user pw)                 -- user non-empty, user / password REQUOTER-canonical
    (hh : HostFixB e.o t)                         -- bracketed non-IPv6 text (`BracketText t` suffices)
    (hp : ∀ p, port = some p → p ≤ 65535)         -- port in range
    (hpre : u.pre = none ∨ u.pre = some (preOf user pw t port)) : -- cache empty or consistent
    let s := unsplitResult u.scheme (strAuthB u.scheme user pw t port) (C07_strPath u) u.query u.fragment
    let u' := Url.mk u.scheme (strAuthB u.scheme user pw t port) (C07_strPath u) u.query u.fragment
      (some (preOf user pw t (strPort u.scheme port)))
    str e u = .ok s ∧ encodeUrl e s = .ok u' ∧ str e u' = .ok s ∧ CanonUrl e.b u' ∧ NetlocCanonB e u' ∧
    rawHost e u = .ok (some t) ∧ rawHost e u' = .ok (some t) ∧
    explicitPort e u = .ok port ∧ explicitPort e u' = .ok (strPort u.scheme port) ∧ Yarl.port e u' = Yarl.port e u ∧
    rawUser e u' = rawUser e u ∧ rawPassword e u' = rawPassword e u ∧
    hostSubcomponent e u' = hostSubcomponent e u ∧ hostPortSubcomponent e u' = hostPortSubcomponent e u := by
  intro s u'
  have hN := net_authB e u user pw t port hn hu hh.ok hp hpre
  obtain ⟨a1, a2, a3, a4, a5, a6, a7⟩ := accessors_authB e u user pw t port hN
  have hstr := str_authB e u user pw t port hn hN
  have hne : u.netloc ≠ [] := by rw [hn]; exact authTextB_ne_nil _ _ _ _
  obtain ⟨b1, b2, b3, b4, b5⟩ := strAuthB_block e u.scheme hu hh hp
  obtain ⟨r1, r2, r3⟩ := reparse_record e u hc hs hne _ _ b1 b2 b3 b4 (strPort_notDefault u.scheme port)
  have hN' : net e u' = .ok (preOf user pw t (strPort u.scheme port)) := rfl
  obtain ⟨c1, c2, c3, c4, c5, c6, c7⟩ := accessors_authB e u' user pw t (strPort u.scheme port) hN'
  have hcan : NetlocCanonB e u' := by
    rcases b5 with h | ⟨h58, hf, hsp, _, h⟩
    · exact NetlocCanonB.brk user pw t _ h hu hh (strPort_range u.scheme port hp) (Or.inr rfl)
    · refine NetlocCanonB.plain (NetlocCanon.auth user pw t none h hu hf (fun q hq => by cases hq) (Or.inr ?_))
      show some (preOf user pw t (strPort u.scheme port)) = _
      rw [hsp]
  refine ⟨hstr, r1, r2, r3, hcan, a1, c1, a2, c2, ?_, ?_, ?_, ?_, ?_⟩
  · rw [c7, a7]
    show Except.ok ((strPort u.scheme port).or (defaultPort u.scheme)) = _
    cases port with
    | none => rfl
    | some p =>
      by_cases hd : some p = defaultPort u.scheme
      · rw [strPort_default hd, ← hd]; rfl
      · rw [strPort_other (fun q hq => by cases hq; exact hd)]
  · rw [c3, a3]
  · rw [c4, a4]
  · rw [c5, a5]
  · rw [c6, a6]
    show Except.ok (some (hostPortSubB u.scheme t (strPort u.scheme port))) = _
    unfold hostPortSubB
    rw [strPort_idem]

/-- MAIN (item 3): `C03_fixed_point_of_canon` / `C03_fixed_point_eq` with `NetlocCanonB` in place of `NetlocCanon`
    — every statement of C03Headline.lean that takes `NetlocCanon e u` as its "syntactically valid host" clause
    holds verbatim for the bracketed non-IPv6 hosts as well.  `URL(str(u)) == u` again holds exactly when no
    explicit default port is stored. -/
theorem C03_fixed_point_of_canonB (e : Env) (u : Url) (hc : CanonUrl e.b u) (hnet : NetlocCanonB e u)
    (hs : SchemeOK' u.scheme) (hguards : C03Guards u) :
    ∃ s u', str e u = .ok s ∧ encodeUrl e s = .ok u' ∧ str e u' = .ok s ∧ u'.scheme = u.scheme ∧
      u'.path = C07_strPath u ∧ u'.query = u.query ∧ u'.fragment = u.fragment ∧
      (u'.netloc = u.netloc ↔ NoDefaultPort e u) ∧ (eqKey u' = eqKey u ↔ NoDefaultPort e u) ∧
      (Url.beq u' u = true ↔ NoDefaultPort e u) ∧
      port e u' = port e u ∧ rawHost e u' = rawHost e u ∧ rawUser e u' = rawUser e u ∧
      rawPassword e u' = rawPassword e u ∧ CanonUrl e.b u' ∧ NetlocCanonB e u' := by
  cases hnet with
  | plain h =>
    obtain ⟨s, u', h1, h2, h3, h4, h5, h6, h7, h8, h9, h10, h11, h12, h13, h14, h15, h16⟩ :=
      C03_fixed_point_eq e u hc h hs hguards
    exact ⟨s, u', h1, h2, h3, h4, h5, h6, h7, h8, h9, h10, h11, h12, h13, h14, h15, NetlocCanonB.plain h16⟩
  | brk user pw t port hn hu hh hp hpre =>
    obtain ⟨h1, h2, h3, h4, h5, h6, h7, h8, h9, h10, h11, h12, _⟩ :=
      C03_bracket_fixed_point_of_canon e u hc hs user pw t port hn hu hh hp hpre
    have hnd : NoDefaultPort e u ↔ ∀ p, port = some p → some p ≠ defaultPort u.scheme := by
      unfold NoDefaultPort
      rw [h8]
      constructor
      · intro h p hp'; exact h p (by rw [hp'])
      · intro h p hp'
        simp only [Except.ok.injEq] at hp'
        exact h p hp'
    have hnl : strAuthB u.scheme user pw t port = u.netloc ↔ NoDefaultPort e u := by
      rw [hn, hnd]; exact strAuthB_eq_iff u.scheme user pw t port
    have hne : u.netloc ≠ [] := by rw [hn]; exact authTextB_ne_nil _ _ _ _
    have hne' : strAuthB u.scheme user pw t port ≠ [] := (strAuthB_block e u.scheme hu hh hp).1
    have hkey : eqKey (Url.mk u.scheme (strAuthB u.scheme user pw t port) (C07_strPath u) u.query u.fragment
        (some (preOf user pw t (strPort u.scheme port)))) = eqKey u ↔
        strAuthB u.scheme user pw t port = u.netloc := by
      constructor
      · intro h; exact congrArg Parts.netloc h
      · intro h
        unfold eqKey
        simp only
        rw [eqKey_path_strPath u _ (by rw [isEmpty_false hne', isEmpty_false hne]), h]
    refine ⟨_, _, h1, h2, h3, rfl, rfl, rfl, rfl, hnl, hkey.trans hnl, ?_, h10, ?_, h11, h12, h4, h5⟩
    · unfold Url.beq
      rw [decide_eq_true_iff]
      exact hkey.trans hnl
    · rw [h7, h6]

/-! ## Item 2 — strings `scheme://[user[:password]@][t][:port]path?query#fragment` -/

namespace BrHost

/-- the constructor on the text with these five components: the authority is stored WITH the brackets, the
    cache is `raw_host = t`, port, user, password (any port ≤ 65535, default or not) -/
theorem encode_canonTextB (e : Env) (scheme : Str) (user pw : Option Str) (t : Str) (port : Option Nat)
    (path query fragment : Str) (hs : SchemeOK' scheme) (hu : UserInfoOK e.b user pw) (hh : HostFixB e.o t)
    (hp : ∀ p, port = some p → p ≤ 65535) (hc : CompOK e.b path query fragment) :
    encodeUrl e (canonText scheme (authTextB user pw t port) path query fragment) =
      .ok (Url.mk scheme (authTextB user pw t port) path query fragment (some (preOf user pw t port))) := by
  have hne := authTextB_ne_nil user pw t port
  have hr := rootedP_of_rooted hc.rooted
  have hok := partsOK_build e.b scheme (authTextB user pw t port) path query fragment hs
    (authTextB_chars hu hh) (checkBrackets_authTextB _ hu hh) hc.pathC hc.queryC hc.fragmentC
    (fun _ => hr) (fun _ _ => hr) (fun _ h2 => absurd h2 hne)
  exact encode_unsplit e scheme _ path query fragment _ hok (netBlock_authTextB e scheme hu hh hp)
    hc.pathC hc.queryC hc.fragmentC (fun _ => IdGen.noDotSegments_of_compOK hc)

theorem strPath_compOK {b : Backend} {path query fragment : Str} (hc : CompOK b path query fragment)
    (u : Url) (h1 : u.path = path) (h2 : u.query = query) (h3 : u.fragment = fragment) : C07_strPath u = path := by
  unfold C07_strPath
  rw [h1, h2, h3]
  split
  · rename_i hcond
    simp only [Bool.and_eq_true, Bool.or_eq_true, List.isEmpty_iff, Bool.not_eq_true',
      List.isEmpty_eq_false_iff] at hcond
    obtain ⟨hq, hf⟩ := hc.nonempty hcond.1.1
    rcases hcond.2 with h | h
    · exact absurd hq h
    · exact absurd hf h
  · rfl

theorem canonUrl_compOK {b : Backend} {path query fragment : Str} (hc : CompOK b path query fragment)
    (scheme netloc : Str) (pre : Option NetPre) : CanonUrl b (Url.mk scheme netloc path query fragment pre) :=
  ⟨hc.pathC, hc.queryC, hc.fragmentC, fun _ => IdGen.noDotSegments_of_compOK hc,
    fun _ => rootedP_of_rooted hc.rooted⟩

theorem defaultPort_range {scheme : Str} {p : Nat} (h : some p = defaultPort scheme) : p ≤ 65535 := by
  have hall : ∀ x ∈ Gen.defaultPorts, x.2 ≤ 65535 := by decide
  unfold defaultPort at h
  cases hf : Gen.defaultPorts.find? (·.1 = scheme) with
  | none => rw [hf] at h; cases h
  | some x =>
    rw [hf] at h
    simp only [Option.map_some, Option.some.injEq] at h
    rw [h]
    exact hall x (List.mem_of_find?_eq_some hf)

end BrHost

/-- the text: `canonText` with a non-empty scheme is `scheme://authority path ?query #fragment`, without a scheme
    the network-path reference `//authority path…` -/
theorem C03_bracket_text (scheme : Str) (user pw : Option Str) (t : Str) (port : Option Nat)
    (path query fragment : Str) (hr : Rooted path) :
    (scheme ≠ [] → canonText scheme (authTextB user pw t port) path query fragment =
      composeUrl scheme (authTextB user pw t port) path query fragment) ∧
    (canonText [] (authTextB user pw t port) path query fragment =
      [47, 47] ++ authTextB user pw t port ++ path ++ qPart query ++ fPart fragment) :=
  ⟨fun hs => canonText_compose scheme _ path query fragment hs (authTextB_ne_nil _ _ _ _) (rootedP_of_rooted hr),
   canonText_network_path _ path query fragment (authTextB_ne_nil _ _ _ _) (rootedP_of_rooted hr)⟩

/-- ITEM 2, no default port written.  For the string `s = scheme://[user[:password]@][t][:port]path[?query][#fragment]`
    (or `//[…` without a scheme) around a bracketed non-IPv6 text `t`:
    the constructor stores the authority WITH the brackets and exactly the five components; `raw_host = t`,
    `explicit_port`, `raw_user`, `raw_password` are as written; `host_subcomponent` is `[t]` when ':' ∈ t but the
    BARE `t` when not (`bracket t`; see C03_bracket_host_subcomponent_bare); `host_port_subcomponent` is
    `hostPortSubB` (trailing dots stripped, brackets only around a text with ':'); `str` prints `s`; parsing `s`
    again gives the SAME URL (record equality, cache included). -/
theorem C03_bracket_fixed_point (e : Env) (scheme : Str) (user pw : Option Str) (t : Str) (port : Option Nat)
    (path query fragment : Str)
    (hs : SchemeOK' scheme)                       -- empty, or non-empty lower-case scheme characters
    (hu : UserInfoOK e.b user pw)                 -- ANY canonical userinfo
    (hh : HostFixB e.o t)                         -- `BracketText t` suffices (C03_bracket_hostFixB)
    (hp : PortOK scheme port)                     -- ANY port ≤ 65535 that is not the scheme default
                                                  -- (default port: C03_bracket_default_port)
    (hc : CompOK e.b path query fragment) :       -- ANY canonical path / query / fragment
    ∃ u, encodeUrl e (canonText scheme (authTextB user pw t port) path query fragment) = .ok u ∧
      u.scheme = scheme ∧ u.netloc = authTextB user pw t port ∧ u.path = path ∧ u.query = query ∧
      u.fragment = fragment ∧
      rawHost e u = .ok (some t) ∧ explicitPort e u = .ok port ∧ rawUser e u = .ok user ∧
      rawPassword e u = .ok pw ∧ hostSubcomponent e u = .ok (some (bracket t)) ∧
      hostPortSubcomponent e u = .ok (some (hostPortSubB scheme t port)) ∧
      str e u = .ok (canonText scheme (authTextB user pw t port) path query fragment) ∧
      (str e u >>= encodeUrl e) = .ok u := by
  have henc := encode_canonTextB e scheme user pw t port path query fragment hs hu hh hp.range hc
  refine ⟨_, henc, rfl, rfl, rfl, rfl, rfl, ?_⟩
  generalize hu' : Url.mk scheme (authTextB user pw t port) path query fragment (some (preOf user pw t port)) = u
    at henc ⊢
  have e1 : u.scheme = scheme := by rw [← hu']
  have e2 : u.netloc = authTextB user pw t port := by rw [← hu']
  have e3 : u.path = path := by rw [← hu']
  have e4 : u.query = query := by rw [← hu']
  have e5 : u.fragment = fragment := by rw [← hu']
  have hN : net e u = .ok (preOf user pw t port) := by rw [← hu']; rfl
  obtain ⟨a1, a2, a3, a4, a5, a6, _⟩ := accessors_authB e u user pw t port hN
  have hstr := str_authB e u user pw t port e2 hN
  rw [e1, strAuthB_other user pw t hp.notDefault, strPath_compOK hc u e3 e4 e5, e4, e5] at hstr
  rw [e1] at a6
  refine ⟨a1, a2, a3, a4, a5, a6, hstr, ?_⟩
  rw [hstr]
  exact henc

/-- "they re-add brackets only when ':' ∈ t": for `[v1.a]` (no colon) `host_subcomponent` and
    `host_port_subcomponent` come back BARE — "v1.a", "v1.a:8080" —, for `[v1.a:b]` bracketed -/
theorem C03_bracket_host_subcomponent_bare (scheme t : Str) (port : Option Nat) :
    (58 ∉ t → bracket t = t ∧ (t.getLast? ≠ some 46 → hostPortSubB scheme t port = hostPortStr t (strPort scheme port))) ∧
    (58 ∈ t → bracket t = [91] ++ t ++ [93] ∧
      (t.getLast? ≠ some 46 → hostPortSubB scheme t port = hostPortStr ([91] ++ t ++ [93]) (strPort scheme port))) := by
  constructor
  · intro h
    refine ⟨bracket_of_no_colon h, fun hl => ?_⟩
    unfold hostPortSubB
    rw [if_neg hl, bracket_of_no_colon h]
  · intro h
    refine ⟨bracket_of_colon h, fun hl => ?_⟩
    unfold hostPortSubB
    rw [if_neg hl, bracket_of_colon h]

/-- ITEM 2, the DEFAULT-PORT case.  `URL('https://[v1.a]:443/')`: the constructor still stores "[v1.a]:443", but
    `str` rebuilds the authority from `host_subcomponent` and prints `[user[:password]@]` + `bracket t` — WITHOUT
    brackets when `t` has no ':' ("https://v1.a/"), with them otherwise ("https://[v1.a:b]/").  The result IS a
    fixed point of parsing; `raw_host`, user, password and the effective `port` are preserved; the re-parsed URL
    has no explicit port, a different netloc, and is not `==` (as for every explicit default port:
    C03_headline_identical_netloc_fails_for_default_port).  Without ':' the re-parsed URL has an ordinary
    reg-name host (`NetlocCanon`, no bracket in the netloc): the IPvFuture literal silently became a reg-name. -/
theorem C03_bracket_default_port (e : Env) (scheme : Str) (user pw : Option Str) (t : Str) (p : Nat)
    (path query fragment : Str)
    (hs : SchemeOK' scheme) (hu : UserInfoOK e.b user pw) (hh : HostFixB e.o t)
    (hd : some p = defaultPort scheme)            -- the explicit port IS the scheme default
    (hc : CompOK e.b path query fragment) :
    ∃ u u', encodeUrl e (canonText scheme (authTextB user pw t (some p)) path query fragment) = .ok u ∧
      u.netloc = authTextB user pw t (some p) ∧
      str e u = .ok (canonText scheme (authText user pw t none) path query fragment) ∧
      encodeUrl e (canonText scheme (authText user pw t none) path query fragment) = .ok u' ∧
      str e u' = .ok (canonText scheme (authText user pw t none) path query fragment) ∧
      u'.scheme = scheme ∧ u'.netloc = authText user pw t none ∧ u'.path = path ∧ u'.query = query ∧
      u'.fragment = fragment ∧
      (58 ∈ t → u'.netloc = authTextB user pw t none) ∧
      (58 ∉ t → 91 ∉ u'.netloc ∧ NetlocCanon e u') ∧ NetlocCanonB e u' ∧
      rawHost e u = .ok (some t) ∧ rawHost e u' = .ok (some t) ∧
      explicitPort e u = .ok (some p) ∧ explicitPort e u' = .ok none ∧
      port e u = .ok (some p) ∧ port e u' = .ok (some p) ∧
      rawUser e u' = rawUser e u ∧ rawPassword e u' = rawPassword e u ∧
      u'.netloc ≠ u.netloc ∧ Url.beq u' u = false := by
  have hr : ∀ q, some p = some q → q ≤ 65535 := fun q hq => by cases hq; exact defaultPort_range hd
  have henc := encode_canonTextB e scheme user pw t (some p) path query fragment hs hu hh hr hc
  generalize hu0 : Url.mk scheme (authTextB user pw t (some p)) path query fragment
    (some (preOf user pw t (some p))) = u0 at henc
  have e1 : u0.scheme = scheme := by rw [← hu0]
  have e2 : u0.netloc = authTextB user pw t (some p) := by rw [← hu0]
  have e3 : u0.path = path := by rw [← hu0]
  have e4 : u0.query = query := by rw [← hu0]
  have e5 : u0.fragment = fragment := by rw [← hu0]
  have e6 : u0.pre = some (preOf user pw t (some p)) := by rw [← hu0]
  have hcu : CanonUrl e.b u0 := by rw [← hu0]; exact canonUrl_compOK hc _ _ _
  obtain ⟨h1, h2, h3, h4, h5, h6, h7, h8, h9, h10, h11, h12, _⟩ :=
    C03_bracket_fixed_point_of_canon e u0 hcu (e1 ▸ hs) user pw t (some p) e2 hu hh hr (Or.inr e6)
  simp only [e1, e4, e5, strPath_compOK hc u0 e3 e4 e5, strAuthB_default user pw t hd, strPort_default hd]
    at h1 h2 h3 h4 h5 h7 h9 h10 h11 h12
  have hport : port e u0 = .ok (some p) := by rw [← hu0]; rfl
  have hnl : authText user pw t none ≠ authTextB user pw t (some p) := by
    intro h
    have := (strAuthB_eq_iff scheme user pw t (some p)).1 (by rw [strAuthB_default user pw t hd]; exact h) p rfl
    exact this hd
  refine ⟨_, _, henc, e2, h1, h2, h3, rfl, rfl, rfl, rfl, rfl, ?_, ?_, h5, h6, h7, h8, h9, hport, ?_, h11, h12,
    by rw [e2]; exact hnl, ?_⟩
  · intro h58; exact (authTextB_colon user pw none h58).symm
  · intro h58
    have hf := hostFix_of_no_colon hh h58
    exact ⟨authText_no91 none hu hf h58,
      NetlocCanon.auth user pw t none rfl hu hf (fun q hq => by cases hq) (Or.inr rfl)⟩
  · rw [h10]; exact hport
  · unfold Url.beq
    rw [decide_eq_false_iff_not]
    intro h
    exact hnl ((congrArg Parts.netloc h).trans e2)

/-! ## Item 3, INPUT side — the constructor on any string whose authority names a bracketed non-IPv6 host -/

/-- "syntactically valid host", INPUT side, extended: `AuthInput o n` (Lemmas/NetShape.lean), or `split_netloc`
    accepts the authority, the host part was written in brackets, and the text `T` between them is a bracketed
    non-IPv6 text IN ANY LETTER CASE whose lower-cased form still passes the bracket check (automatic unless `T`
    starts with an upper-case 'V': `C03_bracket_check_lower`; needed: `C03_bracket_upper_v_counterexample`) -/
def AuthInputB (o : Oracles) (n : Str) : Prop :=
  AuthInput o n ∨ ∃ np T, splitNetloc o n = .ok np ∧ np.host = some T ∧ 91 ∈ (rpartition 64 n).2.2 ∧
    BracketTextIn T ∧ bracketCheck (lower T) = true

theorem C03_bracket_check_lower {T : Str} (hV : T.head? ≠ some 86) (h : bracketCheck T = true) :
    bracketCheck (lower T) = true := bracketCheck_lower hV h

/-- an IPvFuture text is never an IP literal, so for it the clause `notV6` of `BracketTextIn` is automatic; the two
    families of stored texts: IPvFuture `v<hex>+.<char>+`, and text with ':' that does not start with 'v' and is no
    IPv6 literal -/
theorem C03_bracket_families :
    (∀ r : Str, parseIP (partition 37 (118 :: r)).1 = none) ∧
    (∀ t : Str, (∀ c ∈ t, textChar c = true) → (∀ c ∈ t, ¬ (65 ≤ c ∧ c ≤ 90)) → ipvFutureOk t = true →
      BracketText t) ∧
    (∀ t : Str, (∀ c ∈ t, textChar c = true) → (∀ c ∈ t, ¬ (65 ≤ c ∧ c ≤ 90)) → 58 ∈ t → t.head? ≠ some 118 →
      (∀ h8, parseIP (partition 37 t).1 ≠ some (.v6 h8)) → BracketText t) :=
  ⟨notIP_of_v, fun _ h1 h2 h3 => bracketText_ipvFuture h1 h2 h3,
   fun _ h1 h2 h3 h4 h5 => bracketText_colon h1 h2 h3 h4 h5⟩

/-- the constructor on such input: the stored authority is `[user[:pw]@][t][:port]` with `t` the lower-cased `T`
    (or `T` itself for an IPv4 literal with a zone id containing ':', which `_encode_host` copies verbatim) -/
theorem C03_bracket_encodeUrl_shape (e : Env) (s : Str) (u : Url) (pt : Parts) (np : NetlocParts) (T : Str)
    (hs : PyStr s) (hu : encodeUrl e s = .ok u) (hpt : splitUrl e.o s = .ok pt)
    (hsp : splitNetloc e.o pt.netloc = .ok np) (hhost : np.host = some T)
    (hwrap : 91 ∈ (rpartition 64 pt.netloc).2.2) (hk : BracketTextIn T) (hlow : bracketCheck (lower T) = true) :
    ∃ user pw t, u.netloc = authTextB user pw t np.port ∧ UserInfoOK e.b user pw ∧ HostFixB e.o t ∧
      (t = lower T ∨ t = T) ∧ u.pre = some (preOf user pw t np.port) ∧ (∀ p, np.port = some p → p ≤ 65535) := by
  obtain ⟨p, netloc, pre, hp, hn0, rfl⟩ := encodeUrl_inv e s u hu
  rw [hpt] at hp
  cases hp
  have hne : pt.netloc ≠ [] := by
    intro h
    rw [h] at hwrap
    exact absurd (ParseLemmas.mem_of_mem_rpartition_snd_snd hwrap) (by simp)
  obtain ⟨user, pw, t, h1, h2, h3, h4, h5⟩ := netBlock_shapeB e pt.scheme pt.netloc np T netloc pre hne
    (WfLemmas.splitUrl_pyStr e.o s hs pt hpt).1 hsp hhost hk hlow hwrap hn0
  exact ⟨user, pw, t, h1, h2, h3, h4, h5, fun q hq => splitNetloc_port_range e.o pt.netloc np q hsp hq⟩

/-- ITEM 3, input side: the constructor on a Python string whose authority satisfies `AuthInputB` produces a URL
    with `NetlocCanonB` (extends `C03_encodeUrl_netlocCanon`) -/
theorem C03_bracket_encodeUrl_netlocCanonB (e : Env) (s : Str) (u : Url) (pt : Parts) (hs : PyStr s)
    (hu : encodeUrl e s = .ok u) (hpt : splitUrl e.o s = .ok pt) (ha : AuthInputB e.o pt.netloc) :
    NetlocCanonB e u := by
  rcases ha with ha | ⟨np, T, hsp, hhost, hwrap, hk, hlow⟩
  · exact NetlocCanonB.plain (C03_encodeUrl_netlocCanon e s u pt hs hu hpt ha)
  · obtain ⟨user, pw, t, h1, h2, h3, _, h5, h6⟩ :=
      C03_bracket_encodeUrl_shape e s u pt np T hs hu hpt hsp hhost hwrap hk hlow
    exact NetlocCanonB.brk user pw t np.port h1 h2 h3 h6 (Or.inr h5)

/-- ITEM 3, input side, the fixed point: `C03_constructor_fixed_point` with `AuthInputB` — hypotheses on the INPUT
    TEXT only (plus the two recorded exclusions `C03Guards`, which are vacuous under an authority) -/
theorem C03_bracket_constructor_fixed_point (e : Env) (s : Str) (u : Url) (pt : Parts) (hs : PyStr s)
    (hu : encodeUrl e s = .ok u) (hpt : splitUrl e.o s = .ok pt) (ha : AuthInputB e.o pt.netloc)
    (hg : C03Guards u) :
    ∃ t u', str e u = .ok t ∧ encodeUrl e t = .ok u' ∧ str e u' = .ok t ∧ u'.scheme = u.scheme ∧
      u'.path = C07_strPath u ∧ u'.query = u.query ∧ u'.fragment = u.fragment ∧
      (u'.netloc = u.netloc ↔ NoDefaultPort e u) ∧ (eqKey u' = eqKey u ↔ NoDefaultPort e u) ∧
      (Url.beq u' u = true ↔ NoDefaultPort e u) ∧
      port e u' = port e u ∧ rawHost e u' = rawHost e u ∧ rawUser e u' = rawUser e u ∧
      rawPassword e u' = rawPassword e u ∧ CanonUrl e.b u' ∧ NetlocCanonB e u' :=
  C03_fixed_point_of_canonB e u (C03_encodeUrl_canon e s hs u hu)
    (C03_bracket_encodeUrl_netlocCanonB e s u pt hs hu hpt ha) (C03_encodeUrl_scheme e s u hs hu) hg

/-! ## Item 3, `build(authority=…)` and the 19 operations -/

/-- `build(encoded=False, authority=…)` on an authority naming a bracketed non-IPv6 host: `NetlocCanonB`, the
    lowered scheme, and no default port stored (as for every `build`) -/
theorem C03_bracket_build_netlocCanonB (e : Env) (a : BuildArgs) (u : Url) (np : NetlocParts) (T : Str)
    (henc : a.encoded = false) (hpy : PyStr a.authority)
    (hsp : splitNetloc e.o a.authority = .ok np) (hhost : np.host = some T)
    (hwrap : 91 ∈ (rpartition 64 a.authority).2.2) (hk : BracketTextIn T) (hlow : bracketCheck (lower T) = true)
    (hb : build e a = .ok u) :
    NetlocCanonB e u ∧ NoDefaultPort e u ∧ lowerAny e a.scheme = .ok u.scheme := by
  obtain ⟨sc, user, pw, t, h1, h2, h3, h4, h5, _, h7, h8⟩ := build_shapeB e a u np T henc hpy hsp hhost hwrap hk hlow hb
  refine ⟨NetlocCanonB.brk user pw t _ h3 h4 h5 h8 (Or.inl h7), ?_, by rw [h2]; exact h1⟩
  have hN := net_authB e u user pw t _ h3 h4 h5.ok h8 (Or.inl h7)
  intro p hp
  rw [(accessors_authB e u user pw t _ hN).2.1] at hp
  simp only [Except.ok.injEq] at hp
  rw [h2]
  exact strPort_notDefault sc np.port p hp

/-- … and its fixed point; here `URL(str(u)) == u` holds unconditionally (`build` never stores a default port) -/
theorem C03_bracket_build_fixed_point (e : Env) (a : BuildArgs) (u : Url) (np : NetlocParts) (T : Str)
    (henc : a.encoded = false) (hpy : BuildArgsPy a) (hapy : PyStr a.authority)
    (hsp : splitNetloc e.o a.authority = .ok np) (hhost : np.host = some T)
    (hwrap : 91 ∈ (rpartition 64 a.authority).2.2) (hk : BracketTextIn T) (hlow : bracketCheck (lower T) = true)
    (hsch : SchemeChars a.scheme) (hb : build e a = .ok u) (hg : C03Guards u) :
    ∃ t u', str e u = .ok t ∧ encodeUrl e t = .ok u' ∧ str e u' = .ok t ∧ u'.scheme = u.scheme ∧
      u'.path = C07_strPath u ∧ u'.query = u.query ∧ u'.fragment = u.fragment ∧
      u'.netloc = u.netloc ∧ eqKey u' = eqKey u ∧ Url.beq u' u = true ∧
      port e u' = port e u ∧ rawHost e u' = rawHost e u ∧ rawUser e u' = rawUser e u ∧
      rawPassword e u' = rawPassword e u ∧ CanonUrl e.b u' ∧ NetlocCanonB e u' ∧ u.scheme = lower a.scheme := by
  obtain ⟨hn, hnd, hl⟩ := C03_bracket_build_netlocCanonB e a u np T henc hapy hsp hhost hwrap hk hlow hb
  obtain ⟨hl', hok'⟩ := lowerAny_schemeChars e hsch
  have hsc' : u.scheme = lower a.scheme := by
    rw [hl'] at hl; exact (Except.ok.inj hl).symm
  obtain ⟨t, u', k1, k2, k3, k4, k5, k6, k7, k8, k9, k10, k11, k12, k13, k14, k15, k16⟩ :=
    C03_fixed_point_of_canonB e u (C03_build_canon e a u henc hpy hb) hn (by rw [hsc']; exact hok') hg
  exact ⟨t, u', k1, k2, k3, k4, k5, k6, k7, k8.2 hnd, k9.2 hnd, k10.2 hnd, k11, k12, k13, k14, k15, k16, hsc'⟩

/-- the side condition on authority-writing arguments, extended: a `join` reference may carry a bracketed
    non-IPv6 host (`with_host` is as in `UOp.NetArgs`: its argument is validated, so it is never such a host) -/
def UOp.NetArgsB (e : Env) : UOp → Prop
  | .withHost s => ∀ eh, encodeHost e.o s true = .ok eh → ∃ host, eh = bracket host ∧ HostFix e.o host
  | .joinRef ref => NetlocCanonB e ref
  | _ => True

theorem UOp.NetArgs.toB {e : Env} {op : UOp} (h : op.NetArgs e) : op.NetArgsB e := by
  cases op <;> first | exact h | exact NetlocCanonB.plain h | trivial

namespace BrHost

theorem netlocCanonB_of_keeps {e : Env} {u v : Url} (h : NetlocCanonB e u) (hk : Keeps u v) : NetlocCanonB e v := by
  cases h with
  | plain h => exact NetlocCanonB.plain (netlocCanon_of_keeps h hk)
  | brk user pw t port h1 h2 h3 h4 h5 =>
    obtain ⟨hn, hp⟩ := hk
    refine NetlocCanonB.brk user pw t port (hn.trans h1) h2 h3 h4 ?_
    rcases hp with hp | hp
    · exact Or.inl hp
    · rcases h5 with h5 | h5
      · exact Or.inl (hp.trans h5)
      · exact Or.inr (hp.trans h5)

/-- the authority the modifiers write around `host_subcomponent` = `bracket t`: with a ':' in `t` it is again a
    bracketed authority; without, the brackets are gone and `t` is an ordinary reg-name host -/
theorem netlocCanonB_authText (e : Env) (s p q f : Str) (user pw : Option Str) (host : Str) (port : Option Nat)
    (hu : ∀ x, user = some x → Canon (Gen.REQUOTER.tab e.b) x) (hw : ∀ x, pw = some x → Canon (Gen.REQUOTER.tab e.b) x)
    (hh : HostFix e.o host ∨ HostFixB e.o host) (hp : ∀ x, port = some x → x ≤ 65535) :
    NetlocCanonB e (fromParts s (makeNetloc (Yarl.q e Gen.QUOTER) user pw (some (bracket host)) port false) p q f) := by
  rcases hh with hh | hh
  · exact NetlocCanonB.plain (netlocCanon_authText e s p q f user pw host port hu hw hh hp)
  · by_cases h58 : 58 ∈ host
    · rw [bracket_of_colon h58]
      obtain ⟨user', heq, hui⟩ := makeNetloc_authTextB e user pw host port hu hw
      exact NetlocCanonB.brk user' pw host port heq hui hh hp (Or.inl rfl)
    · exact NetlocCanonB.plain
        (netlocCanon_authText e s p q f user pw host port hu hw (hostFix_of_no_colon hh h58) hp)

theorem join_netlocCanonB (e : Env) (base ref : Url) (hb : NetlocCanonB e base) (hr : NetlocCanonB e ref) :
    NetlocCanonB e (join e base ref) := by
  unfold join
  simp only
  generalize (if (!ref.scheme.isEmpty) = true then ref.scheme else base.scheme) = scheme
  split
  · exact hr
  · split
    · exact netlocCanonB_of_keeps hr (keeps_fromParts ref _ _ _ _)
    · exact netlocCanonB_of_keeps hb (keeps_fromParts base _ _ _ _)

end BrHost

/-- every operation keeps `NetlocCanonB` (extends `C03_applyOp_netlocCanon`).  Note what the authority-writing
    modifiers do to a bracketed host WITHOUT ':' ("[v1.a]"): `with_user`, `with_password`, `with_port`, `origin`
    rebuild the authority from `host_subcomponent`, so the brackets are dropped and the result has the reg-name
    host "v1.a" (still a valid stored authority, `NetlocCanon`); with a ':' inside the brackets are kept. -/
theorem C03_applyOp_netlocCanonB (e : Env) (u : Url) (hn : NetlocCanonB e u) (op : UOp) (ha : op.ArgsPy e.b)
    (hx : op.NetArgsB e) (v : Url) : applyOp e u op = .ok v → NetlocCanonB e v := by
  intro h
  have hauth : u.netloc ≠ [] → ∃ user pw host port, UserInfoOK e.b user pw ∧ (HostFix e.o host ∨ HostFixB e.o host) ∧
      (∀ p, port = some p → p ≤ 65535) ∧ net e u = .ok (preOf user pw host port) := by
    intro hne
    cases hn with
    | plain hn =>
      cases hn with
      | empty h1 _ => exact absurd h1 hne
      | auth user pw host port h1 h2 h3 h4 h5 =>
        exact ⟨user, pw, host, port, h2, Or.inl h3, h4, net_auth e u user pw host port h1 h2 h3 h4 h5⟩
    | brk user pw t port h1 h2 h3 h4 h5 =>
      exact ⟨user, pw, t, port, h2, Or.inr h3, h4, net_authB e u user pw t port h1 h2 h3.ok h4 h5⟩
  cases op with
  | withScheme s => exact netlocCanonB_of_keeps hn (applyOp_keeps e u _ v h trivial)
  | withPath s kq kf => exact netlocCanonB_of_keeps hn (applyOp_keeps e u _ v h trivial)
  | withQuery a => exact netlocCanonB_of_keeps hn (applyOp_keeps e u _ v h trivial)
  | extendQuery a => exact netlocCanonB_of_keeps hn (applyOp_keeps e u _ v h trivial)
  | updateQuery a => exact netlocCanonB_of_keeps hn (applyOp_keeps e u _ v h trivial)
  | withoutQueryParams ns => exact netlocCanonB_of_keeps hn (applyOp_keeps e u _ v h trivial)
  | withFragment f => exact netlocCanonB_of_keeps hn (applyOp_keeps e u _ v h trivial)
  | withName s kq kf => exact netlocCanonB_of_keeps hn (applyOp_keeps e u _ v h trivial)
  | withSuffix s kq kf => exact netlocCanonB_of_keeps hn (applyOp_keeps e u _ v h trivial)
  | child paths => exact netlocCanonB_of_keeps hn (applyOp_keeps e u _ v h trivial)
  | parent => exact netlocCanonB_of_keeps hn (applyOp_keeps e u _ v h trivial)
  | copy => exact netlocCanonB_of_keeps hn (applyOp_keeps e u _ v h trivial)
  | relative =>
    simp only [applyOp] at h
    unfold relative at h
    split at h
    · cases h
    · cases h; exact NetlocCanonB.plain (NetlocCanon.empty rfl rfl)
  | joinRef ref => cases h; exact join_netlocCanonB e u ref hn hx
  | origin =>
    simp only [applyOp] at h
    unfold origin at h
    split at h
    · cases h
    · rename_i hne
      split at h
      · cases h
      · split at h
        · obtain ⟨hh, hhs, h⟩ := WfLemmas.bind_ok h
          obtain ⟨p, hp, h⟩ := WfLemmas.bind_ok h
          cases h
          obtain ⟨user, pw, host, port, _, h3, h4, hN⟩ := hauth (ne_nil_of_isEmpty_ne hne)
          obtain ⟨a1, _, _, a4⟩ := accessors_auth e u user pw host port hN
          rw [a1] at hhs; cases hhs
          rw [a4] at hp; cases hp
          exact netlocCanonB_authText e _ _ _ _ none none _ _ (fun x hx => by cases hx)
            (fun x hx => by cases hx) h3 h4
        · split at h
          · cases h; exact hn
          · cases h; exact netlocCanonB_of_keeps hn (keeps_fromParts u _ _ _ _)
  | withPort p k =>
    simp only [applyOp] at h
    unfold withPort at h
    obtain ⟨_, h⟩ := WfLemmas.ite_err_ok h
    obtain ⟨hrange, h⟩ := WfLemmas.ite_err_ok h
    obtain ⟨hne, h⟩ := WfLemmas.ite_err_ok h
    obtain ⟨h1, hhs, h⟩ := WfLemmas.bind_ok h
    obtain ⟨ru, hru, h⟩ := WfLemmas.bind_ok h
    obtain ⟨rp, hrp, h⟩ := WfLemmas.bind_ok h
    cases h
    obtain ⟨user, pw, host, port, h2, h3, _, hN⟩ := hauth (ne_nil_of_isEmpty_ne hne)
    obtain ⟨a1, a2, a3, _⟩ := accessors_auth e u user pw host port hN
    rw [a1] at hhs; cases hhs
    rw [a2] at hru; cases hru
    rw [a3] at hrp; cases hrp
    refine netlocCanonB_authText e _ _ _ _ _ _ _ _ (fun x hx => (h2.user x hx).2) h2.pw h3 ?_
    intro x hx
    cases p with
    | none => cases hx
    | some pi =>
      simp only [Bool.not_eq_true', decide_eq_false_iff_not, Decidable.not_not, Option.map_some,
        Option.some.injEq] at hrange hx
      omega
  | withHost s =>
    simp only [applyOp] at h
    unfold withHost at h
    split at h
    · cases h
    · rename_i hne
      split at h
      · cases h
      · obtain ⟨eh, heh, h⟩ := WfLemmas.bind_ok h
        obtain ⟨p, hp, h⟩ := WfLemmas.bind_ok h
        obtain ⟨ru, hru, h⟩ := WfLemmas.bind_ok h
        obtain ⟨rp, hrp, h⟩ := WfLemmas.bind_ok h
        cases h
        obtain ⟨user, pw, host, port, h2, _, h4, hN⟩ := hauth (ne_nil_of_isEmpty_ne hne)
        obtain ⟨_, a2, a3, a4⟩ := accessors_auth e u user pw host port hN
        rw [a4] at hp; cases hp
        rw [a2] at hru; cases hru
        rw [a3] at hrp; cases hrp
        obtain ⟨host', rfl, hh'⟩ := hx eh heh
        exact netlocCanonB_authText e _ _ _ _ _ _ host' _ (fun x hx => (h2.user x hx).2) h2.pw (Or.inl hh') h4
  | withUser s =>
    simp only [applyOp] at h
    unfold withUser at h
    obtain ⟨⟨usr', pw'⟩, hup, h⟩ := WfLemmas.bind_ok h
    simp only at h
    split at h
    · cases h
    · rename_i hne
      obtain ⟨h1, hhs, h⟩ := WfLemmas.bind_ok h
      obtain ⟨p, hp, h⟩ := WfLemmas.bind_ok h
      cases h
      obtain ⟨user, pw, host, port, h2, h3, h4, hN⟩ := hauth (ne_nil_of_isEmpty_ne hne)
      obtain ⟨a1, _, a3, a4⟩ := accessors_auth e u user pw host port hN
      rw [a1] at hhs; cases hhs
      rw [a4] at hp; cases hp
      cases s with
      | none =>
        cases hup
        exact netlocCanonB_authText e _ _ _ _ none none _ _ (fun x hx => by cases hx)
          (fun x hx => by cases hx) h3 h4
      | some x =>
        simp only at hup
        obtain ⟨rp, hrp, hup⟩ := WfLemmas.bind_ok hup
        cases hup
        rw [a3] at hrp; cases hrp
        exact netlocCanonB_authText e _ _ _ _ (some (Yarl.q e Gen.QUOTER x)) _ _ _
          (fun y hy => by cases hy; exact q_quoter_canon e x (ha x rfl)) h2.pw h3 h4
  | withPassword s =>
    simp only [applyOp] at h
    unfold withPassword at h
    simp only at h
    split at h
    · cases h
    · rename_i hne
      obtain ⟨h1, hhs, h⟩ := WfLemmas.bind_ok h
      obtain ⟨p, hp, h⟩ := WfLemmas.bind_ok h
      obtain ⟨ru, hru, h⟩ := WfLemmas.bind_ok h
      cases h
      obtain ⟨user, pw, host, port, h2, h3, h4, hN⟩ := hauth (ne_nil_of_isEmpty_ne hne)
      obtain ⟨a1, a2, _, a4⟩ := accessors_auth e u user pw host port hN
      rw [a1] at hhs; cases hhs
      rw [a4] at hp; cases hp
      rw [a2] at hru; cases hru
      refine netlocCanonB_authText e _ _ _ _ _ (s.map (Yarl.q e Gen.QUOTER)) _ _ (fun x hx => (h2.user x hx).2) ?_ h3 h4
      intro y hy
      cases s with
      | none => cases hy
      | some x =>
        simp only [Option.map_some, Option.some.injEq] at hy
        subst hy
        exact q_quoter_canon e x (ha x rfl)

/-- a sequence of operations keeps `NetlocCanonB` -/
theorem C03_applyOps_netlocCanonB (e : Env) (ops : List UOp) : ∀ (u v : Url), NetlocCanonB e u →
    (∀ op ∈ ops, op.ArgsPy e.b ∧ op.NetArgsB e) → applyOps e u ops = .ok v → NetlocCanonB e v := by
  induction ops with
  | nil =>
    intro u v hu _ h
    simp only [applyOps, List.foldlM_nil, pure, Except.pure] at h
    cases h; exact hu
  | cons op rest ih =>
    intro u v hu ha h
    simp only [applyOps, List.foldlM_cons] at h
    obtain ⟨w, hw, h⟩ := WfLemmas.bind_ok h
    exact ih w v (C03_applyOp_netlocCanonB e u hu op (ha op (by simp)).1 (ha op (by simp)).2 w hw)
      (fun o ho => ha o (by simp [ho])) h

/-- END TO END with input-side hypotheses only (extends `C03_op_sequence_fixed_point'`): the constructor on a
    Python string whose authority satisfies `AuthInputB`, followed by ANY finite sequence of the 19 operations -/
theorem C03_bracket_op_sequence_fixed_point (e : Env) (s : Str) (pt : Parts) (ops : List UOp) (u v : Url)
    (hs : PyStr s) (hu : encodeUrl e s = .ok u) (hpt : splitUrl e.o s = .ok pt)
    (ha : AuthInputB e.o pt.netloc)
    (hops : ∀ op ∈ ops, op.ArgsCanon e.b ∧ op.NetArgsB e)
    (hv : applyOps e u ops = .ok v) (hsch : SchemeOK' v.scheme) (hg : C03Guards v) :
    ∃ t v', str e v = .ok t ∧ encodeUrl e t = .ok v' ∧ str e v' = .ok t ∧ v'.scheme = v.scheme ∧
      v'.path = C07_strPath v ∧ v'.query = v.query ∧ v'.fragment = v.fragment ∧
      (v'.netloc = v.netloc ↔ NoDefaultPort e v) ∧ (eqKey v' = eqKey v ↔ NoDefaultPort e v) ∧
      (Url.beq v' v = true ↔ NoDefaultPort e v) ∧
      port e v' = port e v ∧ rawHost e v' = rawHost e v ∧ rawUser e v' = rawUser e v ∧
      rawPassword e v' = rawPassword e v ∧ CanonUrl e.b v' ∧ NetlocCanonB e v' := by
  have hc := C03_op_sequence_canon e s ops u v hs (fun op hop => (hops op hop).1) hu hv
  have hn := C03_applyOps_netlocCanonB e ops u v (C03_bracket_encodeUrl_netlocCanonB e s u pt hs hu hpt ha)
    (fun op hop => ⟨(hops op hop).1.toPy, (hops op hop).2⟩) hv
  exact C03_fixed_point_of_canonB e v hc hn hsch hg

/-! ## Item 1 — which conditions of `BracketText` are needed -/

private def ePy : Env := ⟨.py, Oracles.empty⟩

/-- LOWER CASE is needed for the identity `str(URL(s)) = s`, NOT for the fixed point: URL('http://[V1.A:B]/')
    stores "[v1.a:b]" and prints "http://[v1.a:b]/", which is a fixed point (covered by `AuthInputB`:
    `C03_bracket_constructor_fixed_point`) -/
theorem C03_bracket_upper_case_lowered :
    ∃ u, encodeUrl ePy "http://[V1.A:B]/".toStr = .ok u ∧ u.netloc = "[v1.a:b]".toStr ∧
      str ePy u = .ok "http://[v1.a:b]/".toStr ∧ encodeUrl ePy "http://[v1.a:b]/".toStr = .ok u ∧
      BracketTextIn "V1.A:B".toStr ∧ ¬ BracketText "V1.A:B".toStr ∧ BracketText "v1.a:b".toStr :=
  ⟨urlOf "http".toStr "[v1.a:b]".toStr [47] [] [] (preHost "v1.a:b".toStr),
   by decide +kernel, rfl, by decide +kernel, by decide +kernel,
   bracketTextInB_sound (by decide +kernel), fun h => absurd (h.lower 86 (by decide)) (by decide),
   bracketTextB_sound (by decide +kernel)⟩

/-- SURPRISE (a further member of F-C03-bracket): the IPvFuture test of `split_url` looks for a LOWER-CASE 'v'
    only, but the host is lower-cased afterwards.  URL('http://[V:b]/') is accepted (the text has a ':'), stores
    "[v:b]", prints "http://[v:b]/" — and that string is REJECTED when read again ("IPvFuture address is
    invalid").  So `bracketCheck (lower T)` in `AuthInputB` is needed.  Python: `URL(str(URL('http://[V:b]/')))`
    raises ValueError; also '[V1:a]', '[Vx.a:b]'. -/
theorem C03_bracket_upper_v_counterexample :
    ∃ u, encodeUrl ePy "http://[V:b]/".toStr = .ok u ∧ u.netloc = "[v:b]".toStr ∧
      str ePy u = .ok "http://[v:b]/".toStr ∧ encodeUrl ePy "http://[v:b]/".toStr = .error .valueError ∧
      BracketTextIn "V:b".toStr ∧ bracketCheck (lower "V:b".toStr) = false :=
  ⟨urlOf "http".toStr "[v:b]".toStr [47] [] [] (preHost "v:b".toStr),
   by decide +kernel, rfl, by decide +kernel, by decide +kernel,
   bracketTextInB_sound (by decide +kernel), by decide +kernel⟩

/-- "NOT an IPv6 literal" is what separates this family from the IPv6 one: "[0:0:0:0:0:0:0:1]" satisfies every
    other clause of `BracketText` but is stored compressed, "[::1]" (a `HostFix` host) -/
theorem C03_bracket_not_v6_needed :
    (∀ c ∈ "0:0:0:0:0:0:0:1".toStr, textChar c = true) ∧ bracketCheck "0:0:0:0:0:0:0:1".toStr = true ∧
    ¬ BracketText "0:0:0:0:0:0:0:1".toStr ∧
    (encodeUrl ePy "http://[0:0:0:0:0:0:0:1]/".toStr).map (·.netloc) = .ok "[::1]".toStr :=
  ⟨by decide, by decide +kernel,
   fun h => h.notV6 [0, 0, 0, 0, 0, 0, 0, 1] (by decide +kernel), by decide +kernel⟩

/-- the excluded characters: '/' (likewise '?', '#') ends the authority, so the bracket never closes and the
    constructor raises; a second ']' ends the host early and the rest is dropped ("[a:]b]" is stored "[a:]");
    TAB (likewise CR, LF) is removed by `split_url` ("[a:<TAB>b]" is stored "[a:b]"); '@' and '[' inside the
    brackets are the recorded members of F-C03-bracket (`C03_headline_valid_host_fails_for_bracket_in_host`,
    `C03_headline_fails_for_malformed_brackets`).  '%' is NOT excluded: "[a:b%::1]", "[v1.a%b]" are fixed points
    (non-vacuity examples below) — the only '%'-related clause is "the text before '%' is no IPv6 literal". -/
theorem C03_bracket_chars_needed :
    encodeUrl ePy "http://[a:/b]/".toStr = .error .valueError ∧
    encodeUrl ePy "http://[a:?b]/".toStr = .error .valueError ∧
    encodeUrl ePy "http://[a:#b]/".toStr = .error .valueError ∧
    (encodeUrl ePy "http://[a:]b]/".toStr).bind (str ePy) = .ok "http://[a:]/".toStr ∧
    (encodeUrl ePy ("http://[a:".toStr ++ [9] ++ "b]/".toStr)).bind (str ePy) = .ok "http://[a:b]/".toStr := by
  refine ⟨by decide +kernel, by decide +kernel, by decide +kernel, by decide +kernel, by decide +kernel⟩

/-- the bound "visible" (33 ≤ c) of `textChar` is NOT sharp: a SPACE inside the brackets is outside `BracketText`
    (the composition lemmas `splitUrl_compose` / `C07_split_unsplit` ask for visible text), yet "http://[a: b]/" is
    a fixed point in the model and in the library.  Only TAB / CR / LF (removed by `split_url`,
    `C03_bracket_chars_needed`) are needed exclusions below 33.  Non-ASCII text goes through IDNA (an oracle) and is
    outside this family altogether. -/
theorem C03_bracket_space_not_covered :
    ¬ BracketText "a: b".toStr ∧
    (encodeUrl ePy "http://[a: b]/".toStr).bind (str ePy) = .ok "http://[a: b]/".toStr :=
  ⟨fun h => absurd (h.chars 32 (by decide)) (by decide), by decide +kernel⟩

/-- "identical scheme, user, password, host, port, path, query and fragment" (the wording of
    `C03_headline_identical_components`) for `NetlocCanonB`: raw and decoded user, password and host, the effective
    port, query and fragment are identical; the path is the path `str` wrote -/
theorem C03_bracket_identical_components (e : Env) (u : Url) (hc : CanonUrl e.b u) (hnet : NetlocCanonB e u)
    (hscheme : SchemeOK' u.scheme) (hguards : C03Guards u) :
    ∃ s u', str e u = .ok s ∧ encodeUrl e s = .ok u' ∧ str e u' = .ok s ∧ u'.scheme = u.scheme ∧
      rawUser e u' = rawUser e u ∧ user e u' = user e u ∧
      rawPassword e u' = rawPassword e u ∧ password e u' = password e u ∧
      rawHost e u' = rawHost e u ∧ host e u' = host e u ∧ port e u' = port e u ∧
      u'.path = C07_strPath u ∧ u'.query = u.query ∧ u'.fragment = u.fragment := by
  obtain ⟨s, u', h1, h2, h3, h4, h5, h6, h7, _, _, _, h11, h12, h13, h14, _⟩ :=
    C03_fixed_point_of_canonB e u hc hnet hscheme hguards
  refine ⟨s, u', h1, h2, h3, h4, h13, ?_, h14, ?_, h12, ?_, h11, h5, h6, h7⟩
  · unfold user; rw [h13]
  · unfold password; rw [h14]
  · unfold host; rw [h12]

/-- what the authority-writing modifiers do to a bracketed host: `with_port`, `with_user` (likewise
    `with_password`, and `origin()` when a userinfo is present) rebuild the authority from `host_subcomponent`.
    WITHOUT a ':' the brackets are dropped — URL('http://[v1.a]/p').with_port(81) is 'http://v1.a:81/p' — with a
    ':' they are kept.  Both results are valid stored authorities (`C03_applyOp_netlocCanonB`), `raw_host` is kept. -/
theorem C03_bracket_modifiers_drop_brackets :
    (encodeUrl ePy "http://[v1.a]/p".toStr >>= fun u => applyOp ePy u (.withPort (some 81) 0)).map (·.netloc)
      = .ok "v1.a:81".toStr ∧
    (encodeUrl ePy "http://[v1.a]/p".toStr >>= fun u => applyOp ePy u (.withUser (some "x".toStr))).map (·.netloc)
      = .ok "x@v1.a".toStr ∧
    (encodeUrl ePy "http://[v1.a:b]/p".toStr >>= fun u => applyOp ePy u (.withPort (some 81) 0)).map (·.netloc)
      = .ok "[v1.a:b]:81".toStr ∧
    (encodeUrl ePy "http://[v1.a:b]/p".toStr >>= fun u => applyOp ePy u (.withUser (some "x".toStr))).map (·.netloc)
      = .ok "x@[v1.a:b]".toStr := by
  refine ⟨by decide +kernel, by decide +kernel, by decide +kernel, by decide +kernel⟩

/-! ## non-vacuity -/

example : BracketText "v1.a:b".toStr := bracketTextB_sound (by decide +kernel)      -- IPvFuture with ':'
example : BracketText "v1.a".toStr := bracketTextB_sound (by decide +kernel)        -- IPvFuture without ':'
example : BracketText "vf7.a%25b".toStr := bracketTextB_sound (by decide +kernel)   -- '%' is allowed
example : BracketText "g::1".toStr := bracketTextB_sound (by decide +kernel)        -- ':' text, not IPv6
example : BracketText "a:b".toStr := bracketTextB_sound (by decide +kernel)
example : BracketText "a:b%::1".toStr := bracketTextB_sound (by decide +kernel)     -- an IPv6 text AFTER '%' is harmless
example : BracketText "1.2.3.4%a:b".toStr := bracketTextB_sound (by decide +kernel) -- IPv4 with a ':' in the zone
example : ¬ BracketText "::1".toStr := fun h => h.notV6 [0, 0, 0, 0, 0, 0, 0, 1] (by decide +kernel)
example : ¬ BracketText "1.2.3.4".toStr := fun h => absurd h.check (by decide +kernel) -- "An IPv4 address cannot be in brackets"
example : ¬ BracketText "v1".toStr := fun h => absurd h.check (by decide +kernel)   -- malformed IPvFuture

private def uiUP : UserInfoOK ePy.b (some "u".toStr) (some "p%40w".toStr) :=
  ⟨fun s h => (by cases h; exact ⟨by decide, isCanon_sound _ _ (by decide +kernel)⟩),
   fun s h => (by cases h; exact isCanon_sound _ _ (by decide +kernel))⟩

-- C03_bracket_fixed_point: userinfo, IPvFuture host with ':', non-default port, path, query, fragment
example : ∃ u, encodeUrl ePy "http://u:p%40w@[v1.a:b]:8080/a/b?q#f".toStr = .ok u ∧
    u.netloc = "u:p%40w@[v1.a:b]:8080".toStr ∧ rawHost ePy u = .ok (some "v1.a:b".toStr) ∧
    hostSubcomponent ePy u = .ok (some "[v1.a:b]".toStr) ∧
    hostPortSubcomponent ePy u = .ok (some "[v1.a:b]:8080".toStr) ∧
    str ePy u = .ok "http://u:p%40w@[v1.a:b]:8080/a/b?q#f".toStr ∧ (str ePy u >>= encodeUrl ePy) = .ok u := by
  obtain ⟨u, h1, _, h3, _, _, _, h7, _, _, _, h11, h12, h13, h14⟩ :=
    C03_bracket_fixed_point ePy "http".toStr (some "u".toStr) (some "p%40w".toStr) "v1.a:b".toStr (some 8080)
      "/a/b".toStr "q".toStr "f".toStr (Or.inr (by decide)) uiUP
      (C03_bracket_hostFixB _ (bracketTextB_sound (by decide +kernel)))
      ⟨fun p hp => (by cases hp; decide), fun p hp => (by cases hp; decide)⟩
      (compOKB_sound (by decide +kernel))
  have hc : canonText "http".toStr (authTextB (some "u".toStr) (some "p%40w".toStr) "v1.a:b".toStr (some 8080))
      "/a/b".toStr "q".toStr "f".toStr = "http://u:p%40w@[v1.a:b]:8080/a/b?q#f".toStr := by decide +kernel
  rw [hc] at h1 h13
  exact ⟨u, h1, by rw [h3]; decide +kernel, h7, by rw [h11]; decide +kernel, by rw [h12]; decide +kernel, h13, h14⟩

-- … an IPvFuture host WITHOUT ':' : stored with brackets, host_subcomponent / host_port_subcomponent are BARE
example : ∃ u, encodeUrl ePy "http://[v1.a]:8080/".toStr = .ok u ∧ u.netloc = "[v1.a]:8080".toStr ∧
    rawHost ePy u = .ok (some "v1.a".toStr) ∧ hostSubcomponent ePy u = .ok (some "v1.a".toStr) ∧
    hostPortSubcomponent ePy u = .ok (some "v1.a:8080".toStr) ∧ str ePy u = .ok "http://[v1.a]:8080/".toStr := by
  obtain ⟨u, h1, _, h3, _, _, _, h7, _, _, _, h11, h12, h13, _⟩ :=
    C03_bracket_fixed_point ePy "http".toStr none none "v1.a".toStr (some 8080) [47] [] [] (Or.inr (by decide))
      (userInfoOK_none _) (C03_bracket_hostFixB _ (bracketTextB_sound (by decide +kernel)))
      ⟨fun p hp => (by cases hp; decide), fun p hp => (by cases hp; decide)⟩ (compOKB_sound (by decide +kernel))
  have hc : canonText "http".toStr (authTextB none none "v1.a".toStr (some 8080)) [47] [] [] =
      "http://[v1.a]:8080/".toStr := by decide +kernel
  rw [hc] at h1 h13
  exact ⟨u, h1, by rw [h3]; decide +kernel, h7, by rw [h11]; decide +kernel, by rw [h12]; decide +kernel, h13⟩

-- … a network-path reference (no scheme) around "[g::1]"
example : ∃ u, encodeUrl ePy "//[g::1]/p".toStr = .ok u ∧ str ePy u = .ok "//[g::1]/p".toStr := by
  obtain ⟨u, h1, _, _, _, _, _, _, _, _, _, _, _, h13, _⟩ :=
    C03_bracket_fixed_point ePy [] none none "g::1".toStr none "/p".toStr [] [] (Or.inl rfl)
      (userInfoOK_none _) (C03_bracket_hostFixB _ (bracketTextB_sound (by decide +kernel)))
      (IdGen.portOK_none _) (compOKB_sound (by decide +kernel))
  have hc : canonText [] (authTextB none none "g::1".toStr none) "/p".toStr [] [] = "//[g::1]/p".toStr := by
    decide +kernel
  rw [hc] at h1 h13
  exact ⟨u, h1, h13⟩

-- C03_bracket_default_port: URL('https://[v1.a]:443/') prints "https://v1.a/" — brackets lost, raw_host kept
example : ∃ u u', encodeUrl ePy "https://[v1.a]:443/".toStr = .ok u ∧ u.netloc = "[v1.a]:443".toStr ∧
    str ePy u = .ok "https://v1.a/".toStr ∧ encodeUrl ePy "https://v1.a/".toStr = .ok u' ∧
    str ePy u' = .ok "https://v1.a/".toStr ∧ u'.netloc = "v1.a".toStr ∧ NetlocCanon ePy u' ∧
    rawHost ePy u = .ok (some "v1.a".toStr) ∧ rawHost ePy u' = .ok (some "v1.a".toStr) ∧ Url.beq u' u = false := by
  obtain ⟨u, u', h1, h2, h3, h4, h5, _, h7, _, _, _, _, h12, _, h14, h15, _, _, _, _, _, _, _, h23⟩ :=
    C03_bracket_default_port ePy "https".toStr none none "v1.a".toStr 443 [47] [] [] (Or.inr (by decide))
      (userInfoOK_none _) (C03_bracket_hostFixB _ (bracketTextB_sound (by decide +kernel))) (by decide)
      (compOKB_sound (by decide +kernel))
  have hc1 : canonText "https".toStr (authTextB none none "v1.a".toStr (some 443)) [47] [] [] =
      "https://[v1.a]:443/".toStr := by decide +kernel
  have hc2 : canonText "https".toStr (authText none none "v1.a".toStr none) [47] [] [] = "https://v1.a/".toStr := by
    decide +kernel
  rw [hc1] at h1
  rw [hc2] at h3 h4 h5
  exact ⟨u, u', h1, by rw [h2]; decide +kernel, h3, h4, h5, by rw [h7]; decide +kernel,
    (h12 (by decide)).2, h14, h15, h23⟩

-- … and URL('https://[v1.a:b]:443/') prints "https://[v1.a:b]/" — ':' inside: brackets kept
example : ∃ u u', encodeUrl ePy "https://[v1.a:b]:443/".toStr = .ok u ∧ str ePy u = .ok "https://[v1.a:b]/".toStr ∧
    encodeUrl ePy "https://[v1.a:b]/".toStr = .ok u' ∧ u'.netloc = "[v1.a:b]".toStr ∧ Url.beq u' u = false := by
  obtain ⟨u, u', h1, _, h3, h4, _, _, h7, _, _, _, _, _, _, _, _, _, _, _, _, _, _, _, h23⟩ :=
    C03_bracket_default_port ePy "https".toStr none none "v1.a:b".toStr 443 [47] [] [] (Or.inr (by decide))
      (userInfoOK_none _) (C03_bracket_hostFixB _ (bracketTextB_sound (by decide +kernel))) (by decide)
      (compOKB_sound (by decide +kernel))
  have hc1 : canonText "https".toStr (authTextB none none "v1.a:b".toStr (some 443)) [47] [] [] =
      "https://[v1.a:b]:443/".toStr := by decide +kernel
  have hc2 : canonText "https".toStr (authText none none "v1.a:b".toStr none) [47] [] [] =
      "https://[v1.a:b]/".toStr := by decide +kernel
  rw [hc1] at h1
  rw [hc2] at h3 h4
  exact ⟨u, u', h1, h3, h4, by rw [h7]; decide +kernel, h23⟩

-- C03_bracket_constructor_fixed_point on a far-from-canonical input: upper-case scheme and host, a superfluous
-- escape in the user, a dot segment, spaces
private def sIn : Str := "HTTP://Us%65r@[V1.A:B]:8080/a/../b?x y#f g".toStr
private def ptIn : Parts := ⟨"http".toStr, "Us%65r@[V1.A:B]:8080".toStr, "/a/../b".toStr, "x y".toStr, "f g".toStr⟩
example : AuthInputB ePy.o ptIn.netloc :=
  Or.inr ⟨⟨some "Us%65r".toStr, none, some "V1.A:B".toStr, some 8080⟩, "V1.A:B".toStr, by decide +kernel, rfl,
    by decide +kernel, bracketTextInB_sound (by decide +kernel), by decide +kernel⟩
example : splitUrl ePy.o sIn = .ok ptIn := by decide +kernel
example : (encodeUrl ePy sIn).bind (str ePy) = .ok "http://User@[v1.a:b]:8080/b?x+y#f%20g".toStr := by decide +kernel

-- build(scheme='HTTP', authority='u@[V1.A:B]:80', path='/p') is 'http://u@[v1.a:b]/p' (scheme and host lowered, the
-- default port dropped), and the hypotheses of C03_bracket_build_fixed_point hold for it
example : (build ePy { scheme := "HTTP".toStr, authority := "u@[V1.A:B]:80".toStr, path := "/p".toStr }).bind (str ePy)
    = .ok "http://u@[v1.a:b]/p".toStr := by decide +kernel
example : splitNetloc ePy.o "u@[V1.A:B]:80".toStr = .ok ⟨some "u".toStr, none, some "V1.A:B".toStr, some 80⟩ ∧
    91 ∈ (rpartition 64 "u@[V1.A:B]:80".toStr).2.2 ∧ BracketTextIn "V1.A:B".toStr ∧
    bracketCheck (lower "V1.A:B".toStr) = true ∧ SchemeChars "HTTP".toStr :=
  ⟨by decide +kernel, by decide +kernel, bracketTextInB_sound (by decide +kernel), by decide +kernel, by decide⟩

-- C03_bracket_op_sequence_fixed_point: with_port(81), with_path("/x y"), with_user("x") after URL('http://[V1.A]/p')
example : (encodeUrl ePy "http://[v1.a]/p".toStr >>= fun u => applyOps ePy u
    [.withPort (some 81) 0, .withPath "/x y".toStr false false, .withUser (some "x".toStr)]).bind (str ePy)
    = .ok "http://x@v1.a:81/x%20y".toStr := by decide +kernel

end Yarl
