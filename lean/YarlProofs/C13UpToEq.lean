/-
  C13UpToEq.lean — C13 GAPS item 5, "no version of (b)/(c) up to `==` is proved": the composition laws of
  `joinpath` / `/` up to Python `==` (`Url.beq`: under an authority the empty path counts as "/").
    * `C13_joinpath_assoc_beq_iff`   — two arguments, either `encoded` mode: EXACT condition (`C13_beqStep`)
    * `C13_joinpath_assoc_stored_iff`— the stored-value iff, now in either `encoded` mode (`C13_storedStep`)
    * `C13_beqStep_iff`              — the `==` condition is the stored one plus ONE clause (one-call list normalises to [""])
    * `C13_beq_stored_difference`    — `==` but stored differently: ONLY "" vs "/" under an authority
    * `C13_truediv_chain_beq`        — `(u / a) / b == u.joinpath(a, b)` iff the same condition
    * `C13_joinpath_nary_beq`        — n arguments, guard `C13_beqGuard` (the step condition at every peeling step);
      `C13_beqGuard_of_no_dotdot`: implied by the guard of `C13_joinpath_nary`
    * computed witnesses both ways, both backends, both `encoded` modes.
-/
import YarlProofs.C13More3
import YarlProofs.C10
namespace Yarl
open Yarl.PathLemmas Yarl.PathAlg PathMore R12b
open DotMore (climbs)
namespace JoinpathEq

theorem beq_fromParts (sc n p p' : Str) (hn : n.isEmpty = false) :
    (fromParts sc n p [] []).beq (fromParts sc n p' [] []) = true ↔
      (p = p' ∨ (p = [] ∧ p' = [47]) ∨ (p = [47] ∧ p' = [])) := by
  simp only [Url.beq, eqKey, fromParts, hn, decide_eq_true_eq, Parts.mk.injEq, true_and, and_true, Bool.not_false,
    Bool.and_true]
  cases p <;> cases p' <;> simp
  all_goals grind

theorem beq_refl' (a : Url) : a.beq a = true := by simp [Url.beq]
theorem beq_of_eq {a b : Url} (h : a = b) : a.beq b = true := by subst h; exact beq_refl' a
theorem beq_trans' {a b c : Url} (h1 : a.beq b = true) (h2 : b.beq c = true) : a.beq c = true := by
  simp only [Url.beq, decide_eq_true_eq] at *; rw [h1, h2]

/-- the segment-level computation, up to `==`: the stored condition of `R12b.fixed_core`, or the one-call list
    normalises to the single empty segment (stored paths "" and "/") -/
theorem fixed_core_beq (u : Url) (qa : Str) (SB : List Str) (nnB : Bool) (hn' : u.netloc.isEmpty = false)
    (hdot : 46 ∈ qa)
    (hnot : ¬ ∃ K', K' ≠ [] ∧ normalizePathSegments (root u.netloc (base u ++ splitOn 47 qa)) = [] :: K')
    (hSB0 : SB ≠ []) (hSBs : Segs SB)
    (hSBh : SB.head? ≠ some [] ∨ (SB = [[]] ∧ nnB = false))
    (hnnB : nnB = false → NoDots SB) :
    (childOf u (stripTrail (splitOn 47 qa) ++ SB) true).beq (childOf (childOf u (splitOn 47 qa) true) SB nnB) = true ↔
      ((nnB = false ∨
       climbs (stripTrail (normalizePathSegments (root u.netloc (base u ++ splitOn 47 qa)))).length SB = true ∨
       (normalizePathSegments
          (stripTrail (normalizePathSegments (root u.netloc (base u ++ splitOn 47 qa))) ++ SB)).head? ≠ some []) ∨
       normalizePathSegments
          (stripTrail (normalizePathSegments (root u.netloc (base u ++ splitOn 47 qa))) ++ SB) = [[]]) := by
  have hstored := fixed_core u qa SB nnB hn' hdot hnot hSB0 hSBs hSBh hnnB
  by_cases hc : (nnB = false ∨
       climbs (stripTrail (normalizePathSegments (root u.netloc (base u ++ splitOn 47 qa)))).length SB = true ∨
       (normalizePathSegments
          (stripTrail (normalizePathSegments (root u.netloc (base u ++ splitOn 47 qa))) ++ SB)).head? ≠ some [])
  · exact iff_of_true (beq_of_eq (hstored.2 hc)) (Or.inl hc)
  -- the stored condition fails: second step normalises, no climb, the normalised list begins with ""
  have hn : u.netloc ≠ [] := by simpa using hn'
  obtain ⟨R, hR0, hR⟩ := childRoot_shape u qa hn hdot
  have hSA0 := splitOn_ne_nil 47 qa
  have hL : base u ++ splitOn 47 qa ≠ [] := by simp [hSA0]
  have hMs : Segs (root u.netloc (base u ++ splitOn 47 qa)) := segs_childRoot u _ (segs_splitOn _)
  generalize hN1 : normalizePathSegments (root u.netloc (base u ++ splitOn 47 qa)) = N1 at hnot hc ⊢
  have hN1s : Segs N1 := hN1 ▸ normalizePathSegments_no_sep _ hMs
  have hN1ne : N1 ≠ [] := hN1 ▸ DotMore.normalizePathSegments_ne_nil _ (root_ne_nil _ hL)
  have hTd : NoDots (stripTrail N1) := hN1 ▸ noDots_strip_norm _
  have hTs : Segs (stripTrail N1) := segs_stripTrail hN1s
  have hv1 : childOf u (splitOn 47 qa) true = fromParts u.scheme u.netloc (fixRoot (joinC 47 N1)) [] [] := by
    rw [← hN1]; exact childOf_true u _ hn'
  have hn1 : (childOf u (splitOn 47 qa) true).netloc = u.netloc := by rw [hv1]; rfl
  have hs1 : (childOf u (splitOn 47 qa) true).scheme = u.scheme := by rw [hv1]; rfl
  have hT : (stripTrail N1 = [] ∧ base (childOf u (splitOn 47 qa) true) = []) ∨
      (∃ k P, stripTrail N1 = k :: P ∧ k ≠ [] ∧
        base (childOf u (splitOn 47 qa) true) = [] :: stripTrail N1) := by
    obtain ⟨k, K, hkK⟩ := List.exists_cons_of_ne_nil hN1ne
    by_cases hk : k = []
    · left
      have hK : K = [] := by
        by_cases hK : K = []
        · exact hK
        · exact absurd ⟨K, hK, by rw [hkK, hk]⟩ hnot
      have hN : N1 = [[]] := by rw [hkK, hk, hK]
      refine ⟨by rw [hN]; rfl, (base_eq_nil_iff _).2 (by rw [hv1, hN]; rfl)⟩
    · right
      have hj : fixRoot (joinC 47 N1) = joinC 47 ([] :: N1) := by
        rw [hkK]; exact R4c.fixRoot_unrooted k K hk (hN1s k (by rw [hkK]; simp))
      obtain ⟨P, hP⟩ : ∃ P, stripTrail N1 = k :: P := by
        rw [hkK]
        cases K with
        | nil => exact ⟨[], by simp [stripTrail, hk]⟩
        | cons k2 K2 => exact ⟨_, stripTrail_cons _ _ (by simp)⟩
      refine ⟨k, P, hP, hk, ?_⟩
      rw [base_of_joinC _ ([] :: N1) (segs_cons (by simp) hN1s) (by simp) (by rw [hv1, hj]; rfl),
        stripTrail_cons _ _ hN1ne]
  have hW : childOf u (stripTrail (splitOn 47 qa) ++ SB) true = fromParts u.scheme u.netloc
      (fixRoot (joinC 47 (normalizePathSegments (stripTrail N1 ++ SB)))) [] [] := by
    rw [childOf_true u _ hn', childRoot_cons_dot u qa SB R hR0 hR, ← List.cons_append,
      ← stripTrail_cons _ _ hR0, ← hR, norm_strip_append _ _ hSB0, hN1]
  rw [hW]
  simp only [not_or, Bool.not_eq_false, Bool.not_eq_true, Decidable.not_not] at hc
  obtain ⟨hnn, hcl0, hhead⟩ := hc
  subst hnn
  have hSBh' : SB.head? ≠ some [] := by
    rcases hSBh with h | h
    · exact h
    · exact absurd h.2 (by simp)
  obtain ⟨b0, SB', rfl⟩ := List.exists_cons_of_ne_nil hSB0
  have hb0 : b0 ≠ [] := by simpa using hSBh'
  have hM2 : root u.netloc (base (childOf u (splitOn 47 qa) true) ++ b0 :: SB')
      = [] :: (stripTrail N1 ++ b0 :: SB') := by
    rcases hT with ⟨hT0, hb⟩ | ⟨k, P, hP, hk, hb⟩
    · rw [hT0, hb]; simp [root, hn', hb0]
    · rw [hb, List.cons_append, root_of_head]
  have hcl : climbs 0 (stripTrail N1 ++ b0 :: SB') = climbs (stripTrail N1).length (b0 :: SB') := by
    rw [climbs_noDots _ _ hTd, Nat.zero_add]
  have hZ0 : stripTrail N1 ++ b0 :: SB' ≠ [] := by simp
  rw [childOf_true _ _ (by rw [hn1]; exact hn'), hs1, hn1, hM2, beq_fromParts _ _ _ _ hn',
    DotMore.normalizePathSegments_root_noclimb _ hZ0 (by rw [hcl]; exact hcl0)]
  have hNZ0 := DotMore.normalizePathSegments_ne_nil _ hZ0
  rw [DotMore.joinC_root_cons _ hNZ0, DotMore.fixRoot_cons]
  obtain ⟨k', K'', hNZ⟩ := List.exists_cons_of_ne_nil hNZ0
  rw [hNZ] at hhead ⊢
  have hk' : k' = [] := by simpa using hhead
  subst hk'
  cases K'' with
  | nil => exact iff_of_true (Or.inr (Or.inl ⟨by decide, by decide⟩)) (Or.inr rfl)
  | cons k2 K3 =>
    refine iff_of_false ?_ ?_
    · rw [fixRoot_rooted _ (by simp), DotMore.joinC_root_cons _ (by simp)]
      simp
    · simp
      exact hcl0


theorem splitOn_eq_single_nil {t : Str} (h : splitOn 47 t = [[]]) : t = [] := by
  have := joinC_splitOn_gen 47 t
  rw [h] at this
  rw [← this]; rfl

theorem stripTrail_eq_nil {S : List Str} (hS : S ≠ []) (h : stripTrail S = []) : S = [[]] := by
  unfold stripTrail at h
  split at h
  · rename_i hl
    cases S with
    | nil => exact absurd rfl hS
    | cons a S' =>
      cases S' with
      | nil => simp at hl; rw [hl]
      | cons b S'' => simp at h
  · exact absurd h hS

theorem argDots_of_single_nil (e : Env) (enc : Bool) : ∀ ps : List Str, argSegs e enc ps = [[]] →
    argDots e enc ps = false := by
  intro ps
  induction ps with
  | nil => intro _; rfl
  | cons a ps ih =>
    intro h
    cases ps with
    | nil =>
      simp only [argSegs] at h
      simp [argDots, splitOn_eq_single_nil h, mem]
    | cons b r =>
      simp only [argSegs] at h
      have hne : argSegs e enc (b :: r) ≠ [] := argSegs_ne_nil e enc _ (by simp)
      have h1 : stripTrail (splitOn 47 (argText e enc a)) = [] := by
        cases hs : stripTrail (splitOn 47 (argText e enc a)) with
        | nil => rfl
        | cons x X =>
          rw [hs] at h
          have := congrArg List.length h
          have hl : 0 < (argSegs e enc (b :: r)).length := List.length_pos_iff.2 hne
          simp only [List.length_append, List.length_cons, List.length_nil] at this; omega
      rw [h1, List.nil_append] at h
      have ha := splitOn_eq_single_nil (stripTrail_eq_nil (splitOn_ne_nil _ _) h1)
      have := ih h
      simp only [argDots, List.any_cons] at this ⊢
      rw [this, ha]; rfl

end JoinpathEq

/-! ## vocabulary -/

/-- two outcomes are the same up to Python `==`: the same error, or two URLs with `a == b` (`Url.beq`: under an
    authority the empty path counts as "/") -/
def C13_resBeq (x y : R Url) : Bool :=
  match x, y with
  | .ok a, .ok b => a.beq b
  | .error e1, .error e2 => decide (e1 = e2)
  | _, _ => false

/-- the segments the first step `u.joinpath(a)` leaves when it normalises (a trailing empty one not counted) -/
def C13_left (e : Env) (enc : Bool) (u : Url) (a : Str) : List Str :=
  stripTrail (normalizePathSegments (root u.netloc (base u ++ splitOn 47 (argText e enc a))))

/-- `hroot`: normalising the first step keeps the root's empty segment, followed by something -/
def C13_hroot (e : Env) (enc : Bool) (u : Url) (a : Str) : Prop :=
  ∃ K', K' ≠ [] ∧ normalizePathSegments (root u.netloc (base u ++ splitOn 47 (argText e enc a))) = [] :: K'

/-- the condition under which peeling the FIRST argument `a` off `u.joinpath(a, rest…)` changes nothing up to `==`.
    The first six clauses are the stored-value condition (`C13_joinpath_assoc_pair_iff`), the LAST one is new: the
    one-call segment list normalises to the single empty segment (stored paths "" and "/"). -/
def C13_beqStep (e : Env) (enc : Bool) (u : Url) (a : Str) (rest : List Str) : Prop :=
  u.netloc = [] ∨ 46 ∉ argText e enc a ∨ C13_hroot e enc u a ∨
  argDots e enc rest = false ∨
  climbs (C13_left e enc u a).length (argSegs e enc rest) = true ∨
  (normalizePathSegments (C13_left e enc u a ++ argSegs e enc rest)).head? ≠ some [] ∨
  normalizePathSegments (C13_left e enc u a ++ argSegs e enc rest) = [[]]

/-- the stored-value condition: `C13_beqStep` without its last clause -/
def C13_storedStep (e : Env) (enc : Bool) (u : Url) (a : Str) (rest : List Str) : Prop :=
  u.netloc = [] ∨ 46 ∉ argText e enc a ∨ C13_hroot e enc u a ∨
  argDots e enc rest = false ∨
  climbs (C13_left e enc u a).length (argSegs e enc rest) = true ∨
  (normalizePathSegments (C13_left e enc u a ++ argSegs e enc rest)).head? ≠ some []

/-- the first step's result -/
def C13_first (e : Env) (enc : Bool) (u : Url) (a : Str) : Url :=
  childOf u (splitOn 47 (argText e enc a)) (mem 46 (argText e enc a))

/-- the step condition at every peeling step of the iterated form -/
def C13_beqGuard (e : Env) (enc : Bool) : List Str → Url → Prop
  | a :: b :: r, u => C13_beqStep e enc u a (b :: r) ∧ C13_beqGuard e enc (b :: r) (C13_first e enc u a)
  | _, _ => True

namespace JoinpathEq

theorem resBeq_of_eq {x y : R Url} (h : x = y) : C13_resBeq x y = true := by
  subst h
  cases x with
  | ok a => exact beq_refl' a
  | error er => simp [C13_resBeq]

theorem resBeq_trans {x y z : R Url} (h1 : C13_resBeq x y = true) (h2 : C13_resBeq y z = true) :
    C13_resBeq x z = true := by
  cases x <;> cases y <;> cases z <;> simp [C13_resBeq] at h1 h2 ⊢
  · rw [h1, h2]
  · exact beq_trans' h1 h2

theorem resBeq_ok (a b : Url) : C13_resBeq (.ok a) (.ok b) = a.beq b := rfl

/-- one peeling step, stored (`which = false`) and up to `==` -/
theorem step_both (e : Env) (enc : Bool) (u : Url) (a b : Str) (r : List Str)
    (hh : ∀ p ∈ a :: b :: r, p.head? ≠ some 47)
    (hq : ∀ p ∈ b :: r, (argText e enc p).head? ≠ some 47) :
    (makeChild e u (a :: b :: r) enc = makeChild e (C13_first e enc u a) (b :: r) enc ↔
      C13_storedStep e enc u a (b :: r)) ∧
    (C13_resBeq (makeChild e u (a :: b :: r) enc) (makeChild e (C13_first e enc u a) (b :: r) enc) = true ↔
      C13_beqStep e enc u a (b :: r)) := by
  unfold C13_first
  rw [makeChild_cons e u a b r enc hh,
    makeChild_n e _ (b :: r) enc (by simp) (fun p hp => hh p (List.mem_cons_of_mem _ hp)), resBeq_ok]
  by_cases hc : (u.netloc.isEmpty || !mem 46 (argText e enc a)) = true
  · have heq := (childOf_assoc_left u (splitOn 47 (argText e enc a)) (argSegs e enc (b :: r)) (mem 46 (argText e enc a)) (argDots e enc (b :: r))
      (segs_splitOn _) (splitOn_ne_nil _ _) hc).symm
    have hcond : u.netloc = [] ∨ 46 ∉ argText e enc a := by
      rcases Bool.or_eq_true_iff.1 hc with h | h
      · left; simpa using h
      · right; intro hm; rw [(mem46_iff _).2 hm] at h; cases h
    refine ⟨iff_of_true (congrArg Except.ok heq) ?_, iff_of_true (beq_of_eq heq) ?_⟩
    · rcases hcond with h | h
      · exact Or.inl h
      · exact Or.inr (Or.inl h)
    · rcases hcond with h | h
      · exact Or.inl h
      · exact Or.inr (Or.inl h)
  · simp only [Bool.or_eq_true, Bool.not_eq_eq_eq_not, Bool.not_true, not_or, Bool.not_eq_false] at hc
    have hn : u.netloc.isEmpty = false := by simpa using hc.1
    have hn' : u.netloc ≠ [] := by simpa using hn
    have hm : 46 ∈ argText e enc a := (mem46_iff _).1 hc.2
    rw [hc.2, Bool.or_true]
    by_cases hroot : C13_hroot e enc u a
    · have heq := (childOf_assoc_right u (splitOn 47 (argText e enc a)) (argSegs e enc (b :: r)) (argDots e enc (b :: r)) hn (segs_splitOn _) (splitOn_ne_nil _ _)
        (argSegs_ne_nil e enc _ (by simp)) hroot (argDots_false e enc _)).symm
      exact ⟨iff_of_true (congrArg Except.ok heq) (Or.inr (Or.inr (Or.inl hroot))),
        iff_of_true (beq_of_eq heq) (Or.inr (Or.inr (Or.inl hroot)))⟩
    · have hSBh : (argSegs e enc (b :: r)).head? ≠ some [] ∨
          (argSegs e enc (b :: r) = [[]] ∧ argDots e enc (b :: r) = false) := by
        rcases argSegs_head e enc (b :: r) (by simp) hq with h | h
        · exact Or.inl h
        · exact Or.inr ⟨h, argDots_of_single_nil e enc _ h⟩
      have hs := fixed_core u (argText e enc a) (argSegs e enc (b :: r)) (argDots e enc (b :: r)) hn hm hroot
        (argSegs_ne_nil e enc _ (by simp)) (segs_argSegs e enc _) hSBh (argDots_false e enc _)
      have hb := fixed_core_beq u (argText e enc a) (argSegs e enc (b :: r)) (argDots e enc (b :: r)) hn hm hroot
        (argSegs_ne_nil e enc _ (by simp)) (segs_argSegs e enc _) hSBh (argDots_false e enc _)
      constructor
      · rw [show (Except.ok (childOf u (stripTrail (splitOn 47 (argText e enc a)) ++ argSegs e enc (b :: r)) true) : R Url)
            = Except.ok (childOf (childOf u (splitOn 47 (argText e enc a)) true) (argSegs e enc (b :: r))
                (argDots e enc (b :: r))) ↔ _ from ⟨Except.ok.inj, congrArg Except.ok⟩, hs]
        unfold C13_storedStep C13_left
        constructor
        · intro h; exact Or.inr (Or.inr (Or.inr h))
        · rintro (h | h | h | h)
          · exact absurd h hn'
          · exact absurd hm h
          · exact absurd h hroot
          · exact h
      · rw [hb]
        unfold C13_beqStep C13_left
        constructor
        · rintro ((h | h | h) | h)
          · exact Or.inr (Or.inr (Or.inr (Or.inl h)))
          · exact Or.inr (Or.inr (Or.inr (Or.inr (Or.inl h))))
          · exact Or.inr (Or.inr (Or.inr (Or.inr (Or.inr (Or.inl h)))))
          · exact Or.inr (Or.inr (Or.inr (Or.inr (Or.inr (Or.inr h)))))
        · rintro (h | h | h | h | h | h | h)
          · exact absurd h hn'
          · exact absurd hm h
          · exact absurd h hroot
          · exact Or.inl (Or.inl h)
          · exact Or.inl (Or.inr (Or.inl h))
          · exact Or.inl (Or.inr (Or.inr h))
          · exact Or.inr h


theorem first_netloc (e : Env) (enc : Bool) (u : Url) (a : Str) : (C13_first e enc u a).netloc = u.netloc := by
  unfold C13_first childOf
  split <;> rfl

end JoinpathEq
open JoinpathEq

/-! ## (b) two arguments, the EXACT condition up to `==` (either `encoded` mode) -/

/-- `u.joinpath(a, b) == u.joinpath(a).joinpath(b)` (Python `==`, errors compared as errors) IF AND ONLY IF
    `C13_beqStep`: no authority, or no '.' in the text of `a`, or `hroot`, or no '.' in the text of `b`, or `b` climbs
    above what the first step left, or the one-call list does not normalise to something beginning with an empty
    segment, or it normalises to EXACTLY the single empty segment.  Either `encoded` mode.  Hypotheses: the first step
    succeeds; `b` and its text do not start with '/' (for `b` starting with '/' both raise ValueError). -/
theorem C13_joinpath_assoc_beq_iff (e : Env) (enc : Bool) (u : Url) (a b : Str) (v1 : Url)
    (h1 : makeChild e u [a] enc = .ok v1)
    (hb0 : b.head? ≠ some 47) (hqb0 : (argText e enc b).head? ≠ some 47) :
    C13_resBeq (makeChild e u [a, b] enc) (makeChild e v1 [b] enc) = true ↔ C13_beqStep e enc u a [b] := by
  have ha0 : a.head? ≠ some 47 := heads_of_ok e u [a] enc v1 h1 a (by simp)
  rw [makeChild_single e u a enc ha0] at h1
  cases h1
  exact (step_both e enc u a b [] (by simp [ha0, hb0]) (by simpa using hqb0)).2

/-- the same for STORED values, now in either `encoded` mode (`C13_joinpath_assoc_pair_iff` is `encoded=False`) -/
theorem C13_joinpath_assoc_stored_iff (e : Env) (enc : Bool) (u : Url) (a b : Str) (v1 : Url)
    (h1 : makeChild e u [a] enc = .ok v1)
    (hb0 : b.head? ≠ some 47) (hqb0 : (argText e enc b).head? ≠ some 47) :
    makeChild e u [a, b] enc = makeChild e v1 [b] enc ↔ C13_storedStep e enc u a [b] := by
  have ha0 : a.head? ≠ some 47 := heads_of_ok e u [a] enc v1 h1 a (by simp)
  rw [makeChild_single e u a enc ha0] at h1
  cases h1
  exact (step_both e enc u a b [] (by simp [ha0, hb0]) (by simpa using hqb0)).1

/-- the two conditions differ by exactly one clause -/
theorem C13_beqStep_iff (e : Env) (enc : Bool) (u : Url) (a : Str) (rest : List Str) :
    C13_beqStep e enc u a rest ↔
      (C13_storedStep e enc u a rest ∨
        normalizePathSegments (C13_left e enc u a ++ argSegs e enc rest) = [[]]) := by
  unfold C13_beqStep C13_storedStep
  constructor
  · rintro (h | h | h | h | h | h | h)
    · exact Or.inl (Or.inl h)
    · exact Or.inl (Or.inr (Or.inl h))
    · exact Or.inl (Or.inr (Or.inr (Or.inl h)))
    · exact Or.inl (Or.inr (Or.inr (Or.inr (Or.inl h))))
    · exact Or.inl (Or.inr (Or.inr (Or.inr (Or.inr (Or.inl h)))))
    · exact Or.inl (Or.inr (Or.inr (Or.inr (Or.inr (Or.inr h)))))
    · exact Or.inr h
  · rintro ((h | h | h | h | h | h) | h)
    · exact Or.inl h
    · exact Or.inr (Or.inl h)
    · exact Or.inr (Or.inr (Or.inl h))
    · exact Or.inr (Or.inr (Or.inr (Or.inl h)))
    · exact Or.inr (Or.inr (Or.inr (Or.inr (Or.inl h))))
    · exact Or.inr (Or.inr (Or.inr (Or.inr (Or.inr (Or.inl h)))))
    · exact Or.inr (Or.inr (Or.inr (Or.inr (Or.inr (Or.inr h)))))

/-- when the two forms are `==` but stored differently, the difference is ONLY "" vs "/" under an authority -/
theorem C13_beq_stored_difference (a b : Url) (h : a.beq b = true) (hp : a.path ≠ b.path) :
    a.netloc ≠ [] ∧ a.netloc = b.netloc ∧ ((a.path = [] ∧ b.path = [47]) ∨ (a.path = [47] ∧ b.path = [])) := by
  simp only [Url.beq, eqKey, decide_eq_true_eq, Parts.mk.injEq] at h
  obtain ⟨_, hn, hpp, _, _⟩ := h
  rw [← hn] at hpp
  cases hn0 : a.netloc with
  | nil =>
    rw [hn0] at hpp
    simp at hpp
    exact absurd hpp hp
  | cons c n =>
    rw [hn0] at hpp
    refine ⟨by simp, by rw [← hn, hn0], ?_⟩
    cases ha : a.path <;> cases hb : b.path <;> simp [ha, hb] at hpp hp ⊢
    · exact ⟨hpp.1.symm, hpp.2⟩
    · exact hpp
    · exact absurd hpp.2 (hp hpp.1)

/-! ## (d) the `/` chain -/

/-- `(u / a) / b == u.joinpath(a, b)` (Python `==`) IF AND ONLY IF `C13_beqStep` — `/` is `joinpath` with one argument,
    `encoded=False` -/
theorem C13_truediv_chain_beq (e : Env) (u : Url) (a b : Str)
    (ha0 : a.head? ≠ some 47) (hb0 : b.head? ≠ some 47) (hqb0 : (q e Gen.PATH_QUOTER b).head? ≠ some 47) :
    C13_resBeq (makeChild e u [a] false >>= fun v => makeChild e v [b] false) (makeChild e u [a, b] false) = true ↔
      C13_beqStep e false u a [b] := by
  rw [makeChild_single e u a false ha0]
  show C13_resBeq (makeChild e (C13_first e false u a) [b] false) _ = true ↔ _
  rw [← (step_both e false u a b [] (by simp [ha0, hb0]) (by simpa [argText] using hqb0)).2]
  simp only [C13_resBeq, Url.beq]
  cases makeChild e (C13_first e false u a) [b] false <;> cases makeChild e u [a, b] false <;>
    simp [eq_comm]

/-! ## (a) n arguments -/

/-- `u.joinpath(a₁, …, aₙ) == u.joinpath(a₁).joinpath(a₂)…joinpath(aₙ)` (Python `==`; n ≥ 1, either `encoded` mode) when
    the step condition `C13_beqStep` holds at every peeling step (`C13_beqGuard`).  Hypothesis `hq`: the TEXT of an
    argument that does not start with '/' does not start with '/' either (trivial for `encoded=True`; for
    `encoded=False` true for every string without lone surrogates, `q_path_head`). -/
theorem C13_joinpath_nary_beq (e : Env) (enc : Bool) : ∀ (ps : List Str) (u : Url), ps ≠ [] →
    (∀ p ∈ ps, p.head? ≠ some 47 → (argText e enc p).head? ≠ some 47) →
    C13_beqGuard e enc ps u →
    C13_resBeq (makeChild e u ps enc) (ps.foldlM (fun v a => makeChild e v [a] enc) u) = true := by
  intro ps
  induction ps with
  | nil => intro u h; exact absurd rfl h
  | cons a ps ih =>
    intro u _ hq hg
    cases ps with
    | nil =>
      simp only [List.foldlM_cons, List.foldlM_nil]
      exact resBeq_of_eq (bind_pure_R _).symm
    | cons b r =>
      rw [List.foldlM_cons]
      by_cases ha : a.head? = some 47
      · rw [makeChild_err e u _ enc ⟨a, by simp, ha⟩, makeChild_err e u [a] enc ⟨a, by simp, ha⟩]
        rfl
      · rw [makeChild_single e u a enc ha]
        show C13_resBeq _ (List.foldlM (fun v a => makeChild e v [a] enc) (C13_first e enc u a) (b :: r)) = true
        have hIH := ih (C13_first e enc u a) (by simp) (fun p hp => hq p (List.mem_cons_of_mem _ hp)) hg.2
        refine resBeq_trans ?_ hIH
        by_cases hbad : ∃ p ∈ b :: r, p.head? = some 47
        · obtain ⟨p, hp, hp47⟩ := hbad
          rw [makeChild_err e u _ enc ⟨p, List.mem_cons_of_mem _ hp, hp47⟩,
            makeChild_err e _ (b :: r) enc ⟨p, hp, hp47⟩]
          rfl
        · have hh : ∀ p ∈ a :: b :: r, p.head? ≠ some 47 := by
            intro p hp
            rcases List.mem_cons.1 hp with rfl | hp
            · exact ha
            · exact fun h47 => hbad ⟨p, hp, h47⟩
          exact (step_both e enc u a b r hh
            (fun p hp => hq p (List.mem_cons_of_mem _ hp) (hh p (List.mem_cons_of_mem _ hp)))).2.2 hg.1

/-- the guard is WEAKER than the stored-value guard of `C13_joinpath_nary` (no ".." segment in the old path or in any
    argument but the last, under an authority) -/
theorem C13_beqGuard_of_no_dotdot (e : Env) (enc : Bool) : ∀ (ps : List Str) (u : Url),
    (u.netloc ≠ [] → dotdot ∉ splitOn 47 u.path ∧ ∀ a ∈ ps.dropLast, dotdot ∉ splitOn 47 (argText e enc a)) →
    C13_beqGuard e enc ps u := by
  intro ps
  induction ps with
  | nil => intro u _; trivial
  | cons a ps ih =>
    intro u hdd
    cases ps with
    | nil => trivial
    | cons b r =>
      have hda : (a :: b :: r).dropLast = a :: (b :: r).dropLast := by simp
      rw [hda] at hdd
      refine ⟨?_, ih _ ?_⟩
      · by_cases hn : u.netloc = []
        · exact Or.inl hn
        · by_cases hm : 46 ∈ argText e enc a
          · exact Or.inr (Or.inr (Or.inl
              (hroot_of_guard u _ hn hm (hdd hn).1 ((hdd hn).2 a (by simp)))))
          · exact Or.inr (Or.inl hm)
      · intro hn1
        rw [first_netloc] at hn1
        obtain ⟨h1, h2⟩ := hdd hn1
        exact ⟨child_guard u _ hn1 h1 (h2 a (by simp)), fun x hx => h2 x (List.mem_cons_of_mem _ hx)⟩


/-! ## (c) computed witnesses, both backends, both `encoded` modes -/

/-- POSITIVE: the "stored only" counterexample of GAPS item 5 — `URL("http://h").joinpath("..", ".")` is `http://h`,
    `(URL("http://h") / "..") / "."` is `http://h/` — is equal under `==`; the guard holds by its LAST clause only (the
    stored condition fails: the stored values differ); the guard of `C13_joinpath_nary` fails (".." argument) -/
theorem C13_joinpath_beq_stored_only_instance : ∀ (bk : Backend) (enc : Bool),
    let e : Env := ⟨bk, Oracles.empty⟩
    let u := fromParts "http".toStr "h".toStr [] [] []
    let ps := ["..".toStr, ".".toStr]
    makeChild e u ps enc = .ok u ∧
    ps.foldlM (fun v a => makeChild e v [a] enc) u = .ok (fromParts "http".toStr "h".toStr "/".toStr [] []) ∧
    makeChild e u ps enc ≠ ps.foldlM (fun v a => makeChild e v [a] enc) u ∧
    C13_resBeq (makeChild e u ps enc) (ps.foldlM (fun v a => makeChild e v [a] enc) u) = true ∧
    normalizePathSegments (C13_left e enc u "..".toStr ++ argSegs e enc [".".toStr]) = [[]] ∧
    C13_beqGuard e enc ps u ∧ ¬ C13_storedStep e enc u "..".toStr [".".toStr] ∧
    dotdot ∈ splitOn 47 (argText e enc "..".toStr) := by
  intro bk enc e u ps
  · skip
    have h1 : makeChild e u ps enc = .ok u := (by cases bk <;> cases enc <;> exact okEq_sound (by decide +kernel))
    have h2 : ps.foldlM (fun v a => makeChild e v [a] enc) u = .ok (fromParts "http".toStr "h".toStr "/".toStr [] []) :=
      (by cases bk <;> cases enc <;> exact okEq_sound (by decide +kernel))
    have h3 : makeChild e u ps enc ≠ ps.foldlM (fun v a => makeChild e v [a] enc) u := by
      rw [h1, h2]; decide
    have hv : makeChild e u ["..".toStr] enc = .ok u := (by cases bk <;> cases enc <;> exact okEq_sound (by decide +kernel))
    have h5 : normalizePathSegments (C13_left e enc u "..".toStr ++ argSegs e enc [".".toStr]) = [[]] := by
      cases bk <;> cases enc <;> decide +kernel
    refine ⟨h1, h2, h3, by rw [h1, h2]; decide, h5,
      ⟨Or.inr (Or.inr (Or.inr (Or.inr (Or.inr (Or.inr h5))))), trivial⟩, ?_, by cases bk <;> cases enc <;> decide +kernel⟩
    intro hs
    apply h3
    have := (C13_joinpath_assoc_stored_iff e enc u "..".toStr ".".toStr u hv (by decide) (by cases bk <;> cases enc <;> decide +kernel)).2 hs
    rw [this]
    simp only [ps, List.foldlM_cons, List.foldlM_nil]
    rw [hv]
    exact (bind_pure_R _).symm

/-- NEGATIVE: `URL("http://h").joinpath("..", ".//x")` is `http://h/x`, `(URL("http://h") / "..") / ".//x"` is
    `http://h//x`: different under `==` too; `C13_beqStep` fails (by the iff) -/
theorem C13_joinpath_beq_fails_for_double_slash : ∀ (bk : Backend) (enc : Bool),
    let e : Env := ⟨bk, Oracles.empty⟩
    let u := fromParts "http".toStr "h".toStr [] [] []
    makeChild e u ["..".toStr, ".//x".toStr] enc = .ok (fromParts "http".toStr "h".toStr "/x".toStr [] []) ∧
    makeChild e u ["..".toStr] enc = .ok u ∧
    makeChild e u [".//x".toStr] enc = .ok (fromParts "http".toStr "h".toStr "//x".toStr [] []) ∧
    C13_resBeq (makeChild e u ["..".toStr, ".//x".toStr] enc) (makeChild e u [".//x".toStr] enc) = false ∧
    ¬ C13_beqStep e enc u "..".toStr [".//x".toStr] := by
  intro bk enc e u
  · skip
    have h1 : makeChild e u ["..".toStr, ".//x".toStr] enc = .ok (fromParts "http".toStr "h".toStr "/x".toStr [] []) :=
      (by cases bk <;> cases enc <;> exact okEq_sound (by decide +kernel))
    have hv : makeChild e u ["..".toStr] enc = .ok u := (by cases bk <;> cases enc <;> exact okEq_sound (by decide +kernel))
    have h2 : makeChild e u [".//x".toStr] enc = .ok (fromParts "http".toStr "h".toStr "//x".toStr [] []) :=
      (by cases bk <;> cases enc <;> exact okEq_sound (by decide +kernel))
    have h4 : C13_resBeq (makeChild e u ["..".toStr, ".//x".toStr] enc) (makeChild e u [".//x".toStr] enc) = false := by
      rw [h1, h2]; decide
    refine ⟨h1, hv, h2, h4, ?_⟩
    intro hs
    have := (C13_joinpath_assoc_beq_iff e enc u "..".toStr ".//x".toStr u hv (by decide) (by cases bk <;> cases enc <;> decide +kernel)).2 hs
    rw [h4] at this
    cases this

/-- NEGATIVE, n = 3: `URL("http://h").joinpath("..", ".//x", "y")` is `http://h/x/y`, the iterated form is
    `http://h//x/y`: different under `==` -/
theorem C13_joinpath_nary_beq_fails_for_double_slash : ∀ (bk : Backend) (enc : Bool),
    let e : Env := ⟨bk, Oracles.empty⟩
    let u := fromParts "http".toStr "h".toStr [] [] []
    let ps := ["..".toStr, ".//x".toStr, "y".toStr]
    makeChild e u ps enc = .ok (fromParts "http".toStr "h".toStr "/x/y".toStr [] []) ∧
    ps.foldlM (fun v a => makeChild e v [a] enc) u = .ok (fromParts "http".toStr "h".toStr "//x/y".toStr [] []) ∧
    C13_resBeq (makeChild e u ps enc) (ps.foldlM (fun v a => makeChild e v [a] enc) u) = false := by
  intro bk enc e u ps
  · skip
    have h1 : makeChild e u ps enc = .ok (fromParts "http".toStr "h".toStr "/x/y".toStr [] []) :=
      (by cases bk <;> cases enc <;> exact okEq_sound (by decide +kernel))
    have h2 : ps.foldlM (fun v a => makeChild e v [a] enc) u =
        .ok (fromParts "http".toStr "h".toStr "//x/y".toStr [] []) := (by cases bk <;> cases enc <;> exact okEq_sound (by decide +kernel))
    exact ⟨h1, h2, by rw [h1, h2]; decide⟩

/-- POSITIVE, n = 3, non-vacuity of `C13_joinpath_nary_beq` outside every stored-value guard:
    `URL("http://h").joinpath("x", "../..", ".")` is `http://h`, the iterated form `http://h/` -/
theorem C13_joinpath_nary_beq_instance : ∀ (bk : Backend) (enc : Bool),
    let e : Env := ⟨bk, Oracles.empty⟩
    let u := fromParts "http".toStr "h".toStr [] [] []
    let ps := ["x".toStr, "../..".toStr, ".".toStr]
    (∀ p ∈ ps, p.head? ≠ some 47 → (argText e enc p).head? ≠ some 47) ∧
    C13_beqGuard e enc ps u ∧
    makeChild e u ps enc = .ok u ∧
    ps.foldlM (fun v a => makeChild e v [a] enc) u = .ok (fromParts "http".toStr "h".toStr "/".toStr [] []) ∧
    C13_resBeq (makeChild e u ps enc) (ps.foldlM (fun v a => makeChild e v [a] enc) u) = true := by
  intro bk enc e u ps
  · skip
    have hq : ∀ p ∈ ps, p.head? ≠ some 47 → (argText e enc p).head? ≠ some 47 := by cases bk <;> cases enc <;> decide +kernel
    have hg : C13_beqGuard e enc ps u :=
      ⟨Or.inr (Or.inl (by cases bk <;> cases enc <;> decide +kernel)),
       Or.inr (Or.inr (Or.inr (Or.inr (Or.inr (Or.inr (by cases bk <;> cases enc <;> decide +kernel)))))), trivial⟩
    exact ⟨hq, hg, (by cases bk <;> cases enc <;> exact okEq_sound (by decide +kernel)), (by cases bk <;> cases enc <;> exact okEq_sound (by decide +kernel)),
      C13_joinpath_nary_beq e enc ps u (by simp [ps]) hq hg⟩

/-! ## non-vacuity of the hypothesis sets -/

-- `C13_joinpath_assoc_beq_iff` / `C13_joinpath_assoc_stored_iff` / `C13_truediv_chain_beq`: the hypotheses hold for
-- u = http://h, a = "..", b = "." (used in `C13_joinpath_beq_stored_only_instance`); `C13_truediv_chain_beq` there:
example : ∀ bk : Backend,
    let e : Env := ⟨bk, Oracles.empty⟩
    let u := fromParts "http".toStr "h".toStr [] [] []
    C13_resBeq (makeChild e u ["..".toStr] false >>= fun v => makeChild e v [".".toStr] false)
      (makeChild e u ["..".toStr, ".".toStr] false) = true := by
  intro bk e u
  refine (C13_truediv_chain_beq e u _ _ (by decide) (by decide) ?_).2
    (Or.inr (Or.inr (Or.inr (Or.inr (Or.inr (Or.inr ?_))))))
  · cases bk <;> decide +kernel
  · cases bk <;> decide +kernel

-- `C13_beq_stored_difference`: http://h vs http://h/
example : let a := fromParts "http".toStr "h".toStr [] [] []
    let b := fromParts "http".toStr "h".toStr "/".toStr [] []
    a.beq b = true ∧ a.path ≠ b.path := by decide

-- `C13_beqGuard_of_no_dotdot`: the hypothesis holds for http://h/k and ["a.b", "c", ".."]
example : let u := fromParts "http".toStr "h".toStr "/k".toStr [] []
    u.netloc ≠ [] ∧ dotdot ∉ splitOn 47 u.path ∧
      ∀ a ∈ ["a.b".toStr, "c".toStr, "..".toStr].dropLast, dotdot ∉ splitOn 47 (argText ⟨.c, Oracles.empty⟩ true a) := by
  decide +kernel

end Yarl
