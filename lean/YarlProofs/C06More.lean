/-
  C06More.lean — property C06, closes GAPS items 3, 5, 6, 7 of C06Headline.lean.

  Part 1 (GAP 3): read-back of `build()` arguments through `user`, `password`, `host` / `raw_host`, `query`,
  `query_string` (helpers in `Yarl.BuildMore`).
  Part 2 (GAPS 5, 6, 7): `with_path` for rootless texts and for texts with '.' that are not dot segments,
  `build(path=)` likewise; `/` and `joinpath` with '.' / '/' / several arguments, read back through `name`,
  `parts`, `path`; `with_name` with `keep_query` / `keep_fragment` (helpers in `Yarl.PathMore`, C13More.lean).
-/
import YarlModel
import YarlProofs.C06
import YarlProofs.C17Build
import YarlProofs.C16Host
import YarlProofs.C12Url
import YarlProofs.C13More
set_option linter.unusedSimpArgs false
set_option linter.unusedVariables false
namespace Yarl

section BuildPart
open NetlocLemmas StrTotal MiscLemmas DecLemmas

namespace BuildMore

/-! ### `make_netloc(encode=True)` is `make_netloc(encode=False)` of the quoted userinfo -/

/-- the user text `make_netloc(…, encode=True)` writes: nothing for `None` and for "" -/
def encUser (qf : Str → Str) (u : Option Str) : Option Str :=
  u.bind (fun s => if s.isEmpty then none else some (qf s))

theorem makeNetloc_enc (qf : Str → Str) (U P : Option Str) (hb : Str) (port : Option Nat) :
    makeNetloc qf U P (some hb) port true = makeNetloc qf (encUser qf U) (P.map qf) (some hb) port false := by
  unfold makeNetloc encUser
  cases U with
  | none => cases P <;> rfl
  | some u =>
    cases u with
    | nil => cases P <;> rfl
    | cons c r =>
      cases P with
      | none => simp
      | some w =>
        cases hq : qf (c :: r) <;> simp [hq]

/-- `split_netloc ∘ make_netloc` for ANY user without ':' (possibly empty) and any password -/
theorem split_makeNetloc (o : Oracles) (qf : Str → Str) (user pw : Option Str) (h : Str) (port : Option Nat)
    (hu : ∀ s, user = some s → 58 ∉ s) (h64 : 64 ∉ h) (h91 : 91 ∉ h) (h93 : 93 ∉ h)
    (hp : ∀ p, port = some p → p ≤ 65535) :
    splitNetloc o (makeNetloc qf user pw (some (bracket h)) port false) =
      .ok { user := user.bind orNone, password := pw, host := orNone h, port := port } := by
  have hret := notMem_hostPortStr port h64
  have hfin := fun U P => finish_hostPortStr o U P h port h91 h93 hp
  rw [splitNetloc_eq, makeNetloc_eq]
  cases user with
  | none =>
    cases pw with
    | none =>
      simp only [userSplit_noAt _ hret, hfin]
    | some w =>
      have e : (none : Option Str).getD [] ++ 58 :: w ++ 64 :: hostPortStr (bracket h) port
          = (58 :: w) ++ 64 :: hostPortStr (bracket h) port := by simp
      simp only [e, userSplit_at _ _ hret, hfin]
      simp [partition, orNone]
  | some u =>
    have h58 := hu u rfl
    cases pw with
    | none =>
      cases u with
      | nil =>
        simp only [List.isEmpty_nil, if_true, userSplit_noAt _ hret, hfin]
        rfl
      | cons c r =>
        simp only [List.isEmpty_cons, Bool.false_eq_true, if_false]
        rw [userSplit_at (c :: r) _ hret]
        simp only [hfin, partition_notFound 58 (c :: r) h58]
        simp
    | some w =>
      have e : (some u).getD [] ++ 58 :: w ++ 64 :: hostPortStr (bracket h) port
          = (u ++ 58 :: w) ++ 64 :: hostPortStr (bracket h) port := by simp
      simp only [e, userSplit_at _ _ hret, hfin, partition_found 58 u w h58]
      simp

/-! ### the netloc a successful `build(host=…)` stores -/

/-- the port `build` passes on: a port equal to the default of the LOWERED scheme `sc` is dropped
    (fix e21485a: the scheme is lowered before the default-port test) -/
def normPort (sc : Str) (a : BuildArgs) : Option Nat :=
  match a.port.map Int.toNat with
  | some p => if some p = defaultPort sc then none else some p
  | none => none

/-- `sc` is the scheme `build` stores: `lower a.scheme` for an ASCII scheme, the oracle's answer otherwise -/
theorem build_netloc_form (e : Env) (a : BuildArgs) (v : Url) (h : build e a = .ok v)
    (henc : a.encoded = false) (hauth : a.authority = []) (hhost : a.host ≠ []) :
    ∃ sc eh, lowerAny e a.scheme = .ok sc ∧ v.scheme = sc ∧ encodeHost e.o a.host true = .ok eh ∧ v.pre = none ∧
      v.netloc = makeNetloc (q e Gen.QUOTER) a.user a.password (some eh) (normPort sc a) true ∧
      (∀ p, normPort sc a = some p → p ≤ 65535) := by
  obtain ⟨sc, hsc, hsch, hpre, hnl, hrange⟩ := build_parts e a v henc h
  unfold buildNetloc at hnl
  have hne : a.host.isEmpty = false := isEmpty_false_of_ne hhost
  simp only [hauth, List.isEmpty_nil, Bool.not_true, Bool.false_eq_true, if_false, hne, Bool.not_false,
    if_true] at hnl
  obtain ⟨eh, heh, hnl⟩ := DecLemmas.bind_ok hnl
  refine ⟨sc, eh, hsc, hsch, heh, hpre, ?_, normPort_le (a.port.map Int.toNat) sc hrange⟩
  split at hnl
  · rename_i hc
    simp only [Bool.and_eq_true, Option.isNone_iff_eq_none] at hc
    have := Except.ok.inj hnl
    rw [← this, hc.1, hc.2]
    unfold normPort makeNetloc
    cases a.port.map Int.toNat with
    | none => rfl
    | some p =>
      simp only []
      by_cases hd : some p = defaultPort sc
      · simp only [if_pos hd]
      · simp only [if_neg hd]
  · exact (Except.ok.inj hnl).symm

/-! ### accessors of a cache-less URL from the split of its netloc -/

theorem net_of_split (e : Env) (v : Url) (np : NetlocParts) (hpre : v.pre = none)
    (h : splitNetloc e.o v.netloc = .ok np) :
    net e v = .ok { rawHost := (match np.host with
                      | none => if v.netloc.isEmpty then none else some []
                      | some h => some h),
                    explicitPort := np.port, rawUser := np.user, rawPassword := np.password } := by
  unfold net
  rw [hpre]
  unfold lazyNet
  rw [h]
  rfl

theorem unbracket_nil : unbracket [] = [] := rfl

/-- the encoded host as `bracket r` with `r = unbracket eh` -/
theorem encoded_host_unbracket (o : Oracles) (hs eh : Str) (h : encodeHost o hs true = .ok eh) :
    eh = bracket (unbracket eh) ∧ 64 ∉ unbracket eh ∧ 91 ∉ unbracket eh ∧ 93 ∉ unbracket eh := by
  by_cases hne : eh = []
  · subst hne; exact ⟨rfl, by simp [unbracket_nil], by simp [unbracket_nil], by simp [unbracket_nil]⟩
  · obtain ⟨hwf, hok⟩ := C11_encoded_host_wellformed o hs eh hne h
    exact ⟨hwf.symm, hok.2.1, hok.2.2.1, hok.2.2.2⟩

/-- THE SPLIT of the netloc of `build(user=, password=, host=, port=)` -/
theorem build_split (e : Env) (a : BuildArgs) (v : Url) (h : build e a = .ok v)
    (henc : a.encoded = false) (hauth : a.authority = []) (hhost : a.host ≠ [])
    (hu : ∀ s, a.user = some s → PyStr s) :
    ∃ sc eh, lowerAny e a.scheme = .ok sc ∧ encodeHost e.o a.host true = .ok eh ∧ v.pre = none ∧
      splitNetloc e.o v.netloc = .ok
        { user := (encUser (q e Gen.QUOTER) a.user).bind orNone, password := a.password.map (q e Gen.QUOTER),
          host := orNone (unbracket eh), port := normPort sc a } := by
  obtain ⟨sc, eh, hsc, _, heh, hpre, hnl, hport⟩ := build_netloc_form e a v h henc hauth hhost
  obtain ⟨hbr, h64, h91, h93⟩ := encoded_host_unbracket e.o a.host eh heh
  refine ⟨sc, eh, hsc, heh, hpre, ?_⟩
  rw [hnl, makeNetloc_enc]
  conv => lhs; rw [hbr]
  apply split_makeNetloc e.o _ _ _ _ _ ?_ h64 h91 h93 hport
  intro s hs
  unfold encUser at hs
  cases hus : a.user with
  | none => rw [hus] at hs; cases hs
  | some u =>
    rw [hus] at hs
    simp only [Option.bind_some] at hs
    split at hs
    · cases hs
    · cases hs
      exact quoter_no_colon e.b u (hu u hus)

/-- `host` of a lower-case ASCII raw host without ':' is the raw host; the IDNA decoder is consulted only
    when the host does not end in a digit or contains "xn--", and then it must answer the host itself -/
theorem host_ascii_lower (e : Env) (u : Url) (raw : Str) (hraw : rawHost e u = .ok (some raw))
    (hasc : isAscii raw = true) (hlow : lower raw = raw) (h58 : 58 ∉ raw)
    (hdec : ((∀ l, raw.getLast? = some l → isDigitC l = false) ∨ hasSub [120, 110, 45, 45] raw = true) →
      e.o.idnaDec raw = some (some raw)) :
    host e u = .ok (some raw) := by
  by_cases hx : (∀ l, raw.getLast? = some l → isDigitC l = false) ∨ hasSub [120, 110, 45, 45] raw = true
  · exact (C16_host_reencodes_ascii e u raw hraw hasc hlow h58 hx (hdec hx)).1
  · have hx1 : ¬ ∀ l, raw.getLast? = some l → isDigitC l = false := fun h => hx (Or.inl h)
    have hx2 : hasSub [120, 110, 45, 45] raw = false := by
      cases hh : hasSub [120, 110, 45, 45] raw with
      | false => rfl
      | true => exact absurd (Or.inr hh) hx
    apply host_of_ip_looking e u raw hraw
    left
    cases hl : raw.getLast? with
    | none => exact absurd (fun l h => by rw [hl] at h; cases h) hx1
    | some l =>
      refine ⟨l, rfl, ?_, hx2⟩
      cases hd : isDigitC l with
      | true => rfl
      | false =>
        exfalso; apply hx1
        intro l' hl'
        rw [hl] at hl'
        cases hl'; exact hd

/-- an ASCII host that is no IP literal (its text before '%' parses as neither IPv4 nor IPv6, or it has no
    ':' and does not end in a digit) is encoded by lower-casing, and the result passes `NOT_REG_NAME` -/
theorem encodeHost_ascii_regname (o : Oracles) (h eh : Str) (ha : isAscii h = true)
    (hnip : parseIP (partition 37 h).1 = none ∨
      (58 ∉ h ∧ ∀ l, h.getLast? = some l → isDigitC l = false))
    (he : encodeHost o h true = .ok eh) : eh = lower h ∧ notRegName eh = false := by
  rcases hnip with hp | ⟨h58, hnd⟩
  · exact ⟨(C16_ascii_regname o h true eh ha hp he).1, C16_validated_regname o h eh ha hp he⟩
  · rw [HostLemmas.encodeHost_eq, looksIP_false o ha h58 hnd] at he
    simp only [bind, Except.bind, Bool.false_eq_true, if_false, HostLemmas.regPath, ha, if_true,
      Bool.true_and] at he
    split at he
    · cases he
    · rename_i hv
      cases he
      exact ⟨rfl, by simpa using hv⟩

theorem notRegName_no58 {s : Str} (h : notRegName s = false) : 58 ∉ s := by
  intro hm
  rcases HostLemmas.notRegName_spec s h 58 hm with h | h
  · omega
  · revert h; decide

/-! ### the query a successful `build` stores (both `encoded=` modes) -/

theorem build_query_shape (e : Env) (a : BuildArgs) (v : Url) (h : build e a = .ok v) :
    (qargTruthy a.query = true → ∃ qs, getStrQuery e.b a.query = .ok qs ∧ v.query = qs.getD []) ∧
    (qargTruthy a.query = false →
      v.query = (if a.encoded = false ∧ a.queryString ≠ [] then q e Gen.QUERY_QUOTER a.queryString
                 else a.queryString)) := by
  unfold build at h
  simp only [] at h
  have h := ite_err' (ite_err' (ite_err' (ite_err' (ite_err' h))))
  obtain ⟨qs, hqs, h⟩ := DecLemmas.bind_ok h
  have hv : v.query = (if a.encoded = true then qs
      else if (!qargTruthy a.query && !qs.isEmpty) = true then q e Gen.QUERY_QUOTER qs else qs) := by
    cases henc : a.encoded with
    | true =>
      simp only [henc, if_true] at h
      cases h
      rfl
    | false =>
      simp only [henc, Bool.false_eq_true, if_false] at h
      obtain ⟨sc, _, h⟩ := DecLemmas.bind_ok h   -- the lowered scheme (fix e21485a)
      obtain ⟨nl, _, h⟩ := DecLemmas.bind_ok h
      obtain ⟨p, _, h⟩ := DecLemmas.bind_ok h
      cases h
      rfl
  constructor
  · intro ht
    simp only [ht, if_true] at hqs
    obtain ⟨qo, hqo, hqs⟩ := DecLemmas.bind_ok hqs
    cases hqs
    refine ⟨qo, hqo, ?_⟩
    rw [hv]
    simp [ht]
  · intro ht
    simp only [ht, Bool.false_eq_true, if_false] at hqs
    cases hqs
    rw [hv]
    cases henc : a.encoded with
    | true => simp
    | false =>
      cases hq : a.queryString with
      | nil => simp [ht]
      | cons c r => simp [ht]

/-! ### reading a written query string: `QS_UNQUOTER ∘ QUERY_QUOTER` -/

/-- unquoting what ANY non-requoting quoter (query quoters included) wrote, character by character -/
theorem uqLoop_cOut_any (b : Backend) (q : QTab) (u : UTab) (hq : q.WF) (hnr : q.requote = false)
    (t : Str) (ht : PyStr t) (hn : NoSurrogate t) :
    uqLoop b u [] [] (cOut q t) =
      t.flatMap (fun c => if q.qs = true ∧ c = 32 then uqPlain u 43
        else if c < 128 ∧ q.safe c = true then uqPlain u c else uqEmit b u c) := by
  induction t with
  | nil => rw [cOut, uqLoop]; rfl
  | cons c rest ih =>
    have hc : c ≤ 0x10FFFF := ht c (by simp)
    have hs : isSurrogate c = false := hn c (by simp)
    have ih' := ih (fun x hx => ht x (by simp [hx])) (fun x hx => hn x (by simp [hx]))
    rw [cOut]
    simp only [hnr, Bool.false_eq_true, and_false, if_false]
    unfold cWriteOut
    simp only [List.flatMap_cons]
    by_cases h1 : q.qs = true ∧ c = 32
    · rw [if_pos h1, if_pos h1]
      rw [List.singleton_append, Readback.uqLoop_plain b u 43 (by decide), ih']
    · rw [if_neg h1, if_neg h1]
      by_cases h2 : c < 128 ∧ q.safe c = true
      · have h37 : c ≠ 37 := by
          rintro rfl
          have := hq.pct_unsafe
          rw [h2.2] at this
          exact absurd this (by decide)
        rw [if_pos h2, if_pos h2]
        rw [List.singleton_append, Readback.uqLoop_plain b u c h37, ih']
      · rw [if_neg h2, if_neg h2]
        rw [Readback.uqLoop_writeUtf8 b u c hc hs, ih']

/-- a query STRING is not a decoded value: what `QS_UNQUOTER` reads from what `QUERY_QUOTER` wrote is the
    text with every '+' turned into a space (everything else, '%' '=' '&' ';' and non-ASCII included, is
    unchanged) -/
theorem qs_readback (b : Backend) (t : Str) (ht : PyStr t) (hn : NoSurrogate t) :
    Gen.QS_UNQUOTER.run b (Gen.QUERY_QUOTER.run b t) = plusToSpace t := by
  rw [QsLemmas.run_eq_cOut Gen.QUERY_QUOTER (by decide) b t ht, QsLemmas.stripSurr_id t hn]
  show unquote b (Gen.QS_UNQUOTER.tab b) _ = _
  rw [unquote_eq_uqLoop, uqLoop_cOut_any b _ _ (gen_tab_wf Gen.QUERY_QUOTER (by decide) b)
    (by cases b <;> rfl) t ht hn]
  have hqs : (Gen.QUERY_QUOTER.tab b).qs = true := by cases b <;> rfl
  have hsafe : ∀ c, mem c "+=&;".toStr = true → c < 128 ∧ (Gen.QUERY_QUOTER.tab b).safe c = true := by
    intro c hc
    have : c = 43 ∨ c = 61 ∨ c = 38 ∨ c = 59 := by
      have := GenTabs.mem_iff.mp hc
      simpa [String.toStr] using this
    rcases this with rfl | rfl | rfl | rfl <;> cases b <;> decide
  unfold plusToSpace
  rw [List.map_eq_flatMap]
  congr 1
  funext c
  by_cases h1 : c = 32
  · subst h1
    simp only [hqs, and_self, if_true]
    rfl
  · simp only [h1, and_false, if_false]
    by_cases h2 : c < 128 ∧ (Gen.QUERY_QUOTER.tab b).safe c = true
    · simp only [h2, and_self, if_true]
      unfold uqPlain
      by_cases h3 : c = 43
      · subst h3; rfl
      · simp only [h3, if_false]
        rfl
    · simp only [h2, if_false]
      have hm : mem c "+=&;".toStr = false := by
        cases hm : mem c "+=&;".toStr with
        | false => rfl
        | true => exact absurd (hsafe c hm) h2
      have h43 : c ≠ 43 := by
        rintro rfl
        revert hm; decide
      unfold uqEmit
      simp only [hm, Bool.false_eq_true, and_false, if_false, h43]
      rfl

end BuildMore
open BuildMore

/-! ## (a), (b): user and password -/

/-- raw user and password of `build(user=, password=, host=)`: the quoted texts; an absent or empty user is
    `None`; the password is `None` only when absent (an empty password is kept as "") -/
theorem C06_build_raw_userinfo (e : Env) (a : BuildArgs) (v : Url) (h : build e a = .ok v)
    (henc : a.encoded = false) (hauth : a.authority = []) (hhost : a.host ≠ [])
    (hu : ∀ s, a.user = some s → PyStr s) :
    rawUser e v = .ok ((encUser (q e Gen.QUOTER) a.user).bind orNone) ∧
    rawPassword e v = .ok (a.password.map (q e Gen.QUOTER)) := by
  obtain ⟨sc, eh, _, _, hpre, hsp⟩ := build_split e a v h henc hauth hhost hu
  have hn := net_of_split e v _ hpre hsp
  constructor
  · unfold rawUser; rw [hn]; rfl
  · unfold rawPassword; rw [hn]; rfl

/-- (a) `build(user=s, …).user == s` for a non-empty `s`, whatever the password is -/
theorem C06_build_user_readback (e : Env) (a : BuildArgs) (v : Url) (h : build e a = .ok v)
    (henc : a.encoded = false) (hauth : a.authority = []) (hhost : a.host ≠ [])
    (s : Str) (hus : a.user = some s) (hs : PyStr s) (hn : NoSurrogate s) (h0 : s ≠ []) :
    user e v = .ok (some s) := by
  have hu : ∀ t, a.user = some t → PyStr t := by
    intro t ht; rw [hus] at ht; cases ht; exact hs
  have hr := (C06_build_raw_userinfo e a v h henc hauth hhost hu).1
  have hne : s.isEmpty = false := isEmpty_false_of_ne h0
  have hq := quoter_ne_nil Gen.QUOTER (by decide) (by decide) e.b s hs hn h0
  have hqe : (q e Gen.QUOTER s).isEmpty = false := isEmpty_false_of_ne hq
  have : (encUser (q e Gen.QUOTER) a.user).bind orNone = some (q e Gen.QUOTER s) := by
    simp [encUser, hus, h0, orNone, hqe]
  rw [this] at hr
  unfold user
  rw [hr]
  show Except.ok (some (uq e Gen.UNQUOTER (q e Gen.QUOTER s))) = _
  rw [show uq e Gen.UNQUOTER (q e Gen.QUOTER s) = s from C06_readback_user e.b s hs hn]

/-- (a) no user, or the empty user: `.user` is `None` — also when a password is given (netloc ":pw@host") -/
theorem C06_build_user_none (e : Env) (a : BuildArgs) (v : Url) (h : build e a = .ok v)
    (henc : a.encoded = false) (hauth : a.authority = []) (hhost : a.host ≠ [])
    (hus : a.user = none ∨ a.user = some []) :
    user e v = .ok none := by
  have hu : ∀ t, a.user = some t → PyStr t := by
    intro t ht
    rcases hus with hus | hus <;> rw [hus] at ht <;> cases ht
    exact pyStr_nil
  have hr := (C06_build_raw_userinfo e a v h henc hauth hhost hu).1
  have : (encUser (q e Gen.QUOTER) a.user).bind orNone = none := by
    rcases hus with hus | hus <;> simp [encUser, hus]
  rw [this] at hr
  unfold user
  rw [hr]
  rfl

/-- (b) `build(password=p, …).password == p`, for EVERY `p` including "" (with or without a user) -/
theorem C06_build_password_readback (e : Env) (a : BuildArgs) (v : Url) (h : build e a = .ok v)
    (henc : a.encoded = false) (hauth : a.authority = []) (hhost : a.host ≠ [])
    (hu : ∀ s, a.user = some s → PyStr s)
    (p : Str) (hpw : a.password = some p) (hp : PyStr p) (hn : NoSurrogate p) :
    password e v = .ok (some p) := by
  have hr := (C06_build_raw_userinfo e a v h henc hauth hhost hu).2
  rw [hpw] at hr
  unfold password
  rw [hr]
  show Except.ok (some (uq e Gen.UNQUOTER (q e Gen.QUOTER p))) = _
  rw [show uq e Gen.UNQUOTER (q e Gen.QUOTER p) = p from C06_readback_user e.b p hp hn]

/-- (b) no password: `.password` is `None` -/
theorem C06_build_password_none (e : Env) (a : BuildArgs) (v : Url) (h : build e a = .ok v)
    (henc : a.encoded = false) (hauth : a.authority = []) (hhost : a.host ≠ [])
    (hu : ∀ s, a.user = some s → PyStr s) (hpw : a.password = none) :
    password e v = .ok none := by
  have hr := (C06_build_raw_userinfo e a v h henc hauth hhost hu).2
  rw [hpw] at hr
  unfold password
  rw [hr]
  rfl

/-! ## (c): host -/

/-- (c, general raw statement) whatever `_encode_host(host, validate_host=True)` answered is what
    `raw_host` returns, without the brackets of an IPv6 literal — for EVERY user / password / port.
    (The `if` only matters for an IDNA oracle answering "": then the netloc may be empty.) -/
theorem C06_build_raw_host_gen (e : Env) (a : BuildArgs) (v : Url) (h : build e a = .ok v)
    (henc : a.encoded = false) (hauth : a.authority = []) (hhost : a.host ≠ [])
    (eh : Str) (heh : encodeHost e.o a.host true = .ok eh) :
    rawHost e v = .ok (if v.netloc.isEmpty then none else some (unbracket eh)) := by
  obtain ⟨sc, eh', _, _, heh', hpre, hnl, hport⟩ := build_netloc_form e a v h henc hauth hhost
  rw [heh] at heh'
  cases heh'
  obtain ⟨hbr, h64, h91, h93⟩ := encoded_host_unbracket e.o a.host eh heh
  have hshape : v.netloc = hostPortStr (bracket (unbracket eh)) (normPort sc a) ∨
      ∃ X, v.netloc = X ++ 64 :: hostPortStr (bracket (unbracket eh)) (normPort sc a) := by
    rw [hnl, ← hbr]
    exact makeNetloc_shape _ _ _ _ _ _
  obtain ⟨np, hsp, _, hnh⟩ := splitNetloc_written_port e.o (unbracket eh) (normPort sc a) h64 h91 h93 hport
    v.netloc hshape
  have hn := net_of_split e v np hpre hsp
  unfold rawHost
  rw [hn, hnh]
  show Except.ok _ = _
  congr 1
  cases hr : unbracket eh with
  | nil => rfl
  | cons c r =>
    have hne : v.netloc.isEmpty = false := by
      apply isEmpty_false_of_ne
      have hb : hostPortStr (bracket (unbracket eh)) (normPort sc a) ≠ [] :=
        hostPortStr_ne_nil (bracket_ne_nil (by rw [hr]; simp)) _
      rcases hshape with hs | ⟨X, hs⟩
      · rw [hs]; exact hb
      · rw [hs]; simp
    simp [orNone, hne]

/-- (c, raw) with a non-empty encoded host (always the case unless an IDNA oracle answers "") -/
theorem C06_build_raw_host (e : Env) (a : BuildArgs) (v : Url) (h : build e a = .ok v)
    (henc : a.encoded = false) (hauth : a.authority = []) (hhost : a.host ≠ [])
    (eh : Str) (heh : encodeHost e.o a.host true = .ok eh) (hne : eh ≠ []) :
    rawHost e v = .ok (some (unbracket eh)) := by
  rw [C06_build_raw_host_gen e a v h henc hauth hhost eh heh]
  obtain ⟨sc, eh', _, _, heh', _, hnl, _⟩ := build_netloc_form e a v h henc hauth hhost
  rw [heh] at heh'
  cases heh'
  obtain ⟨hbr, _, _, _⟩ := encoded_host_unbracket e.o a.host eh heh
  have hune : unbracket eh ≠ [] := by
    intro h0; rw [h0] at hbr; exact hne hbr
  have : v.netloc.isEmpty = false := by
    apply isEmpty_false_of_ne
    have hb : hostPortStr (bracket (unbracket eh)) (normPort sc a) ≠ [] :=
      hostPortStr_ne_nil (bracket_ne_nil hune) _
    rw [hnl]
    rw [← hbr] at hb
    rcases makeNetloc_shape (q e Gen.QUOTER) a.user a.password eh (normPort sc a) true
      with hs | ⟨X, hs⟩
    · rw [hs]; exact hb
    · rw [hs]; simp
  simp [this]

/-- (c) an ASCII registered name given as `host=` (no IP literal: see `encodeHost_ascii_regname`) is stored
    LOWER-CASED, and `.host` returns that text.  `URL.host` runs the raw host through `_idna_decode` unless it
    ends in a digit (and has no "xn--"): the hypothesis of the second part says the IDNA decoder maps the
    (ASCII, lower-case) name to itself — it is needed only in that case and only for the decoded accessor. -/
theorem C06_build_host_readback_lower (e : Env) (a : BuildArgs) (v : Url) (h : build e a = .ok v)
    (henc : a.encoded = false) (hauth : a.authority = []) (hhost : a.host ≠ [])
    (hasc : isAscii a.host = true)
    (hnip : parseIP (partition 37 a.host).1 = none ∨
      (58 ∉ a.host ∧ ∀ l, a.host.getLast? = some l → isDigitC l = false)) :
    rawHost e v = .ok (some (lower a.host)) ∧
    ((((∀ l, (lower a.host).getLast? = some l → isDigitC l = false) ∨
        hasSub [120, 110, 45, 45] (lower a.host) = true) →
      e.o.idnaDec (lower a.host) = some (some (lower a.host))) →
     host e v = .ok (some (lower a.host))) := by
  obtain ⟨sc, eh, _, _, heh, _⟩ := build_netloc_form e a v h henc hauth hhost
  obtain ⟨hlow, hreg⟩ := encodeHost_ascii_regname e.o a.host eh hasc hnip heh
  have hne : eh ≠ [] := by
    rw [hlow]
    intro h0
    apply hhost
    cases hh : a.host with
    | nil => rfl
    | cons c r => rw [hh] at h0; simp [lower] at h0
  have hraw := C06_build_raw_host e a v h henc hauth hhost eh heh hne
  rw [unbracket_of_no91 (notRegName_no91 hreg), hlow] at hraw
  refine ⟨hraw, fun hdec => ?_⟩
  exact host_ascii_lower e v (lower a.host) hraw (HostLemmas.isAscii_lower hasc) (HostLemmas.lower_idem _)
    (by rw [← hlow]; exact notRegName_no58 hreg) hdec

/-- (c) the requested form: a LOWER-CASE ASCII registered name reads back unchanged -/
theorem C06_build_host_readback (e : Env) (a : BuildArgs) (v : Url) (h : build e a = .ok v)
    (henc : a.encoded = false) (hauth : a.authority = []) (hhost : a.host ≠ [])
    (hasc : isAscii a.host = true) (hlow : lower a.host = a.host)
    (hnip : parseIP (partition 37 a.host).1 = none ∨
      (58 ∉ a.host ∧ ∀ l, a.host.getLast? = some l → isDigitC l = false))
    (hdec : ((∀ l, a.host.getLast? = some l → isDigitC l = false) ∨
        hasSub [120, 110, 45, 45] a.host = true) → e.o.idnaDec a.host = some (some a.host)) :
    rawHost e v = .ok (some a.host) ∧ host e v = .ok (some a.host) := by
  have := C06_build_host_readback_lower e a v h henc hauth hhost hasc hnip
  rw [hlow] at this
  exact ⟨this.1, this.2 hdec⟩

/-- (c) an IPv4 literal given as `host=` reads back unchanged from `raw_host` and `host` (no oracle) -/
theorem C06_build_host_readback_ipv4 (e : Env) (a : BuildArgs) (v : Url) (h : build e a = .ok v)
    (henc : a.encoded = false) (hauth : a.authority = []) (o4 : List Nat)
    (h4 : parseIPv4 a.host = some o4) :
    rawHost e v = .ok (some a.host) ∧ host e v = .ok (some a.host) := by
  have hch := HostLemmas.parseIPv4_chars h4
  have hno : ∀ c, ¬ (c = 46 ∨ isDigitC c = true) → c ∉ a.host := fun c hc hm => hc (hch c hm)
  have h37 : 37 ∉ a.host := hno 37 (by decide)
  have h91 : 91 ∉ a.host := hno 91 (by decide)
  have hhost : a.host ≠ [] := by
    intro h0
    have : parseIPv4 [] = none := by decide
    rw [h0, this] at h4; cases h4
  have heh := C16_ipv4_kept e.o a.host true o4 h4 h37
  have hraw := C06_build_raw_host e a v h henc hauth hhost a.host heh hhost
  rw [unbracket_of_no91 h91] at hraw
  exact ⟨hraw, (C16_host_reencodes_ip e v a.host hraw (Or.inl ⟨o4, h4⟩) (by
    intro l hl hge
    have := hch l (List.mem_of_getLast? hl)
    rcases this with rfl | hd
    · omega
    · simp [isDigitC] at hd; omega)).1⟩

/-- (c) an IPv6 literal (any spelling, optional zone id) given as `host=`: `raw_host` and `host` are its
    canonical lower-case text, the zone id verbatim, no brackets (no oracle) -/
theorem C06_build_host_readback_ipv6 (e : Env) (a : BuildArgs) (v : Url) (h : build e a = .ok v)
    (henc : a.encoded = false) (hauth : a.authority = []) (h8 : List Nat)
    (h4 : parseIPv4 (partition 37 a.host).1 = none) (h6 : parseIPv6 (partition 37 a.host).1 = some h8) :
    let raw := ipv6ToStr h8 ++ (if (partition 37 a.host).2.1 then [37] ++ (partition 37 a.host).2.2 else [])
    rawHost e v = .ok (some raw) ∧ host e v = .ok (some raw) := by
  intro raw
  have hcolon : 58 ∈ a.host := HostLemmas.partition_fst_sub 37 a.host 58 (HostLemmas.parseIPv6_colon h6)
  have hhost : a.host ≠ [] := by intro h0; rw [h0] at hcolon; simp at hcolon
  obtain ⟨sc, eh, _, _, heh, _⟩ := build_netloc_form e a v h henc hauth hhost
  obtain ⟨hhd, _, hform⟩ := C16_ipv6_bracketed e.o a.host true h8 eh h4 h6 heh
  have hne : eh ≠ [] := by rw [hform]; simp
  have hraw := C06_build_raw_host e a v h henc hauth hhost eh heh hne
  have hub : unbracket eh = raw := by
    rw [unbracket_of_head hhd, hform]
    simp [raw]
  rw [hub] at hraw
  refine ⟨hraw, ?_⟩
  apply host_of_ip_looking e v raw hraw
  right
  have hc6 : 58 ∈ ipv6ToStr h8 := HostLemmas.parseIPv6_colon (C16_ipv6_reparse _ h8 h6)
  refine ⟨by simp [raw, hc6], fun l hl => ?_⟩
  have hasc := C16_validated_ascii e.o a.host eh heh
  have hl128 : l < 128 := by
    apply hasc
    rw [hform]
    have := List.mem_of_getLast? hl
    simp only [raw] at this
    simp only [List.mem_append, List.mem_cons, List.not_mem_nil, or_false] at this ⊢
    rcases this with h | h
    · exact Or.inl (Or.inl (Or.inr h))
    · exact Or.inl (Or.inr h)
  unfold isDigitChar
  simp only [hl128, if_true]
  exact ⟨_, rfl⟩

/-! ## (d): query= (pairs / mapping) → `url.query` -/

/-- (d) `build(query=<sequence of (key, value)>)`: `url.query` yields exactly the pairs the argument denotes
    (ints by `str()`), in order — in BOTH modes (`encoded=True` as well: a non-string `query=` is always
    rendered by the library), with any other arguments. -/
theorem C06_build_query_readback_pairs (e : Env) (a : BuildArgs) (v : Url) (h : build e a = .ok v)
    (items : List (Str × QItem)) (ps : List (Str × Str)) (hq : a.query = .pairs items) (hne : items ≠ [])
    (hs : SingleValued items) (hx : expandItems items = some ps) (hg : GoodPairs ps) :
    queryPairs v = ps ∧ v.query = QueryUrl.qtext e.b ps := by
  have ht : qargTruthy a.query = true := by
    rw [hq]; cases items with
    | nil => exact absurd rfl hne
    | cons _ _ => rfl
  obtain ⟨qs, hqs, hv⟩ := (build_query_shape e a v h).1 ht
  rw [hq, QueryUrl.getStrQuery_pairs e.b items ps hs hx] at hqs
  cases hqs
  have hv' : v.query = QueryUrl.qtext e.b ps := hv
  refine ⟨?_, hv'⟩
  unfold queryPairs
  rw [hv']
  exact QueryUrl.parse_qtext e.b ps hg

/-- (d) `build(query=<mapping>)`: list/tuple values expand to repeated keys -/
theorem C06_build_query_readback_mapping (e : Env) (a : BuildArgs) (v : Url) (h : build e a = .ok v)
    (items : List (Str × QItem)) (ps : List (Str × Str)) (hq : a.query = .mapping items) (hne : items ≠ [])
    (hx : expandItems items = some ps) (hg : GoodPairs ps) :
    queryPairs v = ps ∧ v.query = QueryUrl.qtext e.b ps := by
  have ht : qargTruthy a.query = true := by
    rw [hq]; cases items with
    | nil => exact absurd rfl hne
    | cons _ _ => rfl
  obtain ⟨qs, hqs, hv⟩ := (build_query_shape e a v h).1 ht
  rw [hq, QueryUrl.getStrQuery_mapping e.b items ps hx] at hqs
  cases hqs
  have hv' : v.query = QueryUrl.qtext e.b ps := hv
  refine ⟨?_, hv'⟩
  unfold queryPairs
  rw [hv']
  exact QueryUrl.parse_qtext e.b ps hg

/-- (d) the requested form: a non-empty sequence of string pairs reads back unchanged -/
theorem C06_build_query_readback (e : Env) (a : BuildArgs) (v : Url) (h : build e a = .ok v)
    (ps : List (Str × Str)) (hq : a.query = .pairs (strItems ps)) (hne : ps ≠ [])
    (hps : ∀ p ∈ ps, PyStr p.1 ∧ NoSurrogate p.1 ∧ PyStr p.2 ∧ NoSurrogate p.2) :
    queryPairs v = ps := by
  have hne' : strItems ps ≠ [] := by
    cases ps with
    | nil => exact absurd rfl hne
    | cons _ _ => simp [strItems]
  exact (C06_build_query_readback_pairs e a v h (strItems ps) ps hq hne' (QueryUrl.singleValued_strItems ps)
    (QueryUrl.expandItems_strItems ps) (fun p hp => ⟨⟨(hps p hp).1, (hps p hp).2.1⟩, (hps p hp).2.2⟩)).1

/-! ## (e): query_string= → `raw_query_string`, `query_string`, `query` -/

/-- the quoter-level fact: a query STRING is not a decoded value — `QUERY_QUOTER` keeps '+' (and '=' '&' ';')
    literal and writes ' ' as '+', `QS_UNQUOTER` reads every literal '+' as a space.  Everything else
    ('%', '=', '&', ';', non-ASCII, delimiters) comes back unchanged. -/
theorem C06_build_qs_quoter_level (b : Backend) (t : Str) (ht : PyStr t) (hn : NoSurrogate t) :
    Gen.QS_UNQUOTER.run b (Gen.QUERY_QUOTER.run b t) = plusToSpace t :=
  qs_readback b t ht hn

/-- (e) `build(query_string=s)` (no truthy `query=`; `encoded=False`): the stored query is `QUERY_QUOTER(s)`,
    `url.query` is `parse_qsl` of that, and `url.query_string` is `s` WITH EVERY '+' REPLACED BY A SPACE. -/
theorem C06_build_query_string_readback (e : Env) (a : BuildArgs) (v : Url) (h : build e a = .ok v)
    (henc : a.encoded = false) (hq : qargTruthy a.query = false)
    (hs : PyStr a.queryString) (hn : NoSurrogate a.queryString) :
    v.query = q e Gen.QUERY_QUOTER a.queryString ∧
    queryPairs v = parseQsl (q e Gen.QUERY_QUOTER a.queryString) ∧
    queryString e v = plusToSpace a.queryString := by
  have hv := (build_query_shape e a v h).2 hq
  have hnil : q e Gen.QUERY_QUOTER [] = [] := by
    show Gen.QUERY_QUOTER.run e.b [] = []
    rw [QsLemmas.run_eq_cOut Gen.QUERY_QUOTER (by decide) e.b [] pyStr_nil,
      QsLemmas.stripSurr_id [] (by intro c hc; simp at hc), cOut]
  have hv' : v.query = q e Gen.QUERY_QUOTER a.queryString := by
    rw [hv]
    by_cases h0 : a.queryString = []
    · rw [if_neg (by simp [h0]), h0, hnil]
    · rw [if_pos ⟨henc, h0⟩]
  refine ⟨hv', by unfold queryPairs; rw [hv'], ?_⟩
  unfold queryString
  rw [hv']
  by_cases h0 : a.queryString = []
  · rw [h0, hnil]; rfl
  · have hne := quoter_ne_nil Gen.QUERY_QUOTER (by decide) (by decide) e.b a.queryString hs hn h0
    have : (q e Gen.QUERY_QUOTER a.queryString).isEmpty = false := isEmpty_false_of_ne hne
    simp only [this, Bool.not_false, if_true]
    exact qs_readback e.b a.queryString hs hn

/-- (e) a query string without '+' reads back unchanged -/
theorem C06_build_query_string_readback_noplus (e : Env) (a : BuildArgs) (v : Url) (h : build e a = .ok v)
    (henc : a.encoded = false) (hq : qargTruthy a.query = false)
    (hs : PyStr a.queryString) (hn : NoSurrogate a.queryString) (h43 : 43 ∉ a.queryString) :
    queryString e v = a.queryString := by
  rw [(C06_build_query_string_readback e a v h henc hq hs hn).2.2]
  unfold plusToSpace
  have : ∀ l : Str, 43 ∉ l → l.map (fun c => if c = 43 then 32 else c) = l := by
    intro l hl
    induction l with
    | nil => rfl
    | cons c r ih =>
      simp only [List.mem_cons, not_or] at hl
      simp only [List.map_cons, ih hl.2]
      rw [if_neg (fun hc => hl.1 hc.symm)]
  exact this _ h43

/-- (e) `encoded=True`: the query string is stored verbatim (`url.query_string` is then `QS_UNQUOTER` of it) -/
theorem C06_build_query_string_encoded (e : Env) (a : BuildArgs) (v : Url) (h : build e a = .ok v)
    (henc : a.encoded = true) (hq : qargTruthy a.query = false) :
    v.query = a.queryString := by
  rw [(build_query_shape e a v h).2 hq, if_neg (by simp [henc])]

/-- (e) COUNTEREXAMPLE to "`build(query_string=s).query_string == s`": `URL.build(host="h",
    query_string="a+b").query_string == "a b"`, on both backends (the raw query is "a+b") -/
theorem C06_build_query_string_plus_counterexample (b : Backend) :
    ∃ v, build ⟨b, Oracles.empty⟩ { host := "h".toStr, queryString := "a+b".toStr } = .ok v ∧
      v.query = "a+b".toStr ∧ queryString ⟨b, Oracles.empty⟩ v = "a b".toStr ∧
      queryString ⟨b, Oracles.empty⟩ v ≠ "a+b".toStr := by
  refine ⟨fromParts [] "h".toStr [] "a+b".toStr [], ?_, rfl, ?_, ?_⟩
  · cases b <;> exact okEq_sound (by decide +kernel)
  · cases b <;> decide +kernel
  · cases b <;> decide +kernel

/-! ## non-vacuity -/

namespace BuildMore
/-- user "u:@%é ", password "p:@%€/", upper-case host, a port, query pairs with ' ' 'é' '+' '&' '=' '%' and an
    empty pair -/
def exA : BuildArgs :=
  { scheme := "http".toStr, user := some [117, 58, 64, 37, 233, 32],
    password := some [112, 58, 64, 37, 0x20AC, 47],
    host := "Example.COM".toStr, port := some 8080, path := "/p".toStr,
    query := .pairs (strItems [([107, 32, 233], [118, 43, 38, 61, 37]), ([], [])]) }
def exAUrl : Url :=
  fromParts "http".toStr "u%3A%40%25%C3%A9%20:p%3A%40%25%E2%82%AC%2F@example.com:8080".toStr "/p".toStr
    "k+%C3%A9=v%2B%26%3D%25&=".toStr []
/-- an IDNA decoder that maps every name to itself -/
def oId : Oracles := { Oracles.empty with idnaDec := fun s => some (some s) }
theorem exA_ok (b : Backend) : build ⟨b, o0⟩ exA = .ok exAUrl ∧ build ⟨b, oId⟩ exA = .ok exAUrl := by
  cases b <;> exact ⟨okEq_sound (by decide +kernel), okEq_sound (by decide +kernel)⟩
def exQ : BuildArgs := { host := "h1".toStr, queryString := [97, 43, 98, 32, 37, 61, 38, 59, 233] }
def exQUrl : Url := fromParts [] "h1".toStr [] "a+b+%25=&;%C3%A9".toStr []
theorem exQ_ok (b : Backend) : build ⟨b, o0⟩ exQ = .ok exQUrl := by
  cases b <;> exact okEq_sound (by decide +kernel)
/-- IPv6 literal with a zone id, empty password and no user (netloc ":@[fe80::1%Eth0]") -/
def ex6 : BuildArgs := { scheme := "http".toStr, host := "FE80::1%Eth0".toStr, password := some [] }
def ex6Url : Url := fromParts "http".toStr ":@[fe80::1%Eth0]".toStr [] [] []
theorem ex6_ok (b : Backend) : build ⟨b, o0⟩ ex6 = .ok ex6Url := by
  cases b <;> exact okEq_sound (by decide +kernel)
/-- IPv4 literal, empty user and a password (netloc ":x@10.0.0.1") -/
def ex4 : BuildArgs := { scheme := "http".toStr, host := "10.0.0.1".toStr, user := some [], password := some "x".toStr }
def ex4Url : Url := fromParts "http".toStr ":x@10.0.0.1".toStr [] [] []
theorem ex4_ok (b : Backend) : build ⟨b, o0⟩ ex4 = .ok ex4Url := by
  cases b <;> exact okEq_sound (by decide +kernel)
theorem exA_last : ∀ l, exA.host.getLast? = some l → isDigitC l = false := by
  intro l hl
  have : exA.host.getLast? = some 77 := by decide
  rw [this] at hl; cases hl; decide
end BuildMore

-- (a), (b): user and password with ':' '@' '%' non-ASCII and a space read back
example (b : Backend) : user ⟨b, o0⟩ exAUrl = .ok (some [117, 58, 64, 37, 233, 32]) :=
  C06_build_user_readback _ exA _ (exA_ok b).1 rfl rfl (by decide) _ rfl (by decide) (by decide) (by decide)
example (b : Backend) : password ⟨b, o0⟩ exAUrl = .ok (some [112, 58, 64, 37, 0x20AC, 47]) :=
  C06_build_password_readback _ exA _ (exA_ok b).1 rfl rfl (by decide)
    (by intro s hs; cases hs; decide) _ rfl (by decide) (by decide)
-- the empty password is kept (""), the absent user is None; the empty user is None
example (b : Backend) : password ⟨b, o0⟩ ex6Url = .ok (some []) ∧ user ⟨b, o0⟩ ex6Url = .ok none :=
  ⟨C06_build_password_readback _ ex6 _ (ex6_ok b) rfl rfl (by decide) (by intro s hs; cases hs) _ rfl
      (by decide) (by decide),
   C06_build_user_none _ ex6 _ (ex6_ok b) rfl rfl (by decide) (Or.inl rfl)⟩
example (b : Backend) : user ⟨b, o0⟩ ex4Url = .ok none ∧ password ⟨b, o0⟩ ex4Url = .ok (some "x".toStr) :=
  ⟨C06_build_user_none _ ex4 _ (ex4_ok b) rfl rfl (by decide) (Or.inr rfl),
   C06_build_password_readback _ ex4 _ (ex4_ok b) rfl rfl (by decide)
     (by intro s hs; cases hs; decide) _ rfl (by decide) (by decide)⟩
-- (c): the upper-case host reads back lower-cased (raw: no oracle; decoded: the IDNA decoder answers the name)
example (b : Backend) : rawHost ⟨b, o0⟩ exAUrl = .ok (some "example.com".toStr) :=
  (C06_build_host_readback_lower _ exA _ (exA_ok b).1 rfl rfl (by decide) (by decide)
    (Or.inr ⟨by decide, exA_last⟩)).1
example (b : Backend) : host ⟨b, oId⟩ exAUrl = .ok (some "example.com".toStr) :=
  (C06_build_host_readback_lower _ exA _ (exA_ok b).2 rfl rfl (by decide) (by decide)
    (Or.inr ⟨by decide, exA_last⟩)).2 (fun _ => rfl)
-- a digit-ending lower-case name: no oracle needed
example (b : Backend) : host ⟨b, o0⟩ exQUrl = .ok (some "h1".toStr) :=
  (C06_build_host_readback _ exQ _ (exQ_ok b) rfl rfl (by decide) (by decide) (by decide)
    (Or.inl (by decide)) (by
      intro h
      exfalso
      rcases h with h | h
      · exact absurd (h 49 (by decide)) (by decide)
      · revert h; decide)).2
example (b : Backend) : host ⟨b, o0⟩ ex4Url = .ok (some "10.0.0.1".toStr) :=
  (C06_build_host_readback_ipv4 _ ex4 _ (ex4_ok b) rfl rfl [10, 0, 0, 1] (by decide)).2
example (b : Backend) : host ⟨b, o0⟩ ex6Url = .ok (some "fe80::1%Eth0".toStr) := by
  have := (C06_build_host_readback_ipv6 _ ex6 _ (ex6_ok b) rfl rfl [65152, 0, 0, 0, 0, 0, 0, 1]
    (by decide) (by decide +kernel)).2
  rw [this]
  decide +kernel
-- (d): the pairs read back
example (b : Backend) : queryPairs exAUrl = [([107, 32, 233], [118, 43, 38, 61, 37]), ([], [])] :=
  C06_build_query_readback ⟨b, o0⟩ exA _ (exA_ok b).1 _ rfl (by decide) (by decide)
-- (e): '+' and ' ' both come back as ' ', everything else unchanged
example (b : Backend) : queryString ⟨b, o0⟩ exQUrl = [97, 32, 98, 32, 37, 61, 38, 59, 233] :=
  (C06_build_query_string_readback _ exQ _ (exQ_ok b) rfl rfl (by decide) (by decide)).2.2


end BuildPart

section PathPart
open Yarl.PathLemmas Yarl.PathAlg Yarl.PathMore Yarl.DecLemmas

/-! ## GAP 5 — with_path / build(path=) / `/` for texts with '.' that are not dot segments, rootless with_path -/

namespace PathMore

theorem normalizePath_noDots (p : Str) (h : NoDots (splitOn 47 p)) : normalizePath p = p := by
  unfold normalizePath
  split
  · rename_i rest
    have : NoDots (splitOn 47 rest) := by
      intro s hs
      apply h
      simp [splitOn, hs]
    rw [normalizePathSegments_noDots _ this, joinC_splitOn]
  · rw [normalizePathSegments_noDots _ h, joinC_splitOn]

/-- the text has no dot segment ⟹ its quoted form has none -/
theorem noDots_q (e : Env) (s : Str) (hs : PyStr s) (hn : NoSurrogate s) (h : NoDots (splitOn 47 s)) :
    NoDots (splitOn 47 (q e Gen.PATH_QUOTER s)) := by
  rw [splitOn_q e s hs]
  exact noDots_map_q e _ (fun x hx => pyStr_seg hs hx) (fun x hx => noSurr_seg hn hx) h

/-- the normalisation guard of with_path / build is the identity on a quoted text without dot segments -/
theorem guard_id (e : Env) (t : Str) (ht : PyStr t) (hn : NoSurrogate t) (h : NoDots (splitOn 47 t)) :
    (if mem 46 (q e Gen.PATH_QUOTER t) then normalizePath (q e Gen.PATH_QUOTER t) else q e Gen.PATH_QUOTER t)
      = q e Gen.PATH_QUOTER t := by
  split
  · exact normalizePath_noDots _ (noDots_q e t ht hn h)
  · rfl

theorem uqP_q (e : Env) (t : Str) (ht : PyStr t) (hn : NoSurrogate t) :
    uq e Gen.PATH_UNQUOTER (q e Gen.PATH_QUOTER t) = t := C06_readback_path e.b t ht hn

theorem pyStr_cons47 {t : Str} (ht : PyStr t) : PyStr (47 :: t) := by
  intro c hc
  rcases List.mem_cons.1 hc with rfl | h
  · decide
  · exact ht c h

theorem noSurr_cons47 {t : Str} (ht : NoSurrogate t) : NoSurrogate (47 :: t) := by
  intro c hc
  rcases List.mem_cons.1 hc with rfl | h
  · decide
  · exact ht c h

theorem q_cons47 (e : Env) (t : Str) (ht : PyStr t) :
    q e Gen.PATH_QUOTER (47 :: t) = 47 :: q e Gen.PATH_QUOTER t :=
  C06_path_quoter_slash e.b t (pyStr_cons47 ht)

/-- rooting a path (fix 7cae68c: `with_path` roots its argument before `normalize_path`) adds no dot segment -/
theorem noDots_rooted {p : Str} (h : NoDots (splitOn 47 p)) : NoDots (splitOn 47 (rooted p)) := by
  unfold rooted
  split
  · exact h
  · intro s hs
    simp only [splitOn, if_true, List.mem_cons] at hs
    rcases hs with rfl | hs
    · exact ⟨by decide, by decide⟩
    · exact h s hs

/-- the closing `ensureSlash` of `with_path` sees the same thing with or without the rooting -/
theorem ensureSlash_rooted {p : Str} (h : p ≠ []) : ensureSlash (rooted p) = ensureSlash p := by
  cases p with
  | nil => exact absurd rfl h
  | cons c r =>
    by_cases hc : c = 47
    · subst hc; rfl
    · rw [rooted_of_ne47 r hc]
      have h1 : ensureSlash (47 :: c :: r) = 47 :: c :: r := rfl
      rw [h1]
      symm
      unfold ensureSlash
      split
      next heq => cases heq
      next tl heq => exact absurd (List.cons.inj heq).1 hc
      next => rfl

end PathMore

/-- `with_path(t)` (any `keep_query` / `keep_fragment`) for a Python string `t` without lone surrogates and — under
    an authority — without dot segments ('.' inside a segment is fine: "/a.b/c.txt"): `.path` is `t` when `t` is
    rooted, `"/" + t` when it is ROOTLESS and non-empty (the library prepends the slash, with or without an
    authority), and the empty path reads back as "" without and "/" with an authority. -/
theorem C06_with_path_readback_nodots (e : Env) (u : Url) (t : Str) (kq kf : Bool) (ht : PyStr t)
    (hn : NoSurrogate t) (hnd : u.netloc = [] ∨ NoDots (splitOn 47 t)) :
    pathDecoded e (withPath e u t false kq kf) =
      (if t = [] then (if u.netloc = [] then [] else [47]) else if t.head? = some 47 then t else 47 :: t) ∧
    (withPath e u t false kq kf).query = (if kq then u.query else []) ∧
    (withPath e u t false kq kf).fragment = (if kf then u.fragment else []) := by
  refine ⟨?_, rfl, rfl⟩
  -- the stored path is `ensureSlash` of the quoted text: rooting first (fix 7cae68c) and normalising change nothing
  have hW : withPath e u t false kq kf = fromParts u.scheme u.netloc (ensureSlash (q e Gen.PATH_QUOTER t))
      (if kq then u.query else []) (if kf then u.fragment else []) := by
    have hE : ensureSlash (if (!u.netloc.isEmpty && mem 46 (q e Gen.PATH_QUOTER t)) = true
          then normalizePath (rooted (q e Gen.PATH_QUOTER t)) else q e Gen.PATH_QUOTER t) =
        ensureSlash (q e Gen.PATH_QUOTER t) := by
      by_cases hc : (!u.netloc.isEmpty && mem 46 (q e Gen.PATH_QUOTER t)) = true
      · rw [if_pos hc]
        simp only [Bool.and_eq_true, Bool.not_eq_eq_eq_not, Bool.not_true] at hc
        have hnl : u.netloc ≠ [] := by intro h0; rw [h0] at hc; simp at hc
        have hq := noDots_q e t ht hn (hnd.resolve_left hnl)
        have hQne : q e Gen.PATH_QUOTER t ≠ [] := by intro h0; rw [h0] at hc; simp [mem] at hc
        rw [normalizePath_noDots _ (noDots_rooted hq)]
        exact ensureSlash_rooted hQne
      · rw [if_neg hc]
    rw [withPath_eq, hE]
  rw [hW]
  cases t with
  | nil =>
    rw [q_path_nil]
    simp only [if_true]
    unfold pathDecoded fromParts ensureSlash
    by_cases hnl : u.netloc = [] <;> simp [hnl]
  | cons c r =>
    simp only [List.cons_ne_nil, if_false, List.head?_cons, Option.some.injEq]
    by_cases hc : c = 47
    · subst hc
      rw [q_cons47 e r (pyStr_cons ht)]
      simp only [if_true]
      unfold pathDecoded fromParts ensureSlash
      simp only [List.isEmpty_cons, Bool.not_false, if_true]
      rw [← q_cons47 e r (pyStr_cons ht)]
      exact uqP_q e _ ht hn
    · rw [if_neg hc]
      have hh := q_path_head e (c :: r) ht hn (by simpa using hc)
      have hne := C13_path_quoter_nonempty e (c :: r) ht hn (by simp)
      obtain ⟨x, xs, hx⟩ := List.exists_cons_of_ne_nil hne
      rw [hx] at hh ⊢
      have hx47 : x ≠ 47 := by simpa using hh
      have hes : ensureSlash (x :: xs) = 47 :: x :: xs := by
        unfold ensureSlash
        split
        next heq => cases heq
        next tl heq => exact absurd (List.cons.inj heq).1 hx47
        next => rfl
      rw [hes]
      unfold pathDecoded fromParts
      simp only [List.isEmpty_cons, Bool.not_false, if_true]
      rw [← hx, ← q_cons47 e _ ht]
      exact uqP_q e _ (pyStr_cons47 ht) (noSurr_cons47 hn)

/-- the library accepts a rootless text and stores it ROOTED: `URL("http://h").with_path("a.b/c").path == "/a.b/c"`
    (also without an authority: `URL("x:").with_path("a").path == "/a"`), so "reads back unchanged" is false for
    rootless texts — the exact read-back is `"/" + t` -/
theorem C06_with_path_readback_rootless (e : Env) (u : Url) (t : Str) (kq kf : Bool) (ht : PyStr t)
    (hn : NoSurrogate t) (hnd : u.netloc = [] ∨ NoDots (splitOn 47 t)) (h0 : t ≠ []) (hr : t.head? ≠ some 47) :
    pathDecoded e (withPath e u t false kq kf) = 47 :: t ∧ pathDecoded e (withPath e u t false kq kf) ≠ t := by
  have := (C06_with_path_readback_nodots e u t kq kf ht hn hnd).1
  rw [if_neg h0, if_neg hr] at this
  refine ⟨this, ?_⟩
  rw [this]
  intro h
  have := congrArg List.length h
  simp at this

/-- `with_path` for a rooted text with '.' inside segments under an authority (the old theorem asked for no '.' at all) -/
theorem C06_with_path_readback_rooted (e : Env) (u : Url) (t : Str) (kq kf : Bool) (ht : PyStr t)
    (hn : NoSurrogate t) (hnd : u.netloc = [] ∨ NoDots (splitOn 47 t)) (hr : t.head? = some 47) :
    pathDecoded e (withPath e u t false kq kf) = t := by
  have := (C06_with_path_readback_nodots e u t kq kf ht hn hnd).1
  have h0 : t ≠ [] := by rintro rfl; simp at hr
  rw [if_neg h0, if_pos hr] at this
  exact this

namespace PathMore
/-- what `build(encoded=False)` stores as path: the quoted text, normalised when an authority is present and a '.'
    occurs -/
theorem build_shape2 (e : Env) (a : BuildArgs) (v : Url) (h : build e a = .ok v) (henc : a.encoded = false) :
    v.path = (if a.path.isEmpty then a.path else q e Gen.PATH_QUOTER a.path) ∨
      (v.netloc ≠ [] ∧ v.path = normalizePath (q e Gen.PATH_QUOTER a.path)) := by
  unfold build at h
  simp only [] at h
  have h := ite_err' (ite_err' (ite_err' (ite_err' (ite_err' h))))
  obtain ⟨qs, _, h⟩ := bind_ok h
  simp only [henc, Bool.false_eq_true, if_false] at h
  obtain ⟨sc, _, h⟩ := bind_ok h   -- the lowered scheme (fix e21485a)
  obtain ⟨nl, _, h⟩ := bind_ok h
  obtain ⟨p, hp, h⟩ := bind_ok h
  cases h
  simp only [fromParts]
  obtain ⟨path0, hp0⟩ : ∃ x, (if a.path.isEmpty then a.path else q e Gen.PATH_QUOTER a.path) = x := ⟨_, rfl⟩
  rw [hp0] at hp ⊢
  by_cases hc : (!path0.isEmpty && !nl.isEmpty) = true
  · simp only [hc, if_true] at hp
    simp only [Bool.and_eq_true, Bool.not_eq_eq_eq_not, Bool.not_true] at hc
    split at hp
    · rename_i tl
      by_cases hm : mem 46 (47 :: tl) = true
      · right
        refine ⟨by intro h0; rw [h0] at hc; simp at hc, ?_⟩
        by_cases hpe : a.path.isEmpty = true
        · simp only [hpe, if_true] at hp0
          rw [← hp0] at hc
          simp [hpe] at hc
        · simp only [hpe] at hp0
          simp only [hm, if_true] at hp
          cases hp
          rw [← hp0]
          rfl
      · left
        simp only [hm] at hp
        cases hp; rfl
    · cases hp
  · left
    simp only [hc] at hp
    cases hp; rfl
end PathMore

/-- `build(path=t)` for a non-empty `t` with '.' inside segments (no dot SEGMENT) under an authority -/
theorem C06_build_path_readback_nodots (e : Env) (a : BuildArgs) (v : Url) (h : build e a = .ok v)
    (henc : a.encoded = false) (hp : PyStr a.path) (hn : NoSurrogate a.path) (hne : a.path ≠ [])
    (hdot : v.netloc = [] ∨ NoDots (splitOn 47 a.path)) :
    pathDecoded e v = a.path := by
  have he : a.path.isEmpty = false := by
    cases hpp : a.path with
    | nil => exact absurd hpp hne
    | cons _ _ => rfl
  have hqne : q e Gen.PATH_QUOTER a.path ≠ [] :=
    quoter_ne_nil Gen.PATH_QUOTER (by decide) (by decide) e.b a.path hp hn hne
  have hpath : v.path = q e Gen.PATH_QUOTER a.path := by
    rcases build_shape2 e a v h henc with h1 | ⟨h1, h2⟩
    · rw [h1]; simp [he]
    · rcases hdot with h3 | h3
      · exact absurd h3 h1
      · rw [h2, normalizePath_noDots _ (noDots_q e _ hp hn h3)]
  unfold pathDecoded
  rw [hpath]
  have : (q e Gen.PATH_QUOTER a.path).isEmpty = false := by
    cases hq : q e Gen.PATH_QUOTER a.path with
    | nil => exact absurd hq hqne
    | cons _ _ => rfl
  simp only [this, Bool.not_false, if_true]
  exact uqP_q e _ hp hn

/-! ## GAP 6 — `/` and joinpath: segments with '.', texts with '/', several arguments; through name, parts, path -/

/-- `u / s` for ONE segment that may contain '.' (only "." and ".." are excluded) -/
theorem C06_child_name_readback_dots (e : Env) (u : Url) (s : Str) (v : Url)
    (hs : PyStr s) (hsur : NoSurrogate s) (h47 : 47 ∉ s) (hne : s ≠ []) (hdot : s ≠ dot ∧ s ≠ dotdot)
    (hold : u.netloc ≠ [] → NoDots (splitOn 47 u.path))
    (hpath : u.netloc ≠ [] → (u.path = [] ∨ u.path.head? = some 47)) :
    makeChild e u [s] false = .ok v → name e v = .ok s :=
  fun h => (C13_child_name_decoded e u s v hs hsur h47 hne hdot hold hpath h).1

namespace PathMore
theorem joinC_append (A B : List Str) (hA : A ≠ []) (hB : B ≠ []) :
    joinC 47 (A ++ B) = joinC 47 A ++ 47 :: joinC 47 B := by
  induction A with
  | nil => exact absurd rfl hA
  | cons a A ih =>
    cases A with
    | nil =>
      obtain ⟨b, B', rfl⟩ := List.exists_cons_of_ne_nil hB
      simp [joinC, joinSep]
    | cons a' A' =>
      rw [List.cons_append, List.cons_append, joinC_cons_cons, ← List.cons_append, ih (by simp), joinC_cons_cons]
      simp

theorem base_ne_nil (u : Url) (h : u.path ≠ []) : base u ≠ [] := by
  unfold base
  have : u.path.isEmpty = false := by simpa using h
  simp only [this, Bool.false_eq_true, if_false]
  obtain ⟨S, l, hS⟩ : ∃ S l, splitOn 47 u.path = S ++ [l] := by
    rcases List.eq_nil_or_concat (splitOn 47 u.path) with h' | ⟨a, b, h'⟩
    · exact absurd h' (splitOn_ne_nil _ _)
    · exact ⟨a, b, by simpa using h'⟩
  rw [hS, stripTrail_snoc]
  split
  · rename_i hl
    intro hS0
    apply h
    have := joinC_splitOn u.path
    rw [hS, hS0, hl] at this
    exact this.symm
  · simp

theorem pathDecoded_ne (e : Env) (w : Url) (h : w.path ≠ []) : pathDecoded e w = uq e Gen.PATH_UNQUOTER w.path := by
  unfold pathDecoded
  have : w.path.isEmpty = false := by simpa using h
  simp [this]

theorem uqP_slash (e : Env) : uq e Gen.PATH_UNQUOTER [47] = [47] := by
  have : ∀ b : Backend, Gen.PATH_UNQUOTER.run b [47] = [47] := fun b => by cases b <;> decide +kernel
  exact this e.b
end PathMore

/-- `u / s` (`u.joinpath(s)`) for a text `s` that may contain '/' and '.', no dot SEGMENT: the segments of `s` read
    back through `parts`, its last segment through `name`, and through `path`:
    the old decoded path without ONE trailing slash, then "/" and `s` -/
theorem C06_child_slash_readback (e : Env) (u : Url) (s : Str) (v : Url) (hs : PyStr s) (hsur : NoSurrogate s)
    (hnd : u.netloc ≠ [] → NoDots (splitOn 47 u.path) ∧ NoDots (splitOn 47 s))
    (hq : u.netloc ≠ [] → u.path = [] → s ≠ [])
    (hpath : u.netloc ≠ [] → (u.path = [] ∨ u.path.head? = some 47)) :
    makeChild e u [s] false = .ok v →
      partsDecoded e v = (stripTrail (rawParts u)).map (uq e Gen.UNQUOTER) ++ splitOn 47 s ∧
      name e v = .ok ((splitOn 47 s).getLast?.getD []) ∧
      pathDecoded e v =
        (if u.path = [] then (if u.netloc = [] then s else 47 :: s)
         else (if u.path.getLast? = some 47 then (pathDecoded e u).dropLast else pathDecoded e u) ++ 47 :: s) := by
  intro h
  obtain ⟨hv, _, _, _, hparts, hname⟩ := C13_child_slash e u s v hs hsur hnd hq hpath h
  refine ⟨hparts, hname, ?_⟩
  have hX0 : (splitOn 47 s).map (q e Gen.PATH_QUOTER) ≠ [] := by simp [splitOn_ne_nil]
  have hjX : joinC 47 ((splitOn 47 s).map (q e Gen.PATH_QUOTER)) = q e Gen.PATH_QUOTER s := by
    rw [← splitOn_q e s hs, joinC_splitOn]
  have hvp : v.path = joinC 47 (root u.netloc (base u ++ (splitOn 47 s).map (q e Gen.PATH_QUOTER))) := by
    rw [hv, childOf_false]; rfl
  have hs0 := heads_of_ok e u [s] false v h s (by simp)
  by_cases hp : u.path = []
  · rw [if_pos hp]
    have hb : base u = [] := by simp [base, hp]
    rw [hb, List.nil_append] at hvp
    by_cases hn : u.netloc = []
    · rw [if_pos hn]
      have : root u.netloc ((splitOn 47 s).map (q e Gen.PATH_QUOTER)) = (splitOn 47 s).map (q e Gen.PATH_QUOTER) := by
        simp [root, hn]
      rw [this, hjX] at hvp
      unfold pathDecoded
      rw [hvp]
      by_cases hs' : s = []
      · subst hs'
        rw [q_path_nil]
        have : v.netloc = [] := by rw [hv, childOf_false]; exact hn
        simp [this]
      · have hqne := C13_path_quoter_nonempty e s hs hsur hs'
        have : (q e Gen.PATH_QUOTER s).isEmpty = false := by
          cases hq' : q e Gen.PATH_QUOTER s with
          | nil => exact absurd hq' hqne
          | cons _ _ => rfl
        simp only [this, Bool.not_false, if_true]
        exact uqP_q e s hs hsur
    · rw [if_neg hn]
      have hs' := hq hn hp
      have hh := q_path_head e s hs hsur hs0
      have hhead : ((splitOn 47 s).map (q e Gen.PATH_QUOTER)).head? ≠ some [] := by
        rw [← splitOn_q e s hs]
        rcases splitOn_head _ hh with h1 | h1
        · exact h1
        · exfalso
          have := joinC_splitOn (q e Gen.PATH_QUOTER s)
          rw [h1] at this
          exact C13_path_quoter_nonempty e s hs hsur hs' this.symm
      have hr : root u.netloc ((splitOn 47 s).map (q e Gen.PATH_QUOTER)) =
          [] :: (splitOn 47 s).map (q e Gen.PATH_QUOTER) := by
        obtain ⟨x, xs, hx⟩ := List.exists_cons_of_ne_nil hX0
        rw [hx] at hhead ⊢
        have hx0 : x ≠ [] := by simpa using hhead
        simp [root, hn, hx0]
      rw [hr, joinC_cons, flatF_eq_joinC _ hX0, hjX] at hvp
      unfold pathDecoded
      rw [hvp]
      simp only [List.nil_append, List.isEmpty_cons, Bool.not_false, if_true]
      rw [← q_cons47 e s hs]
      exact uqP_q e _ (pyStr_cons47 hs) (noSurr_cons47 hsur)
  · rw [if_neg hp]
    have hb0 := base_ne_nil u hp
    have hroot : root u.netloc (base u ++ (splitOn 47 s).map (q e Gen.PATH_QUOTER)) =
        base u ++ (splitOn 47 s).map (q e Gen.PATH_QUOTER) := by
      have h1 := root_base u hpath
      obtain ⟨b0, br, hb⟩ := List.exists_cons_of_ne_nil hb0
      rw [hb] at h1 ⊢
      by_cases hn : u.netloc = []
      · simp [root, hn]
      · by_cases hb00 : b0 = []
        · subst hb00; simp [root]
        · exfalso; simp [root, hn, hb00] at h1
    rw [hroot, joinC_append _ _ hb0 hX0, hjX, joinC_base] at hvp
    have hup : pathDecoded e u = uq e Gen.PATH_UNQUOTER u.path := pathDecoded_ne e u hp
    rw [pathDecoded_ne e v (by rw [hvp]; simp), hvp, hup]
    rw [uq_split_slash, ← q_cons47 e s hs, uqP_q e _ (pyStr_cons47 hs) (noSurr_cons47 hsur)]
    congr 1
    unfold dropSlash
    by_cases hl : u.path.getLast? = some 47
    · rw [if_pos hl, if_pos hl]
      obtain ⟨P', hP'⟩ : ∃ P', u.path = P' ++ [47] := by
        rcases List.eq_nil_or_concat u.path with h' | ⟨a, b, h'⟩
        · exact absurd h' hp
        · rw [h'] at hl
          simp at hl
          exact ⟨a, by rw [h', hl]; simp⟩
      rw [hP', List.dropLast_concat, uq_split_slash, uqP_slash, List.dropLast_concat]
    · rw [if_neg hl, if_neg hl]

namespace PathMore
theorem q_nil_iff (e : Env) (x : Str) (hx : PyStr x) (hn : NoSurrogate x) : q e Gen.PATH_QUOTER x = [] ↔ x = [] := by
  constructor
  · intro h
    apply Classical.byContradiction
    intro h0
    exact C13_path_quoter_nonempty e x hx hn h0 h
  · rintro rfl; exact q_path_nil e

theorem stripTrail_map_q (e : Env) (L : List Str) (hp : ∀ x ∈ L, PyStr x) (hn : ∀ x ∈ L, NoSurrogate x) :
    stripTrail (L.map (q e Gen.PATH_QUOTER)) = (stripTrail L).map (q e Gen.PATH_QUOTER) := by
  unfold stripTrail
  rw [List.getLast?_map]
  cases hl : L.getLast? with
  | none => simp
  | some l =>
    have hm := List.mem_of_getLast? hl
    have := q_nil_iff e l (hp l hm) (hn l hm)
    by_cases h0 : l = []
    · subst h0
      simp [q_path_nil, List.map_dropLast]
    · have h1 : q e Gen.PATH_QUOTER l ≠ [] := fun h => h0 (this.1 h)
      simp [h0, h1]

theorem map_uq_q (e : Env) (L : List Str) (hp : ∀ x ∈ L, PyStr x) (hn : ∀ x ∈ L, NoSurrogate x) :
    (L.map (q e Gen.PATH_QUOTER)).map (uq e Gen.UNQUOTER) = L := by
  rw [List.map_map]
  conv => rhs; rw [← List.map_id L]
  apply List.map_congr_left
  intro x hx
  exact uq_q e x (hp x hx) (hn x hx)

/-- decoding the quoted argument segments gives the verbatim argument segments -/
theorem argSegs_decoded (e : Env) : ∀ ps : List Str, (∀ p ∈ ps, PyStr p ∧ NoSurrogate p) →
    (argSegs e false ps).map (uq e Gen.UNQUOTER) = argSegs e true ps := by
  intro ps
  induction ps with
  | nil => intro _; rfl
  | cons a ps ih =>
    intro h
    have ha := h a (by simp)
    have hseg1 : ∀ x ∈ splitOn 47 a, PyStr x := fun x hx => pyStr_seg ha.1 hx
    have hseg2 : ∀ x ∈ splitOn 47 a, NoSurrogate x := fun x hx => noSurr_seg ha.2 hx
    cases ps with
    | nil =>
      simp only [argSegs, argText, Bool.false_eq_true, if_false, if_true]
      rw [splitOn_q e a ha.1, map_uq_q e _ hseg1 hseg2]
    | cons b r =>
      rw [argSegs, argSegs, List.map_append, ih (fun p hp => h p (List.mem_cons_of_mem _ hp))]
      congr 1
      simp only [argText, Bool.false_eq_true, if_false, if_true]
      rw [splitOn_q e a ha.1, stripTrail_map_q e _ hseg1 hseg2,
        map_uq_q e _ (fun x hx => hseg1 x (mem_stripTrail hx)) (fun x hx => hseg2 x (mem_stripTrail hx))]
end PathMore

/-- `u.joinpath(a₁, …, aₙ)` for Python strings without lone surrogates and without dot segments: the decoded
    `parts` are the old decoded parts (without a trailing empty one) followed by the segments of the arguments AS
    GIVEN (`argSegs e true ps`: each argument split at '/', the trailing empty segment of a non-last one dropped);
    `name` is the last of them -/
theorem C06_joinpath_parts_readback (e : Env) (u : Url) (ps : List Str) (v : Url) (hne : ps ≠ [])
    (hps : ∀ p ∈ ps, PyStr p ∧ NoSurrogate p)
    (hnd : u.netloc ≠ [] → NoDots (splitOn 47 u.path) ∧ ∀ p ∈ ps, NoDots (splitOn 47 p))
    (hq : u.netloc ≠ [] → u.path = [] → ∃ p ∈ ps, p ≠ [])
    (hpath : u.netloc ≠ [] → (u.path = [] ∨ u.path.head? = some 47)) :
    makeChild e u ps false = .ok v →
      partsDecoded e v = (stripTrail (rawParts u)).map (uq e Gen.UNQUOTER) ++ argSegs e true ps ∧
      name e v = .ok ((argSegs e true ps).getLast?.getD []) := by
  intro h
  have hh := heads_of_ok e u ps false v h
  have hT : ∀ p ∈ ps, (argText e false p).head? ≠ some 47 :=
    fun p hp => q_path_head e p (hps p hp).1 (hps p hp).2 (hh p hp)
  obtain ⟨_, h1, h2, _⟩ := C13_joinpath_parts e u ps false v hne hT
    (by
      intro hn
      refine ⟨(hnd hn).1, fun p hp => ?_⟩
      exact noDots_q e p (hps p hp).1 (hps p hp).2 ((hnd hn).2 p hp))
    (by
      intro hn hp hc
      obtain ⟨p, hpm, hp0⟩ := hq hn hp
      have hqp : argText e false p ≠ [] := C13_path_quoter_nonempty e p (hps p hpm).1 (hps p hpm).2 hp0
      obtain ⟨x, hx, hx0⟩ := argSegs_nonempty_mem e false ps ⟨p, hpm, hT p hpm, hqp⟩
      rw [hc] at hx
      simp at hx
      exact hx0 hx)
    hpath h
  have hdec := argSegs_decoded e ps hps
  constructor
  · show (rawParts v).map _ = _
    rw [h1, List.map_append, hdec]
  · unfold name
    rw [h2]
    show Except.ok (uq e Gen.UNQUOTER _) = _
    congr 1
    rw [← hdec, List.getLast?_map]
    cases (argSegs e false ps).getLast? with
    | none => exact uq_nil e _
    | some l => rfl

/-! ## GAP 7 — with_name with keep_query / keep_fragment -/

/-- `with_name(t, keep_query=kq, keep_fragment=kf)`: `.name` is `t`; query and fragment are kept or cleared as asked -/
theorem C06_with_name_readback_keep (e : Env) (u : Url) (t : Str) (kq kf : Bool) (v : Url)
    (ht : PyStr t) (hn : NoSurrogate t) :
    withName e u t kq kf = .ok v → name e v = .ok t ∧
      queryString e v = (if kq then queryString e u else []) ∧ queryPairs v = (if kq then queryPairs u else []) ∧
      fragmentDecoded e v = (if kf then fragmentDecoded e u else []) := by
  intro h
  obtain ⟨h1, _, hq, hf⟩ := C13_with_name_decoded e u t kq kf v ht hn h
  refine ⟨h1, ?_, ?_, ?_⟩
  · unfold queryString; rw [hq]; cases kq <;> rfl
  · unfold queryPairs; rw [hq]; cases kq <;> rfl
  · unfold fragmentDecoded; rw [hf]; cases kf <;> rfl

/-! ## non-vacuity -/

namespace PathMore
def exU1 : Url := fromParts "http".toStr "h".toStr "/x/y/".toStr "k=v".toStr "f".toStr
def exT1 : Str := "/a.b/c d.txt".toStr
def exB1 : BuildArgs := { scheme := "http".toStr, host := "h".toStr, path := "/a.b/..c/d.é".toStr }
end PathMore

example : PyStr exT1 ∧ NoSurrogate exT1 ∧ exT1.head? = some 47 ∧ 46 ∈ exT1 := by decide
example : NoDots (splitOn 47 exT1) ∧ NoDots (splitOn 47 "a.b/c".toStr) ∧ NoDots (splitOn 47 exB1.path) := by
  refine ⟨?_, ?_, ?_⟩ <;> (unfold NoDots; decide +kernel)
example : ∀ b : Backend, (withPath ⟨b, Oracles.empty⟩ exU1 exT1 false true false) =
    fromParts "http".toStr "h".toStr "/a.b/c%20d.txt".toStr "k=v".toStr [] := by
  intro b; cases b <;> decide +kernel
example : ∀ b : Backend, (withPath ⟨b, Oracles.empty⟩ exU1 "a.b/c".toStr false false false) =
    fromParts "http".toStr "h".toStr "/a.b/c".toStr [] [] := by
  intro b; cases b <;> decide +kernel
example : ∀ b : Backend, build ⟨b, Oracles.empty⟩ exB1 =
    .ok (fromParts "http".toStr "h".toStr "/a.b/..c/d.%C3%A9".toStr [] []) := by
  intro b; cases b <;> exact PathMore.okEq_sound (by decide +kernel)
example : ∀ b : Backend, makeChild ⟨b, Oracles.empty⟩ exU1 ["a.b/c d".toStr, "e/".toStr, "f.g".toStr] false =
    .ok (fromParts "http".toStr "h".toStr "/x/y/a.b/c%20d/e/f.g".toStr [] []) := by
  intro b; cases b <;> exact PathMore.okEq_sound (by decide +kernel)
example : argSegs ⟨.py, Oracles.empty⟩ true ["a.b/c d".toStr, "e/".toStr, "f.g".toStr] =
    ["a.b".toStr, "c d".toStr, "e".toStr, "f.g".toStr] := by decide +kernel
example : ∀ b : Backend, withName ⟨b, Oracles.empty⟩ exU1 "n.m".toStr true true =
    .ok (fromParts "http".toStr "h".toStr "/x/y/n.m".toStr "k=v".toStr "f".toStr) := by
  intro b; cases b <;> exact PathMore.okEq_sound (by decide +kernel)


end PathPart

end Yarl
