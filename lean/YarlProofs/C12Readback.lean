/-
  C12Readback.lean — part of properties C06 and C12: query keys and values
  supplied as decoded text (through a mapping or a sequence of pairs) read back
  unchanged from `url.query`, for every text without lone surrogates.
-/
import YarlModel
import YarlProofs.Lemmas.QsLemmas
set_option linter.unusedVariables false
namespace Yarl

open QsLemmas

/-- UTF-8 with replacement decodes well-formed UTF-8 exactly -/
theorem decodeReplace_utf8s (t : Str) (ht : PyStr t) (hn : NoSurrogate t) :
    decodeReplace (utf8s t) = t := by
  unfold decodeReplace
  exact dr_utf8s t ht hn _ (by have := length_le_utf8s t ht hn; omega)

/-- percent-decoding the quoter's output gives back the UTF-8 bytes (after '+' → space) -/
theorem unquoteToBytes_plus_cOut (q : QTab) (hq : q.WF) (hnr : q.requote = false)
    (hqs : q.qs = true) (hplus : q.safe 43 = false) (hsp : q.safe 32 = false)
    (t : Str) (ht : PyStr t) (hn : NoSurrogate t) :
    unquoteToBytes (plusToSpace (cOut q t)) = utf8s t := by
  induction t with
  | nil => rw [cOut]; exact utb_nil
  | cons c rest ih =>
    rw [cOut_nr_cons q hnr, pts_append, utb_pts_cWriteOut q hq hqs hplus c (ht c (by simp)),
      ih (QuoteEquiv.pyStr_tail ht) (QuoteEquiv.noSurr_tail hn), QuoteEquiv.utf8s_cons]

theorem stdUnquote_plus_cOut (q : QTab) (hq : q.WF) (hnr : q.requote = false)
    (hqs : q.qs = true) (hplus : q.safe 43 = false) (hsp : q.safe 32 = false)
    (t : Str) (ht : PyStr t) (hn : NoSurrogate t) :
    stdUnquote (plusToSpace (cOut q t)) = t := by
  have hbytes := unquoteToBytes_plus_cOut q hq hnr hqs hplus hsp t ht hn
  have hdec := decodeReplace_utf8s t ht hn
  have hascii : ∀ c ∈ plusToSpace (cOut q t), c < 128 :=
    pts_ascii _ (outLang_ascii q hq (cOut_outLang q hq t ht))
  generalize plusToSpace (cOut q t) = s at hbytes hascii
  unfold stdUnquote
  by_cases hm : mem 37 s = true
  · simp only [hm, Bool.not_true, Bool.false_eq_true, if_false]
    -- the whole string is one ASCII run
    cases s with
    | nil => simp [mem] at hm
    | cons c r =>
      have hc : c < 128 := hascii c (by simp)
      have htw : (c :: r).takeWhile (· < 128) = c :: r :=
        takeWhile_all _ _ (fun x hx => by simpa using hascii x hx)
      have hdw : (c :: r).dropWhile (· < 128) = [] :=
        dropWhile_all _ _ (fun x hx => by simpa using hascii x hx)
      simp only [List.length_cons, stdUnquoteAux, hc, if_true]
      rw [htw, hdw, hbytes, hdec]
      cases (r.length + 1) <;> simp [stdUnquoteAux]
  · have hm' : 37 ∉ s := by
      intro h; exact hm (GenTabs.mem_iff.mpr h)
    have hm'' : mem 37 s = false := by simpa using hm
    simp only [hm'', Bool.not_false, if_true]
    -- no escape at all: the bytes are the string, and they are ASCII
    have h1 : unquoteToBytes s = s := utb_no_pct s hm'
    have h2 : decodeReplace s = s := dr_ascii s hascii _ (Nat.lt_succ_self _)
    rw [← h2, ← h1, hbytes, hdec]

/-- the generated QUERY_PART_QUOTER satisfies all of that, on both backends
    (by computation on the generated tables) -/
theorem gen_query_part_quoter_ok : ∀ b : Backend,
    let q := Gen.QUERY_PART_QUOTER.tab b
    q.WF ∧ q.requote = false ∧ q.qs = true ∧ q.safe 43 = false ∧ q.safe 32 = false ∧
      q.safe 38 = false ∧ q.safe 61 = false := by
  intro b
  have hmem : Gen.QUERY_PART_QUOTER ∈ Gen.allQuoters := by decide
  cases b with
  | py => exact ⟨gen_tab_wf _ hmem .py, by decide, by decide, by decide, by decide, by decide,
      by decide⟩
  | c => exact ⟨gen_tab_wf _ hmem .c, by decide, by decide, by decide, by decide, by decide,
      by decide⟩

namespace QsLemmas

theorem stripSurr_id (t : Str) (hn : NoSurrogate t) : stripSurr t = t := by
  unfold stripSurr
  exact List.filter_eq_self.mpr (fun c hc => by simp [hn c hc])

/-- both backends of a generated quoter compute `cOut` after dropping lone surrogates -/
theorem run_eq_cOut (a : QArgs) (ha : a ∈ Gen.allQuoters) (b : Backend) (t : Str) (ht : PyStr t) :
    a.run b t = cOut (a.tab b) (stripSurr t) := by
  have hwf := gen_tab_wf a ha b
  have hsp : (a.tab b).qs = true → (a.tab b).safe 32 = false := fun _ => gen_space_unsafe a ha b
  cases b with
  | py =>
    show quotePy (a.tab .py) t = _
    rw [quotePy_eq_quoteC _ hwf hsp t ht, quoteC_eq_cOut _ hwf hsp t ht]
  | c =>
    show quoteC (a.tab .c) t = _
    rw [quoteC_eq_cOut _ hwf hsp t ht]

theorem qpq_mem : Gen.QUERY_PART_QUOTER ∈ Gen.allQuoters := by decide

end QsLemmas

theorem C12_part_readback (b : Backend) (t : Str) (ht : PyStr t) (hn : NoSurrogate t) :
    stdUnquote (plusToSpace (Gen.QUERY_PART_QUOTER.run b t)) = t := by
  obtain ⟨hwf, hnr, hqs, hplus, hsp, _, _⟩ := gen_query_part_quoter_ok b
  rw [run_eq_cOut _ qpq_mem b t ht, stripSurr_id t hn]
  exact stdUnquote_plus_cOut _ hwf hnr hqs hplus hsp t ht hn

/-- the quoted text contains neither '&' nor '=' so the pair structure survives -/
theorem C12_part_no_delims (b : Backend) (t : Str) (ht : PyStr t) :
    38 ∉ Gen.QUERY_PART_QUOTER.run b t ∧ 61 ∉ Gen.QUERY_PART_QUOTER.run b t := by
  obtain ⟨hwf, _, _, _, _, h38, h61⟩ := gen_query_part_quoter_ok b
  rw [run_eq_cOut _ qpq_mem b t ht]
  have hall := outLang_allowed _ hwf
    (cOut_outLang _ hwf (stripSurr t) (QuoteEquiv.pyStr_stripSurr ht))
  constructor
  · intro hm
    rcases hall 38 hm with h | h | h | h
    · rw [h38] at h; exact absurd h (by decide)
    · exact absurd h (by decide)
    · exact absurd h (by decide)
    · exact absurd h.2 (by decide)
  · intro hm
    rcases hall 61 hm with h | h | h | h
    · rw [h61] at h; exact absurd h (by decide)
    · exact absurd h (by decide)
    · exact absurd h (by decide)
    · exact absurd h.2 (by decide)

namespace QsLemmas

/-- `f"{quoter(k)}={quoter(v)}"` -/
def pairText (b : Backend) (p : Str × Str) : Str :=
  Gen.QUERY_PART_QUOTER.run b p.1 ++ [61] ++ Gen.QUERY_PART_QUOTER.run b p.2

/-- the per-piece function of `parse_qsl` -/
def qslPiece (nv : Str) : Option (Str × Str) :=
  if nv.isEmpty then none
  else
    let (n, v) := splitFirstEq nv
    some (stdUnquote (plusToSpace n), stdUnquote (plusToSpace (v.getD [])))

theorem parseQsl_eq (qs : Str) :
    parseQsl qs = if qs.isEmpty then [] else (splitOn 38 qs).filterMap qslPiece := rfl

theorem pairText_no_amp (b : Backend) (p : Str × Str) (h1 : PyStr p.1) (h2 : PyStr p.2) :
    38 ∉ pairText b p := by
  have a := (C12_part_no_delims b p.1 h1).1
  have c := (C12_part_no_delims b p.2 h2).1
  simp only [pairText, List.mem_append, List.mem_singleton]
  rintro ((h | h) | h)
  · exact a h
  · exact absurd h (by decide)
  · exact c h

theorem qslPiece_pairText (b : Backend) (p : Str × Str)
    (h : PyStr p.1 ∧ NoSurrogate p.1 ∧ PyStr p.2 ∧ NoSurrogate p.2) :
    qslPiece (pairText b p) = some p := by
  obtain ⟨h1, n1, h2, n2⟩ := h
  have hk := (C12_part_no_delims b p.1 h1).2
  have hne : (pairText b p).isEmpty = false := by simp [pairText]
  have hpart : splitFirstEq (pairText b p)
      = (Gen.QUERY_PART_QUOTER.run b p.1, some (Gen.QUERY_PART_QUOTER.run b p.2)) := by
    unfold splitFirstEq
    rw [ParseLemmas.partition_eq]
    have htw : (pairText b p).takeWhile (· ≠ 61) = Gen.QUERY_PART_QUOTER.run b p.1 := by
      simp only [pairText, List.append_assoc, List.singleton_append]
      rw [List.takeWhile_append_of_pos (fun x hx => by
        have : x ≠ 61 := fun e => hk (e ▸ hx)
        simpa using this)]
      simp
    have hdw : (pairText b p).dropWhile (· ≠ 61) = 61 :: Gen.QUERY_PART_QUOTER.run b p.2 := by
      simp only [pairText, List.append_assoc, List.singleton_append]
      rw [List.dropWhile_append_of_pos (fun x hx => by
        have : x ≠ 61 := fun e => hk (e ▸ hx)
        simpa using this)]
      simp
    have hmem : (61 : Nat) ∈ pairText b p := by simp [pairText]
    simp only [htw, hdw, hmem, decide_true, List.drop_succ_cons, List.drop_zero, if_true]
  unfold qslPiece
  simp only [hne, Bool.false_eq_true, if_false, hpart, Option.getD_some]
  rw [C12_part_readback b p.1 h1 n1, C12_part_readback b p.2 h2 n2]

/-- core of the read-back theorems: rendered pairs joined with '&' parse back -/
theorem parseQsl_joinC_pairText (b : Backend) (ps : List (Str × Str))
    (h : ∀ p ∈ ps, PyStr p.1 ∧ NoSurrogate p.1 ∧ PyStr p.2 ∧ NoSurrogate p.2) :
    parseQsl (joinC 38 (ps.map (pairText b))) = ps := by
  cases ps with
  | nil => rfl
  | cons p rest =>
    rw [parseQsl_eq]
    have hne : (joinC 38 ((p :: rest).map (pairText b))).isEmpty = false := by
      cases hj : joinC 38 ((p :: rest).map (pairText b)) with
      | nil =>
        rw [List.map_cons] at hj
        have := joinC_eq_nil 38 _ _ hj
        simp [pairText] at this
      | cons _ _ => rfl
    simp only [hne, Bool.false_eq_true, if_false]
    rw [splitOn_joinC 38 _ (by simp)]
    · exact filterMap_map_id qslPiece (pairText b) _ (fun x hx => qslPiece_pairText b x (h x hx))
    · intro s hs
      obtain ⟨x, hx, rfl⟩ := List.mem_map.mp hs
      exact pairText_no_amp b x (h x hx).1 (h x hx).2.2.1

theorem mapM_strItems (b : Backend) (f : Str × QItem → R Str)
    (hf : ∀ k v, f (k, .one (.str v)) = .ok (pairText b (k, v))) (ps : List (Str × Str)) :
    (strItems ps).mapM f = .ok (ps.map (pairText b)) := by
  induction ps with
  | nil => rfl
  | cons p rest ih =>
    simp only [strItems] at ih ⊢
    rw [List.map_cons, List.mapM_cons, ih, hf]
    rfl

theorem strQuery_strItems (b : Backend) (ps : List (Str × Str)) :
    strQueryFromIterable b (strItems ps) = .ok (joinC 38 (ps.map (pairText b))) := by
  unfold strQueryFromIterable
  rw [mapM_strItems b _ (fun k v => rfl)]
  rfl

end QsLemmas

/-- MAIN: pairs of strings read back exactly (including `ps = []`, rendered as "",
    and `ps = [([], [])]`, rendered as "=") -/
theorem C12_query_readback (b : Backend) (ps : List (Str × Str))
    (h : ∀ p ∈ ps, PyStr p.1 ∧ NoSurrogate p.1 ∧ PyStr p.2 ∧ NoSurrogate p.2) (q : Str) :
    strQueryFromIterable b (strItems ps) = .ok q → parseQsl q = ps := by
  rw [strQuery_strItems]
  intro hq
  cases hq
  exact parseQsl_joinC_pairText b ps h

/-- numbers are rendered by str() and read back as that text -/
theorem C12_int_readback (b : Backend) (k : Str) (n : Int) (hk : PyStr k ∧ NoSurrogate k) (q : Str) :
    strQueryFromIterable b [(k, .one (.int n))] = .ok q → parseQsl q = [(k, intToStr n)] := by
  have hr : strQueryFromIterable b [(k, .one (.int n))]
      = .ok (joinC 38 ([(k, intToStr n)].map (pairText b))) := rfl
  rw [hr]
  intro hq
  cases hq
  apply parseQsl_joinC_pairText
  intro p hp
  simp only [List.mem_singleton] at hp
  subst hp
  have := pyStr_of_ascii _ (intToStr_ascii n)
  exact ⟨hk.1, hk.2, this.1, this.2⟩

/-- with_query(sequence of string pairs) yields exactly those pairs, in order
    (`hne` is not needed: the empty sequence gives the empty query) -/
theorem C12_with_query_pairs (e : Env) (u : Url) (ps : List (Str × Str))
    (h : ∀ p ∈ ps, PyStr p.1 ∧ NoSurrogate p.1 ∧ PyStr p.2 ∧ NoSurrogate p.2) (hne : ps ≠ []) :
    ∃ v, withQuery e u (.pairs (strItems ps)) = .ok v ∧ queryPairs v = ps ∧
      v.scheme = u.scheme ∧ v.netloc = u.netloc ∧ v.path = u.path ∧ v.fragment = u.fragment := by
  have hemp : (strItems ps).isEmpty = false := by
    cases ps with
    | nil => exact absurd rfl hne
    | cons p rest => rfl
  have hw : withQuery e u (.pairs (strItems ps))
      = .ok (fromParts u.scheme u.netloc u.path (joinC 38 (ps.map (pairText e.b))) u.fragment) := by
    unfold withQuery getStrQuery
    simp only [hemp, Bool.false_eq_true, if_false]
    rw [strQuery_strItems]
    rfl
  refine ⟨_, hw, ?_, rfl, rfl, rfl, rfl⟩
  show parseQsl (joinC 38 (ps.map (pairText e.b))) = ps
  exact parseQsl_joinC_pairText e.b ps h

/-- parse_qsl distributes over '&'-concatenation (basis of extend_query);
    holds for empty `a` or `b` as well -/
theorem parseQsl_append' (a b : Str) : parseQsl (a ++ [38] ++ b) = parseQsl a ++ parseQsl b := by
  have hemp : ∀ s : Str, parseQsl s = (splitOn 38 s).filterMap qslPiece := by
    intro s
    rw [parseQsl_eq]
    cases s with
    | nil => rfl
    | cons _ _ => rfl
  rw [hemp, hemp a, hemp b, List.append_assoc, List.singleton_append, splitOn_append,
    List.filterMap_append]

theorem parseQsl_append (a b : Str) (ha : a ≠ []) (hb : b ≠ []) :
    parseQsl (a ++ [38] ++ b) = parseQsl a ++ parseQsl b :=
  parseQsl_append' a b

/-! ### non-vacuity: concrete inputs with every delimiter, '%', '#', space, non-ASCII and
    non-BMP characters satisfy the hypotheses -/

namespace QsLemmas
/-- `a&b=c +;%#é€😀` -/
def sampleKey : Str := [97, 38, 98, 61, 99, 32, 43, 59, 37, 35, 233, 0x20AC, 0x1F600]
/-- `%2B+ %zz=&` followed by U+10FFFF and U+D7FF / U+E000 (the neighbours of the surrogate block) -/
def sampleVal : Str := [37, 50, 66, 43, 32, 37, 122, 122, 61, 38, 0x10FFFF, 0xD7FF, 0xE000]
def samplePairs : List (Str × Str) := [(sampleKey, sampleVal), ([], []), (sampleVal, []), ([], sampleKey)]
end QsLemmas

example : PyStr sampleKey ∧ NoSurrogate sampleKey ∧ PyStr sampleVal ∧ NoSurrogate sampleVal := by
  decide

example : ∀ p ∈ samplePairs, PyStr p.1 ∧ NoSurrogate p.1 ∧ PyStr p.2 ∧ NoSurrogate p.2 := by
  decide

example (b : Backend) : stdUnquote (plusToSpace (Gen.QUERY_PART_QUOTER.run b sampleKey)) = sampleKey :=
  C12_part_readback b sampleKey (by decide) (by decide)

example (b : Backend) (q : Str) (hq : strQueryFromIterable b (strItems samplePairs) = .ok q) :
    parseQsl q = samplePairs :=
  C12_query_readback b samplePairs (by decide) q hq

/-- the corner cases of the main theorem: no pair at all, and one pair of two empty strings -/
example (b : Backend) : strQueryFromIterable b (strItems []) = .ok [] ∧ parseQsl [] = [] :=
  ⟨rfl, rfl⟩
example (b : Backend) (q : Str) (hq : strQueryFromIterable b (strItems [([], [])]) = .ok q) :
    parseQsl q = [([], [])] :=
  C12_query_readback b [([], [])] (by decide) q hq

example (e : Env) (u : Url) :
    ∃ v, withQuery e u (.pairs (strItems samplePairs)) = .ok v ∧ queryPairs v = samplePairs ∧
      v.scheme = u.scheme ∧ v.netloc = u.netloc ∧ v.path = u.path ∧ v.fragment = u.fragment :=
  C12_with_query_pairs e u samplePairs (by decide) (by decide)

example (b : Backend) (q : Str) (hq : strQueryFromIterable b [(sampleKey, .one (.int (-120)))] = .ok q) :
    parseQsl q = [(sampleKey, [45, 49, 50, 48])] :=
  C12_int_readback b sampleKey (-120) (by decide) q hq

end Yarl
