import YarlProofs.C06Headline
import YarlProofs.C06HeadlineMore
import YarlProofs.C06HeadlineMore3
import YarlProofs.C06More3
/-!
  C06HeadlineMore4.lean — AUDIT LAYER for property C06, fourth file (after C06Headline.lean, C06HeadlineMore.lean and
  C06HeadlineMore3.lean): headline theorems for the proof module added after the last refresh, C06More3.lean.  This file
  is a leaf, nobody imports it.  The GAPS block of C06Headline.lean cites the theorems of this file.

  C06 | Decoded views are faithful and supplied values read back unchanged |
  "Each decoded accessor (user, password, path, path_safe, parts, name, suffix, query, query_string, fragment) equals
  the UTF-8 percent-decoding of the corresponding raw component, with malformed or undecodable escapes kept verbatim,
  '+' meaning space only in queries, and path_safe keeping %2F and %25. Any text supplied as a decoded value through
  build(), with_user, with_password, with_path, with_name, with_fragment, with_query, / or joinpath reads back
  unchanged from the matching accessor (lone surrogates, and dot segments under an authority, excepted)."

  What is here (numbers = GAPS items of C06Headline.lean):
    * GAPS 6 ("Remains open: with_suffix (not in the property's list)"): the text supplied to `with_suffix(x)` read back
      at the DECODED level, for ANY old URL on which the call succeeds and every accepted `x` without lone surrogates —
      through `name` (always: old decoded name without the old decoded suffix, then `x`), through `suffix` (closed form;
      `v.suffix == x` IF AND ONLY IF `x` is "." + a non-empty dot-free text, or "" on a stem without suffix), through
      `suffixes` (under "no escaped '.' in the raw stem" — needed), idempotence, and exactly when the call succeeds;
      with the failing cases as theorems (".tar.gz", ".a.", "" on "a.tar.gz", an escaped dot "%2E" in the old name);
    * GAPS 12: the hypotheses `HostTextOK` / `hwrap` of the `build(authority=A)` theorems are DECIDABLE — a Bool check on
      the text `A` alone, oracle-free — and the read-back theorems restated with Bool-checkable hypotheses only.

  Vocabulary added by C06More3.lean.
  `PathMore.sfx n` / `PathMore.sfxs n` (C13More.lean) = the library's `suffix` / `suffixes` as functions of a name (the
  text from the LAST '.', unless that '.' is the first or last character; the dotted pieces after the leading dots,
  none for a name ending in '.'); `rawSuffix_eq` / `rawSuffixes_eq` tie them to the raw accessors.
  `HumanReach.stem n` = `n` without `sfx n` (`n[: len(n) - len(suffix)]`).  `dn.take (dn.length - ds.length)` with
  `dn = u.name`, `ds = u.suffix` = "the rest of the decoded name": `u.name[: len(u.name) - len(u.suffix)]`.
  `R12a.NoEscapedDot e s` = decoding the dot-free pieces of the raw text `s` creates no '.' (no "%2E" in `s`).
  `R12a.dotted x` = the dotted pieces of `x` (`sfxs` of a dot-free stem followed by `x`; none when `x` ends in '.').
  `R12a.urlH p` = the record `URL("http://h" + p, encoded=True)`.
  `R12a.hostTextOkB h` = the Bool form of `HostTextOK h`; `R12a.authHost A` / `authUser A` / `authPassword A` /
  `authPortText A` / `authPort A` = host text, user, password, port text and (for an ASCII port text) port of the
  authority text `A`, computed WITHOUT oracle the way `split_netloc` cuts it; `R12a.authWrapB A` = a host text without
  ':' is not written in brackets; `R12a.authOkB A` = `hostTextOkB (authHost A) && authWrapB A`.
-/
set_option linter.unusedVariables false
namespace Yarl
open R12a PathMore HumanReach PathAlg PathLemmas NetShape NetlocLemmas

/-! ## Sentence 2 — "Any text supplied as a decoded value … reads back unchanged from the matching accessor":
    `with_suffix` (GAPS 6; not in the property's list of modifiers) -/

/-- GAPS 6, `with_suffix(x)` read back through `name` and `parts`: for EVERY old URL on which the call succeeds, with
    `dn = u.name`, `ds = u.suffix`: `dn` ends with `ds`, the new `name` is `dn` without `ds` followed by `x` UNCHANGED,
    all other decoded parts, scheme and authority are kept, query / fragment kept or dropped as the flags say.  `ds` is
    the decoding of the RAW suffix (for the raw name "a%2Eb": "", not ".b" —
    `C06_headline_with_suffix_escaped_dot_examples`).  Cites C06_with_suffix_name_readback (C06More3.lean). -/
theorem C06_headline_with_suffix_name_readback (e : Env) (u : Url) (x : Str) (kq kf : Bool) (v : Url)
    (hx : PyStr x)                                   -- model artefact: `x` is a Python string
    (hsur : NoSurrogate x)                           -- "lone surrogates … excepted"
    (h : withSuffix e u x kq kf = .ok v) :           -- the call succeeds (exactly when: `…_with_suffix_total`)
    ∃ dn ds, name e u = .ok dn ∧ suffix e u = .ok ds ∧
      dn = dn.take (dn.length - ds.length) ++ ds ∧
      name e v = .ok (dn.take (dn.length - ds.length) ++ x) ∧
      (partsDecoded e v).dropLast = (partsDecoded e u).dropLast ∧
      partsDecoded e v = (partsDecoded e u).dropLast ++ [dn.take (dn.length - ds.length) ++ x] ∧
      v.scheme = u.scheme ∧ v.netloc = u.netloc ∧
      v.query = (if kq then u.query else []) ∧ v.fragment = (if kf then u.fragment else []) ∧
      queryString e v = (if kq then queryString e u else []) ∧
      fragmentDecoded e v = (if kf then fragmentDecoded e u else []) :=
  C06_with_suffix_name_readback e u x kq kf v hx hsur h

/-- GAPS 6, `with_suffix(x)` read back through `suffix`, CLOSED FORM: for `x ≠ ""` the new `suffix` is the suffix
    function of the new decoded name — explicitly the last dotted piece of `x`, "" when `x` ends in '.' — whatever the
    old name; for `x == ""` it is the decoding of the RAW suffix of the RAW stem, which is the suffix of the decoded
    stem when the raw stem has no escaped '.' (true when the decoded stem has no '.' at all, or the raw name is the
    canonical quoting of a text without lone surrogates).  Cites C06_with_suffix_suffix_closed_form. -/
theorem C06_headline_with_suffix_suffix_closed_form (e : Env) (u : Url) (x : Str) (kq kf : Bool) (v : Url)
    (hx : PyStr x) (hsur : NoSurrogate x)            -- a Python string without lone surrogates
    (h : withSuffix e u x kq kf = .ok v) :           -- the call succeeds
    ∃ n dn ds, rawName u = .ok n ∧ name e u = .ok dn ∧ suffix e u = .ok ds ∧
      dn.take (dn.length - ds.length) = uq e Gen.UNQUOTER (stem n) ∧ dn.take (dn.length - ds.length) ≠ [] ∧
      name e v = .ok (dn.take (dn.length - ds.length) ++ x) ∧
      (x ≠ [] → suffix e v = .ok (sfx (dn.take (dn.length - ds.length) ++ x))) ∧
      (∀ a t, x = a ++ 46 :: t → 46 ∉ t → suffix e v = .ok (if t = [] then [] else 46 :: t)) ∧
      (x = [] → suffix e v = .ok (uq e Gen.UNQUOTER (sfx (stem n)))) ∧
      (NoEscapedDot e (stem n) → suffix e v = .ok (sfx (dn.take (dn.length - ds.length) ++ x))) ∧
      (46 ∉ dn.take (dn.length - ds.length) → NoEscapedDot e (stem n)) ∧
      ((∃ d, PyStr d ∧ NoSurrogate d ∧ n = q e Gen.PATH_QUOTER d) → NoEscapedDot e (stem n)) :=
  C06_with_suffix_suffix_closed_form e u x kq kf v hx hsur h

/-- GAPS 6, "reads back unchanged from the matching accessor" for `with_suffix` / `suffix`, EXACTLY:
    `u.with_suffix(x).suffix == x` IF AND ONLY IF `x` is "." followed by a NON-EMPTY DOT-FREE text, or `x` is "" and the
    old raw stem has no suffix of its own.  Cites C06_with_suffix_suffix_readback_iff. -/
theorem C06_headline_with_suffix_suffix_readback_iff (e : Env) (u : Url) (x : Str) (kq kf : Bool) (v : Url)
    (hx : PyStr x) (hsur : NoSurrogate x)            -- a Python string without lone surrogates
    (h : withSuffix e u x kq kf = .ok v) :           -- the call succeeds
    ∃ n dn ds, rawName u = .ok n ∧ name e u = .ok dn ∧ suffix e u = .ok ds ∧
      (suffix e v = .ok x ↔ ((∃ y, x = 46 :: y ∧ y ≠ [] ∧ 46 ∉ y) ∨ (x = [] ∧ sfx (stem n) = []))) ∧
      (NoEscapedDot e (stem n) → (sfx (stem n) = [] ↔ sfx (dn.take (dn.length - ds.length)) = [])) :=
  C06_with_suffix_suffix_readback_iff e u x kq kf v hx hsur h

/-- "reads back unchanged" through `suffix` is FALSE outside that form: `URL("http://h/a.b").with_suffix(".tar.gz")`
    has suffix ".gz"; `.with_suffix(".a.")` has suffix ""; `URL("http://h/a.tar.gz").with_suffix("")` has suffix
    ".tar".  (`with_suffix` is not in the property's list; not in KNOWN_FINDINGS.jsonl.)
    Cites C06_with_suffix_suffix_readback_counterexamples. -/
theorem C06_headline_with_suffix_suffix_readback_fails_for : ∀ b : Backend,
    let e : Env := ⟨b, Oracles.empty⟩
    (withSuffix e (urlH "/a.b") ".tar.gz".toStr false false = .ok (urlH "/a.tar.gz") ∧
      suffix e (urlH "/a.tar.gz") = .ok ".gz".toStr) ∧
    (withSuffix e (urlH "/a.b") ".a.".toStr false false = .ok (urlH "/a.a.") ∧ suffix e (urlH "/a.a.") = .ok []) ∧
    (withSuffix e (urlH "/a.tar.gz") [] false false = .ok (urlH "/a.tar") ∧
      suffix e (urlH "/a.tar") = .ok ".tar".toStr) :=
  C06_with_suffix_suffix_readback_counterexamples

/-- GAPS 6, `with_suffix(x)` read back through `suffixes`: when the raw stem has no escaped '.', the new `suffixes` is
    the suffixes function of the new decoded name, for every accepted `x`; when the decoded stem has no '.' at all and
    `x ≠ ""` it is simply the dotted pieces of `x`.  Cites C06_with_suffix_suffixes_readback. -/
theorem C06_headline_with_suffix_suffixes_readback (e : Env) (u : Url) (x : Str) (kq kf : Bool) (v : Url)
    (hx : PyStr x) (hsur : NoSurrogate x)            -- a Python string without lone surrogates
    (h : withSuffix e u x kq kf = .ok v) :           -- the call succeeds
    ∃ n dn ds, rawName u = .ok n ∧ name e u = .ok dn ∧ suffix e u = .ok ds ∧
      dn.take (dn.length - ds.length) = uq e Gen.UNQUOTER (stem n) ∧
      -- side condition "no escaped '.' in the raw stem": NEEDED, next theorem
      (NoEscapedDot e (stem n) → suffixes e v = .ok (sfxs (dn.take (dn.length - ds.length) ++ x))) ∧
      (46 ∉ dn.take (dn.length - ds.length) → x ≠ [] → suffixes e v = .ok (dotted x)) ∧
      (46 ∉ dn.take (dn.length - ds.length) → NoEscapedDot e (stem n)) ∧
      ((∃ d, PyStr d ∧ NoSurrogate d ∧ n = q e Gen.PATH_QUOTER d) → NoEscapedDot e (stem n)) :=
  C06_with_suffix_suffixes_readback e u x kq kf v hx hsur h

/-- the side condition cannot be dropped: `URL("http://h/a%2Eb.c", encoded=True).with_suffix(".d")` is
    "http://h/a%2Eb.d" with `suffixes == (".d",)`, while the suffixes function on the decoded stem "a.b" + ".d" gives
    (".b", ".d").  Cites C06_with_suffix_suffixes_escaped_dot_counterexample. -/
theorem C06_headline_with_suffix_suffixes_fails_for_escaped_dot : ∀ b : Backend,
    let e : Env := ⟨b, Oracles.empty⟩
    withSuffix e (urlH "/a%2Eb.c") ".d".toStr false false = .ok (urlH "/a%2Eb.d") ∧
    suffixes e (urlH "/a%2Eb.d") = .ok [".d".toStr] ∧
    sfxs ("a.b".toStr ++ ".d".toStr) = [".b".toStr, ".d".toStr] ∧ ¬ NoEscapedDot e (stem "a%2Eb.c".toStr) :=
  C06_with_suffix_suffixes_escaped_dot_counterexample

/-- THE SUBTLETY behind the side condition, computed on both backends: an old raw name with an ESCAPED dot.
    `URL("http://h/a%2Eb", encoded=True)` has `name == "a.b"` but `suffix == ""` (the raw name has no raw suffix);
    `.with_suffix(".c")` is "http://h/a%2Eb.c" with name "a.b.c", suffix ".c", suffixes (".c",) although the suffixes
    function on "a.b.c" gives (".b", ".c").  And on `URL("http://h/a%2Eb.c", encoded=True)`: `.with_suffix("")` has
    suffix "" while the suffix of the decoded stem "a.b" is ".b"; `URL("http://h/%2E.a", encoded=True).with_suffix("")`
    succeeds with decoded name ".".  Cites C06_with_suffix_escaped_dot_example,
    C06_with_suffix_empty_escaped_dot_example. -/
theorem C06_headline_with_suffix_escaped_dot_examples : ∀ b : Backend,
    let e : Env := ⟨b, Oracles.empty⟩
    (name e (urlH "/a%2Eb") = .ok "a.b".toStr ∧ suffix e (urlH "/a%2Eb") = .ok [] ∧ sfx "a.b".toStr = ".b".toStr ∧
      withSuffix e (urlH "/a%2Eb") ".c".toStr false false = .ok (urlH "/a%2Eb.c") ∧
      name e (urlH "/a%2Eb.c") = .ok "a.b.c".toStr ∧ suffix e (urlH "/a%2Eb.c") = .ok ".c".toStr ∧
      suffixes e (urlH "/a%2Eb.c") = .ok [".c".toStr] ∧
      sfxs "a.b.c".toStr = [".b".toStr, ".c".toStr] ∧ ¬ NoEscapedDot e (stem "a%2Eb".toStr)) ∧
    (withSuffix e (urlH "/a%2Eb.c") [] false false = .ok (urlH "/a%2Eb") ∧ suffix e (urlH "/a%2Eb") = .ok [] ∧
      sfx ("a.b".toStr ++ []) = ".b".toStr) ∧
    (withSuffix e (urlH "/%2E.a") [] false false = .ok (urlH "/%2E") ∧ name e (urlH "/%2E") = .ok dot) :=
  fun b => ⟨C06_with_suffix_escaped_dot_example b,
    ⟨(C06_with_suffix_empty_escaped_dot_example b).1.2.2.1, (C06_with_suffix_empty_escaped_dot_example b).1.2.2.2.1,
     (C06_with_suffix_empty_escaped_dot_example b).1.2.2.2.2⟩,
    (C06_with_suffix_empty_escaped_dot_example b).2.2⟩

/-- GAPS 6, idempotence at the decoded level: for `x = "." + y`, `y` non-empty and dot-free, the second
    `with_suffix(x)` succeeds and changes nothing but — by its own keep flags — dropping query and fragment; `suffix`
    reads back `x` after either call; with both keep flags on the result IS the same URL.
    Cites C06_with_suffix_idempotent. -/
theorem C06_headline_with_suffix_idempotent (e : Env) (u : Url) (x : Str) (kq kf : Bool) (v : Url)
    (hx : PyStr x) (hsur : NoSurrogate x)            -- a Python string without lone surrogates
    (h : withSuffix e u x kq kf = .ok v)             -- the first call succeeds
    (y : Str) (hxy : x = 46 :: y) (hy0 : y ≠ []) (hdot : 46 ∉ y)      -- `x` is "." + a non-empty dot-free text
    (kq2 kf2 : Bool) :                               -- the keep flags of the second call
    ∃ w, withSuffix e v x kq2 kf2 = .ok w ∧
      w.scheme = v.scheme ∧ w.netloc = v.netloc ∧ w.path = v.path ∧
      w.query = (if kq2 then v.query else []) ∧ w.fragment = (if kf2 then v.fragment else []) ∧
      name e w = name e v ∧ partsDecoded e w = partsDecoded e v ∧
      suffix e v = .ok x ∧ suffix e w = .ok x ∧ suffixes e w = suffixes e v ∧
      (kq2 = true → kf2 = true → w = v) :=
  C06_with_suffix_idempotent e u x kq kf v hx hsur h y hxy hy0 hdot kq2 kf2

/-- idempotence is FALSE outside that form: `URL("http://h/a").with_suffix(".tar.gz")` twice is
    "http://h/a.tar.tar.gz"; `URL("http://h/a.tar.gz").with_suffix("")` twice is "http://h/a"; `.with_suffix(".b.")`
    twice on "http://h/a" is "http://h/a.b..b.".  Cites C06_with_suffix_not_idempotent_examples. -/
theorem C06_headline_with_suffix_idempotent_fails_for : ∀ b : Backend,
    let e : Env := ⟨b, Oracles.empty⟩
    (withSuffix e (urlH "/a") ".tar.gz".toStr false false = .ok (urlH "/a.tar.gz") ∧
      withSuffix e (urlH "/a.tar.gz") ".tar.gz".toStr false false = .ok (urlH "/a.tar.tar.gz")) ∧
    (withSuffix e (urlH "/a.tar.gz") [] false false = .ok (urlH "/a.tar") ∧
      withSuffix e (urlH "/a.tar") [] false false = .ok (urlH "/a")) ∧
    (withSuffix e (urlH "/a") ".b.".toStr false false = .ok (urlH "/a.b.") ∧
      withSuffix e (urlH "/a.b.") ".b.".toStr false false = .ok (urlH "/a.b..b.")) :=
  C06_with_suffix_not_idempotent_examples

/-- GAPS 6, when the call succeeds at all: for an ACCEPTED `x` ("" or "." + a non-empty text, no '/', no lone
    surrogate) on a URL with a non-empty raw name, `with_suffix(x)` succeeds unless `x == ""` and the raw stem is "."
    or ".." — the raw names ".", "..", "..t", "...t" (`t` non-empty, dot-free) — where it raises ValueError.
    Cites C06_with_suffix_total. -/
theorem C06_headline_with_suffix_total (e : Env) (u : Url) (x : Str) (kq kf : Bool) (n : Str)
    (hn : rawName u = .ok n) (hne : n ≠ [])                     -- the old raw name is not empty
    (hx : PyStr x) (hsur : NoSurrogate x)                       -- a Python string without lone surrogates
    (hacc : x = [] ∨ ∃ y, x = 46 :: y ∧ y ≠ [])                 -- "" or starts with '.', not "." itself
    (h47 : 47 ∉ x) :                                            -- no '/'
    ((∃ v, withSuffix e u x kq kf = .ok v) ↔ ¬ (x = [] ∧ (stem n = dot ∨ stem n = dotdot))) ∧
    ((x = [] ∧ (stem n = dot ∨ stem n = dotdot)) → withSuffix e u x kq kf = .error .valueError) ∧
    (stem n = dot ↔ n = dot ∨ ∃ t, t ≠ [] ∧ 46 ∉ t ∧ n = 46 :: 46 :: t) ∧
    (stem n = dotdot ↔ n = dotdot ∨ ∃ t, t ≠ [] ∧ 46 ∉ t ∧ n = 46 :: 46 :: 46 :: t) :=
  C06_with_suffix_total e u x kq kf n hn hne hx hsur hacc h47

/-- the four name shapes on which `with_suffix("")` raises, computed: `URL("http://h/..a", encoded=True)` (new name
    "."), `…/...a` (".."), `…/.`, `…/..`; a non-empty suffix is accepted there (`…/..` + ".x" is "http://h/...x").
    Cites C06_with_suffix_total_examples. -/
theorem C06_headline_with_suffix_total_examples : ∀ b : Backend,
    let e : Env := ⟨b, Oracles.empty⟩
    withSuffix e (urlH "/..a") [] false false = .error .valueError ∧
    withSuffix e (urlH "/...a") [] false false = .error .valueError ∧
    withSuffix e (urlH "/.") [] false false = .error .valueError ∧
    withSuffix e (urlH "/..") [] false false = .error .valueError ∧
    withSuffix e (urlH "/..") ".x".toStr false false = .ok (urlH "/...x") ∧
    stem "..a".toStr = dot ∧ stem "...a".toStr = dotdot :=
  C06_with_suffix_total_examples

/-! ## Sentence 2 — `build(authority=A)`: the hypotheses on `A` as a Bool check on the text (GAPS 12) -/

/-- GAPS 12 ("carry `HostTextOK h0` and the bracket condition `hwrap` as hypotheses"): both are DECIDABLE from the
    text.  `HostTextOK h0` IS the Bool `hostTextOkB h0`; the bracket condition IS `authWrapB A`; and for every `A`
    that `split_netloc` accepts (any oracle) the single check `authOkB A` is exactly the conjunction of the two
    hypotheses of the `build(authority=)` theorems.  Cites C06_hostTextOK_decidable. -/
theorem C06_headline_hostTextOK_decidable (h0 A : Str) :
    (hostTextOkB h0 = true ↔ HostTextOK h0) ∧
    (authWrapB A = true ↔ (58 ∉ authHost A → 91 ∉ (rpartition 64 A).2.2)) ∧
    (∀ o np, splitNetloc o A = .ok np →
      (authOkB A = true ↔ ∃ h0, np.host = some h0 ∧ HostTextOK h0 ∧ (58 ∉ h0 → 91 ∉ (rpartition 64 A).2.2))) :=
  C06_hostTextOK_decidable h0 A

/-- GAPS 12 / GAPS 3, `build(authority=A)` (encoded=False) with ONLY Bool-checkable hypotheses on `A`: `A` is a Python
    string and `authOkB A`.  Then `split_netloc(A)` HAS succeeded, its host / user / password are the oracle-free
    `authHost A` / `authUser A` / `authPassword A` (its port `authPort A` when the port text is ASCII), and all
    conclusions of `C06_headline_build_authority_readback` hold: raw_user / raw_password are QUOTER of the userinfo
    texts, `user` / `password` read them back verbatim (lone surrogates dropped), raw_host, explicit_port, port.
    Cites C06_build_authority_readback_checked. -/
theorem C06_headline_build_authority_readback_checked (e : Env) (a : BuildArgs) (v : Url)
    (h : build e a = .ok v)                          -- the call succeeds
    (henc : a.encoded = false)                       -- auto-encoding mode
    (hpy : PyStr a.authority)                        -- model artefact (decidable)
    (hok : authOkB a.authority = true) :             -- THE CHECK on the text: supported ASCII host text, brackets
                                                     -- only around an IPv6 literal (`by decide` for a concrete `A`)
    ∃ np sc r, splitNetloc e.o a.authority = .ok np ∧
      np.host = some (authHost a.authority) ∧ np.user = authUser a.authority ∧
      np.password = authPassword a.authority ∧
      (isAscii (authPortText a.authority) = true → np.port = authPort a.authority) ∧
      lowerAny e a.scheme = .ok sc ∧ v.scheme = sc ∧ encodeHost e.o (authHost a.authority) false = .ok r ∧ r ≠ [] ∧
      rawUser e v = .ok ((np.user.map (q e Gen.QUOTER)).bind orNone) ∧
      rawPassword e v = .ok (np.password.map (q e Gen.QUOTER)) ∧
      user e v = .ok ((np.user.map stripSurr).bind orNone) ∧
      password e v = .ok (np.password.map stripSurr) ∧
      ((∀ s, np.user = some s → NoSurrogate s) → user e v = .ok np.user) ∧
      ((∀ s, np.password = some s → NoSurrogate s) → password e v = .ok np.password) ∧
      rawHost e v = .ok (some (unbracket r)) ∧
      explicitPort e v = .ok (strPort sc np.port) ∧
      port e v = .ok (np.port.orElse fun _ => defaultPort sc) :=
  C06_build_authority_readback_checked e a v h henc hpy hok

/-- GAPS 12 / GAPS 3, the host of `build(authority=A)` under the same check, `h0 = authHost A` computed from the text:
    (i) a name → `raw_host` is `h0` lower-cased (and `host`, under the IDNA oracle hypothesis of GAPS 10); (ii) an IPv4
    literal → unchanged; (iii) an IPv6 literal [+ zone] → canonical text without brackets.
    Cites C06_build_authority_host_readback_checked. -/
theorem C06_headline_build_authority_host_readback_checked (e : Env) (a : BuildArgs) (v : Url)
    (h : build e a = .ok v)                          -- the call succeeds
    (henc : a.encoded = false)                       -- auto-encoding mode
    (hpy : PyStr a.authority)                        -- model artefact (decidable)
    (hok : authOkB a.authority = true) :             -- THE CHECK on the text
    let h0 := authHost a.authority
    ((parseIP (partition 37 h0).1 = none ∨ (58 ∉ h0 ∧ ∀ l, h0.getLast? = some l → isDigitC l = false)) →
      rawHost e v = .ok (some (lower h0)) ∧
      -- ORACLE HYPOTHESIS (GAPS 10): the IDNA decoder maps the lower-cased name to itself, where it is consulted
      ((((∀ l, (lower h0).getLast? = some l → isDigitC l = false) ∨ hasSub [120, 110, 45, 45] (lower h0) = true) →
          e.o.idnaDec (lower h0) = some (some (lower h0))) →
        host e v = .ok (some (lower h0)))) ∧
    (∀ o4, parseIPv4 h0 = some o4 → rawHost e v = .ok (some h0) ∧ host e v = .ok (some h0)) ∧
    (∀ h8, parseIPv6 (partition 37 h0).1 = some h8 →
      rawHost e v = .ok (some (ipv6ToStr h8 ++ (if (partition 37 h0).2.1 then [37] ++ (partition 37 h0).2.2 else []))) ∧
      host e v = .ok (some (ipv6ToStr h8 ++ (if (partition 37 h0).2.1 then [37] ++ (partition 37 h0).2.2 else [])))) :=
  C06_build_authority_host_readback_checked e a v h henc hpy hok

/-! ## non-vacuity -/
section checks
private def e4 : Env := { b := .py, o := Oracles.empty }
private def uT4 : Url := fromParts "http".toStr "h".toStr "/d/b%20c.tar.gz".toStr "k=v".toStr "f".toStr
private def xT4 : Str := [46, 116, 32, 233]      -- ".t é"

/-- the `with_suffix` theorems: accepted argument with a space and a non-ASCII character, a successful call on a URL
    with directory, multi-suffix name, query and fragment -/
example : PyStr xT4 ∧ NoSurrogate xT4 ∧ xT4 = 46 :: [116, 32, 233] ∧ 46 ∉ [116, 32, 233] ∧
    withSuffix e4 uT4 xT4 true false
      = .ok (fromParts "http".toStr "h".toStr "/d/b%20c.tar.t%20%C3%A9".toStr "k=v".toStr []) :=
  ⟨by decide, by decide, by decide, by decide, okEq_sound (by decide +kernel)⟩

/-- `C06_headline_build_authority_readback_checked`: the hypotheses on the text hold for
    "us er:p%40w@Host-1.Example:8042" and for an IPv6 literal with zone; they FAIL for an IPvFuture literal, a name in
    brackets and an authority without host -/
example : PyStr "us er:p%40w@Host-1.Example:8042".toStr ∧ authOkB "us er:p%40w@Host-1.Example:8042".toStr = true ∧
    authOkB "[FE80::1%Eth0]:8443".toStr = true ∧ authOkB "[v1.x]".toStr = false ∧
    authOkB "[example.com]".toStr = false ∧ authOkB "user@:80".toStr = false :=
  ⟨by decide, by decide +kernel, by decide +kernel, by decide +kernel, by decide +kernel, by decide +kernel⟩
end checks

end Yarl
