/-
  C03Reach.lean — property C03 ("the canonical string is a fixed point of parsing") lifted from
  families of constructor results to every URL reachable through the auto-encoding API.

  Step 1: the invariant `CanonUrl` (components canonical for their REQUOTER; under an authority the
          path is rooted and free of dot segments) holds of every reachable URL.
  Step 2: every URL satisfying the invariant whose stored authority is one the library writes, with an
          RFC-valid scheme and outside two known exclusions, is a fixed point of `str` ∘ `encode_url`.
-/
import YarlModel
import YarlProofs.Lemmas.ReachFix
set_option linter.unusedVariables false
set_option linter.unusedSimpArgs false
namespace Yarl
open ReachFix FixLemmas

/-! ## Step 1 — the invariant over all operation sequences -/

/-- as `UOp.ArgsPy`, but the reference handed to `join` must itself satisfy the invariant (it is
    returned unchanged when its scheme differs; `UOp.ArgsPy` only asks `WFUrl`, which allows
    superfluous escapes such as "%41": `C03_joinRef_wf_not_enough`) -/
def UOp.ArgsCanon (b : Backend) : UOp → Prop
  | .joinRef ref => CanonUrl b ref
  | op => op.ArgsPy b

theorem UOp.ArgsCanon.toPy {b : Backend} {op : UOp} (h : op.ArgsCanon b) : op.ArgsPy b := by
  cases op <;> first | exact h | exact CanonUrl.wf h

/-- URLs obtainable through the auto-encoding API (`Reach` with the `join` side condition
    strengthened from `WFUrl` to `CanonUrl`) -/
inductive ReachC (e : Env) : Url → Prop
  | ctor (s : Str) (u : Url) : PyStr s → encodeUrl e s = .ok u → ReachC e u
  | build (a : BuildArgs) (u : Url) : a.encoded = false → BuildArgsPy a → build e a = .ok u → ReachC e u
  | op (u : Url) (op : UOp) (v : Url) : ReachC e u → op.ArgsCanon e.b → applyOp e u op = .ok v → ReachC e v
  | join (u r : Url) : ReachC e u → ReachC e r → ReachC e (join e u r)

theorem ReachC.toReach {e : Env} {u : Url} (h : ReachC e u) : Reach e u := by
  induction h with
  | ctor s u hs h => exact Reach.ctor s u hs h
  | build a u henc hpy h => exact Reach.build a u henc hpy h
  | op u op v _ ha h ih => exact Reach.op u op v ih ha.toPy h
  | join u r _ _ ihu ihr => exact Reach.join u r ihu ihr

/-- the constructor -/
theorem C03_encodeUrl_canon (e : Env) (s : Str) (hs : PyStr s) (u : Url) :
    encodeUrl e s = .ok u → CanonUrl e.b u := encodeUrl_canon e s hs u

/-- `URL.build(..., encoded=False)` -/
theorem C03_build_canon (e : Env) (a : BuildArgs) (u : Url) (henc : a.encoded = false) (hpy : BuildArgsPy a) :
    build e a = .ok u → CanonUrl e.b u := build_canon e a u henc hpy

/-- `join` of two URLs satisfying the invariant -/
theorem C03_join_canon (e : Env) (base ref : Url) (hb : CanonUrl e.b base) (hr : CanonUrl e.b ref) :
    CanonUrl e.b (join e base ref) := join_canon e base ref hb hr

/-- one step preserves the invariant -/
theorem C03_applyOp_canon (e : Env) (u : Url) (hu : CanonUrl e.b u) (op : UOp) (ha : op.ArgsCanon e.b) (v : Url) :
    applyOp e u op = .ok v → CanonUrl e.b v := by
  intro h
  cases op with
  | withScheme s => exact withScheme_canon e u hu s v h
  | withUser s => exact withUser_canon e u hu s v h
  | withPassword s => exact withPassword_canon e u hu s v h
  | withHost s => exact withHost_canon e u hu s v h
  | withPort p k => exact withPort_canon e u hu p k v h
  | withPath s kq kf => cases h; exact withPath_canon e u hu s ha kq kf
  | withQuery a => exact withQuery_canon e u hu a ha v h
  | extendQuery a => exact extendQuery_canon e u hu a ha v h
  | updateQuery a => exact updateQuery_canon e u hu a ha v h
  | withoutQueryParams ns => exact withoutQueryParams_canon e u hu ns v h
  | withFragment f => cases h; exact withFragment_canon e u hu f ha
  | withName s kq kf => exact withName_canon e u hu s ha kq kf v h
  | withSuffix s kq kf => exact withSuffix_canon e u hu s ha kq kf v h
  | child paths => exact makeChild_canon e u hu paths ha v h
  | parent => cases h; exact parent_canon e.b u hu
  | origin => exact origin_canon e u hu v h
  | relative => exact relative_canon e.b u hu v h
  | joinRef ref => cases h; exact join_canon e u ref hu ha
  | copy => cases h; exact pickleTwin_canon e.b u hu

/-- MAIN (Step 1): every reachable URL satisfies the invariant -/
theorem C03_reachable_canon (e : Env) (u : Url) : ReachC e u → CanonUrl e.b u := by
  intro h
  induction h with
  | ctor s u hs h => exact encodeUrl_canon e s hs u h
  | build a u henc hpy h => exact build_canon e a u henc hpy h
  | op u op v _ ha h ih => exact C03_applyOp_canon e u ih op ha v h
  | join u r _ _ ihu ihr => exact join_canon e u r ihu ihr

/-- the strengthening of the `join` side condition is necessary: `Reach` lets `join` return a
    well-formed (`WFUrl`) reference with the superfluous escape "%41" unchanged -/
theorem C03_joinRef_wf_not_enough (b : Backend) :
    ∃ u, Reach ⟨b, Oracles.empty⟩ u ∧ ¬ CanonUrl b u := by
  have hbase : encodeUrl ⟨b, Oracles.empty⟩ "http://h/".toStr =
      .ok (urlOf "http".toStr "h".toStr [47] [] [] (preHost "h".toStr)) := by
    cases b <;> decide +kernel
  have hj : join ⟨b, Oracles.empty⟩ (urlOf "http".toStr "h".toStr [47] [] [] (preHost "h".toStr))
      (fromParts "x".toStr [] "%41".toStr [] []) = fromParts "x".toStr [] "%41".toStr [] [] := by
    cases b <;> decide +kernel
  refine ⟨fromParts "x".toStr [] "%41".toStr [] [], ?_, ?_⟩
  · have hwf : WFUrl b (fromParts "x".toStr [] "%41".toStr [] []) := by
      refine ⟨?_, OutLang.nil, OutLang.nil⟩
      exact OutLang.esc (t := Gen.PATH_REQUOTER.tab b) 65 [] (by decide) OutLang.nil
    have := Reach.op _ (.joinRef (fromParts "x".toStr [] "%41".toStr [] [])) _
      (Reach.ctor _ _ (by decide) hbase) hwf rfl
    rw [hj] at this
    exact this
  · intro hc
    have h1 := run_fixed b _ pr_mem rfl hc.path
    have h2 : Gen.PATH_REQUOTER.run b "%41".toStr ≠ "%41".toStr := by cases b <;> decide +kernel
    exact h2 h1

/-! ### operation sequences as lists -/

theorem C03_applyOps_reachC (e : Env) (ops : List UOp) : ∀ (u v : Url), ReachC e u →
    (∀ op ∈ ops, op.ArgsCanon e.b) → applyOps e u ops = .ok v → ReachC e v := by
  induction ops with
  | nil =>
    intro u v hu _ h
    simp only [applyOps, List.foldlM_nil, pure, Except.pure] at h
    cases h; exact hu
  | cons op rest ih =>
    intro u v hu ha h
    simp only [applyOps, List.foldlM_cons] at h
    obtain ⟨w, hw, h⟩ := WfLemmas.bind_ok h
    exact ih w v (ReachC.op u op w hu (ha op (by simp)) hw) (fun o ho => ha o (by simp [ho])) h

/-- the constructor followed by ANY finite sequence of auto-encoding operations -/
theorem C03_op_sequence_canon (e : Env) (s : Str) (ops : List UOp) (u v : Url) :
    PyStr s → (∀ op ∈ ops, op.ArgsCanon e.b) → encodeUrl e s = .ok u → applyOps e u ops = .ok v →
    CanonUrl e.b v :=
  fun hs ha hu hv => C03_reachable_canon e v (C03_applyOps_reachC e ops u v (ReachC.ctor s u hs hu) ha hv)

/-! ## Step 2 — a URL satisfying the invariant is a fixed point -/

/-- the scheme is empty or a non-empty lower-case string of scheme characters -/
def SchemeOK' (s : Str) : Prop := s = [] ∨ SchemeOK s

instance (s : Str) : Decidable (SchemeOK' s) := by unfold SchemeOK'; infer_instance

/-- the stored authority is one the library itself writes: empty, or `[user[:password]@]host[:port]`
    (`authText`) with user / password canonical for the REQUOTER (`UserInfoOK`), a host that
    `_encode_host` returns and maps to itself (`HostFix`: `hostFix_basic`, `hostFix_ipv4`,
    `hostFix_ipv6`), a port in range — and the netloc cache, when filled, agrees with it
    (`C01_str_ascii_inconsistent_cache_counterexample`: a record whose cache disagrees with its
    netloc renders the cache) -/
inductive NetlocCanon (e : Env) (u : Url) : Prop
  | empty : u.netloc = [] → u.pre = none → NetlocCanon e u
  | auth (user pw : Option Str) (host : Str) (port : Option Nat) :
      u.netloc = authText user pw host port → UserInfoOK e.b user pw → HostFix e.o host →
      (∀ p, port = some p → p ≤ 65535) →
      (u.pre = none ∨ u.pre = some (preOf user pw host port)) → NetlocCanon e u

/-- the known exclusions -/
structure C03Guards (u : Url) : Prop where
  /-- with neither scheme nor authority, the text before the first ':' of the path must not read as
      a scheme (`C03_colon_first_segment_counterexample`: "a%3Ab" is stored as "a:b", which parses
      as scheme "a"); implied by "no ':' in the first segment" (`C07_first_segment_suffices`) -/
  first_segment : u.scheme = [] → u.netloc = [] → 58 ∈ u.path →
    (u.path.takeWhile (· ≠ 58) = [] ∨ (u.path.takeWhile (· ≠ 58)).all (fun c => mem c Gen.schemeChars) = false)
  /-- a scheme in `uses_authority` without an authority needs an empty or rooted path
      (`C07_unsplit_rootless_counterexample`: "file:a/b" is written "file:///a/b") -/
  authority_scheme : u.scheme ≠ [] → Gen.usesAuthority.contains u.scheme = true → u.netloc = [] →
    (u.path = [] ∨ u.path.head? = some 47)

instance (u : Url) : Decidable (C03Guards u) :=
  decidable_of_iff
    ((u.scheme = [] → u.netloc = [] → 58 ∈ u.path →
        (u.path.takeWhile (· ≠ 58) = [] ∨ (u.path.takeWhile (· ≠ 58)).all (fun c => mem c Gen.schemeChars) = false)) ∧
     (u.scheme ≠ [] → Gen.usesAuthority.contains u.scheme = true → u.netloc = [] →
        (u.path = [] ∨ u.path.head? = some 47)))
    ⟨fun ⟨a, b⟩ => ⟨a, b⟩, fun ⟨a, b⟩ => ⟨a, b⟩⟩

/-- the port `str` writes: the scheme's default port is dropped -/
def strPort (scheme : Str) (port : Option Nat) : Option Nat :=
  match port with
  | some p => if some p = defaultPort scheme then none else some p
  | none => none

namespace ReachFix
open NetlocLemmas

theorem strPort_idem (scheme : Str) (port : Option Nat) :
    strPort scheme (strPort scheme port) = strPort scheme port := by
  cases port with
  | none => rfl
  | some p =>
    by_cases h : some p = defaultPort scheme
    · simp [strPort, h]
    · simp [strPort, h]

theorem strPort_notDefault (scheme : Str) (port : Option Nat) :
    ∀ p, strPort scheme port = some p → some p ≠ defaultPort scheme := by
  intro p hp
  cases port with
  | none => cases hp
  | some p' =>
    by_cases h : some p' = defaultPort scheme
    · simp [strPort, h] at hp
    · simp only [strPort, h, if_false, Option.some.injEq] at hp
      subst hp; exact h

theorem strPort_range (scheme : Str) (port : Option Nat) (h : ∀ p, port = some p → p ≤ 65535) :
    ∀ p, strPort scheme port = some p → p ≤ 65535 := by
  intro p hp
  cases port with
  | none => cases hp
  | some p' =>
    by_cases hd : some p' = defaultPort scheme
    · simp [strPort, hd] at hp
    · simp only [strPort, hd, if_false, Option.some.injEq] at hp
      subst hp; exact h _ rfl

/-- the cache entries of a URL whose stored authority is `authText …` -/
theorem net_auth (e : Env) (u : Url) (user pw : Option Str) (host : Str) (port : Option Nat)
    (hnet : u.netloc = authText user pw host port) (hu : UserInfoOK e.b user pw) (hh : HostFix e.o host)
    (hp : ∀ p, port = some p → p ≤ 65535) (hpre : u.pre = none ∨ u.pre = some (preOf user pw host port)) :
    net e u = .ok (preOf user pw host port) := by
  unfold net
  rcases hpre with h | h
  · rw [h]
    simp only
    unfold lazyNet
    have hsplit : splitNetloc e.o u.netloc = .ok { user := user, password := pw, host := some host, port := port } := by
      rw [hnet]
      exact netloc_roundtrip e.o id user pw host port (userOK_of hu) hh.ok hp
    rw [hsplit]
    rfl
  · rw [h]; rfl

theorem net_empty (e : Env) (u : Url) (hn : u.netloc = []) (hpre : u.pre = none) :
    net e u = .ok { rawHost := none, explicitPort := none, rawUser := none, rawPassword := none } := by
  unfold net lazyNet
  rw [hpre, hn]
  rfl

/-- `str` of a URL with authority `authText user pw host port` -/
theorem str_auth (e : Env) (u : Url) (user pw : Option Str) (host : Str) (port : Option Nat)
    (hnet : u.netloc = authText user pw host port) (hN : net e u = .ok (preOf user pw host port)) :
    str e u = .ok (unsplitResult u.scheme (authText user pw host (strPort u.scheme port)) (C07_strPath u)
      u.query u.fragment) := by
  have hep : explicitPort e u = .ok port := by unfold explicitPort; rw [hN]; rfl
  cases port with
  | none =>
    rw [C07_str_recompose e u none hep (by intro p hp; cases hp)]
    simp only [strPort, C07_strPath, hnet]
  | some p =>
    by_cases hd : some p = defaultPort u.scheme
    · have hhs : hostSubcomponent e u = .ok (some (bracket host)) := by
        unfold hostSubcomponent rawHost; rw [hN]; rfl
      have hru : rawUser e u = .ok user := by unfold rawUser; rw [hN]; rfl
      have hrp : rawPassword e u = .ok pw := by unfold rawPassword; rw [hN]; rfl
      have hsp : strPort u.scheme (some p) = none := by
        show (if some p = defaultPort u.scheme then none else some p) = none
        rw [if_pos hd]
      unfold str
      rw [hep]
      simp only [bind, Except.bind]
      rw [if_pos hd]
      simp only [hhs, hru, hrp, pure, Except.pure, bind, Except.bind]
      rw [hsp, makeNetloc_qf (q e Gen.QUOTER) id]
      rfl
    · rw [C07_str_recompose e u (some p) hep (by intro p' hp'; cases hp'; exact hd)]
      simp only [strPort, hd, if_false, C07_strPath, hnet]

theorem scheme_ok_of {scheme : Str} (hs : SchemeOK' scheme) :
    scheme = [] ∨ (scheme.all (fun c => mem c Gen.schemeChars) = true ∧ lower scheme = scheme) := by
  rcases hs with h | ⟨_, h⟩
  · exact Or.inl h
  · right
    refine ⟨?_, lower_of_no_upper (fun c hc => (h c hc).2)⟩
    rw [List.all_eq_true]
    exact fun c hc => (h c hc).1

/-- the parts `str` writes satisfy the side condition of `C07_split_unsplit` -/
theorem partsOK_build (b : Backend) (scheme N P Q F : Str) (hs : SchemeOK' scheme)
    (hN : ∀ c ∈ N, 33 ≤ c ∧ c < 128 ∧ Rfc.isDelim3 c = false) (hbr : checkBrackets N = .ok ())
    (hP : Canon (Gen.PATH_REQUOTER.tab b) P) (hQ : Canon (Gen.QUERY_REQUOTER.tab b) Q)
    (hF : Canon (Gen.FRAGMENT_REQUOTER.tab b) F)
    (hroot : N ≠ [] → RootedP P)
    (hauth : scheme ≠ [] → Gen.usesAuthority.contains scheme = true → RootedP P)
    (hfirst : scheme = [] → N = [] → 58 ∈ P →
      (P.takeWhile (· ≠ 58) = [] ∨ (P.takeWhile (· ≠ 58)).all (fun c => mem c Gen.schemeChars) = false)) :
    PartsOK { scheme := scheme, netloc := N, path := P, query := Q, fragment := F } := by
  have hp := canon_path_chars hP
  have hq := canon_query_chars hQ
  have hf := canon_fragment_chars hF
  refine ⟨scheme_ok_of hs, ?_, hbr, fun c hc => (hp c hc).2, fun hm => (hq 35 hm).2 rfl, hroot, hauth, hfirst,
    ?_, ?_, ?_, ?_, ?_⟩
  · intro c hc
    obtain ⟨h1, h2, h3⟩ := hN c hc
    simp only [Rfc.isDelim3, Bool.or_eq_false_iff, decide_eq_false_iff_not] at h3
    exact ⟨h3.1.1, h3.1.2, h3.2, h2⟩
  · intro _ _ c hc
    have : c ∈ P := by
      cases P with
      | nil => simp at hc
      | cons a t => simp at hc; subst hc; simp
    have := (hp c this).1
    omega
  · intro c hc; have := (hN c hc).1; omega
  · intro c hc; have := (hp c hc).1; omega
  · intro c hc; have := (hq c hc).1; omega
  · intro c hc; have := hf c hc; omega

theorem encPath_fixed' (e : Env) (N P : Str) (hP : Canon (Gen.PATH_REQUOTER.tab e.b) P)
    (hnd : N ≠ [] → NoDotSegments P) : encPath e N P = P := by
  unfold encPath
  split
  · rfl
  · have hq : q e Gen.PATH_REQUOTER P = P := run_fixed e.b _ pr_mem rfl hP
    simp only [hq]
    split
    · rename_i h
      simp only [Bool.and_eq_true, Bool.not_eq_true', List.isEmpty_eq_false_iff] at h
      exact normalizePath_noDotSegs (hnd h.1)
    · rfl

/-- parsing what `unsplit_result` writes from canonical parts whose authority the authority block maps
    to itself gives exactly those parts back -/
theorem encode_unsplit (e : Env) (scheme N P Q F : Str) (pre' : Option NetPre)
    (hok : PartsOK { scheme := scheme, netloc := N, path := P, query := Q, fragment := F })
    (hnb : netBlock e scheme N = .ok (N, pre'))
    (hP : Canon (Gen.PATH_REQUOTER.tab e.b) P) (hQ : Canon (Gen.QUERY_REQUOTER.tab e.b) Q)
    (hF : Canon (Gen.FRAGMENT_REQUOTER.tab e.b) F) (hnd : N ≠ [] → NoDotSegments P) :
    encodeUrl e (unsplitResult scheme N P Q F) =
      .ok { scheme := scheme, netloc := N, path := P, query := Q, fragment := F, pre := pre' } := by
  have hsplit := C07_split_unsplit e.o _ hok
  rw [encodeUrl_of e _ _ N pre' hsplit hnb]
  simp only [finishUrl, encQuery_fixed e hQ, encFragment_fixed e hF, encPath_fixed' e N P hP hnd]

theorem strPath_idem (u u' : Url) (hp : u'.path = C07_strPath u) (hn : u'.netloc.isEmpty = u.netloc.isEmpty)
    (hq : u'.query = u.query) (hf : u'.fragment = u.fragment) : C07_strPath u' = C07_strPath u := by
  unfold C07_strPath at hp ⊢
  rw [hp, hn, hq, hf]
  cases h1 : u.netloc.isEmpty <;> cases h2 : u.query.isEmpty <;> cases h3 : u.fragment.isEmpty <;>
    cases h4 : u.path <;> simp

theorem strPath_canon (b : Backend) (u : Url) (hc : CanonUrl b u) :
    Canon (Gen.PATH_REQUOTER.tab b) (C07_strPath u) ∧ (u.netloc ≠ [] → NoDotSegments (C07_strPath u)) ∧
      (u.netloc ≠ [] → RootedP (C07_strPath u)) := by
  unfold C07_strPath
  split
  · exact ⟨canon_singleton (path_lit47 b), fun _ => by decide, fun _ => rootedP_cons []⟩
  · exact ⟨hc.path, hc.nodots, hc.rooted⟩

theorem strPath_of_no_netloc (u : Url) (hn : u.netloc = []) : C07_strPath u = u.path := by
  unfold C07_strPath
  simp [hn]

end ReachFix

/-- with an authority the path `str` writes is the `strPath` of C03.lean -/
theorem C03_strPath_eq (u : Url) (hn : u.netloc ≠ []) : C07_strPath u = strPath u := by
  unfold C07_strPath strPath strPathOf
  simp [hn]

/-- MAIN (Step 2).  A URL that satisfies the invariant, whose stored authority is one the library writes
    (`NetlocCanon`), whose scheme is RFC-valid (`SchemeOK'`), outside the two known exclusions
    (`C03Guards`), is a fixed point: `str` succeeds, parsing the string succeeds, the parsed URL renders
    to the same string, has the same scheme, query, fragment, the path as `str` wrote it, the same
    port / host / user / password, the same netloc unless an explicit default port was dropped — and it
    satisfies the invariant and `NetlocCanon` again.

    No TAB / CR / LF / leading-blank hypothesis is needed: canonical text contains none.  The clause
    "scheme empty ∧ netloc non-empty ∧ rootless path" (`C07_partsOK_rooted_counterexample`) is excluded by
    `CanonUrl.rooted`.

    CHANGED w.r.t. the draft: the path is `C07_strPath u`, not `strPath u` — the two agree under an
    authority (`C03_strPath_eq`); without one `str` inserts no "/" (`C03_strPath_no_authority_counterexample`). -/
theorem C03_fixed_point_of_canon (e : Env) (u : Url) (hc : CanonUrl e.b u) (hnet : NetlocCanon e u)
    (hs : SchemeOK' u.scheme) (hguards : C03Guards u) :
    ∃ s u', str e u = .ok s ∧ encodeUrl e s = .ok u' ∧ str e u' = .ok s ∧ u'.scheme = u.scheme ∧
      u'.path = C07_strPath u ∧ u'.query = u.query ∧ u'.fragment = u.fragment ∧
      ((∀ p, explicitPort e u = .ok (some p) → some p ≠ defaultPort u.scheme) → u'.netloc = u.netloc) ∧
      port e u' = port e u ∧ rawHost e u' = rawHost e u ∧ rawUser e u' = rawUser e u ∧
      rawPassword e u' = rawPassword e u ∧ CanonUrl e.b u' ∧ NetlocCanon e u' := by
  cases hnet with
  | empty hn hpre =>
    -- no authority: the parsed URL is `u` itself
    have hN := net_empty e u hn hpre
    have hep : explicitPort e u = .ok none := by unfold explicitPort; rw [hN]; rfl
    have hstr := C07_str_recompose e u none hep (by intro p hp; cases hp)
    have hpath : (if (u.path.isEmpty && !u.netloc.isEmpty && (!u.query.isEmpty || !u.fragment.isEmpty)) = true
        then [47] else u.path) = u.path := strPath_of_no_netloc u hn
    rw [hpath, hn] at hstr
    have hok := partsOK_build e.b u.scheme [] u.path u.query u.fragment hs (fun c hc => by simp at hc) rfl
      hc.path hc.query hc.fragment (fun h => absurd rfl h) (fun h1 h2 => hguards.authority_scheme h1 h2 hn)
      (fun h1 _ h3 => hguards.first_segment h1 hn h3)
    have henc := encode_unsplit e u.scheme [] u.path u.query u.fragment none hok (netBlock_nil e u.scheme)
      hc.path hc.query hc.fragment (fun h => absurd rfl h)
    have henc' : encodeUrl e (unsplitResult u.scheme [] u.path u.query u.fragment) = .ok u := by
      rw [henc]; cases u; simp_all
    exact ⟨_, u, hstr, henc', hstr, rfl, (strPath_of_no_netloc u hn).symm, rfl, rfl, fun _ => rfl, rfl, rfl, rfl, rfl,
      hc, NetlocCanon.empty hn hpre⟩
  | auth user pw host port hn hu hh hp hpre =>
    have hN := net_auth e u user pw host port hn hu hh hp hpre
    have hep : explicitPort e u = .ok port := by unfold explicitPort; rw [hN]; rfl
    have hstr := str_auth e u user pw host port hn hN
    have hne : u.netloc ≠ [] := by rw [hn]; exact NetlocLemmas.makeNetloc_ne_nil id user pw hh.ok.1 port
    have hne' : authText user pw host (strPort u.scheme port) ≠ [] :=
      NetlocLemmas.makeNetloc_ne_nil id user pw hh.ok.1 _
    obtain ⟨hPc, hPd, hPr⟩ := strPath_canon e.b u hc
    have hok := partsOK_build e.b u.scheme (authText user pw host (strPort u.scheme port)) (C07_strPath u)
      u.query u.fragment hs (authText_chars hu hh) (checkBrackets_authText _ hu hh) hPc hc.query hc.fragment
      (fun _ => hPr hne) (fun _ _ => hPr hne) (fun _ h2 => absurd h2 hne')
    have henc := encode_unsplit e u.scheme _ (C07_strPath u) u.query u.fragment _ hok
      (netBlock_authority e u.scheme hu hh (strPort_range u.scheme port hp)) hPc hc.query hc.fragment
      (fun _ => hPd hne)
    -- the parsed URL
    generalize hu' : Url.mk u.scheme (authText user pw host (strPort u.scheme port)) (C07_strPath u) u.query
      u.fragment (some (preOf user pw host (strPort u.scheme port))) = u' at henc
    have e1 : u'.scheme = u.scheme := by rw [← hu']
    have e2 : u'.netloc = authText user pw host (strPort u.scheme port) := by rw [← hu']
    have e3 : u'.path = C07_strPath u := by rw [← hu']
    have e4 : u'.query = u.query := by rw [← hu']
    have e5 : u'.fragment = u.fragment := by rw [← hu']
    have e6 : u'.pre = some (preOf user pw host (strPort u.scheme port)) := by rw [← hu']
    have hN' : net e u' = .ok (preOf user pw host (strPort u.scheme port)) := by unfold net; rw [e6]; rfl
    have hemp : u'.netloc.isEmpty = u.netloc.isEmpty := by
      rw [e2, isEmpty_false hne', isEmpty_false hne]
    have hstr' := str_auth e u' user pw host (strPort u.scheme port) e2 hN'
    rw [e1, strPort_idem, strPath_idem u u' e3 hemp e4 e5, e4, e5] at hstr'
    have hcanon' : CanonUrl e.b u' := by
      refine ⟨e3 ▸ hPc, e4 ▸ hc.query, e5 ▸ hc.fragment, fun _ => e3 ▸ hPd hne, fun _ => e3 ▸ hPr hne⟩
    refine ⟨_, u', hstr, henc, hstr', e1, e3, e4, e5, ?_, ?_, ?_, ?_, ?_, hcanon',
      NetlocCanon.auth user pw host _ e2 hu hh (strPort_range u.scheme port hp) (Or.inr e6)⟩
    · intro hnd
      rw [e2, hn]
      cases port with
      | none => rfl
      | some p => simp only [strPort, hnd p hep, if_false]
    · have hep' : explicitPort e u' = .ok (strPort u.scheme port) := by unfold explicitPort; rw [hN']; rfl
      unfold Yarl.port
      rw [hep, hep', e1]
      cases port with
      | none => rfl
      | some p =>
        by_cases hd : some p = defaultPort u.scheme
        · simp only [strPort, hd, if_true, bind, Except.bind, pure, Except.pure]
        · simp only [strPort, hd, if_false]
    · unfold rawHost; rw [hN, hN']; rfl
    · unfold rawUser; rw [hN, hN']; rfl
    · unfold rawPassword; rw [hN, hN']; rfl

/-- MAIN (combined): every URL reachable through the auto-encoding API whose stored authority is one the
    library writes, with an RFC-valid scheme and outside the two known exclusions, is a fixed point -/
theorem C03_reachable_fixed_point (e : Env) (u : Url) : ReachC e u → NetlocCanon e u → SchemeOK' u.scheme →
    C03Guards u →
    ∃ s u', str e u = .ok s ∧ encodeUrl e s = .ok u' ∧ str e u' = .ok s ∧ u'.scheme = u.scheme ∧
      u'.path = C07_strPath u ∧ u'.query = u.query ∧ u'.fragment = u.fragment ∧
      ((∀ p, explicitPort e u = .ok (some p) → some p ≠ defaultPort u.scheme) → u'.netloc = u.netloc) ∧
      port e u' = port e u ∧ rawHost e u' = rawHost e u ∧ rawUser e u' = rawUser e u ∧
      rawPassword e u' = rawPassword e u ∧ CanonUrl e.b u' ∧ NetlocCanon e u' :=
  fun hr hn hs hg => C03_fixed_point_of_canon e u (C03_reachable_canon e u hr) hn hs hg

/-! ### corollaries -/

/-- the requested form of the path clause, under an authority -/
theorem C03_fixed_point_path_authority (e : Env) (u : Url) (hc : CanonUrl e.b u) (hnet : NetlocCanon e u)
    (hs : SchemeOK' u.scheme) (hguards : C03Guards u) (hne : u.netloc ≠ []) :
    ∃ s u', str e u = .ok s ∧ encodeUrl e s = .ok u' ∧ str e u' = .ok s ∧ u'.path = strPath u := by
  obtain ⟨s, u', h1, h2, h3, _, h5, _⟩ := C03_fixed_point_of_canon e u hc hnet hs hguards
  exact ⟨s, u', h1, h2, h3, by rw [h5, C03_strPath_eq u hne]⟩

/-- … and the stored path itself comes back unless it is empty in front of a query or fragment under an
    authority (`C03_empty_path_counterexample`) -/
theorem C03_fixed_point_same_path (e : Env) (u : Url) (hc : CanonUrl e.b u) (hnet : NetlocCanon e u)
    (hs : SchemeOK' u.scheme) (hguards : C03Guards u)
    (hpath : u.path ≠ [] ∨ u.netloc = [] ∨ (u.query = [] ∧ u.fragment = [])) :
    ∃ s u', str e u = .ok s ∧ encodeUrl e s = .ok u' ∧ str e u' = .ok s ∧ u'.path = u.path := by
  obtain ⟨s, u', h1, h2, h3, _, h5, _⟩ := C03_fixed_point_of_canon e u hc hnet hs hguards
  refine ⟨s, u', h1, h2, h3, ?_⟩
  rw [h5]
  unfold C07_strPath
  rcases hpath with h | h | ⟨hq, hf⟩
  · simp [h]
  · simp [h]
  · simp [hq, hf]

/-- the simple form of the first guard: no ':' in the first segment of a path written first -/
theorem C03_guards_of_no_colon (u : Url)
    (h1 : u.scheme = [] → u.netloc = [] → 58 ∉ u.path.takeWhile (· ≠ 47))
    (h2 : u.scheme ≠ [] → Gen.usesAuthority.contains u.scheme = true → u.netloc = [] →
      (u.path = [] ∨ u.path.head? = some 47)) : C03Guards u :=
  ⟨fun hs hn hm => C07_first_segment_suffices u.path (h1 hs hn) hm, h2⟩

/-- a URL with a scheme and an authority needs no guard -/
theorem C03_guards_of_authority (u : Url) (hs : u.scheme ≠ []) (hn : u.netloc ≠ []) : C03Guards u :=
  ⟨fun h _ _ => absurd h hs, fun _ _ h => absurd h hn⟩

/-! ### the hypotheses are necessary (true facts about the model, by computation) -/

namespace ReachFix

/-- `CanonUrl`, decided -/
def canonUrlB (b : Backend) (u : Url) : Bool :=
  isCanon (Gen.PATH_REQUOTER.tab b) u.path && isCanon (Gen.QUERY_REQUOTER.tab b) u.query &&
    isCanon (Gen.FRAGMENT_REQUOTER.tab b) u.fragment && decide (u.netloc ≠ [] → NoDotSegments u.path) &&
    decide (u.netloc ≠ [] → RootedP u.path)

theorem canonUrlB_sound {b : Backend} {u : Url} (h : canonUrlB b u = true) : CanonUrl b u := by
  unfold canonUrlB at h
  simp only [Bool.and_eq_true, decide_eq_true_eq] at h
  obtain ⟨⟨⟨⟨h1, h2⟩, h3⟩, h4⟩, h5⟩ := h
  exact ⟨isCanon_sound _ _ h1, isCanon_sound _ _ h2, isCanon_sound _ _ h3, h4, h5⟩

end ReachFix

/-- the guard `authority_scheme` is needed, also for reachable URLs: `build(scheme="file", path="a/b")`
    satisfies every other hypothesis, but its string "file:///a/b" parses to the path "/a/b" -/
theorem C03_guard_authority_scheme_needed (b : Backend) :
    let e : Env := ⟨b, Oracles.empty⟩
    let u : Url := fromParts "file".toStr [] "a/b".toStr [] []
    ReachC e u ∧ CanonUrl b u ∧ NetlocCanon e u ∧ SchemeOK' u.scheme ∧
      (u.scheme = [] → u.netloc = [] → 58 ∈ u.path → False) ∧ ¬ C03Guards u ∧
      str e u = .ok "file:///a/b".toStr ∧
      (encodeUrl e "file:///a/b".toStr).map (·.path) = .ok "/a/b".toStr ∧ C07_strPath u = "a/b".toStr := by
  refine ⟨?_, canonUrlB_sound (by cases b <;> decide +kernel), NetlocCanon.empty rfl rfl, by decide,
    (fun h => by cases h), by decide, by cases b <;> decide +kernel, by cases b <;> decide +kernel, by decide⟩
  exact ReachC.build { scheme := "file".toStr, path := "a/b".toStr } _ rfl
    ⟨by decide, by decide, by decide, trivial⟩ (by cases b <;> decide +kernel)

/-- the guard `first_segment` is needed, also for reachable URLs: `URL("a%3Ab")` stores the path "a:b"
    (':' is literal in paths) and satisfies every other hypothesis, but "a:b" parses as scheme "a" -/
theorem C03_guard_first_segment_needed (b : Backend) :
    let e : Env := ⟨b, Oracles.empty⟩
    let u : Url := fromParts [] [] "a:b".toStr [] []
    ReachC e u ∧ CanonUrl b u ∧ NetlocCanon e u ∧ SchemeOK' u.scheme ∧ ¬ C03Guards u ∧
      str e u = .ok "a:b".toStr ∧
      (encodeUrl e "a:b".toStr).map (fun w => (w.scheme, w.path)) = .ok ("a".toStr, "b".toStr) := by
  refine ⟨?_, canonUrlB_sound (by cases b <;> decide +kernel), NetlocCanon.empty rfl rfl, by decide,
    by decide, by cases b <;> decide +kernel, by cases b <;> decide +kernel⟩
  exact ReachC.ctor "a%3Ab".toStr _ (by decide) (by cases b <;> decide +kernel)

/-- the draft's path clause `u'.path = strPath u` fails without an authority: `URL("?q")` has the empty
    path, its string is "?q" (no "/" is inserted), the parsed path is empty — but `strPath u = "/"` -/
theorem C03_strPath_no_authority_counterexample (b : Backend) :
    let e : Env := ⟨b, Oracles.empty⟩
    let u : Url := fromParts [] [] [] "q".toStr []
    ReachC e u ∧ NetlocCanon e u ∧ SchemeOK' u.scheme ∧ C03Guards u ∧ str e u = .ok "?q".toStr ∧
      encodeUrl e "?q".toStr = .ok u ∧ strPath u = [47] ∧ C07_strPath u = [] := by
  refine ⟨?_, NetlocCanon.empty rfl rfl, by decide, by decide, by cases b <;> decide +kernel,
    by cases b <;> decide +kernel, by decide, by decide⟩
  exact ReachC.ctor "?q".toStr _ (by decide) (by cases b <;> decide +kernel)

/-- the cache-consistency clause of `NetlocCanon` is needed for arbitrary records (no API call produces
    such a record): the cache says "port 80" for a stored netloc "h", `str` trusts the cache -/
theorem C03_inconsistent_cache_counterexample (b : Backend) :
    let e : Env := ⟨b, Oracles.empty⟩
    let u : Url := { scheme := "http".toStr, netloc := "h".toStr, path := [47], query := [], fragment := [],
                     pre := some { rawHost := some "x".toStr, explicitPort := some 80, rawUser := none,
                                   rawPassword := none } }
    CanonUrl b u ∧ SchemeOK' u.scheme ∧ C03Guards u ∧ str e u = .ok "http://x/".toStr := by
  exact ⟨canonUrlB_sound (by cases b <;> decide +kernel), by decide, by decide, by cases b <;> decide +kernel⟩

/-! ### non-vacuity -/

namespace ReachFix

/-- constructor (upper-case scheme and host, explicit non-default port, dot segment), then `with_path`
    (space, a lower-case escape that is kept as text, a dot segment), `with_query`, `/` with two
    segments, `extend_query`, `with_fragment` -/
def chainOps : List UOp :=
  [.withPath "/p q/%7e/./x".toStr false false, .withQuery (.str "k=v w&a=%41".toStr),
   .child ["c d".toStr, "e".toStr], .extendQuery (.str "z=1 2".toStr), .withFragment (some "fr ag".toStr)]

def chainStart : Str := "HTTP://Example.COM:8080/a/./b?x=1#f".toStr

def chainEnd : Url :=
  fromParts "http".toStr "example.com:8080".toStr "/p%20q/%257e/x/c%20d/e".toStr "z=1+2".toStr "fr%20ag".toStr

theorem chain_args (b : Backend) : ∀ op ∈ chainOps, op.ArgsCanon b := by
  intro op hop
  simp only [chainOps, List.mem_cons, List.not_mem_nil, or_false] at hop
  rcases hop with rfl | rfl | rfl | rfl | rfl
  · show PyStr _; decide
  · show PyStr _; decide
  · intro p hp
    simp only [List.mem_cons, List.not_mem_nil, or_false] at hp
    rcases hp with rfl | rfl <;> decide
  · show PyStr _; decide
  · intro x hx; cases hx; decide

theorem chain_run (b : Backend) :
    (encodeUrl ⟨b, Oracles.empty⟩ chainStart >>= fun u => applyOps ⟨b, Oracles.empty⟩ u chainOps) = .ok chainEnd := by
  cases b <;> decide +kernel

theorem chain_reach (b : Backend) : ReachC ⟨b, Oracles.empty⟩ chainEnd := by
  have h := chain_run b
  obtain ⟨u, hu, hv⟩ := WfLemmas.bind_ok h
  exact C03_applyOps_reachC _ chainOps u chainEnd (ReachC.ctor chainStart u (by decide) hu) (chain_args b) hv

theorem chain_netloc (b : Backend) : NetlocCanon ⟨b, Oracles.empty⟩ chainEnd :=
  NetlocCanon.auth none none "example.com".toStr (some 8080) (by decide) (userInfoOK_none b)
    (hostFix_basic _ (by decide)) (fun p hp => by cases hp; decide) (Or.inl rfl)

end ReachFix

/-- the URL obtained by constructor + with_path + with_query + `/` + extend_query + with_fragment is
    reachable and satisfies every hypothesis of `C03_reachable_fixed_point` (both backends) -/
example (b : Backend) : ReachC ⟨b, Oracles.empty⟩ chainEnd ∧ NetlocCanon ⟨b, Oracles.empty⟩ chainEnd ∧
    SchemeOK' chainEnd.scheme ∧ C03Guards chainEnd :=
  ⟨chain_reach b, chain_netloc b, by decide, by decide⟩

/-- … so it is a fixed point; the string is the expected one -/
example (b : Backend) : ∃ u', str ⟨b, Oracles.empty⟩ chainEnd =
      .ok "http://example.com:8080/p%20q/%257e/x/c%20d/e?z=1+2#fr%20ag".toStr ∧
    encodeUrl ⟨b, Oracles.empty⟩ "http://example.com:8080/p%20q/%257e/x/c%20d/e?z=1+2#fr%20ag".toStr = .ok u' ∧
    str ⟨b, Oracles.empty⟩ u' = .ok "http://example.com:8080/p%20q/%257e/x/c%20d/e?z=1+2#fr%20ag".toStr ∧
    u'.netloc = chainEnd.netloc ∧ u'.path = chainEnd.path := by
  obtain ⟨s, u', h1, h2, h3, _, h5, _, _, h8, _⟩ :=
    C03_reachable_fixed_point _ chainEnd (chain_reach b) (chain_netloc b) (by decide) (by decide)
  have hs : str ⟨b, Oracles.empty⟩ chainEnd =
      .ok "http://example.com:8080/p%20q/%257e/x/c%20d/e?z=1+2#fr%20ag".toStr := by cases b <;> decide +kernel
  rw [hs] at h1
  cases h1
  have hep : explicitPort ⟨b, Oracles.empty⟩ chainEnd = .ok (some 8080) := by cases b <;> decide +kernel
  refine ⟨u', rfl, h2, h3, h8 ?_, by rw [h5]; decide⟩
  intro p hp
  rw [hep] at hp
  cases hp
  decide

/-- the default-port branch of `str` (the netloc is rebuilt without the port): hypotheses hold, the netloc
    of the parsed URL differs, port / host agree -/
example (b : Backend) :
    let u : Url := fromParts "https".toStr "u%40:p@example.org:443".toStr "/x".toStr [] []
    CanonUrl b u ∧ NetlocCanon ⟨b, Oracles.empty⟩ u ∧ SchemeOK' u.scheme ∧ C03Guards u ∧
      str ⟨b, Oracles.empty⟩ u = .ok "https://u%40:p@example.org/x".toStr :=
  ⟨canonUrlB_sound (by cases b <;> decide +kernel),
   NetlocCanon.auth (some "u%40".toStr) (some "p".toStr) "example.org".toStr (some 443) (by decide)
     ⟨fun s h => (by cases h; exact ⟨by decide, isCanon_sound _ _ (by cases b <;> decide +kernel)⟩),
      fun s h => (by cases h; exact isCanon_sound _ _ (by cases b <;> decide +kernel))⟩
     (hostFix_basic _ (by decide)) (fun p hp => by cases hp; decide) (Or.inl rfl),
   by decide, by decide, by cases b <;> decide +kernel⟩

/-- relative URLs (no scheme, no authority) and scheme-only URLs are covered -/
example (b : Backend) :
    let u : Url := fromParts [] [] "a_b:c/../d%20e".toStr "q=%26".toStr "f".toStr
    let v : Url := fromParts "mailto".toStr [] "x@y.z".toStr [] []
    CanonUrl b u ∧ NetlocCanon ⟨b, Oracles.empty⟩ u ∧ SchemeOK' u.scheme ∧ C03Guards u ∧
    CanonUrl b v ∧ NetlocCanon ⟨b, Oracles.empty⟩ v ∧ SchemeOK' v.scheme ∧ C03Guards v :=
  ⟨canonUrlB_sound (by cases b <;> decide +kernel), NetlocCanon.empty rfl rfl, by decide, by decide,
   canonUrlB_sound (by cases b <;> decide +kernel), NetlocCanon.empty rfl rfl, by decide, by decide⟩

/-! ## `NetlocCanon` along operation sequences

  `NetlocCanon` only has to be checked where an authority is first written: every operation keeps it
  (`with_host` under the side condition that `_encode_host` returns a host it maps to itself). -/

/-- side conditions on the arguments that reach the authority: the host given to `with_host` is encoded
    to a fixed point of `_encode_host` (`hostFix_basic`, `hostFix_ipv4`, `hostFix_ipv6`); a reference given to
    `join` carries an authority the library writes -/
def UOp.NetArgs (e : Env) : UOp → Prop
  | .withHost s => ∀ eh, encodeHost e.o s true = .ok eh → ∃ host, eh = bracket host ∧ HostFix e.o host
  | .joinRef ref => NetlocCanon e ref
  | _ => True

namespace ReachFix
open NetlocLemmas WfLemmas

/-- `v` has the netloc of `u` and an empty or the same netloc cache -/
def Keeps (u v : Url) : Prop := v.netloc = u.netloc ∧ (v.pre = none ∨ v.pre = u.pre)

theorem keeps_refl (u : Url) : Keeps u u := ⟨rfl, Or.inr rfl⟩
theorem keeps_fromParts (u : Url) (s p q f : Str) : Keeps u (fromParts s u.netloc p q f) := ⟨rfl, Or.inl rfl⟩

theorem netlocCanon_of_keeps {e : Env} {u v : Url} (h : NetlocCanon e u) (hk : Keeps u v) : NetlocCanon e v := by
  obtain ⟨hn, hp⟩ := hk
  cases h with
  | empty h1 h2 =>
    refine NetlocCanon.empty (hn.trans h1) ?_
    rcases hp with hp | hp
    · exact hp
    · exact hp.trans h2
  | auth user pw host port h1 h2 h3 h4 h5 =>
    refine NetlocCanon.auth user pw host port (hn.trans h1) h2 h3 h4 ?_
    rcases hp with hp | hp
    · exact Or.inl hp
    · rcases h5 with h5 | h5
      · exact Or.inl (hp.trans h5)
      · exact Or.inr (hp.trans h5)

theorem withRawName_keeps (u : Url) (nm : Str) (kq kf : Bool) (v : Url) (h : withRawName u nm kq kf = .ok v) :
    Keeps u v := by
  unfold withRawName at h
  obtain ⟨parts', _, h⟩ := bind_ok h
  cases h
  exact keeps_fromParts u _ _ _ _

/-- the operations that do not write the authority -/
theorem applyOp_keeps (e : Env) (u : Url) (op : UOp) (v : Url) (h : applyOp e u op = .ok v)
    (hop : match op with
      | .withUser _ | .withPassword _ | .withHost _ | .withPort _ _ | .origin | .relative | .joinRef _ => False
      | _ => True) : Keeps u v := by
  cases op with
  | withUser s => exact absurd hop id
  | withPassword s => exact absurd hop id
  | withHost s => exact absurd hop id
  | withPort p k => exact absurd hop id
  | origin => exact absurd hop id
  | relative => exact absurd hop id
  | joinRef ref => exact absurd hop id
  | withScheme s =>
    simp only [applyOp] at h
    unfold withScheme at h
    obtain ⟨l, _, h⟩ := bind_ok h
    split at h
    · cases h
    · cases h; exact keeps_fromParts u _ _ _ _
  | withPath s kq kf => cases h; exact keeps_fromParts u _ _ _ _
  | withQuery a =>
    simp only [applyOp] at h
    unfold withQuery at h
    obtain ⟨r, _, h⟩ := bind_ok h
    cases h; exact keeps_fromParts u _ _ _ _
  | extendQuery a =>
    simp only [applyOp] at h
    unfold extendQuery at h
    obtain ⟨r, _, h⟩ := bind_ok h
    cases r with
    | none => cases h; exact keeps_refl u
    | some nq =>
      simp only at h
      split at h
      · cases h; exact keeps_refl u
      · cases h; exact keeps_fromParts u _ _ _ _
  | updateQuery a =>
    simp only [applyOp] at h
    unfold updateQuery at h
    obtain ⟨qy, _, h⟩ := bind_ok h
    cases h; exact keeps_fromParts u _ _ _ _
  | withoutQueryParams ns =>
    simp only [applyOp] at h
    unfold withoutQueryParams at h
    simp only [pure, Except.pure] at h
    split at h
    · cases h; exact keeps_refl u
    · unfold withQuery at h
      obtain ⟨r, _, h⟩ := bind_ok h
      cases h; exact keeps_fromParts u _ _ _ _
  | withFragment f =>
    cases h
    unfold withFragment
    cases f with
    | none =>
      simp only
      split
      · exact keeps_refl u
      · exact keeps_fromParts u _ _ _ _
    | some s =>
      simp only
      split
      · exact keeps_refl u
      · exact keeps_fromParts u _ _ _ _
  | withName s kq kf =>
    simp only [applyOp] at h
    unfold withName at h
    split at h
    · cases h
    · simp only at h
      split at h
      · cases h
      · exact withRawName_keeps u _ _ _ v h
  | withSuffix s kq kf =>
    simp only [applyOp] at h
    unfold withSuffix at h
    split at h
    · cases h
    · obtain ⟨n, _, h⟩ := bind_ok h
      split at h
      · cases h
      · split at h
        · cases h
        · obtain ⟨old, _, h⟩ := bind_ok h
          simp only at h
          generalize (if old.isEmpty = true then n ++ q e Gen.PATH_QUOTER s
             else n.take (n.length - old.length) ++ q e Gen.PATH_QUOTER s) = n' at h
          split at h
          · cases h
          · exact withRawName_keeps u _ _ _ v h
  | child paths =>
    simp only [applyOp] at h
    rw [PathAlg.makeChild_eq] at h
    obtain ⟨r, _, h⟩ := map_ok h
    subst h
    unfold PathAlg.childOf
    simp only
    split
    · exact keeps_fromParts u _ _ _ _
    · exact keeps_fromParts u _ _ _ _
  | parent =>
    cases h
    unfold parent
    split
    · split
      · exact keeps_fromParts u _ _ _ _
      · exact keeps_refl u
    · exact keeps_fromParts u _ _ _ _
  | copy => cases h; exact ⟨rfl, Or.inl rfl⟩

/-- the accessors of a URL whose stored authority is `authText user pw host port` -/
theorem accessors_auth (e : Env) (u : Url) (user pw : Option Str) (host : Str) (port : Option Nat)
    (hN : net e u = .ok (preOf user pw host port)) :
    hostSubcomponent e u = .ok (some (bracket host)) ∧ rawUser e u = .ok user ∧ rawPassword e u = .ok pw ∧
      explicitPort e u = .ok port := by
  refine ⟨?_, ?_, ?_, ?_⟩
  · unfold hostSubcomponent rawHost; rw [hN]; rfl
  · unfold rawUser; rw [hN]; rfl
  · unfold rawPassword; rw [hN]; rfl
  · unfold explicitPort; rw [hN]; rfl

theorem authText_some_nil (pw : Option Str) (host : Str) (port : Option Nat) :
    authText (some []) pw host port = authText none pw host port := by
  unfold authText
  rw [makeNetloc_eq, makeNetloc_eq]
  cases pw <;> simp

theorem netlocCanon_authText (e : Env) (s p q f : Str) (user pw : Option Str) (host : Str) (port : Option Nat)
    (hu : ∀ x, user = some x → Canon (Gen.REQUOTER.tab e.b) x) (hw : ∀ x, pw = some x → Canon (Gen.REQUOTER.tab e.b) x)
    (hh : HostFix e.o host) (hp : ∀ x, port = some x → x ≤ 65535) :
    NetlocCanon e (fromParts s (makeNetloc (Yarl.q e Gen.QUOTER) user pw (some (bracket host)) port false) p q f) := by
  rw [makeNetloc_qf (Yarl.q e Gen.QUOTER) id]
  cases user with
  | none =>
    exact NetlocCanon.auth none pw host port rfl ⟨fun s h => (by cases h), hw⟩ hh hp (Or.inl rfl)
  | some x =>
    by_cases hx : x = []
    · subst hx
      exact NetlocCanon.auth none pw host port (authText_some_nil pw host port) ⟨fun s h => (by cases h), hw⟩ hh hp
        (Or.inl rfl)
    · exact NetlocCanon.auth (some x) pw host port rfl
        ⟨fun s h => (by cases h; exact ⟨hx, hu x rfl⟩), hw⟩ hh hp (Or.inl rfl)

theorem q_quoter_canon (e : Env) (s : Str) (hs : PyStr s) : Canon (Gen.REQUOTER.tab e.b) (Yarl.q e Gen.QUOTER s) :=
  (C04_partner_canon e.b s hs).1

theorem join_netlocCanon (e : Env) (base ref : Url) (hb : NetlocCanon e base) (hr : NetlocCanon e ref) :
    NetlocCanon e (join e base ref) := by
  unfold join
  simp only
  generalize (if (!ref.scheme.isEmpty) = true then ref.scheme else base.scheme) = scheme
  split
  · exact hr
  · split
    · exact netlocCanon_of_keeps hr (keeps_fromParts ref _ _ _ _)
    · exact netlocCanon_of_keeps hb (keeps_fromParts base _ _ _ _)

end ReachFix

/-- every operation keeps `NetlocCanon` -/
theorem C03_applyOp_netlocCanon (e : Env) (u : Url) (hn : NetlocCanon e u) (op : UOp) (ha : op.ArgsPy e.b)
    (hx : op.NetArgs e) (v : Url) : applyOp e u op = .ok v → NetlocCanon e v := by
  intro h
  -- the authority pieces, when there is an authority
  have hauth : u.netloc ≠ [] → ∃ user pw host port, UserInfoOK e.b user pw ∧ HostFix e.o host ∧
      (∀ p, port = some p → p ≤ 65535) ∧ net e u = .ok (preOf user pw host port) := by
    intro hne
    cases hn with
    | empty h1 _ => exact absurd h1 hne
    | auth user pw host port h1 h2 h3 h4 h5 =>
      exact ⟨user, pw, host, port, h2, h3, h4, net_auth e u user pw host port h1 h2 h3 h4 h5⟩
  cases op with
  | withScheme s => exact netlocCanon_of_keeps hn (applyOp_keeps e u _ v h trivial)
  | withPath s kq kf => exact netlocCanon_of_keeps hn (applyOp_keeps e u _ v h trivial)
  | withQuery a => exact netlocCanon_of_keeps hn (applyOp_keeps e u _ v h trivial)
  | extendQuery a => exact netlocCanon_of_keeps hn (applyOp_keeps e u _ v h trivial)
  | updateQuery a => exact netlocCanon_of_keeps hn (applyOp_keeps e u _ v h trivial)
  | withoutQueryParams ns => exact netlocCanon_of_keeps hn (applyOp_keeps e u _ v h trivial)
  | withFragment f => exact netlocCanon_of_keeps hn (applyOp_keeps e u _ v h trivial)
  | withName s kq kf => exact netlocCanon_of_keeps hn (applyOp_keeps e u _ v h trivial)
  | withSuffix s kq kf => exact netlocCanon_of_keeps hn (applyOp_keeps e u _ v h trivial)
  | child paths => exact netlocCanon_of_keeps hn (applyOp_keeps e u _ v h trivial)
  | parent => exact netlocCanon_of_keeps hn (applyOp_keeps e u _ v h trivial)
  | copy => exact netlocCanon_of_keeps hn (applyOp_keeps e u _ v h trivial)
  | relative =>
    simp only [applyOp] at h
    unfold relative at h
    split at h
    · cases h
    · cases h; exact NetlocCanon.empty rfl rfl
  | joinRef ref => cases h; exact join_netlocCanon e u ref hn hx
  | origin =>
    simp only [applyOp] at h
    unfold origin at h
    split at h
    · cases h
    · rename_i hne
      split at h
      · cases h
      · split at h
        · obtain ⟨hh, hhs, h⟩ := WfLemmas.bind_ok h
          obtain ⟨p, hp, h⟩ := WfLemmas.bind_ok h
          cases h
          obtain ⟨user, pw, host, port, _, h3, h4, hN⟩ := hauth (ne_nil_of_isEmpty_ne hne)
          obtain ⟨a1, _, _, a4⟩ := accessors_auth e u user pw host port hN
          rw [a1] at hhs; cases hhs
          rw [a4] at hp; cases hp
          exact netlocCanon_authText e _ _ _ _ none none _ _ (fun x hx => by cases hx)
            (fun x hx => by cases hx) h3 h4
        · split at h
          · cases h; exact hn
          · cases h; exact netlocCanon_of_keeps hn (keeps_fromParts u _ _ _ _)
  | withPort p k =>
    simp only [applyOp] at h
    unfold withPort at h
    obtain ⟨_, h⟩ := WfLemmas.ite_err_ok h
    obtain ⟨hrange, h⟩ := WfLemmas.ite_err_ok h
    obtain ⟨hne, h⟩ := WfLemmas.ite_err_ok h
    obtain ⟨h1, hhs, h⟩ := WfLemmas.bind_ok h
    obtain ⟨ru, hru, h⟩ := WfLemmas.bind_ok h
    obtain ⟨rp, hrp, h⟩ := WfLemmas.bind_ok h
    cases h
    obtain ⟨user, pw, host, port, h2, h3, _, hN⟩ := hauth (ne_nil_of_isEmpty_ne hne)
    obtain ⟨a1, a2, a3, _⟩ := accessors_auth e u user pw host port hN
    rw [a1] at hhs; cases hhs
    rw [a2] at hru; cases hru
    rw [a3] at hrp; cases hrp
    refine netlocCanon_authText e _ _ _ _ _ _ _ _ (fun x hx => (h2.user x hx).2) h2.pw h3 ?_
    intro x hx
    cases p with
    | none => cases hx
    | some pi =>
      simp only [Bool.not_eq_true', decide_eq_false_iff_not, Decidable.not_not, Option.map_some,
        Option.some.injEq] at hrange hx
      omega
  | withHost s =>
    simp only [applyOp] at h
    unfold withHost at h
    split at h
    · cases h
    · rename_i hne
      split at h
      · cases h
      · obtain ⟨eh, heh, h⟩ := WfLemmas.bind_ok h
        obtain ⟨p, hp, h⟩ := WfLemmas.bind_ok h
        obtain ⟨ru, hru, h⟩ := WfLemmas.bind_ok h
        obtain ⟨rp, hrp, h⟩ := WfLemmas.bind_ok h
        cases h
        obtain ⟨user, pw, host, port, h2, _, h4, hN⟩ := hauth (ne_nil_of_isEmpty_ne hne)
        obtain ⟨_, a2, a3, a4⟩ := accessors_auth e u user pw host port hN
        rw [a4] at hp; cases hp
        rw [a2] at hru; cases hru
        rw [a3] at hrp; cases hrp
        obtain ⟨host', rfl, hh'⟩ := hx eh heh
        exact netlocCanon_authText e _ _ _ _ _ _ host' _ (fun x hx => (h2.user x hx).2) h2.pw hh' h4
  | withUser s =>
    simp only [applyOp] at h
    unfold withUser at h
    obtain ⟨⟨usr', pw'⟩, hup, h⟩ := WfLemmas.bind_ok h
    simp only at h
    split at h
    · cases h
    · rename_i hne
      obtain ⟨h1, hhs, h⟩ := WfLemmas.bind_ok h
      obtain ⟨p, hp, h⟩ := WfLemmas.bind_ok h
      cases h
      obtain ⟨user, pw, host, port, h2, h3, h4, hN⟩ := hauth (ne_nil_of_isEmpty_ne hne)
      obtain ⟨a1, _, a3, a4⟩ := accessors_auth e u user pw host port hN
      rw [a1] at hhs; cases hhs
      rw [a4] at hp; cases hp
      cases s with
      | none =>
        cases hup
        exact netlocCanon_authText e _ _ _ _ none none _ _ (fun x hx => by cases hx)
          (fun x hx => by cases hx) h3 h4
      | some x =>
        simp only at hup
        obtain ⟨rp, hrp, hup⟩ := WfLemmas.bind_ok hup
        cases hup
        rw [a3] at hrp; cases hrp
        exact netlocCanon_authText e _ _ _ _ (some (Yarl.q e Gen.QUOTER x)) _ _ _
          (fun y hy => by cases hy; exact q_quoter_canon e x (ha x rfl)) h2.pw h3 h4
  | withPassword s =>
    simp only [applyOp] at h
    unfold withPassword at h
    simp only at h
    split at h
    · cases h
    · rename_i hne
      obtain ⟨h1, hhs, h⟩ := WfLemmas.bind_ok h
      obtain ⟨p, hp, h⟩ := WfLemmas.bind_ok h
      obtain ⟨ru, hru, h⟩ := WfLemmas.bind_ok h
      cases h
      obtain ⟨user, pw, host, port, h2, h3, h4, hN⟩ := hauth (ne_nil_of_isEmpty_ne hne)
      obtain ⟨a1, a2, _, a4⟩ := accessors_auth e u user pw host port hN
      rw [a1] at hhs; cases hhs
      rw [a4] at hp; cases hp
      rw [a2] at hru; cases hru
      refine netlocCanon_authText e _ _ _ _ _ (s.map (Yarl.q e Gen.QUOTER)) _ _ (fun x hx => (h2.user x hx).2) ?_ h3 h4
      intro y hy
      cases s with
      | none => cases hy
      | some x =>
        simp only [Option.map_some, Option.some.injEq] at hy
        subst hy
        exact q_quoter_canon e x (ha x rfl)

/-- `join` of two URLs with library-written authorities -/
theorem C03_join_netlocCanon (e : Env) (base ref : Url) (hb : NetlocCanon e base) (hr : NetlocCanon e ref) :
    NetlocCanon e (join e base ref) := join_netlocCanon e base ref hb hr

/-- a sequence of operations keeps `NetlocCanon` -/
theorem C03_applyOps_netlocCanon (e : Env) (ops : List UOp) : ∀ (u v : Url), NetlocCanon e u →
    (∀ op ∈ ops, op.ArgsPy e.b ∧ op.NetArgs e) → applyOps e u ops = .ok v → NetlocCanon e v := by
  induction ops with
  | nil =>
    intro u v hu _ h
    simp only [applyOps, List.foldlM_nil, pure, Except.pure] at h
    cases h; exact hu
  | cons op rest ih =>
    intro u v hu ha h
    simp only [applyOps, List.foldlM_cons] at h
    obtain ⟨w, hw, h⟩ := WfLemmas.bind_ok h
    exact ih w v (C03_applyOp_netlocCanon e u hu op (ha op (by simp)).1 (ha op (by simp)).2 w hw)
      (fun o ho => ha o (by simp [ho])) h

/-- END TO END: the constructor followed by ANY finite sequence of auto-encoding operations.  If the
    constructor's result carries an authority the library writes (`NetlocCanon`, checked once), the
    arguments are Python strings, `join` references satisfy the invariants and `with_host` arguments
    encode to fixed points of `_encode_host`, then the final URL — provided its scheme is RFC-valid and it
    is outside the two known exclusions — is a fixed point of `str` ∘ `encode_url` -/
theorem C03_op_sequence_fixed_point (e : Env) (s : Str) (ops : List UOp) (u v : Url) :
    PyStr s → encodeUrl e s = .ok u → NetlocCanon e u →
    (∀ op ∈ ops, op.ArgsCanon e.b ∧ op.NetArgs e) → applyOps e u ops = .ok v →
    SchemeOK' v.scheme → C03Guards v →
    ∃ t v', str e v = .ok t ∧ encodeUrl e t = .ok v' ∧ str e v' = .ok t ∧ v'.scheme = v.scheme ∧
      v'.path = C07_strPath v ∧ v'.query = v.query ∧ v'.fragment = v.fragment ∧
      ((∀ p, explicitPort e v = .ok (some p) → some p ≠ defaultPort v.scheme) → v'.netloc = v.netloc) ∧
      port e v' = port e v ∧ rawHost e v' = rawHost e v ∧ rawUser e v' = rawUser e v ∧
      rawPassword e v' = rawPassword e v ∧ CanonUrl e.b v' ∧ NetlocCanon e v' := by
  intro hs hu hn ha hv hsch hg
  have hr := C03_applyOps_reachC e ops u v (ReachC.ctor s u hs hu) (fun op hop => (ha op hop).1) hv
  have hnv := C03_applyOps_netlocCanon e ops u v hn (fun op hop => ⟨(ha op hop).1.toPy, (ha op hop).2⟩) hv
  exact C03_reachable_fixed_point e v hr hnv hsch hg

namespace ReachFix

/-- a chain that also rewrites the authority: user with a space, password with ':', a new host in upper case,
    a new port, then path / query / fragment operations -/
def netOps : List UOp :=
  [.withUser (some "us er".toStr), .withPassword (some "p:w".toStr), .withHost "Example.ORG".toStr,
   .withPort (some 8443) 0, .withPath "/p q".toStr false false, .extendQuery (.str "z=1 2".toStr),
   .child ["c".toStr], .withFragment (some "f".toStr)]

theorem netOps_args (b : Backend) : ∀ op ∈ netOps, op.ArgsCanon b ∧ op.NetArgs ⟨b, Oracles.empty⟩ := by
  intro op hop
  simp only [netOps, List.mem_cons, List.not_mem_nil, or_false] at hop
  rcases hop with rfl | rfl | rfl | rfl | rfl | rfl | rfl | rfl
  · exact ⟨by intro x hx; cases hx; decide, trivial⟩
  · exact ⟨by intro x hx; cases hx; decide, trivial⟩
  · refine ⟨by show PyStr _; decide, ?_⟩
    intro eh heh
    have : encodeHost Oracles.empty "Example.ORG".toStr true = .ok "example.org".toStr := by decide +kernel
    rw [this] at heh
    cases heh
    exact ⟨"example.org".toStr, by decide, hostFix_basic _ (by decide)⟩
  · exact ⟨trivial, trivial⟩
  · exact ⟨by show PyStr _; decide, trivial⟩
  · exact ⟨by show PyStr _; decide, trivial⟩
  · refine ⟨?_, trivial⟩
    intro p hp
    simp only [List.mem_cons, List.not_mem_nil, or_false] at hp
    subst hp; decide
  · exact ⟨by intro x hx; cases hx; decide, trivial⟩

theorem netOps_run (b : Backend) :
    (applyOps ⟨b, Oracles.empty⟩ (urlOf "http".toStr "h".toStr [47] [] [] (preHost "h".toStr)) netOps).map
      (fun v => (v.scheme, v.netloc, v.path, v.query, v.fragment)) =
    .ok ("http".toStr, "us%20er:p%3Aw@example.org:8443".toStr, "/p%20q/c".toStr, [], "f".toStr) := by
  cases b <;> decide +kernel

end ReachFix

/-- `C03_op_sequence_fixed_point` applies to a chain that rewrites user, password, host and port -/
example (b : Backend) (v : Url)
    (hv : applyOps ⟨b, Oracles.empty⟩ (urlOf "http".toStr "h".toStr [47] [] [] (preHost "h".toStr)) netOps = .ok v) :
    ∃ t v', str ⟨b, Oracles.empty⟩ v = .ok t ∧ encodeUrl ⟨b, Oracles.empty⟩ t = .ok v' ∧
      str ⟨b, Oracles.empty⟩ v' = .ok t := by
  have hrun := netOps_run b
  rw [hv] at hrun
  simp only [Except.map, Except.ok.injEq, Prod.mk.injEq] at hrun
  obtain ⟨h1, h2, _⟩ := hrun
  obtain ⟨t, v', a, b', c, _⟩ := C03_op_sequence_fixed_point ⟨b, Oracles.empty⟩ "http://h/".toStr netOps _ v
    (by decide) (by cases b <;> decide +kernel)
    (NetlocCanon.auth none none "h".toStr none (by decide) (userInfoOK_none b) (hostFix_basic _ (by decide))
      (fun p hp => by cases hp) (Or.inr rfl))
    (netOps_args b) hv (by rw [h1]; decide)
    (C03_guards_of_authority v (by rw [h1]; decide) (by rw [h2]; decide))
  exact ⟨t, v', a, b', c⟩

end Yarl
