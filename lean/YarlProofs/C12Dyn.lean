/-
  C12Dyn.lean — closes the tail of C12 GAPS item 6 (non-str KEYS; values and arguments of the wrong type in every
  container) over the dynamic layer YarlModel/Dyn.lean.

  `dynQuery` transcribes the type dispatch of `get_str_query` / `query_var` / the two string builders of
  `yarl/_query.py` (and `dynUpdateQuery` that of `URL.update_query`, which goes through `MultiDict.update` first) and
  lands in the typed `QArg` / `QItem` / `QVal`, so the typed C12 theorems apply.  Proved here:
   * `C12_dyn_value_gate`: how `query_var` classifies an arbitrary object as a VALUE;
   * `C12_dyn_rejects`: a bool / None / NaN / inf / bytes / dict / URL / object value is rejected — TypeError, resp.
     ValueError for NaN / inf — by `with_query`, `extend_query` and `update_query`, whatever the container: dict,
     list or tuple of pairs, kwargs (exact kind for with_query / extend_query when the entries before it are fine, and
     for update_query when all other entries are fine; otherwise update_query raises the kind of one of the offenders);
   * `C12_dyn_argument_gate`: what the three methods do with a non-query ARGUMENT (bytes, int, float, bool, URL, object):
     TypeError if it is truthy — and, a quirk of the code, the same as `""` if it is falsy (`0`, `False`, `0.0`, `b""`,
     `URL("")`);
   * `C12_dyn_non_str_keys`: what happens with keys that are not `str`:
       - a str SUBCLASS key is the str;
       - with_query / extend_query: the key `None` is NOT rejected — it is rendered as the text "None"
         (`quoter(None)` is `None`, formatted by the f-string): `URL("http://h").with_query({None: "v"})` is
         `http://h/?None=v`; every other key type (int, bool, float, bytes, tuple, URL, …) is a TypeError raised when
         the comprehension reaches that pair — unless the pair's value is an EMPTY list/tuple, then the key is never
         looked at (`with_query({1: []})` succeeds);
       - update_query: EVERY non-str key, `None` included, is a TypeError ("MultiDict keys should be either str or
         subclasses of str"), raised by `MultiDict.update` before anything is rendered, whatever the values are;
         for a sequence the elements are validated one by one (not a sequence → TypeError, length ≠ 2 → ValueError,
         key → TypeError) and the first offending element decides.
     So `with_query({None: "v"})` succeeds where `update_query({None: "v"})` raises (`C12_dyn_none_key_differs`).
  ASSUMPTION: `mdPair` models the C implementation of multidict 6.2 (the one the harness runs); the pure-Python
  multidict raises TypeError instead of ValueError for an element of the wrong length (observed, not modelled).
  The probe rows at the end are outcomes of the real library (/tmp/q3_probe.py, both quoter backends).
-/
import YarlModel.Dyn
import YarlProofs.C12More
import YarlProofs.C19Dyn
namespace Yarl
open Yarl.Dyn QsLemmas MdLemmas QsMore

namespace Dyn

/-- a scalar VALUE `query_var` accepts: str (subclass), int, finite float -/
def goodVal : PyObj → Bool
  | .str _ => true
  | .strSub _ => true
  | .int _ => true
  | .float _ k => k = 0
  | _ => false

/-- the error of a scalar VALUE `query_var` rejects (`none`: accepted, or a list / tuple / SplitResult, which in a
    mapping is a sequence of values) -/
def badVal : PyObj → Option PyErr
  | .bool _ => some .typeError
  | .none => some .typeError
  | .bytes _ => some .typeError
  | .dict _ => some .typeError
  | .url _ => some .typeError
  | .other _ => some .typeError
  | .float _ k => if k = 0 then none else some .valueError
  | _ => none

/-- a dict / a list of 2-tuples / kwargs with str keys, from `(key, value)` rows -/
def asDict (kvs : List (Str × PyObj)) : PyObj := .dict (kvs.map (fun p => (.str p.1, p.2)))
def asPairs (kvs : List (Str × PyObj)) : PyObj := .list (kvs.map (fun p => .tuple [.str p.1, p.2]))
def asPairsT (kvs : List (Str × PyObj)) : PyObj := .tuple (kvs.map (fun p => .list [.str p.1, p.2]))
/-- … and the typed items they denote -/
def typedItems (kvs : List (Str × PyObj)) : List (Str × QItem) := kvs.map (fun p => (p.1, toQItem p.2))

theorem goodVal_item (o : PyObj) (h : goodVal o = true) :
    toQItem o = .one (toQVal o) ∧ ∃ s, queryVar (toQVal o) = .ok s := by
  cases o <;> simp_all [goodVal, toQItem, toQVal, queryVar]

theorem badVal_item (o : PyObj) (err : PyErr) (h : badVal o = some err) :
    toQItem o = .one (toQVal o) ∧ queryVar (toQVal o) = .error err := by
  cases o <;> simp_all [badVal, toQItem, toQVal, queryVar]

theorem goodVal_slot (o : PyObj) (h : goodVal o = true) : slotErr (toQItem o) = none := by
  obtain ⟨h1, s, h2⟩ := goodVal_item o h
  simp [h1, slotErr, h2]

theorem badVal_slot (o : PyObj) (err : PyErr) (h : badVal o = some err) : slotErr (toQItem o) = some err := by
  obtain ⟨h1, h2⟩ := badVal_item o err h
  simp [h1, slotErr, h2]

theorem mem_typedItems {kvs : List (Str × PyObj)} {p : Str × QItem} (h : p ∈ typedItems kvs) :
    ∃ q ∈ kvs, p = (q.1, toQItem q.2) := by
  simp only [typedItems, List.mem_map] at h
  obtain ⟨q, hq, rfl⟩ := h
  exact ⟨q, hq, rfl⟩

theorem typedItems_ne_nil {kvs : List (Str × PyObj)} (h : kvs ≠ []) : (typedItems kvs).isEmpty = false := by
  cases kvs <;> simp_all [typedItems]

/-! ### bridges: the three containers denote the same typed argument -/

theorem mkPair_str (k : Str) (v : PyObj) : mkPair (.str k) v = (k, toQItem v) := rfl
theorem pairOf_tuple (k : Str) (v : PyObj) : pairOf (.tuple [.str k, v]) = (k, toQItem v) := rfl
theorem pairOf_list (k : Str) (v : PyObj) : pairOf (.list [.str k, v]) = (k, toQItem v) := rfl

theorem dynQuery_asDict (kvs : List (Str × PyObj)) (h : kvs ≠ []) : dynQuery (asDict kvs) = .mapping (typedItems kvs) := by
  cases kvs with
  | nil => exact absurd rfl h
  | cons p r => simp [dynQuery, asDict, truthy, typedItems, mkPair_str, Function.comp_def]

theorem dynQuery_asPairs (kvs : List (Str × PyObj)) (h : kvs ≠ []) : dynQuery (asPairs kvs) = .pairs (typedItems kvs) := by
  cases kvs with
  | nil => exact absurd rfl h
  | cons p r => simp [dynQuery, asPairs, truthy, typedItems, pairOf_tuple, Function.comp_def]

theorem dynQuery_asPairsT (kvs : List (Str × PyObj)) (h : kvs ≠ []) : dynQuery (asPairsT kvs) = .pairs (typedItems kvs) := by
  cases kvs with
  | nil => exact absurd rfl h
  | cons p r => simp [dynQuery, asPairsT, truthy, typedItems, pairOf_list, Function.comp_def]

theorem dynQueryKw_eq (kvs : List (Str × PyObj)) (h : kvs ≠ []) : dynQueryKw kvs = .mapping (typedItems kvs) := by
  cases kvs with
  | nil => exact absurd rfl h
  | cons p r => simp [dynQueryKw, typedItems]

theorem mapM_mdPair_tuples (kvs : List (Str × PyObj)) :
    (kvs.map (fun p => PyObj.tuple [.str p.1, p.2])).mapM mdPair = .ok (typedItems kvs) := by
  induction kvs with
  | nil => rfl
  | cons p r ih =>
    simp only [List.map_cons, List.mapM_cons, ih, typedItems]
    rfl

theorem mapM_mdPair_lists (kvs : List (Str × PyObj)) :
    (kvs.map (fun p => PyObj.list [.str p.1, p.2])).mapM mdPair = .ok (typedItems kvs) := by
  induction kvs with
  | nil => rfl
  | cons p r ih =>
    simp only [List.map_cons, List.mapM_cons, ih, typedItems]
    rfl

theorem dynUpdate_asDict (e : Env) (u : Url) (kvs : List (Str × PyObj)) (h : kvs ≠ []) :
    dynUpdateQuery e u (asDict kvs) = updateQuery e u (.mapping (typedItems kvs)) := by
  cases kvs with
  | nil => exact absurd rfl h
  | cons p r =>
    simp [dynUpdateQuery, asDict, truthy, typedItems, mkPair_str, Function.comp_def, strLike]

theorem dynUpdate_asPairs (e : Env) (u : Url) (kvs : List (Str × PyObj)) (h : kvs ≠ []) :
    dynUpdateQuery e u (asPairs kvs) = updateQuery e u (.pairs (typedItems kvs)) := by
  cases kvs with
  | nil => exact absurd rfl h
  | cons p r =>
    have := mapM_mdPair_tuples (p :: r)
    simp only [dynUpdateQuery, asPairs, truthy, List.map_cons, List.isEmpty_cons, Bool.not_false, Bool.not_true,
      Bool.false_eq_true, ↓reduceIte]
    simp only [List.map_cons] at this
    rw [this]
    rfl

theorem dynUpdate_asPairsT (e : Env) (u : Url) (kvs : List (Str × PyObj)) (h : kvs ≠ []) :
    dynUpdateQuery e u (asPairsT kvs) = updateQuery e u (.pairs (typedItems kvs)) := by
  cases kvs with
  | nil => exact absurd rfl h
  | cons p r =>
    have := mapM_mdPair_lists (p :: r)
    simp only [dynUpdateQuery, asPairsT, truthy, List.map_cons, List.isEmpty_cons, Bool.not_false, Bool.not_true,
      Bool.false_eq_true, ↓reduceIte]
    simp only [List.map_cons] at this
    rw [this]
    rfl

/-! ### the typed facts about `pre ++ (k, bad) :: post` -/

theorem flatVals_append (a b : List (Str × QItem)) : flatVals (a ++ b) = flatVals a ++ flatVals b := by
  simp [flatVals]

theorem firstErr_good (pre : List (Str × PyObj)) (h : ∀ p ∈ pre, goodVal p.2 = true) :
    firstErr (flatVals (typedItems pre)) = none := by
  rw [firstErr_none_iff]
  intro v hv
  simp only [flatVals, List.mem_flatMap] at hv
  obtain ⟨p, hp, hvp⟩ := hv
  obtain ⟨q, hq, rfl⟩ := mem_typedItems hp
  obtain ⟨h1, s, h2⟩ := goodVal_item q.2 (h q hq)
  simp only [h1, itemVals, List.mem_singleton] at hvp
  subst hvp
  exact ⟨s, h2⟩

theorem firstErr_bad (pre post : List (Str × PyObj)) (k : Str) (bad : PyObj) (err : PyErr)
    (hpre : ∀ p ∈ pre, goodVal p.2 = true) (hbad : badVal bad = some err) :
    firstErr (flatVals (typedItems (pre ++ (k, bad) :: post))) = some err := by
  obtain ⟨h1, h2⟩ := badVal_item bad err hbad
  have : typedItems (pre ++ (k, bad) :: post) = typedItems pre ++ (k, toQItem bad) :: typedItems post := by
    simp [typedItems]
  rw [this, flatVals_append, firstErr_append, firstErr_good pre hpre]
  simp [flatVals, h1, itemVals, firstErr, h2]

theorem pairsFirstErr_bad (pre post : List (Str × PyObj)) (k : Str) (bad : PyObj) (err : PyErr)
    (hpre : ∀ p ∈ pre, goodVal p.2 = true) (hbad : badVal bad = some err) :
    pairsFirstErr (typedItems (pre ++ (k, bad) :: post)) = some err := by
  have : typedItems (pre ++ (k, bad) :: post) = typedItems pre ++ (k, toQItem bad) :: typedItems post := by
    simp [typedItems]
  rw [this]
  refine pairsFirstErr_at _ _ _ _ _ (fun p hp => ?_) (badVal_slot bad err hbad)
  obtain ⟨q, hq, rfl⟩ := mem_typedItems hp
  exact goodVal_slot q.2 (hpre q hq)

theorem extend_of_with_error (e : Env) (u : Url) (a : QArg) (err : PyErr) (hw : withQuery e u a = .error err) :
    extendQuery e u a = .error err := by
  unfold withQuery at hw
  unfold extendQuery
  cases hg : getStrQuery e.b a with
  | error er => rw [hg] at hw; cases hw; rfl
  | ok x => rw [hg] at hw; cases hw

end Dyn

/-! ## values -/

/-- `query_var` on an arbitrary object used as a VALUE (after `toQVal`): accepted are str, str subclasses, int and
    finite floats; NaN / ±inf → ValueError; bool, None, bytes, list, tuple, dict, URL, SplitResult, any other object
    → TypeError.  (In a MAPPING a list / tuple / SplitResult value is first expanded into its elements — `toQItem` —
    and only a NESTED one reaches `query_var`.) -/
theorem C12_dyn_value_gate :
    (∀ s, queryVar (toQVal (.str s)) = .ok s) ∧ (∀ s, queryVar (toQVal (.strSub s)) = .ok s) ∧
    (∀ i, queryVar (toQVal (.int i)) = .ok (intToStr i)) ∧
    (∀ t, queryVar (toQVal (.float t 0)) = .ok t) ∧
    (∀ t k, k ≠ 0 → queryVar (toQVal (.float t k)) = .error .valueError) ∧
    (∀ b, queryVar (toQVal (.bool b)) = .error .typeError) ∧ queryVar (toQVal .none) = .error .typeError ∧
    (∀ b, queryVar (toQVal (.bytes b)) = .error .typeError) ∧ (∀ xs, queryVar (toQVal (.list xs)) = .error .typeError) ∧
    (∀ xs, queryVar (toQVal (.tuple xs)) = .error .typeError) ∧ (∀ d, queryVar (toQVal (.dict d)) = .error .typeError) ∧
    (∀ v, queryVar (toQVal (.url v)) = .error .typeError) ∧
    (∀ ps, queryVar (toQVal (.splitResult ps)) = .error .typeError) ∧
    (∀ t, queryVar (toQVal (.other t)) = .error .typeError) ∧
    -- the value slot of a mapping: a list / tuple / SplitResult is a sequence of values
    (∀ xs, toQItem (.list xs) = .many (xs.map toQVal) ∧ toQItem (.tuple xs) = .many (xs.map toQVal)) ∧
    (∀ ps, toQItem (.splitResult ps) = .many (ps.map .str)) :=
  ⟨fun _ => rfl, fun _ => rfl, fun _ => rfl, fun _ => rfl, fun _ k hk => by simp [toQVal, queryVar, hk],
   fun _ => rfl, rfl, fun _ => rfl, fun _ => rfl, fun _ => rfl, fun _ => rfl, fun _ => rfl, fun _ => rfl, fun _ => rfl,
   fun _ => ⟨rfl, rfl⟩, fun _ => rfl⟩

/-- "bool, None values, NaN/inf … and bytes are rejected", dynamically, in every container.
    `kvs = pre ++ (k, bad) :: post` with str keys; `bad` is a bool / None / bytes / dict / URL / object (`err` =
    TypeError) or a NaN / inf float (`err` = ValueError); the entries before it are fine.  Then, for the dict
    `{…}`, the list of 2-tuples `[(k, v), …]`, the tuple of 2-lists and the keyword form alike:
    `with_query` and `extend_query` raise exactly `err`; `update_query` raises TypeError or ValueError — exactly `err`
    when the entries after it are fine too. -/
theorem C12_dyn_rejects (e : Env) (u : Url) (pre post : List (Str × PyObj)) (k : Str) (bad : PyObj) (err : PyErr)
    (hpre : ∀ p ∈ pre, goodVal p.2 = true) (hbad : badVal bad = some err) :
    let kvs := pre ++ (k, bad) :: post
    (dynWithQuery e u (asDict kvs) = .error err ∧ dynExtendQuery e u (asDict kvs) = .error err ∧
     dynWithQuery e u (asPairs kvs) = .error err ∧ dynExtendQuery e u (asPairs kvs) = .error err ∧
     dynWithQuery e u (asPairsT kvs) = .error err ∧ dynExtendQuery e u (asPairsT kvs) = .error err ∧
     dynWithQueryKw e u kvs = .error err ∧ dynExtendQueryKw e u kvs = .error err) ∧
    (∀ c, c = asDict kvs ∨ c = asPairs kvs ∨ c = asPairsT kvs →
      ∃ err', dynUpdateQuery e u c = .error err' ∧ (err' = .typeError ∨ err' = .valueError)) ∧
    (∃ err', dynUpdateQueryKw e u kvs = .error err' ∧ (err' = .typeError ∨ err' = .valueError)) ∧
    ((∀ p ∈ post, goodVal p.2 = true) →
      dynUpdateQuery e u (asDict kvs) = .error err ∧ dynUpdateQuery e u (asPairs kvs) = .error err ∧
      dynUpdateQuery e u (asPairsT kvs) = .error err ∧ dynUpdateQueryKw e u kvs = .error err) := by
  intro kvs
  have hne : kvs ≠ [] := by simp [kvs]
  have hfe := firstErr_bad pre post k bad err hpre hbad
  have hpe := pairsFirstErr_bad pre post k bad err hpre hbad
  have hwm := C12_with_query_mapping_first_error e u (typedItems kvs) err hfe
  have hp := C12_pairs_bad_value_rejected e u (typedItems kvs) err hpe
  obtain ⟨em, hum, -, -⟩ := C12_update_query_mapping_bad_value_rejected e u (typedItems kvs) err hfe
  obtain ⟨ep, hup, -, -⟩ := hp.2.2
  refine ⟨⟨?_, ?_, ?_, ?_, ?_, ?_, ?_, ?_⟩, ?_, ?_, ?_⟩
  · simpa only [dynWithQuery, dynQuery_asDict kvs hne] using hwm
  · simpa only [dynExtendQuery, dynQuery_asDict kvs hne] using extend_of_with_error e u _ err hwm
  · simpa only [dynWithQuery, dynQuery_asPairs kvs hne] using hp.1
  · simpa only [dynExtendQuery, dynQuery_asPairs kvs hne] using hp.2.1
  · simpa only [dynWithQuery, dynQuery_asPairsT kvs hne] using hp.1
  · simpa only [dynExtendQuery, dynQuery_asPairsT kvs hne] using hp.2.1
  · simpa only [dynWithQueryKw, dynQueryKw_eq kvs hne] using hwm
  · simpa only [dynExtendQueryKw, dynQueryKw_eq kvs hne] using extend_of_with_error e u _ err hwm
  · rintro c (rfl | rfl | rfl)
    · exact ⟨em, by rw [dynUpdate_asDict e u kvs hne]; exact hum, C12_update_query_error_kinds e u _ em hum⟩
    · exact ⟨ep, by rw [dynUpdate_asPairs e u kvs hne]; exact hup, C12_update_query_error_kinds e u _ ep hup⟩
    · exact ⟨ep, by rw [dynUpdate_asPairsT e u kvs hne]; exact hup, C12_update_query_error_kinds e u _ ep hup⟩
  · exact ⟨em, by simpa only [dynUpdateQueryKw, dynQueryKw_eq kvs hne] using hum,
      C12_update_query_error_kinds e u _ em hum⟩
  · intro hpost
    -- the only offending value is `bad`
    have hmem : ∀ q ∈ kvs, goodVal q.2 = true ∨ q = (k, bad) := by
      intro q hq
      simp only [kvs, List.mem_append, List.mem_cons] at hq
      rcases hq with hq | rfl | hq
      · exact .inl (hpre q hq)
      · exact .inr rfl
      · exact .inl (hpost q hq)
    obtain ⟨hb1, hb2⟩ := badVal_item bad err hbad
    have hum' : updateQuery e u (.mapping (typedItems kvs)) = .error err := by
      refine C12_update_query_mapping_bad_kind e u _ err ?_ ?_
      · refine ⟨toQVal bad, ?_, hb2⟩
        simp only [flatVals, List.mem_flatMap]
        exact ⟨(k, toQItem bad), by simp [typedItems, kvs], by simp [hb1, itemVals]⟩
      · intro v hv e' he'
        simp only [flatVals, List.mem_flatMap] at hv
        obtain ⟨p, hp, hvp⟩ := hv
        obtain ⟨q, hq, rfl⟩ := mem_typedItems hp
        rcases hmem q hq with hg | rfl
        · obtain ⟨h1, s, h2⟩ := goodVal_item q.2 hg
          simp only [h1, itemVals, List.mem_singleton] at hvp
          subst hvp
          rw [h2] at he'; cases he'
        · simp only [hb1, itemVals, List.mem_singleton] at hvp
          subst hvp
          rw [hb2] at he'; cases he'; rfl
    have hup' : updateQuery e u (.pairs (typedItems kvs)) = .error err := by
      refine C12_update_query_pairs_bad_kind e u _ err ⟨(k, toQItem bad), by simp [typedItems, kvs],
        badVal_slot bad err hbad⟩ ?_
      intro p hp
      obtain ⟨q, hq, rfl⟩ := mem_typedItems hp
      rcases hmem q hq with hg | rfl
      · exact .inl (goodVal_slot q.2 hg)
      · exact .inr (badVal_slot bad err hbad)
    exact ⟨by rw [dynUpdate_asDict e u kvs hne]; exact hum', by rw [dynUpdate_asPairs e u kvs hne]; exact hup',
      by rw [dynUpdate_asPairsT e u kvs hne]; exact hup',
      by simpa only [dynUpdateQueryKw, dynQueryKw_eq kvs hne] using hum'⟩

/-- the kinds, spelled out: which `bad` values give which error -/
theorem C12_dyn_bad_value_kinds :
    (∀ b, badVal (.bool b) = some .typeError) ∧ badVal .none = some .typeError ∧
    (∀ b, badVal (.bytes b) = some .typeError) ∧ (∀ d, badVal (.dict d) = some .typeError) ∧
    (∀ v, badVal (.url v) = some .typeError) ∧ (∀ t, badVal (.other t) = some .typeError) ∧
    (∀ t k, k ≠ 0 → badVal (.float t k) = some .valueError) ∧
    (∀ s, goodVal (.str s) = true) ∧ (∀ s, goodVal (.strSub s) = true) ∧ (∀ i, goodVal (.int i) = true) ∧
    (∀ t, goodVal (.float t 0) = true) :=
  ⟨fun _ => rfl, rfl, fun _ => rfl, fun _ => rfl, fun _ => rfl, fun _ => rfl, fun _ k hk => by simp [badVal, hk],
   fun _ => rfl, fun _ => rfl, fun _ => rfl, fun _ => by simp [goodVal]⟩

/-- a bad value INSIDE a list / tuple value of a mapping (`{"k": [1, True]}`, `k=[None]`), and a nested list
    (`{"k": [[1]]}`): rejected with the kind of the first offending element; in a pair SEQUENCE a list / tuple /
    SplitResult value is itself a TypeError, whatever it contains -/
theorem C12_dyn_rejects_in_list_value (e : Env) (u : Url) (k : Str) (good : List PyObj) (bad : PyObj) (rest : List PyObj)
    (err : PyErr) (hgood : ∀ x ∈ good, ∃ s, queryVar (toQVal x) = .ok s) (hbad : queryVar (toQVal bad) = .error err) :
    dynWithQuery e u (.dict [(.str k, .list (good ++ bad :: rest))]) = .error err ∧
    dynExtendQuery e u (.dict [(.str k, .tuple (good ++ bad :: rest))]) = .error err ∧
    dynWithQueryKw e u [(k, .list (good ++ bad :: rest))] = .error err ∧
    (∀ xs, dynWithQuery e u (.list [.tuple [.str k, .list xs]]) = .error .typeError ∧
           dynExtendQuery e u (.list [.tuple [.str k, .tuple xs]]) = .error .typeError ∧
           dynUpdateQuery e u (.list [.tuple [.str k, .list xs]]) = .error .typeError) := by
  have hfe : firstErr ((good ++ bad :: rest).map toQVal) = some err := by
    rw [List.map_append, firstErr_append]
    have : firstErr (good.map toQVal) = none := by
      rw [firstErr_none_iff]
      intro v hv
      obtain ⟨x, hx, rfl⟩ := List.mem_map.1 hv
      exact hgood x hx
    simp [this, firstErr, hbad]
  have h1 : withQuery e u (.mapping [(k, .many ((good ++ bad :: rest).map toQVal))]) = .error err :=
    C12_with_query_mapping_first_error e u _ err (by simpa [flatVals, itemVals] using hfe)
  refine ⟨h1, extend_of_with_error e u _ err h1, h1, fun xs => ?_⟩
  have hp := C12_pairs_bad_value_rejected e u [(k, .many (xs.map toQVal))] .typeError rfl
  refine ⟨hp.1, hp.2.1, ?_⟩
  exact C12_update_query_pairs_bad_kind e u [(k, .many (xs.map toQVal))] .typeError
    ⟨(k, .many (xs.map toQVal)), by simp, rfl⟩
    (by intro p hp; simp at hp; subst hp; exact .inr rfl)

/-! ## the argument itself -/

/-- a non-query ARGUMENT: bytes, int, float, bool, URL, any other object.  Truthy → TypeError from all three methods;
    falsy (`b""`, `0`, `False`, `0.0`, `URL("")`) → treated like `""` (`if not query: return ""`): `with_query` clears
    the query, `extend_query` and `update_query` keep it -/
theorem C12_dyn_argument_gate (e : Env) (u : Url) (o : PyObj)
    (ho : (∃ b, o = .bytes b) ∨ (∃ i, o = .int i) ∨ (∃ t k, o = .float t k) ∨ (∃ b, o = .bool b) ∨ (∃ v, o = .url v) ∨
      (∃ t, o = .other t)) :
    (truthy o = true → dynWithQuery e u o = .error .typeError ∧ dynExtendQuery e u o = .error .typeError ∧
      dynUpdateQuery e u o = .error .typeError) ∧
    (truthy o = false → dynWithQuery e u o = .ok (fromParts u.scheme u.netloc u.path [] u.fragment) ∧
      dynExtendQuery e u o = .ok u ∧
      dynUpdateQuery e u o = .ok (fromParts u.scheme u.netloc u.path u.query u.fragment)) := by
  rcases ho with ⟨b, rfl⟩ | ⟨i, rfl⟩ | ⟨t, k, rfl⟩ | ⟨b, rfl⟩ | ⟨v, rfl⟩ | ⟨t, rfl⟩ <;>
    refine ⟨fun ht => ?_, fun hf => ?_⟩ <;>
    simp_all [dynWithQuery, dynExtendQuery, dynUpdateQuery, dynQuery, withQuery, extendQuery, updateQuery, getStrQuery,
      bind, Except.bind, pure, Except.pure]

/-- "… and bytes are rejected": a non-empty bytes argument, all three methods -/
theorem C12_dyn_bytes_argument (e : Env) (u : Url) (c : Nat) (b : List Nat) :
    dynWithQuery e u (.bytes (c :: b)) = .error .typeError ∧ dynExtendQuery e u (.bytes (c :: b)) = .error .typeError ∧
    dynUpdateQuery e u (.bytes (c :: b)) = .error .typeError :=
  (C12_dyn_argument_gate e u _ (.inl ⟨_, rfl⟩)).1 (by simp [truthy])

/-! ## keys that are not str -/

/-- with_query / extend_query, one pair at a time (`mkPair`): a str subclass key is the str; `None` is the TEXT
    "None"; any other key type poisons the pair — TypeError when a value of the pair is rendered, and nothing at all
    when the value is an empty list / tuple -/
theorem C12_dyn_key_of_pair (k v : PyObj) :
    (∀ s, k = .strSub s → mkPair k v = mkPair (.str s) v) ∧
    (k = .none → mkPair k v = mkPair (.str [78, 111, 110, 101]) v) ∧
    (keyStr k = none →
      (∀ x ∈ itemVals (mkPair k v).2, queryVar x = .error .typeError) ∧
      (itemVals (mkPair k v).2).length = (itemVals (toQItem v)).length ∧
      (slotErr (mkPair k v).2 = some .typeError)) ∧
    (keyStr k = none ↔ strLike k = none ∧ k ≠ .none) := by
  refine ⟨fun s hs => by subst hs; rfl, fun hk => by subst hk; rfl, fun hk => ?_, ?_⟩
  · simp only [mkPair, hk]
    cases toQItem v with
    | one x => simp [poisonItem, itemVals, queryVar, slotErr]
    | many xs => simp [poisonItem, itemVals, queryVar, slotErr]
  · cases k <;> simp [keyStr, strLike]

/-- update_query: ANY key that is not a str (subclass) — `None` included — is a TypeError, whatever the values and
    wherever it sits in the dict -/
theorem C12_dyn_update_query_non_str_key (e : Env) (u : Url) (items : List (PyObj × PyObj))
    (h : ∃ kv ∈ items, strLike kv.1 = none) : dynUpdateQuery e u (.dict items) = .error .typeError := by
  obtain ⟨kv, hkv, hk⟩ := h
  have hne : items ≠ [] := by intro h0; subst h0; simp at hkv
  have hall : items.all (fun kv => (strLike kv.1).isSome) = false := by
    rw [← Bool.not_eq_true, List.all_eq_true]
    intro hc
    have := hc kv hkv
    simp [hk] at this
  cases items with
  | nil => exact absurd rfl hne
  | cons p r =>
    simp only [dynUpdateQuery, truthy, List.isEmpty_cons, Bool.not_false, Bool.false_eq_true, ↓reduceIte, hall,
      Bool.not_true]

/-- … and a sequence handed to update_query is validated element by element by `MultiDict.update`, before anything is
    rendered: the FIRST offending element decides (not iterable → TypeError, length ≠ 2 → ValueError, key not a str →
    TypeError); bad VALUES are only met afterwards, when the updated multidict is rendered -/
theorem C12_dyn_update_query_sequence (e : Env) (u : Url) (xs : List PyObj) (hne : xs ≠ []) :
    (∀ err, xs.mapM mdPair = .error err → dynUpdateQuery e u (.list xs) = .error err ∧
      dynUpdateQuery e u (.tuple xs) = .error err ∧ (err = .typeError ∨ err = .valueError)) ∧
    (∀ items, xs.mapM mdPair = .ok items → dynUpdateQuery e u (.list xs) = updateQuery e u (.pairs items) ∧
      dynUpdateQuery e u (.tuple xs) = updateQuery e u (.pairs items)) := by
  cases xs with
  | nil => exact absurd rfl hne
  | cons x r =>
    refine ⟨fun err h => ?_, fun items h => ?_⟩
    · have hk : err = .typeError ∨ err = .valueError := by
        have : ∀ o, ErrLemmas.Errs ErrLemmas.TV (mdPair o) := fun o => mdPair_errs o
        exact (ErrLemmas.Errs.mapM this (x :: r)).elim h
      simp [dynUpdateQuery, truthy, h, Except.bind, hk]
    · simp [dynUpdateQuery, truthy, h, Except.bind]

/-- with_query / extend_query with a non-str, non-None key in a dict or a pair sequence: TypeError as soon as the
    entries before it are fine and the entry has something to render -/
theorem C12_dyn_non_str_keys (e : Env) (u : Url) (pre : List (Str × PyObj)) (k v : PyObj) (post : List (PyObj × PyObj))
    (hpre : ∀ p ∈ pre, goodVal p.2 = true) (hk : keyStr k = none) (hv : itemVals (toQItem v) ≠ []) :
    let d := PyObj.dict (pre.map (fun p => (.str p.1, p.2)) ++ (k, v) :: post)
    let l := PyObj.list (pre.map (fun p => .tuple [.str p.1, p.2]) ++ .tuple [k, v] :: post.map (fun p => .tuple [p.1, p.2]))
    dynWithQuery e u d = .error .typeError ∧ dynExtendQuery e u d = .error .typeError ∧
    dynWithQuery e u l = .error .typeError ∧ dynExtendQuery e u l = .error .typeError ∧
    dynUpdateQuery e u d = .error .typeError ∧ dynUpdateQuery e u l = .error .typeError := by
  intro d l
  obtain ⟨hall, hlen, hslot⟩ := (C12_dyn_key_of_pair k v).2.2.1 hk
  have hsl : strLike k = none := ((C12_dyn_key_of_pair k v).2.2.2.1 hk).1
  -- the typed items
  have hd : dynQuery d = .mapping (typedItems pre ++ mkPair k v :: post.map (fun kv => mkPair kv.1 kv.2)) := by
    cases pre <;> simp [d, dynQuery, truthy, typedItems, mkPair_str, Function.comp_def]
  have hl : dynQuery l = .pairs (typedItems pre ++ mkPair k v :: post.map (fun kv => mkPair kv.1 kv.2)) := by
    cases pre <;> simp [l, dynQuery, truthy, typedItems, pairOf, unpack2, iterElems, mkPair_str, Function.comp_def]
  have hfe : firstErr (flatVals (typedItems pre ++ mkPair k v :: post.map (fun kv => mkPair kv.1 kv.2))) =
      some .typeError := by
    rw [flatVals_append, firstErr_append, firstErr_good pre hpre]
    simp only [flatVals, List.flatMap_cons, Option.none_or]
    rw [firstErr_append]
    cases hiv : itemVals (mkPair k v).2 with
    | nil => rw [hiv] at hlen; exact absurd (List.length_eq_zero_iff.1 hlen.symm) hv
    | cons x xs =>
      have := hall x (by simp [hiv])
      simp [firstErr, this]
  have hpe : pairsFirstErr (typedItems pre ++ mkPair k v :: post.map (fun kv => mkPair kv.1 kv.2)) =
      some .typeError := by
    refine pairsFirstErr_at _ _ (mkPair k v).1 (mkPair k v).2 _ (fun p hp => ?_) hslot
    obtain ⟨q, hq, rfl⟩ := mem_typedItems hp
    exact goodVal_slot q.2 (hpre q hq)
  have hwm := C12_with_query_mapping_first_error e u _ _ hfe
  have hp := C12_pairs_bad_value_rejected e u _ _ hpe
  refine ⟨by simpa only [dynWithQuery, hd] using hwm,
    by simpa only [dynExtendQuery, hd] using extend_of_with_error e u _ _ hwm,
    by simpa only [dynWithQuery, hl] using hp.1, by simpa only [dynExtendQuery, hl] using hp.2.1, ?_, ?_⟩
  · -- update_query with a dict: MultiDict.update validates all keys first
    exact C12_dyn_update_query_non_str_key e u _ ⟨(k, v), by simp, hsl⟩
  · -- update_query with a sequence: the elements before are valid pairs, this one has a bad key
    have hm : ∀ (pre : List (Str × PyObj)) (rest : List PyObj),
        (pre.map (fun p => PyObj.tuple [.str p.1, p.2]) ++ .tuple [k, v] :: rest).mapM mdPair = .error .typeError := by
      intro pre rest
      induction pre with
      | nil => simp [List.mapM_cons, mdPair, unpack2, iterElems, hsl, bind, Except.bind]
      | cons p r ih =>
        simp only [List.map_cons, List.cons_append, List.mapM_cons, ih]
        rfl
    exact ((C12_dyn_update_query_sequence e u _ (by simp)).1 _ (hm pre _)).1

/-- the `None` key: accepted (as the text "None") by with_query / extend_query, rejected by update_query — for every
    receiver and every backend -/
theorem C12_dyn_none_key_differs (e : Env) (u : Url) (v : Str) :
    dynWithQuery e u (.dict [(.none, .str v)]) = dynWithQuery e u (.dict [(.str "None".toStr, .str v)]) ∧
    dynExtendQuery e u (.dict [(.none, .str v)]) = dynExtendQuery e u (.dict [(.str "None".toStr, .str v)]) ∧
    dynWithQuery e u (.list [.tuple [.none, .str v]]) = dynWithQuery e u (.list [.tuple [.str "None".toStr, .str v]]) ∧
    (∃ r, dynWithQuery e u (.dict [(.none, .str v)]) = .ok r) ∧
    dynUpdateQuery e u (.dict [(.none, .str v)]) = .error .typeError ∧
    dynUpdateQuery e u (.list [.tuple [.none, .str v]]) = .error .typeError := by
  refine ⟨rfl, rfl, rfl, ?_, rfl, rfl⟩
  simp [dynWithQuery, dynQuery, truthy, mkPair, keyStr, toQItem, toQVal, withQuery, getStrQuery,
    strQueryFromSeqIterable, pairStr, queryVar, bind, Except.bind, pure, Except.pure, Except.map]

/-- an empty list / tuple value hides a bad key from with_query / extend_query (`with_query({1: []})` succeeds with an
    empty query) but not from update_query -/
theorem C12_dyn_empty_value_hides_key (e : Env) (u : Url) (i : Int) :
    dynWithQuery e u (.dict [(.int i, .list [])]) = .ok (fromParts u.scheme u.netloc u.path [] u.fragment) ∧
    dynExtendQuery e u (.dict [(.int i, .list [])]) = .ok u ∧
    dynUpdateQuery e u (.dict [(.int i, .list [])]) = .error .typeError := by
  refine ⟨?_, ?_, rfl⟩ <;>
    simp [dynWithQuery, dynExtendQuery, dynQuery, truthy, mkPair, keyStr, strLike, toQItem, poisonItem, withQuery,
      extendQuery, getStrQuery, strQueryFromSeqIterable, joinC, joinSep, bind, Except.bind, pure, Except.pure, Except.map]

/-- elements of a pair sequence that are not pairs (with_query / extend_query: the `for k, v in items` unpacking):
    not iterable → TypeError, wrong length → ValueError, at the element's position -/
theorem C12_dyn_unpack (o : PyObj) :
    (iterElems o = none → pairOf o = poisonPair .typeError ∧ slotErr (pairOf o).2 = some .typeError) ∧
    (∀ l, iterElems o = some l → l.length ≠ 2 → pairOf o = poisonPair .valueError ∧
      slotErr (pairOf o).2 = some .valueError) ∧
    (∀ k v, iterElems o = some [k, v] → pairOf o = mkPair k v) := by
  refine ⟨fun h => ?_, fun l h hl => ?_, fun k v h => ?_⟩
  · simp [pairOf, unpack2, h, poisonPair, slotErr, queryVar]
  · have : unpack2 o = .error .valueError := by
      unfold unpack2
      rw [h]
      match l, hl with
      | [], _ => rfl
      | [_], _ => rfl
      | [_, _], hl => simp at hl
      | _ :: _ :: _ :: _, _ => rfl
    simp [pairOf, this, poisonPair, slotErr, queryVar]
  · simp [pairOf, unpack2, h]

/-! ## non-vacuity -/

example : ∀ p ∈ [(([97] : Str), PyObj.int 2), ([98], .strSub [120])], goodVal p.2 = true := by decide
example : badVal (.float [110, 97, 110] 2) = some .valueError ∧ badVal (.bool true) = some .typeError := by decide
example : keyStr (.int 1) = none ∧ keyStr (.bytes [107]) = none ∧ keyStr (.bool true) = none ∧
    itemVals (toQItem (.str [118])) ≠ [] := by decide
example : [PyObj.tuple [.str [107], .float [110, 97, 110] 2], .str [97, 98, 99]].mapM mdPair = .error .valueError := by rfl
example : [PyObj.tuple [.int 1, .str [118]], .str [97, 98, 99]].mapM mdPair = .error .typeError := by rfl
example : ∃ kv ∈ [((PyObj.none, PyObj.str [118]) : PyObj × PyObj)], strLike kv.1 = none :=
  ⟨(.none, .str [118]), by simp, rfl⟩

/-! ## the probe table (outcomes of the real library, both quoter backends; /tmp/q3_probe.py): with_query,
    extend_query, update_query and their keyword forms on URL("http://h/p?a=1#f") -/
example : showU pe (dynWithQuery pe (pU [104, 116, 116, 112, 58, 47, 47, 104, 47, 112, 63, 97, 61, 49, 35, 102]) .none) = .ok [104, 116, 116, 112, 58, 47, 47, 104, 47, 112, 35, 102] := by decide +kernel
example : showU pe (dynWithQuery pe (pU [104, 116, 116, 112, 58, 47, 47, 104, 47, 112, 63, 97, 61, 49, 35, 102]) (.int (0))) = .ok [104, 116, 116, 112, 58, 47, 47, 104, 47, 112, 35, 102] := by decide +kernel
example : showU pe (dynWithQuery pe (pU [104, 116, 116, 112, 58, 47, 47, 104, 47, 112, 63, 97, 61, 49, 35, 102]) (.int (1))) = .err .typeError := by decide +kernel
example : showU pe (dynWithQuery pe (pU [104, 116, 116, 112, 58, 47, 47, 104, 47, 112, 63, 97, 61, 49, 35, 102]) (.bool false)) = .ok [104, 116, 116, 112, 58, 47, 47, 104, 47, 112, 35, 102] := by decide +kernel
example : showU pe (dynWithQuery pe (pU [104, 116, 116, 112, 58, 47, 47, 104, 47, 112, 63, 97, 61, 49, 35, 102]) (.bool true)) = .err .typeError := by decide +kernel
example : showU pe (dynWithQuery pe (pU [104, 116, 116, 112, 58, 47, 47, 104, 47, 112, 63, 97, 61, 49, 35, 102]) (.float [48, 46, 48] 0)) = .ok [104, 116, 116, 112, 58, 47, 47, 104, 47, 112, 35, 102] := by decide +kernel
example : showU pe (dynWithQuery pe (pU [104, 116, 116, 112, 58, 47, 47, 104, 47, 112, 63, 97, 61, 49, 35, 102]) (.float [110, 97, 110] 2)) = .err .typeError := by decide +kernel
example : showU pe (dynWithQuery pe (pU [104, 116, 116, 112, 58, 47, 47, 104, 47, 112, 63, 97, 61, 49, 35, 102]) (.bytes [])) = .ok [104, 116, 116, 112, 58, 47, 47, 104, 47, 112, 35, 102] := by decide +kernel
example : showU pe (dynWithQuery pe (pU [104, 116, 116, 112, 58, 47, 47, 104, 47, 112, 63, 97, 61, 49, 35, 102]) (.bytes [97, 61, 49])) = .err .typeError := by decide +kernel
example : showU pe (dynWithQuery pe (pU [104, 116, 116, 112, 58, 47, 47, 104, 47, 112, 63, 97, 61, 49, 35, 102]) (.strSub [120, 61, 49])) = .ok [104, 116, 116, 112, 58, 47, 47, 104, 47, 112, 63, 120, 61, 49, 35, 102] := by decide +kernel
example : showU pe (dynWithQuery pe (pU [104, 116, 116, 112, 58, 47, 47, 104, 47, 112, 63, 97, 61, 49, 35, 102]) (.url (pU []))) = .ok [104, 116, 116, 112, 58, 47, 47, 104, 47, 112, 35, 102] := by decide +kernel
example : showU pe (dynWithQuery pe (pU [104, 116, 116, 112, 58, 47, 47, 104, 47, 112, 63, 97, 61, 49, 35, 102]) (.url (pU [104, 116, 116, 112, 58, 47, 47, 104, 47, 112, 63, 97, 61, 49, 35, 102]))) = .err .typeError := by decide +kernel
example : showU pe (dynWithQuery pe (pU [104, 116, 116, 112, 58, 47, 47, 104, 47, 112, 63, 97, 61, 49, 35, 102]) (.other 0)) = .err .typeError := by decide +kernel
example : showU pe (dynWithQuery pe (pU [104, 116, 116, 112, 58, 47, 47, 104, 47, 112, 63, 97, 61, 49, 35, 102]) (.splitResult [[97, 98], [99, 100], [47, 101, 102], [103, 104], [105, 106]])) = .err .valueError := by decide +kernel
example : showU pe (dynWithQuery pe (pU [104, 116, 116, 112, 58, 47, 47, 104, 47, 112, 63, 97, 61, 49, 35, 102]) (.splitResult [[97, 98], [99, 100], [], [], []])) = .err .valueError := by decide +kernel
example : showU pe (dynWithQuery pe (pU [104, 116, 116, 112, 58, 47, 47, 104, 47, 112, 63, 97, 61, 49, 35, 102]) (.dict [((.int (1)), (.str [118]))])) = .err .typeError := by decide +kernel
example : showU pe (dynWithQuery pe (pU [104, 116, 116, 112, 58, 47, 47, 104, 47, 112, 63, 97, 61, 49, 35, 102]) (.dict [(.none, (.str [118]))])) = .ok [104, 116, 116, 112, 58, 47, 47, 104, 47, 112, 63, 78, 111, 110, 101, 61, 118, 35, 102] := by decide +kernel
example : showU pe (dynWithQuery pe (pU [104, 116, 116, 112, 58, 47, 47, 104, 47, 112, 63, 97, 61, 49, 35, 102]) (.dict [((.strSub [107]), (.str [118]))])) = .ok [104, 116, 116, 112, 58, 47, 47, 104, 47, 112, 63, 107, 61, 118, 35, 102] := by decide +kernel
example : showU pe (dynWithQuery pe (pU [104, 116, 116, 112, 58, 47, 47, 104, 47, 112, 63, 97, 61, 49, 35, 102]) (.dict [((.bool true), (.str [118]))])) = .err .typeError := by decide +kernel
example : showU pe (dynWithQuery pe (pU [104, 116, 116, 112, 58, 47, 47, 104, 47, 112, 63, 97, 61, 49, 35, 102]) (.dict [((.bytes [107]), (.str [118]))])) = .err .typeError := by decide +kernel
example : showU pe (dynWithQuery pe (pU [104, 116, 116, 112, 58, 47, 47, 104, 47, 112, 63, 97, 61, 49, 35, 102]) (.dict [((.int (1)), (.list []))])) = .ok [104, 116, 116, 112, 58, 47, 47, 104, 47, 112, 35, 102] := by decide +kernel
example : showU pe (dynWithQuery pe (pU [104, 116, 116, 112, 58, 47, 47, 104, 47, 112, 63, 97, 61, 49, 35, 102]) (.dict [((.int (1)), (.list [(.str [97])]))])) = .err .typeError := by decide +kernel
example : showU pe (dynWithQuery pe (pU [104, 116, 116, 112, 58, 47, 47, 104, 47, 112, 63, 97, 61, 49, 35, 102]) (.dict [((.str [107]), (.splitResult [[97, 98], [99, 100], [47, 101, 102], [103, 104], [105, 106]]))])) = .ok [104, 116, 116, 112, 58, 47, 47, 104, 47, 112, 63, 107, 61, 97, 98, 38, 107, 61, 99, 100, 38, 107, 61, 47, 101, 102, 38, 107, 61, 103, 104, 38, 107, 61, 105, 106, 35, 102] := by decide +kernel
example : showU pe (dynWithQuery pe (pU [104, 116, 116, 112, 58, 47, 47, 104, 47, 112, 63, 97, 61, 49, 35, 102]) (.dict [((.str [107]), .none)])) = .err .typeError := by decide +kernel
example : showU pe (dynWithQuery pe (pU [104, 116, 116, 112, 58, 47, 47, 104, 47, 112, 63, 97, 61, 49, 35, 102]) (.dict [((.str [107]), (.bool true))])) = .err .typeError := by decide +kernel
example : showU pe (dynWithQuery pe (pU [104, 116, 116, 112, 58, 47, 47, 104, 47, 112, 63, 97, 61, 49, 35, 102]) (.dict [((.str [107]), (.float [110, 97, 110] 2))])) = .err .valueError := by decide +kernel
example : showU pe (dynWithQuery pe (pU [104, 116, 116, 112, 58, 47, 47, 104, 47, 112, 63, 97, 61, 49, 35, 102]) (.dict [((.str [107]), (.float [105, 110, 102] 1))])) = .err .valueError := by decide +kernel
example : showU pe (dynWithQuery pe (pU [104, 116, 116, 112, 58, 47, 47, 104, 47, 112, 63, 97, 61, 49, 35, 102]) (.dict [((.str [107]), (.bytes [118]))])) = .err .typeError := by decide +kernel
example : showU pe (dynWithQuery pe (pU [104, 116, 116, 112, 58, 47, 47, 104, 47, 112, 63, 97, 61, 49, 35, 102]) (.dict [((.str [107]), (.strSub [118]))])) = .ok [104, 116, 116, 112, 58, 47, 47, 104, 47, 112, 63, 107, 61, 118, 35, 102] := by decide +kernel
example : showU pe (dynWithQuery pe (pU [104, 116, 116, 112, 58, 47, 47, 104, 47, 112, 63, 97, 61, 49, 35, 102]) (.dict [((.str [107]), (.float [49, 46, 53] 0))])) = .ok [104, 116, 116, 112, 58, 47, 47, 104, 47, 112, 63, 107, 61, 49, 46, 53, 35, 102] := by decide +kernel
example : showU pe (dynWithQuery pe (pU [104, 116, 116, 112, 58, 47, 47, 104, 47, 112, 63, 97, 61, 49, 35, 102]) (.dict [((.str [107]), (.int (-7)))])) = .ok [104, 116, 116, 112, 58, 47, 47, 104, 47, 112, 63, 107, 61, 45, 55, 35, 102] := by decide +kernel
example : showU pe (dynWithQuery pe (pU [104, 116, 116, 112, 58, 47, 47, 104, 47, 112, 63, 97, 61, 49, 35, 102]) (.dict [((.str [107]), (.list [(.bool true)]))])) = .err .typeError := by decide +kernel
example : showU pe (dynWithQuery pe (pU [104, 116, 116, 112, 58, 47, 47, 104, 47, 112, 63, 97, 61, 49, 35, 102]) (.dict [((.str [107]), (.list [(.list [(.int (1))])]))])) = .err .typeError := by decide +kernel
example : showU pe (dynWithQuery pe (pU [104, 116, 116, 112, 58, 47, 47, 104, 47, 112, 63, 97, 61, 49, 35, 102]) (.dict [((.str [107]), (.dict []))])) = .err .typeError := by decide +kernel
example : showU pe (dynWithQuery pe (pU [104, 116, 116, 112, 58, 47, 47, 104, 47, 112, 63, 97, 61, 49, 35, 102]) (.dict [((.str [107]), (.url (pU [104, 116, 116, 112, 58, 47, 47, 104, 47, 112, 63, 97, 61, 49, 35, 102])))])) = .err .typeError := by decide +kernel
example : showU pe (dynWithQuery pe (pU [104, 116, 116, 112, 58, 47, 47, 104, 47, 112, 63, 97, 61, 49, 35, 102]) (.dict [((.str [107]), (.list [(.int (1)), (.str [120])]))])) = .ok [104, 116, 116, 112, 58, 47, 47, 104, 47, 112, 63, 107, 61, 49, 38, 107, 61, 120, 35, 102] := by decide +kernel
example : showU pe (dynWithQuery pe (pU [104, 116, 116, 112, 58, 47, 47, 104, 47, 112, 63, 97, 61, 49, 35, 102]) (.dict [((.str [97]), (.int (2))), ((.str [98]), (.float [110, 97, 110] 2))])) = .err .valueError := by decide +kernel
example : showU pe (dynWithQuery pe (pU [104, 116, 116, 112, 58, 47, 47, 104, 47, 112, 63, 97, 61, 49, 35, 102]) (.dict [((.str [98]), (.float [110, 97, 110] 2)), ((.int (1)), (.int (2)))])) = .err .valueError := by decide +kernel
example : showU pe (dynWithQuery pe (pU [104, 116, 116, 112, 58, 47, 47, 104, 47, 112, 63, 97, 61, 49, 35, 102]) (.list [(.tuple [(.int (1)), (.str [118])])])) = .err .typeError := by decide +kernel
example : showU pe (dynWithQuery pe (pU [104, 116, 116, 112, 58, 47, 47, 104, 47, 112, 63, 97, 61, 49, 35, 102]) (.list [(.tuple [.none, (.str [118])])])) = .ok [104, 116, 116, 112, 58, 47, 47, 104, 47, 112, 63, 78, 111, 110, 101, 61, 118, 35, 102] := by decide +kernel
example : showU pe (dynWithQuery pe (pU [104, 116, 116, 112, 58, 47, 47, 104, 47, 112, 63, 97, 61, 49, 35, 102]) (.list [(.tuple [(.strSub [107]), (.str [118])])])) = .ok [104, 116, 116, 112, 58, 47, 47, 104, 47, 112, 63, 107, 61, 118, 35, 102] := by decide +kernel
example : showU pe (dynWithQuery pe (pU [104, 116, 116, 112, 58, 47, 47, 104, 47, 112, 63, 97, 61, 49, 35, 102]) (.list [(.str [97, 98])])) = .ok [104, 116, 116, 112, 58, 47, 47, 104, 47, 112, 63, 97, 61, 98, 35, 102] := by decide +kernel
example : showU pe (dynWithQuery pe (pU [104, 116, 116, 112, 58, 47, 47, 104, 47, 112, 63, 97, 61, 49, 35, 102]) (.list [(.str [97, 98, 99])])) = .err .valueError := by decide +kernel
example : showU pe (dynWithQuery pe (pU [104, 116, 116, 112, 58, 47, 47, 104, 47, 112, 63, 97, 61, 49, 35, 102]) (.list [(.bytes [97, 98])])) = .err .typeError := by decide +kernel
example : showU pe (dynWithQuery pe (pU [104, 116, 116, 112, 58, 47, 47, 104, 47, 112, 63, 97, 61, 49, 35, 102]) (.list [(.int (1))])) = .err .typeError := by decide +kernel
example : showU pe (dynWithQuery pe (pU [104, 116, 116, 112, 58, 47, 47, 104, 47, 112, 63, 97, 61, 49, 35, 102]) (.list [.none])) = .err .typeError := by decide +kernel
example : showU pe (dynWithQuery pe (pU [104, 116, 116, 112, 58, 47, 47, 104, 47, 112, 63, 97, 61, 49, 35, 102]) (.list [(.tuple [(.str [107])])])) = .err .valueError := by decide +kernel
example : showU pe (dynWithQuery pe (pU [104, 116, 116, 112, 58, 47, 47, 104, 47, 112, 63, 97, 61, 49, 35, 102]) (.list [(.tuple [(.str [107]), (.str [118]), (.str [119])])])) = .err .valueError := by decide +kernel
example : showU pe (dynWithQuery pe (pU [104, 116, 116, 112, 58, 47, 47, 104, 47, 112, 63, 97, 61, 49, 35, 102]) (.list [(.list [(.str [107]), (.str [118])])])) = .ok [104, 116, 116, 112, 58, 47, 47, 104, 47, 112, 63, 107, 61, 118, 35, 102] := by decide +kernel
example : showU pe (dynWithQuery pe (pU [104, 116, 116, 112, 58, 47, 47, 104, 47, 112, 63, 97, 61, 49, 35, 102]) (.list [(.dict [((.str [107]), (.int (1))), ((.str [118]), (.int (2)))])])) = .ok [104, 116, 116, 112, 58, 47, 47, 104, 47, 112, 63, 107, 61, 118, 35, 102] := by decide +kernel
example : showU pe (dynWithQuery pe (pU [104, 116, 116, 112, 58, 47, 47, 104, 47, 112, 63, 97, 61, 49, 35, 102]) (.list [(.tuple [(.str [107]), (.list [(.int (1))])])])) = .err .typeError := by decide +kernel
example : showU pe (dynWithQuery pe (pU [104, 116, 116, 112, 58, 47, 47, 104, 47, 112, 63, 97, 61, 49, 35, 102]) (.list [(.tuple [(.str [107]), (.bool true)])])) = .err .typeError := by decide +kernel
example : showU pe (dynWithQuery pe (pU [104, 116, 116, 112, 58, 47, 47, 104, 47, 112, 63, 97, 61, 49, 35, 102]) (.list [(.tuple [(.str [107]), .none]), (.tuple [(.int (1)), (.str [118])])])) = .err .typeError := by decide +kernel
example : showU pe (dynWithQuery pe (pU [104, 116, 116, 112, 58, 47, 47, 104, 47, 112, 63, 97, 61, 49, 35, 102]) (.list [(.tuple [(.int (1)), (.float [110, 97, 110] 2)])])) = .err .typeError := by decide +kernel
example : showU pe (dynWithQuery pe (pU [104, 116, 116, 112, 58, 47, 47, 104, 47, 112, 63, 97, 61, 49, 35, 102]) (.list [(.tuple [(.str [107]), (.float [110, 97, 110] 2)]), (.tuple [(.int (1)), (.str [118])])])) = .err .valueError := by decide +kernel
example : showU pe (dynWithQuery pe (pU [104, 116, 116, 112, 58, 47, 47, 104, 47, 112, 63, 97, 61, 49, 35, 102]) (.list [(.tuple [(.str [107]), (.float [110, 97, 110] 2)]), (.str [97, 98, 99])])) = .err .valueError := by decide +kernel
example : showU pe (dynWithQuery pe (pU [104, 116, 116, 112, 58, 47, 47, 104, 47, 112, 63, 97, 61, 49, 35, 102]) (.list [(.tuple [(.str [107]), (.bool true)]), (.str [97, 98, 99])])) = .err .typeError := by decide +kernel
example : showU pe (dynWithQuery pe (pU [104, 116, 116, 112, 58, 47, 47, 104, 47, 112, 63, 97, 61, 49, 35, 102]) (.list [(.str [97, 98, 99]), (.tuple [(.str [107]), (.bool true)])])) = .err .valueError := by decide +kernel
example : showU pe (dynWithQuery pe (pU [104, 116, 116, 112, 58, 47, 47, 104, 47, 112, 63, 97, 61, 49, 35, 102]) (.list [(.tuple [(.int (1)), (.str [118])]), (.str [97, 98, 99])])) = .err .typeError := by decide +kernel
example : showU pe (dynWithQuery pe (pU [104, 116, 116, 112, 58, 47, 47, 104, 47, 112, 63, 97, 61, 49, 35, 102]) (.list [(.str [97, 98, 99]), (.tuple [(.int (1)), (.str [118])])])) = .err .valueError := by decide +kernel
example : showU pe (dynWithQuery pe (pU [104, 116, 116, 112, 58, 47, 47, 104, 47, 112, 63, 97, 61, 49, 35, 102]) (.list [(.tuple [(.int (1)), (.str [118])]), (.int (5))])) = .err .typeError := by decide +kernel
example : showU pe (dynWithQuery pe (pU [104, 116, 116, 112, 58, 47, 47, 104, 47, 112, 63, 97, 61, 49, 35, 102]) (.list [(.int (5)), (.tuple [(.int (1)), (.str [118])])])) = .err .typeError := by decide +kernel
example : showU pe (dynWithQuery pe (pU [104, 116, 116, 112, 58, 47, 47, 104, 47, 112, 63, 97, 61, 49, 35, 102]) (.tuple [(.tuple [(.str [107]), (.str [118])])])) = .ok [104, 116, 116, 112, 58, 47, 47, 104, 47, 112, 63, 107, 61, 118, 35, 102] := by decide +kernel
example : showU pe (dynWithQuery pe (pU [104, 116, 116, 112, 58, 47, 47, 104, 47, 112, 63, 97, 61, 49, 35, 102]) (.list [(.url (pU [104, 116, 116, 112, 58, 47, 47, 104, 47, 112, 63, 97, 61, 49, 35, 102]))])) = .err .typeError := by decide +kernel
example : showU pe (dynWithQuery pe (pU [104, 116, 116, 112, 58, 47, 47, 104, 47, 112, 63, 97, 61, 49, 35, 102]) (.list [(.splitResult [[97, 98], [99, 100], [47, 101, 102], [103, 104], [105, 106]])])) = .err .valueError := by decide +kernel
example : showU pe (dynWithQuery pe (pU [104, 116, 116, 112, 58, 47, 47, 104, 47, 112, 63, 97, 61, 49, 35, 102]) (.list [(.strSub [97, 98])])) = .ok [104, 116, 116, 112, 58, 47, 47, 104, 47, 112, 63, 97, 61, 98, 35, 102] := by decide +kernel
example : showU pe (dynWithQuery pe (pU [104, 116, 116, 112, 58, 47, 47, 104, 47, 112, 63, 97, 61, 49, 35, 102]) (.list [(.tuple [(.strSub [107]), (.strSub [118])])])) = .ok [104, 116, 116, 112, 58, 47, 47, 104, 47, 112, 63, 107, 61, 118, 35, 102] := by decide +kernel
example : showU pe (dynWithQuery pe (pU [104, 116, 116, 112, 58, 47, 47, 104, 47, 112, 63, 97, 61, 49, 35, 102]) (.list [(.tuple [(.str [97]), (.str [57])]), (.tuple [(.str [97]), (.bool true)])])) = .err .typeError := by decide +kernel
example : showU pe (dynWithQueryKw pe (pU [104, 116, 116, 112, 58, 47, 47, 104, 47, 112, 63, 97, 61, 49, 35, 102]) [([107], .none)]) = .err .typeError := by decide +kernel
example : showU pe (dynWithQueryKw pe (pU [104, 116, 116, 112, 58, 47, 47, 104, 47, 112, 63, 97, 61, 49, 35, 102]) [([107], (.list [(.int (1)), (.int (2))]))]) = .ok [104, 116, 116, 112, 58, 47, 47, 104, 47, 112, 63, 107, 61, 49, 38, 107, 61, 50, 35, 102] := by decide +kernel
example : showU pe (dynWithQueryKw pe (pU [104, 116, 116, 112, 58, 47, 47, 104, 47, 112, 63, 97, 61, 49, 35, 102]) []) = .err .valueError := by decide +kernel
example : showU pe (dynWithQueryKw pe (pU [104, 116, 116, 112, 58, 47, 47, 104, 47, 112, 63, 97, 61, 49, 35, 102]) [([107], (.float [110, 97, 110] 2))]) = .err .valueError := by decide +kernel
example : showU pe (dynWithQueryKw pe (pU [104, 116, 116, 112, 58, 47, 47, 104, 47, 112, 63, 97, 61, 49, 35, 102]) [([107], (.bytes [120]))]) = .err .typeError := by decide +kernel
example : showU pe (dynWithQueryKw pe (pU [104, 116, 116, 112, 58, 47, 47, 104, 47, 112, 63, 97, 61, 49, 35, 102]) [([97], (.int (5)))]) = .ok [104, 116, 116, 112, 58, 47, 47, 104, 47, 112, 63, 97, 61, 53, 35, 102] := by decide +kernel
example : showU pe (dynExtendQuery pe (pU [104, 116, 116, 112, 58, 47, 47, 104, 47, 112, 63, 97, 61, 49, 35, 102]) .none) = .ok [104, 116, 116, 112, 58, 47, 47, 104, 47, 112, 63, 97, 61, 49, 35, 102] := by decide +kernel
example : showU pe (dynExtendQuery pe (pU [104, 116, 116, 112, 58, 47, 47, 104, 47, 112, 63, 97, 61, 49, 35, 102]) (.int (0))) = .ok [104, 116, 116, 112, 58, 47, 47, 104, 47, 112, 63, 97, 61, 49, 35, 102] := by decide +kernel
example : showU pe (dynExtendQuery pe (pU [104, 116, 116, 112, 58, 47, 47, 104, 47, 112, 63, 97, 61, 49, 35, 102]) (.int (1))) = .err .typeError := by decide +kernel
example : showU pe (dynExtendQuery pe (pU [104, 116, 116, 112, 58, 47, 47, 104, 47, 112, 63, 97, 61, 49, 35, 102]) (.bool false)) = .ok [104, 116, 116, 112, 58, 47, 47, 104, 47, 112, 63, 97, 61, 49, 35, 102] := by decide +kernel
example : showU pe (dynExtendQuery pe (pU [104, 116, 116, 112, 58, 47, 47, 104, 47, 112, 63, 97, 61, 49, 35, 102]) (.bool true)) = .err .typeError := by decide +kernel
example : showU pe (dynExtendQuery pe (pU [104, 116, 116, 112, 58, 47, 47, 104, 47, 112, 63, 97, 61, 49, 35, 102]) (.float [48, 46, 48] 0)) = .ok [104, 116, 116, 112, 58, 47, 47, 104, 47, 112, 63, 97, 61, 49, 35, 102] := by decide +kernel
example : showU pe (dynExtendQuery pe (pU [104, 116, 116, 112, 58, 47, 47, 104, 47, 112, 63, 97, 61, 49, 35, 102]) (.float [110, 97, 110] 2)) = .err .typeError := by decide +kernel
example : showU pe (dynExtendQuery pe (pU [104, 116, 116, 112, 58, 47, 47, 104, 47, 112, 63, 97, 61, 49, 35, 102]) (.bytes [])) = .ok [104, 116, 116, 112, 58, 47, 47, 104, 47, 112, 63, 97, 61, 49, 35, 102] := by decide +kernel
example : showU pe (dynExtendQuery pe (pU [104, 116, 116, 112, 58, 47, 47, 104, 47, 112, 63, 97, 61, 49, 35, 102]) (.bytes [97, 61, 49])) = .err .typeError := by decide +kernel
example : showU pe (dynExtendQuery pe (pU [104, 116, 116, 112, 58, 47, 47, 104, 47, 112, 63, 97, 61, 49, 35, 102]) (.strSub [120, 61, 49])) = .ok [104, 116, 116, 112, 58, 47, 47, 104, 47, 112, 63, 97, 61, 49, 38, 120, 61, 49, 35, 102] := by decide +kernel
example : showU pe (dynExtendQuery pe (pU [104, 116, 116, 112, 58, 47, 47, 104, 47, 112, 63, 97, 61, 49, 35, 102]) (.url (pU []))) = .ok [104, 116, 116, 112, 58, 47, 47, 104, 47, 112, 63, 97, 61, 49, 35, 102] := by decide +kernel
example : showU pe (dynExtendQuery pe (pU [104, 116, 116, 112, 58, 47, 47, 104, 47, 112, 63, 97, 61, 49, 35, 102]) (.url (pU [104, 116, 116, 112, 58, 47, 47, 104, 47, 112, 63, 97, 61, 49, 35, 102]))) = .err .typeError := by decide +kernel
example : showU pe (dynExtendQuery pe (pU [104, 116, 116, 112, 58, 47, 47, 104, 47, 112, 63, 97, 61, 49, 35, 102]) (.other 0)) = .err .typeError := by decide +kernel
example : showU pe (dynExtendQuery pe (pU [104, 116, 116, 112, 58, 47, 47, 104, 47, 112, 63, 97, 61, 49, 35, 102]) (.splitResult [[97, 98], [99, 100], [47, 101, 102], [103, 104], [105, 106]])) = .err .valueError := by decide +kernel
example : showU pe (dynExtendQuery pe (pU [104, 116, 116, 112, 58, 47, 47, 104, 47, 112, 63, 97, 61, 49, 35, 102]) (.splitResult [[97, 98], [99, 100], [], [], []])) = .err .valueError := by decide +kernel
example : showU pe (dynExtendQuery pe (pU [104, 116, 116, 112, 58, 47, 47, 104, 47, 112, 63, 97, 61, 49, 35, 102]) (.dict [((.int (1)), (.str [118]))])) = .err .typeError := by decide +kernel
example : showU pe (dynExtendQuery pe (pU [104, 116, 116, 112, 58, 47, 47, 104, 47, 112, 63, 97, 61, 49, 35, 102]) (.dict [(.none, (.str [118]))])) = .ok [104, 116, 116, 112, 58, 47, 47, 104, 47, 112, 63, 97, 61, 49, 38, 78, 111, 110, 101, 61, 118, 35, 102] := by decide +kernel
example : showU pe (dynExtendQuery pe (pU [104, 116, 116, 112, 58, 47, 47, 104, 47, 112, 63, 97, 61, 49, 35, 102]) (.dict [((.strSub [107]), (.str [118]))])) = .ok [104, 116, 116, 112, 58, 47, 47, 104, 47, 112, 63, 97, 61, 49, 38, 107, 61, 118, 35, 102] := by decide +kernel
example : showU pe (dynExtendQuery pe (pU [104, 116, 116, 112, 58, 47, 47, 104, 47, 112, 63, 97, 61, 49, 35, 102]) (.dict [((.bool true), (.str [118]))])) = .err .typeError := by decide +kernel
example : showU pe (dynExtendQuery pe (pU [104, 116, 116, 112, 58, 47, 47, 104, 47, 112, 63, 97, 61, 49, 35, 102]) (.dict [((.bytes [107]), (.str [118]))])) = .err .typeError := by decide +kernel
example : showU pe (dynExtendQuery pe (pU [104, 116, 116, 112, 58, 47, 47, 104, 47, 112, 63, 97, 61, 49, 35, 102]) (.dict [((.int (1)), (.list []))])) = .ok [104, 116, 116, 112, 58, 47, 47, 104, 47, 112, 63, 97, 61, 49, 35, 102] := by decide +kernel
example : showU pe (dynExtendQuery pe (pU [104, 116, 116, 112, 58, 47, 47, 104, 47, 112, 63, 97, 61, 49, 35, 102]) (.dict [((.int (1)), (.list [(.str [97])]))])) = .err .typeError := by decide +kernel
example : showU pe (dynExtendQuery pe (pU [104, 116, 116, 112, 58, 47, 47, 104, 47, 112, 63, 97, 61, 49, 35, 102]) (.dict [((.str [107]), (.splitResult [[97, 98], [99, 100], [47, 101, 102], [103, 104], [105, 106]]))])) = .ok [104, 116, 116, 112, 58, 47, 47, 104, 47, 112, 63, 97, 61, 49, 38, 107, 61, 97, 98, 38, 107, 61, 99, 100, 38, 107, 61, 47, 101, 102, 38, 107, 61, 103, 104, 38, 107, 61, 105, 106, 35, 102] := by decide +kernel
example : showU pe (dynExtendQuery pe (pU [104, 116, 116, 112, 58, 47, 47, 104, 47, 112, 63, 97, 61, 49, 35, 102]) (.dict [((.str [107]), .none)])) = .err .typeError := by decide +kernel
example : showU pe (dynExtendQuery pe (pU [104, 116, 116, 112, 58, 47, 47, 104, 47, 112, 63, 97, 61, 49, 35, 102]) (.dict [((.str [107]), (.bool true))])) = .err .typeError := by decide +kernel
example : showU pe (dynExtendQuery pe (pU [104, 116, 116, 112, 58, 47, 47, 104, 47, 112, 63, 97, 61, 49, 35, 102]) (.dict [((.str [107]), (.float [110, 97, 110] 2))])) = .err .valueError := by decide +kernel
example : showU pe (dynExtendQuery pe (pU [104, 116, 116, 112, 58, 47, 47, 104, 47, 112, 63, 97, 61, 49, 35, 102]) (.dict [((.str [107]), (.float [105, 110, 102] 1))])) = .err .valueError := by decide +kernel
example : showU pe (dynExtendQuery pe (pU [104, 116, 116, 112, 58, 47, 47, 104, 47, 112, 63, 97, 61, 49, 35, 102]) (.dict [((.str [107]), (.bytes [118]))])) = .err .typeError := by decide +kernel
example : showU pe (dynExtendQuery pe (pU [104, 116, 116, 112, 58, 47, 47, 104, 47, 112, 63, 97, 61, 49, 35, 102]) (.dict [((.str [107]), (.strSub [118]))])) = .ok [104, 116, 116, 112, 58, 47, 47, 104, 47, 112, 63, 97, 61, 49, 38, 107, 61, 118, 35, 102] := by decide +kernel
example : showU pe (dynExtendQuery pe (pU [104, 116, 116, 112, 58, 47, 47, 104, 47, 112, 63, 97, 61, 49, 35, 102]) (.dict [((.str [107]), (.float [49, 46, 53] 0))])) = .ok [104, 116, 116, 112, 58, 47, 47, 104, 47, 112, 63, 97, 61, 49, 38, 107, 61, 49, 46, 53, 35, 102] := by decide +kernel
example : showU pe (dynExtendQuery pe (pU [104, 116, 116, 112, 58, 47, 47, 104, 47, 112, 63, 97, 61, 49, 35, 102]) (.dict [((.str [107]), (.int (-7)))])) = .ok [104, 116, 116, 112, 58, 47, 47, 104, 47, 112, 63, 97, 61, 49, 38, 107, 61, 45, 55, 35, 102] := by decide +kernel
example : showU pe (dynExtendQuery pe (pU [104, 116, 116, 112, 58, 47, 47, 104, 47, 112, 63, 97, 61, 49, 35, 102]) (.dict [((.str [107]), (.list [(.bool true)]))])) = .err .typeError := by decide +kernel
example : showU pe (dynExtendQuery pe (pU [104, 116, 116, 112, 58, 47, 47, 104, 47, 112, 63, 97, 61, 49, 35, 102]) (.dict [((.str [107]), (.list [(.list [(.int (1))])]))])) = .err .typeError := by decide +kernel
example : showU pe (dynExtendQuery pe (pU [104, 116, 116, 112, 58, 47, 47, 104, 47, 112, 63, 97, 61, 49, 35, 102]) (.dict [((.str [107]), (.dict []))])) = .err .typeError := by decide +kernel
example : showU pe (dynExtendQuery pe (pU [104, 116, 116, 112, 58, 47, 47, 104, 47, 112, 63, 97, 61, 49, 35, 102]) (.dict [((.str [107]), (.url (pU [104, 116, 116, 112, 58, 47, 47, 104, 47, 112, 63, 97, 61, 49, 35, 102])))])) = .err .typeError := by decide +kernel
example : showU pe (dynExtendQuery pe (pU [104, 116, 116, 112, 58, 47, 47, 104, 47, 112, 63, 97, 61, 49, 35, 102]) (.dict [((.str [107]), (.list [(.int (1)), (.str [120])]))])) = .ok [104, 116, 116, 112, 58, 47, 47, 104, 47, 112, 63, 97, 61, 49, 38, 107, 61, 49, 38, 107, 61, 120, 35, 102] := by decide +kernel
example : showU pe (dynExtendQuery pe (pU [104, 116, 116, 112, 58, 47, 47, 104, 47, 112, 63, 97, 61, 49, 35, 102]) (.dict [((.str [97]), (.int (2))), ((.str [98]), (.float [110, 97, 110] 2))])) = .err .valueError := by decide +kernel
example : showU pe (dynExtendQuery pe (pU [104, 116, 116, 112, 58, 47, 47, 104, 47, 112, 63, 97, 61, 49, 35, 102]) (.dict [((.str [98]), (.float [110, 97, 110] 2)), ((.int (1)), (.int (2)))])) = .err .valueError := by decide +kernel
example : showU pe (dynExtendQuery pe (pU [104, 116, 116, 112, 58, 47, 47, 104, 47, 112, 63, 97, 61, 49, 35, 102]) (.list [(.tuple [(.int (1)), (.str [118])])])) = .err .typeError := by decide +kernel
example : showU pe (dynExtendQuery pe (pU [104, 116, 116, 112, 58, 47, 47, 104, 47, 112, 63, 97, 61, 49, 35, 102]) (.list [(.tuple [.none, (.str [118])])])) = .ok [104, 116, 116, 112, 58, 47, 47, 104, 47, 112, 63, 97, 61, 49, 38, 78, 111, 110, 101, 61, 118, 35, 102] := by decide +kernel
example : showU pe (dynExtendQuery pe (pU [104, 116, 116, 112, 58, 47, 47, 104, 47, 112, 63, 97, 61, 49, 35, 102]) (.list [(.tuple [(.strSub [107]), (.str [118])])])) = .ok [104, 116, 116, 112, 58, 47, 47, 104, 47, 112, 63, 97, 61, 49, 38, 107, 61, 118, 35, 102] := by decide +kernel
example : showU pe (dynExtendQuery pe (pU [104, 116, 116, 112, 58, 47, 47, 104, 47, 112, 63, 97, 61, 49, 35, 102]) (.list [(.str [97, 98])])) = .ok [104, 116, 116, 112, 58, 47, 47, 104, 47, 112, 63, 97, 61, 49, 38, 97, 61, 98, 35, 102] := by decide +kernel
example : showU pe (dynExtendQuery pe (pU [104, 116, 116, 112, 58, 47, 47, 104, 47, 112, 63, 97, 61, 49, 35, 102]) (.list [(.str [97, 98, 99])])) = .err .valueError := by decide +kernel
example : showU pe (dynExtendQuery pe (pU [104, 116, 116, 112, 58, 47, 47, 104, 47, 112, 63, 97, 61, 49, 35, 102]) (.list [(.bytes [97, 98])])) = .err .typeError := by decide +kernel
example : showU pe (dynExtendQuery pe (pU [104, 116, 116, 112, 58, 47, 47, 104, 47, 112, 63, 97, 61, 49, 35, 102]) (.list [(.int (1))])) = .err .typeError := by decide +kernel
example : showU pe (dynExtendQuery pe (pU [104, 116, 116, 112, 58, 47, 47, 104, 47, 112, 63, 97, 61, 49, 35, 102]) (.list [.none])) = .err .typeError := by decide +kernel
example : showU pe (dynExtendQuery pe (pU [104, 116, 116, 112, 58, 47, 47, 104, 47, 112, 63, 97, 61, 49, 35, 102]) (.list [(.tuple [(.str [107])])])) = .err .valueError := by decide +kernel
example : showU pe (dynExtendQuery pe (pU [104, 116, 116, 112, 58, 47, 47, 104, 47, 112, 63, 97, 61, 49, 35, 102]) (.list [(.tuple [(.str [107]), (.str [118]), (.str [119])])])) = .err .valueError := by decide +kernel
example : showU pe (dynExtendQuery pe (pU [104, 116, 116, 112, 58, 47, 47, 104, 47, 112, 63, 97, 61, 49, 35, 102]) (.list [(.list [(.str [107]), (.str [118])])])) = .ok [104, 116, 116, 112, 58, 47, 47, 104, 47, 112, 63, 97, 61, 49, 38, 107, 61, 118, 35, 102] := by decide +kernel
example : showU pe (dynExtendQuery pe (pU [104, 116, 116, 112, 58, 47, 47, 104, 47, 112, 63, 97, 61, 49, 35, 102]) (.list [(.dict [((.str [107]), (.int (1))), ((.str [118]), (.int (2)))])])) = .ok [104, 116, 116, 112, 58, 47, 47, 104, 47, 112, 63, 97, 61, 49, 38, 107, 61, 118, 35, 102] := by decide +kernel
example : showU pe (dynExtendQuery pe (pU [104, 116, 116, 112, 58, 47, 47, 104, 47, 112, 63, 97, 61, 49, 35, 102]) (.list [(.tuple [(.str [107]), (.list [(.int (1))])])])) = .err .typeError := by decide +kernel
example : showU pe (dynExtendQuery pe (pU [104, 116, 116, 112, 58, 47, 47, 104, 47, 112, 63, 97, 61, 49, 35, 102]) (.list [(.tuple [(.str [107]), (.bool true)])])) = .err .typeError := by decide +kernel
example : showU pe (dynExtendQuery pe (pU [104, 116, 116, 112, 58, 47, 47, 104, 47, 112, 63, 97, 61, 49, 35, 102]) (.list [(.tuple [(.str [107]), .none]), (.tuple [(.int (1)), (.str [118])])])) = .err .typeError := by decide +kernel
example : showU pe (dynExtendQuery pe (pU [104, 116, 116, 112, 58, 47, 47, 104, 47, 112, 63, 97, 61, 49, 35, 102]) (.list [(.tuple [(.int (1)), (.float [110, 97, 110] 2)])])) = .err .typeError := by decide +kernel
example : showU pe (dynExtendQuery pe (pU [104, 116, 116, 112, 58, 47, 47, 104, 47, 112, 63, 97, 61, 49, 35, 102]) (.list [(.tuple [(.str [107]), (.float [110, 97, 110] 2)]), (.tuple [(.int (1)), (.str [118])])])) = .err .valueError := by decide +kernel
example : showU pe (dynExtendQuery pe (pU [104, 116, 116, 112, 58, 47, 47, 104, 47, 112, 63, 97, 61, 49, 35, 102]) (.list [(.tuple [(.str [107]), (.float [110, 97, 110] 2)]), (.str [97, 98, 99])])) = .err .valueError := by decide +kernel
example : showU pe (dynExtendQuery pe (pU [104, 116, 116, 112, 58, 47, 47, 104, 47, 112, 63, 97, 61, 49, 35, 102]) (.list [(.tuple [(.str [107]), (.bool true)]), (.str [97, 98, 99])])) = .err .typeError := by decide +kernel
example : showU pe (dynExtendQuery pe (pU [104, 116, 116, 112, 58, 47, 47, 104, 47, 112, 63, 97, 61, 49, 35, 102]) (.list [(.str [97, 98, 99]), (.tuple [(.str [107]), (.bool true)])])) = .err .valueError := by decide +kernel
example : showU pe (dynExtendQuery pe (pU [104, 116, 116, 112, 58, 47, 47, 104, 47, 112, 63, 97, 61, 49, 35, 102]) (.list [(.tuple [(.int (1)), (.str [118])]), (.str [97, 98, 99])])) = .err .typeError := by decide +kernel
example : showU pe (dynExtendQuery pe (pU [104, 116, 116, 112, 58, 47, 47, 104, 47, 112, 63, 97, 61, 49, 35, 102]) (.list [(.str [97, 98, 99]), (.tuple [(.int (1)), (.str [118])])])) = .err .valueError := by decide +kernel
example : showU pe (dynExtendQuery pe (pU [104, 116, 116, 112, 58, 47, 47, 104, 47, 112, 63, 97, 61, 49, 35, 102]) (.list [(.tuple [(.int (1)), (.str [118])]), (.int (5))])) = .err .typeError := by decide +kernel
example : showU pe (dynExtendQuery pe (pU [104, 116, 116, 112, 58, 47, 47, 104, 47, 112, 63, 97, 61, 49, 35, 102]) (.list [(.int (5)), (.tuple [(.int (1)), (.str [118])])])) = .err .typeError := by decide +kernel
example : showU pe (dynExtendQuery pe (pU [104, 116, 116, 112, 58, 47, 47, 104, 47, 112, 63, 97, 61, 49, 35, 102]) (.tuple [(.tuple [(.str [107]), (.str [118])])])) = .ok [104, 116, 116, 112, 58, 47, 47, 104, 47, 112, 63, 97, 61, 49, 38, 107, 61, 118, 35, 102] := by decide +kernel
example : showU pe (dynExtendQuery pe (pU [104, 116, 116, 112, 58, 47, 47, 104, 47, 112, 63, 97, 61, 49, 35, 102]) (.list [(.url (pU [104, 116, 116, 112, 58, 47, 47, 104, 47, 112, 63, 97, 61, 49, 35, 102]))])) = .err .typeError := by decide +kernel
example : showU pe (dynExtendQuery pe (pU [104, 116, 116, 112, 58, 47, 47, 104, 47, 112, 63, 97, 61, 49, 35, 102]) (.list [(.splitResult [[97, 98], [99, 100], [47, 101, 102], [103, 104], [105, 106]])])) = .err .valueError := by decide +kernel
example : showU pe (dynExtendQuery pe (pU [104, 116, 116, 112, 58, 47, 47, 104, 47, 112, 63, 97, 61, 49, 35, 102]) (.list [(.strSub [97, 98])])) = .ok [104, 116, 116, 112, 58, 47, 47, 104, 47, 112, 63, 97, 61, 49, 38, 97, 61, 98, 35, 102] := by decide +kernel
example : showU pe (dynExtendQuery pe (pU [104, 116, 116, 112, 58, 47, 47, 104, 47, 112, 63, 97, 61, 49, 35, 102]) (.list [(.tuple [(.strSub [107]), (.strSub [118])])])) = .ok [104, 116, 116, 112, 58, 47, 47, 104, 47, 112, 63, 97, 61, 49, 38, 107, 61, 118, 35, 102] := by decide +kernel
example : showU pe (dynExtendQuery pe (pU [104, 116, 116, 112, 58, 47, 47, 104, 47, 112, 63, 97, 61, 49, 35, 102]) (.list [(.tuple [(.str [97]), (.str [57])]), (.tuple [(.str [97]), (.bool true)])])) = .err .typeError := by decide +kernel
example : showU pe (dynExtendQueryKw pe (pU [104, 116, 116, 112, 58, 47, 47, 104, 47, 112, 63, 97, 61, 49, 35, 102]) [([107], .none)]) = .err .typeError := by decide +kernel
example : showU pe (dynExtendQueryKw pe (pU [104, 116, 116, 112, 58, 47, 47, 104, 47, 112, 63, 97, 61, 49, 35, 102]) [([107], (.list [(.int (1)), (.int (2))]))]) = .ok [104, 116, 116, 112, 58, 47, 47, 104, 47, 112, 63, 97, 61, 49, 38, 107, 61, 49, 38, 107, 61, 50, 35, 102] := by decide +kernel
example : showU pe (dynExtendQueryKw pe (pU [104, 116, 116, 112, 58, 47, 47, 104, 47, 112, 63, 97, 61, 49, 35, 102]) []) = .err .valueError := by decide +kernel
example : showU pe (dynExtendQueryKw pe (pU [104, 116, 116, 112, 58, 47, 47, 104, 47, 112, 63, 97, 61, 49, 35, 102]) [([107], (.float [110, 97, 110] 2))]) = .err .valueError := by decide +kernel
example : showU pe (dynExtendQueryKw pe (pU [104, 116, 116, 112, 58, 47, 47, 104, 47, 112, 63, 97, 61, 49, 35, 102]) [([107], (.bytes [120]))]) = .err .typeError := by decide +kernel
example : showU pe (dynExtendQueryKw pe (pU [104, 116, 116, 112, 58, 47, 47, 104, 47, 112, 63, 97, 61, 49, 35, 102]) [([97], (.int (5)))]) = .ok [104, 116, 116, 112, 58, 47, 47, 104, 47, 112, 63, 97, 61, 49, 38, 97, 61, 53, 35, 102] := by decide +kernel
example : showU pe (dynUpdateQuery pe (pU [104, 116, 116, 112, 58, 47, 47, 104, 47, 112, 63, 97, 61, 49, 35, 102]) .none) = .ok [104, 116, 116, 112, 58, 47, 47, 104, 47, 112, 35, 102] := by decide +kernel
example : showU pe (dynUpdateQuery pe (pU [104, 116, 116, 112, 58, 47, 47, 104, 47, 112, 63, 97, 61, 49, 35, 102]) (.int (0))) = .ok [104, 116, 116, 112, 58, 47, 47, 104, 47, 112, 63, 97, 61, 49, 35, 102] := by decide +kernel
example : showU pe (dynUpdateQuery pe (pU [104, 116, 116, 112, 58, 47, 47, 104, 47, 112, 63, 97, 61, 49, 35, 102]) (.int (1))) = .err .typeError := by decide +kernel
example : showU pe (dynUpdateQuery pe (pU [104, 116, 116, 112, 58, 47, 47, 104, 47, 112, 63, 97, 61, 49, 35, 102]) (.bool false)) = .ok [104, 116, 116, 112, 58, 47, 47, 104, 47, 112, 63, 97, 61, 49, 35, 102] := by decide +kernel
example : showU pe (dynUpdateQuery pe (pU [104, 116, 116, 112, 58, 47, 47, 104, 47, 112, 63, 97, 61, 49, 35, 102]) (.bool true)) = .err .typeError := by decide +kernel
example : showU pe (dynUpdateQuery pe (pU [104, 116, 116, 112, 58, 47, 47, 104, 47, 112, 63, 97, 61, 49, 35, 102]) (.float [48, 46, 48] 0)) = .ok [104, 116, 116, 112, 58, 47, 47, 104, 47, 112, 63, 97, 61, 49, 35, 102] := by decide +kernel
example : showU pe (dynUpdateQuery pe (pU [104, 116, 116, 112, 58, 47, 47, 104, 47, 112, 63, 97, 61, 49, 35, 102]) (.float [110, 97, 110] 2)) = .err .typeError := by decide +kernel
example : showU pe (dynUpdateQuery pe (pU [104, 116, 116, 112, 58, 47, 47, 104, 47, 112, 63, 97, 61, 49, 35, 102]) (.bytes [])) = .ok [104, 116, 116, 112, 58, 47, 47, 104, 47, 112, 63, 97, 61, 49, 35, 102] := by decide +kernel
example : showU pe (dynUpdateQuery pe (pU [104, 116, 116, 112, 58, 47, 47, 104, 47, 112, 63, 97, 61, 49, 35, 102]) (.bytes [97, 61, 49])) = .err .typeError := by decide +kernel
example : showU pe (dynUpdateQuery pe (pU [104, 116, 116, 112, 58, 47, 47, 104, 47, 112, 63, 97, 61, 49, 35, 102]) (.strSub [120, 61, 49])) = .ok [104, 116, 116, 112, 58, 47, 47, 104, 47, 112, 63, 97, 61, 49, 38, 120, 61, 49, 35, 102] := by decide +kernel
example : showU pe (dynUpdateQuery pe (pU [104, 116, 116, 112, 58, 47, 47, 104, 47, 112, 63, 97, 61, 49, 35, 102]) (.url (pU []))) = .ok [104, 116, 116, 112, 58, 47, 47, 104, 47, 112, 63, 97, 61, 49, 35, 102] := by decide +kernel
example : showU pe (dynUpdateQuery pe (pU [104, 116, 116, 112, 58, 47, 47, 104, 47, 112, 63, 97, 61, 49, 35, 102]) (.url (pU [104, 116, 116, 112, 58, 47, 47, 104, 47, 112, 63, 97, 61, 49, 35, 102]))) = .err .typeError := by decide +kernel
example : showU pe (dynUpdateQuery pe (pU [104, 116, 116, 112, 58, 47, 47, 104, 47, 112, 63, 97, 61, 49, 35, 102]) (.other 0)) = .err .typeError := by decide +kernel
example : showU pe (dynUpdateQuery pe (pU [104, 116, 116, 112, 58, 47, 47, 104, 47, 112, 63, 97, 61, 49, 35, 102]) (.splitResult [[97, 98], [99, 100], [47, 101, 102], [103, 104], [105, 106]])) = .err .valueError := by decide +kernel
example : showU pe (dynUpdateQuery pe (pU [104, 116, 116, 112, 58, 47, 47, 104, 47, 112, 63, 97, 61, 49, 35, 102]) (.splitResult [[97, 98], [99, 100], [], [], []])) = .err .valueError := by decide +kernel
example : showU pe (dynUpdateQuery pe (pU [104, 116, 116, 112, 58, 47, 47, 104, 47, 112, 63, 97, 61, 49, 35, 102]) (.dict [((.int (1)), (.str [118]))])) = .err .typeError := by decide +kernel
example : showU pe (dynUpdateQuery pe (pU [104, 116, 116, 112, 58, 47, 47, 104, 47, 112, 63, 97, 61, 49, 35, 102]) (.dict [(.none, (.str [118]))])) = .err .typeError := by decide +kernel
example : showU pe (dynUpdateQuery pe (pU [104, 116, 116, 112, 58, 47, 47, 104, 47, 112, 63, 97, 61, 49, 35, 102]) (.dict [((.strSub [107]), (.str [118]))])) = .ok [104, 116, 116, 112, 58, 47, 47, 104, 47, 112, 63, 97, 61, 49, 38, 107, 61, 118, 35, 102] := by decide +kernel
example : showU pe (dynUpdateQuery pe (pU [104, 116, 116, 112, 58, 47, 47, 104, 47, 112, 63, 97, 61, 49, 35, 102]) (.dict [((.bool true), (.str [118]))])) = .err .typeError := by decide +kernel
example : showU pe (dynUpdateQuery pe (pU [104, 116, 116, 112, 58, 47, 47, 104, 47, 112, 63, 97, 61, 49, 35, 102]) (.dict [((.bytes [107]), (.str [118]))])) = .err .typeError := by decide +kernel
example : showU pe (dynUpdateQuery pe (pU [104, 116, 116, 112, 58, 47, 47, 104, 47, 112, 63, 97, 61, 49, 35, 102]) (.dict [((.int (1)), (.list []))])) = .err .typeError := by decide +kernel
example : showU pe (dynUpdateQuery pe (pU [104, 116, 116, 112, 58, 47, 47, 104, 47, 112, 63, 97, 61, 49, 35, 102]) (.dict [((.int (1)), (.list [(.str [97])]))])) = .err .typeError := by decide +kernel
example : showU pe (dynUpdateQuery pe (pU [104, 116, 116, 112, 58, 47, 47, 104, 47, 112, 63, 97, 61, 49, 35, 102]) (.dict [((.str [107]), (.splitResult [[97, 98], [99, 100], [47, 101, 102], [103, 104], [105, 106]]))])) = .ok [104, 116, 116, 112, 58, 47, 47, 104, 47, 112, 63, 97, 61, 49, 38, 107, 61, 97, 98, 38, 107, 61, 99, 100, 38, 107, 61, 47, 101, 102, 38, 107, 61, 103, 104, 38, 107, 61, 105, 106, 35, 102] := by decide +kernel
example : showU pe (dynUpdateQuery pe (pU [104, 116, 116, 112, 58, 47, 47, 104, 47, 112, 63, 97, 61, 49, 35, 102]) (.dict [((.str [107]), .none)])) = .err .typeError := by decide +kernel
example : showU pe (dynUpdateQuery pe (pU [104, 116, 116, 112, 58, 47, 47, 104, 47, 112, 63, 97, 61, 49, 35, 102]) (.dict [((.str [107]), (.bool true))])) = .err .typeError := by decide +kernel
example : showU pe (dynUpdateQuery pe (pU [104, 116, 116, 112, 58, 47, 47, 104, 47, 112, 63, 97, 61, 49, 35, 102]) (.dict [((.str [107]), (.float [110, 97, 110] 2))])) = .err .valueError := by decide +kernel
example : showU pe (dynUpdateQuery pe (pU [104, 116, 116, 112, 58, 47, 47, 104, 47, 112, 63, 97, 61, 49, 35, 102]) (.dict [((.str [107]), (.float [105, 110, 102] 1))])) = .err .valueError := by decide +kernel
example : showU pe (dynUpdateQuery pe (pU [104, 116, 116, 112, 58, 47, 47, 104, 47, 112, 63, 97, 61, 49, 35, 102]) (.dict [((.str [107]), (.bytes [118]))])) = .err .typeError := by decide +kernel
example : showU pe (dynUpdateQuery pe (pU [104, 116, 116, 112, 58, 47, 47, 104, 47, 112, 63, 97, 61, 49, 35, 102]) (.dict [((.str [107]), (.strSub [118]))])) = .ok [104, 116, 116, 112, 58, 47, 47, 104, 47, 112, 63, 97, 61, 49, 38, 107, 61, 118, 35, 102] := by decide +kernel
example : showU pe (dynUpdateQuery pe (pU [104, 116, 116, 112, 58, 47, 47, 104, 47, 112, 63, 97, 61, 49, 35, 102]) (.dict [((.str [107]), (.float [49, 46, 53] 0))])) = .ok [104, 116, 116, 112, 58, 47, 47, 104, 47, 112, 63, 97, 61, 49, 38, 107, 61, 49, 46, 53, 35, 102] := by decide +kernel
example : showU pe (dynUpdateQuery pe (pU [104, 116, 116, 112, 58, 47, 47, 104, 47, 112, 63, 97, 61, 49, 35, 102]) (.dict [((.str [107]), (.int (-7)))])) = .ok [104, 116, 116, 112, 58, 47, 47, 104, 47, 112, 63, 97, 61, 49, 38, 107, 61, 45, 55, 35, 102] := by decide +kernel
example : showU pe (dynUpdateQuery pe (pU [104, 116, 116, 112, 58, 47, 47, 104, 47, 112, 63, 97, 61, 49, 35, 102]) (.dict [((.str [107]), (.list [(.bool true)]))])) = .err .typeError := by decide +kernel
example : showU pe (dynUpdateQuery pe (pU [104, 116, 116, 112, 58, 47, 47, 104, 47, 112, 63, 97, 61, 49, 35, 102]) (.dict [((.str [107]), (.list [(.list [(.int (1))])]))])) = .err .typeError := by decide +kernel
example : showU pe (dynUpdateQuery pe (pU [104, 116, 116, 112, 58, 47, 47, 104, 47, 112, 63, 97, 61, 49, 35, 102]) (.dict [((.str [107]), (.dict []))])) = .err .typeError := by decide +kernel
example : showU pe (dynUpdateQuery pe (pU [104, 116, 116, 112, 58, 47, 47, 104, 47, 112, 63, 97, 61, 49, 35, 102]) (.dict [((.str [107]), (.url (pU [104, 116, 116, 112, 58, 47, 47, 104, 47, 112, 63, 97, 61, 49, 35, 102])))])) = .err .typeError := by decide +kernel
example : showU pe (dynUpdateQuery pe (pU [104, 116, 116, 112, 58, 47, 47, 104, 47, 112, 63, 97, 61, 49, 35, 102]) (.dict [((.str [107]), (.list [(.int (1)), (.str [120])]))])) = .ok [104, 116, 116, 112, 58, 47, 47, 104, 47, 112, 63, 97, 61, 49, 38, 107, 61, 49, 38, 107, 61, 120, 35, 102] := by decide +kernel
example : showU pe (dynUpdateQuery pe (pU [104, 116, 116, 112, 58, 47, 47, 104, 47, 112, 63, 97, 61, 49, 35, 102]) (.dict [((.str [97]), (.int (2))), ((.str [98]), (.float [110, 97, 110] 2))])) = .err .valueError := by decide +kernel
example : showU pe (dynUpdateQuery pe (pU [104, 116, 116, 112, 58, 47, 47, 104, 47, 112, 63, 97, 61, 49, 35, 102]) (.dict [((.str [98]), (.float [110, 97, 110] 2)), ((.int (1)), (.int (2)))])) = .err .typeError := by decide +kernel
example : showU pe (dynUpdateQuery pe (pU [104, 116, 116, 112, 58, 47, 47, 104, 47, 112, 63, 97, 61, 49, 35, 102]) (.list [(.tuple [(.int (1)), (.str [118])])])) = .err .typeError := by decide +kernel
example : showU pe (dynUpdateQuery pe (pU [104, 116, 116, 112, 58, 47, 47, 104, 47, 112, 63, 97, 61, 49, 35, 102]) (.list [(.tuple [.none, (.str [118])])])) = .err .typeError := by decide +kernel
example : showU pe (dynUpdateQuery pe (pU [104, 116, 116, 112, 58, 47, 47, 104, 47, 112, 63, 97, 61, 49, 35, 102]) (.list [(.tuple [(.strSub [107]), (.str [118])])])) = .ok [104, 116, 116, 112, 58, 47, 47, 104, 47, 112, 63, 97, 61, 49, 38, 107, 61, 118, 35, 102] := by decide +kernel
example : showU pe (dynUpdateQuery pe (pU [104, 116, 116, 112, 58, 47, 47, 104, 47, 112, 63, 97, 61, 49, 35, 102]) (.list [(.str [97, 98])])) = .ok [104, 116, 116, 112, 58, 47, 47, 104, 47, 112, 63, 97, 61, 98, 35, 102] := by decide +kernel
example : showU pe (dynUpdateQuery pe (pU [104, 116, 116, 112, 58, 47, 47, 104, 47, 112, 63, 97, 61, 49, 35, 102]) (.list [(.str [97, 98, 99])])) = .err .valueError := by decide +kernel
example : showU pe (dynUpdateQuery pe (pU [104, 116, 116, 112, 58, 47, 47, 104, 47, 112, 63, 97, 61, 49, 35, 102]) (.list [(.bytes [97, 98])])) = .err .typeError := by decide +kernel
example : showU pe (dynUpdateQuery pe (pU [104, 116, 116, 112, 58, 47, 47, 104, 47, 112, 63, 97, 61, 49, 35, 102]) (.list [(.int (1))])) = .err .typeError := by decide +kernel
example : showU pe (dynUpdateQuery pe (pU [104, 116, 116, 112, 58, 47, 47, 104, 47, 112, 63, 97, 61, 49, 35, 102]) (.list [.none])) = .err .typeError := by decide +kernel
example : showU pe (dynUpdateQuery pe (pU [104, 116, 116, 112, 58, 47, 47, 104, 47, 112, 63, 97, 61, 49, 35, 102]) (.list [(.tuple [(.str [107])])])) = .err .valueError := by decide +kernel
example : showU pe (dynUpdateQuery pe (pU [104, 116, 116, 112, 58, 47, 47, 104, 47, 112, 63, 97, 61, 49, 35, 102]) (.list [(.tuple [(.str [107]), (.str [118]), (.str [119])])])) = .err .valueError := by decide +kernel
example : showU pe (dynUpdateQuery pe (pU [104, 116, 116, 112, 58, 47, 47, 104, 47, 112, 63, 97, 61, 49, 35, 102]) (.list [(.list [(.str [107]), (.str [118])])])) = .ok [104, 116, 116, 112, 58, 47, 47, 104, 47, 112, 63, 97, 61, 49, 38, 107, 61, 118, 35, 102] := by decide +kernel
example : showU pe (dynUpdateQuery pe (pU [104, 116, 116, 112, 58, 47, 47, 104, 47, 112, 63, 97, 61, 49, 35, 102]) (.list [(.dict [((.str [107]), (.int (1))), ((.str [118]), (.int (2)))])])) = .ok [104, 116, 116, 112, 58, 47, 47, 104, 47, 112, 63, 97, 61, 49, 38, 107, 61, 118, 35, 102] := by decide +kernel
example : showU pe (dynUpdateQuery pe (pU [104, 116, 116, 112, 58, 47, 47, 104, 47, 112, 63, 97, 61, 49, 35, 102]) (.list [(.tuple [(.str [107]), (.list [(.int (1))])])])) = .err .typeError := by decide +kernel
example : showU pe (dynUpdateQuery pe (pU [104, 116, 116, 112, 58, 47, 47, 104, 47, 112, 63, 97, 61, 49, 35, 102]) (.list [(.tuple [(.str [107]), (.bool true)])])) = .err .typeError := by decide +kernel
example : showU pe (dynUpdateQuery pe (pU [104, 116, 116, 112, 58, 47, 47, 104, 47, 112, 63, 97, 61, 49, 35, 102]) (.list [(.tuple [(.str [107]), .none]), (.tuple [(.int (1)), (.str [118])])])) = .err .typeError := by decide +kernel
example : showU pe (dynUpdateQuery pe (pU [104, 116, 116, 112, 58, 47, 47, 104, 47, 112, 63, 97, 61, 49, 35, 102]) (.list [(.tuple [(.int (1)), (.float [110, 97, 110] 2)])])) = .err .typeError := by decide +kernel
example : showU pe (dynUpdateQuery pe (pU [104, 116, 116, 112, 58, 47, 47, 104, 47, 112, 63, 97, 61, 49, 35, 102]) (.list [(.tuple [(.str [107]), (.float [110, 97, 110] 2)]), (.tuple [(.int (1)), (.str [118])])])) = .err .typeError := by decide +kernel
example : showU pe (dynUpdateQuery pe (pU [104, 116, 116, 112, 58, 47, 47, 104, 47, 112, 63, 97, 61, 49, 35, 102]) (.list [(.tuple [(.str [107]), (.float [110, 97, 110] 2)]), (.str [97, 98, 99])])) = .err .valueError := by decide +kernel
example : showU pe (dynUpdateQuery pe (pU [104, 116, 116, 112, 58, 47, 47, 104, 47, 112, 63, 97, 61, 49, 35, 102]) (.list [(.tuple [(.str [107]), (.bool true)]), (.str [97, 98, 99])])) = .err .valueError := by decide +kernel
example : showU pe (dynUpdateQuery pe (pU [104, 116, 116, 112, 58, 47, 47, 104, 47, 112, 63, 97, 61, 49, 35, 102]) (.list [(.str [97, 98, 99]), (.tuple [(.str [107]), (.bool true)])])) = .err .valueError := by decide +kernel
example : showU pe (dynUpdateQuery pe (pU [104, 116, 116, 112, 58, 47, 47, 104, 47, 112, 63, 97, 61, 49, 35, 102]) (.list [(.tuple [(.int (1)), (.str [118])]), (.str [97, 98, 99])])) = .err .typeError := by decide +kernel
example : showU pe (dynUpdateQuery pe (pU [104, 116, 116, 112, 58, 47, 47, 104, 47, 112, 63, 97, 61, 49, 35, 102]) (.list [(.str [97, 98, 99]), (.tuple [(.int (1)), (.str [118])])])) = .err .valueError := by decide +kernel
example : showU pe (dynUpdateQuery pe (pU [104, 116, 116, 112, 58, 47, 47, 104, 47, 112, 63, 97, 61, 49, 35, 102]) (.list [(.tuple [(.int (1)), (.str [118])]), (.int (5))])) = .err .typeError := by decide +kernel
example : showU pe (dynUpdateQuery pe (pU [104, 116, 116, 112, 58, 47, 47, 104, 47, 112, 63, 97, 61, 49, 35, 102]) (.list [(.int (5)), (.tuple [(.int (1)), (.str [118])])])) = .err .typeError := by decide +kernel
example : showU pe (dynUpdateQuery pe (pU [104, 116, 116, 112, 58, 47, 47, 104, 47, 112, 63, 97, 61, 49, 35, 102]) (.tuple [(.tuple [(.str [107]), (.str [118])])])) = .ok [104, 116, 116, 112, 58, 47, 47, 104, 47, 112, 63, 97, 61, 49, 38, 107, 61, 118, 35, 102] := by decide +kernel
example : showU pe (dynUpdateQuery pe (pU [104, 116, 116, 112, 58, 47, 47, 104, 47, 112, 63, 97, 61, 49, 35, 102]) (.list [(.url (pU [104, 116, 116, 112, 58, 47, 47, 104, 47, 112, 63, 97, 61, 49, 35, 102]))])) = .err .typeError := by decide +kernel
example : showU pe (dynUpdateQuery pe (pU [104, 116, 116, 112, 58, 47, 47, 104, 47, 112, 63, 97, 61, 49, 35, 102]) (.list [(.splitResult [[97, 98], [99, 100], [47, 101, 102], [103, 104], [105, 106]])])) = .err .valueError := by decide +kernel
example : showU pe (dynUpdateQuery pe (pU [104, 116, 116, 112, 58, 47, 47, 104, 47, 112, 63, 97, 61, 49, 35, 102]) (.list [(.strSub [97, 98])])) = .ok [104, 116, 116, 112, 58, 47, 47, 104, 47, 112, 63, 97, 61, 98, 35, 102] := by decide +kernel
example : showU pe (dynUpdateQuery pe (pU [104, 116, 116, 112, 58, 47, 47, 104, 47, 112, 63, 97, 61, 49, 35, 102]) (.list [(.tuple [(.strSub [107]), (.strSub [118])])])) = .ok [104, 116, 116, 112, 58, 47, 47, 104, 47, 112, 63, 97, 61, 49, 38, 107, 61, 118, 35, 102] := by decide +kernel
example : showU pe (dynUpdateQuery pe (pU [104, 116, 116, 112, 58, 47, 47, 104, 47, 112, 63, 97, 61, 49, 35, 102]) (.list [(.tuple [(.str [97]), (.str [57])]), (.tuple [(.str [97]), (.bool true)])])) = .err .typeError := by decide +kernel
example : showU pe (dynUpdateQueryKw pe (pU [104, 116, 116, 112, 58, 47, 47, 104, 47, 112, 63, 97, 61, 49, 35, 102]) [([107], .none)]) = .err .typeError := by decide +kernel
example : showU pe (dynUpdateQueryKw pe (pU [104, 116, 116, 112, 58, 47, 47, 104, 47, 112, 63, 97, 61, 49, 35, 102]) [([107], (.list [(.int (1)), (.int (2))]))]) = .ok [104, 116, 116, 112, 58, 47, 47, 104, 47, 112, 63, 97, 61, 49, 38, 107, 61, 49, 38, 107, 61, 50, 35, 102] := by decide +kernel
example : showU pe (dynUpdateQueryKw pe (pU [104, 116, 116, 112, 58, 47, 47, 104, 47, 112, 63, 97, 61, 49, 35, 102]) []) = .err .valueError := by decide +kernel
example : showU pe (dynUpdateQueryKw pe (pU [104, 116, 116, 112, 58, 47, 47, 104, 47, 112, 63, 97, 61, 49, 35, 102]) [([107], (.float [110, 97, 110] 2))]) = .err .valueError := by decide +kernel
example : showU pe (dynUpdateQueryKw pe (pU [104, 116, 116, 112, 58, 47, 47, 104, 47, 112, 63, 97, 61, 49, 35, 102]) [([107], (.bytes [120]))]) = .err .typeError := by decide +kernel
example : showU pe (dynUpdateQueryKw pe (pU [104, 116, 116, 112, 58, 47, 47, 104, 47, 112, 63, 97, 61, 49, 35, 102]) [([97], (.int (5)))]) = .ok [104, 116, 116, 112, 58, 47, 47, 104, 47, 112, 63, 97, 61, 53, 35, 102] := by decide +kernel
end Yarl
