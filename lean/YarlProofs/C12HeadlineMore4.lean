import YarlProofs.C12Headline
import YarlProofs.C12HeadlineMore3
import YarlProofs.C12Spec
/-!
  C12HeadlineMore4.lean — AUDIT LAYER for property C12, continuation of C12Headline.lean / C12HeadlineMore3.lean (the
  theorems here need C12Spec.lean; this file is a leaf, nobody imports it).

  C12 | Query operations implement multi-dict algebra exactly |
  "with_query(q) yields exactly the pairs of q in order (a list/tuple value in a mapping expands to repeated keys; ints
  and floats are rendered by str()); extend_query appends q's pairs after the existing ones; update_query replaces all
  pairs whose key occurs in q and keeps every other pair in order; without_query_params removes exactly the named keys.
  None clears the query (with_query, update_query) or is a no-op (extend_query); bool, None values, NaN/inf and bytes
  are rejected with TypeError/ValueError; the argument is never mutated."

  What is here (C12Spec.lean) — GAPS 5 and 8 of C12Headline.lean.
   * an INDEPENDENT, non-iterative specification `mdUpdateSpec` of what `MultiDict(old).update(arg)` is meant to do
     (written by hand from the documented behaviour — a NEW TRUSTED DEFINITION, spelled out below by `rfl`), which
     satisfies the two update_query clauses of the property literally and WITHOUT any guard;
   * the EXACT characterisation of the inputs on which the transcription `mdUpdate` of multidict 6.2's `update()` agrees
     with it: `mdUpdate old arg = mdUpdateSpec old arg ↔ StaleFree old arg`, for all lists.  `StaleFree` is a decidable
     predicate on the two lists (a NEW definition whose reading must be trusted; spelled out below);
   * what happens when `StaleFree` fails (F-C12-multidict-tail, now characterised exactly instead of by one witness):
     the first offending surplus old pair survives at its place; the specified result is always a subsequence of the
     actual one; the extra pairs are old values of updated keys beyond the number of new values;
   * sufficient conditions for `StaleFree` that cover ordinary use (among them the guard `htail` of
     C12_headline_update_replaces);
   * the URL-level forms for a pair sequence, a single-valued mapping, a string and a list-valued mapping, for
     `Reach` and for `ReachE`.
  NOT here: a proof link between `mdUpdate` and multidict's source (there is none: GAPS 8 stays open in that respect);
  `mdUpdateSpec` is tied to multidict's DOCUMENTATION only by reading.

  Vocabulary added by C12Spec.lean.
  `valsOf k l`            — (MdLemmas.lean) the values of key `k` in the pair list `l`, in order (`md.getall(k)`).
  `ranked l`              — every pair of `l` with its RANK = the number of earlier pairs of `l` with the same key
                            (`[a=1, b=2, a=3]` ↦ `[(0, a=1), (0, b=2), (1, a=3)]`).
  `mdUpdateSpec old arg`  — the specified result of `MultiDict(old).update(arg)`: the r-th old pair of a key `k` that
                            occurs in `arg` becomes `k = (r-th value of k in arg)` IN PLACE, or is deleted when `arg` has
                            no r-th value for `k`; pairs of other keys stay; the r-th pair of `arg` for `k` is appended, in
                            argument order, when `old` has no r-th pair for `k`.
  `isSurplus arg (r, k, v)` — the old pair `k=v` of rank `r` is SURPLUS: `k` occurs in `arg` and `arg` has at most `r` values
                            for `k` (the specification deletes exactly these pairs).
  `surplusBefore old arg j` — the number of surplus pairs among the first `j` pairs of `old`.
  `staleFreeAt old arg j` — the check for position `j` of `old`: if the pair there is surplus (key `k`), the first
                            `j - surplusBefore old arg j` pairs of `old` already contain as many pairs of `k` as `arg` has
                            values for `k`.  (That difference is the running index of multidict's second loop, which lags
                            behind after deletions.)
  `StaleFree old arg`     — `staleFreeAt old arg j` for every position `j` of `old`; decidable.
  `R7.nk arg a`           — the number of NON-surplus pairs of the list `a` (ranks taken in `a`).
  `mdUpdate`, `keysOf`, `strItems`, `queryPairs`, `expandItems`, `SingleValued`, `GoodPairs`, `GoodText`, `Reach`, `ReachE`,
  `NoSurrogate`           — as in C12Headline.lean / C12HeadlineMore3.lean.
-/
set_option linter.unusedVariables false
namespace Yarl
open QsLemmas MdLemmas QueryUrl QsMore R7

universe u
variable {V : Type u}

/-! ## the specification and the condition, spelled out (both are TRUSTED definitions) -/

/-- what `ranked` and `mdUpdateSpec` are (definitions of C12Spec.lean, by `rfl`): the body maps / drops the old pairs by
    rank, the tail appends the argument's pairs whose rank is not below the number of old pairs of their key -/
theorem C12_headline_update_spec_def (old arg : List (Str × V)) :
    (∀ l : List (Str × V), ranked l = l.zipIdx.map (fun (p, i) => ((valsOf p.1 (l.take i)).length, p))) ∧
    mdUpdateSpec old arg =
      (ranked old).filterMap (fun (r, k, v) =>
          if k ∈ keysOf arg then ((valsOf k arg)[r]?).map (fun w => (k, w)) else some (k, v))
        ++ ((ranked arg).filter (fun (r, k, _) => (valsOf k old).length ≤ r)).map (·.2) :=
  ⟨fun _ => rfl, rfl⟩

/-- the specification on three worked inputs (a = [97], b = [98], c = [99]): overwrite in place and append the extra new
    value; delete the surplus old pairs; append new keys in argument order -/
theorem C12_headline_update_spec_examples :
    mdUpdateSpec [([97], 1), ([98], 2), ([97], 3)] [([97], 7), ([97], 8)] = [([97], 7), ([98], 2), ([97], 8)] ∧
    mdUpdateSpec [([97], 1), ([98], 2), ([97], 3), ([97], 4)] [([97], 7)] = [([97], 7), ([98], 2)] ∧
    mdUpdateSpec [([97], 1), ([98], 2)] [([99], 5), ([97], 7), ([97], 8), ([99], 6)] =
      [([97], 7), ([98], 2), ([99], 5), ([97], 8), ([99], 6)] := by
  decide

/-- what `StaleFree` says, with the positions given by splits of `old` (Cites R7.staleFree_iff_split, R7.isSurplus_iff):
    whenever `old = a ++ x :: b` and `x` (key `k`) is surplus — `k` is updated and `a` already holds as many pairs of `k`
    as `arg` has values for `k` — then the first `nk` pairs of `old`, `nk` = the number of NON-surplus pairs of `a`, already
    contain that many pairs of `k` -/
theorem C12_headline_staleFree_def (old arg : List (Str × V)) :
    (StaleFree old arg ↔ ∀ a x b, old = a ++ x :: b →
      x.1 ∈ keysOf arg → (valsOf x.1 arg).length ≤ (valsOf x.1 a).length →      -- `x` is a surplus pair
      (valsOf x.1 arg).length ≤ (valsOf x.1 (old.take (nk arg a))).length) ∧
    (∀ a : List (Str × V), nk arg a = ((ranked a).filter (fun y => !isSurplus arg y)).length) ∧
    (∀ (r : Nat) (x : Str × V), isSurplus arg (r, x) = true ↔ x.1 ∈ keysOf arg ∧ (valsOf x.1 arg).length ≤ r) := by
  refine ⟨?_, fun _ => rfl, isSurplus_iff arg⟩
  rw [staleFree_iff_split]
  constructor
  · intro h a x b hold hk hr
    exact h a x b hold ((isSurplus_iff arg _ x).2 ⟨hk, hr⟩)
  · intro h a x b hold hs
    obtain ⟨hk, hr⟩ := (isSurplus_iff arg _ x).1 hs
    exact h a x b hold hk hr

/-! ## GAPS 5 / 8 — multidict's `update()` against the specification -/

/-- GAPS 5, 8: the transcription `mdUpdate` of multidict 6.2's `update()` returns the SPECIFIED list exactly on the
    `StaleFree` inputs — for ALL lists, no other hypothesis.  Cites C12_mdUpdate_eq_spec_iff. -/
theorem C12_headline_multidict_update_is_spec_iff (old arg : List (Str × V)) :
    mdUpdate old arg = mdUpdateSpec old arg ↔ StaleFree old arg :=
  C12_mdUpdate_eq_spec_iff old arg

/-- "update_query replaces all pairs whose key occurs in q and keeps every other pair in order" — the SPECIFICATION
    satisfies both clauses literally, with NO guard: the pairs of the other keys are the old ones in order; for an updated
    key the pairs of the result are exactly the argument's pairs for that key, in order.
    Cites C12_spec_keeps_others, C12_spec_sets_keys, C12_spec_pairs_of_key. -/
theorem C12_headline_spec_satisfies_update_clauses (old arg : List (Str × V)) :
    (mdUpdateSpec old arg).filter (fun p => !(keysOf arg).contains p.1) =
      old.filter (fun p => !(keysOf arg).contains p.1) ∧
    (∀ k ∈ keysOf arg,
      ((mdUpdateSpec old arg).filter (fun p => p.1 = k)).map (·.2) = (arg.filter (fun p => p.1 = k)).map (·.2) ∧
      (mdUpdateSpec old arg).filter (fun p => p.1 = k) = arg.filter (fun p => p.1 = k)) :=
  ⟨C12_spec_keeps_others old arg,
   fun k hk => ⟨C12_spec_sets_keys old arg k hk, C12_spec_pairs_of_key old arg k hk⟩⟩

/-- "… in order" — POSITIONS in the specified result: a body whose key sequence is a subsequence of the old key sequence
    (surplus pairs deleted, every other pair kept or overwritten in place) followed by a subsequence of the argument; and
    when no updated key has more old pairs than new values nothing is deleted: the old key sequence is kept as is.
    Cites C12_spec_shape, C12_spec_in_place. -/
theorem C12_headline_spec_positions (old arg : List (Str × V)) :
    (∃ body appended, mdUpdateSpec old arg = body ++ appended ∧ (keysOf body).Sublist (keysOf old) ∧
      appended.Sublist arg) ∧
    ((∀ k ∈ keysOf arg, (valsOf k old).length ≤ (valsOf k arg).length) →      -- no surplus pair at all
      ∃ body appended, mdUpdateSpec old arg = body ++ appended ∧ keysOf body = keysOf old ∧ appended.Sublist arg) :=
  ⟨C12_spec_shape old arg, C12_spec_in_place old arg⟩

/-- GAPS 5, in EVERY case (no guard): the specified result is contained in the actual one, in order — multidict never
    loses or misplaces a pair, it can only FAIL TO DELETE; and per key the actual values are the specified ones followed
    by stale old values `S` of that key (a subsequence of the old values beyond the number of new ones), none for a key
    that is not updated.  Cites C12_mdUpdateSpec_sublist, C12_mdUpdate_extra_pairs. -/
theorem C12_headline_update_differs_only_by_stale_pairs (old arg : List (Str × V)) (k : Str) :
    (mdUpdateSpec old arg).Sublist (mdUpdate old arg) ∧
    ∃ S, ((mdUpdate old arg).filter (fun p => p.1 = k)).map (·.2) =
        ((mdUpdateSpec old arg).filter (fun p => p.1 = k)).map (·.2) ++ S ∧
      S.Sublist (((old.filter (fun p => p.1 = k)).map (·.2)).drop (arg.filter (fun p => p.1 = k)).length) ∧
      (k ∉ keysOf arg → S = []) :=
  ⟨C12_mdUpdateSpec_sublist old arg, C12_mdUpdate_extra_pairs old arg k⟩

/-- KNOWN FINDING F-C12-multidict-tail, characterised: what goes wrong when the input is NOT `StaleFree`.  Let `x` be the
    FIRST old pair whose check fails (`old = a ++ x :: b`).  Then `x` is a surplus pair and it SURVIVES unchanged at its
    place: the result is the specified one up to there (`a.length - surplusBefore …` pairs), then the stale `x`; and
    the result is not the specified one.  Cites C12_mdUpdate_first_stale, C12_mdUpdate_ne_spec_of_stale. -/
theorem C12_headline_update_first_stale_pair (old arg a : List (Str × V)) (x : Str × V) (b : List (Str × V))
    (hold : old = a ++ x :: b)
    (hpre : ∀ j, j < a.length → staleFreeAt old arg j = true)   -- every earlier position passes the check
    (hbad : staleFreeAt old arg a.length = false) :             -- position of `x` fails it
    isSurplus arg ((valsOf x.1 a).length, x) = true ∧
    (∃ tail, mdUpdate old arg =
      (mdUpdateSpec old arg).take (a.length - surplusBefore old arg a.length) ++ x :: tail) ∧
    mdUpdate old arg ≠ mdUpdateSpec old arg := by
  obtain ⟨h1, h2⟩ := C12_mdUpdate_first_stale old arg a x b hold hpre hbad
  refine ⟨h1, h2, C12_mdUpdate_ne_spec_of_stale old arg (fun h => ?_)⟩
  have := h a.length (by rw [hold]; simp)
  rw [hbad] at this
  exact Bool.false_ne_true this

/-- the witness of F-C12-multidict-tail through the new notions: `a=1&a=2&b=3&b=4` updated with `a=9&b=8` is NOT
    `StaleFree`; specified `a=9&b=8`, actual `a=9&b=8&b=4`.  The same old pairs in the order `a=1&b=3&a=2&b=4` ARE
    `StaleFree` (both keys have a surplus pair, but the surplus pairs come late) and give `a=9&b=8`; with a kept pair `c=5`
    between `b=3` and `b=4` the input is `StaleFree` again.  (Computed.) -/
theorem C12_headline_staleFree_examples :
    (¬ StaleFree [([97], 1), ([97], 2), ([98], 3), ([98], 4)] [([97], 9), ([98], 8)] ∧
      mdUpdateSpec [([97], 1), ([97], 2), ([98], 3), ([98], 4)] [([97], 9), ([98], 8)] = [([97], 9), ([98], 8)] ∧
      mdUpdate [([97], 1), ([97], 2), ([98], 3), ([98], 4)] [([97], 9), ([98], 8)] =
        [([97], 9), ([98], 8), ([98], 4)]) ∧
    (StaleFree [([97], 1), ([98], 3), ([97], 2), ([98], 4)] [([97], 9), ([98], 8)] ∧
      mdUpdate [([97], 1), ([98], 3), ([97], 2), ([98], 4)] [([97], 9), ([98], 8)] = [([97], 9), ([98], 8)]) ∧
    StaleFree [([97], 1), ([97], 2), ([98], 3), ([99], 5), ([98], 4)] [([97], 9), ([98], 8)] ∧
    ¬ StaleFree [([97], 1), ([97], 2), ([97], 0), ([98], 3), ([99], 5), ([98], 4)] [([97], 9), ([98], 8)] := by
  refine ⟨⟨by decide, by decide, C12_update_sets_keys_counterexample⟩, ⟨by decide, ?_⟩, by decide, by decide⟩
  rw [C12_mdUpdate_eq_spec _ _ (by decide)]; decide

/-! ## sufficient conditions for `StaleFree` (ordinary use) -/

/-- `StaleFree old arg` holds when: no updated key has more old pairs than new values; no key of the argument is repeated
    in the old list; the old list has no repeated key at all; at most ONE updated key (`k0`) has more old pairs than new
    values (this is the guard `htail` of C12_headline_update_replaces, for the key `k0`); the argument has a single key;
    the argument or the old list is empty.
    Cites C12_staleFree_of_no_surplus, _of_old_unrepeated, _of_nodup, _of_one_surplus_key, _single_key, _nil, _old_nil. -/
theorem C12_headline_staleFree_sufficient (old arg : List (Str × V)) (k0 : Str) :
    ((∀ k ∈ keysOf arg, (valsOf k old).length ≤ (valsOf k arg).length) → StaleFree old arg) ∧
    ((∀ k ∈ keysOf arg, (valsOf k old).length ≤ 1) → StaleFree old arg) ∧
    ((keysOf old).Nodup → StaleFree old arg) ∧
    ((∀ k ∈ keysOf arg, k ≠ k0 → (valsOf k old).length ≤ (valsOf k arg).length) → StaleFree old arg) ∧
    ((∀ k' ∈ keysOf arg, k' = k0) → StaleFree old arg) ∧
    StaleFree old [] ∧ StaleFree ([] : List (Str × V)) arg :=
  ⟨C12_staleFree_of_no_surplus old arg, C12_staleFree_of_old_unrepeated old arg, C12_staleFree_of_nodup old arg,
   C12_staleFree_of_one_surplus_key old arg k0, C12_staleFree_single_key old arg k0, C12_staleFree_nil old,
   C12_staleFree_old_nil arg⟩

/-- the general criterion "the surplus pairs come late": every surplus pair of a key `k` at position `j` is preceded by a
    prefix of `old` (length `t ≤ j`) that contains no surplus pair and already contains as many pairs of `k` as `arg` has
    values for `k`.  (Sufficient, not necessary.)  Cites C12_staleFree_of_surplus_late. -/
theorem C12_headline_staleFree_of_surplus_late (old arg : List (Str × V))
    (h : ∀ j, j < old.length → ∀ x ∈ (ranked old)[j]?, isSurplus arg x = true →
      ∃ t, t ≤ j ∧ surplusBefore old arg t = 0 ∧
        (valsOf x.2.1 arg).length ≤ (valsOf x.2.1 (old.take t)).length) :
    StaleFree old arg :=
  C12_staleFree_of_surplus_late old arg h

/-! ## `update_query` on a URL -/

/-- "update_query replaces all pairs whose key occurs in q and keeps every other pair in order" — pair SEQUENCE, single-
    valued MAPPING and STRING argument: the call succeeds; the resulting pairs are the SPECIFIED ones iff the input is
    `StaleFree`; and then both clauses hold literally (every updated key has exactly the argument's pairs, no guard per
    key).  Cites C12_url_update_query_spec, C12_url_update_query_spec_mapping, C12_url_update_query_spec_str. -/
theorem C12_headline_update_query_spec (e : Env) (u : Url) (items : List (Str × QItem)) (ps : List (Str × Str)) (s : Str)
    (hold : GoodPairs (queryPairs u)) :   -- old pairs are re-rendered (lone surrogate lost); true for reachable URLs
    (SingleValued items → expandItems items = some ps → GoodPairs ps → ps ≠ [] →
      (∃ v, updateQuery e u (.pairs items) = .ok v ∧
        (queryPairs v = mdUpdateSpec (queryPairs u) ps ↔ StaleFree (queryPairs u) ps) ∧
        (StaleFree (queryPairs u) ps →      -- excludes exactly multidict's stale duplicates (F-C12-multidict-tail)
          queryPairs v = mdUpdateSpec (queryPairs u) ps ∧
          (queryPairs v).filter (fun p => !(keysOf ps).contains p.1) =
            (queryPairs u).filter (fun p => !(keysOf ps).contains p.1) ∧
          ∀ k ∈ keysOf ps, (queryPairs v).filter (fun p => p.1 = k) = ps.filter (fun p => p.1 = k))) ∧
      (∃ v, updateQuery e u (.mapping items) = .ok v ∧
        (queryPairs v = mdUpdateSpec (queryPairs u) ps ↔ StaleFree (queryPairs u) ps) ∧
        (StaleFree (queryPairs u) ps →
          queryPairs v = mdUpdateSpec (queryPairs u) ps ∧
          (queryPairs v).filter (fun p => !(keysOf ps).contains p.1) =
            (queryPairs u).filter (fun p => !(keysOf ps).contains p.1) ∧
          ∀ k ∈ keysOf ps, (queryPairs v).filter (fun p => p.1 = k) = ps.filter (fun p => p.1 = k)))) ∧
    (GoodText s → s ≠ [] →                 -- the string is read by `parse_qsl` ('%XY' is an escape), like the old query
      ∃ v, updateQuery e u (.str s) = .ok v ∧
        (queryPairs v = mdUpdateSpec (queryPairs u) (parseQsl s) ↔ StaleFree (queryPairs u) (parseQsl s)) ∧
        (StaleFree (queryPairs u) (parseQsl s) →
          queryPairs v = mdUpdateSpec (queryPairs u) (parseQsl s) ∧
          (queryPairs v).filter (fun p => !(keysOf (parseQsl s)).contains p.1) =
            (queryPairs u).filter (fun p => !(keysOf (parseQsl s)).contains p.1) ∧
          ∀ k ∈ keysOf (parseQsl s),
            (queryPairs v).filter (fun p => p.1 = k) = (parseQsl s).filter (fun p => p.1 = k))) :=
  ⟨fun hs hden hg hne => ⟨C12_url_update_query_spec e u items ps hs hden hg hold hne,
      C12_url_update_query_spec_mapping e u items ps hs hden hg hold hne⟩,
   fun hs hne => C12_url_update_query_spec_str e u s hs hold hne⟩

/-- update_query with a MAPPING whose values may be lists / tuples: multidict acts on the SLOTS (a list value is ONE
    slot), so specification and condition are those of the slot lists; under `StaleFree` of the slot lists the resulting
    pairs are the expansion of the SPECIFIED slot list.  (One direction only: no iff is proved here.)
    Cites C12_url_update_query_spec_lists. -/
theorem C12_headline_update_query_spec_lists (e : Env) (u : Url) (items : List (Str × QItem)) (ps : List (Str × Str))
    (hden : expandItems items = some ps)   -- the mapping denotes pairs (no rejected value)
    (hg : GoodPairs ps)                    -- no lone surrogate in the argument (C06)
    (hold : GoodPairs (queryPairs u))      -- nor in the old query (re-rendered)
    (hne : items ≠ [])                     -- an empty mapping is a no-op (different code path)
    (hsf : StaleFree (strItems (queryPairs u)) items) :   -- on SLOTS: old pairs as single-valued slots vs the mapping's slots
    ∃ v ps', updateQuery e u (.mapping items) = .ok v ∧ queryPairs v = ps' ∧
      expandItems (mdUpdateSpec (strItems (queryPairs u)) items) = some ps' :=
  C12_url_update_query_spec_lists e u items ps hden hg hold hne hsf

/-- for URLs obtained through the auto-encoding API (`Reach`) the hypothesis on the old query is discharged: under
    `StaleFree`, update_query with a pair sequence / single-valued mapping yields exactly the specified pairs.
    Cites C12_reach_update_query_spec. -/
theorem C12_headline_update_query_spec_reachable (e : Env) (u : Url)
    (hr : Reach e u)                       -- obtained through the auto-encoding API
    (items : List (Str × QItem)) (ps : List (Str × Str)) (hs : SingleValued items)
    (hden : expandItems items = some ps) (hg : GoodPairs ps) (hne : ps ≠ [])
    (hsf : StaleFree (queryPairs u) ps) :  -- excludes exactly multidict's stale duplicates
    (∃ v, updateQuery e u (.pairs items) = .ok v ∧ queryPairs v = mdUpdateSpec (queryPairs u) ps) ∧
    (∃ v, updateQuery e u (.mapping items) = .ok v ∧ queryPairs v = mdUpdateSpec (queryPairs u) ps) :=
  C12_reach_update_query_spec e u hr items ps hs hden hg hne hsf

/-- … and over `ReachE` (ALL entry points incl. `encoded=True`) under the one hypothesis of C12HeadlineMore3.lean, no lone
    surrogate in the stored query: the iff with the specification and the literal clauses, for a pair sequence.
    Cites C12_reachE_good_pairs (C12ReachE.lean), C12_url_update_query_spec. -/
theorem C12_headline_reachE_update_query_spec (e : Env) (u : Url)
    (hr : ReachE e u)                      -- obtainable through any entry point
    (hq : NoSurrogate u.query)             -- no lone surrogate in the stored query (needed: …_reachE_fails_for_surrogate)
    (items : List (Str × QItem)) (ps : List (Str × Str)) (hs : SingleValued items)
    (hden : expandItems items = some ps) (hg : GoodPairs ps) (hne : ps ≠ []) :
    ∃ v, updateQuery e u (.pairs items) = .ok v ∧
      (queryPairs v = mdUpdateSpec (queryPairs u) ps ↔ StaleFree (queryPairs u) ps) ∧
      (StaleFree (queryPairs u) ps →
        queryPairs v = mdUpdateSpec (queryPairs u) ps ∧
        (queryPairs v).filter (fun p => !(keysOf ps).contains p.1) =
          (queryPairs u).filter (fun p => !(keysOf ps).contains p.1) ∧
        ∀ k ∈ keysOf ps, (queryPairs v).filter (fun p => p.1 = k) = ps.filter (fun p => p.1 = k)) :=
  C12_url_update_query_spec e u items ps hs hden hg (C12_reachE_good_pairs e u hr hq).2 hne

/-- KNOWN FINDING F-C12-multidict-tail at URL level, through the specification: `?a=1&a=2&b=3&b=4` updated with
    `[("a", 9), ("b", 8)]` succeeds, the specified pairs are `a=9&b=8`, and the result is NOT the specified one (the input
    is not `StaleFree`); `?a=1&b=3&a=2&b=4` (same pairs, other order) IS `StaleFree` and gives exactly `a=9&b=8`.
    Cites C12_url_update_query_spec. -/
theorem C12_headline_update_query_spec_fails_for_stale_duplicate (e : Env) :
    (∃ v, updateQuery e R7.staleUrl (.pairs R7.newItems) = .ok v ∧
      queryPairs v ≠ mdUpdateSpec (queryPairs R7.staleUrl) R7.newPs ∧
      mdUpdateSpec (queryPairs R7.staleUrl) R7.newPs = [([97], [57]), ([98], [56])] ∧
      ¬ StaleFree (queryPairs R7.staleUrl) R7.newPs) ∧
    (∃ v, updateQuery e R7.okUrl (.pairs R7.newItems) = .ok v ∧ queryPairs v = [([97], [57]), ([98], [56])] ∧
      StaleFree (queryPairs R7.okUrl) R7.newPs) := by
  constructor
  · obtain ⟨v, h1, h2, _⟩ := C12_url_update_query_spec e R7.staleUrl R7.newItems R7.newPs (by decide) (by decide)
      (by decide) (by decide +kernel) (by decide)
    exact ⟨v, h1, fun h => absurd (h2.1 h) (by decide +kernel), by decide +kernel, by decide +kernel⟩
  · obtain ⟨v, h1, _, h3⟩ := C12_url_update_query_spec e R7.okUrl R7.newItems R7.newPs (by decide) (by decide)
      (by decide) (by decide +kernel) (by decide)
    refine ⟨v, h1, ?_, by decide +kernel⟩
    rw [(h3 (by decide +kernel)).1]
    decide +kernel

end Yarl
